(* FormatContent.v — C06: the CONTENT level of the FORMAT.md codec (Format.decode_content /
   Format.encode_content): the archive footer (file index) is parsed back, a block list followed
   by EndOfArchiveData and an index decodes to "scan the blocks, compare with the index", and the
   canonical encoder's output decodes to exactly the files given:
     format_content_roundtrip : wf_files files -> decode_content (encode_content files) = Ok files'
   for ALL file lists (distinct valid-UTF-8 names, any contents incl. empty, positions below 2^64,
   index below 2^32 bytes — the index length is a u32 in the format).  The canonical encoder
   writes file after file; interleaved block streams are covered by FormatScan.scan_shapes and
   FormatWriterBridge.v.  No axioms. *)
From MLA Require Import Limit.
From MLA Require Import Base Stream Blocks RoundTripBlocks RoundTripWriter Format FormatProofs FormatScan.
From Coq Require Import ZifyBool ZifyNat ZifyN.
Open Scope N_scope.

(* ---------- the index ---------- *)
Definition fwf_finfo (fi : Format.finfo) : Prop :=
  len (Format.fi_offsets fi) < 2 ^ 64 /\ Forall (fun o => o < 2 ^ 64) (Format.fi_offsets fi) /\
  Format.fi_size fi < 2 ^ 64 /\ Format.fi_eof fi < 2 ^ 64.
Definition fwf_entry (e : bytes * Format.finfo) : Prop :=
  len (fst e) < 2 ^ 64 /\ utf8_valid (fst e) = true /\ fwf_finfo (snd e).
Definition fwf_footer (m : list (bytes * Format.finfo)) : Prop := len m < 2 ^ 64 /\ Forall fwf_entry m.

(* the serialized HashMap, without the trailing length *)
Definition ser_fmap (m : list (bytes * Format.finfo)) : bytes :=
  Format.le64 (len m) ++ concat (map Format.ser_entry m).

Lemma take_entry_ser e r : fwf_entry e -> take_entry (Format.ser_entry e ++ r) = Some (e, r).
Proof.
  destruct e as [name [offs size eof]]. unfold fwf_entry, fwf_finfo.
  cbn [fst snd Format.fi_offsets Format.fi_size Format.fi_eof].
  intros (Hn & Hu & Ho & Hos & Hs & He).
  unfold take_entry, Format.ser_entry, Format.ser_finfo. cbn [fst snd Format.fi_offsets Format.fi_size Format.fi_eof].
  rewrite <- !app_assoc. rewrite take_le64_app by exact Hn.
  rewrite take_app by reflexivity. rewrite Hu. cbn [negb].
  rewrite take_le64_app by exact Ho.
  assert (Hlo : len (concat (map Format.le64 offs)) = 8 * len offs).
  { apply len_concat_const. intros x _. apply FormatProofs.len_le64. }
  rewrite len_app, Hlo.
  destruct (N.ltb_spec (8 * len offs + len (Format.le64 size ++ Format.le64 eof ++ r)) (8 * len offs)); [lia|].
  unfold len at 1. rewrite Nat2N.id.
  rewrite (take_items_app (take_le 8) Format.le64).
  2:{ intros x r' Hin. rewrite Forall_forall in Hos. apply take_le64_app. exact (Hos x Hin). }
  rewrite take_le64_app by exact Hs. rewrite take_le64_app by exact He. reflexivity.
Qed.

Lemma len_ser_entry_ge32 e : 32 <= len (Format.ser_entry e).
Proof. unfold Format.ser_entry, Format.ser_finfo. rewrite !len_app, !FormatProofs.len_le64. lia. Qed.
Lemma len_ser_entries_ge32 es : 32 * len es <= len (concat (map Format.ser_entry es)).
Proof.
  induction es as [|e es IH]; cbn [map concat]; [unfold len; cbn [length]; lia|].
  rewrite len_app, len_cons. pose proof (len_ser_entry_ge32 e). lia.
Qed.

Theorem parse_footer_ser m : fwf_footer m -> parse_footer (ser_fmap m) = Some m.
Proof.
  intros [Hl Hm]. unfold parse_footer, ser_fmap. rewrite take_le64_app by exact Hl.
  pose proof (len_ser_entries_ge32 m).
  destruct (N.ltb_spec (len (concat (map Format.ser_entry m))) (32 * len m)); [lia|].
  unfold len at 1. rewrite Nat2N.id.
  rewrite <- (app_nil_r (concat (map Format.ser_entry m))).
  rewrite (take_items_app take_entry Format.ser_entry); [reflexivity|].
  intros e r Hin. rewrite Forall_forall in Hm. apply take_entry_ser. exact (Hm e Hin).
Qed.

Lemma lookup_name_in m k v : NoDup (map fst m) -> In (k, v) m -> lookup_name m k = Some v.
Proof.
  induction m as [|[k0 v0] m IH]; cbn [lookup_name map fst In]; [tauto|].
  intros Hnd Hin. inversion Hnd as [|? ? Hnin Hnd']; subst. destruct Hin as [Hin|Hin].
  - injection Hin as -> ->. rewrite bytes_eqb_refl. reflexivity.
  - destruct (bytes_eqb k0 k) eqn:E; [|exact (IH Hnd' Hin)].
    apply bytes_eqb_eq in E. subst k0. exfalso. apply Hnin. apply in_map_iff. exists (k, v). auto.
Qed.

Section Content.
  Context {LIM : Limit}.
  Variable H : bytes -> bytes.
  Hypothesis HHlen : forall x, len (H x) = 32.

  (* ---------- blocks ++ EndOfArchiveData ++ index ---------- *)
  Theorem decode_content_blocks bl m :
    Forall fwf bl -> fwf_footer m -> len (ser_fmap m) < 2 ^ 32 ->
    decode_content H (fser_blocks bl ++ [BT_END] ++ Format.ser_footer m) =
    do fs <- bscan 0 None [] bl;
    if negb (len fs =? len m) then Err EMissingMeta else check_files H m fs.
  Proof.
    clear HHlen. intros Hwf Hm Hl32. unfold decode_content, Format.ser_footer. fold (ser_fmap m).
    cbv zeta.
    replace (fser_blocks bl ++ [BT_END] ++ ser_fmap m ++ Format.le32 (len (ser_fmap m)))
      with (((fser_blocks bl ++ [BT_END]) ++ ser_fmap m) ++ Format.le32 (len (ser_fmap m)))
      by (rewrite <- !app_assoc; reflexivity).
    rewrite take_last_le32 by exact Hl32.
    destruct (N.ltb_spec (len ((fser_blocks bl ++ [BT_END]) ++ ser_fmap m)) (len (ser_fmap m))) as [Hlt|_].
    { rewrite len_app in Hlt. lia. }
    replace (len ((fser_blocks bl ++ [BT_END]) ++ ser_fmap m) - len (ser_fmap m))
      with (len (fser_blocks bl ++ [BT_END])) by (rewrite (len_app (_ ++ _)); lia).
    rewrite takeN_len_app, dropN_len_app, parse_footer_ser by exact Hm.
    rewrite scan_ser_blocks; [reflexivity | exact Hwf |].
    rewrite app_length. unfold len. cbn [length]. lia.
  Qed.

  Lemma check_files_ok m fs : NoDup (map fst m) ->
    Forall (fun f => f_hash f = Some (H (f_content f)) /\
                     In (f_name f, Format.mkFI (f_runs f) (len (f_content f)) (f_eof f)) m) fs ->
    check_files H m fs = Ok (map (fun f => (f_name f, f_content f, H (f_content f))) fs).
  Proof.
    clear HHlen. intros Hnd. induction 1 as [|f fs [Hh Hin] _ IH]; cbn [check_files map]; [reflexivity|].
    unfold check_file at 1. rewrite Hh, bytes_eqb_refl. cbn [negb].
    rewrite (lookup_name_in m _ _ Hnd Hin). cbn [Format.fi_size Format.fi_eof Format.fi_offsets].
    rewrite !N.eqb_refl. unfold list_eqbN. rewrite bytes_eqb_refl. cbn [andb bind].
    rewrite IH. reflexivity.
  Qed.

  (* ---------- the canonical encoder ---------- *)
  Definition fblocks (id : N) (f : bytes * bytes) : list block :=
    BStart id (fst f) :: (match snd f with [] => [] | _ => [BContent id (snd f)] end) ++ [BEof id (H (snd f))].
  Fixpoint all_blocks (id : N) (files : list (bytes * bytes)) : list block :=
    match files with [] => [] | f :: r => fblocks id f ++ all_blocks (id + 1) r end.
  Fixpoint findex (id pos : N) (files : list (bytes * bytes)) : list (bytes * Format.finfo) :=
    match files with
    | [] => []
    | f :: r => (fst f, Format.mkFI [pos] (len (snd f)) (pos + eof_rel f))
                :: findex (id + 1) (pos + len (file_blocks H id f)) r
    end.
  Fixpoint fstates (id pos : N) (files : list (bytes * bytes)) : list fstate :=
    match files with
    | [] => []
    | f :: r => mkF id (fst f) (snd f) (Some (H (snd f))) [pos] (pos + eof_rel f)
                :: fstates (id + 1) (pos + len (file_blocks H id f)) r
    end.

  Lemma file_blocks_ser id f : file_blocks H id f = fser_blocks (fblocks id f).
  Proof.
    clear HHlen. destruct f as [name [|c content]]; unfold file_blocks, fblocks, RoundTripBlocks.ser_blocks;
      cbn [fst snd map concat Blocks.ser_block app]; rewrite <- ?app_assoc, ?app_nil_r; reflexivity.
  Qed.
  Lemma len_file_blocks id f : len (file_blocks H id f) = eof_rel f + 41.
  Proof.
    destruct f as [name [|c content]]; unfold file_blocks, eof_rel; cbn [fst snd];
      rewrite ?len_app, ?FormatProofs.len_le64, ?HHlen, ?len_cons, ?len_nil; lia.
  Qed.
  Lemma enc_files_spec files : forall id pos,
    enc_files H id pos files = (fser_blocks (all_blocks id files), findex id pos files).
  Proof.
    clear HHlen. induction files as [|f files IH]; intros id pos; cbn [enc_files all_blocks findex]; [reflexivity|].
    rewrite IH, ser_blocks_app, file_blocks_ser. reflexivity.
  Qed.

  Lemma has_id_snoc fs f i : Format.has_id (fs ++ [f]) i = Format.has_id fs i || (f_id f =? i).
  Proof.
    induction fs as [|g fs IH]; cbn [app Format.has_id]; [apply orb_false_r|]. rewrite IH. apply orb_assoc.
  Qed.
  Lemma upd_snoc fs f id g : Format.has_id fs id = false -> f_id f = id ->
    upd (fs ++ [f]) id g = do f' <- g f; Ok (fs ++ [f']).
  Proof.
    intros Hno Hid. induction fs as [|x fs IH]; cbn [app upd Format.has_id] in *.
    - rewrite Hid, N.eqb_refl. reflexivity.
    - apply orb_false_iff in Hno. destruct Hno as [Hx Hfs]. rewrite Hx, (IH Hfs).
      destruct (g f); reflexivity.
  Qed.

  Lemma bscan_files files : forall id pos last fs, (forall i, id <= i -> Format.has_id fs i = false) ->
    bscan pos last fs (all_blocks id files) = Ok (fs ++ fstates id pos files).
  Proof.
    induction files as [|f files IH]; intros id pos last fs Hfresh; cbn [all_blocks fstates bscan].
    - rewrite app_nil_r. reflexivity.
    - rewrite len_file_blocks. destruct f as [name content]. unfold fblocks, eof_rel. cbn [fst snd app bscan].
      rewrite (Hfresh id (N.le_refl _)).
      assert (Hfresh' : forall f0, f_id f0 = id -> forall i, id + 1 <= i -> Format.has_id (fs ++ [f0]) i = false).
      { intros f0 Hf0 i Hi. rewrite has_id_snoc, (Hfresh i ltac:(lia)), Hf0. cbn [orb]. apply N.eqb_neq. lia. }
      destruct content as [|c content]; cbn [app bscan].
      + rewrite upd_snoc by (auto using N.le_refl). unfold eof_upd, mark. cbn [f_hash bind f_id f_name f_content f_runs f_eof].
        rewrite N.eqb_refl. cbn [f_id f_name f_content f_runs f_eof].
        rewrite IH by (apply Hfresh'; reflexivity). rewrite <- app_assoc. cbn [app].
        do 4 f_equal; lia.
      + rewrite upd_snoc by (auto using N.le_refl). unfold cont_upd at 1, mark. cbn [f_hash bind f_id f_name f_content f_runs f_eof].
        rewrite N.eqb_refl. cbn [f_id f_name f_content f_runs f_eof bind app].
        rewrite upd_snoc by (auto using N.le_refl). unfold eof_upd, mark. cbn [f_hash bind f_id f_name f_content f_runs f_eof].
        rewrite N.eqb_refl. cbn [f_id f_name f_content f_runs f_eof].
        rewrite IH by (apply Hfresh'; reflexivity). rewrite <- app_assoc. cbn [app].
        do 4 f_equal; lia.
  Qed.

  (* total length of the block stream / of the serialized index *)
  Fixpoint stream_len (files : list (bytes * bytes)) : N :=
    match files with [] => 0 | f :: r => eof_rel f + 41 + stream_len r end.
  Fixpoint index_len (files : list (bytes * bytes)) : N :=
    match files with [] => 8 | f :: r => 40 + len (fst f) + index_len r end.

  Definition wf_files (files : list (bytes * bytes)) : Prop :=
    NoDup (map fst files) /\ Forall (fun f => utf8_valid (fst f) = true) files /\
    stream_len files < 2 ^ 64 /\ index_len files < 2 ^ 32.

  Lemma eof_rel_bounds (f : bytes * bytes) : 17 + len (fst f) <= eof_rel f /\ len (snd f) <= eof_rel f.
  Proof. destruct f as [name [|c content]]; unfold eof_rel; cbn [fst snd]; unfold len; cbn [length]; lia. Qed.

  Lemma all_blocks_fwf files : forall id, Forall (fun f => utf8_valid (fst f) = true) files ->
    id + stream_len files < 2 ^ 64 -> Forall fwf (all_blocks id files).
  Proof.
    induction files as [|f files IH]; intros id Hu Hlen; cbn [all_blocks stream_len] in *; [constructor|].
    inversion Hu as [|? ? Hu1 Hu2]; subst. pose proof (eof_rel_bounds f) as [Hb1 Hb2].
    apply Forall_app. split; [|apply IH; [exact Hu2 | lia]].
    destruct f as [name content]. cbn [fst snd] in *.
    unfold fblocks. cbn [fst snd]. constructor; [cbn [fwf]; repeat split; [lia | lia | exact Hu1]|].
    apply Forall_app. split.
    - destruct content as [|c content]; constructor; [|constructor]. cbn [fwf]. split; lia.
    - constructor; [|constructor]. cbn [fwf]. split; [lia | apply HHlen].
  Qed.
  Lemma findex_wf files : forall id pos, Forall (fun f => utf8_valid (fst f) = true) files ->
    pos + stream_len files < 2 ^ 64 -> Forall fwf_entry (findex id pos files).
  Proof.
    induction files as [|f files IH]; intros id pos Hu Hlen; cbn [findex stream_len] in *; [constructor|].
    inversion Hu as [|? ? Hu1 Hu2]; subst. pose proof (eof_rel_bounds f) as [Hb1 Hb2].
    constructor; [|apply IH; [exact Hu2 | rewrite len_file_blocks; lia]].
    destruct f as [name content]. cbn [fst snd] in *.
    unfold fwf_entry, fwf_finfo. cbn [fst snd Format.fi_offsets Format.fi_size Format.fi_eof].
    split; [lia|]. split; [exact Hu1|]. split; [unfold len; cbn [length]; lia|].
    split; [constructor; [lia | constructor]|]. split; lia.
  Qed.
  Lemma findex_keys files : forall id pos, map fst (findex id pos files) = map fst files.
  Proof. induction files as [|f files IH]; intros id pos; cbn [findex map fst]; [reflexivity | now rewrite IH]. Qed.
  Lemma len_files_le files : len files <= stream_len files.
  Proof.
    induction files as [|f files IH]; cbn [stream_len]; [unfold len; cbn [length]; lia|].
    rewrite len_cons. pose proof (eof_rel_bounds f). lia.
  Qed.
  Lemma len_ser_findex files : forall id pos, len (ser_fmap (findex id pos files)) = index_len files.
  Proof.
    clear HHlen. intros id pos. unfold ser_fmap. rewrite len_app, FormatProofs.len_le64.
    revert id pos. induction files as [|f files IH]; intros id pos; cbn [findex map concat index_len]; [rewrite len_nil; lia|].
    rewrite len_app. specialize (IH (id + 1) (pos + len (file_blocks H id f))).
    unfold Format.ser_entry at 1, Format.ser_finfo. cbn [fst snd Format.fi_offsets Format.fi_size Format.fi_eof map concat].
    rewrite !len_app, !FormatProofs.len_le64, len_nil. lia.
  Qed.
  Lemma fstates_ok files : forall id pos,
    Forall (fun f => f_hash f = Some (H (f_content f)) /\
                     In (f_name f, Format.mkFI (f_runs f) (len (f_content f)) (f_eof f)) (findex id pos files))
           (fstates id pos files) /\
    map (fun f => (f_name f, f_content f, H (f_content f))) (fstates id pos files)
    = map (fun f => (fst f, snd f, H (snd f))) files.
  Proof.
    clear HHlen. induction files as [|f files IH]; intros id pos; cbn [fstates findex map]; [split; [constructor | reflexivity]|].
    destruct (IH (id + 1) (pos + len (file_blocks H id f))) as [IH1 IH2]. split.
    - constructor.
      + cbn [f_hash f_content f_name f_runs f_eof]. split; [reflexivity | left; reflexivity].
      + eapply Forall_impl; [|exact IH1]. cbn beta. intros a [Ha1 Ha2]. split; [exact Ha1 | right; exact Ha2].
    - cbn [f_name f_content]. rewrite IH2. reflexivity.
  Qed.

  Lemma length_fstates files : forall id pos, length (fstates id pos files) = length files.
  Proof. induction files as [|f files IH]; intros id pos; cbn [fstates length]; [reflexivity | now rewrite IH]. Qed.

  (* THE round trip of the content level *)
  Theorem format_content_roundtrip files : wf_files files ->
    decode_content H (encode_content H files) = Ok (map (fun f => (fst f, snd f, H (snd f))) files).
  Proof.
    intros (Hnd & Hu & Hs & Hi). unfold encode_content. rewrite enc_files_spec.
    assert (Hm : fwf_footer (findex 0 0 files)).
    { split; [|apply findex_wf; [exact Hu | lia]].
      unfold len. rewrite <- (map_length fst), findex_keys, map_length. fold (len files).
      pose proof (len_files_le files). lia. }
    rewrite decode_content_blocks; [| apply all_blocks_fwf; [exact Hu | lia] | exact Hm | rewrite len_ser_findex; exact Hi].
    rewrite (bscan_files files 0 0 None []) by reflexivity. cbn [bind app].
    assert (Hl : len (fstates 0 0 files) = len (findex 0 0 files)).
    { unfold len. f_equal. rewrite <- (map_length fst (findex 0 0 files)), findex_keys, map_length.
      apply length_fstates. }
    rewrite Hl, N.eqb_refl. cbn [negb].
    destruct (fstates_ok files 0 0) as [Hok Hmap].
    rewrite check_files_ok; [rewrite Hmap; reflexivity | rewrite findex_keys; exact Hnd | exact Hok].
  Qed.
End Content.
