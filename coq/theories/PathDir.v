(* PathDir.v — the PROLOGUE of `mlar extract` on the model file system of Path.v (work package fixcli):

       if !output_dir.exists() { fs::create_dir(output_dir)?; }
       let output_dir = fs::canonicalize(output_dir)?;

   (mlar/src/main.rs, fn extract, after open_mla_file and before list_files).  Adds to Path.v's operations
   `fs::create_dir` = mkdir(2): the parent is resolved following symbolic links and must be a directory; the
   last component must not exist in ANY form (a dangling symbolic link there is EEXIST: mkdir does not follow
   it); ONE directory is created, at the physical place (so through a link in the parent, where the link
   points).  Unlike create_dir_all a missing parent is an error (ENOENT) and an existing directory too (the
   code guards it with `!exists()`).
   The `-o` argument is modelled as an absolute literal path (components from the sandbox root, no "." / "..");
   a relative argument is that path below the current directory.
   Definitions only; proofs in PathDirProofs.v. *)
From MLA Require Import Base Path.

(* mkdir(path) *)
Definition create_dir (f : fs) (p : path) : option fs :=
  match split_last p with
  | None => None                                   (* "/": EEXIST *)
  | Some (par, c) =>
      match canonicalize f par with
      | Some q =>
          if is_dir f q then
            match lookup f (q ++ [c]) with
            | None => Some (set f (q ++ [c]) Dir)
            | Some _ => None                       (* EEXIST: a file, a directory, a link (dangling or not) *)
            end
          else None                                (* ENOTDIR *)
      | None => None                               (* ENOENT / ENOTDIR / ELOOP on the way *)
      end
  end.

(* with the limits of the system-call interface (Path.sys_ok) *)
Definition sys_create_dir (f : fs) (p : path) : option fs := if sys_ok p then create_dir f p else None.

(* the prologue: file system afterwards and the canonical output directory handed to create_file
   (None: `?` — the command ends with an error, before list_files) *)
Definition extract_prologue (f : fs) (o : path) : fs * option path :=
  if sys_ok o && exists_ f o then (f, canonicalize f o)
  else
    match sys_create_dir f o with
    | Some f1 => (f1, canonicalize f1 o)
    | None => (f, None)
    end.

(* a command that takes the canonical output directory, run behind the prologue *)
Definition behind_prologue (cmd : path -> fs -> fs * bool) (o : path) (f : fs) : fs * bool :=
  match extract_prologue f o with
  | (f1, Some q) => cmd q f1
  | (f1, None) => (f1, false)
  end.
