(* Inst.v — executable instances: the size constants as translated from the source (both
   flavours) and a toy cipher for the correspondence runs whose observables do not depend on
   the cipher (positions, framing, state machines). *)
From MLA Require Import Base Stream EncLayer.
From MLAGen Require Src.
Open Scope N_scope.

Record consts := mkConsts {
  cCHUNK : N; cTAG : N; cCIPHERBUF : N; cBLOCK : N; cFSBUF : N; cCACHE : N; cFNMAX : N;
}.
Definition consts_verif : consts :=
  mkConsts Src.CHUNK_SIZE_verif Src.TAG_LENGTH_verif Src.CIPHER_BUF_SIZE_verif
           Src.UNCOMPRESSED_DATA_SIZE_verif Src.FAIL_SAFE_BUFFER_SIZE_verif Src.CACHE_SIZE_verif
           Src.FILENAME_MAX_SIZE_verif.
Definition consts_prod : consts :=
  mkConsts Src.CHUNK_SIZE_prod Src.TAG_LENGTH_prod Src.CIPHER_BUF_SIZE_prod
           Src.UNCOMPRESSED_DATA_SIZE_prod Src.FAIL_SAFE_BUFFER_SIZE_prod Src.CACHE_SIZE_prod
           Src.FILENAME_MAX_SIZE_prod.
(* flavour 0 = scaled (mla_verif), 1 = production *)
Definition consts_of (flavour : N) : consts := if flavour =? 0 then consts_verif else consts_prod.

(* toy keystream and tag: length-preserving xor, TAG-byte tag depending on counter and data *)
Definition toy_ks (i off : N) : N := (i * 131 + off * 7 + 89) mod 256.
Definition toy_sum (c : bytes) : N := fold_left (fun a x => (a * 31 + x + 1) mod 65521) c 7.
Definition toy_tag (TAG : N) (i : N) (c : bytes) : bytes :=
  map (fun j => (toy_sum c + i * 17 + N.of_nat j * 29) mod 256) (seq 0 (N.to_nat TAG)).
Lemma len_toy_tag TAG i c : len (toy_tag TAG i c) = TAG.
Proof. unfold toy_tag, len. rewrite map_length, seq_length. apply N2Nat.id. Qed.
