(* RawLayer.v — model of mla/src/layers/raw.rs, RawLayerReader (definitions only; proofs in
   RawLayerProofs.v).  The raw layer wraps the I/O source and offers positions relative to
   `offset_pos` (the position right after the archive header, pinned by reset_position). *)
From MLA Require Import Base Stream.
Open Scope N_scope.

Section Raw.
  Variable S : Stream.

  Record rstate := mkR {
    r_in : st S;     (* inner *)
    r_off : N;       (* offset_pos *)
  }.

  (* RawLayerReader::new *)
  Definition raw_new (i : st S) : rstate := mkR i 0.

  (* reset_position: offset_pos = inner.stream_position()? *)
  Definition raw_reset (s : rstate) : rstate * res unit :=
    match sk S (r_in s) (FromCur 0) with
    | (i', Ok p) => (mkR i' p, Ok tt)
    | (i', Err e) => (mkR i' (r_off s), Err e)
    | (i', Crash x) => (mkR i' (r_off s), Crash x)
    end.

  (* Read::read: wrapper on inner *)
  Definition rread (s : rstate) (n : N) : rstate * res bytes :=
    let '(i', r) := rd S (r_in s) n in (mkR i' (r_off s), r).

  (* the tail shared by the Current and End arms (raw.rs:99-105 and 108-114) *)
  Definition rseek_rel (s : rstate) (w : whence) : rstate * res N :=
    match sk S (r_in s) w with
    | (i', Ok inner_pos) =>
      if inner_pos <? r_off s then
        match sk S i' (FromStart (r_off s)) with
        | (i'', Ok _) => (mkR i'' (r_off s), Ok 0)
        | (i'', Err e) => (mkR i'' (r_off s), Err e)
        | (i'', Crash x) => (mkR i'' (r_off s), Crash x)
        end
      else (mkR i' (r_off s), Ok (inner_pos - r_off s))
    | (i', Err e) => (mkR i' (r_off s), Err e)
    | (i', Crash x) => (mkR i' (r_off s), Crash x)
    end.

  (* Seek::seek *)
  Definition rseek (s : rstate) (w : whence) : rstate * res N :=
    match w with
    | FromStart pos =>
      (* offset_pos.checked_add(pos).ok_or_else(InvalidInput)? — the inner layer is untouched *)
      if 2 ^ 64 <=? r_off s + pos then (s, Err EInval)
      else
        match sk S (r_in s) (FromStart (r_off s + pos)) with
        | (i', Ok _) => (mkR i' (r_off s), Ok pos)
        | (i', Err e) => (mkR i' (r_off s), Err e)
        | (i', Crash x) => (mkR i' (r_off s), Crash x)
        end
    | FromCur _ => rseek_rel s w
    | FromEnd _ => rseek_rel s w
    end.

  Definition RawReader : Stream := {| st := rstate; rd := rread; sk := rseek |}.

  (* initialize: "No recursive call, this is the last layer" *)
  Definition raw_initialize (s : rstate) : rstate * res unit := (s, Ok tt).

  (* new + reset_position, as ArchiveReader::from_config does once the header is read *)
  Definition raw_open (i : st S) : rstate * res unit := raw_reset (raw_new i).
End Raw.

Arguments mkR {S} _ _.
Arguments r_in {S} _.
Arguments r_off {S} _.
