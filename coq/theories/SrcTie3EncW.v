(* SrcTie3EncW.v — Tie A, level 1, for the WRITER side of the encryption layer (work package encW).
   gen/Src3w.v is regenerated from /repo/mla/src/layers/encrypt.rs on every run by tools/src2v3_encw.py:
   build_nonce, EncryptionLayerWriter::{new, renew_cipher}, LayerWriter::finalize, Write::{write, flush} translated
   statement by statement over an abstract inner writer, with the TRANSLATED AesGcm256 of gen/Src3g.v as the cipher,
   and std's Write::write_all written once over the translated write.

   Here the translated writer, instantiated with a byte vector as inner writer, is proved SIMULATED by the model's
   encryption writer (EncLayer.ew_write / ew_renew / ew_write_all / ew_finalize) for every state in the representation
   relation Rw, every buffer and every fuel — with the model's cipher parameters ks / tagc no longer free but DEFINED
   from the GCM model at the nonce `prefix || be32(chunk counter)`:

       ks_gcm i off  = byte 16 + off of the Ctr128BE key stream started at  prefix || be32 i || 00000001
       tagc_gcm i ct = the GCM tag of ciphertext ct under that nonce, no associated data (GcmProofs.tag_of)

   The relation Rw between the translated struct and EncLayer.ewstate: same counter, same offset, the inner vector is
   `base ++ ew_out` (base = what the inner writer held before the layer was created: the archive header), and the
   AesGcm256 value is SrcTie3Gcm.repG of a GCM state reachable after producing exactly ew_cur as ciphertext
   (GcmProofs.Inv) under the nonce of the CURRENT counter; counter < 2^32; |ew_cur| = offset.

   Premises: the block function returns 16 bytes (HE), the array types of the signatures (len key = 32,
   len prefix = 8), `is_interrupted EState = false` (WrongWriterState becomes io::ErrorKind::Other: errors.rs:91).
   Panic site of `current_ctr += 1`: the model's label 228. *)
From MLA Require Import Base Stream EncLayer EncWriter EncWriterProofs Gcm GcmProofs SrcTie3Gcm.
From MLA.Concrete Require Import Aes Ghash GcmSpec.
From MLAGen Require Import Src3g Src3w.
From MLAGen Require Src.
From Coq Require Import ZifyBool ZifyNat ZifyN.
Open Scope N_scope.

(* ---------- lists ---------- *)
Lemma skipn_nth_cons {A} (d : A) : forall n l, (n < length l)%nat -> skipn n l = nth n l d :: skipn (S n) l.
Proof.
  induction n as [|n IH]; intros l Hl; destruct l as [|x l]; cbn [length] in Hl; try lia; [reflexivity|].
  cbn [skipn nth]. rewrite (IH l) by lia. reflexivity.
Qed.

Lemma sliceN_cons (d : N) p n (l : bytes) : p < len l ->
  sliceN p (n + 1) l = nth (N.to_nat p) l d :: sliceN (p + 1) n l.
Proof.
  intros Hp. unfold sliceN, takeN, dropN. unfold len in Hp.
  rewrite (skipn_nth_cons d (N.to_nat p) l) by lia.
  replace (N.to_nat (n + 1)) with (S (N.to_nat n)) by lia. cbn [firstn].
  replace (N.to_nat (p + 1)) with (S (N.to_nat p)) by lia. reflexivity.
Qed.

(* the inner writer used for the tie: a byte vector that accepts everything (RawLayerWriter over a Vec) *)
Definition bw_write_all (o b : bytes) : bytes * res unit := (o ++ b, Ok tt).
Definition bw_ok (o : bytes) : bytes * res unit := (o, Ok tt).

(* how a translated call `(struct', res A)` relates to the model's `res (ewstate * A)` *)
Definition sim_gen {X S A B} (R : X -> S -> Prop) (Q : A -> B -> Prop) (r : X * res A) (m : res (S * B)) : Prop :=
  match r, m with
  | (x', Ok a), Ok (s', b) => Q a b /\ R x' s'
  | (_, Err e), Err e' => e = e'
  | (_, Crash c), Crash c' => c = c'
  | _, _ => False
  end.

(* ---------- finalize over ANY inner writer: the order of the three steps ---------- *)
(* renew_cipher (the tag of the current chunk), THEN inner.write_all(tag), THEN inner.finalize() — for every inner writer
   type and every behaviour of its write_all / finalize; the inner writer's state after each step is kept on every exit.
   (With the byte vector of the tie below, whose finalize does nothing, the order would not be observable: mutation m01.) *)
Theorem elw_finalize_order_src (E : bytes -> bytes -> bytes) (gmul : N -> N -> N) (W : Type)
    (w_write_all : W -> bytes -> W * res unit) (w_finalize : W -> W * res unit) (si sl sa : N) (x : EncryptionLayerWriter W) :
  elw_finalize E gmul W w_write_all w_finalize si sl sa x =
  match elw_renew_cipher E gmul W si sl sa x with
  | (x1, Ok tag) =>
    match w_write_all (elw_inner W x1) tag with
    | (w, Ok _) => let '(w2, r) := w_finalize w in (set_elw_inner W x1 w2, r)
    | (w, Err e) => (set_elw_inner W x1 w, Err e)
    | (w, Crash c) => (set_elw_inner W x1 w, Crash c)
    end
  | (x1, Err e) => (x1, Err e)
  | (x1, Crash c) => (x1, Crash c)
  end.
Proof. reflexivity. Qed.

Section Tie.
  Variable E : bytes -> bytes -> bytes.
  Hypothesis HE : forall k b, length b = 16%nat -> length (E k b) = 16%nat.
  Variables key prefix : bytes.
  Hypothesis Hkey : len key = 32.
  Hypothesis Hprefix : len prefix = 8.

  (* ---------- the cipher parameters of the model, defined from the GCM model ---------- *)
  Definition nonce_of (i : N) : bytes := prefix ++ be_bytes 4 i.
  Definition iv_of (i : N) : bytes := nonce_of i ++ [0; 0; 0; 1].
  Definition ks_gcm (i off : N) : N := nth 0 (ks_range (E key) (iv_of i) (16 + off) 1) 0.

  Lemma len_nonce_of i : len (nonce_of i) = 12.
  Proof. unfold nonce_of. rewrite len_app, Hprefix. unfold len. rewrite length_be_bytes. reflexivity. Qed.

  (* ---------- the key stream as a byte function ---------- *)
  Lemma ks_gcm_nth i off M : 16 + off + 1 <= 16 * N.of_nat M ->
    ks_gcm i off = nth (N.to_nat (16 + off)) (KS (E key) (iv_of i) M) 0.
  Proof.
    intros HM. unfold ks_gcm. rewrite (ks_range_KS (E key) (HE key) (iv_of i) M) by lia.
    change 1 with (0 + 1) at 1. rewrite (sliceN_cons 0) by (rewrite (len_KS (E key) (HE key)); lia). reflexivity.
  Qed.

  Lemma xor_slice_ks i M : forall buf off, 16 + off + len buf <= 16 * N.of_nat M ->
    xor_bytes buf (sliceN (16 + off) (len buf) (KS (E key) (iv_of i) M)) = xor_from ks_gcm i off buf.
  Proof.
    induction buf as [|x r IH]; intros off HM; [reflexivity|].
    rewrite len_cons in *. rewrite (sliceN_cons 0) by (rewrite (len_KS (E key) (HE key)); lia).
    cbn [xor_bytes xor_from]. f_equal.
    - f_equal. symmetry. apply ks_gcm_nth. lia.
    - replace (16 + off + 1) with (16 + (off + 1)) by lia. apply IH. lia.
  Qed.

  Lemma len_xorf i off d : len (xor_from ks_gcm i off d) = len d.
  Proof. revert off. induction d as [|x r IH]; intros off; cbn [xor_from]; [reflexivity|]. rewrite !len_cons, IH. reflexivity. Qed.

  Variables si sl : N.
  (* ---------- build_nonce ---------- *)
  Lemma len_eq_8 (l : bytes) : len l = 8 -> exists a0 a1 a2 a3 a4 a5 a6 a7, l = [a0; a1; a2; a3; a4; a5; a6; a7].
  Proof.
    intros H. do 8 (destruct l as [|? l]; [discriminate H|]).
    destruct l; [|unfold len in H; cbn [length] in H; lia]. repeat eexists.
  Qed.

  Theorem build_nonce_src i : build_nonce si sl prefix i = Ok (nonce_of i).
  Proof.
    destruct (len_eq_8 prefix Hprefix) as (a0&a1&a2&a3&a4&a5&a6&a7&Hp).
    unfold build_nonce, nonce_of. rewrite Hp.
    assert (Hb : exists b0 b1 b2 b3, be_bytes 4 i = [b0; b1; b2; b3]).
    { pose proof (length_be_bytes 4 i) as Hl. destruct (be_bytes 4 i) as [|b0 [|b1 [|b2 [|b3 [|b4 r]]]]]; try discriminate Hl.
      repeat eexists. }
    destruct Hb as (b0&b1&b2&b3&->). reflexivity.
  Qed.

  Variable gmul : N -> N -> N.
  Definition tagc_gcm (i : N) (ct : bytes) : bytes := tag_of (E key) gmul (nonce_of i) [] ct.

  Variables CHUNK CIPHERBUF : N.
  Variable is_interrupted : err -> bool.
  Hypothesis Hnot_interrupted : is_interrupted EState = false.
  Variable ss : N.
  Variable base : bytes.                      (* what the inner writer held before the layer: the header *)

  Notation ELW := (EncryptionLayerWriter bytes).
  Notation g_new := (EncryptionLayerWriter_new E gmul bytes si sl).
  Notation g_renew := (elw_renew_cipher E gmul bytes si sl 228).
  Notation g_write := (elw_write CHUNK CIPHERBUF E gmul bytes bw_write_all ss si sl 228).
  Notation g_write_all := (elw_write_all CHUNK CIPHERBUF E gmul bytes bw_write_all is_interrupted ss si sl 228).
  Notation g_finalize := (elw_finalize E gmul bytes bw_write_all bw_ok si sl 228).
  Notation g_flush := (elw_flush bytes bw_ok).
  Notation m_write := (ew_write CHUNK CIPHERBUF ks_gcm tagc_gcm).
  Notation m_write_all := (ew_write_all CHUNK CIPHERBUF ks_gcm tagc_gcm).
  Notation m_renew := (ew_renew tagc_gcm).
  Notation xorf := (xor_from ks_gcm).

  Ltac esimpl := cbn [elw_inner elw_cipher elw_key elw_nonce_prefix elw_current_chunk_offset elw_current_ctr
                     set_elw_inner set_elw_cipher set_elw_key set_elw_nonce_prefix set_elw_current_chunk_offset
                     set_elw_current_ctr ew_out ew_ctr ew_off ew_cur] in *.

  (* ---------- the representation relation ---------- *)
  Definition Rw (x : ELW) (s : ewstate) : Prop :=
    elw_inner bytes x = base ++ ew_out s /\ elw_key bytes x = key /\ elw_nonce_prefix bytes x = prefix /\
    elw_current_chunk_offset bytes x = ew_off s /\ elw_current_ctr bytes x = ew_ctr s /\
    len (ew_cur s) = ew_off s /\ ew_ctr s < 2 ^ 32 /\
    exists g, elw_cipher bytes x = repG key g /\ Inv (E key) gmul (nonce_of (ew_ctr s)) [] g (ew_cur s).

  (* the translated struct a model state corresponds to, given the GCM state *)
  Definition repW (s : ewstate) (g : gstate) : ELW :=
    mkELW bytes (base ++ ew_out s) (repG key g) key prefix (ew_off s) (ew_ctr s).

  Lemma Rw_repW x s : Rw x s -> exists g, x = repW s g /\ Inv (E key) gmul (nonce_of (ew_ctr s)) [] g (ew_cur s).
  Proof.
    destruct x as [o c k p off ctr]. intros (H1 & H2 & H3 & H4 & H5 & _ & _ & g & H6 & H7). esimpl. subst.
    exists g. split; [reflexivity|exact H7].
  Qed.

  (* ---------- new ---------- *)
  Theorem elw_new_src : g_new base key prefix = Ok (repW ew_init (gcm_new (E key) gmul (nonce_of 0) [])).
  Proof.
    unfold EncryptionLayerWriter_new. rewrite build_nonce_src.
    rewrite aesgcm_new_src by (try exact Hkey; apply len_nonce_of).
    unfold repW. cbn [ew_init ew_out ew_off ew_ctr]. rewrite app_nil_r. reflexivity.
  Qed.

  Lemma Rw_fresh o i : i < 2 ^ 32 ->
    Rw (mkELW bytes (base ++ o) (repG key (gcm_new (E key) gmul (nonce_of i) [])) key prefix 0 i) (mkEW o i 0 []).
  Proof.
    intros Hi. unfold Rw. esimpl. repeat split; try reflexivity; try exact Hi.
    eexists. split; [reflexivity|apply Inv_new].
  Qed.

  Corollary elw_new_sim : exists x0, g_new base key prefix = Ok x0 /\ Rw x0 ew_init.
  Proof.
    eexists. split; [apply elw_new_src|]. unfold repW, ew_init. esimpl. rewrite app_nil_r.
    pose proof (Rw_fresh [] 0 ltac:(lia)) as H. rewrite app_nil_r in H. exact H.
  Qed.

  (* ---------- renew_cipher ---------- *)
  Theorem elw_renew_src x s : Rw x s ->
    g_renew x =
    if 2 ^ 32 <=? ew_ctr s + 1 then (x, Crash 228)
    else (mkELW bytes (base ++ ew_out s) (repG key (gcm_new (E key) gmul (nonce_of (ew_ctr s + 1)) [])) key prefix 0 (ew_ctr s + 1),
          Ok (tagc_gcm (ew_ctr s) (ew_cur s))).
  Proof.
    intros HR. destruct (Rw_repW x s HR) as (g & -> & HI).
    unfold elw_renew_cipher, repW. esimpl.
    destruct (2 ^ 32 <=? ew_ctr s + 1); [reflexivity|].
    rewrite build_nonce_src. rewrite aesgcm_new_src by (try exact Hkey; apply len_nonce_of).
    rewrite aesgcm_into_tag_src.
    rewrite (gcm_into_tag_X (E key) gmul (HE key) _ _ _ _ HI). reflexivity.
  Qed.

  (* ---------- write ---------- *)
  (* the part of `write` after the two guards (the translator repeats it in both branches that fall through) *)
  Definition src_body (x : ELW) (buf : bytes) : ELW * res N :=
    match csub ss CHUNK (elw_current_chunk_offset bytes x) with
    | Ok d =>
      let size := N.min (N.min CIPHERBUF (len buf)) d in
      let buf_tmp := takeN size buf in
      match AesGcm256_encrypt E gmul ss si sl (elw_cipher bytes x) buf_tmp with
      | Ok (c1, b1) =>
        let x1 := set_elw_cipher bytes x c1 in
        match bw_write_all (elw_inner bytes x1) b1 with
        | (w, Ok _) =>
          let x2 := set_elw_inner bytes x1 w in
          (set_elw_current_chunk_offset bytes x2 (elw_current_chunk_offset bytes x2 + size), Ok size)
        | (w, Err e) => (set_elw_inner bytes x1 w, Err e)
        | (w, Crash c) => (set_elw_inner bytes x1 w, Crash c)
        end
      | Err e => (x, Err e)
      | Crash c => (x, Crash c)
      end
    | Err e => (x, Err e)
    | Crash c => (x, Crash c)
    end.

  Lemma elw_write_unfold x buf :
    g_write x buf =
    if CHUNK <? elw_current_chunk_offset bytes x then (x, Err EState)
    else if elw_current_chunk_offset bytes x =? CHUNK then
      match g_renew x with
      | (x1, Ok tag) =>
        match bw_write_all (elw_inner bytes x1) tag with
        | (w, Ok _) => src_body (set_elw_inner bytes x1 w) buf
        | (w, Err e) => (set_elw_inner bytes x1 w, Err e)
        | (w, Crash c) => (set_elw_inner bytes x1 w, Crash c)
        end
      | (x1, Err e) => (x1, Err e)
      | (x1, Crash c) => (x1, Crash c)
      end
    else src_body x buf.
  Proof. reflexivity. Qed.

  Lemma src_body_src x s buf : Rw x s -> ew_off s <= CHUNK ->
    let size := N.min (N.min CIPHERBUF (len buf)) (CHUNK - ew_off s) in
    let ct := xorf (ew_ctr s) (ew_off s) (takeN size buf) in
    exists x', src_body x buf = (x', Ok size) /\
               Rw x' (mkEW (ew_out s ++ ct) (ew_ctr s) (ew_off s + size) (ew_cur s ++ ct)).
  Proof.
    intros HR Hoff. pose proof HR as (_ & _ & _ & _ & _ & Hlen & Hctr & _).
    destruct (Rw_repW x s HR) as (g & -> & HI). cbv zeta.
    unfold src_body, repW. esimpl.
    unfold csub. replace (ew_off s <=? CHUNK) with true by lia.
    set (size := N.min (N.min CIPHERBUF (len buf)) (CHUNK - ew_off s)).
    assert (Hcur : len (g_cur g) < 16).
    { destruct HI as (c0 & cur & -> & _ & _ & Hlt). exact Hlt. }
    rewrite (aesgcm_encrypt_src E gmul HE ss si sl key g (takeN size buf) Hcur).
    set (M := N.to_nat ((16 + len (ew_cur s) + len (takeN size buf)) / 16 + 1)).
    destruct (gcm_encrypt_piece_X (E key) gmul (HE key) (nonce_of (ew_ctr s)) [] M g (ew_cur s) (takeN size buf) HI)
      as (g' & Hp & HI'); [unfold M; lia|].
    fold (iv_of (ew_ctr s)) in HI', Hp. rewrite Hlen in HI', Hp.
    rewrite xor_slice_ks in HI', Hp by (unfold M; lia).
    rewrite Hp. cbn [fst snd]. unfold bw_write_all. esimpl.
    eexists. split; [reflexivity|].
    unfold Rw. esimpl. rewrite <- app_assoc.
    repeat split; try reflexivity; try exact Hctr.
    - rewrite len_app, len_xorf, len_takeN, Hlen. unfold size. lia.
    - exists g'. split; [reflexivity|exact HI'].
  Qed.

  Theorem elw_write_sim x s buf : Rw x s -> sim_gen Rw eq (g_write x buf) (m_write s buf).
  Proof.
    intros HR. pose proof HR as (_ & _ & _ & Hoff & _).
    rewrite elw_write_unfold. unfold ew_write. rewrite Hoff.
    destruct (CHUNK <? ew_off s) eqn:Hbig; [reflexivity|].
    destruct (ew_off s =? CHUNK) eqn:Hfull.
    - rewrite (elw_renew_src x s HR). unfold ew_renew.
      destruct (2 ^ 32 <=? ew_ctr s + 1) eqn:Hov; [reflexivity|]. cbn [bind].
      unfold bw_write_all. unfold set_elw_inner. esimpl. rewrite <- app_assoc.
      set (s1 := mkEW (ew_out s ++ tagc_gcm (ew_ctr s) (ew_cur s)) (ew_ctr s + 1) 0 []).
      assert (HR1 : Rw (mkELW bytes (base ++ ew_out s ++ tagc_gcm (ew_ctr s) (ew_cur s))
                          (repG key (gcm_new (E key) gmul (nonce_of (ew_ctr s + 1)) [])) key prefix 0 (ew_ctr s + 1)) s1)
        by (apply Rw_fresh; lia).
      destruct (src_body_src _ s1 buf HR1) as (x' & Hb & HR'); [unfold s1; esimpl; lia|].
      rewrite Hb. unfold sim_gen. split; [reflexivity|exact HR'].
    - cbn [bind].
      destruct (src_body_src x s buf HR) as (x' & Hb & HR'); [lia|].
      rewrite Hb. unfold sim_gen. split; [reflexivity|exact HR'].
  Qed.

  (* what `write` accepts never exceeds the buffer *)
  Lemma m_write_le s buf s' n : m_write s buf = Ok (s', n) -> n <= len buf.
  Proof.
    unfold ew_write. destruct (CHUNK <? ew_off s); [discriminate|].
    destruct (if ew_off s =? CHUNK then ew_renew tagc_gcm s else Ok s) as [s1| |]; cbn [bind]; try discriminate.
    intros H. injection H as _ <-. lia.
  Qed.

  (* ---------- std's write_all over the translated write ---------- *)
  Theorem elw_write_all_sim fuel : forall x s buf, Rw x s ->
    sim_gen Rw (fun _ _ => True) (g_write_all fuel x buf)
            (match m_write_all fuel s buf with Ok s' => Ok (s', tt) | Err e => Err e | Crash c => Crash c end).
  Proof.
    induction fuel as [|fuel IH]; intros x s buf HR.
    - cbn [elw_write_all ew_write_all]. destruct buf as [|b r]; [split; [exact I|exact HR]|reflexivity].
    - cbn [elw_write_all ew_write_all]. destruct buf as [|b r]; [split; [exact I|exact HR]|].
      replace (len (b :: r) =? 0) with false by (rewrite len_cons; lia).
      pose proof (elw_write_sim x s (b :: r) HR) as Hw. unfold sim_gen in Hw.
      destruct (g_write x (b :: r)) as [x1 [n| e| c]]; destruct (m_write s (b :: r)) as [[s1 n']| e'| c'] eqn:Hm; cbn [bind];
        try contradiction.
      + destruct Hw as [<- HR1].
        destruct (n =? 0); [reflexivity|].
        pose proof (m_write_le _ _ _ _ Hm) as Hle.
        replace (len (b :: r) <? n) with false by lia.
        apply IH. exact HR1.
      + subst e'.
        assert (He : e = EState).
        { unfold ew_write in Hm. destruct (CHUNK <? ew_off s); [congruence|].
          destruct (ew_off s =? CHUNK); cbn [bind] in Hm; [|discriminate].
          unfold ew_renew in Hm. destruct (2 ^ 32 <=? ew_ctr s + 1); cbn [bind] in Hm; discriminate. }
        subst e. rewrite Hnot_interrupted. reflexivity.
      + subst c'. reflexivity.
  Qed.

  (* ---------- finalize ---------- *)
  Theorem elw_finalize_sim x s : Rw x s ->
    sim_gen Rw (fun _ _ => True) (g_finalize x)
            (match ew_finalize tagc_gcm s with Ok s' => Ok (s', tt) | Err e => Err e | Crash c => Crash c end).
  Proof.
    intros HR. unfold elw_finalize, ew_finalize, ew_renew.
    rewrite (elw_renew_src x s HR).
    destruct (2 ^ 32 <=? ew_ctr s + 1) eqn:Hov; [reflexivity|].
    unfold bw_write_all, bw_ok. esimpl. rewrite <- app_assoc.
    split; [exact I|]. apply Rw_fresh. lia.
  Qed.

  (* ---------- flush: forwards to the inner writer, the struct is otherwise unchanged ---------- *)
  Theorem elw_flush_src (W : Type) (w_flush : W -> W * res unit) (x : EncryptionLayerWriter W) :
    elw_flush W w_flush x = let '(w, r) := w_flush (elw_inner W x) in (set_elw_inner W x w, r).
  Proof. reflexivity. Qed.
  Corollary elw_flush_sim x s : Rw x s -> exists x', g_flush x = (x', Ok tt) /\ Rw x' s.
  Proof. intros HR. exists x. split; [destruct x; reflexivity|exact HR]. Qed.

  (* ---------- a sequence of write_all calls, then finalize: the whole life of the layer ---------- *)
  Fixpoint src_write_pieces (fuel : nat) (x : ELW) (pieces : list bytes) : ELW * res unit :=
    match pieces with
    | [] => (x, Ok tt)
    | b :: r =>
      match g_write_all fuel x b with
      | (x1, Ok _) => src_write_pieces fuel x1 r
      | (x1, Err e) => (x1, Err e)
      | (x1, Crash c) => (x1, Crash c)
      end
    end.

  (* EncryptionLayerWriter::new over an inner writer holding `base`; write_all of every piece; finalize *)
  Definition src_archive (fuel : nat) (pieces : list bytes) : res ELW :=
    match g_new base key prefix with
    | Ok x0 =>
      match src_write_pieces fuel x0 pieces with
      | (x1, Ok _) => match g_finalize x1 with (x2, Ok _) => Ok x2 | (_, Err e) => Err e | (_, Crash c) => Crash c end
      | (_, Err e) => Err e
      | (_, Crash c) => Crash c
      end
    | Err e => Err e
    | Crash c => Crash c
    end.

  Lemma src_write_pieces_sim fuel : forall pieces x s, Rw x s ->
    sim_gen Rw (fun _ _ => True) (src_write_pieces fuel x pieces)
            (match ew_write_pieces CHUNK CIPHERBUF ks_gcm tagc_gcm fuel s pieces with
             | Ok s' => Ok (s', tt) | Err e => Err e | Crash c => Crash c end).
  Proof.
    induction pieces as [|b r IH]; intros x s HR; cbn [src_write_pieces ew_write_pieces]; [split; [exact I|exact HR]|].
    pose proof (elw_write_all_sim fuel x s b HR) as Hw. unfold sim_gen in Hw.
    destruct (g_write_all fuel x b) as [x1 [u| e| c]]; destruct (m_write_all fuel s b) as [s1| e'| c']; cbn [bind];
      try contradiction.
    - destruct Hw as [_ HR1]. apply IH. exact HR1.
    - subst. reflexivity.
    - subst. reflexivity.
  Qed.

  (* THE tie: the translated layer, driven through its whole life, ends exactly as the model's writer does *)
  Theorem src_archive_sim fuel pieces :
    match src_archive fuel pieces, ew_archive CHUNK CIPHERBUF ks_gcm tagc_gcm fuel pieces with
    | Ok x, Ok s => Rw x s
    | Err e, Err e' => e = e'
    | Crash c, Crash c' => c = c'
    | _, _ => False
    end.
  Proof.
    unfold src_archive, ew_archive.
    destruct elw_new_sim as (x0 & -> & HR0).
    pose proof (src_write_pieces_sim fuel pieces x0 ew_init HR0) as Hp. unfold sim_gen in Hp.
    destruct (src_write_pieces fuel x0 pieces) as [x1 [u| e| c]];
      destruct (ew_write_pieces CHUNK CIPHERBUF ks_gcm tagc_gcm fuel ew_init pieces) as [s1| e'| c']; cbn [bind];
      try contradiction; try exact Hp.
    destruct Hp as [_ HR1].
    pose proof (elw_finalize_sim x1 s1 HR1) as Hf. unfold sim_gen in Hf.
    destruct (g_finalize x1) as [x2 [u2| e| c]]; destruct (ew_finalize tagc_gcm s1) as [s2| e'| c'];
      try contradiction; try exact Hf.
    destruct Hf as [_ HR2]. exact HR2.
  Qed.

  (* the bytes left in the inner writer *)
  Corollary src_archive_bytes fuel pieces x : src_archive fuel pieces = Ok x ->
    exists s, ew_archive CHUNK CIPHERBUF ks_gcm tagc_gcm fuel pieces = Ok s /\ elw_inner bytes x = base ++ ew_out s /\
              elw_current_ctr bytes x = ew_ctr s /\ ew_ctr s < 2 ^ 32.
  Proof.
    intros H. pose proof (src_archive_sim fuel pieces) as Hs. rewrite H in Hs.
    destruct (ew_archive CHUNK CIPHERBUF ks_gcm tagc_gcm fuel pieces) as [s| |]; try contradiction.
    exists s. destruct Hs as (H1 & _ & _ & _ & H5 & _ & H7 & _). repeat split; assumption.
  Qed.
  Corollary src_archive_of_model fuel pieces s : ew_archive CHUNK CIPHERBUF ks_gcm tagc_gcm fuel pieces = Ok s ->
    exists x, src_archive fuel pieces = Ok x /\ elw_inner bytes x = base ++ ew_out s.
  Proof.
    intros H. pose proof (src_archive_sim fuel pieces) as Hs. rewrite H in Hs.
    destruct (src_archive fuel pieces) as [x| |]; try contradiction.
    exists x. split; [reflexivity|]. destruct Hs as (H1 & _). exact H1.
  Qed.
End Tie.

(* the constants the translator reads (both flavours) are the ones of gen/Src.v, the model's instances *)
Lemma encw_consts_src :
  Src3w.NONCE_SIZE = MLAGen.Src.NONCE_SIZE_prod /\ Src3w.NONCE_SIZE = MLAGen.Src.NONCE_SIZE_verif /\
  Src3w.CHUNK_SIZE_verif = MLAGen.Src.CHUNK_SIZE_verif /\ Src3w.CHUNK_SIZE_prod = MLAGen.Src.CHUNK_SIZE_prod /\
  Src3w.CIPHER_BUF_SIZE_verif = MLAGen.Src.CIPHER_BUF_SIZE_verif /\ Src3w.CIPHER_BUF_SIZE_prod = MLAGen.Src.CIPHER_BUF_SIZE_prod.
Proof. repeat split; reflexivity. Qed.
