(* SrcTie3HeaderRest.v — C13_header_then_rest carried onto the TRANSLATED ArchiveHeader::from (gen/Src3h.v);
   kept apart from SrcTie3Header.v because it needs ArchiveProofs / ArchiveSrcProofs (a larger cone). *)
From MLA Require Import Base Stream Format HeaderStream Archive ArchiveProofs ArchiveSrcProofs SrcTie3Header.
From MLAGen Require Src3h.
Open Scope N_scope.

(* hdr ++ rest behind any source refining a cursor: the translated `from` returns the header and leaves the
   source at its end (the layer theorems compose after it) *)
Theorem C13_header_then_rest_src (h : header) (rest : bytes) (S : Stream) (R : st S -> N -> Prop) (s0 : st S) :
  wf_enc_opt h -> config_size h <= Src3h.BINCODE_MAX_DESERIALIZE ->
  Refines S (ser_header h ++ rest) R -> R s0 0 ->
  exists s', Src3h.ArchiveHeader_from S s0 = (s', Ok h) /\ R s' (len (ser_header h)).
Proof. intros Hw Hl HR H0. rewrite header_from_src. exact (header_then_rest _ h rest S R s0 Hw Hl HR H0). Qed.

(* non-vacuity: the premises hold of a two-recipient header followed by one byte, read 3 bytes at a time *)
Example C13_header_then_rest_src_ex :
  exists s', Src3h.ArchiveHeader_from (Throttled (ser_header ex_h ++ [42])) (0, [3]) = (s', Ok ex_h) /\ fst s' = 153.
Proof. eexists. split; vm_compute; reflexivity. Qed.

Print Assumptions C13_header_then_rest_src.
