(* Carry2SimLayers.v — work package `carry2`, part 2b: the TRANSLATED layer stack (Carry2Stack.StackSrc) is simulated,
   read by read and absolute seek by absolute seek, by the MODEL's stack LayerStack.CompS over the same source.
     raw         the translated struct is the model's state (SrcTie3Raw.raw_stream_src);
     encryption  SrcTie3Enc.enc_read_sim / enc_seek_sim (the translated struct carries the AesGcm256 object — the
                 ciphertext absorbed so far — which the model's state does not have: the relation forgets it);
     compression SrcTie3Comp.comp_read_src / seek_start_src (invariant wf: the u32 fields are below 2^32);
   and, because each translated layer sits on a TRANSLATED inner layer while the model's sits on the model's, the two
   model readers are shown to be functors on simulations (enc_lift, comp_lift: from simulated inner streams,
   EncReader / CompReader return the same results and keep the inner streams simulated). *)
From MLA Require Import Limit.
From MLA Require Import Base Stream EncLayer CompLayer RawLayer LayerStack Blocks Reader
  SrcTie3Raw SrcTie3Enc SrcTie3EncC SrcTie3Comp Carry2Stack Carry2Sim.
From MLAGen Require Src3d Src3e Src3c.
From Coq Require Import ZifyBool ZifyNat ZifyN.
Open Scope N_scope.

(* ---------- generic ---------- *)
Lemma sim_compose S1 S2 S3 A B : SimRS S1 S2 A -> SimRS S2 S3 B -> SimRS S1 S3 (fun x z => exists y, A x y /\ B y z).
Proof.
  intros [A1 A2] [B1 B2]. split.
  - intros x z n (y & Ha & Hb). destruct (A1 x y n Ha) as [E1 R1]. destruct (B1 y z n Hb) as [E2 R2].
    split; [congruence|]. eexists; split; eassumption.
  - intros x z p (y & Ha & Hb). destruct (A2 x y p Ha) as [E1 R1]. destruct (B2 y z p Hb) as [E2 R2].
    split; [congruence|]. eexists; split; eassumption.
Qed.

(* ---------- raw ---------- *)
Lemma sim_raw_src S : SimRS (RawReaderSrc S) (RawReader S) (fun x s => s = abs_raw S x).
Proof.
  split.
  - intros x s n ->. rewrite raw_rd_src. cbn [fst snd]. rewrite abs_rep_raw. auto.
  - intros x s p ->. rewrite raw_sk_src. cbn [fst snd]. rewrite abs_rep_raw. auto.
Qed.

(* ---------- encryption ---------- *)
Section EncSim.
  Variables CHUNK TAG : N.
  Variable ks : N -> N -> N.
  Variable tagc : N -> bytes -> bytes.
  Hypothesis HCHUNK : 0 < CHUNK.
  Hypothesis Hfits : cts_fits CHUNK TAG.

  (* translated over J  ~  model over the same J *)
  Lemma sim_enc_src (J : Stream) site fuel :
    SimRS (EncReaderSrc J CHUNK TAG ks tagc site fuel) (EncReader CHUNK TAG ks tagc J) (fun x s => s = SrcTie3Enc.abs J x).
  Proof.
    split.
    - intros x s n ->. pose proof (enc_read_sim J CHUNK TAG ks tagc site HCHUNK fuel x n) as Hs.
      cbn [EncReaderSrc rd]. unfold absr in Hs. rewrite <- Hs. cbn [fst snd]. auto.
    - intros x s p ->. pose proof (enc_seek_sim J CHUNK TAG ks tagc site fuel x (FromStart p) Hfits) as Hs.
      cbn [EncReaderSrc sk]. unfold absr in Hs. rewrite <- Hs. cbn [fst snd]. auto.
  Qed.

  (* the model's reader over simulated inner streams *)
  Variables J1 J2 : Stream.
  Variable B : st J1 -> st J2 -> Prop.
  Hypothesis HB : SimRS J1 J2 B.

  Definition liftE (e1 : estate J1) (e2 : estate J2) : Prop :=
    B (e_in e1) (e_in e2) /\ e_cache e1 = e_cache e2 /\ e_cpos e1 = e_cpos e2 /\ e_chunk e1 = e_chunk e2.
  Lemma liftE_mk i1 i2 c p k : B i1 i2 -> liftE (mkE i1 c p k) (mkE i2 c p k).
  Proof. intros Hb. repeat split; auto. Qed.

  Notation R1 := (EncReader CHUNK TAG ks tagc J1).
  Notation R2 := (EncReader CHUNK TAG ks tagc J2).

  Lemma eload_lift e1 e2 : liftE e1 e2 ->
    snd (eload CHUNK TAG ks tagc J1 e1) = snd (eload CHUNK TAG ks tagc J2 e2) /\
    liftE (fst (eload CHUNK TAG ks tagc J1 e1)) (fst (eload CHUNK TAG ks tagc J2 e2)).
  Proof.
    destruct e1 as [i1 c1 p1 k1], e2 as [i2 c2 p2 k2]. intros (Hb & Hc & Hp & Hk). cbn [e_in e_cache e_cpos e_chunk] in *. subst c2 p2 k2.
    unfold eload. cbn [e_in e_cache e_cpos e_chunk].
    destruct (read_full_resp J1 J2 B HB (rd_fuel CHUNK TAG) i1 i2 (CTS CHUNK TAG) Hb) as [Hr Hx].
    destruct (read_full J1 (rd_fuel CHUNK TAG) i1 (CTS CHUNK TAG)) as [a ra], (read_full J2 (rd_fuel CHUNK TAG) i2 (CTS CHUNK TAG)) as [b rb].
    cbn [fst snd] in Hr, Hx. subst rb.
    destruct ra as [dt|e|c]; [|split; [reflexivity | apply liftE_mk; exact Hx]..].
    destruct (len dt =? 0); [split; [reflexivity | apply liftE_mk; exact Hx]|].
    destruct (len dt <? TAG); [split; [reflexivity | apply liftE_mk; exact Hx]|].
    destruct (bytes_eqb _ _); (split; [reflexivity | apply liftE_mk; exact Hx]).
  Qed.

  Lemma eread_cache_lift e1 e2 a n : liftE e1 e2 ->
    snd (eread_cache J1 e1 a n) = snd (eread_cache J2 e2 a n) /\ liftE (fst (eread_cache J1 e1 a n)) (fst (eread_cache J2 e2 a n)).
  Proof.
    destruct e1 as [i1 c1 p1 k1], e2 as [i2 c2 p2 k2]. intros (Hb & Hc & Hp & Hk). cbn [e_in e_cache e_cpos e_chunk] in *. subst c2 p2 k2.
    unfold eread_cache. cbn [e_in e_cache e_cpos e_chunk fst snd]. split; [reflexivity | apply liftE_mk; exact Hb].
  Qed.

  Lemma eread_lift e1 e2 n : liftE e1 e2 ->
    snd (rd R1 e1 n) = snd (rd R2 e2 n) /\ liftE (fst (rd R1 e1 n)) (fst (rd R2 e2 n)).
  Proof.
    intros HL. pose proof HL as (Hb & Hc & Hp & Hk). cbn [EncReader rd]. unfold eread, eread_gen. rewrite <- Hp, <- Hk.
    destruct (csub 416 CHUNK (e_cpos e1)) as [[|q]|e|c]; try (split; [reflexivity | exact HL]).
    - destruct (2 ^ 32 <=? e_chunk e1 + 1); [split; [reflexivity | exact HL]|].
      rewrite <- Hc.
      destruct (eload_lift (mkE (e_in e1) (e_cache e1) (e_cpos e1) (e_chunk e1 + 1)) (mkE (e_in e2) (e_cache e1) (e_cpos e1) (e_chunk e1 + 1))
                  (liftE_mk _ _ _ _ _ Hb)) as [Hr Hx].
      destruct (eload CHUNK TAG ks tagc J1 _) as [a ra], (eload CHUNK TAG ks tagc J2 _) as [b rb].
      cbn [fst snd] in Hr, Hx. subst rb.
      destruct ra as [[|]|e|c]; try (split; [reflexivity | exact Hx]).
      pose proof Hx as (_ & _ & Hp2 & _). rewrite <- Hp2.
      destruct (csub 416 CHUNK (e_cpos a)) as [[|q]|e|c]; try (split; [reflexivity | exact Hx]).
      apply eread_cache_lift. exact Hx.
    - apply eread_cache_lift. exact HL.
  Qed.

  Lemma eseek_start_lift e1 e2 p : liftE e1 e2 ->
    snd (sk R1 e1 (FromStart p)) = snd (sk R2 e2 (FromStart p)) /\ liftE (fst (sk R1 e1 (FromStart p))) (fst (sk R2 e2 (FromStart p))).
  Proof.
    destruct e1 as [i1 c1 p1 k1], e2 as [i2 c2 p2 k2]. intros HL. pose proof HL as (Hb & Hc & Hp & Hk).
    cbn [e_in e_cache e_cpos e_chunk] in Hb, Hc, Hp, Hk. subst c2 p2 k2.
    cbn [EncReader sk eseek]. unfold eseek_start. cbn [e_in e_cache e_cpos e_chunk].
    destruct (_ <? _); [split; [reflexivity | exact HL]|].
    destruct (proj2 HB i1 i2 (notag2tag CHUNK TAG p / CTS CHUNK TAG * CTS CHUNK TAG) Hb) as [Hr Hx].
    destruct (sk J1 i1 _) as [a ra], (sk J2 i2 _) as [b rb]. cbn [fst snd] in Hr, Hx. subst rb.
    destruct ra as [v|e|c]; [|split; [reflexivity | apply liftE_mk; exact Hx]..].
    destruct (2 ^ 32 <=? _); [split; [reflexivity | apply liftE_mk; exact Hx]|].
    destruct (eload_lift (mkE a c1 p1 (notag2tag CHUNK TAG p / CTS CHUNK TAG)) (mkE b c1 p1 (notag2tag CHUNK TAG p / CTS CHUNK TAG))
                (liftE_mk _ _ _ _ _ Hx)) as [Hr2 Hx2].
    destruct (eload CHUNK TAG ks tagc J1 _) as [a2 ra2], (eload CHUNK TAG ks tagc J2 _) as [b2 rb2].
    cbn [fst snd] in Hr2, Hx2. subst rb2.
    destruct ra2 as [v2|e|c]; try (split; [reflexivity | exact Hx2]).
    destruct Hx2 as (Hb2 & Hc2 & _ & Hk2). cbn [fst snd]. split; [reflexivity|]. rewrite Hc2, Hk2. apply liftE_mk. exact Hb2.
  Qed.

  Lemma enc_lift : SimRS R1 R2 liftE.
  Proof. split; [exact eread_lift | exact eseek_start_lift]. Qed.
End EncSim.

(* ---------- compression ---------- *)
Section CompSim.
  Variable BLOCK : N.
  Variable dec : bytes -> bytes.
  Hypothesis HB32 : BLOCK < 2 ^ 32.
  Hypothesis HB0 : BLOCK <> 0.

  (* translated over I  ~  model over the same I, on states whose u32 fields are u32 *)
  Lemma sim_comp_src (I : Stream) s1 s2 s3 :
    SimRS (SrcCompReader BLOCK dec I s1 s2 s3) (CompReader BLOCK dec I) (fun x c => wf I x /\ c = SrcTie3Comp.abs I x).
  Proof.
    split.
    - intros x c n [Hw ->]. pose proof (comp_read_src BLOCK dec I s1 s2 s3 HB32 HB0 x n Hw) as Hs.
      cbn [SrcCompReader CompReader rd]. destruct (Src3c.Rd.comp_read BLOCK dec I s1 s2 s3 4 x n) as [x' r].
      destruct Hs as [-> Hw']. cbn [fst snd]. auto.
    - intros x c p [Hw ->]. pose proof (comp_seek_sim BLOCK dec I (fun s => (s, Ok tt)) s1 0 HB32 HB0 0 x (FromStart p) Hw Logic.I) as Hs.
      cbn [SrcCompReader CompReader sk]. destruct (Src3c.Rd.comp_seek BLOCK dec I s1 495 529 186 2 x (FromStart p)) as [x' r].
      destruct Hs as [-> Hw']. cbn [fst snd]. auto.
  Qed.

  Variables I1 I2 : Stream.
  Variable B : st I1 -> st I2 -> Prop.
  Hypothesis HB : SimRS I1 I2 B.

  Definition liftS (s1 : cstate I1) (s2 : cstate I2) : Prop :=
    match s1, s2 with
    | CReady i1, CReady i2 => B i1 i2
    | CInData r1 u1 d1, CInData r2 u2 d2 =>
      r1 = r2 /\ u1 = u2 /\ B (d_in d1) (d_in d2) /\ d_plain d1 = d_plain d2 /\ d_off d1 = d_off d2
    | CEmpty, CEmpty => True
    | _, _ => False
    end.
  Definition liftC (c1 : creader I1) (c2 : creader I2) : Prop :=
    liftS (c_state c1) (c_state c2) /\ c_si c1 = c_si c2 /\ c_pos c1 = c_pos c2.
  Lemma liftC_empty si p : liftC (mkC CEmpty si p) (mkC CEmpty si p).
  Proof. repeat split. Qed.

  Lemma sync_inner_lift si i1 i2 p : B i1 i2 ->
    snd (sync_inner BLOCK I1 si i1 p) = snd (sync_inner BLOCK I2 si i2 p) /\
    B (fst (sync_inner BLOCK I1 si i1 p)) (fst (sync_inner BLOCK I2 si i2 p)).
  Proof.
    intros Hb. unfold sync_inner. destruct (block_start_check BLOCK si p) as [[]|e0|c0]; try (split; [reflexivity | exact Hb]).
    destruct si as [s|]; [|split; [reflexivity | exact Hb]].
    destruct (proj2 HB i1 i2 (sum_firstN (si_sizes s) (p / BLOCK)) Hb) as [Hr Hx].
    destruct (sk I1 i1 _) as [a ra], (sk I2 i2 _) as [b rb]. cbn [fst snd] in Hr, Hx. subst rb.
    destruct ra; (split; [reflexivity | exact Hx]).
  Qed.

  Definition liftD (r1 : res (decomp I1)) (r2 : res (decomp I2)) : Prop :=
    match r1, r2 with
    | Ok d1, Ok d2 => B (d_in d1) (d_in d2) /\ d_plain d1 = d_plain d2 /\ d_off d1 = d_off d2
    | Err e1, Err e2 => e1 = e2
    | Crash c1, Crash c2 => c1 = c2
    | _, _ => False
    end.
  Lemma new_decompressor_lift si i1 i2 p : B i1 i2 ->
    liftD (new_decompressor_at BLOCK dec I1 si i1 p) (new_decompressor_at BLOCK dec I2 si i2 p).
  Proof.
    intros Hb. unfold new_decompressor_at. destruct (block_start_check BLOCK si p) as [[]|e0|c0]; cbn [bind liftD]; try reflexivity.
    destruct si as [s|]; [|reflexivity].
    destruct (si_cbs BLOCK s p) as [cs|e|c]; cbn [bind liftD]; try reflexivity.
    destruct (read_full_resp I1 I2 B HB (dec_fuel cs) i1 i2 cs Hb) as [Hr Hx].
    destruct (read_full I1 (dec_fuel cs) i1 cs) as [a ra], (read_full I2 (dec_fuel cs) i2 cs) as [b rb].
    cbn [fst snd] in Hr, Hx. subst rb. destruct ra; cbn [liftD d_in d_plain d_off]; auto.
  Qed.

  Notation R1 := (CompReader BLOCK dec I1).
  Notation R2 := (CompReader BLOCK dec I2).

  Lemma cread_aux_lift fuel : forall c1 c2 n, liftC c1 c2 ->
    snd (cread_aux BLOCK dec I1 fuel c1 n) = snd (cread_aux BLOCK dec I2 fuel c2 n) /\
    liftC (fst (cread_aux BLOCK dec I1 fuel c1 n)) (fst (cread_aux BLOCK dec I2 fuel c2 n)).
  Proof.
    induction fuel as [|fuel IH]; intros c1 c2 n HL; cbn [cread_aux]; [split; [reflexivity | exact HL]|].
    destruct c1 as [st1 si p], c2 as [st2 si2 p2]. pose proof HL as (Hs & Hsi & Hp). cbn [c_state c_si c_pos] in Hs, Hsi, Hp. subst si2 p2.
    cbn [c_state c_si c_pos set_state].
    destruct (negb (pos_in_stream BLOCK si p)); [split; [reflexivity | exact HL]|].
    destruct st1 as [i1|r1 u1 d1|], st2 as [i2|r2 u2 d2|]; cbn [liftS] in Hs; try contradiction.
    - destruct (sync_inner_lift si i1 i2 p Hs) as [Hr Hx].
      destruct (sync_inner BLOCK I1 si i1 p) as [a ra], (sync_inner BLOCK I2 si i2 p) as [b rb]. cbn [fst snd] in Hr, Hx. subst rb.
      destruct ra as [[]|e|c]; [|split; [reflexivity | apply liftC_empty]..].
      pose proof (new_decompressor_lift si a b p Hx) as Hd.
      destruct (new_decompressor_at BLOCK dec I1 si a p) as [d1|e1|x1], (new_decompressor_at BLOCK dec I2 si b p) as [d2|e2|x2];
        cbn [liftD] in Hd; try contradiction; try (subst; split; [reflexivity | apply liftC_empty]).
      destruct (ubs_at BLOCK si p) as [u|e|x]; [|split; [reflexivity | apply liftC_empty]..].
      apply IH. destruct Hd as (H1 & H2 & H3). repeat split; auto.
    - destruct Hs as (-> & -> & Hb & Hpl & Hof).
      destruct (u2 <? r2); [split; [reflexivity | apply liftC_empty]|].
      destruct (r2 =? u2); [apply IH; repeat split; auto|].
      unfold dec_read. rewrite <- Hpl, <- Hof. cbn [fst snd]. split; [reflexivity|]. repeat split; auto.
    - split; [reflexivity | apply liftC_empty].
  Qed.

  Lemma into_inner_lift s1 s2 : liftS s1 s2 ->
    match into_inner I1 s1, into_inner I2 s2 with
    | Ok i1, Ok i2 => B i1 i2
    | Err e1, Err e2 => e1 = e2
    | Crash c1, Crash c2 => c1 = c2
    | _, _ => False
    end.
  Proof.
    destruct s1 as [i1|r1 u1 d1|], s2 as [i2|r2 u2 d2|]; cbn [liftS into_inner]; try contradiction; auto.
    intros (_ & _ & Hb & _). exact Hb.
  Qed.

  Lemma cseek_start_lift c1 c2 q : liftC c1 c2 ->
    snd (sk R1 c1 (FromStart q)) = snd (sk R2 c2 (FromStart q)) /\ liftC (fst (sk R1 c1 (FromStart q))) (fst (sk R2 c2 (FromStart q))).
  Proof.
    intros HL. destruct c1 as [st1 si p], c2 as [st2 si2 p2]. pose proof HL as (Hs & Hsi & Hp). cbn [c_state c_si c_pos] in Hs, Hsi, Hp. subst si2 p2.
    cbn [CompReader sk]. unfold cseek. cbn [c_si]. destruct si as [s|]; [|split; [reflexivity | exact HL]].
    unfold cseek_start. cbn [c_si c_state].
    assert (Hgo : snd (cseek_start_go BLOCK dec I1 (mkC st1 (Some s) p) s q) = snd (cseek_start_go BLOCK dec I2 (mkC st2 (Some s) p) s q) /\
                  liftC (fst (cseek_start_go BLOCK dec I1 (mkC st1 (Some s) p) s q)) (fst (cseek_start_go BLOCK dec I2 (mkC st2 (Some s) p) s q))).
    { unfold cseek_start_go. cbn [c_si c_state c_pos set_state].
      pose proof (into_inner_lift st1 st2 Hs) as Hi.
      destruct (negb (pos_in_stream BLOCK (Some s) (q - q mod BLOCK))).
      - destruct (negb (q =? si_max BLOCK s)); [split; [reflexivity | exact HL]|].
        destruct (into_inner I1 st1) as [i1|e1|x1], (into_inner I2 st2) as [i2|e2|x2]; try contradiction;
          try (subst; split; [reflexivity | apply liftC_empty]).
        split; [reflexivity|]. repeat split; auto.
      - destruct (into_inner I1 st1) as [i1|e1|x1], (into_inner I2 st2) as [i2|e2|x2]; try contradiction;
          try (subst; split; [reflexivity | apply liftC_empty]).
        destruct (sync_inner_lift (Some s) i1 i2 (q - q mod BLOCK) Hi) as [Hr Hx].
        destruct (sync_inner BLOCK I1 (Some s) i1 _) as [a ra], (sync_inner BLOCK I2 (Some s) i2 _) as [b rb]. cbn [fst snd] in Hr, Hx. subst rb.
        destruct ra as [[]|e|c]; [|split; [reflexivity | apply liftC_empty]..].
        pose proof (new_decompressor_lift (Some s) a b (q - q mod BLOCK) Hx) as Hd.
        destruct (new_decompressor_at BLOCK dec I1 (Some s) a _) as [d1|e1|x1], (new_decompressor_at BLOCK dec I2 (Some s) b _) as [d2|e2|x2];
          cbn [liftD] in Hd; try contradiction; try (subst; split; [reflexivity | apply liftC_empty]).
        destruct (ubs_at BLOCK (Some s) (q - q mod BLOCK)) as [u|e|x]; [|split; [reflexivity | apply liftC_empty]..].
        destruct Hd as (H1 & H2 & H3). unfold dec_read. rewrite <- H2, <- H3.
        destruct (2 ^ 32 <=? q mod BLOCK); [split; [reflexivity | apply liftC_empty]|].
        cbn [fst snd]. split; [reflexivity|]. repeat split; auto. }
    destruct st1 as [i1|r1 u1 d1|], st2 as [i2|r2 u2 d2|]; cbn [liftS] in Hs; try contradiction; try exact Hgo.
    split; [reflexivity | exact HL].
  Qed.

  Lemma comp_lift : SimRS R1 R2 liftC.
  Proof. split; [intros c1 c2 n HL; exact (cread_aux_lift 4 c1 c2 n HL) | exact cseek_start_lift]. Qed.
End CompSim.

(* ---------- the stack ---------- *)
Section StackSim.
  Variables CHUNK TAG BLOCK : N.
  Variable ks : N -> N -> N.
  Variable tagc : N -> bytes -> bytes.
  Variable dec : bytes -> bytes.
  Hypothesis HCHUNK : 0 < CHUNK.
  Hypothesis Hfits : cts_fits CHUNK TAG.
  Hypothesis HB32 : BLOCK < 2 ^ 32.
  Hypothesis HB0 : BLOCK <> 0.
  Variable Src : Stream.
  Variables site_enc s1 s2 s3 : N.
  Variable fuel : nat.

  Notation StackT := (StackSrc CHUNK TAG BLOCK ks tagc dec Src site_enc s1 s2 s3 fuel).
  Notation StackM := (CompS CHUNK TAG BLOCK ks tagc dec Src).
  Notation EncT := (EncSrcS CHUNK TAG ks tagc Src site_enc fuel).
  Notation EncM := (EncS CHUNK TAG ks tagc Src).

  (* encryption reader: translated over translated raw  ~  model over model raw *)
  Definition Aenc (x : st EncT) (e : st EncM) : Prop :=
    exists y, y = SrcTie3Enc.abs (RawSrcS Src) x /\
              liftE (RawSrcS Src) (RawS Src) (fun r s => s = abs_raw Src r) y e.
  Lemma sim_enc_stack : SimRS EncT EncM Aenc.
  Proof.
    apply (sim_compose EncT (EncReader CHUNK TAG ks tagc (RawSrcS Src)) EncM).
    - exact (sim_enc_src CHUNK TAG ks tagc HCHUNK Hfits (RawSrcS Src) site_enc fuel).
    - exact (enc_lift CHUNK TAG ks tagc (RawSrcS Src) (RawS Src) _ (sim_raw_src Src)).
  Qed.

  (* the whole stack *)
  Definition Astack (x : st StackT) (c : st StackM) : Prop :=
    exists y, (wf EncT x /\ y = SrcTie3Comp.abs EncT x) /\ liftC EncT EncM Aenc y c.
  Theorem sim_stack : SimRS StackT StackM Astack.
  Proof.
    apply (sim_compose StackT (CompReader BLOCK dec EncT) StackM).
    - exact (sim_comp_src BLOCK dec HB32 HB0 EncT s1 s2 s3).
    - exact (comp_lift BLOCK dec EncT EncM Aenc sim_enc_stack).
  Qed.
End StackSim.
