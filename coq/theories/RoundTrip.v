(* RoundTrip.v — C01, the block-stream round trip: whatever sequence of successful writer
   calls (then finalize) produced the block stream, a reader over ANY stream refining a
   cursor over it (i.e. through any stack of layers, with short reads) opens, lists exactly
   the started names, and for each returns exactly the bytes given, their count and H of them;
   unknown names are absent.  For every FNMAX, pairwise distinct block tags, H with 32-byte
   output, and every footer iteration order. *)
From MLA Require Import Limit.
From MLA Require Import Base Stream Blocks Writer Reader RoundTripBlocks RoundTripFooter
  RoundTripReader RoundTripWriter RoundTripRun RoundTripGlue.
From Coq Require Import ZifyBool ZifyNat ZifyN Permutation.
Open Scope N_scope.

Section RoundTrip.
  Context {LIM : Limit}.
  Variable FNMAX : N.
  Variables T_START T_CONTENT T_EOA T_EOF : N.
  Variable H : bytes -> bytes.
  Variable order : footer -> footer.
  Hypothesis Htags : tags_distinct T_START T_CONTENT T_EOA T_EOF.
  Hypothesis HHlen : forall x, len (H x) = 32.
  Hypothesis Horder : forall f, Permutation (order f) f.

  Notation ser_blocks := (ser_blocks T_START T_CONTENT T_EOA T_EOF).
  Notation wrun := (wrun FNMAX T_START T_CONTENT T_EOA T_EOF H order).
  Notation WInv := (WInv FNMAX T_START T_CONTENT T_EOA T_EOF H).

  (* the calls, all successful, then finalize *)
  Variable ops : list wop.
  Variable sf : wstate.
  Variable rs : list (res N).
  Hypothesis Hrun : wrun w_init (ops ++ [OFinalize]) = (sf, rs).
  Hypothesis Hok : Forall (fun r => is_ok r = true) rs.
  Hypothesis Hutf : forallb op_utf8 ops = true.
  (* u64 positions / u32 footer length.  Since the model has the bincode limit (fixlimits) Hfoot32 is
     IMPLIED by Hrun/Hok (RoundTripRun.writer_final_limits: a successful finalize means the footer is
     <= lim and < 2^32); it is kept as a (now redundant) premise so that the statements do not change *)
  Hypothesis Hlen64 : len (w_out sf) < 2 ^ 64.
  Hypothesis Hfoot32 : len (ser_footer_map (order (w_footer sf))) < 2 ^ 32.

  Variable S : Stream.
  Variable R : st S -> N -> Prop.
  Hypothesis HR : Refines S (w_out sf) R.

  Notation ropen := (ropen S).
  Notation list_files := (list_files S).
  Notation get_file := (get_file FNMAX T_START T_CONTENT T_EOA T_EOF S).
  Notation get_hash := (get_hash FNMAX T_START T_CONTENT T_EOA T_EOF S).
  Notation read_all := (read_all FNMAX T_START T_CONTENT T_EOA T_EOF S).

  (* a reader over the archive: its footer is the written one, its source stands somewhere *)
  Definition RS (r : rstate S) : Prop :=
    r_meta r = order (w_footer sf) /\ exists p, R (r_src r) p.

  Lemma rt_setup : exists s bl,
    WInv s bl /\ w_open s = [] /\
    w_out sf = ser_blocks bl ++ [T_EOA] ++ ser_footer (order (w_footer sf)) /\
    w_footer sf = w_footer s /\ names_of bl = started 0 ops /\
    (forall id, concat (datas id bl) = pieces 0 id ops) /\ len (ser_blocks bl) < 2 ^ 64.
  Proof.
    destruct (writer_final _ _ _ _ _ _ _ HHlen _ _ _ Hrun Hok Hutf) as (s & bl & HI & Ho & Hout & Hf & Hn & Hd).
    assert (Hl : len (ser_blocks bl) < 2 ^ 64).
    { pose proof Hlen64 as Hx. rewrite Hout, len_app in Hx. lia. }
    exists s, bl. rewrite Hf. exact (conj HI (conj Ho (conj Hout (conj eq_refl (conj Hn (conj Hd Hl)))))).
  Qed.

  Lemma started_files s bl : WInv s bl -> names_of bl = started 0 ops -> w_files s = started 0 ops.
  Proof. intros HI <-. exact (wi_files _ _ _ _ _ _ _ _ HI). Qed.

  (* 1. the reader opens *)
  Theorem rt_open s0 p0 : R s0 p0 -> exists r, ropen s0 = Ok r /\ RS r.
  Proof.
    intros HR0. destruct rt_setup as (s & bl & HI & Ho & Hout & Hf & Hn & Hd & Hl).
    assert (HR' : Refines S ((ser_blocks bl ++ [T_EOA]) ++ ser_footer (order (w_footer sf))) R).
    { rewrite <- app_assoc, <- Hout. exact HR. }
    assert (Hwf : wf_footer (order (w_footer sf))).
    { apply (final_footer_wf _ _ _ _ _ _ _ _ HI Hl Ho). rewrite Hf. apply Horder. }
    destruct (ropen_spec S _ _ R HR' Hwf Hfoot32 (proj1 (writer_final_limits _ _ _ _ _ _ _ _ _ _ Hrun Hok)) s0 p0 HR0) as (s' & Hop & HR1).
    eexists. split; [exact Hop|]. split; [reflexivity | exists 0; exact HR1].
  Qed.

  (* 2. exactly the started names, each once *)
  Theorem rt_list r : RS r ->
    Permutation (list_files r) (map fst (started 0 ops)) /\ NoDup (list_files r).
  Proof.
    intros [Hm _]. destruct rt_setup as (s & bl & HI & Ho & Hout & Hf & Hn & Hd & Hl).
    pose proof (final_footer_keys _ _ _ _ _ _ _ _ HI Hl Ho) as Hk.
    pose proof (wi_nodup _ _ _ _ _ _ _ _ HI) as Hnd.
    assert (Hp : Permutation (map fst (order (w_footer sf))) (map fst (w_files s))).
    { rewrite <- Hk, <- Hf. apply Permutation_map. apply Horder. }
    assert (Hnd' : NoDup (map fst (order (w_footer sf)))).
    { apply (Permutation_NoDup (l := map fst (w_files s))); [symmetry; exact Hp | exact Hnd]. }
    unfold Reader.list_files. rewrite Hm, dedup_names_nodup by (auto; intros ? ? []).
    rewrite <- (started_files s bl HI Hn). auto.
  Qed.

  Lemma rt_lookup s bl name id :
    WInv s bl -> w_open s = [] -> w_footer sf = w_footer s -> len (ser_blocks bl) < 2 ^ 64 ->
    In (name, id) (w_files s) ->
    exists fi nm, flookup (order (w_footer sf)) name = Some fi /\
      fi_offsets fi = run_offs T_START T_CONTENT T_EOA T_EOF id None 0 bl /\
      fi_size fi = len (concat (datas id bl)) /\
      proj id bl = BStart id nm :: map (BContent id) (datas id bl) ++ [BEof id (H (concat (datas id bl)))] /\
      exists pre post, bl = pre ++ BEof id (H (concat (datas id bl))) :: post /\ fi_eof fi = len (ser_blocks pre).
  Proof.
    intros HI Ho Hf Hl Hin.
    destruct (final_file _ _ _ _ _ _ _ _ HI Hl Ho name id Hin) as (fi & nm & Hfi & Hrest).
    exists fi, nm. split; [|exact Hrest].
    apply (flookup_perm _ (w_footer sf)); [apply Horder | |].
    - rewrite Hf, (final_footer_keys _ _ _ _ _ _ _ _ HI Hl Ho). exact (wi_nodup _ _ _ _ _ _ _ _ HI).
    - rewrite Hf. apply (footer_in s name id fi Hin Hfi).
  Qed.

  (* 3. content and size; reading with any positive buffer sizes, over short reads *)
  Theorem rt_get_file r name id : RS r -> In (name, id) (started 0 ops) ->
    exists r' bs, get_file r name = (r', Ok (Some (bs, len (pieces 0 id ops)))) /\ RS r' /\
      forall sizes, (forall i, 0 < sizes i) ->
      forall zf fuel, (length (pieces 0 id ops) < fuel)%nat ->
      exists bs', read_all zf fuel bs sizes 0%nat [] = (bs', Ok (pieces 0 id ops)) /\ b_mode bs' = BFinish.
  Proof.
    intros HRS Hin. destruct rt_setup as (s & bl & HI & Ho & Hout & Hf & Hn & Hd & Hl).
    rewrite <- (started_files s bl HI Hn) in Hin.
    destruct (rt_lookup s bl name id HI Ho Hf Hl Hin) as (fi & nm & Hlk & Hoff & Hsz & Hproj & _).
    destruct (blocks_wfb _ _ _ _ _ _ _ _ HI Hl) as [Hwf Hne].
    assert (HR' : Refines S (ser_blocks bl ++ [T_EOA] ++ ser_footer (order (w_footer sf))) R)
      by (rewrite <- Hout; exact HR).
    destruct (get_file_spec FNMAX _ _ _ _ Htags S bl _ R HR' Hwf Hne id _ r name fi nm _ _ HRS Hlk Hoff Hproj)
      as (r' & bs & Hgf & HRS' & HRI).
    exists r', bs. rewrite Hsz, Hd in Hgf. split; [exact Hgf|]. split; [exact HRS'|].
    intros sizes Hsz' zf fuel Hfuel. rewrite Hd in HRI.
    exact (read_all_spec FNMAX _ _ _ _ Htags S bl _ R HR' Hwf Hne id sizes Hsz' zf fuel bs _ 0%nat [] HRI Hfuel).
  Qed.

  (* every single read with a positive buffer is Ok, delivers at most n of the next bytes,
     and an empty delivery happens only at the end (never Err / Crash on the way) *)
  Theorem rt_reads_ok r name id : RS r -> In (name, id) (started 0 ops) ->
    exists r' bs (Inv : bstate S -> bytes -> Prop),
      get_file r name = (r', Ok (Some (bs, len (pieces 0 id ops)))) /\ Inv bs (pieces 0 id ops) /\
      forall zf b todo n, Inv b todo -> 0 < n ->
        exists b' d todo', bread FNMAX T_START T_CONTENT T_EOA T_EOF S zf b n = (b', Ok d) /\
          len d <= n /\ todo = d ++ todo' /\ Inv b' todo' /\ (d = [] -> todo = [] /\ b_mode b' = BFinish).
  Proof.
    intros HRS Hin. destruct rt_setup as (s & bl & HI & Ho & Hout & Hf & Hn & Hd & Hl).
    rewrite <- (started_files s bl HI Hn) in Hin.
    destruct (rt_lookup s bl name id HI Ho Hf Hl Hin) as (fi & nm & Hlk & Hoff & Hsz & Hproj & _).
    destruct (blocks_wfb _ _ _ _ _ _ _ _ HI Hl) as [Hwf Hne].
    assert (HR' : Refines S (ser_blocks bl ++ [T_EOA] ++ ser_footer (order (w_footer sf))) R)
      by (rewrite <- Hout; exact HR).
    destruct (get_file_spec FNMAX _ _ _ _ Htags S bl _ R HR' Hwf Hne id _ r name fi nm _ _ HRS Hlk Hoff Hproj)
      as (r' & bs & Hgf & HRS' & HRI).
    exists r', bs, (RI T_START T_CONTENT T_EOA T_EOF S bl R id).
    rewrite Hsz, Hd in Hgf. rewrite Hd in HRI. split; [exact Hgf|]. split; [exact HRI|].
    intros zf b todo n Hb Hn0.
    exact (bread_step FNMAX _ _ _ _ Htags S bl _ R HR' Hwf Hne id zf b todo n Hb Hn0).
  Qed.

  (* 4. the stored hash *)
  Theorem rt_get_hash r name id : RS r -> In (name, id) (started 0 ops) ->
    exists r', get_hash r name = (r', Ok (Some (H (pieces 0 id ops)))) /\ RS r'.
  Proof.
    intros HRS Hin. destruct rt_setup as (s & bl & HI & Ho & Hout & Hf & Hn & Hd & Hl).
    rewrite <- (started_files s bl HI Hn) in Hin.
    destruct (rt_lookup s bl name id HI Ho Hf Hl Hin) as (fi & nm & Hlk & _ & _ & _ & pre & post & Hbl & Heof).
    destruct (blocks_wfb _ _ _ _ _ _ _ _ HI Hl) as [Hwf Hne].
    assert (HR' : Refines S (ser_blocks bl ++ [T_EOA] ++ ser_footer (order (w_footer sf))) R)
      by (rewrite <- Hout; exact HR).
    rewrite Hd in Hbl.
    exact (get_hash_spec FNMAX _ _ _ _ Htags S bl _ R HR' Hwf Hne _ r name fi pre id _ post HRS Hlk Hbl Heof).
  Qed.

  (* 5. names never started *)
  Theorem rt_absent r name : RS r -> ~ In name (map fst (started 0 ops)) ->
    get_file r name = (r, Ok None) /\ get_hash r name = (r, Ok None).
  Proof.
    intros HRS Hnin. destruct rt_setup as (s & bl & HI & Ho & Hout & Hf & Hn & Hd & Hl).
    apply (get_none_spec FNMAX _ _ _ _ S R (order (w_footer sf))); [|exact HRS].
    apply (flookup_perm_none _ (w_footer sf)); [apply Horder|].
    rewrite Hf, (final_footer_keys _ _ _ _ _ _ _ _ HI Hl Ho), (started_files s bl HI Hn). exact Hnin.
  Qed.
End RoundTrip.
