(* FormatProofs.v — facts about the FORMAT.md codec of Format.v.  No axioms. *)
From MLA Require Import Base Format.
From MLA Require Blocks.
From Coq Require Import ZifyBool ZifyNat ZifyN.
Open Scope N_scope.

(* ---------- reading what was appended ---------- *)
Lemma take_app n (a b : bytes) : len a = n -> take n (a ++ b) = Some (a, b).
Proof.
  intros <-. unfold take. rewrite len_app.
  destruct (N.ltb_spec (len a + len b) (len a)); [lia|].
  now rewrite takeN_len_app, dropN_len_app.
Qed.
Lemma le_val_le64 v : v < 2 ^ 64 -> le_val (le64 v) = v.
Proof. intros Hv. unfold le64, Blocks.le64. apply le_val_le_bytes. exact Hv. Qed.
Lemma le_val_le32 v : v < 2 ^ 32 -> le_val (le32 v) = v.
Proof. intros Hv. unfold le32, Blocks.le32. apply le_val_le_bytes. exact Hv. Qed.
Lemma len_le64 v : len (le64 v) = 8. Proof. unfold le64, Blocks.le64. now rewrite len_le_bytes. Qed.
Lemma len_le32 v : len (le32 v) = 4. Proof. unfold le32, Blocks.le32. now rewrite len_le_bytes. Qed.
Lemma take_le64_app v b : v < 2 ^ 64 -> take_le 8 (le64 v ++ b) = Some (v, b).
Proof. intros Hv. unfold take_le. rewrite take_app by apply len_le64. now rewrite le_val_le64. Qed.
Lemma take_le32_app v b : v < 2 ^ 32 -> take_le 4 (le32 v ++ b) = Some (v, b).
Proof. intros Hv. unfold take_le. rewrite take_app by apply len_le32. now rewrite le_val_le32. Qed.
Lemma take_last_le32 (a : bytes) v : v < 2 ^ 32 -> take_last_le 4 (a ++ le32 v) = Some (a, v).
Proof.
  intros Hv. unfold take_last_le. rewrite len_app, len_le32.
  destruct (N.ltb_spec (len a + 4) 4); [lia|].
  replace (len a + 4 - 4) with (len a) by lia.
  now rewrite takeN_len_app, dropN_len_app, le_val_le32.
Qed.

Lemma take_items_app {A} (item : bytes -> option (A * bytes)) (ser : A -> bytes) (xs : list A) (b : bytes) :
  (forall x r, In x xs -> item (ser x ++ r) = Some (x, r)) ->
  take_items (length xs) item (concat (map ser xs) ++ b) = Some (xs, b).
Proof.
  induction xs as [|x xs IH]; intros Hi; cbn [length take_items map concat app]; [reflexivity|].
  rewrite <- app_assoc, Hi by (left; reflexivity).
  rewrite IH by (intros y r Hy; apply Hi; right; exact Hy). reflexivity.
Qed.
Lemma len_concat_const {A} (ser : A -> bytes) (xs : list A) w :
  (forall x, In x xs -> len (ser x) = w) -> len (concat (map ser xs)) = w * len xs.
Proof.
  induction xs as [|x xs IH]; intros Hw; cbn [map concat]; [unfold len; cbn [length]; lia|].
  rewrite len_app, len_cons, Hw, IH by (try (left; reflexivity); intros y Hy; apply Hw; right; exact Hy). lia.
Qed.

(* ---------- the header ---------- *)
Definition wf_enc_header (eh : enc_header) : Prop :=
  len (eh_public eh) = 32 /\ len (eh_nonce eh) = NONCELEN /\ len (eh_keys eh) < 2 ^ 64 /\
  Forall (fun kt => len (fst kt) = KEYLEN /\ len (snd kt) = TAGLEN) (eh_keys eh).
Definition wf_header (h : header) : Prop :=
  h_layers h <= 3 /\
  match h_enc h with
  | Some eh => wf_enc_header eh
  | None => has_bit (h_layers h) L_ENCRYPT = false
  end.

Lemma parse_enc_header_ser eh data : wf_enc_header eh ->
  parse_enc_header (ser_enc_header eh ++ data) = Some (eh, data).
Proof.
  intros (Hp & Hn & Hk & Hkeys). unfold parse_enc_header, ser_enc_header.
  rewrite <- !app_assoc, (take_app 32) by exact Hp.
  rewrite take_le64_app by exact Hk.
  assert (Hitem : forall kt r, In kt (eh_keys eh) ->
            take_key_and_tag ((fst kt ++ snd kt) ++ r) = Some (kt, r)).
  { intros [k t] r Hin. rewrite Forall_forall in Hkeys. destruct (Hkeys _ Hin) as [Hk1 Ht1].
    cbn [fst snd] in *. unfold take_key_and_tag.
    rewrite <- app_assoc, (take_app KEYLEN) by exact Hk1. now rewrite (take_app TAGLEN) by exact Ht1. }
  assert (Hlen : len (concat (map (fun kt => fst kt ++ snd kt) (eh_keys eh))) = 48 * len (eh_keys eh)).
  { apply len_concat_const. intros [k t] Hin. rewrite Forall_forall in Hkeys.
    destruct (Hkeys _ Hin) as [Hk1 Ht1]. cbn [fst snd] in *. rewrite len_app, Hk1, Ht1. reflexivity. }
  destruct (N.ltb_spec (len (concat (map (fun kt => fst kt ++ snd kt) (eh_keys eh)) ++ eh_nonce eh ++ data))
                       (48 * len (eh_keys eh))) as [Hlt|_].
  { rewrite len_app, Hlen in Hlt. lia. }
  replace (N.to_nat (len (eh_keys eh))) with (length (eh_keys eh)) by (unfold len; lia).
  rewrite (take_items_app take_key_and_tag (fun kt => fst kt ++ snd kt)) by exact Hitem.
  rewrite (take_app NONCELEN) by exact Hn. now destruct eh.
Qed.

Theorem parse_header_ser h data : wf_header h ->
  parse_header (ser_header h ++ data) = Ok (h, data).
Proof.
  intros [Hl He]. unfold parse_header, ser_header.
  rewrite <- !app_assoc, (take_app 3) by reflexivity.
  rewrite bytes_eqb_refl. cbn [negb].
  rewrite take_le32_app by (cbv; reflexivity).
  rewrite N.eqb_refl. cbn [negb app].
  destruct (N.ltb_spec 3 (h_layers h)); [lia|].
  destruct h as [layers [eh|]]; cbn [h_enc h_layers] in *.
  - cbn [app]. change (1 =? 0) with false. change (1 =? 1) with true. cbn iota.
    now rewrite parse_enc_header_ser by exact He.
  - cbn [app]. change (0 =? 0) with true. cbn iota. now rewrite He.
Qed.

(* ---------- the encryption layer ---------- *)
Section Enc.
  Variable CHUNK : N.
  Variable aopen : bytes -> bytes -> bytes -> bytes -> option bytes.
  Variable aseal : bytes -> bytes -> bytes -> bytes * bytes.
  Hypothesis HCH : 0 < CHUNK.
  (* what AES-GCM provides (GcmProofs.v for the concrete instance): open after seal, lengths *)
  Variable K : bytes -> Prop.                       (* the keys for which the laws hold (32 bytes) *)
  Hypothesis open_seal : forall k n p, K k -> length n = 12%nat ->
    aopen k n (fst (aseal k n p)) (snd (aseal k n p)) = Some p.
  Hypothesis len_ct : forall k n p, K k -> length n = 12%nat -> len (fst (aseal k n p)) = len p.
  Hypothesis len_tag : forall k n p, K k -> length n = 12%nat -> len (snd (aseal k n p)) = TAGLEN.

  Lemma length_data_nonce nonce8 i : length nonce8 = 8%nat -> length (data_nonce nonce8 i) = 12%nat.
  Proof. intros H8. unfold data_nonce. now rewrite app_length, length_be_bytes, H8. Qed.

  Lemma divup_le (L : N) : L <= ((L + CHUNK - 1) / CHUNK) * CHUNK.
  Proof.
    pose proof (N.div_mod (L + CHUNK - 1) CHUNK ltac:(lia)) as Hd.
    pose proof (N.mod_lt (L + CHUNK - 1) CHUNK ltac:(lia)) as Hm. nia.
  Qed.

  (* the DataBlocks written for n chunks are found again by cutting at CHUNK + 16 *)
  Lemma dec_enc_chunks kd nonce8 (HK : K kd) (H8 : length nonce8 = 8%nat) : forall n i plain,
    len plain <= N.of_nat n * CHUNK -> (n = 0%nat \/ (N.of_nat n - 1) * CHUNK < len plain) ->
    i + N.of_nat n <= 2 ^ 32 ->
    dec_chunks aopen kd nonce8 i
      (split_blocks n (CHUNK + TAGLEN) (enc_chunks CHUNK aseal n kd nonce8 i plain)) = Ok plain.
  Proof.
    induction n as [|n IH]; intros i plain Hle Hlast Hi.
    - cbn [split_blocks enc_chunks dec_chunks]. f_equal. symmetry. apply len_0_nil. lia.
    - cbn [split_blocks enc_chunks].
      destruct (aseal kd (data_nonce nonce8 i) (takeN CHUNK plain)) as [ct tag] eqn:Es.
      pose proof (open_seal kd (data_nonce nonce8 i) (takeN CHUNK plain) HK (length_data_nonce nonce8 i H8)) as Ho.
      pose proof (len_ct kd (data_nonce nonce8 i) (takeN CHUNK plain) HK (length_data_nonce nonce8 i H8)) as Hc.
      pose proof (len_tag kd (data_nonce nonce8 i) (takeN CHUNK plain) HK (length_data_nonce nonce8 i H8)) as Ht.
      rewrite Es in Ho, Hc, Ht. cbn [fst snd] in Ho, Hc, Ht.
      rewrite len_takeN in Hc.
      destruct n as [|n'].
      + (* the last chunk: possibly shorter *)
        cbn [enc_chunks split_blocks]. rewrite app_nil_r.
        assert (HL : len plain <= CHUNK) by lia.
        rewrite takeN_all by (rewrite len_app; lia).
        cbn [dec_chunks]. rewrite len_app, Ht.
        destruct (N.ltb_spec (len ct + TAGLEN) TAGLEN); [lia|].
        destruct (N.leb_spec (2 ^ 32) i); [lia|].
        replace (len ct + TAGLEN - TAGLEN) with (len ct) by lia.
        rewrite takeN_len_app, dropN_len_app, Ho. cbn [bind].
        rewrite app_nil_r. f_equal. apply takeN_all. lia.
      + assert (HL : CHUNK < len plain) by (destruct Hlast as [H0|H1]; [discriminate|lia]).
        assert (Hcl : len ct = CHUNK) by lia.
        set (rest := enc_chunks CHUNK aseal (S n') kd nonce8 (i + 1) (dropN CHUNK plain)) in *.
        assert (E1 : takeN (CHUNK + TAGLEN) (ct ++ tag ++ rest) = ct ++ tag).
        { rewrite app_assoc. rewrite <- (takeN_len_app (ct ++ tag) rest) at 2.
          f_equal. rewrite len_app. lia. }
        assert (E2 : dropN (CHUNK + TAGLEN) (ct ++ tag ++ rest) = rest).
        { rewrite app_assoc. rewrite <- (dropN_len_app (ct ++ tag) rest) at 2.
          f_equal. rewrite len_app. lia. }
        rewrite E1, E2. cbn [dec_chunks]. rewrite len_app, Ht.
        destruct (N.ltb_spec (len ct + TAGLEN) TAGLEN); [lia|].
        destruct (N.leb_spec (2 ^ 32) i); [lia|].
        replace (len ct + TAGLEN - TAGLEN) with (len ct) by lia.
        rewrite takeN_len_app, dropN_len_app, Ho.
        unfold rest. rewrite IH.
        * cbn [bind]. now rewrite takeN_dropN.
        * rewrite len_dropN. lia.
        * right. rewrite len_dropN. lia.
        * lia.
  Qed.

  Lemma len_enc_chunks kd nonce8 (HK : K kd) (H8 : length nonce8 = 8%nat) : forall n i plain,
    len plain <= N.of_nat n * CHUNK -> (n = 0%nat \/ (N.of_nat n - 1) * CHUNK < len plain) ->
    len (enc_chunks CHUNK aseal n kd nonce8 i plain) = len plain + N.of_nat n * TAGLEN.
  Proof.
    induction n as [|n IH]; intros i plain Hle Hlast; cbn [enc_chunks].
    - rewrite len_nil. lia.
    - destruct (aseal kd (data_nonce nonce8 i) (takeN CHUNK plain)) as [ct tag] eqn:Es.
      pose proof (len_ct kd (data_nonce nonce8 i) (takeN CHUNK plain) HK (length_data_nonce nonce8 i H8)) as Hc.
      pose proof (len_tag kd (data_nonce nonce8 i) (takeN CHUNK plain) HK (length_data_nonce nonce8 i H8)) as Ht.
      rewrite Es in Hc, Ht. cbn [fst snd] in Hc, Ht. rewrite len_takeN in Hc.
      rewrite !len_app, Hc, Ht.
      destruct n as [|n'].
      + cbn [enc_chunks]. rewrite len_nil. lia.
      + rewrite IH.
        * rewrite len_dropN. lia.
        * rewrite len_dropN. lia.
        * right. rewrite len_dropN. lia.
  Qed.

  (* decrypting the data field written by [encrypt] gives the plaintext back *)
  Theorem decrypt_encrypt kd nonce8 plain : K kd -> length nonce8 = 8%nat ->
    (len plain + CHUNK - 1) / CHUNK <= 2 ^ 32 ->
    dec_chunks aopen kd nonce8 0 (data_blocks CHUNK (encrypt CHUNK aseal kd nonce8 plain)) = Ok plain.
  Proof.
    intros HK H8 Hn. unfold data_blocks, encrypt.
    set (n := (len plain + CHUNK - 1) / CHUNK) in *.
    pose proof (divup_le (len plain)) as Hup. fold n in Hup.
    assert (Hlow : n = 0 \/ (n - 1) * CHUNK < len plain).
    { destruct (N.eq_dec n 0) as [->|Hnz]; [left; reflexivity|right].
      pose proof (N.div_mod (len plain + CHUNK - 1) CHUNK ltac:(lia)) as Hd. fold n in Hd.
      pose proof (N.mod_lt (len plain + CHUNK - 1) CHUNK ltac:(lia)) as Hm. nia. }
    assert (Hlast : N.to_nat n = 0%nat \/ (N.of_nat (N.to_nat n) - 1) * CHUNK < len plain).
    { rewrite N2Nat.id. destruct Hlow as [->|H]; [left; reflexivity|right; exact H]. }
    assert (Hup' : len plain <= N.of_nat (N.to_nat n) * CHUNK) by (rewrite N2Nat.id; exact Hup).
    rewrite len_enc_chunks by assumption.
    rewrite N2Nat.id.
    replace ((len plain + n * TAGLEN + (CHUNK + TAGLEN) - 1) / (CHUNK + TAGLEN)) with n.
    - apply dec_enc_chunks; try assumption. rewrite N2Nat.id. lia.
    - destruct Hlow as [H0|Hl].
      + rewrite H0 in *. assert (len plain = 0) by lia.
        symmetry. apply N.div_small. unfold TAGLEN. lia.
      + apply (N.div_unique _ _ n (len plain + n * TAGLEN + (CHUNK + TAGLEN) - 1 - n * (CHUNK + TAGLEN)));
          unfold TAGLEN in *; nia.
  Qed.

  (* ---------- key unwrapping, reader = first recipient ---------- *)
  Variable dhkey_of : bytes -> bytes -> bytes.
  Lemma unwrap_first cpriv cands apub kd dk dks nonce8 :
    K dk -> dhkey_of cpriv apub = dk ->
    unwrap dhkey_of aopen (cpriv :: cands) (mkEH apub (wrap aseal kd (dk :: dks)) nonce8) = Some kd.
  Proof.
    intros HK Hdk. unfold unwrap, unwrap_with. cbn [first_some eh_public eh_keys wrap map].
    rewrite Hdk. cbn [first_some]. now rewrite open_seal by (exact HK || reflexivity).
  Qed.
End Enc.

(* ---------- the layers are transparent: whole archives ---------- *)
Section Whole.
  Variables CHUNK BLOCK : N.
  Variable H : bytes -> bytes.
  Variable dhkey_of : bytes -> bytes -> bytes.
  Variable aopen : bytes -> bytes -> bytes -> bytes -> option bytes.
  Variable aseal : bytes -> bytes -> bytes -> bytes * bytes.
  Variable unbr : bytes -> option bytes.
  Hypothesis HCH : 0 < CHUNK.
  Variable K : bytes -> Prop.
  Hypothesis open_seal : forall k n p, K k -> length n = 12%nat ->
    aopen k n (fst (aseal k n p)) (snd (aseal k n p)) = Some p.
  Hypothesis len_ct : forall k n p, K k -> length n = 12%nat -> len (fst (aseal k n p)) = len p.
  Hypothesis len_tag : forall k n p, K k -> length n = 12%nat -> len (snd (aseal k n p)) = TAGLEN.

  Notation decode := (decode CHUNK BLOCK H dhkey_of aopen unbr).
  Notation decode_content := (decode_content H).

  Theorem decode_encode_plain_layers files cands :
    decode (encode_plain H files) cands = decode_content (encode_content H files).
  Proof.
    clear HCH open_seal len_ct len_tag.
    unfold Format.decode, encode_plain.
    rewrite parse_header_ser by (split; [cbn [h_layers]; lia | reflexivity]).
    cbn [bind h_layers h_enc]. reflexivity.
  Qed.

  (* the reader holds the key of the first recipient: dhkey_of cpriv apub is the dhkey the
     sender used for it (for X25519 + HKDF this is the commutativity of Diffie-Hellman) *)
  Theorem decode_encode_enc_layers files cpriv cands apub dk dks kd nonce8 :
    K kd -> Forall K (dk :: dks) -> dhkey_of cpriv apub = dk ->
    length apub = 32%nat -> length kd = 32%nat -> length nonce8 = 8%nat -> len dks < 2 ^ 63 ->
    (len (encode_content H files) + CHUNK - 1) / CHUNK <= 2 ^ 32 ->
    decode (encode_enc CHUNK H aseal files apub (dk :: dks) kd nonce8) (cpriv :: cands)
    = decode_content (encode_content H files).
  Proof.
    intros HKd HKs Hdk Hap Hkd H8 Hn Hch. unfold Format.decode, encode_enc.
    assert (Hw12 : length WRAP_NONCE = 12%nat) by reflexivity.
    assert (HKdk : K dk) by (inversion HKs; assumption).
    rewrite parse_header_ser.
    2:{ split; [cbn [h_layers]; unfold L_ENCRYPT; lia|]. cbn [h_enc]. unfold wf_enc_header.
        cbn [eh_public eh_nonce eh_keys]. repeat split.
        - unfold len. rewrite Hap. reflexivity.
        - unfold len. rewrite H8. reflexivity.
        - unfold wrap, len in *. rewrite map_length. cbn [length] in *. lia.
        - unfold wrap. apply Forall_forall. intros kt Hin. apply in_map_iff in Hin.
          destruct Hin as (d & <- & Hd). rewrite Forall_forall in HKs. split.
          + rewrite len_ct by (auto using HKs). unfold len. rewrite Hkd. reflexivity.
          + apply len_tag; auto using HKs. }
    cbn [bind h_layers h_enc]. change (has_bit L_ENCRYPT L_ENCRYPT) with true.
    change (has_bit L_ENCRYPT L_COMPRESS) with false. cbn iota.
    unfold decrypt. rewrite (unwrap_first aopen aseal K open_seal dhkey_of) by assumption.
    cbn [eh_nonce].
    rewrite (decrypt_encrypt CHUNK aopen aseal HCH K open_seal len_ct len_tag) by assumption.
    cbn [bind]. reflexivity.
  Qed.
End Whole.

(* ---------- the laws of the Enc / Whole sections hold for AES-256-GCM (GcmSpec.v) ---------- *)
From MLA.Concrete Require Import Aes Ghash GcmSpec.
From MLA Require GcmProofs.

Lemma length_ctr_block nonce i : length nonce = 12%nat -> length (ctr_block nonce i) = 16%nat.
Proof. intros Hn. unfold ctr_block. now rewrite app_length, length_be_bytes, Hn. Qed.

Lemma len_keystream_blocks rk nonce : rk <> [] -> Forall (fun k => length k = 16%nat) rk ->
  length nonce = 12%nat -> forall m i, len (keystream_blocks rk nonce m i) = 16 * N.of_nat m.
Proof.
  intros Hne Hrk Hn. induction m as [|m IH]; intros i; cbn [keystream_blocks].
  - reflexivity.
  - rewrite len_app, IH. unfold len at 1.
    rewrite (GcmProofs.length_aes_encrypt_rk rk _ Hne Hrk (length_ctr_block nonce i Hn)). lia.
Qed.

Lemma len_keystream_rk rk nonce n : rk <> [] -> Forall (fun k => length k = 16%nat) rk ->
  length nonce = 12%nat -> len (keystream_rk rk nonce n) = n.
Proof.
  intros Hne Hrk Hn. unfold keystream_rk. rewrite len_takeN, (len_keystream_blocks rk nonce Hne Hrk Hn).
  rewrite N2Nat.id. pose proof (N.div_mod (n + 15) 16 ltac:(lia)). pose proof (N.mod_lt (n + 15) 16 ltac:(lia)). lia.
Qed.

Lemma len_gcm_ctr_rk rk nonce d : rk <> [] -> Forall (fun k => length k = 16%nat) rk ->
  length nonce = 12%nat -> len (gcm_ctr_rk rk nonce d) = len d.
Proof.
  intros Hne Hrk Hn. unfold gcm_ctr_rk. rewrite GcmProofs.len_xor_bytes, len_keystream_rk by assumption. lia.
Qed.

Definition key32 (k : bytes) : Prop := length k = 32%nat.

Lemma gcm_open_seal k n p : key32 k -> length n = 12%nat ->
  aopen_gcm k n (fst (aseal_gcm k n p)) (snd (aseal_gcm k n p)) = Some p.
Proof.
  intros Hk Hn. destruct (GcmProofs.aes256_expand_ok k Hk) as [Hne Hrk].
  unfold aopen_gcm, aseal_gcm, gcm_decrypt, gcm_encrypt, gcm_encrypt_rk. cbn [fst snd].
  rewrite gcm_decrypt_rk_Some by reflexivity. f_equal.
  unfold gcm_ctr_rk at 1. rewrite len_gcm_ctr_rk by assumption.
  unfold gcm_ctr_rk. apply GcmProofs.xor_bytes_cancel. rewrite len_keystream_rk by assumption. lia.
Qed.
Lemma gcm_len_ct k n p : key32 k -> length n = 12%nat -> len (fst (aseal_gcm k n p)) = len p.
Proof.
  intros Hk Hn. destruct (GcmProofs.aes256_expand_ok k Hk) as [Hne Hrk].
  unfold aseal_gcm, gcm_encrypt, gcm_encrypt_rk. cbn [fst]. now apply len_gcm_ctr_rk.
Qed.
Lemma gcm_len_tag k n p : key32 k -> length n = 12%nat -> len (snd (aseal_gcm k n p)) = TAGLEN.
Proof.
  intros Hk Hn. destruct (GcmProofs.aes256_expand_ok k Hk) as [Hne Hrk].
  unfold aseal_gcm, gcm_encrypt, gcm_encrypt_rk, gcm_tag_rk. cbn [snd].
  rewrite GcmProofs.len_xor_bytes. unfold len.
  rewrite (GcmProofs.length_aes_encrypt_rk _ _ Hne Hrk (length_ctr_block n 1 Hn)).
  rewrite length_N_to_block. reflexivity.
Qed.

(* ---------- format v1 with the concrete primitives ---------- *)
From MLA.Concrete Require Sha256 Hkdf X25519.

Lemma key32_hkdf_info shared : key32 (hkdf_info shared).
Proof.
  unfold key32, hkdf_info, KEYLEN. pose proof (Hkdf.len_hkdf_sha256 None shared KDF_INFO 32 ltac:(lia)) as Hl.
  unfold len in Hl. lia.
Qed.

(* Every archive written by the canonical encoder with an encryption layer is read back by
   the decoder holding the first recipient's private key as the bare content is — provided
   Diffie-Hellman commutes on the two key pairs involved (curve mathematics, RFC 7748; checked
   on the RFC's vectors in Concrete/X25519.v, not proved in general). *)
Theorem decode_encode_v1_enc_layers CHUNK BLOCK unbr files eph rpub rpubs cpriv cands kd nonce8 :
  0 < CHUNK ->
  X25519.x25519 cpriv (X25519.x25519_base eph) = X25519.x25519 eph rpub ->
  length kd = 32%nat -> length nonce8 = 8%nat -> len rpubs < 2 ^ 63 ->
  (len (encode_content Sha256.sha256 files) + CHUNK - 1) / CHUNK <= 2 ^ 32 ->
  decode_v1 CHUNK BLOCK unbr (encode_v1 CHUNK files true eph (rpub :: rpubs) kd nonce8) (cpriv :: cands)
  = decode_content Sha256.sha256 (encode_content Sha256.sha256 files).
Proof.
  intros HCH Hdh Hkd H8 Hn Hch. unfold decode_v1, encode_v1. cbn [map].
  apply (decode_encode_enc_layers CHUNK BLOCK Sha256.sha256 dhkey_x25519 aopen_gcm aseal_gcm unbr HCH key32
           gcm_open_seal gcm_len_ct gcm_len_tag).
  - exact Hkd.
  - constructor; [apply key32_hkdf_info|]. apply Forall_forall. intros d Hin. apply in_map_iff in Hin.
    destruct Hin as (r & <- & _). apply key32_hkdf_info.
  - unfold dhkey_x25519. now rewrite Hdh.
  - unfold X25519.x25519_base. apply X25519.length_x25519.
  - exact Hkd.
  - exact H8.
  - unfold len in *. rewrite map_length. exact Hn.
  - exact Hch.
Qed.

Theorem decode_encode_v1_plain_layers CHUNK BLOCK unbr files eph rpubs kd nonce8 cands :
  decode_v1 CHUNK BLOCK unbr (encode_v1 CHUNK files false eph rpubs kd nonce8) cands
  = decode_content Sha256.sha256 (encode_content Sha256.sha256 files).
Proof. unfold decode_v1, encode_v1. apply decode_encode_plain_layers. Qed.
