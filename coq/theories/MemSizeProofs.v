(* MemSizeProofs.v — C15, archive writer: the measure wmem of MemSize.v is bounded, for EVERY
   call list (valid or not, any sizes and contents of the appended data), by a constant plus
   terms in the number of files started, the number of runs recorded and the lengths of the
   names — and the number of runs by the number of calls, never by the number of bytes. *)
From MLA Require Import Limit.
From MLA Require Import Base Stream Blocks Writer Mem MemSize.
From Coq Require Import ZifyBool ZifyNat ZifyN.
Open Scope N_scope.

(* ---------- the tables ---------- *)

Lemma names_bytes_app l1 l2 : names_bytes (l1 ++ l2) = names_bytes l1 + names_bytes l2.
Proof. unfold names_bytes. induction l1 as [|e l1 IH]; cbn [fold_right app] in *; lia. Qed.
Lemma offs_total_app l1 l2 : offs_total (l1 ++ l2) = offs_total l1 + offs_total l2.
Proof. unfold offs_total. induction l1 as [|e l1 IH]; cbn [fold_right app] in *; lia. Qed.
Lemma offs_total_cons e l : offs_total (e :: l) = len (fi_offsets (snd e)) + offs_total l.
Proof. reflexivity. Qed.

Lemma len_single {A} (x : A) : len [x] = 1.
Proof. reflexivity. Qed.

Lemma len_aupdate {A} (l : list (N * A)) id f : len (aupdate l id f) = len l.
Proof.
  induction l as [|[k v] l IH]; cbn [aupdate]; [reflexivity|].
  destruct (k =? id); rewrite !len_cons; [reflexivity | now rewrite IH].
Qed.
Lemma offs_total_aupdate_le l id f d :
  (forall fi, len (fi_offsets (f fi)) <= len (fi_offsets fi) + d) ->
  offs_total (aupdate l id f) <= offs_total l + d.
Proof.
  intros Hf. induction l as [|[k v] l IH]; cbn [aupdate]; [cbn; lia|].
  destruct (k =? id); rewrite !offs_total_cons; cbn [snd]; [specialize (Hf v)|]; lia.
Qed.
Lemma offs_total_aupdate_eq l id f :
  (forall fi, fi_offsets (f fi) = fi_offsets fi) -> offs_total (aupdate l id f) = offs_total l.
Proof.
  intros Hf. induction l as [|[k v] l IH]; cbn [aupdate]; [reflexivity|].
  destruct (k =? id); rewrite !offs_total_cons; cbn [snd]; [rewrite Hf; reflexivity | now rewrite IH].
Qed.
Lemma len_aremove_some {A} (l : list (N * A)) id v : alookup l id = Some v -> len (aremove l id) + 1 = len l.
Proof.
  induction l as [|[k x] l IH]; cbn [alookup aremove]; [discriminate|].
  destruct (k =? id); intros E; rewrite !len_cons; [reflexivity|]. rewrite <- (IH E). reflexivity.
Qed.

(* mark_continuous_block: at most one more offset, none when the file is the current one *)
Lemma mark_cont_props s id :
  w_files (mark_cont s id) = w_files s /\ w_open (mark_cont s id) = w_open s /\
  w_final (mark_cont s id) = w_final s /\
  len (w_ids (mark_cont s id)) = len (w_ids s) /\
  offs_total (w_ids (mark_cont s id)) <= offs_total (w_ids s) + 1 /\
  w_cur (mark_cont s id) = id /\
  (w_cur s = id -> mark_cont s id = s).
Proof.
  unfold mark_cont. destruct (N.eqb_spec id (w_cur s)) as [E|E].
  - repeat split; try reflexivity; try lia.
  - cbn [w_files w_open w_final w_ids w_cur]. repeat split; try reflexivity.
    + apply len_aupdate.
    + apply offs_total_aupdate_le. intros fi. cbn [fi_offsets]. rewrite len_app, len_cons, len_nil. lia.
    + intros E'. congruence.
Qed.

(* ---------- one call ---------- *)

(* s' is s after calls that started df files with dn bytes of names, among which at most da
   appends *)
Definition wgrow (s s' : wstate) (df dn da : N) : Prop :=
  len (w_files s') = len (w_files s) + df /\
  len (w_ids s') = len (w_ids s) + df /\
  names_bytes (w_files s') = names_bytes (w_files s) + dn /\
  nopen s' <= nopen s + df /\
  nruns s' + nopen s' <= nruns s + nopen s + 2 * df + da.

Lemma wgrow_refl s : wgrow s s 0 0 0.
Proof. unfold wgrow. repeat split; lia. Qed.
Lemma wgrow_trans s s1 s2 a b c a' b' c' :
  wgrow s s1 a b c -> wgrow s1 s2 a' b' c' -> wgrow s s2 (a + a') (b + b') (c + c').
Proof. unfold wgrow. intros (A1 & A2 & A3 & A4 & A5) (B1 & B2 & B3 & B4 & B5). repeat split; lia. Qed.
Lemma wgrow_weaken s s' a b c c' : wgrow s s' a b c -> c <= c' -> wgrow s s' a b c'.
Proof. unfold wgrow. intros (A1 & A2 & A3 & A4 & A5) Hc. repeat split; lia. Qed.

Section Calls.
  Context {LIM : Limit}.
  Variable FNMAX : N.
  Variables T_START T_CONTENT T_EOA T_EOF : N.
  Variable H : bytes -> bytes.
  Variable order : footer -> footer.
  Notation w_start := (w_start FNMAX T_START T_CONTENT T_EOA T_EOF).
  Notation w_append := (w_append T_CONTENT).
  Notation w_end := (w_end T_START T_CONTENT T_EOA T_EOF H).
  Notation wstep := (wstep FNMAX T_START T_CONTENT T_EOA T_EOF H order).
  Notation wrun := (wrun FNMAX T_START T_CONTENT T_EOA T_EOF H order).
  Notation start_ok := (start_ok FNMAX T_START T_CONTENT T_EOA T_EOF).
  Notation ok_starts := (ok_starts FNMAX T_START T_CONTENT T_EOA T_EOF H order).
  Notation ok_names := (ok_names FNMAX T_START T_CONTENT T_EOA T_EOF H order).

  Lemma w_start_grow s n :
    let ok := is_ok (snd (w_start s n)) in
    wgrow s (fst (w_start s n)) (if ok then 1 else 0) (if ok then len n else 0) 0.
  Proof using Type.
    clear H order.
    unfold Writer.w_start.
    destruct (w_final s); [apply wgrow_refl|].
    destruct (FNMAX <? len n); [apply wgrow_refl|].
    destruct (name_used (w_files s) n); [apply wgrow_refl|].
    cbn [fst snd is_ok]. unfold wgrow, nruns, nopen, emit. cbn [w_files w_ids w_open].
    rewrite !len_app, names_bytes_app, offs_total_app. repeat rewrite len_single.
    cbn [names_bytes offs_total fold_right fst snd fi_offsets]. repeat rewrite len_single.
    repeat split; lia.
  Qed.

  (* an append of ANY size with ANY source: at most one more offset, nothing else grows *)
  Lemma w_append_grow s id z src : wgrow s (fst (w_append s id z src)) 0 0 1.
  Proof using Type.
    clear H order.
    unfold Writer.w_append.
    destruct (w_final s); [eapply wgrow_weaken; [apply wgrow_refl|lia]|].
    destruct (alookup (w_open s) id) as [h|]; [|eapply wgrow_weaken; [apply wgrow_refl|lia]].
    destruct (z =? 0); [eapply wgrow_weaken; [apply wgrow_refl|lia]|].
    destruct (mark_cont_props s id) as (Mf & Mo & _ & Mi & Mr & _).
    assert (G : forall r, wgrow s (fst (mkW (w_out (mark_cont s id) ++ [T_CONTENT] ++ le64 id ++ le64 z ++ takeN z src) false
              (aupdate (w_open (mark_cont s id)) id (fun h0 => h0 ++ takeN z src)) (w_files (mark_cont s id))
              (aupdate (w_ids (mark_cont s id)) id (fun fi => mkFI (fi_offsets fi) (fi_size fi + z) (fi_eof fi)))
              (w_next (mark_cont s id)) (w_cur (mark_cont s id)), r : res N)) 0 0 1).
    { intros r. cbn [fst]. unfold wgrow, nruns, nopen. cbn [w_files w_ids w_open].
      rewrite !len_aupdate, Mf, Mo, Mi, offs_total_aupdate_eq by (intros; reflexivity). repeat split; lia. }
    destruct (len src <? z); apply G.
  Qed.

  Lemma w_end_grow s id : wgrow s (fst (w_end s id)) 0 0 0.
  Proof.
    unfold Writer.w_end.
    destruct (w_final s); [apply wgrow_refl|].
    destruct (alookup (w_open s) id) as [h|] eqn:El; [|apply wgrow_refl].
    destruct (mark_cont_props s id) as (Mf & Mo & _ & Mi & Mr & _).
    cbn [fst]. unfold wgrow, nruns, nopen, emit. cbn [w_files w_ids w_open].
    rewrite len_aupdate, Mf, Mo, Mi, offs_total_aupdate_eq by (intros; reflexivity).
    pose proof (len_aremove_some (w_open s) id h El). repeat split; lia.
  Qed.

  Lemma w_finalize_grow s : wgrow s (fst (w_finalize_with T_START T_CONTENT T_EOA T_EOF order s)) 0 0 0.
  Proof.
    unfold w_finalize_with. destruct (w_final s); [apply wgrow_refl|].
    destruct (w_open s) as [|x l] eqn:Eo; [|apply wgrow_refl]. cbv zeta.
    destruct (lim <? _); [|destruct (2 ^ 32 <=? _)];
    cbn [fst]; unfold wgrow, nruns, nopen, w_finalized; cbn [w_files w_ids w_open]; rewrite Eo; repeat split; cbn; lia.
  Qed.

  Lemma wstep_grow s o :
    wgrow s (fst (wstep s o)) (if start_ok s o then 1 else 0) (if start_ok s o then c_name o else 0) (c_append o).
  Proof.
    destruct o as [n|i z sr|i|n z sr| |]; cbn [Writer.wstep MemSize.start_ok c_name c_append].
    - apply w_start_grow.
    - apply w_append_grow.
    - apply w_end_grow.
    - pose proof (w_start_grow s n) as G1. cbv zeta in G1.
      destruct (w_start s n) as [s1 [id|e|c]]; cbn [fst snd is_ok] in *;
        [|eapply wgrow_weaken; [exact G1|lia] ..].
      pose proof (w_append_grow s1 id z sr) as G2.
      destruct (w_append s1 id z sr) as [s2 [v|e|c]]; cbn [fst] in *.
      + pose proof (w_end_grow s2 id) as G3.
        pose proof (wgrow_trans _ _ _ _ _ _ _ _ _ (wgrow_trans _ _ _ _ _ _ _ _ _ G1 G2) G3) as G.
        replace (1 + 0 + 0) with 1 in G by lia. replace (len n + 0 + 0) with (len n) in G by lia.
        replace (0 + 1 + 0) with 1 in G by lia. exact G.
      + pose proof (wgrow_trans _ _ _ _ _ _ _ _ _ G1 G2) as G.
        replace (1 + 0) with 1 in G by lia. replace (len n + 0) with (len n) in G by lia. exact G.
      + pose proof (wgrow_trans _ _ _ _ _ _ _ _ _ G1 G2) as G.
        replace (1 + 0) with 1 in G by lia. replace (len n + 0) with (len n) in G by lia. exact G.
    - cbn [fst]. apply wgrow_refl.
    - apply w_finalize_grow.
  Qed.

  (* ---------- every call list ---------- *)

  Lemma wrun_cons s o r : fst (wrun s (o :: r)) = fst (wrun (fst (wstep s o)) r).
  Proof.
    cbn [Writer.wrun]. destruct (wstep s o) as [s1 x]. cbn [fst].
    destruct (wrun s1 r) as [s2 xs]. reflexivity.
  Qed.

  Lemma wrun_grow ops : forall s,
    wgrow s (fst (wrun s ops)) (ok_starts s ops) (ok_names s ops) (n_append ops).
  Proof.
    induction ops as [|o r IH]; intros s.
    - cbn. apply wgrow_refl.
    - rewrite wrun_cons. cbn [MemSize.ok_starts MemSize.ok_names n_append fold_right].
      exact (wgrow_trans _ _ _ _ _ _ _ _ _ (wstep_grow s o) (IH _)).
  Qed.

  (* the successful starts are among the start calls, their names among the names given *)
  Lemma ok_starts_le ops : forall s, ok_starts s ops <= n_start ops.
  Proof.
    induction ops as [|o r IH]; intros s; cbn [MemSize.ok_starts n_start fold_right]; [lia|].
    specialize (IH (fst (wstep s o))). fold (n_start r).
    destruct o; cbn [MemSize.start_ok c_start]; try destruct (is_ok _); lia.
  Qed.
  Lemma ok_names_le ops : forall s, ok_names s ops <= n_names ops.
  Proof.
    induction ops as [|o r IH]; intros s; cbn [MemSize.ok_names n_names fold_right]; [lia|].
    specialize (IH (fst (wstep s o))). fold (n_names r).
    destruct (start_ok s o); lia.
  Qed.

  (* THE bound.  For every call list, from the initial state:
       - the exact value of the measure in terms of the dimensions of the final state;
       - files = successful starts, name bytes = names of the successful starts;
       - runs + open files <= 2 * files + append calls  (each successful start records one
         offset, each append call — of ANY size — at most one, each successful end at most
         one, and ends are at most as many as starts);
     hence a bound whose right-hand side counts calls and name lengths only. *)
  Theorem writer_mem_bound ops :
    let s := fst (wrun w_init ops) in
    wmem s = W_FIXED + (FILES_ENTRY + IDS_ENTRY) * nfiles s + OFFSET_WORD * nruns s
             + names_bytes (w_files s) + OPEN_ENTRY * nopen s /\
    nfiles s = ok_starts w_init ops /\
    names_bytes (w_files s) = ok_names w_init ops /\
    nopen s <= nfiles s /\
    nruns s + nopen s <= 2 * nfiles s + n_append ops /\
    wmem s <= W_FIXED + (FILES_ENTRY + IDS_ENTRY + OPEN_ENTRY) * ok_starts w_init ops
              + OFFSET_WORD * nruns s + ok_names w_init ops /\
    wmem s <= W_FIXED + (FILES_ENTRY + IDS_ENTRY + OPEN_ENTRY + 2 * OFFSET_WORD) * n_start ops
              + OFFSET_WORD * n_append ops + n_names ops.
  Proof.
    cbv zeta. destruct (wrun_grow ops w_init) as (G1 & G2 & G3 & G4 & G5).
    pose proof (ok_starts_le ops w_init) as L1. pose proof (ok_names_le ops w_init) as L2.
    unfold nfiles, nruns, nopen in *. cbn [w_init w_files w_ids w_open names_bytes offs_total fold_right] in *.
    change (len (@nil (bytes * N))) with 0 in *. change (len (@nil (N * finfo))) with 0 in *.
    change (len (@nil (N * bytes))) with 0 in *.
    unfold wmem, W_FIXED, FILES_ENTRY, IDS_ENTRY, OPEN_ENTRY, SHA_STATE, OFFSET_WORD in *.
    repeat split; lia.
  Qed.

  (* from any state: what a call list adds (the files open at the start may each still record
     one offset when they are ended) *)
  Theorem writer_mem_growth ops s :
    wmem (fst (wrun s ops)) <=
    wmem s + (FILES_ENTRY + IDS_ENTRY + OPEN_ENTRY + 2 * OFFSET_WORD) * n_start ops
    + OFFSET_WORD * n_append ops + n_names ops + OFFSET_WORD * nopen s.
  Proof.
    destruct (wrun_grow ops s) as (G1 & G2 & G3 & G4 & G5).
    pose proof (ok_starts_le ops s) as L1. pose proof (ok_names_le ops s) as L2.
    unfold nfiles, nruns, nopen in *.
    unfold wmem, W_FIXED, FILES_ENTRY, IDS_ENTRY, OPEN_ENTRY, SHA_STATE, OFFSET_WORD in *. lia.
  Qed.

  (* the measure is a function of the dimensions of Mem.v: call lists of the same shape — same
     calls on the same files, appends of ANY non-zero sizes — end with the same measure *)
  Lemma offs_total_ids_dims l1 l2 : ids_dims l1 = ids_dims l2 -> offs_total l1 = offs_total l2 /\ len l1 = len l2.
  Proof.
    revert l2; induction l1 as [|[k v] l1 IH]; intros [|[k2 v2] l2] E; cbn in E; try discriminate; [split; reflexivity|].
    injection E as _ Hl E. destruct (IH l2 E) as [I1 I2].
    assert (Hl' : len (fi_offsets v) = len (fi_offsets v2)) by (unfold len; rewrite Hl; reflexivity).
    rewrite !offs_total_cons, !len_cons. cbn [snd]. split; lia.
  Qed.
  Lemma wmem_of_dims s1 s2 : dims s1 = dims s2 -> wmem s1 = wmem s2.
  Proof.
    unfold dims. intros E. injection E as Ef Eo Efi Ei En Ec.
    destruct (offs_total_ids_dims _ _ Ei) as [I1 I2].
    assert (Hop : len (w_open s1) = len (w_open s2)).
    { unfold len. rewrite <- (map_length fst (w_open s1)), <- (map_length fst (w_open s2)), Eo. reflexivity. }
    unfold wmem. rewrite Efi, I1, I2, Hop. reflexivity.
  Qed.

  Theorem wmem_depends_on_shape_only ops1 ops2 s1 s2 :
    (forall f, Permutation.Permutation (order f) f) ->
    dims s1 = dims s2 -> Forall2 same_shape ops1 ops2 ->
    wmem (fst (wrun s1 ops1)) = wmem (fst (wrun s2 ops2)).
  Proof.
    intros Horder E HF. apply wmem_of_dims.
    exact (proj1 (tables_depend_on_shape_only FNMAX T_START T_CONTENT T_EOA T_EOF H order Horder ops1 ops2 s1 s2 E HF)).
  Qed.
End Calls.
