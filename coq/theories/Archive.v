(* Archive.v — the WHOLE archive as one model: `ArchiveWriter::from_config … finalize`
   (mla/src/lib.rs:816-892) and `ArchiveReader::from_config` (lib.rs:1222-1254) for the four
   layer combinations, glued from the component models:

     header            ArchiveHeader::dump / ::from (lib.rs:414-453): "MLA", u32 LE version, then
                       bincode(fixint, limit BINCODE_MAX_DESERIALIZE) of ArchivePersistentConfig
                       = layers byte (bitflags: from_bits_retain, unknown bits are KEPT), Option
                       tag, EncryptionPersistentConfig (config.rs:60-71, encrypt.rs:108-119);
                       byte layout = Format.ser_header / Format.parse_enc_header
     key wrapping      Ecies.store_key / Ecies.load_persistent (crypto/ecc.rs)
     block stream      Writer.wrun
     compression       CompLayer.cw_* (writer), CompLayer.CompReader
     encryption        EncWriter.ew_archive, EncLayer.EncReader
     raw               RawLayer.RawReader (offset = header length)
     reader            Reader.ropen (footer + rewind)

   Writer: the header goes to the raw layer FIRST (lib.rs:822-827), then the layers are stacked
   encryption next to raw, compression above (lib.rs:830-835; Tie A: SrcTieFormat.c06_layer_order).
   The layer writers are run after the fact on the finished block stream, cut into ANY pieces
   ([cut_pieces]: every finite split is reachable, see ArchiveProofs.cut_pieces_any): what each
   layer leaves in the layer below does not depend on the cut (canonical forms), but the model
   keeps the cut so that this is a theorem and not a modelling decision.

   Reader: I/O source = in-memory cursor over the archive bytes.  NOT modelled: reading the
   header through a short-reading source (ArchiveHeader::from uses read_exact / bincode reads).

   Errors: ConfigError::EncryptionKeyIsMissing, PrivateKeyNotSet, PrivateKeyNotFound -> EKey;
   IncoherentPersistentConfig -> EInval; SerializationError / DeserializationError -> EDeser.
   Definitions only; proofs in ArchiveProofs.v. *)
From MLA Require Import Limit.
From MLA Require Import Base Stream EncLayer CompLayer RawLayer CompWriterProofs LayerStack
  Blocks Writer Reader EncWriter Format Ecies RoundTripWriter RoundTripReader.
From Coq Require Import Permutation.
Open Scope N_scope.

(* cut b at the given sizes (clipped); what is left is the last piece *)
Fixpoint cut_pieces (sizes : list N) (b : bytes) : list bytes :=
  match sizes with
  | [] => [b]
  | n :: r => takeN n b :: cut_pieces r (dropN n b)
  end.

(* keep the state, turn the result into res *)
Definition lift {A B} (x : A * res B) : res A :=
  match x with (a, Ok _) => Ok a | (_, Err e) => Err e | (_, Crash c) => Crash c end.

(* the caller uses `?` on every call: the first failure is what it sees *)
Fixpoint first_bad (rs : list (res N)) : res unit :=
  match rs with
  | [] => Ok tt
  | Ok _ :: r => first_bad r
  | Err e :: _ => Err e
  | Crash c :: _ => Crash c
  end.

Section Archive.
  Variables CHUNK TAG CIPHERBUF BLOCK LIMIT FNMAX : N.
  Local Hint Extern 0 Limit => exact LIMIT : typeclass_instances.
  Variables TS TC TA TE : N.
  Variable H : bytes -> bytes.
  Variable order : footer -> footer.
  (* ECIES primitives, as in Ecies.v *)
  Variable pubk : bytes -> bytes.
  Variable dh : bytes -> bytes -> bytes.
  Variable kdf : bytes -> bytes.
  Variables wenc wdec wtag : bytes -> bytes -> bytes.
  (* the cipher parameters of the data chunks, from the session key and the 8-byte nonce
     (AesGcm256::new(&key, &build_nonce(nonce, i), b"")): key stream byte and tag *)
  Variable ksf : bytes -> bytes -> N -> N -> N.
  Variable tagf : bytes -> bytes -> N -> bytes -> bytes.
  (* the reader's decompressor *)
  Variable dec : bytes -> bytes.

  (* ---------- ArchiveWriterConfig ---------- *)
  Record wconfig := mkWC {
    wc_compress : bool;             (* Layers::COMPRESS *)
    wc_encrypt : bool;              (* Layers::ENCRYPT *)
    wc_comp : bytes -> bytes;       (* the compressor of one block, level folded in *)
    wc_key : bytes;                 (* EncryptionConfig.key (32 random bytes) *)
    wc_nonce : bytes;               (* EncryptionConfig.nonce (8 random bytes) *)
    wc_eph : bytes;                 (* the 32 bytes drawn by to_persistent for the ephemeral scalar *)
    wc_recipients : list bytes;     (* ecc_keys *)
  }.

  Definition layers_of (cfg : wconfig) : N :=
    (if wc_encrypt cfg then L_ENCRYPT else 0) + (if wc_compress cfg then L_COMPRESS else 0).

  (* ArchiveWriterConfig::to_persistent (config.rs:60) / EncryptionConfig::to_persistent *)
  Definition to_persistent (cfg : wconfig) : header :=
    mkH (layers_of cfg)
        (if wc_encrypt cfg then
           let m := store_key pubk dh kdf wenc wtag (wc_recipients cfg) (wc_key cfg) (wc_eph cfg) in
           Some (mkEH (m_public m) (m_keys m) (wc_nonce cfg))
         else None).

  (* what bincode charges against its limit for an ArchivePersistentConfig *)
  Definition config_size (h : header) : N :=
    2 + match h_enc h with Some eh => 48 + 48 * len (eh_keys eh) | None => 0 end.

  (* ArchiveHeader::dump: a bounded bincode serializer computes the size first *)
  Definition dump_header (h : header) : res bytes :=
    if LIMIT <? config_size h then Err EDeser else Ok (ser_header h).

  (* the layer writers below the block stream, finalize included (recursive:
     compression, then encryption, then raw) *)
  Definition lower_write (cfg : wconfig) (cut_top cut_mid : list N) (blocks : bytes) : res bytes :=
    let top := cut_pieces cut_top blocks in
    do mid <- (if wc_compress cfg then
                 match cw_write_pieces BLOCK (wc_comp cfg) cw_init top with
                 | (w1, Ok _) =>
                   match cw_finalize (wc_comp cfg) w1 with
                   | (w2, Ok _) => Ok (cut_pieces cut_mid (cw_out w2))
                   | (_, Err e) => Err e | (_, Crash c) => Crash c
                   end
                 | (_, Err e) => Err e | (_, Crash c) => Crash c
                 end
               else Ok top);
    if wc_encrypt cfg then
      do s <- ew_archive CHUNK CIPHERBUF (ksf (wc_key cfg) (wc_nonce cfg)) (tagf (wc_key cfg) (wc_nonce cfg))
                (Datatypes.S (N.to_nat (len (concat mid)))) mid;
      Ok (ew_out s)
    else Ok (concat mid).

  (* from_config; the calls; finalize.  cut_top: how the block stream reaches the top layer;
     cut_mid: how the compressed stream reaches the encryption layer *)
  Definition archive_write (cfg : wconfig) (cut_top cut_mid : list N) (ops : list wop) : res bytes :=
    (* config.check() *)
    if wc_encrypt cfg && match wc_recipients cfg with [] => true | _ => false end then Err EKey else
    do hdr <- dump_header (to_persistent cfg);
    let '(sf, rs) := wrun FNMAX TS TC TA TE H order w_init (ops ++ [OFinalize]) in
    do _ <- first_bad rs;
    do body <- lower_write cfg cut_top cut_mid (w_out sf);
    Ok (hdr ++ body).

  (* ---------- ArchiveReader::from_config ---------- *)

  (* ArchiveHeader::from: read_exact / read_u32 fail with UnexpectedEof (an IOError), every
     bincode failure (short input, bad Option tag, size limit) is DeserializationError *)
  Definition read_header (a : bytes) : res (header * bytes) :=
    match take 3 a with
    | None => Err EUnexpectedEof
    | Some (m, r0) =>
      if negb (bytes_eqb m MAGIC) then Err EMagic else
      match take_le 4 r0 with
      | None => Err EUnexpectedEof
      | Some (v, r1) =>
        if negb (v =? VERSION) then Err EVersion else
        match r1 with
        | layers :: opt :: r2 =>
          if opt =? 0 then
            (if LIMIT <? 2 then Err EDeser else Ok (mkH layers None, r2))
          else if opt =? 1 then
            match parse_enc_header r2 with
            | Some (eh, r3) =>
              let h := mkH layers (Some eh) in
              if LIMIT <? config_size h then Err EDeser else Ok (h, r3)
            | None => Err EDeser
            end
          else Err EDeser
        | _ => Err EDeser
        end
      end
    end.

  Record oparams := mkOP {
    op_enc : bool; op_comp : bool;      (* config.layers_enabled *)
    op_key : bytes; op_nonce : bytes;   (* encrypt_parameters *)
    op_off : N;                         (* the source position after the header *)
  }.

  (* ArchiveReaderConfig::load_persistent + EncryptionReaderConfig::load_persistent *)
  Definition load_config (h : header) (privs : list bytes) : res (bool * bool * bytes * bytes) :=
    let cmp := has_bit (h_layers h) L_COMPRESS in
    if has_bit (h_layers h) L_ENCRYPT then
      match h_enc h with
      | None => Err EInval                                   (* IncoherentPersistentConfig *)
      | Some eh =>
        match privs with
        | [] => Err EKey                                     (* PrivateKeyNotSet *)
        | _ =>
          match load_persistent dh kdf wdec wtag (mkMulti (eh_public eh) (eh_keys eh)) privs with
          | Some k => Ok (true, cmp, k, eh_nonce eh)
          | None => Err EKey                                 (* PrivateKeyNotFound *)
          end
        end
      end
    else Ok (false, cmp, [], []).

  (* the layer stack over the in-memory source *)
  Definition RawA (a : bytes) : Stream := RawReader (Cursor a).
  Definition EncA (a k n : bytes) : Stream := EncReader CHUNK TAG (ksf k n) (tagf k n) (RawA a).
  Definition StackS (a : bytes) (e c : bool) (k n : bytes) : Stream :=
    match e, c with
    | false, false => RawA a
    | true, false => EncA a k n
    | false, true => CompReader BLOCK dec (RawA a)
    | true, true => CompReader BLOCK dec (EncA a k n)
    end.

  (* RawLayerReader::new + reset_position; the layers' new in the order of the code; then
     initialize from the top (each layer initializes its inner layer first) *)
  Definition open_stack (a : bytes) (e c : bool) (k n : bytes) (off : N) : res (st (StackS a e c k n)) :=
    do r <- lift (raw_open (Cursor a) off);
    match e as e', c as c' return res (st (StackS a e' c' k n)) with
    | false, false => lift (raw_initialize (Cursor a) r)
    | true, false => lift (enc_open CHUNK TAG (ksf k n) (tagf k n) (RawA a) r)
    | false, true => lift (comp_open LIMIT (RawA a) (raw_initialize (Cursor a)) r)
    | true, true =>
      lift (comp_open LIMIT (EncA a k n) (enc_initialize CHUNK TAG (ksf k n) (tagf k n) (Cursor a))
                      (@mkE (RawA a) r [] 0 0))
    end.

  Definition stack_of (a : bytes) (p : oparams) : Stream :=
    StackS a (op_enc p) (op_comp p) (op_key p) (op_nonce p).

  (* an opened archive: the parameters found in the header and the reader over that stack *)
  Definition opened (a : bytes) : Type := { p : oparams & Reader.rstate (stack_of a p) }.

  Definition archive_open (a : bytes) (privs : list bytes) : res (opened a) :=
    (* src.rewind(); ArchiveHeader::from *)
    do hd <- read_header a;
    let '(h, rest) := hd in
    do cf <- load_config h privs;
    let '(e, c, k, n) := cf in
    let p := mkOP e c k n (len a - len rest) in
    do s <- open_stack a e c k n (len a - len rest);
    (* ArchiveFooter::deserialize_from; rewind *)
    do r <- ropen (stack_of a p) s;
    Ok (existT _ p r).

  (* ---------- specification side: what the layers leave below them ---------- *)
  (* the compressed stream (input of the encryption layer or of the raw layer) *)
  Definition mid_of (cfg : wconfig) (blocks : bytes) : bytes :=
    if wc_compress cfg then comp_format BLOCK (wc_comp cfg) blocks else blocks.
  (* the bytes behind the header *)
  Definition wire_of (cfg : wconfig) (blocks : bytes) : bytes :=
    if wc_encrypt cfg then
      enc_format CHUNK (ksf (wc_key cfg) (wc_nonce cfg)) (tagf (wc_key cfg) (wc_nonce cfg)) (mid_of cfg blocks)
    else mid_of cfg blocks.

  (* ---------- what C01 says of a reader r over stream S, for the calls ops ---------- *)
  (* Inv: "a reader over this archive"; it holds of r and is kept by get_file / get_hash, so the
     four clauses hold after any sequence of such calls *)
  Definition reads_back (ops : list wop) (S : Stream) (r : Reader.rstate S) : Prop :=
    exists Inv : Reader.rstate S -> Prop, Inv r /\
      (* list_files: exactly the started names, each once *)
      (forall r, Inv r -> Permutation (list_files S r) (map fst (started 0 ops)) /\ NoDup (list_files S r)) /\
      (* get_file: size = byte count; any positive buffer sizes deliver exactly the bytes *)
      (forall r name id, Inv r -> In (name, id) (started 0 ops) ->
         exists r' bs,
           get_file FNMAX TS TC TA TE S r name = (r', Ok (Some (bs, len (pieces 0 id ops)))) /\ Inv r' /\
           forall sizes : nat -> N, (forall i, 0 < sizes i) ->
           forall zf fuel, (length (pieces 0 id ops) < fuel)%nat ->
           exists bs', read_all FNMAX TS TC TA TE S zf fuel bs sizes 0%nat [] = (bs', Ok (pieces 0 id ops)) /\
                       b_mode bs' = BFinish) /\
      (* get_hash *)
      (forall r name id, Inv r -> In (name, id) (started 0 ops) ->
         exists r', get_hash FNMAX TS TC TA TE S r name = (r', Ok (Some (H (pieces 0 id ops)))) /\ Inv r') /\
      (* names never started *)
      (forall r name, Inv r -> ~ In name (map fst (started 0 ops)) ->
         get_file FNMAX TS TC TA TE S r name = (r, Ok None) /\
         get_hash FNMAX TS TC TA TE S r name = (r, Ok None)).
End Archive.
