(* Base.v — bytes, results with an explicit Crash outcome, N-indexed list operations.
   Stdlib only.  Everything here is executable. *)
From Coq Require Export List NArith ZArith Lia Bool.
From Coq Require Import ZifyBool ZifyNat ZifyN.
Export ListNotations.
Open Scope N_scope.

Arguments N.add : simpl never.
Arguments N.sub : simpl never.
Arguments N.mul : simpl never.
Arguments N.div : simpl never.
Arguments N.modulo : simpl never.
Arguments N.eqb : simpl never.
Arguments N.ltb : simpl never.
Arguments N.leb : simpl never.
Arguments N.min : simpl never.
Arguments N.max : simpl never.
Arguments N.of_nat : simpl never.
Arguments N.to_nat : simpl never.

Definition byte := N.
Definition bytes := list N.

(* ---------- outcomes ---------- *)

(* Error kinds, as coarse as the properties need them. *)
Inductive err :=
| EIo            (* an io::Error other than the ones below *)
| EUnexpectedEof (* io::ErrorKind::UnexpectedEof *)
| EWrongTag      (* AuthenticatedDecryptionWrongTag *)
| EDeser         (* DeserializationError *)
| EState         (* WrongReaderState / WrongWriterState / WrongArchiveWriterState *)
| ENameTooLong   (* FilenameTooLong *)
| EDup           (* DuplicateFilename *)
| EEos           (* EndOfStream *)
| EInval         (* InvalidInput / InvalidData / BadAPIArgument *)
| EMagic | EVersion | EBlockType | EUtf8 | EMissingMeta | EKey | EShortSource
| EFuel.         (* the model ran out of fuel: excluded by the theorems *)

(* Crash s: the Rust code would panic / overflow / index out of bounds at site s. *)
Inductive res (A : Type) :=
| Ok (a : A)
| Err (e : err)
| Crash (site : N).
Arguments Ok {A} a.
Arguments Err {A} e.
Arguments Crash {A} site.

Definition bind {A B} (r : res A) (f : A -> res B) : res B :=
  match r with Ok a => f a | Err e => Err e | Crash s => Crash s end.
Notation "'do' x <- r ; k" := (bind r (fun x => k))
  (at level 200, x pattern, r at level 100, k at level 200, right associativity).

Definition is_ok {A} (r : res A) : bool := match r with Ok _ => true | _ => false end.
Definition is_crash {A} (r : res A) : bool := match r with Crash _ => true | _ => false end.

(* checked u64-style subtraction: a - b panics (debug profile) when b > a *)
Definition csub (site : N) (a b : N) : res N :=
  if b <=? a then Ok (a - b) else Crash site.

(* ---------- N-indexed list operations ---------- *)

Definition len {A} (l : list A) : N := N.of_nat (length l).
Definition takeN {A} (n : N) (l : list A) : list A := firstn (N.to_nat n) l.
Definition dropN {A} (n : N) (l : list A) : list A := skipn (N.to_nat n) l.
(* l[p .. p+n) clipped to the list *)
Definition sliceN {A} (p n : N) (l : list A) : list A := takeN n (dropN p l).

Section ListN.
  Context {A : Type}.
  Implicit Types l : list A.

  Lemma len_nil : len (@nil A) = 0. Proof. reflexivity. Qed.
  Lemma len_cons a l : len (a :: l) = len l + 1.
  Proof. unfold len; cbn [length]; lia. Qed.
  Lemma len_app l1 l2 : len (l1 ++ l2) = len l1 + len l2.
  Proof. unfold len; rewrite app_length; lia. Qed.
  Lemma len_takeN n l : len (takeN n l) = N.min n (len l).
  Proof. unfold len, takeN; rewrite firstn_length; lia. Qed.
  Lemma len_dropN n l : len (dropN n l) = len l - n.
  Proof. unfold len, dropN; rewrite skipn_length; lia. Qed.
  Lemma len_0_nil l : len l = 0 -> l = [].
  Proof. unfold len; destruct l; cbn [length]; [reflexivity | lia]. Qed.

  Lemma takeN_dropN n l : takeN n l ++ dropN n l = l.
  Proof. apply firstn_skipn. Qed.
  Lemma takeN_0 l : takeN 0 l = [].
  Proof. reflexivity. Qed.
  Lemma dropN_0 l : dropN 0 l = l.
  Proof. reflexivity. Qed.
  Lemma takeN_nil n : takeN n (@nil A) = [].
  Proof. unfold takeN; apply firstn_nil. Qed.
  Lemma dropN_nil n : dropN n (@nil A) = [].
  Proof. unfold dropN; apply skipn_nil. Qed.
  Lemma takeN_all n l : len l <= n -> takeN n l = l.
  Proof. unfold len, takeN; intros H; apply firstn_all2; lia. Qed.
  Lemma dropN_all n l : len l <= n -> dropN n l = [].
  Proof. unfold len, dropN; intros H; apply skipn_all2; lia. Qed.
  Lemma dropN_dropN n m l : dropN n (dropN m l) = dropN (m + n) l.
  Proof.
    unfold dropN. replace (N.to_nat (m + n)) with (N.to_nat m + N.to_nat n)%nat by lia.
    generalize (N.to_nat n) as a. generalize (N.to_nat m) as b. clear n m.
    intros b; revert l; induction b as [|b IH]; intros l a; cbn [Nat.add skipn]; [reflexivity|].
    destruct l as [|x l]; [now rewrite skipn_nil | apply IH].
  Qed.
  Lemma takeN_takeN n m l : takeN n (takeN m l) = takeN (N.min n m) l.
  Proof.
    unfold takeN; rewrite firstn_firstn; f_equal; lia.
  Qed.
  Lemma takeN_app_le n l1 l2 : n <= len l1 -> takeN n (l1 ++ l2) = takeN n l1.
  Proof.
    unfold len, takeN; intros H; rewrite firstn_app.
    replace (N.to_nat n - length l1)%nat with 0%nat by lia.
    cbn [firstn]; apply app_nil_r.
  Qed.
  Lemma takeN_app_ge n l1 l2 : len l1 <= n -> takeN n (l1 ++ l2) = l1 ++ takeN (n - len l1) l2.
  Proof.
    unfold len, takeN; intros H; rewrite firstn_app.
    rewrite firstn_all2 by lia. do 2 f_equal; lia.
  Qed.
  Lemma dropN_app_le n l1 l2 : n <= len l1 -> dropN n (l1 ++ l2) = dropN n l1 ++ l2.
  Proof.
    unfold len, dropN; intros H; rewrite skipn_app.
    replace (N.to_nat n - length l1)%nat with 0%nat by lia. reflexivity.
  Qed.
  Lemma dropN_app_ge n l1 l2 : len l1 <= n -> dropN n (l1 ++ l2) = dropN (n - len l1) l2.
  Proof.
    unfold len, dropN; intros H; rewrite skipn_app.
    rewrite skipn_all2 by lia. cbn [app]. f_equal; lia.
  Qed.
  Lemma takeN_len_app l1 l2 : takeN (len l1) (l1 ++ l2) = l1.
  Proof. rewrite takeN_app_le by lia. apply takeN_all; lia. Qed.
  Lemma dropN_len_app l1 l2 : dropN (len l1) (l1 ++ l2) = l2.
  Proof. rewrite dropN_app_ge by lia. rewrite N.sub_diag. reflexivity. Qed.
  Lemma takeN_dropN_comm n m l : takeN n (dropN m l) = dropN m (takeN (m + n) l).
  Proof.
    unfold takeN, dropN.
    replace (N.to_nat (m + n)) with (N.to_nat m + N.to_nat n)%nat by lia.
    revert l; induction (N.to_nat m) as [|k IH]; intros l; cbn [skipn Nat.add].
    - reflexivity.
    - destruct l as [|a l]; [rewrite firstn_nil; reflexivity|]. cbn [firstn skipn]. apply IH.
  Qed.
  (* consecutive slices concatenate *)
  Lemma takeN_add n m l : takeN (n + m) l = takeN n l ++ takeN m (dropN n l).
  Proof.
    rewrite <- (takeN_dropN n l) at 1.
    destruct (N.le_gt_cases (len l) n) as [H|H].
    - rewrite (dropN_all n l H), app_nil_r, takeN_nil, app_nil_r.
      rewrite takeN_takeN. f_equal. lia.
    - rewrite takeN_app_ge by (rewrite len_takeN; lia).
      rewrite len_takeN. f_equal. f_equal. lia.
  Qed.
  Lemma dropN_takeN_nil n l : dropN n (takeN n l) = [].
  Proof. apply dropN_all. rewrite len_takeN. lia. Qed.
End ListN.

(* slices *)
Section SliceN.
  Context {A : Type}.
  Implicit Types l : list A.
  Lemma len_sliceN p n l : len (sliceN p n l) = N.min n (len l - p).
  Proof. unfold sliceN. rewrite len_takeN, len_dropN. reflexivity. Qed.
  Lemma sliceN_clip p m l : sliceN p m l = sliceN p (N.min m (len l - p)) l.
  Proof.
    unfold sliceN. destruct (N.le_gt_cases m (len l - p)).
    - f_equal; lia.
    - rewrite !takeN_all by (rewrite len_dropN; lia). reflexivity.
  Qed.
  Lemma sliceN_len_self p m l : sliceN p m l = sliceN p (len (sliceN p m l)) l.
  Proof. rewrite len_sliceN. apply sliceN_clip. Qed.
  Lemma sliceN_sliceN a m b w l : a <= w ->
    sliceN a m (sliceN b w l) = sliceN (b + a) (N.min m (w - a)) l.
  Proof.
    intros H. unfold sliceN.
    replace (dropN a (takeN w (dropN b l))) with (takeN (w - a) (dropN a (dropN b l))).
    - rewrite takeN_takeN, dropN_dropN. reflexivity.
    - rewrite takeN_dropN_comm. do 2 f_equal. lia.
  Qed.
  Lemma sliceN_0 p l : sliceN p 0 l = [].
  Proof. unfold sliceN. apply takeN_0. Qed.
  Lemma sliceN_past p n l : len l <= p -> sliceN p n l = [].
  Proof. intros H. unfold sliceN. rewrite dropN_all by exact H. apply takeN_nil. Qed.
  Lemma sliceN_add p n m l : sliceN p (n + m) l = sliceN p n l ++ sliceN (p + n) m l.
  Proof. unfold sliceN. rewrite takeN_add, dropN_dropN. reflexivity. Qed.
End SliceN.

(* prefix order *)
Definition prefix {A} (l1 l2 : list A) : Prop := exists r, l2 = l1 ++ r.
Lemma prefix_refl {A} (l : list A) : prefix l l.
Proof. exists []; symmetry; apply app_nil_r. Qed.
Lemma prefix_trans {A} (a b c : list A) : prefix a b -> prefix b c -> prefix a c.
Proof. intros [r1 ->] [r2 ->]. exists (r1 ++ r2). symmetry; apply app_assoc. Qed.
Lemma prefix_takeN {A} n (l : list A) : prefix (takeN n l) l.
Proof. exists (dropN n l). symmetry; apply takeN_dropN. Qed.
Lemma prefix_app {A} (l r : list A) : prefix l (l ++ r).
Proof. exists r; reflexivity. Qed.
Lemma prefix_len {A} (a b : list A) : prefix a b -> len a <= len b.
Proof. intros [r ->]. rewrite len_app. lia. Qed.
Lemma prefix_is_takeN {A} (a b : list A) : prefix a b -> a = takeN (len a) b.
Proof. intros [r ->]. symmetry; apply takeN_len_app. Qed.
Lemma prefix_takeN_mono {A} n m (l : list A) : n <= m -> prefix (takeN n l) (takeN m l).
Proof.
  intros H. replace m with (n + (m - n)) by lia. rewrite takeN_add. apply prefix_app.
Qed.

Fixpoint list_eqb {A} (eqb : A -> A -> bool) (l1 l2 : list A) : bool :=
  match l1, l2 with
  | [], [] => true
  | a :: l1', b :: l2' => eqb a b && list_eqb eqb l1' l2'
  | _, _ => false
  end.
Definition bytes_eqb : bytes -> bytes -> bool := list_eqb N.eqb.
Lemma bytes_eqb_eq a b : bytes_eqb a b = true <-> a = b.
Proof.
  unfold bytes_eqb. revert b; induction a as [|x a IH]; intros [|y b]; cbn [list_eqb]; try easy.
  rewrite andb_true_iff, N.eqb_eq, IH. split; [intros [-> ->]; reflexivity | intros H; inversion H; auto].
Qed.
Lemma bytes_eqb_refl a : bytes_eqb a a = true.
Proof. apply bytes_eqb_eq; reflexivity. Qed.

(* little/big endian fixed-width integers *)
Fixpoint le_bytes (w : nat) (v : N) : bytes :=
  match w with O => [] | S w' => (v mod 256) :: le_bytes w' (v / 256) end.
Fixpoint le_val (b : bytes) : N :=
  match b with [] => 0 | x :: r => x + 256 * le_val r end.
Definition be_bytes (w : nat) (v : N) : bytes := rev (le_bytes w v).
Definition be_val (b : bytes) : N := le_val (rev b).

Lemma length_le_bytes w v : length (le_bytes w v) = w.
Proof. revert v; induction w as [|w IH]; intros v; cbn [le_bytes length]; [reflexivity | now rewrite IH]. Qed.
Lemma len_le_bytes w v : len (le_bytes w v) = N.of_nat w.
Proof. unfold len; now rewrite length_le_bytes. Qed.
Lemma le_val_le_bytes w v : v < 256 ^ N.of_nat w -> le_val (le_bytes w v) = v.
Proof.
  revert v; induction w as [|w IH]; intros v H; cbn [le_bytes le_val].
  - cbn in H. lia.
  - rewrite IH.
    + pose proof (N.div_mod v 256). lia.
    + replace (N.of_nat (S w)) with (N.succ (N.of_nat w)) in H by lia.
      rewrite N.pow_succ_r' in H. apply N.div_lt_upper_bound; lia.
Qed.
Lemma be_val_be_bytes w v : v < 256 ^ N.of_nat w -> be_val (be_bytes w v) = v.
Proof. intros H. unfold be_val, be_bytes. rewrite rev_involutive. now apply le_val_le_bytes. Qed.
Lemma length_be_bytes w v : length (be_bytes w v) = w.
Proof. unfold be_bytes. rewrite rev_length. apply length_le_bytes. Qed.

Definition is_byte (x : N) : bool := x <? 256.
Definition wf_bytes (b : bytes) : Prop := Forall (fun x => x < 256) b.

Lemma le_bytes_wf w v : wf_bytes (le_bytes w v).
Proof.
  revert v; induction w as [|w IH]; intros v; cbn [le_bytes]; constructor.
  - apply N.mod_lt; lia.
  - apply IH.
Qed.
Lemma le_bytes_le_val b : wf_bytes b -> le_bytes (length b) (le_val b) = b.
Proof.
  induction 1 as [|x r Hx Hr IH]; cbn [le_bytes le_val length]; [reflexivity|].
  replace (x + 256 * le_val r) with (x + le_val r * 256) by lia.
  f_equal.
  - rewrite N.mod_add by lia. apply N.mod_small; assumption.
  - rewrite N.div_add by lia. rewrite N.div_small by assumption. exact IH.
Qed.
Lemma le_val_bound b : wf_bytes b -> le_val b < 256 ^ len b.
Proof.
  induction 1 as [|x r Hx Hr IH]; cbn [le_val].
  - cbn. lia.
  - rewrite len_cons. rewrite N.add_1_r, N.pow_succ_r'. lia.
Qed.
