(* Sha256.v — FIPS 180-4 SHA-256, executable, with an incremental interface.
   Words are N values < 2^32; bytes are N values < 256.
   sha256_update is a left fold of a one-byte absorb step, so that feeding a
   message in pieces is provably the same as feeding the concatenation. *)
From MLA Require Import Base.
From MLA.Concrete Require Import HexS.
Open Scope N_scope.

(* ---------- 32-bit word operations (FIPS 180-4, 2.2.2 and 4.1.2) ---------- *)

Definition mask32 : N := 0xFFFFFFFF.
Definition trunc32 (x : N) : N := N.land x mask32.
(* rotate right by n (0 < n < 32) of a word x < 2^32: the low n bits move to the top.
   Masking before the left shift (rather than truncating after it) keeps the
   intermediate values below 2^32, which is markedly faster under vm_compute. *)
Definition rotr32 (n x : N) : N :=
  N.lor (N.shiftr x n) (N.shiftl (N.land x (N.ones n)) (32 - n)).

Definition ch32 (x y z : N) : N := N.lxor z (N.land x (N.lxor y z)).
Definition maj32 (x y z : N) : N := N.lor (N.land x y) (N.land z (N.lor x y)).
Definition bsig0_256 (x : N) : N := N.lxor (rotr32 2 x) (N.lxor (rotr32 13 x) (rotr32 22 x)).
Definition bsig1_256 (x : N) : N := N.lxor (rotr32 6 x) (N.lxor (rotr32 11 x) (rotr32 25 x)).
Definition ssig0_256 (x : N) : N := N.lxor (rotr32 7 x) (N.lxor (rotr32 18 x) (N.shiftr x 3)).
Definition ssig1_256 (x : N) : N := N.lxor (rotr32 17 x) (N.lxor (rotr32 19 x) (N.shiftr x 10)).

(* Round constants (4.2.2) and initial hash value (5.3.3). *)
Definition K256 : list N :=
  [0x428a2f98; 0x71374491; 0xb5c0fbcf; 0xe9b5dba5; 0x3956c25b; 0x59f111f1; 0x923f82a4; 0xab1c5ed5;
   0xd807aa98; 0x12835b01; 0x243185be; 0x550c7dc3; 0x72be5d74; 0x80deb1fe; 0x9bdc06a7; 0xc19bf174;
   0xe49b69c1; 0xefbe4786; 0x0fc19dc6; 0x240ca1cc; 0x2de92c6f; 0x4a7484aa; 0x5cb0a9dc; 0x76f988da;
   0x983e5152; 0xa831c66d; 0xb00327c8; 0xbf597fc7; 0xc6e00bf3; 0xd5a79147; 0x06ca6351; 0x14292967;
   0x27b70a85; 0x2e1b2138; 0x4d2c6dfc; 0x53380d13; 0x650a7354; 0x766a0abb; 0x81c2c92e; 0x92722c85;
   0xa2bfe8a1; 0xa81a664b; 0xc24b8b70; 0xc76c51a3; 0xd192e819; 0xd6990624; 0xf40e3585; 0x106aa070;
   0x19a4c116; 0x1e376c08; 0x2748774c; 0x34b0bcb5; 0x391c0cb3; 0x4ed8aa4a; 0x5b9cca4f; 0x682e6ff3;
   0x748f82ee; 0x78a5636f; 0x84c87814; 0x8cc70208; 0x90befffa; 0xa4506ceb; 0xbef9a3f7; 0xc67178f2].

Definition words8 : Type := (N * N * N * N * N * N * N * N)%type.

Definition H256_init : words8 :=
  (0x6a09e667, 0xbb67ae85, 0x3c6ef372, 0xa54ff53a, 0x510e527f, 0x9b05688c, 0x1f83d9ab, 0x5be0cd19).

(* ---------- compression function (6.2.2) ---------- *)

(* big-endian 32-bit words of a byte string (a trailing partial word is dropped) *)
Fixpoint be_words32 (b : bytes) : list N :=
  match b with
  | b0 :: b1 :: b2 :: b3 :: r =>
    (N.shiftl b0 24 + N.shiftl b1 16 + N.shiftl b2 8 + b3) :: be_words32 r
  | _ => []
  end.

(* One round per constant in ks.  w is the sliding window W[t .. t+15] of the
   message schedule; each round consumes W[t] and appends W[t+16]. *)
Fixpoint sha256_rounds (ks : list N) (w : list N) (st : words8) : words8 :=
  match ks with
  | [] => st
  | k :: ks' =>
    match w with
    | [w0; w1; w2; w3; w4; w5; w6; w7; w8; w9; w10; w11; w12; w13; w14; w15] =>
      let '(a, b, c, d, e, f, g, h) := st in
      let t1 := h + bsig1_256 e + ch32 e f g + k + w0 in
      let t2 := bsig0_256 a + maj32 a b c in
      let wn := trunc32 (ssig1_256 w14 + w9 + ssig0_256 w1 + w0) in
      sha256_rounds ks'
        [w1; w2; w3; w4; w5; w6; w7; w8; w9; w10; w11; w12; w13; w14; w15; wn]
        (trunc32 (t1 + t2), a, b, c, trunc32 (d + t1), e, f, g)
    | _ => st   (* not a 16-word window: unreachable for 64-byte blocks *)
    end
  end.

(* block is expected to be exactly 64 bytes *)
Definition sha256_compress (hv : words8) (block : bytes) : words8 :=
  let '(a, b, c, d, e, f, g, h) := sha256_rounds K256 (be_words32 block) hv in
  let '(h0, h1, h2, h3, h4, h5, h6, h7) := hv in
  (trunc32 (h0 + a), trunc32 (h1 + b), trunc32 (h2 + c), trunc32 (h3 + d),
   trunc32 (h4 + e), trunc32 (h5 + f), trunc32 (h6 + g), trunc32 (h7 + h)).

(* ---------- incremental interface ---------- *)

Record sha256_state := mk_sha256_state {
  sha256_h   : words8;  (* chaining value *)
  sha256_buf : bytes;   (* bytes not yet compressed, in order; < 64 of them *)
  sha256_len : N        (* total number of bytes absorbed so far *)
}.

Definition sha256_init : sha256_state := mk_sha256_state H256_init [] 0.

(* absorb one byte; compress when the buffer reaches a full block *)
Definition sha256_absorb (s : sha256_state) (x : N) : sha256_state :=
  let buf := sha256_buf s ++ [x] in
  if len buf =? 64
  then mk_sha256_state (sha256_compress (sha256_h s) buf) [] (sha256_len s + 1)
  else mk_sha256_state (sha256_h s) buf (sha256_len s + 1).

Definition sha256_update (s : sha256_state) (data : bytes) : sha256_state :=
  fold_left sha256_absorb data s.

(* Padding (5.1.1) for a state with buflen buffered bytes and total bytes absorbed:
   0x80, then zeros up to 56 mod 64, then the bit length as a 64-bit big-endian integer. *)
Definition sha256_padding (buflen total : N) : bytes :=
  0x80 :: repeat 0 (N.to_nat ((119 - buflen) mod 64)) ++ be_bytes 8 (8 * total).

Definition words8_be_bytes (w : nat) (v : words8) : bytes :=
  let '(a, b, c, d, e, f, g, h) := v in
  be_bytes w a ++ be_bytes w b ++ be_bytes w c ++ be_bytes w d ++
  be_bytes w e ++ be_bytes w f ++ be_bytes w g ++ be_bytes w h.

Definition sha256_final (s : sha256_state) : bytes :=
  let s' := sha256_update s (sha256_padding (len (sha256_buf s)) (sha256_len s)) in
  words8_be_bytes 4 (sha256_h s').

Definition sha256 (data : bytes) : bytes :=
  sha256_final (sha256_update sha256_init data).

(* ---------- properties ---------- *)

Lemma sha256_update_nil s : sha256_update s [] = s.
Proof. reflexivity. Qed.

Lemma sha256_update_cons s x r :
  sha256_update s (x :: r) = sha256_update (sha256_absorb s x) r.
Proof. reflexivity. Qed.

(* hashing in pieces = hashing the concatenation *)
Lemma sha256_update_app s a b :
  sha256_update (sha256_update s a) b = sha256_update s (a ++ b).
Proof. unfold sha256_update. symmetry. apply fold_left_app. Qed.

Lemma sha256_app a b :
  sha256 (a ++ b) = sha256_final (sha256_update (sha256_update sha256_init a) b).
Proof. unfold sha256. now rewrite sha256_update_app. Qed.

Lemma sha256_update_concat s (pieces : list bytes) :
  fold_left sha256_update pieces s = sha256_update s (concat pieces).
Proof.
  revert s; induction pieces as [|p ps IH]; intros s; cbn [fold_left concat].
  - reflexivity.
  - rewrite IH. apply sha256_update_app.
Qed.

Lemma length_words8_be_bytes w v : length (words8_be_bytes w v) = (8 * w)%nat.
Proof.
  destruct v as [[[[[[[a b] c] d] e] f] g] h]. unfold words8_be_bytes.
  rewrite !app_length, !length_be_bytes. lia.
Qed.

Lemma length_sha256_final s : length (sha256_final s) = 32%nat.
Proof. unfold sha256_final. apply length_words8_be_bytes. Qed.

Lemma length_sha256 data : length (sha256 data) = 32%nat.
Proof. apply length_sha256_final. Qed.

Lemma len_sha256 data : len (sha256 data) = 32.
Proof. unfold len. now rewrite length_sha256. Qed.

(* digests are well-formed byte strings *)
Lemma be_bytes_wf w v : wf_bytes (be_bytes w v).
Proof. unfold be_bytes, wf_bytes. apply Forall_rev. apply le_bytes_wf. Qed.

Lemma words8_be_bytes_wf w v : wf_bytes (words8_be_bytes w v).
Proof.
  destruct v as [[[[[[[a b] c] d] e] f] g] h]. unfold words8_be_bytes, wf_bytes.
  repeat (apply Forall_app; split); apply be_bytes_wf.
Qed.

Lemma sha256_wf data : wf_bytes (sha256 data).
Proof. apply words8_be_bytes_wf. Qed.

(* the buffer stays shorter than a block *)
Lemma sha256_absorb_buf_lt s x :
  len (sha256_buf s) < 64 -> len (sha256_buf (sha256_absorb s x)) < 64.
Proof.
  intros H. unfold sha256_absorb.
  destruct (len (sha256_buf s ++ [x]) =? 64) eqn:E; cbn [sha256_buf].
  - rewrite len_nil. lia.
  - apply N.eqb_neq in E. rewrite len_app, len_cons, len_nil in *. lia.
Qed.

Lemma sha256_update_buf_lt s data :
  len (sha256_buf s) < 64 -> len (sha256_buf (sha256_update s data)) < 64.
Proof.
  revert s; induction data as [|x r IH]; intros s H; [exact H|].
  rewrite sha256_update_cons. apply IH, sha256_absorb_buf_lt, H.
Qed.

(* total length bookkeeping *)
Lemma sha256_len_update s data :
  sha256_len (sha256_update s data) = sha256_len s + len data.
Proof.
  revert s; induction data as [|x r IH]; intros s.
  - rewrite sha256_update_nil, len_nil. lia.
  - rewrite sha256_update_cons, IH, len_cons.
    unfold sha256_absorb. destruct (_ =? 64); cbn [sha256_len]; lia.
Qed.

(* ---------- known answers (FIPS 180-4 / NIST examples) ---------- *)

Example sha256_kat_empty :
  sha256 [] = hex_bytes "e3b0c44298fc1c149afbf4c8996fb92427ae41e4649b934ca495991b7852b855".
Proof. vm_compute. reflexivity. Qed.

Example sha256_kat_abc :
  sha256 (bytes_of_string "abc")
  = hex_bytes "ba7816bf8f01cfea414140de5dae2223b00361a396177a9cb410ff61f20015ad".
Proof. vm_compute. reflexivity. Qed.

Example sha256_kat_56 :
  sha256 (bytes_of_string "abcdbcdecdefdefgefghfghighijhijkijkljklmklmnlmnomnopnopq")
  = hex_bytes "248d6a61d20638b8e5c026930c3e6039a33ce45964ff2167f6ecedd419db06c1".
Proof. vm_compute. reflexivity. Qed.

(* 112-byte NIST two-block message; checked against python3 hashlib *)
Definition sha256_msg112 : bytes :=
  bytes_of_string
    "abcdefghbcdefghicdefghijdefghijkefghijklfghijklmghijklmnhijklmnoijklmnopjklmnopqklmnopqrlmnopqrsmnopqrstnopqrstu".

Example sha256_kat_112 :
  sha256 sha256_msg112
  = hex_bytes "cf5b16a778af8380036ce59e7b0492370b249b11e8f07a51afac45037afee9d1".
Proof. vm_compute. reflexivity. Qed.

(* incremental: 112 bytes fed as 5 + 70 + 37 bytes (crossing block boundaries) *)
Example sha256_kat_incremental :
  sha256_final
    (sha256_update
       (sha256_update
          (sha256_update sha256_init (takeN 5 sha256_msg112))
          (sliceN 5 70 sha256_msg112))
       (dropN 75 sha256_msg112))
  = sha256 sha256_msg112.
Proof. vm_compute. reflexivity. Qed.

(* 1000 bytes i mod 251 : multi-block, all byte values; checked against python3 hashlib *)
Fixpoint ramp (n : nat) (i : N) : bytes :=
  match n with O => [] | S n' => (i mod 251) :: ramp n' (i + 1) end.

Example sha256_kat_ramp1000 :
  sha256 (ramp 1000 0)
  = hex_bytes "4e4c294b331f7a2099a379bec34b9f9fc03dc46ab465d998f4d683da53487e6d".
Proof. vm_compute. reflexivity. Qed.
