(* Hex.v — string helpers for readable known-answer tests. *)
From MLA Require Import Base.
From Coq Require Import String Ascii.
(* Re-export only the string-literal syntax, not String.length / String.append,
   so that importing this file does not shadow the list functions. *)
Export String.StringSyntax.
Open Scope N_scope.

(* Value of one hexadecimal digit (either case); None for any other character. *)
Definition hex_digit (c : ascii) : option N :=
  let n := N_of_ascii c in
  if (48 <=? n) && (n <=? 57) then Some (n - 48)          (* '0'..'9' *)
  else if (97 <=? n) && (n <=? 102) then Some (n - 87)    (* 'a'..'f' *)
  else if (65 <=? n) && (n <=? 70) then Some (n - 55)     (* 'A'..'F' *)
  else None.

(* Strict parser: two digits per byte, nothing is skipped.
   None on a non-hex character or an odd number of digits. *)
Fixpoint hex_bytes_opt (s : string) : option bytes :=
  match s with
  | EmptyString => Some []
  | String c1 (String c2 r) =>
    match hex_digit c1, hex_digit c2, hex_bytes_opt r with
    | Some h, Some l, Some t => Some ((16 * h + l) :: t)
    | _, _, _ => None
    end
  | String _ EmptyString => None
  end.

(* Total version used in KATs: a malformed string reads as [] (so a KAT
   against a nonempty digest fails instead of silently passing). *)
Definition hex_bytes (s : string) : bytes :=
  match hex_bytes_opt s with Some b => b | None => [] end.

(* ASCII codes of the characters of s. *)
Fixpoint bytes_of_string (s : string) : bytes :=
  match s with
  | EmptyString => []
  | String c r => N_of_ascii c :: bytes_of_string r
  end.

Arguments hex_bytes_opt s%string.
Arguments hex_bytes s%string.
Arguments bytes_of_string s%string.

(* Inverse direction, for printing digests while debugging. *)
Definition hex_char (n : N) : ascii :=
  ascii_of_N (if n <? 10 then 48 + n else 87 + n).
Fixpoint to_hex (b : bytes) : string :=
  match b with
  | [] => EmptyString
  | x :: r => String (hex_char (x / 16)) (String (hex_char (x mod 16)) (to_hex r))
  end.

Example hex_bytes_ex : hex_bytes "00fFa5" = [0; 255; 165].
Proof. vm_compute. reflexivity. Qed.
Example hex_bytes_bad : hex_bytes "0g" = [] /\ hex_bytes "abc" = [].
Proof. vm_compute. split; reflexivity. Qed.
Example bytes_of_string_ex : bytes_of_string "abc" = [97; 98; 99].
Proof. vm_compute. reflexivity. Qed.
Example to_hex_ex : to_hex [0; 255; 165] = "00ffa5"%string.
Proof. vm_compute. reflexivity. Qed.
