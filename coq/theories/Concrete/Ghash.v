(* Ghash.v — multiplication in GF(2^128) and GHASH, NIST SP 800-38D section 6.
   A 128-bit block is the number [block_to_N] of its 16 bytes read big-endian,
   so the bit that SP 800-38D calls x_0 (leftmost) is bit 127 of the number and
   x_127 (rightmost, "LSB") is bit 0. *)
From MLA Require Import Base.
From MLA.Concrete Require Import Hex.
Open Scope N_scope.

Definition block_to_N (b : bytes) : N := be_val b.
Definition N_to_block (x : N) : bytes := be_bytes 16 x.

Lemma length_N_to_block x : length (N_to_block x) = 16%nat.
Proof. apply length_be_bytes. Qed.
Lemma block_to_N_to_block x : x < 2 ^ 128 -> block_to_N (N_to_block x) = x.
Proof. intros H. apply be_val_be_bytes. exact H. Qed.

(* R = 11100001 || 0^120 *)
Definition gf_R : N := N.shiftl 225 120.

(* SP 800-38D Algorithm 1, steps 2-4.  n counts the remaining iterations, so
   the iteration index is i = 128 - n and x_i is bit 127 - i = n - 1 of x.
   z is Z_i, v is V_i. *)
Fixpoint gf_mul_loop (n : nat) (x z v : N) : N :=
  match n with
  | O => z
  | S n' =>
    let z' := if N.testbit x (N.of_nat n') then N.lxor z v else z in
    let v' := if N.testbit v 0 then N.lxor (N.shiftr v 1) gf_R else N.shiftr v 1 in
    gf_mul_loop n' x z' v'
  end.

(* X . Y *)
Definition gf_mul (x y : N) : N := gf_mul_loop 128 x 0 y.

(* SP 800-38D Algorithm 2: Y_0 = 0, Y_i = (Y_(i-1) xor X_i) . H *)
Definition ghash_from (h : N) (y : N) (blocks : list N) : N :=
  fold_left (fun y x => gf_mul (N.lxor y x) h) blocks y.
Definition ghash (h : N) (blocks : list N) : N := ghash_from h 0 blocks.

Lemma ghash_from_app h y b1 b2 :
  ghash_from h y (b1 ++ b2) = ghash_from h (ghash_from h y b1) b2.
Proof. apply fold_left_app. Qed.

(* zero-pad on the right to a multiple of 16 bytes; a multiple (including the
   empty string) is unchanged *)
Definition pad16 (b : bytes) : bytes :=
  let r := len b mod 16 in
  if r =? 0 then b else b ++ repeat 0 (N.to_nat (16 - r)).

(* consecutive 16-byte pieces as 128-bit numbers; a trailing fragment of fewer
   than 16 bytes is dropped (callers pass multiples of 16) *)
Fixpoint blocks_of (b : bytes) : list N :=
  match b with
  | b0 :: b1 :: b2 :: b3 :: b4 :: b5 :: b6 :: b7 ::
    b8 :: b9 :: b10 :: b11 :: b12 :: b13 :: b14 :: b15 :: r =>
    block_to_N [b0; b1; b2; b3; b4; b5; b6; b7; b8; b9; b10; b11; b12; b13; b14; b15]
      :: blocks_of r
  | _ => []
  end.

(* ---------- known answers ---------- *)

Example block_roundtrip_ex :
  N_to_block (block_to_N (hex_bytes "000102030405060708090a0b0c0d0e0f"))
  = hex_bytes "000102030405060708090a0b0c0d0e0f"
  /\ block_to_N (hex_bytes "80000000000000000000000000000000") = 2 ^ 127.
Proof. vm_compute. split; reflexivity. Qed.

(* the block 1000...0 (bit x_0 set, i.e. the polynomial 1) is the unit *)
Example gf_mul_one :
  let a := block_to_N (hex_bytes "66e94bd4ef8a2c3b884cfa59ca342b2e") in
  gf_mul (2 ^ 127) a = a /\ gf_mul a (2 ^ 127) = a.
Proof. vm_compute. split; reflexivity. Qed.

(* x^127 * x = x^128 = 1 + x + x^2 + x^7, i.e. the block e1 00..00 *)
Example gf_mul_reduce : gf_mul 1 (2 ^ 126) = gf_R.
Proof. vm_compute. reflexivity. Qed.

(* GCM spec (McGrew & Viega) test case 2, which uses
   H = 66e94bd4ef8a2c3b884cfa59ca342b2e, C = 0388dace60b6a392f328c2b971b2fe78:
   GHASH(H, {}, C) = f38cbb1ad69223dcc3457ae5b6b0f885 *)
Example kat_ghash_tc2 :
  N_to_block
    (ghash (block_to_N (hex_bytes "66e94bd4ef8a2c3b884cfa59ca342b2e"))
       (blocks_of (hex_bytes
          "0388dace60b6a392f328c2b971b2fe7800000000000000000000000000000080")))
  = hex_bytes "f38cbb1ad69223dcc3457ae5b6b0f885".
Proof. vm_compute. reflexivity. Qed.

Example pad16_ex :
  (pad16 [], length (pad16 [1]), length (pad16 (repeat 7 16)), pad16 (repeat 7 15))
  = ([], 16%nat, 16%nat, repeat 7 15 ++ [0]).
Proof. vm_compute. reflexivity. Qed.
