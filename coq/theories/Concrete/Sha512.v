(* Sha512.v — FIPS 180-4 SHA-512, executable, with an incremental interface.
   Same structure as Sha256.v: 64-bit words (N values < 2^64), 128-byte blocks,
   80 rounds, 128-bit length field. *)
From MLA Require Import Base.
From MLA.Concrete Require Import HexS Sha256.
Open Scope N_scope.

(* ---------- 64-bit word operations (FIPS 180-4, 4.1.3) ---------- *)

Definition mask64 : N := 0xFFFFFFFFFFFFFFFF.
Definition trunc64 (x : N) : N := N.land x mask64.
(* rotate right by n (0 < n < 64) of a word x < 2^64; see rotr32 *)
Definition rotr64 (n x : N) : N :=
  N.lor (N.shiftr x n) (N.shiftl (N.land x (N.ones n)) (64 - n)).

(* Ch and Maj are width-independent: ch32 / maj32 from Sha256.v are reused. *)
Definition bsig0_512 (x : N) : N := N.lxor (rotr64 28 x) (N.lxor (rotr64 34 x) (rotr64 39 x)).
Definition bsig1_512 (x : N) : N := N.lxor (rotr64 14 x) (N.lxor (rotr64 18 x) (rotr64 41 x)).
Definition ssig0_512 (x : N) : N := N.lxor (rotr64 1 x) (N.lxor (rotr64 8 x) (N.shiftr x 7)).
Definition ssig1_512 (x : N) : N := N.lxor (rotr64 19 x) (N.lxor (rotr64 61 x) (N.shiftr x 6)).

(* Round constants (4.2.3) and initial hash value (5.3.5). *)
Definition K512 : list N :=
  [0x428a2f98d728ae22; 0x7137449123ef65cd; 0xb5c0fbcfec4d3b2f; 0xe9b5dba58189dbbc;
   0x3956c25bf348b538; 0x59f111f1b605d019; 0x923f82a4af194f9b; 0xab1c5ed5da6d8118;
   0xd807aa98a3030242; 0x12835b0145706fbe; 0x243185be4ee4b28c; 0x550c7dc3d5ffb4e2;
   0x72be5d74f27b896f; 0x80deb1fe3b1696b1; 0x9bdc06a725c71235; 0xc19bf174cf692694;
   0xe49b69c19ef14ad2; 0xefbe4786384f25e3; 0x0fc19dc68b8cd5b5; 0x240ca1cc77ac9c65;
   0x2de92c6f592b0275; 0x4a7484aa6ea6e483; 0x5cb0a9dcbd41fbd4; 0x76f988da831153b5;
   0x983e5152ee66dfab; 0xa831c66d2db43210; 0xb00327c898fb213f; 0xbf597fc7beef0ee4;
   0xc6e00bf33da88fc2; 0xd5a79147930aa725; 0x06ca6351e003826f; 0x142929670a0e6e70;
   0x27b70a8546d22ffc; 0x2e1b21385c26c926; 0x4d2c6dfc5ac42aed; 0x53380d139d95b3df;
   0x650a73548baf63de; 0x766a0abb3c77b2a8; 0x81c2c92e47edaee6; 0x92722c851482353b;
   0xa2bfe8a14cf10364; 0xa81a664bbc423001; 0xc24b8b70d0f89791; 0xc76c51a30654be30;
   0xd192e819d6ef5218; 0xd69906245565a910; 0xf40e35855771202a; 0x106aa07032bbd1b8;
   0x19a4c116b8d2d0c8; 0x1e376c085141ab53; 0x2748774cdf8eeb99; 0x34b0bcb5e19b48a8;
   0x391c0cb3c5c95a63; 0x4ed8aa4ae3418acb; 0x5b9cca4f7763e373; 0x682e6ff3d6b2b8a3;
   0x748f82ee5defb2fc; 0x78a5636f43172f60; 0x84c87814a1f0ab72; 0x8cc702081a6439ec;
   0x90befffa23631e28; 0xa4506cebde82bde9; 0xbef9a3f7b2c67915; 0xc67178f2e372532b;
   0xca273eceea26619c; 0xd186b8c721c0c207; 0xeada7dd6cde0eb1e; 0xf57d4f7fee6ed178;
   0x06f067aa72176fba; 0x0a637dc5a2c898a6; 0x113f9804bef90dae; 0x1b710b35131c471b;
   0x28db77f523047d84; 0x32caab7b40c72493; 0x3c9ebe0a15c9bebc; 0x431d67c49c100d4c;
   0x4cc5d4becb3e42b6; 0x597f299cfc657e2a; 0x5fcb6fab3ad6faec; 0x6c44198c4a475817].

Definition H512_init : words8 :=
  (0x6a09e667f3bcc908, 0xbb67ae8584caa73b, 0x3c6ef372fe94f82b, 0xa54ff53a5f1d36f1,
   0x510e527fade682d1, 0x9b05688c2b3e6c1f, 0x1f83d9abfb41bd6b, 0x5be0cd19137e2179).

(* ---------- compression function (6.4.2) ---------- *)

(* big-endian 64-bit words of a byte string (a trailing partial word is dropped) *)
Fixpoint be_words64 (b : bytes) : list N :=
  match b with
  | b0 :: b1 :: b2 :: b3 :: b4 :: b5 :: b6 :: b7 :: r =>
    (N.shiftl b0 56 + N.shiftl b1 48 + N.shiftl b2 40 + N.shiftl b3 32
     + N.shiftl b4 24 + N.shiftl b5 16 + N.shiftl b6 8 + b7) :: be_words64 r
  | _ => []
  end.

(* One round per constant in ks; w is the sliding window W[t .. t+15]. *)
Fixpoint sha512_rounds (ks : list N) (w : list N) (st : words8) : words8 :=
  match ks with
  | [] => st
  | k :: ks' =>
    match w with
    | [w0; w1; w2; w3; w4; w5; w6; w7; w8; w9; w10; w11; w12; w13; w14; w15] =>
      let '(a, b, c, d, e, f, g, h) := st in
      let t1 := h + bsig1_512 e + ch32 e f g + k + w0 in
      let t2 := bsig0_512 a + maj32 a b c in
      let wn := trunc64 (ssig1_512 w14 + w9 + ssig0_512 w1 + w0) in
      sha512_rounds ks'
        [w1; w2; w3; w4; w5; w6; w7; w8; w9; w10; w11; w12; w13; w14; w15; wn]
        (trunc64 (t1 + t2), a, b, c, trunc64 (d + t1), e, f, g)
    | _ => st   (* not a 16-word window: unreachable for 128-byte blocks *)
    end
  end.

(* block is expected to be exactly 128 bytes *)
Definition sha512_compress (hv : words8) (block : bytes) : words8 :=
  let '(a, b, c, d, e, f, g, h) := sha512_rounds K512 (be_words64 block) hv in
  let '(h0, h1, h2, h3, h4, h5, h6, h7) := hv in
  (trunc64 (h0 + a), trunc64 (h1 + b), trunc64 (h2 + c), trunc64 (h3 + d),
   trunc64 (h4 + e), trunc64 (h5 + f), trunc64 (h6 + g), trunc64 (h7 + h)).

(* ---------- incremental interface ---------- *)

Record sha512_state := mk_sha512_state {
  sha512_h   : words8;  (* chaining value *)
  sha512_buf : bytes;   (* bytes not yet compressed, in order; < 128 of them *)
  sha512_len : N        (* total number of bytes absorbed so far *)
}.

Definition sha512_init : sha512_state := mk_sha512_state H512_init [] 0.

(* absorb one byte; compress when the buffer reaches a full block *)
Definition sha512_absorb (s : sha512_state) (x : N) : sha512_state :=
  let buf := sha512_buf s ++ [x] in
  if len buf =? 128
  then mk_sha512_state (sha512_compress (sha512_h s) buf) [] (sha512_len s + 1)
  else mk_sha512_state (sha512_h s) buf (sha512_len s + 1).

Definition sha512_update (s : sha512_state) (data : bytes) : sha512_state :=
  fold_left sha512_absorb data s.

(* Padding (5.1.2): 0x80, zeros up to 112 mod 128, then the bit length as a
   128-bit big-endian integer. *)
Definition sha512_padding (buflen total : N) : bytes :=
  0x80 :: repeat 0 (N.to_nat ((239 - buflen) mod 128)) ++ be_bytes 16 (8 * total).

Definition sha512_final (s : sha512_state) : bytes :=
  let s' := sha512_update s (sha512_padding (len (sha512_buf s)) (sha512_len s)) in
  words8_be_bytes 8 (sha512_h s').

Definition sha512 (data : bytes) : bytes :=
  sha512_final (sha512_update sha512_init data).

(* ---------- properties ---------- *)

Lemma sha512_update_nil s : sha512_update s [] = s.
Proof. reflexivity. Qed.

Lemma sha512_update_cons s x r :
  sha512_update s (x :: r) = sha512_update (sha512_absorb s x) r.
Proof. reflexivity. Qed.

(* hashing in pieces = hashing the concatenation *)
Lemma sha512_update_app s a b :
  sha512_update (sha512_update s a) b = sha512_update s (a ++ b).
Proof. unfold sha512_update. symmetry. apply fold_left_app. Qed.

Lemma sha512_app a b :
  sha512 (a ++ b) = sha512_final (sha512_update (sha512_update sha512_init a) b).
Proof. unfold sha512. now rewrite sha512_update_app. Qed.

Lemma sha512_update_concat s (pieces : list bytes) :
  fold_left sha512_update pieces s = sha512_update s (concat pieces).
Proof.
  revert s; induction pieces as [|p ps IH]; intros s; cbn [fold_left concat].
  - reflexivity.
  - rewrite IH. apply sha512_update_app.
Qed.

Lemma length_sha512_final s : length (sha512_final s) = 64%nat.
Proof. unfold sha512_final. apply length_words8_be_bytes. Qed.

Lemma length_sha512 data : length (sha512 data) = 64%nat.
Proof. apply length_sha512_final. Qed.

Lemma len_sha512 data : len (sha512 data) = 64.
Proof. unfold len. now rewrite length_sha512. Qed.

Lemma sha512_wf data : wf_bytes (sha512 data).
Proof. apply words8_be_bytes_wf. Qed.

(* the buffer stays shorter than a block *)
Lemma sha512_absorb_buf_lt s x :
  len (sha512_buf s) < 128 -> len (sha512_buf (sha512_absorb s x)) < 128.
Proof.
  intros H. unfold sha512_absorb.
  destruct (len (sha512_buf s ++ [x]) =? 128) eqn:E; cbn [sha512_buf].
  - rewrite len_nil. lia.
  - apply N.eqb_neq in E. rewrite len_app, len_cons, len_nil in *. lia.
Qed.

Lemma sha512_update_buf_lt s data :
  len (sha512_buf s) < 128 -> len (sha512_buf (sha512_update s data)) < 128.
Proof.
  revert s; induction data as [|x r IH]; intros s H; [exact H|].
  rewrite sha512_update_cons. apply IH, sha512_absorb_buf_lt, H.
Qed.

Lemma sha512_len_update s data :
  sha512_len (sha512_update s data) = sha512_len s + len data.
Proof.
  revert s; induction data as [|x r IH]; intros s.
  - rewrite sha512_update_nil, len_nil. lia.
  - rewrite sha512_update_cons, IH, len_cons.
    unfold sha512_absorb. destruct (_ =? 128); cbn [sha512_len]; lia.
Qed.

(* ---------- known answers (FIPS 180-4 / NIST examples) ---------- *)

Example sha512_kat_empty :
  sha512 [] = hex_bytes
    "cf83e1357eefb8bdf1542850d66d8007d620e4050b5715dc83f4a921d36ce9ce47d0d13c5d85f2b0ff8318d2877eec2f63b931bd47417a81a538327af927da3e".
Proof. vm_compute. reflexivity. Qed.

Example sha512_kat_abc :
  sha512 (bytes_of_string "abc") = hex_bytes
    "ddaf35a193617abacc417349ae20413112e6fa4e89a97ea20a9eeee64b55d39a2192992a274fc1a836ba3c23a3feebbd454d4423643ce80e2a9ac94fa54ca49f".
Proof. vm_compute. reflexivity. Qed.

(* 112-byte NIST message: exactly fills the data part, so padding takes a second block *)
Example sha512_kat_112 :
  sha512 sha256_msg112 = hex_bytes
    "8e959b75dae313da8cf4f72814fc143f8f7779c6eb9f7fa17299aeadb6889018501d289e4900f7e4331b99dec4b5433ac7d329eeb6dd26545e96e55b874be909".
Proof. vm_compute. reflexivity. Qed.

(* 1000 bytes i mod 251; checked against python3 hashlib *)
Example sha512_kat_ramp1000 :
  sha512 (ramp 1000 0) = hex_bytes
    "5096498d96f50f9a137c4db5b8b0cd38383ad55350fb5a98805fedc31fa1262f1f0cf4d6f12d7ecd8dedd933a4c9126344fe22e937a8ad35fdeae1e876ae698b".
Proof. vm_compute. reflexivity. Qed.

(* incremental: 1000 bytes fed as 3 + 200 + 797 bytes *)
Example sha512_kat_incremental :
  let m := ramp 1000 0 in
  sha512_final
    (sha512_update
       (sha512_update (sha512_update sha512_init (takeN 3 m)) (sliceN 3 200 m))
       (dropN 203 m))
  = sha512 m.
Proof. vm_compute. reflexivity. Qed.
