(* Hex.v — hex string literals as byte strings, for readable test vectors.
   Stdlib only; executable. *)
From MLA Require Import Base.
From Coq Require Import String Ascii.
Open Scope N_scope.

(* value of one hex digit (either case); None for any other character *)
Definition hex_digit (c : ascii) : option N :=
  let n := N_of_ascii c in
  if (48 <=? n) && (n <=? 57) then Some (n - 48)        (* '0'..'9' *)
  else if (97 <=? n) && (n <=? 102) then Some (n - 87)  (* 'a'..'f' *)
  else if (65 <=? n) && (n <=? 70) then Some (n - 55)   (* 'A'..'F' *)
  else None.

(* Two hex digits per byte.  A pair containing a non-hex character is skipped,
   a trailing odd character is dropped; test vectors never contain either. *)
Fixpoint hex_bytes (s : string) : bytes :=
  match s with
  | String a (String b r) =>
      match hex_digit a, hex_digit b with
      | Some x, Some y => (16 * x + y) :: hex_bytes r
      | _, _ => hex_bytes r
      end
  | _ => []
  end.

(* Clients write [hex_bytes "00ff"] without importing Coq.Strings.String (whose
   [length], [concat], ... would shadow the list functions): string literals are
   read in [hex_scope], to which the argument of [hex_bytes] is bound. *)
Declare Scope hex_scope.
Delimit Scope hex_scope with hex.
String Notation string string_of_list_byte list_byte_of_string : hex_scope.
Arguments hex_bytes s%hex.

Example hex_bytes_ex : hex_bytes "00ff1aB2" = [0; 255; 26; 178].
Proof. vm_compute. reflexivity. Qed.
