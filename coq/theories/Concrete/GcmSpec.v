(* GcmSpec.v — AES-256-GCM with 96-bit nonces and 128-bit tags, written directly
   from NIST SP 800-38D (Algorithms 3, 4 and 5 specialised to len(IV) = 96):
   one-shot functions of the whole message, no incremental state.
     H  = E_K(0^128)
     J0 = IV || 0^31 || 1                     (= ctr_block nonce 1)
     C  = P xor (E_K(inc32 J0) || E_K(inc32^2 J0) || ...)   truncated to |P|
     T  = E_K(J0) xor GHASH_H(A || 0^v || C || 0^u || [len A]_64 || [len C]_64)
   The [_rk] functions take the expanded key so that it is expanded only once. *)
From MLA Require Import Base.
From MLA.Concrete Require Import Hex Aes Ghash.
Open Scope N_scope.

(* nonce (12 bytes) || big-endian 32-bit counter; the counter wraps mod 2^32 as inc32 does *)
Definition ctr_block (nonce : bytes) (i : N) : bytes := nonce ++ be_bytes 4 i.

(* E(ctr_block nonce i) ++ E(ctr_block nonce (i+1)) ++ ... , n blocks *)
Fixpoint keystream_blocks (rk : list bytes) (nonce : bytes) (n : nat) (i : N) : bytes :=
  match n with
  | O => []
  | S n' => aes_encrypt_rk rk (ctr_block nonce i) ++ keystream_blocks rk nonce n' (i + 1)
  end.

(* the first nbytes bytes of the GCTR key stream, which starts at counter 2 *)
Definition keystream_rk (rk : list bytes) (nonce : bytes) (nbytes : N) : bytes :=
  takeN nbytes (keystream_blocks rk nonce (N.to_nat ((nbytes + 15) / 16)) 2).

(* GCTR_K(inc32 J0, data): encryption and decryption are the same function *)
Definition gcm_ctr_rk (rk : list bytes) (nonce data : bytes) : bytes :=
  xor_bytes data (keystream_rk rk nonce (len data)).

(* the string that is hashed: A || 0^v || C || 0^u || [len(A)]_64 || [len(C)]_64, lengths in bits *)
Definition ghash_input (aad ct : bytes) : bytes :=
  pad16 aad ++ pad16 ct ++ be_bytes 8 (8 * len aad) ++ be_bytes 8 (8 * len ct).

Definition gcm_tag_rk (rk : list bytes) (nonce aad ct : bytes) : bytes :=
  let h := block_to_N (aes_encrypt_rk rk (repeat 0 16)) in
  let s := ghash h (blocks_of (ghash_input aad ct)) in
  xor_bytes (aes_encrypt_rk rk (ctr_block nonce 1)) (N_to_block s).

(* Algorithm 4: (C, T) *)
Definition gcm_encrypt_rk (rk : list bytes) (nonce aad pt : bytes) : bytes * bytes :=
  let ct := gcm_ctr_rk rk nonce pt in
  (ct, gcm_tag_rk rk nonce aad ct).

(* Algorithm 5: None is FAIL *)
Definition gcm_decrypt_rk (rk : list bytes) (nonce aad ct tag : bytes) : option bytes :=
  if bytes_eqb tag (gcm_tag_rk rk nonce aad ct)
  then Some (gcm_ctr_rk rk nonce ct)
  else None.

(* ---------- the same with the raw 32-byte key ---------- *)

Definition keystream (key nonce : bytes) (nbytes : N) : bytes :=
  keystream_rk (aes256_expand key) nonce nbytes.
Definition gcm_encrypt (key nonce aad pt : bytes) : bytes * bytes :=
  gcm_encrypt_rk (aes256_expand key) nonce aad pt.
Definition gcm_tag (key nonce aad ct : bytes) : bytes :=
  gcm_tag_rk (aes256_expand key) nonce aad ct.
Definition gcm_decrypt (key nonce aad ct tag : bytes) : option bytes :=
  gcm_decrypt_rk (aes256_expand key) nonce aad ct tag.

(* ---------- small structural facts ---------- *)

Lemma length_xor_bytes_same a b : length a = length b -> length (xor_bytes a b) = length a.
Proof. intros H. rewrite length_xor_bytes, <- H. apply Nat.min_id. Qed.

Lemma gcm_encrypt_rk_fst rk nonce aad pt :
  fst (gcm_encrypt_rk rk nonce aad pt) = gcm_ctr_rk rk nonce pt.
Proof. reflexivity. Qed.
Lemma gcm_encrypt_rk_snd rk nonce aad pt :
  snd (gcm_encrypt_rk rk nonce aad pt) = gcm_tag_rk rk nonce aad (gcm_ctr_rk rk nonce pt).
Proof. reflexivity. Qed.

(* decryption succeeds exactly when the tag is the one the specification computes *)
Lemma gcm_decrypt_rk_Some rk nonce aad ct tag :
  tag = gcm_tag_rk rk nonce aad ct ->
  gcm_decrypt_rk rk nonce aad ct tag = Some (gcm_ctr_rk rk nonce ct).
Proof. intros ->. unfold gcm_decrypt_rk. now rewrite bytes_eqb_refl. Qed.
Lemma gcm_decrypt_rk_None rk nonce aad ct tag :
  tag <> gcm_tag_rk rk nonce aad ct -> gcm_decrypt_rk rk nonce aad ct tag = None.
Proof.
  intros H. unfold gcm_decrypt_rk.
  destruct (bytes_eqb tag (gcm_tag_rk rk nonce aad ct)) eqn:E; [|reflexivity].
  apply bytes_eqb_eq in E. contradiction.
Qed.

(* ---------- known answers: the AES-256 test cases of the GCM specification
   (McGrew & Viega, "The Galois/Counter Mode of Operation", Appendix B) ---------- *)

Definition zeros (n : nat) : bytes := repeat 0 n.

Definition tc_key : bytes :=
  hex_bytes "feffe9928665731c6d6a8f9467308308feffe9928665731c6d6a8f9467308308".
Definition tc_iv : bytes := hex_bytes "cafebabefacedbaddecaf888".
Definition tc_pt64 : bytes := hex_bytes
  "d9313225f88406e5a55909c5aff5269a86a7a9531534f7da2e4c303d8a318a721c3c0c95956809532fcf0e2449a6b525b16aedf5aa0de657ba637b391aafd255".
Definition tc_aad : bytes := hex_bytes "feedfacedeadbeeffeedfacedeadbeefabaddad2".
Definition tc_ct64 : bytes := hex_bytes
  "522dc1f099567d07f47f37a32a84427d643a8cdcbfe5c0c97598a2bd2555d1aa8cb08e48590dbb3da7b08b1056828838c5f61e6393ba7a0abcc9f662898015ad".

(* Test case 13: zero key, zero IV, empty plaintext, no AAD *)
Example kat_gcm_tc13 :
  gcm_encrypt (zeros 32) (zeros 12) [] []
  = ([], hex_bytes "530f8afbc74536b9a963b4f1c4cb738b").
Proof. vm_compute. reflexivity. Qed.

(* Test case 14: zero key, zero IV, one zero block *)
Example kat_gcm_tc14 :
  gcm_encrypt (zeros 32) (zeros 12) [] (zeros 16)
  = (hex_bytes "cea7403d4d606b6e074ec5d3baf39d18",
     hex_bytes "d0d1c8a799996bf0265b98b5d48ab919").
Proof. vm_compute. reflexivity. Qed.

(* Test case 15: 64-byte plaintext, no AAD *)
Example kat_gcm_tc15 :
  gcm_encrypt tc_key tc_iv [] tc_pt64
  = (tc_ct64, hex_bytes "b094dac5d93471bdec1a502270e3cc6c").
Proof. vm_compute. reflexivity. Qed.

(* Test case 16: 60-byte plaintext (partial last block), 20-byte AAD *)
Example kat_gcm_tc16 :
  gcm_encrypt tc_key tc_iv tc_aad (firstn 60 tc_pt64)
  = (firstn 60 tc_ct64, hex_bytes "76fc6ece0f4e1768cddf8853bb2d551b").
Proof. vm_compute. reflexivity. Qed.

(* decryption: accepts TC16, returns the plaintext; rejects a flipped tag bit,
   a flipped ciphertext bit and a changed AAD *)
Example kat_gcm_tc16_decrypt :
  let ct := firstn 60 tc_ct64 in
  let tag := hex_bytes "76fc6ece0f4e1768cddf8853bb2d551b" in
  gcm_decrypt tc_key tc_iv tc_aad ct tag = Some (firstn 60 tc_pt64)
  /\ gcm_decrypt tc_key tc_iv tc_aad ct (hex_bytes "77fc6ece0f4e1768cddf8853bb2d551b") = None
  /\ gcm_decrypt tc_key tc_iv tc_aad (xor_bytes ct (1 :: zeros 59)) tag = None
  /\ gcm_decrypt tc_key tc_iv (firstn 19 tc_aad) ct tag = None
  /\ gcm_tag tc_key tc_iv tc_aad ct = tag.
Proof. vm_compute. repeat split; reflexivity. Qed.

(* not from the GCM paper: 33-byte plaintext 00 01 .. 20 with the TC16 key, IV and
   AAD; expected values computed with OpenSSL 3.5 (EVP aes-256-gcm) and with an
   independent Python implementation *)
Example kat_gcm_33 :
  gcm_encrypt tc_key tc_iv tc_aad
    (hex_bytes "000102030405060708090a0b0c0d0e0f101112131415161718191a1b1c1d1e1f20")
  = (hex_bytes "8b1df1d665d77de5592f346d897c6ae8f28c379cbec4210443cd889bb37945c7b0",
     hex_bytes "d9b9c186b58138ea826911721ba69a83").
Proof. vm_compute. reflexivity. Qed.

(* the key stream is what CTR mode produces: C xor P for TC15 *)
Example kat_keystream_tc15 :
  keystream tc_key tc_iv 64 = xor_bytes tc_pt64 tc_ct64
  /\ keystream tc_key tc_iv 5 = firstn 5 (xor_bytes tc_pt64 tc_ct64)
  /\ keystream tc_key tc_iv 0 = [].
Proof. vm_compute. repeat split; reflexivity. Qed.
