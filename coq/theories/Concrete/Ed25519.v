(* Ed25519.v — the part of Ed25519 (RFC 8032) needed to convert OpenSSL Ed25519
   keys into X25519 keys the way curve25519-parser / curve25519-dalek /
   x25519-dalek do:
     private:  first half of SHA-512(seed), clamped           (RFC 8032, 5.1.5)
     public:   decompress the Edwards point, u = (1+y)/(1-y)  (RFC 7748, 4.1)
   and the derivation of the Ed25519 public key from the seed, so that the two
   conversions can be checked against each other.  Executable (vm_compute).
   Field arithmetic (fadd, fsub, fmul, fsqr, fpow, finv) comes from X25519.v. *)
From MLA Require Import Base.
From MLA.Concrete Require Import HexS Sha512 X25519.
Open Scope Z_scope.

(* ---------- curve constants (RFC 8032, 5.1) ---------- *)

(* d = -121665/121666 *)
Definition ed_d : Z := 0x52036cee2b6ffe738cc740797779e89800700a4d4141d8ab75eb4dca135978a3.
Definition ed_2d : Z := Eval vm_compute in fadd ed_d ed_d.
(* sqrt(-1) = 2^((p-1)/4) *)
Definition sqrt_m1 : Z := 0x2b8324804fc1df0b2b4d00993dfbd7a72f431806ad2fe478c4ee1b274a0ea0b0.
(* base point B: y = 4/5, x the even root *)
Definition ed_Bx : Z := 0x216936d3cd6e53fec0a4e231fdd6dc5c692cc7609525a7b2c9562d608f25d51a.
Definition ed_By : Z := 0x6666666666666666666666666666666666666666666666666666666666666658.

(* the constants are what they claim to be *)
Example ed_d_ok : fmul ed_d 121666 = fsub 0 121665.
Proof. vm_compute. reflexivity. Qed.
Example sqrt_m1_ok : fsqr sqrt_m1 = fsub 0 1.
Proof. vm_compute. reflexivity. Qed.
Example ed_By_ok : fmul ed_By 5 = 4 /\ Z.even ed_Bx = true.
Proof. vm_compute. split; reflexivity. Qed.
(* B is on the curve  -x^2 + y^2 = 1 + d x^2 y^2 *)
Example ed_B_on_curve :
  fsub (fsqr ed_By) (fsqr ed_Bx) = fadd 1 (fmul ed_d (fmul (fsqr ed_Bx) (fsqr ed_By))).
Proof. vm_compute. reflexivity. Qed.

(* ---------- group law, extended coordinates (RFC 8032, 5.1.4) ---------- *)

(* (X, Y, Z, T) with x = X/Z, y = Y/Z, x*y = T/Z *)
Definition ed_point : Type := (Z * Z * Z * Z)%type.

Definition ed_zero : ed_point := (0, 1, 1, 0).
Definition ed_B : ed_point := Eval vm_compute in (ed_Bx, ed_By, 1, fmul ed_Bx ed_By).

(* complete addition law (valid for all pairs of points, including doubling) *)
Definition ed_add (P Q : ed_point) : ed_point :=
  let '(X1, Y1, Z1, T1) := P in
  let '(X2, Y2, Z2, T2) := Q in
  let A := fmul (fsub Y1 X1) (fsub Y2 X2) in
  let B := fmul (fadd Y1 X1) (fadd Y2 X2) in
  let C := fmul (fmul T1 ed_2d) T2 in
  let D := fmul (fadd Z1 Z1) Z2 in
  let E := fsub B A in
  let F := fsub D C in
  let G := fadd D C in
  let H := fadd B A in
  (fmul E F, fmul G H, fmul F G, fmul E H).

(* dedicated doubling: 4 squarings + 4 multiplications instead of 9 multiplications *)
Definition ed_double (P : ed_point) : ed_point :=
  let '(X1, Y1, Z1, _) := P in
  let A := fsqr X1 in
  let B := fsqr Y1 in
  let ZZ := fsqr Z1 in
  let C := fadd ZZ ZZ in
  let H := fadd A B in
  let E := fsub H (fsqr (fadd X1 Y1)) in
  let G := fsub A B in
  let F := fadd C G in
  (fmul E F, fmul G H, fmul F G, fmul E H).

(* [s]P by double-and-add from the most significant bit, structural on s *)
Fixpoint ed_mul_pos (s : positive) (P : ed_point) : ed_point :=
  match s with
  | xH => P
  | xO s' => ed_double (ed_mul_pos s' P)
  | xI s' => ed_add (ed_double (ed_mul_pos s' P)) P
  end.
Definition ed_mul (s : N) (P : ed_point) : ed_point :=
  match s with N0 => ed_zero | Npos s' => ed_mul_pos s' P end.

(* affine coordinates *)
Definition ed_affine (P : ed_point) : Z * Z :=
  let '(X, Y, Z, _) := P in
  let zi := finv Z in (fmul X zi, fmul Y zi).

(* ---------- encoding (RFC 8032, 5.1.2 and 5.1.3) ---------- *)

(* y in the low 255 bits, the parity of x in the top bit *)
Definition ed_compress_affine (xy : Z * Z) : bytes :=
  let '(x, y) := xy in
  encode_fe (y + Z.shiftl (if Z.odd x then 1 else 0) 255).
Definition ed_compress (P : ed_point) : bytes := ed_compress_affine (ed_affine P).

(* (p - 5) / 8 = 2^252 - 3 *)
Definition p25519_minus_5_div_8 : positive := Eval vm_compute in Z.to_pos ((p25519 - 5) / 8).

(* x with the given parity such that (x, y) is on the curve, RFC 8032, 5.1.3
   steps 2-4: with u = y^2 - 1 and v = d y^2 + 1, the candidate root of u/v is
   x = u v^3 (u v^7)^((p-5)/8); it is right if v x^2 = u, it is off by a factor
   sqrt(-1) if v x^2 = -u, and otherwise u/v is not a square.
   y must already be reduced.
   strict = true is the RFC: x = 0 with sign bit 1 is rejected.
   strict = false is curve25519-dalek 4.1: the sign bit is then ignored. *)
Definition ed_recover_x (strict : bool) (y : Z) (sign : bool) : option Z :=
  let yy := fsqr y in
  let u := fsub yy 1 in
  let v := fadd (fmul ed_d yy) 1 in
  let v3 := fmul (fsqr v) v in
  let v7 := fmul (fsqr v3) v in
  let x := fmul (fmul u v3) (fpow (fmul u v7) p25519_minus_5_div_8) in
  let vxx := fmul v (fsqr x) in
  let finish (x : Z) : option Z :=
    if (x =? 0) && strict && sign then None
    else Some (if Bool.eqb (Z.odd x) sign then x else fsub 0 x) in
  if vxx =? u then finish x
  else if vxx =? fsub 0 u then finish (fmul x sqrt_m1)
  else None.

(* the 255-bit integer and the sign bit of an encoded point *)
Definition ed_split (b : bytes) : Z * bool :=
  let n := le_val (fit32 b) in
  (Z.of_N (N.land n (N.ones 255)), N.testbit n 255).

(* RFC 8032, 5.1.3: None if y >= p, if x^2 = (y^2-1)/(d y^2+1) has no root, or
   if x = 0 and the sign bit is set.  The result is affine (x, y). *)
Definition ed_decompress (b : bytes) : option (Z * Z) :=
  let '(y, sign) := ed_split b in
  if y <? p25519 then
    match ed_recover_x true y sign with Some x => Some (x, y) | None => None end
  else None.

(* curve25519-dalek 4.1 CompressedEdwardsY::decompress: more tolerant than the
   RFC.  A non-canonical y (p <= y < 2^255) is reduced instead of rejected, and
   x = 0 with the sign bit set is accepted. *)
Definition ed_decompress_dalek (b : bytes) : option (Z * Z) :=
  let '(y, sign) := ed_split b in
  let y := y mod p25519 in
  match ed_recover_x false y sign with Some x => Some (x, y) | None => None end.

(* ---------- Edwards -> Montgomery (RFC 7748, 4.1) ---------- *)

(* u = (1 + y) / (1 - y); the identity (y = 1) goes to u = 0 because finv 0 = 0,
   as in curve25519-dalek EdwardsPoint::to_montgomery *)
Definition ed_y_to_u (y : Z) : Z := fmul (fadd 1 y) (finv (fsub 1 y)).

Definition ed_to_montgomery_u (b : bytes) : option bytes :=
  match ed_decompress b with
  | Some (_, y) => Some (encode_fe (ed_y_to_u y))
  | None => None
  end.

(* the same with dalek's decompression: this is exactly
   CompressedEdwardsY(b).decompress().map(|v| v.to_montgomery().to_bytes()) *)
Definition ed_to_montgomery_u_dalek (b : bytes) : option bytes :=
  match ed_decompress_dalek b with
  | Some (_, y) => Some (encode_fe (ed_y_to_u y))
  | None => None
  end.

(* ---------- keys (RFC 8032, 5.1.5) ---------- *)

(* first half of SHA-512(seed), unclamped: the 32 bytes curve25519-parser
   hands to x25519_dalek::StaticSecret::from (which clamps at each use) *)
Definition ed25519_secret_to_x25519_raw (seed : bytes) : bytes :=
  firstn 32 (sha512 seed).

(* the X25519 private scalar bytes: the same, clamped *)
Definition ed25519_secret_to_x25519 (seed : bytes) : bytes :=
  clamp (ed25519_secret_to_x25519_raw seed).

(* public key: s = clamped first half of SHA-512(seed) as a little-endian
   integer; A = [s]B; the encoding of A *)
Definition ed25519_public (seed : bytes) : bytes :=
  ed_compress (ed_mul (le_val (ed25519_secret_to_x25519 seed)) ed_B).

(* ---------- properties ---------- *)

Lemma length_ed25519_secret_to_x25519 seed :
  length (ed25519_secret_to_x25519 seed) = 32%nat.
Proof.
  unfold ed25519_secret_to_x25519, ed25519_secret_to_x25519_raw.
  rewrite length_clamp, firstn_length, length_sha512. reflexivity.
Qed.

Lemma length_ed25519_public seed : length (ed25519_public seed) = 32%nat.
Proof.
  unfold ed25519_public, ed_compress, ed_compress_affine.
  destruct (ed_affine _) as [x y]. apply length_le_bytes.
Qed.

(* ---------- known-answer tests ---------- *)

(* doubling agrees with the complete addition law, up to projective scaling *)
Example ed_double_is_add :
  ed_affine (ed_double ed_B) = ed_affine (ed_add ed_B ed_B) /\
  ed_affine (ed_double (ed_double ed_B)) = ed_affine (ed_add (ed_add ed_B ed_B) (ed_add ed_B ed_B)).
Proof. vm_compute. split; reflexivity. Qed.

Example ed_mul_small :
  ed_affine (ed_mul 0 ed_B) = (0, 1) /\
  ed_affine (ed_mul 1 ed_B) = (ed_Bx, ed_By) /\
  ed_affine (ed_mul 5 ed_B) = ed_affine (ed_add ed_B (ed_add (ed_add ed_B ed_B) (ed_add ed_B ed_B))).
Proof. vm_compute. repeat split; reflexivity. Qed.

(* the standard encoding of B *)
Example ed_compress_B :
  ed_compress ed_B = hex_bytes "5866666666666666666666666666666666666666666666666666666666666666".
Proof. vm_compute. reflexivity. Qed.
Example ed_decompress_B :
  ed_decompress (hex_bytes "5866666666666666666666666666666666666666666666666666666666666666")
  = Some (ed_Bx, ed_By).
Proof. vm_compute. reflexivity. Qed.
(* sign bit set: -B *)
Example ed_decompress_neg_B :
  ed_decompress (hex_bytes "58666666666666666666666666666666666666666666666666666666666666e6")
  = Some (fsub 0 ed_Bx, ed_By).
Proof. vm_compute. reflexivity. Qed.

(* RFC 8032, 7.1 *)
Definition rfc8032_seed1 : bytes :=
  hex_bytes "9d61b19deffd5a60ba844af492ec2cc44449c5697b326919703bac031cae7f60".
Definition rfc8032_pub1 : bytes :=
  hex_bytes "d75a980182b10ab7d54bfed3c964073a0ee172f3daa62325af021a68f707511a".
Definition rfc8032_seed2 : bytes :=
  hex_bytes "4ccd089b28ff96da9db6c346ec114e0f5b8a319f35aba624da8cf6ed4fb8a6fb".
Definition rfc8032_pub2 : bytes :=
  hex_bytes "3d4017c3e843895a92b70aa74d1b7ebc9c982ccf2ec4968cc0cd55f12af4660c".
Definition rfc8032_seed3 : bytes :=
  hex_bytes "c5aa8df43f9f837bedb7442f31dcb7b166d38535076f094b85ce3a2e0b4458f7".
Definition rfc8032_pub3 : bytes :=
  hex_bytes "fc51cd8e6218a1a38da47ed00230f0580816ed13ba3303ac5deb911548908025".

Example ed25519_public_kat_rfc8032_test1 : ed25519_public rfc8032_seed1 = rfc8032_pub1.
Proof. kat_bytes. Qed.
Example ed25519_public_kat_rfc8032_test2 : ed25519_public rfc8032_seed2 = rfc8032_pub2.
Proof. kat_bytes. Qed.
Example ed25519_public_kat_rfc8032_test3 : ed25519_public rfc8032_seed3 = rfc8032_pub3.
Proof. kat_bytes. Qed.

(* Ed25519 seed -> X25519 private scalar bytes.  Expected values: python
   hashlib + clamp, and the same bytes from sha2::Sha512 in Rust. *)
Example ed25519_secret_to_x25519_kat1 :
  ed25519_secret_to_x25519 rfc8032_seed1
  = hex_bytes "307c83864f2833cb427a2ef1c00a013cfdff2768d980c0a3a520f006904de94f".
Proof. vm_compute. reflexivity. Qed.
Example ed25519_secret_to_x25519_kat2 :
  ed25519_secret_to_x25519 rfc8032_seed2
  = hex_bytes "68bd9ed75882d52815a97585caf4790a7f6c6b3b7f821c5e259a24b02e502e51".
Proof. vm_compute. reflexivity. Qed.

(* Ed25519 public key -> X25519 public key.  Expected values: output of
   curve25519-dalek 4.1.3 (decompress().to_montgomery()) and of
   x25519-dalek 2.0.1 (PublicKey::from(&StaticSecret::from(xsec))); the
   RFC-derived python gives the same bytes. *)
Example ed_to_montgomery_u_kat1 :
  ed_to_montgomery_u rfc8032_pub1
  = Some (hex_bytes "d85e07ec22b0ad881537c2f44d662d1a143cf830c57aca4305d85c7a90f6b62e").
Proof. vm_compute. reflexivity. Qed.
Example ed_to_montgomery_u_kat2 :
  ed_to_montgomery_u rfc8032_pub2
  = Some (hex_bytes "25c704c594b88afc00a76b69d1ed2b984d7e22550f3ed0802d04fbcd07d38d47").
Proof. vm_compute. reflexivity. Qed.
Example x25519_base_of_ed_secret_kat1 :
  x25519_base (ed25519_secret_to_x25519 rfc8032_seed1)
  = hex_bytes "d85e07ec22b0ad881537c2f44d662d1a143cf830c57aca4305d85c7a90f6b62e".
Proof. kat_bytes. Qed.
(* x25519 clamps anyway: the unclamped hash half gives the same public key *)
Example x25519_base_of_ed_secret_raw_kat1 :
  x25519_base (ed25519_secret_to_x25519_raw rfc8032_seed1)
  = hex_bytes "d85e07ec22b0ad881537c2f44d662d1a143cf830c57aca4305d85c7a90f6b62e".
Proof. kat_bytes. Qed.

(* The consistency that matters downstream: converting the Ed25519 public key
   gives the X25519 public key of the converted Ed25519 private key. *)
Definition ed_x_consistent (seed : bytes) : bool :=
  match ed_to_montgomery_u (ed25519_public seed) with
  | Some u => bytes_eqb u (x25519_base (ed25519_secret_to_x25519 seed))
  | None => false
  end.
Lemma ed_x_consistent_eq seed :
  ed_x_consistent seed = true ->
  ed_to_montgomery_u (ed25519_public seed)
  = Some (x25519_base (ed25519_secret_to_x25519 seed)).
Proof.
  unfold ed_x_consistent. destruct (ed_to_montgomery_u _) as [u|]; [|discriminate].
  intros H. apply bytes_eqb_eq in H. now subst.
Qed.

Example ed_x_consistency_kat1 :
  ed_to_montgomery_u (ed25519_public rfc8032_seed1)
  = Some (x25519_base (ed25519_secret_to_x25519 rfc8032_seed1)).
Proof. apply ed_x_consistent_eq. vm_cast_no_check (eq_refl true). Qed.
Example ed_x_consistency_kat2 :
  ed_to_montgomery_u (ed25519_public rfc8032_seed2)
  = Some (x25519_base (ed25519_secret_to_x25519 rfc8032_seed2)).
Proof. apply ed_x_consistent_eq. vm_cast_no_check (eq_refl true). Qed.

(* --- edge cases; expected values from curve25519-dalek 4.1.3 and from the
       RFC 8032 reference python --- *)

(* y = 2 is not the y-coordinate of a point: both decompressions fail *)
Example ed_decompress_invalid :
  ed_to_montgomery_u (2%N :: repeat 0%N 31) = None /\
  ed_to_montgomery_u_dalek (2%N :: repeat 0%N 31) = None.
Proof. vm_compute. split; reflexivity. Qed.

(* y = 3, 4: valid; same answer from both *)
Example ed_to_montgomery_u_small :
  ed_to_montgomery_u (3%N :: repeat 0%N 31)
  = Some (hex_bytes "ebffffffffffffffffffffffffffffffffffffffffffffffffffffffffffff7f") /\
  ed_to_montgomery_u_dalek (3%N :: repeat 0%N 31)
  = Some (hex_bytes "ebffffffffffffffffffffffffffffffffffffffffffffffffffffffffffff7f") /\
  ed_to_montgomery_u (4%N :: repeat 0%N 31)
  = Some (hex_bytes "4755555555555555555555555555555555555555555555555555555555555555").
Proof. vm_compute. repeat split; reflexivity. Qed.

(* y = 0 (a point of order 4) -> u = 1; the identity y = 1 -> u = 0 *)
Example ed_to_montgomery_u_torsion :
  ed_to_montgomery_u (repeat 0%N 32) = Some (1%N :: repeat 0%N 31) /\
  ed_to_montgomery_u (1%N :: repeat 0%N 31) = Some (repeat 0%N 32).
Proof. vm_compute. split; reflexivity. Qed.

(* where the RFC and dalek differ: x = 0 with the sign bit set (y = 1, top bit
   set) and a non-canonical y (p + 3).  The RFC rejects, dalek accepts. *)
Example ed_decompress_rfc_vs_dalek :
  let neg_zero := (1%N :: repeat 0%N 30 ++ [128%N]) in
  let y_p_plus_3 := hex_bytes "f0ffffffffffffffffffffffffffffffffffffffffffffffffffffffffffff7f" in
  ed_to_montgomery_u neg_zero = None /\
  ed_to_montgomery_u_dalek neg_zero = Some (repeat 0%N 32) /\
  ed_to_montgomery_u y_p_plus_3 = None /\
  ed_to_montgomery_u_dalek y_p_plus_3
  = Some (hex_bytes "ebffffffffffffffffffffffffffffffffffffffffffffffffffffffffffff7f").
Proof. vm_compute. repeat split; reflexivity. Qed.
