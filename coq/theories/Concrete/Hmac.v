(* Hmac.v — RFC 2104 HMAC, generic over the hash function and its block size. *)
From MLA Require Import Base.
From MLA.Concrete Require Import HexS Sha256 Sha512.
Open Scope N_scope.

(* K0 of RFC 2104 / FIPS 198-1: keys longer than a block are hashed first,
   then the key is right-padded with zeros to exactly one block. *)
Definition hmac_key_block (H : bytes -> bytes) (blocksize : N) (key : bytes) : bytes :=
  let k := if blocksize <? len key then H key else key in
  k ++ repeat 0 (N.to_nat (blocksize - len k)).

Definition xor_const (c : N) (b : bytes) : bytes := map (fun x => N.lxor x c) b.

(* H ((K0 xor opad) || H ((K0 xor ipad) || msg)) *)
Definition hmac (H : bytes -> bytes) (blocksize : N) (key msg : bytes) : bytes :=
  let k0 := hmac_key_block H blocksize key in
  H (xor_const 0x5c k0 ++ H (xor_const 0x36 k0 ++ msg)).

Definition hmac_sha256 (key msg : bytes) : bytes := hmac sha256 64 key msg.
Definition hmac_sha512 (key msg : bytes) : bytes := hmac sha512 128 key msg.

Lemma length_hmac_sha256 key msg : length (hmac_sha256 key msg) = 32%nat.
Proof. apply length_sha256. Qed.
Lemma length_hmac_sha512 key msg : length (hmac_sha512 key msg) = 64%nat.
Proof. apply length_sha512. Qed.

(* ---------- RFC 4231 test cases ---------- *)

(* Test case 1: key = 20 bytes 0x0b, data = "Hi There" *)
Example hmac_sha256_rfc4231_1 :
  hmac_sha256 (repeat 0x0b 20) (bytes_of_string "Hi There")
  = hex_bytes "b0344c61d8db38535ca8afceaf0bf12b881dc200c9833da726e9376c2e32cff7".
Proof. vm_compute. reflexivity. Qed.

Example hmac_sha512_rfc4231_1 :
  hmac_sha512 (repeat 0x0b 20) (bytes_of_string "Hi There") = hex_bytes
    "87aa7cdea5ef619d4ff0b4241a1d6cb02379f4e2ce4ec2787ad0b30545e17cdedaa833b7d6b8a702038b274eaea3f4e4be9d914eeb61f1702e696c203a126854".
Proof. vm_compute. reflexivity. Qed.

(* Test case 2: key = "Jefe", data = "what do ya want for nothing?" *)
Example hmac_sha256_rfc4231_2 :
  hmac_sha256 (bytes_of_string "Jefe") (bytes_of_string "what do ya want for nothing?")
  = hex_bytes "5bdcc146bf60754e6a042426089575c75a003f089d2739839dec58b964ec3843".
Proof. vm_compute. reflexivity. Qed.

Example hmac_sha512_rfc4231_2 :
  hmac_sha512 (bytes_of_string "Jefe") (bytes_of_string "what do ya want for nothing?") = hex_bytes
    "164b7a7bfcf819e2e395fbe73b56e0a387bd64222e831fd610270cd7ea2505549758bf75c05a994a6d034f65f8f0e6fdcaeab1a34d4a6b4b636e070a38bce737".
Proof. vm_compute. reflexivity. Qed.

(* Test case 6: 131-byte key (longer than either block size: exercises the hashed-key path) *)
Example hmac_sha256_rfc4231_6 :
  hmac_sha256 (repeat 0xaa 131)
    (bytes_of_string "Test Using Larger Than Block-Size Key - Hash Key First")
  = hex_bytes "60e431591ee0b67f0d8a26aacbf5b77f8e0bc6213728c5140546040f0ee37f54".
Proof. vm_compute. reflexivity. Qed.

Example hmac_sha512_rfc4231_6 :
  hmac_sha512 (repeat 0xaa 131)
    (bytes_of_string "Test Using Larger Than Block-Size Key - Hash Key First") = hex_bytes
    "80b24263c7c1a3ebb71493c1dd7be8b49b46d1f41b4aeec1121b013783f8f3526b56d037e05f2598bd0fd2215d6a1e5295e64f73f63f0aec8b915a985d786598".
Proof. vm_compute. reflexivity. Qed.
