(* X25519.v — arithmetic modulo p = 2^255 - 19 over Z and the X25519 function
   of RFC 7748.  Executable (vm_compute).

   Field elements are Z values in [0, p).  Products are reduced with the
   identity 2^255 = 19 (mod p) instead of Z.modulo: under vm_compute a
   Z.modulo of a 510-bit number by p costs about five 255-bit multiplications,
   the folding below costs a small fraction of one.  fred_spec / fmul_spec
   show that the result is exactly the canonical residue. *)
From MLA Require Import Base.
From MLA.Concrete Require Import HexS.
Open Scope Z_scope.

(* ---------- the field GF(2^255 - 19) ---------- *)

Definition p25519 : Z := Eval vm_compute in 2 ^ 255 - 19.
Definition mask255 : Z := Eval vm_compute in 2 ^ 255 - 1.

(* x = 2^255 * hi + lo  is congruent to  lo + 19 * hi *)
Definition ffold (x : Z) : Z := Z.land x mask255 + 19 * Z.shiftr x 255.
(* canonical residue of 0 <= x < 2^512 *)
Definition fred (x : Z) : Z :=
  let y := ffold (ffold x) in if y <? p25519 then y else y - p25519.

Definition fadd (a b : Z) : Z := let s := a + b in if s <? p25519 then s else s - p25519.
Definition fsub (a b : Z) : Z := let d := a - b in if d <? 0 then d + p25519 else d.
Definition fmul (a b : Z) : Z := fred (a * b).
Definition fsqr (a : Z) : Z := fred (Z.square a).

(* x^e by square-and-multiply, structural on the binary exponent *)
Fixpoint fpow (x : Z) (e : positive) : Z :=
  match e with
  | xH => x
  | xO e' => fsqr (fpow x e')
  | xI e' => fmul x (fsqr (fpow x e'))
  end.

(* inversion by Fermat: x^(p-2); finv 0 = 0 *)
Definition p25519_minus_2 : positive := Eval vm_compute in Z.to_pos (p25519 - 2).
Definition finv (x : Z) : Z := fpow x p25519_minus_2.

(* --- the fast reduction is the canonical residue --- *)

Lemma ffold_spec x : 0 <= x -> ffold x = x mod 2 ^ 255 + 19 * (x / 2 ^ 255).
Proof.
  intros _. unfold ffold.
  change mask255 with (Z.ones 255).
  rewrite Z.land_ones by lia. rewrite Z.shiftr_div_pow2 by lia. reflexivity.
Qed.

Lemma fred_spec x : 0 <= x < 2 ^ 512 -> fred x = x mod p25519.
Proof.
  intros Hx. unfold fred.
  assert (H255 : 2 ^ 255 = 57896044618658097711785492504343953926634992332820282019728792003956564819968)
    by reflexivity.
  assert (H512 : 2 ^ 512 = 2 ^ 255 * 2 ^ 257) by reflexivity.
  assert (H257 : 2 ^ 257 = 4 * 2 ^ 255) by reflexivity.
  rewrite (ffold_spec x) by lia.
  pose proof (Z.div_mod x (2 ^ 255) ltac:(lia)) as E1.
  pose proof (Z.mod_pos_bound x (2 ^ 255) ltac:(lia)) as B1.
  assert (Q1 : 0 <= x / 2 ^ 255 < 2 ^ 257).
  { split; [apply Z.div_pos; lia | apply Z.div_lt_upper_bound; lia]. }
  set (q1 := x / 2 ^ 255) in *. set (r1 := x mod 2 ^ 255) in *.
  set (y := r1 + 19 * q1).
  assert (Hy : 0 <= y < 2 ^ 255 * 128) by (unfold y; lia).
  rewrite (ffold_spec y) by lia.
  pose proof (Z.div_mod y (2 ^ 255) ltac:(lia)) as E2.
  pose proof (Z.mod_pos_bound y (2 ^ 255) ltac:(lia)) as B2.
  assert (Q2 : 0 <= y / 2 ^ 255 < 128).
  { split; [apply Z.div_pos; lia | apply Z.div_lt_upper_bound; lia]. }
  set (q2 := y / 2 ^ 255) in *. set (r2 := y mod 2 ^ 255) in *.
  set (z := r2 + 19 * q2).
  assert (Hp : p25519 = 2 ^ 255 - 19) by reflexivity.
  destruct (Z.ltb_spec z p25519) as [Hlt | Hge].
  - apply (Z.mod_unique_pos x p25519 (q1 + q2) z); unfold z, y in *; lia.
  - apply (Z.mod_unique_pos x p25519 (q1 + q2 + 1) (z - p25519)); unfold z, y in *; lia.
Qed.

Lemma fmul_spec a b :
  0 <= a < 2 ^ 256 -> 0 <= b < 2 ^ 256 -> fmul a b = (a * b) mod p25519.
Proof.
  intros Ha Hb. apply fred_spec.
  assert (2 ^ 512 = 2 ^ 256 * 2 ^ 256) as -> by reflexivity. nia.
Qed.

Lemma fsqr_spec a : 0 <= a < 2 ^ 256 -> fsqr a = (a * a) mod p25519.
Proof. intros Ha. unfold fsqr. rewrite Z.square_spec. now apply fmul_spec. Qed.

Lemma fadd_spec a b :
  0 <= a < p25519 -> 0 <= b < p25519 -> fadd a b = (a + b) mod p25519.
Proof.
  intros Ha Hb. unfold fadd. cbv zeta.
  assert (Hp : p25519 = 2 ^ 255 - 19) by reflexivity.
  destruct (Z.ltb_spec (a + b) p25519).
  - symmetry; apply Z.mod_small; lia.
  - apply (Z.mod_unique_pos (a + b) p25519 1); lia.
Qed.

Lemma fsub_spec a b :
  0 <= a < p25519 -> 0 <= b < p25519 -> fsub a b = (a - b) mod p25519.
Proof.
  intros Ha Hb. unfold fsub. cbv zeta.
  assert (Hp : p25519 = 2 ^ 255 - 19) by reflexivity.
  destruct (Z.ltb_spec (a - b) 0).
  - apply (Z.mod_unique_pos (a - b) p25519 (-1)); lia.
  - symmetry; apply Z.mod_small; lia.
Qed.

(* ---------- byte-level encoding ---------- *)

(* exactly 32 bytes: truncate or pad with zeros (identity on 32-byte inputs) *)
Definition fit32 (b : bytes) : bytes := firstn 32 (b ++ repeat 0%N 32).

(* apply f to the element at index n, if there is one *)
Fixpoint upd_nth (n : nat) (f : N -> N) (l : bytes) : bytes :=
  match l, n with
  | [], _ => []
  | x :: r, O => f x :: r
  | x :: r, S n' => x :: upd_nth n' f r
  end.

(* RFC 7748, 5 (decodeScalar25519): k[0] &= 248; k[31] &= 127; k[31] |= 64 *)
Definition clamp (k : bytes) : bytes :=
  upd_nth 31 (fun x => N.lor (N.land x 127) 64) (upd_nth 0 (fun x => N.land x 248) k).

(* RFC 7748, 5 (decodeUCoordinate): the top bit of the last byte is ignored and
   non-canonical values (>= p) are accepted and reduced *)
Definition decode_u (u : bytes) : Z :=
  Z.of_N (le_val (upd_nth 31 (fun x => N.land x 127) (fit32 u))) mod p25519.

Definition decode_scalar (k : bytes) : Z := Z.of_N (le_val (clamp (fit32 k))).

(* a field element as 32 little-endian bytes *)
Definition encode_fe (x : Z) : bytes := le_bytes 32 (Z.to_N x).

(* ---------- the Montgomery ladder (RFC 7748, 5) ---------- *)

Definition a24 : Z := 121665.

(* n steps, for the scalar bits n-1 down to 0; the conditional swaps of the RFC
   are ordinary conditionals here (nothing is secret in a specification). *)
Fixpoint ladder (n : nat) (k x1 x2 z2 x3 z3 : Z) (swap : bool) : Z * Z :=
  match n with
  | O => if swap then (x3, z3) else (x2, z2)
  | S t =>
    let kt := Z.testbit k (Z.of_nat t) in
    let sw := xorb swap kt in
    let '(x2, x3) := if sw then (x3, x2) else (x2, x3) in
    let '(z2, z3) := if sw then (z3, z2) else (z2, z3) in
    let A := fadd x2 z2 in
    let AA := fsqr A in
    let B := fsub x2 z2 in
    let BB := fsqr B in
    let E := fsub AA BB in
    let C := fadd x3 z3 in
    let D := fsub x3 z3 in
    let DA := fmul D A in
    let CB := fmul C B in
    let x3' := fsqr (fadd DA CB) in
    let z3' := fmul x1 (fsqr (fsub DA CB)) in
    let x2' := fmul AA BB in
    let z2' := fmul E (fadd AA (fmul a24 E)) in
    ladder t k x1 x2' z2' x3' z3' kt
  end.

(* scalar and u are 32 bytes each (other lengths are normalised by fit32) *)
Definition x25519 (scalar u : bytes) : bytes :=
  let k := decode_scalar scalar in
  let x1 := decode_u u in
  let '(x2, z2) := ladder 255 k x1 1 0 x1 1 false in
  encode_fe (fmul x2 (finv z2)).

Definition x25519_basepoint : bytes := 9%N :: repeat 0%N 31.
Definition x25519_base (scalar : bytes) : bytes := x25519 scalar x25519_basepoint.

(* ---------- properties ---------- *)

Lemma length_fit32 b : length (fit32 b) = 32%nat.
Proof.
  unfold fit32. rewrite firstn_length, app_length, repeat_length. lia.
Qed.

Lemma fit32_id b : length b = 32%nat -> fit32 b = b.
Proof.
  intros H. unfold fit32. rewrite firstn_app.
  rewrite firstn_all2 by lia.
  replace (32 - length b)%nat with 0%nat by lia.
  cbn [firstn]. apply app_nil_r.
Qed.

Lemma length_upd_nth n f l : length (upd_nth n f l) = length l.
Proof.
  revert n; induction l as [|x r IH]; intros [|n]; cbn [upd_nth length]; auto.
Qed.

Lemma length_clamp k : length (clamp k) = length k.
Proof. unfold clamp. now rewrite !length_upd_nth. Qed.

Lemma length_x25519 s u : length (x25519 s u) = 32%nat.
Proof.
  unfold x25519. destruct (ladder _ _ _ _ _ _ _ _) as [x2 z2].
  unfold encode_fe. apply length_le_bytes.
Qed.

(* ---------- known-answer tests ---------- *)

(* For the expensive tests: state the comparison as a boolean and let the
   kernel run it once at Qed (vm_compute; reflexivity would evaluate the
   left-hand side twice, once in the tactic and once at Qed). *)
Ltac kat_bytes := apply bytes_eqb_eq; vm_cast_no_check (eq_refl true).

Example fred_kat :
  fred (2 ^ 512 - 1) = (2 ^ 512 - 1) mod p25519 /\
  fred (p25519 * p25519) = 0 /\ fred p25519 = 0 /\ fred (p25519 - 1) = p25519 - 1.
Proof. vm_compute. repeat split; reflexivity. Qed.

Example finv_kat : fmul 121666 (finv 121666) = 1 /\ finv 0 = 0 /\ finv 1 = 1.
Proof. vm_compute. repeat split; reflexivity. Qed.

Example clamp_kat :
  clamp (repeat 255%N 32) = (248 :: repeat 255 30 ++ [127])%N /\
  clamp (repeat 0%N 32) = (repeat 0 31 ++ [64])%N.
Proof. vm_compute. split; reflexivity. Qed.

(* RFC 7748, 5.2, first vector *)
Example x25519_kat_rfc7748_5_2_a :
  x25519
    (hex_bytes "a546e36bf0527c9d3b16154b82465edd62144c0ac1fc5a18506a2244ba449ac4")
    (hex_bytes "e6db6867583030db3594c1a424b15f7c726624ec26b3353b10a903a6d0ab1c4c")
  = hex_bytes "c3da55379de9c6908e94ea4df28d084f32eccf03491c71f754b4075577a28552".
Proof. kat_bytes. Qed.

(* RFC 7748, 5.2, second vector: the u-coordinate has its top bit set, which
   must be ignored *)
Example x25519_kat_rfc7748_5_2_b :
  x25519
    (hex_bytes "4b66e9d4d1b4673c5ad22691957d6af5c11b6421e0ea01d42ca4169e7918ba0d")
    (hex_bytes "e5210f12786811d3f4b7959d0538ae2c31dbe7106fc03c3efc4cd549c715a493")
  = hex_bytes "95cbde9476e8907d7aade45cb4b873f88b595a68799fa152e6f8f7647aac7957".
Proof. kat_bytes. Qed.

(* RFC 7748, 5.2, iterated test, result after one iteration (k = u = 9) *)
Example x25519_kat_rfc7748_iter1 :
  x25519 x25519_basepoint x25519_basepoint
  = hex_bytes "422c8e7a6227d7bca1350b3e2bb7279f7897b87bb6854b783c60e80311ae3079".
Proof. kat_bytes. Qed.

(* RFC 7748, 6.1: Diffie-Hellman *)
Definition alice_sk : bytes :=
  hex_bytes "77076d0a7318a57d3c16c17251b26645df4c2f87ebc0992ab177fba51db92c2a".
Definition alice_pk : bytes :=
  hex_bytes "8520f0098930a754748b7ddcb43ef75a0dbf3a0d26381af4eba4a98eaa9b4e6a".
Definition bob_sk : bytes :=
  hex_bytes "5dab087e624a8a4b79e17f8b83800ee66f3bb1292618b6fd1c2f8b27ff88e0eb".
Definition bob_pk : bytes :=
  hex_bytes "de9edb7d7b7dc1b4d35b61c2ece435373f8343c85b78674dadfc7e146f882b4f".
Definition alice_bob_shared : bytes :=
  hex_bytes "4a5d9d5ba4ce2de1728e3bf480350f25e07e21c947d19e3376f09b3c1e161742".

Example x25519_kat_rfc7748_6_1_alice : x25519_base alice_sk = alice_pk.
Proof. kat_bytes. Qed.
Example x25519_kat_rfc7748_6_1_bob : x25519_base bob_sk = bob_pk.
Proof. kat_bytes. Qed.
Example x25519_kat_rfc7748_6_1_shared_a : x25519 alice_sk bob_pk = alice_bob_shared.
Proof. kat_bytes. Qed.
Example x25519_kat_rfc7748_6_1_shared_b : x25519 bob_sk alice_pk = alice_bob_shared.
Proof. kat_bytes. Qed.

(* clamping is applied inside x25519, so a clamped and an unclamped scalar agree *)
Example x25519_clamp_idem : x25519_base (clamp alice_sk) = alice_pk.
Proof. kat_bytes. Qed.
