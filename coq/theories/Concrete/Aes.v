(* Aes.v — AES-256 encryption of one block, FIPS 197.
   Executable specification over [bytes = list N]; only the forward cipher is
   defined (CTR and GCM never use the inverse cipher).
   State layout: the 16-byte block IS the state in column-major order,
   s[r,c] = blk[r + 4c] (FIPS 197 section 3.4), so a "word" or a column is four
   consecutive bytes. *)
From MLA Require Import Base.
From MLA.Concrete Require Import Hex.
Open Scope N_scope.

(* ---------- byte-level helpers ---------- *)

(* pointwise xor, truncated to the shorter argument *)
Fixpoint xor_bytes (a b : bytes) : bytes :=
  match a, b with
  | x :: a', y :: b' => N.lxor x y :: xor_bytes a' b'
  | _, _ => []
  end.

Lemma length_xor_bytes a b : length (xor_bytes a b) = Nat.min (length a) (length b).
Proof.
  revert b; induction a as [|x a IH]; intros [|y b]; cbn [xor_bytes length Nat.min]; auto.
Qed.

(* FIPS 197 figure 7 *)
Definition sbox : list N :=
  [  99; 124; 119; 123; 242; 107; 111; 197;  48;   1; 103;  43; 254; 215; 171; 118;
    202; 130; 201; 125; 250;  89;  71; 240; 173; 212; 162; 175; 156; 164; 114; 192;
    183; 253; 147;  38;  54;  63; 247; 204;  52; 165; 229; 241; 113; 216;  49;  21;
      4; 199;  35; 195;  24; 150;   5; 154;   7;  18; 128; 226; 235;  39; 178; 117;
      9; 131;  44;  26;  27; 110;  90; 160;  82;  59; 214; 179;  41; 227;  47; 132;
     83; 209;   0; 237;  32; 252; 177;  91; 106; 203; 190;  57;  74;  76;  88; 207;
    208; 239; 170; 251;  67;  77;  51; 133;  69; 249;   2; 127;  80;  60; 159; 168;
     81; 163;  64; 143; 146; 157;  56; 245; 188; 182; 218;  33;  16; 255; 243; 210;
    205;  12;  19; 236;  95; 151;  68;  23; 196; 167; 126;  61; 100;  93;  25; 115;
     96; 129;  79; 220;  34;  42; 144; 136;  70; 238; 184;  20; 222;  94;  11; 219;
    224;  50;  58;  10;  73;   6;  36;  92; 194; 211; 172;  98; 145; 149; 228; 121;
    231; 200;  55; 109; 141; 213;  78; 169; 108;  86; 244; 234; 101; 122; 174;   8;
    186; 120;  37;  46;  28; 166; 180; 198; 232; 221; 116;  31;  75; 189; 139; 138;
    112;  62; 181; 102;  72;   3; 246;  14;  97;  53;  87; 185; 134; 193;  29; 158;
    225; 248; 152;  17; 105; 217; 142; 148; 155;  30; 135; 233; 206;  85;  40; 223;
    140; 161; 137;  13; 191; 230;  66; 104;  65; 153;  45;  15; 176;  84; 187;  22 ].

(* The lookup itself is a 256-way match on the numeral, which the kernel compiles
   to a depth-8 decision tree on the bits: about 20 times faster under
   vm_compute than [nth (N.to_nat x) sbox 0].  It is the same table, see
   [sub_byte_table] and [sub_byte_nth] below.  Arguments >= 256 map to 0. *)
Definition sub_byte (x : N) : N :=
  match x with
  | 0 => 99 | 1 => 124 | 2 => 119 | 3 => 123
  | 4 => 242 | 5 => 107 | 6 => 111 | 7 => 197
  | 8 => 48 | 9 => 1 | 10 => 103 | 11 => 43
  | 12 => 254 | 13 => 215 | 14 => 171 | 15 => 118
  | 16 => 202 | 17 => 130 | 18 => 201 | 19 => 125
  | 20 => 250 | 21 => 89 | 22 => 71 | 23 => 240
  | 24 => 173 | 25 => 212 | 26 => 162 | 27 => 175
  | 28 => 156 | 29 => 164 | 30 => 114 | 31 => 192
  | 32 => 183 | 33 => 253 | 34 => 147 | 35 => 38
  | 36 => 54 | 37 => 63 | 38 => 247 | 39 => 204
  | 40 => 52 | 41 => 165 | 42 => 229 | 43 => 241
  | 44 => 113 | 45 => 216 | 46 => 49 | 47 => 21
  | 48 => 4 | 49 => 199 | 50 => 35 | 51 => 195
  | 52 => 24 | 53 => 150 | 54 => 5 | 55 => 154
  | 56 => 7 | 57 => 18 | 58 => 128 | 59 => 226
  | 60 => 235 | 61 => 39 | 62 => 178 | 63 => 117
  | 64 => 9 | 65 => 131 | 66 => 44 | 67 => 26
  | 68 => 27 | 69 => 110 | 70 => 90 | 71 => 160
  | 72 => 82 | 73 => 59 | 74 => 214 | 75 => 179
  | 76 => 41 | 77 => 227 | 78 => 47 | 79 => 132
  | 80 => 83 | 81 => 209 | 82 => 0 | 83 => 237
  | 84 => 32 | 85 => 252 | 86 => 177 | 87 => 91
  | 88 => 106 | 89 => 203 | 90 => 190 | 91 => 57
  | 92 => 74 | 93 => 76 | 94 => 88 | 95 => 207
  | 96 => 208 | 97 => 239 | 98 => 170 | 99 => 251
  | 100 => 67 | 101 => 77 | 102 => 51 | 103 => 133
  | 104 => 69 | 105 => 249 | 106 => 2 | 107 => 127
  | 108 => 80 | 109 => 60 | 110 => 159 | 111 => 168
  | 112 => 81 | 113 => 163 | 114 => 64 | 115 => 143
  | 116 => 146 | 117 => 157 | 118 => 56 | 119 => 245
  | 120 => 188 | 121 => 182 | 122 => 218 | 123 => 33
  | 124 => 16 | 125 => 255 | 126 => 243 | 127 => 210
  | 128 => 205 | 129 => 12 | 130 => 19 | 131 => 236
  | 132 => 95 | 133 => 151 | 134 => 68 | 135 => 23
  | 136 => 196 | 137 => 167 | 138 => 126 | 139 => 61
  | 140 => 100 | 141 => 93 | 142 => 25 | 143 => 115
  | 144 => 96 | 145 => 129 | 146 => 79 | 147 => 220
  | 148 => 34 | 149 => 42 | 150 => 144 | 151 => 136
  | 152 => 70 | 153 => 238 | 154 => 184 | 155 => 20
  | 156 => 222 | 157 => 94 | 158 => 11 | 159 => 219
  | 160 => 224 | 161 => 50 | 162 => 58 | 163 => 10
  | 164 => 73 | 165 => 6 | 166 => 36 | 167 => 92
  | 168 => 194 | 169 => 211 | 170 => 172 | 171 => 98
  | 172 => 145 | 173 => 149 | 174 => 228 | 175 => 121
  | 176 => 231 | 177 => 200 | 178 => 55 | 179 => 109
  | 180 => 141 | 181 => 213 | 182 => 78 | 183 => 169
  | 184 => 108 | 185 => 86 | 186 => 244 | 187 => 234
  | 188 => 101 | 189 => 122 | 190 => 174 | 191 => 8
  | 192 => 186 | 193 => 120 | 194 => 37 | 195 => 46
  | 196 => 28 | 197 => 166 | 198 => 180 | 199 => 198
  | 200 => 232 | 201 => 221 | 202 => 116 | 203 => 31
  | 204 => 75 | 205 => 189 | 206 => 139 | 207 => 138
  | 208 => 112 | 209 => 62 | 210 => 181 | 211 => 102
  | 212 => 72 | 213 => 3 | 214 => 246 | 215 => 14
  | 216 => 97 | 217 => 53 | 218 => 87 | 219 => 185
  | 220 => 134 | 221 => 193 | 222 => 29 | 223 => 158
  | 224 => 225 | 225 => 248 | 226 => 152 | 227 => 17
  | 228 => 105 | 229 => 217 | 230 => 142 | 231 => 148
  | 232 => 155 | 233 => 30 | 234 => 135 | 235 => 233
  | 236 => 206 | 237 => 85 | 238 => 40 | 239 => 223
  | 240 => 140 | 241 => 161 | 242 => 137 | 243 => 13
  | 244 => 191 | 245 => 230 | 246 => 66 | 247 => 104
  | 248 => 65 | 249 => 153 | 250 => 45 | 251 => 15
  | 252 => 176 | 253 => 84 | 254 => 187 | 255 => 22
  | _ => 0
  end.

Example sub_byte_table : map sub_byte (map N.of_nat (seq 0 256)) = sbox.
Proof. vm_compute. reflexivity. Qed.

Lemma sub_byte_nth x : x < 256 -> sub_byte x = nth (N.to_nat x) sbox 0.
Proof.
  intros H. rewrite <- sub_byte_table, map_map.
  rewrite <- (N2Nat.id x) at 1.
  assert (Hn : (N.to_nat x < 256)%nat) by lia.
  revert Hn. generalize (N.to_nat x). clear. intros n Hn.
  pose proof (map_nth (fun i => sub_byte (N.of_nat i)) (seq 0 256) 256%nat n) as E.
  cbv beta in E. rewrite seq_nth in E by exact Hn.
  change (0 + n)%nat with n in E. rewrite <- E.
  apply nth_indep. rewrite map_length, seq_length. exact Hn.
Qed.

(* multiplication by {02} in GF(2^8) modulo x^8+x^4+x^3+x+1 (FIPS 197 4.2.1) *)
Definition xtime (x : N) : N :=
  let y := N.land (N.shiftl x 1) 255 in
  if N.testbit x 7 then N.lxor y 27 else y.

(* ---------- round transformations (FIPS 197 section 5.1) ---------- *)

Definition sub_bytes (s : bytes) : bytes := map sub_byte s.

(* row r rotates left by r: s'[r,c] = s[r,(c+r) mod 4]; not a 16-byte state: unchanged *)
Definition shift_rows (s : bytes) : bytes :=
  match s with
  | [s0; s1; s2; s3; s4; s5; s6; s7; s8; s9; s10; s11; s12; s13; s14; s15] =>
    [s0; s5; s10; s15; s4; s9; s14; s3; s8; s13; s2; s7; s12; s1; s6; s11]
  | _ => s
  end.

Definition mix_column (a0 a1 a2 a3 : N) : bytes :=
  let x := N.lxor in
  [ x (x (xtime a0) (x (xtime a1) a1)) (x a2 a3);      (* 2a0 + 3a1 +  a2 +  a3 *)
    x (x a0 (xtime a1)) (x (x (xtime a2) a2) a3);      (*  a0 + 2a1 + 3a2 +  a3 *)
    x (x a0 a1) (x (xtime a2) (x (xtime a3) a3));      (*  a0 +  a1 + 2a2 + 3a3 *)
    x (x (x (xtime a0) a0) a1) (x a2 (xtime a3)) ].    (* 3a0 +  a1 +  a2 + 2a3 *)

(* column by column; a trailing fragment of fewer than four bytes is dropped *)
Fixpoint mix_columns (s : bytes) : bytes :=
  match s with
  | a0 :: a1 :: a2 :: a3 :: r => mix_column a0 a1 a2 a3 ++ mix_columns r
  | _ => []
  end.

(* ---------- key expansion, Nk = 8 (FIPS 197 section 5.2) ---------- *)

(* The schedule is produced eight words (32 bytes) at a time.  With k0..k7 the
   previous eight words and rc the round constant:
     n0 = k0 + SubWord(RotWord k7) + (rc,0,0,0)     n1..n3: n_i = k_i + n_(i-1)
     n4 = k4 + SubWord n3                           n5..n7: n_i = k_i + n_(i-1)   *)
Definition word (i : nat) (c : bytes) : bytes := firstn 4 (skipn (4 * i) c).
Definition rot_word (w : bytes) : bytes :=
  match w with x :: r => r ++ [x] | [] => [] end.

Definition next_chunk (rc : N) (c : bytes) : bytes :=
  let n0 := xor_bytes (word 0 c)
              (xor_bytes (sub_bytes (rot_word (word 7 c))) [rc; 0; 0; 0]) in
  let n1 := xor_bytes (word 1 c) n0 in
  let n2 := xor_bytes (word 2 c) n1 in
  let n3 := xor_bytes (word 3 c) n2 in
  let n4 := xor_bytes (word 4 c) (sub_bytes n3) in
  let n5 := xor_bytes (word 5 c) n4 in
  let n6 := xor_bytes (word 6 c) n5 in
  let n7 := xor_bytes (word 7 c) n6 in
  n0 ++ n1 ++ n2 ++ n3 ++ n4 ++ n5 ++ n6 ++ n7.

Fixpoint expand_chunks (rcs : list N) (c : bytes) : bytes :=
  match rcs with
  | [] => []
  | rc :: rcs' => let c' := next_chunk rc c in c' ++ expand_chunks rcs' c'
  end.

(* Rcon[1..7] = x^0 .. x^6 *)
Definition rcons : list N := [1; 2; 4; 8; 16; 32; 64].

(* the first n 16-byte pieces of b *)
Fixpoint chunks16 (n : nat) (b : bytes) : list bytes :=
  match n with
  | O => []
  | S n' => firstn 16 b :: chunks16 n' (skipn 16 b)
  end.

(* 15 round keys of 16 bytes: the first 60 of the 64 words key ++ 7 chunks *)
Definition aes256_expand (key : bytes) : list bytes :=
  chunks16 15 (key ++ expand_chunks rcons key).

(* ---------- the cipher (FIPS 197 figure 5) ---------- *)

(* rounds 1..Nr for the round keys that remain; the last one omits MixColumns *)
Fixpoint aes_rounds (rk : list bytes) (s : bytes) : bytes :=
  match rk with
  | [] => s
  | k :: rk' =>
    match rk' with
    | [] => xor_bytes (shift_rows (sub_bytes s)) k
    | _ :: _ => aes_rounds rk' (xor_bytes (mix_columns (shift_rows (sub_bytes s))) k)
    end
  end.

Definition aes_encrypt_rk (rk : list bytes) (blk : bytes) : bytes :=
  match rk with
  | [] => blk
  | k0 :: rk' => aes_rounds rk' (xor_bytes blk k0)
  end.

Definition aes256_encrypt_block (key blk : bytes) : bytes :=
  aes_encrypt_rk (aes256_expand key) blk.

(* ---------- known answers ---------- *)

Example sbox_length : length sbox = 256%nat.
Proof. vm_compute. reflexivity. Qed.

(* FIPS 197 section 5.1.1: SubBytes({53}) = {ed} *)
Example sub_byte_ex : sub_byte 83 = 237.
Proof. vm_compute. reflexivity. Qed.

(* FIPS 197 section 4.2.1: {57} * {02} = {ae}, {ae} * {02} = {47} *)
Example xtime_ex : (xtime 87, xtime 174) = (174, 71).
Proof. vm_compute. reflexivity. Qed.

(* FIPS 197 Appendix A.3: first and last words of the AES-256 schedule,
   w8 = 9ba35411 and w56..w59 = fe4890d1 e6188d0b 046df344 706c631e *)
Example kat_expand_A3 :
  let rk := aes256_expand
    (hex_bytes "603deb1015ca71be2b73aef0857d77811f352c073b6108d72d9810a30914dff4") in
  (length rk, map (@length N) rk, firstn 4 (nth 2 rk []), nth 14 rk [])
  = (15%nat, repeat 16%nat 15, hex_bytes "9ba35411",
     hex_bytes "fe4890d1e6188d0b046df344706c631e").
Proof. vm_compute. reflexivity. Qed.

(* FIPS 197 Appendix C.3 *)
Example kat_fips197_C3 :
  aes256_encrypt_block
    (hex_bytes "000102030405060708090a0b0c0d0e0f101112131415161718191a1b1c1d1e1f")
    (hex_bytes "00112233445566778899aabbccddeeff")
  = hex_bytes "8ea2b7ca516745bfeafc49904b496089".
Proof. vm_compute. reflexivity. Qed.

(* all-zero key and block (this is also the GHASH key of GCM test cases 13, 14) *)
Example kat_zero :
  aes256_encrypt_block (repeat 0 32) (repeat 0 16)
  = hex_bytes "dc95c078a2408989ad48a21492842087".
Proof. vm_compute. reflexivity. Qed.

(* NIST SP 800-38A F.1.5 (ECB-AES256.Encrypt), blocks 1 and 2 *)
Example kat_sp800_38a_F15 :
  let rk := aes256_expand
    (hex_bytes "603deb1015ca71be2b73aef0857d77811f352c073b6108d72d9810a30914dff4") in
  (aes_encrypt_rk rk (hex_bytes "6bc1bee22e409f96e93d7e117393172a"),
   aes_encrypt_rk rk (hex_bytes "ae2d8a571e03ac9c9eb76fac45af8e51"))
  = (hex_bytes "f3eed1bdb5d2a03c064b5a7e3db181f8",
     hex_bytes "591ccb10d410ed26dc5ba74a31362870").
Proof. vm_compute. reflexivity. Qed.
