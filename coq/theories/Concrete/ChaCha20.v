(* ChaCha20.v — the ChaCha20 block function (RFC 8439 layout and the original
   djb layout) and the byte stream produced by the Rust crate rand_chacha 0.9
   (ChaCha20Rng::from_seed followed by one fill_bytes).  Executable.
   32-bit words are N values < 2^32; the state is a 16-tuple of words. *)
From MLA Require Import Base.
From MLA.Concrete Require Import HexS Sha256.   (* Sha256: mask32 / trunc32 *)
Open Scope N_scope.

(* ---------- 32-bit word operations ---------- *)

(* rotate left by n (0 < n < 32) of a word x < 2^32 *)
Definition rotl32 (n x : N) : N :=
  N.lor (trunc32 (N.shiftl x n)) (N.shiftr x (32 - n)).

(* RFC 8439, 2.1: the quarter round on four words *)
Definition quarter_round (v : N * N * N * N) : N * N * N * N :=
  let '(a, b, c, d) := v in
  let a := trunc32 (a + b) in let d := rotl32 16 (N.lxor d a) in
  let c := trunc32 (c + d) in let b := rotl32 12 (N.lxor b c) in
  let a := trunc32 (a + b) in let d := rotl32 8 (N.lxor d a) in
  let c := trunc32 (c + d) in let b := rotl32 7 (N.lxor b c) in
  (a, b, c, d).

Definition words16 : Type :=
  (N * N * N * N * N * N * N * N * N * N * N * N * N * N * N * N)%type.

(* RFC 8439, 2.3: one column round followed by one diagonal round *)
Definition double_round (s : words16) : words16 :=
  let '(x0, x1, x2, x3, x4, x5, x6, x7, x8, x9, x10, x11, x12, x13, x14, x15) := s in
  let '(x0, x4, x8,  x12) := quarter_round (x0, x4, x8,  x12) in
  let '(x1, x5, x9,  x13) := quarter_round (x1, x5, x9,  x13) in
  let '(x2, x6, x10, x14) := quarter_round (x2, x6, x10, x14) in
  let '(x3, x7, x11, x15) := quarter_round (x3, x7, x11, x15) in
  let '(x0, x5, x10, x15) := quarter_round (x0, x5, x10, x15) in
  let '(x1, x6, x11, x12) := quarter_round (x1, x6, x11, x12) in
  let '(x2, x7, x8,  x13) := quarter_round (x2, x7, x8,  x13) in
  let '(x3, x4, x9,  x14) := quarter_round (x3, x4, x9,  x14) in
  (x0, x1, x2, x3, x4, x5, x6, x7, x8, x9, x10, x11, x12, x13, x14, x15).

Fixpoint iter_rounds (n : nat) (s : words16) : words16 :=
  match n with O => s | S k => iter_rounds k (double_round s) end.

(* little-endian 32-bit words of a byte string (a trailing partial word is dropped) *)
Fixpoint le_words32 (b : bytes) : list N :=
  match b with
  | b0 :: b1 :: b2 :: b3 :: r =>
    (b0 + N.shiftl b1 8 + N.shiftl b2 16 + N.shiftl b3 24) :: le_words32 r
  | _ => []
  end.

(* 20 rounds (10 double rounds) on the initial state, feed-forward addition,
   then the 16 words serialised little-endian: 64 bytes.
   The initial state is given as a list; if it does not have exactly 16 words
   (key or nonce of the wrong length) the result is [], so that a misuse shows
   up as a failed comparison instead of a plausible-looking block. *)
Definition chacha20_core (init : list N) : bytes :=
  match init with
  | [i0; i1; i2; i3; i4; i5; i6; i7; i8; i9; i10; i11; i12; i13; i14; i15] =>
    let '(x0, x1, x2, x3, x4, x5, x6, x7, x8, x9, x10, x11, x12, x13, x14, x15) :=
      iter_rounds 10
        (i0, i1, i2, i3, i4, i5, i6, i7, i8, i9, i10, i11, i12, i13, i14, i15) in
    flat_map (fun w => le_bytes 4 (trunc32 w))
      [x0 + i0; x1 + i1; x2 + i2; x3 + i3; x4 + i4; x5 + i5; x6 + i6; x7 + i7;
       x8 + i8; x9 + i9; x10 + i10; x11 + i11; x12 + i12; x13 + i13; x14 + i14;
       x15 + i15]
  | _ => []
  end.

(* "expand 32-byte k" *)
Definition chacha_consts : list N := [0x61707865; 0x3320646e; 0x79622d32; 0x6b206574].

(* RFC 8439, 2.3: key 32 bytes, 32-bit block counter (word 12), nonce 12 bytes
   (words 13-15).  The counter is taken modulo 2^32. *)
Definition chacha20_block (key : bytes) (counter : N) (nonce : bytes) : bytes :=
  if (len key =? 32) && (len nonce =? 12) then
    chacha20_core (chacha_consts ++ le_words32 key ++ [trunc32 counter] ++ le_words32 nonce)
  else [].

(* Original (djb) layout: 64-bit block counter in words 12-13 (low word first),
   64-bit stream id in words 14-15.  Both are taken modulo 2^64. *)
Definition chacha20_djb_block (key : bytes) (counter64 : N) (stream64 : N) : bytes :=
  if len key =? 32 then
    chacha20_core
      (chacha_consts ++ le_words32 key ++
       [trunc32 counter64; trunc32 (N.shiftr counter64 32);
        trunc32 stream64; trunc32 (N.shiftr stream64 32)])
  else [].

(* blocks ctr, ctr+1, ..., ctr+nblocks-1 of the djb keystream, concatenated *)
Fixpoint chacha20_djb_stream (key : bytes) (stream64 ctr : N) (nblocks : nat) : bytes :=
  match nblocks with
  | O => []
  | S k => chacha20_djb_block key ctr stream64 ++ chacha20_djb_stream key stream64 (ctr + 1) k
  end.

(* rand_chacha 0.9: ChaCha20Rng::from_seed(seed) then a single fill_bytes of n
   bytes.  from_seed sets key = seed, block counter = 0, stream id = 0; the
   output is the keystream block 0, block 1, ... (the crate generates four
   blocks per refill, which does not change the byte order).
   Only valid for ONE fill_bytes call on a fresh generator: fill_bytes consumes
   whole 32-bit words, so a second call resumes at the next word boundary, not
   at byte n (checked against the crate: 5 bytes then 10 bytes yields stream
   bytes 0-4 and 8-17). *)
Definition chacha20_rng_bytes (seed : bytes) (n : N) : bytes :=
  takeN n (chacha20_djb_stream seed 0 0 (N.to_nat ((n + 63) / 64))).

(* ---------- properties ---------- *)

Lemma length_chacha20_core_16 l : length l = 16%nat -> length (chacha20_core l) = 64%nat.
Proof.
  intros H.
  do 17 (destruct l as [|? l]; cbn [length] in H; try discriminate H).
  unfold chacha20_core.
  destruct (iter_rounds _ _) as [[[[[[[[[[[[[[[? ?] ?] ?] ?] ?] ?] ?] ?] ?] ?] ?] ?] ?] ?] ?].
  reflexivity.
Qed.

(* ---------- known-answer tests ---------- *)

(* RFC 8439, 2.1.1: quarter round test vector *)
Example quarter_round_kat :
  quarter_round (0x11111111, 0x01020304, 0x9b8d6f43, 0x01234567)
  = (0xea2a92f4, 0xcb1cf8ce, 0x4581472e, 0x5881c4bb).
Proof. vm_compute. reflexivity. Qed.

(* RFC 8439, 2.3.2: key 00..1f, nonce 000000090000004a00000000, counter 1 *)
Example chacha20_block_kat_rfc8439_2_3_2 :
  chacha20_block
    (hex_bytes "000102030405060708090a0b0c0d0e0f101112131415161718191a1b1c1d1e1f")
    1
    (hex_bytes "000000090000004a00000000")
  = hex_bytes
    "10f1e7e4d13b5915500fdd1fa32071c4c7d1f4c733c068030422aa9ac3d46c4ed2826446079faa0914c2d705d98b02a2b5129cd1de164eb9cbd083e8a2503c4e".
Proof. vm_compute. reflexivity. Qed.

(* RFC 8439, A.1 test vectors #1 and #2: all-zero key and nonce, counters 0 and 1
   (also reproduced with `openssl enc -chacha20`) *)
Example chacha20_block_kat_rfc8439_A1_1 :
  chacha20_block (repeat 0 32) 0 (repeat 0 12) = hex_bytes
    "76b8e0ada0f13d90405d6ae55386bd28bdd219b8a08ded1aa836efcc8b770dc7da41597c5157488d7724e03fb8d84a376a43b8f41518a11cc387b669b2ee6586".
Proof. vm_compute. reflexivity. Qed.
Example chacha20_block_kat_rfc8439_A1_2 :
  chacha20_block (repeat 0 32) 1 (repeat 0 12) = hex_bytes
    "9f07e7be5551387a98ba977c732d080dcb0f29a048e3656912c6533e32ee7aed29b721769ce64e43d57133b074d839d531ed1f28510afb45ace10a1f4b794d6f".
Proof. vm_compute. reflexivity. Qed.

(* The two layouts coincide when the high counter word and the nonce are zero. *)
Example chacha20_layouts_agree :
  chacha20_djb_block (repeat 0 32) 1 0 = chacha20_block (repeat 0 32) 1 (repeat 0 12).
Proof. vm_compute. reflexivity. Qed.

(* The high counter word and the stream id do reach words 13-15: the djb block
   with counter 2^32 * 0x09000000 + 1 and stream id 0x4a000000 is the RFC 8439
   2.3.2 block (nonce words 0x09000000, 0x4a000000, 0). *)
Example chacha20_djb_high_words :
  chacha20_djb_block
    (hex_bytes "000102030405060708090a0b0c0d0e0f101112131415161718191a1b1c1d1e1f")
    (N.shiftl 0x09000000 32 + 1) 0x4a000000
  = hex_bytes
    "10f1e7e4d13b5915500fdd1fa32071c4c7d1f4c733c068030422aa9ac3d46c4ed2826446079faa0914c2d705d98b02a2b5129cd1de164eb9cbd083e8a2503c4e".
Proof. vm_compute. reflexivity. Qed.

(* wrong key / nonce length: [] *)
Example chacha20_block_bad_len :
  chacha20_block (repeat 0 31) 0 (repeat 0 12) = [] /\
  chacha20_block (repeat 0 32) 0 (repeat 0 8) = [] /\
  chacha20_djb_block (repeat 0 33) 0 0 = [].
Proof. vm_compute. repeat split; reflexivity. Qed.

(* --- rand_chacha 0.9.0 (rand 0.9.0, rand_core 0.9.3), output of the real crate:
       ChaCha20Rng::from_seed(seed) then one fill_bytes(&mut [0u8; n]).
       Generated by /tmp/agentC/rs (src/main.rs); the same bytes are produced
       by an independent python implementation of the djb layout. --- *)

Definition seed_ramp : bytes :=
  hex_bytes "000102030405060708090a0b0c0d0e0f101112131415161718191a1b1c1d1e1f".

(* seed = 0,1,...,31; n = 32 *)
Example chacha20_rng_kat_ramp_32 :
  chacha20_rng_bytes seed_ramp 32 = hex_bytes
    "39fd2b7dd9c5196a8dbd0377b8dc4a498a35d86fbcde6accb2cc7d4cd8ea2492".
Proof. vm_compute. reflexivity. Qed.

(* seed = 0,1,...,31; n = 80 (one block and a quarter) *)
Example chacha20_rng_kat_ramp_80 :
  chacha20_rng_bytes seed_ramp 80 = hex_bytes
    "39fd2b7dd9c5196a8dbd0377b8dc4a498a35d86fbcde6accb2cc7d4cd8ea24922b23cce7a26023ab3f0eef693ac87f64258235eab1f7a32dc22762a0485b410c18b84231ade6a6d113615c61af434e27".
Proof. vm_compute. reflexivity. Qed.

(* seed = 0,1,...,31; n = 7 (not a multiple of the word size) *)
Example chacha20_rng_kat_ramp_7 :
  chacha20_rng_bytes seed_ramp 7 = hex_bytes "39fd2b7dd9c519".
Proof. vm_compute. reflexivity. Qed.

(* seed = 0,1,...,31; n = 300: crosses the crate's 4-block (256-byte) buffer *)
Example chacha20_rng_kat_ramp_300 :
  chacha20_rng_bytes seed_ramp 300 = hex_bytes
    "39fd2b7dd9c5196a8dbd0377b8dc4a498a35d86fbcde6accb2cc7d4cd8ea24922b23cce7a26023ab3f0eef693ac87f64258235eab1f7a32dc22762a0485b410c18b84231ade6a6d113615c61af434e27f8b1f3f5e1ad5b5cecf8fc122a35755c7208086dd1ee3c5d9d815824640e003c9ba0f65ede5d59ce0d2a4a7f31955acd42f22ddca74a92d56ca78aef298e723b60237f3647eabeb7f3e09c30ce80e3e284a8021b8a5c0b2494cd3c8d5b13507ec7e7a0784df4a3e2ea8162d261c59d23e7ab11c0f73c3b7eb0983950b3e2c4a08f843da95fb7fcb3f13456816b51b7824df2f9bd5613d4b4ed952fd858cd1b984acbf8ff1fd1a7c806d81ca8e4ae3b2cffdba11827588c438f5434eac956be8f95a043ad04cdfd0a97d7fa49d40d099ee22d532ead770040fae35456".
Proof. vm_compute. reflexivity. Qed.

(* seed = 32 zero bytes; n = 80 *)
Example chacha20_rng_kat_zero_80 :
  chacha20_rng_bytes (repeat 0 32) 80 = hex_bytes
    "76b8e0ada0f13d90405d6ae55386bd28bdd219b8a08ded1aa836efcc8b770dc7da41597c5157488d7724e03fb8d84a376a43b8f41518a11cc387b669b2ee65869f07e7be5551387a98ba977c732d080d".
Proof. vm_compute. reflexivity. Qed.

(* seed = 32 bytes 0x07; n = 80 *)
Example chacha20_rng_kat_sevens_80 :
  chacha20_rng_bytes (repeat 7 32) 80 = hex_bytes
    "f400927857aaf64114f561baacb379708c79a1dc1476ab573216a4020764bde545c143dbb9609c22ab855d60925a997603d78a3f20d154abd8ddfa6974eedf6b3784290c606b04fdc0720400c961e366".
Proof. vm_compute. reflexivity. Qed.

(* prefix consistency and lengths *)
Example chacha20_rng_prefix :
  chacha20_rng_bytes seed_ramp 32 = takeN 32 (chacha20_rng_bytes seed_ramp 300)
  /\ len (chacha20_rng_bytes seed_ramp 300) = 300
  /\ chacha20_rng_bytes seed_ramp 0 = [].
Proof. vm_compute. repeat split; reflexivity. Qed.
