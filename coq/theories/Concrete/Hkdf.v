(* Hkdf.v — RFC 5869 HKDF, generic over the HMAC instance (key -> msg -> tag)
   and its output length. *)
From MLA Require Import Base.
From MLA.Concrete Require Import HexS Sha256 Sha512 Hmac.
Open Scope N_scope.

(* 2.2 Extract: PRK = HMAC(salt, IKM); an absent salt is hashlen zero bytes. *)
Definition hkdf_extract (hmacf : bytes -> bytes -> bytes) (hashlen : N)
           (salt : option bytes) (ikm : bytes) : bytes :=
  let s := match salt with Some s => s | None => repeat 0 (N.to_nat hashlen) end in
  hmacf s ikm.

(* T(i) || T(i+1) || ... for n blocks, given T(i-1) in prev:
   T(i) = HMAC(PRK, T(i-1) || info || i) *)
Fixpoint hkdf_blocks (hmacf : bytes -> bytes -> bytes) (prk info prev : bytes)
         (i : N) (n : nat) : bytes :=
  match n with
  | O => []
  | S n' =>
    let t := hmacf prk (prev ++ info ++ [i]) in
    t ++ hkdf_blocks hmacf prk info t (i + 1) n'
  end.

(* 2.3 Expand: the first L bytes of T(1) || ... || T(ceil(L/hashlen)).
   RFC 5869 requires L <= 255*hashlen (the counter is one byte); outside that
   range, or with hashlen = 0, this total function returns []. *)
Definition hkdf_expand (hmacf : bytes -> bytes -> bytes) (hashlen : N)
           (prk info : bytes) (L : N) : bytes :=
  if (hashlen =? 0) || (255 * hashlen <? L) then []
  else
    let n := (L + hashlen - 1) / hashlen in
    takeN L (hkdf_blocks hmacf prk info [] 1 (N.to_nat n)).

Definition hkdf (hmacf : bytes -> bytes -> bytes) (hashlen : N)
           (salt : option bytes) (ikm info : bytes) (L : N) : bytes :=
  hkdf_expand hmacf hashlen (hkdf_extract hmacf hashlen salt ikm) info L.

Definition hkdf_sha256 (salt : option bytes) (ikm info : bytes) (L : N) : bytes :=
  hkdf hmac_sha256 32 salt ikm info L.
Definition hkdf_sha512 (salt : option bytes) (ikm info : bytes) (L : N) : bytes :=
  hkdf hmac_sha512 64 salt ikm info L.

(* ---------- output length ---------- *)

Lemma len_hkdf_blocks hmacf hashlen prk info prev i n :
  (forall k m, len (hmacf k m) = hashlen) ->
  len (hkdf_blocks hmacf prk info prev i n) = N.of_nat n * hashlen.
Proof.
  intros Hh. revert prev i; induction n as [|n IH]; intros prev i; cbn [hkdf_blocks].
  - rewrite len_nil. lia.
  - rewrite len_app, Hh, IH. lia.
Qed.

(* within the RFC's range, expand returns exactly L bytes *)
Lemma len_hkdf_expand hmacf hashlen prk info L :
  (forall k m, len (hmacf k m) = hashlen) ->
  hashlen <> 0 -> L <= 255 * hashlen ->
  len (hkdf_expand hmacf hashlen prk info L) = L.
Proof.
  intros Hh H0 HL. unfold hkdf_expand.
  destruct (hashlen =? 0) eqn:E0; [apply N.eqb_eq in E0; contradiction|].
  destruct (255 * hashlen <? L) eqn:E1; [apply N.ltb_lt in E1; lia|].
  cbn [orb]. rewrite len_takeN, (len_hkdf_blocks _ hashlen) by exact Hh.
  rewrite N2Nat.id.
  pose proof (N.div_mod (L + hashlen - 1) hashlen H0) as Hd.
  pose proof (N.mod_lt (L + hashlen - 1) hashlen H0) as Hm.
  set (q := (L + hashlen - 1) / hashlen) in *.
  set (r := (L + hashlen - 1) mod hashlen) in *.
  assert (L <= q * hashlen) by nia. lia.
Qed.

Lemma len_hkdf_sha256 salt ikm info L : L <= 8160 -> len (hkdf_sha256 salt ikm info L) = L.
Proof.
  intros H. unfold hkdf_sha256, hkdf. apply len_hkdf_expand; [|lia|lia].
  intros k m. unfold len. now rewrite length_hmac_sha256.
Qed.

Lemma len_hkdf_sha512 salt ikm info L : L <= 16320 -> len (hkdf_sha512 salt ikm info L) = L.
Proof.
  intros H. unfold hkdf_sha512, hkdf. apply len_hkdf_expand; [|lia|lia].
  intros k m. unfold len. now rewrite length_hmac_sha512.
Qed.

(* ---------- RFC 5869 test cases (SHA-256) ---------- *)

(* A.1: basic *)
Example hkdf_sha256_rfc5869_1_prk :
  hkdf_extract hmac_sha256 32 (Some (hex_bytes "000102030405060708090a0b0c"))
    (repeat 0x0b 22)
  = hex_bytes "077709362c2e32df0ddc3f0dc47bba6390b6c73bb50f9c3122ec844ad7c2b3e5".
Proof. vm_compute. reflexivity. Qed.

Example hkdf_sha256_rfc5869_1 :
  hkdf_sha256 (Some (hex_bytes "000102030405060708090a0b0c")) (repeat 0x0b 22)
    (hex_bytes "f0f1f2f3f4f5f6f7f8f9") 42
  = hex_bytes
      "3cb25f25faacd57a90434f64d0362f2a2d2d0a90cf1a5a4c5db02d56ecc4c5bf34007208d5b887185865".
Proof. vm_compute. reflexivity. Qed.

(* A.2: longer inputs and outputs (80-byte salt > block size, L = 82 = 3 blocks) *)
Fixpoint range_bytes (n : nat) (i : N) : bytes :=
  match n with O => [] | S n' => i :: range_bytes n' (i + 1) end.

Example hkdf_sha256_rfc5869_2 :
  hkdf_sha256 (Some (range_bytes 80 0x60)) (range_bytes 80 0x00) (range_bytes 80 0xb0) 82
  = hex_bytes
      "b11e398dc80327a1c8e7f78c596a49344f012eda2d4efad8a050cc4c19afa97c59045a99cac7827271cb41c65e590e09da3275600c2f09b8367793a9aca3db71cc30c58179ec3e87c14c01d5c1f3434f1d87".
Proof. vm_compute. reflexivity. Qed.

(* A.3: zero-length salt and info.  The RFC's PRK is the same for an empty salt
   and for an absent one (HMAC zero-pads the key), so both forms are checked. *)
Example hkdf_sha256_rfc5869_3_prk :
  hkdf_extract hmac_sha256 32 (Some []) (repeat 0x0b 22)
  = hex_bytes "19ef24a32c717b167f33a91d6f648bdf96596776afdb6377ac434c1c293ccb04".
Proof. vm_compute. reflexivity. Qed.

Example hkdf_sha256_rfc5869_3 :
  hkdf_sha256 (Some []) (repeat 0x0b 22) [] 42
  = hex_bytes
      "8da4e775a563c18f715f802a063c5a31b8a11f5c5ee1879ec3454e5f3c738d2d9d201395faa4b61a96c8".
Proof. vm_compute. reflexivity. Qed.

Example hkdf_sha256_rfc5869_3_none :
  hkdf_sha256 None (repeat 0x0b 22) [] 42
  = hex_bytes
      "8da4e775a563c18f715f802a063c5a31b8a11f5c5ee1879ec3454e5f3c738d2d9d201395faa4b61a96c8".
Proof. vm_compute. reflexivity. Qed.

(* ---------- SHA-512: vectors computed with python3 hmac/hashlib ---------- *)

(* salt = b"PATH DERIVATION", ikm = bytes(range(32)), info = b"test", L = 32 *)
Example hkdf_sha512_path_derivation_prk :
  hkdf_extract hmac_sha512 64 (Some (bytes_of_string "PATH DERIVATION")) (range_bytes 32 0)
  = hex_bytes
      "49bd0a80cd8e3680c58e37a16438426e96b2f8527d6f03ab3df19993f4241294852794ccd88576eb88e5dd562a54928213d556fb083b2f8e5431c32688ece1a5".
Proof. vm_compute. reflexivity. Qed.

Example hkdf_sha512_path_derivation :
  hkdf_sha512 (Some (bytes_of_string "PATH DERIVATION")) (range_bytes 32 0)
    (bytes_of_string "test") 32
  = hex_bytes "9b4e863d18a28e43fcd6bb15966a629d026cdc6c57119a6e8ce83982c257af67".
Proof. vm_compute. reflexivity. Qed.

(* salt = None, ikm = bytes(range(32)), info = b"test", L = 100 (two blocks, truncated) *)
Example hkdf_sha512_none_100 :
  hkdf_sha512 None (range_bytes 32 0) (bytes_of_string "test") 100
  = hex_bytes
      "686c700e1ce3dd09683f8037d7718cf3f646905d44c6b2cb6debfcf146fcb38af10551c23606fb7af92109bb8e400c2bef60457d3fc507457e0816c71353858cc6592c9247d8a862fb15206c90586202ef2c365033fa0e0d0d8cf2da73accb1b31588aa5".
Proof. vm_compute. reflexivity. Qed.

(* out-of-range requests *)
Example hkdf_expand_too_long : hkdf_expand hmac_sha256 32 [1] [] (255 * 32 + 1) = [].
Proof. vm_compute. reflexivity. Qed.
Example hkdf_expand_zero : hkdf_expand hmac_sha256 32 [1] [] 0 = [].
Proof. vm_compute. reflexivity. Qed.
