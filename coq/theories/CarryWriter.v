(* CarryWriter.v — work package `carry`, part 1: the writer theorems (C09, C01 writer side) restated
   and proved ABOUT THE GENERATED CODE.  `src_wrun` folds the Gallina that tools/src2v2.py translates
   from /repo on every run (gen/Src2.v: start_file, append_file_content, end_file, finalize, add_file,
   flush) over a call list; `src_wrun_sim` composes the per-method simulations of SrcTie2.v with the
   representation invariant RInv as the loop invariant; the C09 / C01 theorems of WriterProofs.v and
   RoundTripRun.v are then carried along it.  A source edit that breaks one of these properties
   changes gen/Src2.v and a proof of SrcTie2.v or of this file stops compiling. *)
From MLA Require Import Limit.
From MLA Require Import Base Stream Blocks Writer WriterProofs SrcTie2 RoundTripBlocks RoundTripWriter RoundTripRun RoundTripGlue.
From MLAGen Require Src2.
From Coq Require Import ZifyBool ZifyNat ZifyN.
Open Scope N_scope.

(* the writer `ArchiveWriter::from_config` builds *)
Definition aw0 : Src2.ArchiveWriter := Src2.mkAW [] (Src2.OpenedFiles [] []) [] [] 0 0.

Section CarryWriter.
  Context {LIM : Limit}.
  Variable FNMAX : N.
  Variables T_START T_CONTENT T_EOA T_EOF : N.
  Variable H : bytes -> bytes.
  Variable order : footer -> footer.

  Notation wstep := (wstep FNMAX T_START T_CONTENT T_EOA T_EOF H order).
  Notation wrun := (wrun FNMAX T_START T_CONTENT T_EOA T_EOF H order).
  Notation w_start := (w_start FNMAX T_START T_CONTENT T_EOA T_EOF).
  Notation w_append := (w_append T_CONTENT).
  Notation w_end := (w_end T_START T_CONTENT T_EOA T_EOF H).
  Notation w_finalize := (w_finalize_with T_START T_CONTENT T_EOA T_EOF order).
  Notation footer_ser := (footer_ser order).

  (* the translated methods; the layers below the block stream accept everything (as in SrcTie2.v) *)
  Notation g_start := (Src2.start_file FNMAX T_START T_CONTENT T_EOA T_EOF).
  Notation g_append := (Src2.append_file_content FNMAX T_START T_CONTENT T_EOA T_EOF).
  Notation g_end := (Src2.end_file FNMAX T_START T_CONTENT T_EOA T_EOF H).
  Notation g_finalize := (Src2.finalize FNMAX T_START T_CONTENT T_EOA T_EOF footer_ser (fun _ => Ok tt)).
  Notation g_add := (Src2.add_file FNMAX T_START T_CONTENT T_EOA T_EOF H).
  Notation g_flush := (Src2.flush (fun _ => Ok tt)).

  (* one call of the TRANSLATED writer; results in the model's vocabulary (Ok () is Ok 0, the
     io UnexpectedEof of `dump` is EShortSource) *)
  Definition src_wstep (s : Src2.ArchiveWriter) (o : wop) : Src2.ArchiveWriter * res N :=
    match o with
    | OStart name => g_start s name
    | OAppend id size src => let '(s', r) := g_append s id size src in (s', resu_short r)
    | OEnd id => let '(s', r) := g_end s id in (s', resu r)
    | OAdd name size src => let '(s', r) := g_add s name size src in (s', resu_short r)
    | OFlush => let '(s', r) := g_flush s in (s', resu r)
    | OFinalize => let '(s', r) := g_finalize s in (s', resu r)
    end.

  Fixpoint src_wrun (s : Src2.ArchiveWriter) (ops : list wop) : Src2.ArchiveWriter * list (res N) :=
    match ops with
    | [] => (s, [])
    | o :: r => let '(s1, x) := src_wstep s o in let '(s2, xs) := src_wrun s1 r in (s2, x :: xs)
    end.

  (* ---------- add_file: the composition of the three simulations ---------- *)
  Lemma add_file_sim s name size src : RInv s ->
    let '(s', r) := g_add s name size src in
    absW s' = fst (wstep (absW s) (OAdd name size src)) /\
    resu_short r = snd (wstep (absW s) (OAdd name size src)) /\ RInv s'.
  Proof.
    intros HR. unfold Src2.add_file. cbn [Writer.wstep].
    pose proof (start_file_sim FNMAX T_START T_CONTENT T_EOA T_EOF H s name HR) as H1.
    destruct (g_start s name) as [s1 r1]. destruct H1 as (A1 & R1 & I1).
    destruct (w_start (absW s) name) as [m1 x1] eqn:E1. cbn [fst snd] in A1, R1. subst x1 m1.
    destruct r1 as [id|e|c]; cbn [Src2.bindS fst snd resu_short].
    2:{ split; [reflexivity|]. split; [|exact I1].
        (* start_file never reports the io error *)
        destruct (w_start_refused FNMAX T_START T_CONTENT T_EOA T_EOF _ _ _ _ E1) as [_ Hp].
        destruct e; try reflexivity; discriminate. }
    2:{ split; [reflexivity|]. split; [reflexivity | exact I1]. }
    pose proof (append_file_content_sim FNMAX T_START T_CONTENT T_EOA T_EOF H s1 id size src I1) as H2.
    destruct (g_append s1 id size src) as [s2 r2]. destruct H2 as (A2 & R2 & I2).
    destruct (w_append (absW s1) id size src) as [m2 x2]. cbn [fst snd] in A2, R2. subst x2 m2.
    destruct r2 as [u|e|c]; cbn [Src2.bindS fst snd resu_short].
    2:{ destruct e; (split; [reflexivity|]; split; [reflexivity | exact I2]). }
    2:{ split; [reflexivity|]. split; [reflexivity | exact I2]. }
    pose proof (end_file_sim FNMAX T_START T_CONTENT T_EOA T_EOF H s2 id I2) as H3.
    destruct (g_end s2 id) as [s3 r3]. destruct H3 as (A3 & R3 & I3).
    split; [exact A3|]. split; [|exact I3]. rewrite <- R3.
    destruct r3 as [u3|e3|c3]; cbn [resu resu_short]; try reflexivity.
    (* end_file never reports the io error either *)
    destruct (w_end (absW s2) id) as [m3 x3] eqn:E3. cbn [snd resu] in R3. subst x3.
    destruct (w_end_refused T_START T_CONTENT T_EOA T_EOF H _ _ _ _ E3) as [_ ->]. reflexivity.
  Qed.

  (* ---------- one call ---------- *)
  Theorem src_wstep_sim s o : RInv s ->
    let '(s', r) := src_wstep s o in
    absW s' = fst (wstep (absW s) o) /\ r = snd (wstep (absW s) o) /\ RInv s'.
  Proof.
    intros HR. destruct o as [name|id size src|id|name size src| |]; cbn [src_wstep Writer.wstep].
    - exact (start_file_sim FNMAX T_START T_CONTENT T_EOA T_EOF H s name HR).
    - pose proof (append_file_content_sim FNMAX T_START T_CONTENT T_EOA T_EOF H s id size src HR) as Hs.
      destruct (g_append s id size src) as [s' r]. exact Hs.
    - pose proof (end_file_sim FNMAX T_START T_CONTENT T_EOA T_EOF H s id HR) as Hs.
      destruct (g_end s id) as [s' r]. exact Hs.
    - pose proof (add_file_sim s name size src HR) as Hs.
      destruct (g_add s name size src) as [s' r]. exact Hs.
    - unfold Src2.flush. cbn [fst snd resu]. split; [reflexivity | split; [reflexivity | exact HR]].
    - pose proof (finalize_sim FNMAX T_START T_CONTENT T_EOA T_EOF order s HR) as Hs.
      destruct (g_finalize s) as [s' r]. exact Hs.
  Qed.

  (* ---------- a whole call list: same results call by call, same final state, same bytes ---------- *)
  Theorem src_wrun_sim ops : forall s, RInv s ->
    let '(s', rs) := src_wrun s ops in
    absW s' = fst (wrun (absW s) ops) /\ rs = snd (wrun (absW s) ops) /\ RInv s' /\
    Src2.dest s' = w_out (fst (wrun (absW s) ops)).
  Proof.
    induction ops as [|o ops IH]; intros s HR; cbn [src_wrun Writer.wrun].
    - cbn [fst snd]. split; [reflexivity | split; [reflexivity | split; [exact HR | reflexivity]]].
    - pose proof (src_wstep_sim s o HR) as H1.
      destruct (src_wstep s o) as [s1 x]. destruct H1 as (A1 & R1 & I1).
      destruct (wstep (absW s) o) as [m1 y]. cbn [fst snd] in A1, R1. subst y m1.
      specialize (IH s1 I1). destruct (src_wrun s1 ops) as [s2 xs].
      destruct (wrun (absW s1) ops) as [m2 ys]. cbn [fst snd] in *.
      destruct IH as (A2 & R2 & I2 & D2). subst ys. split; [exact A2 | split; [reflexivity | split; [exact I2 | exact D2]]].
  Qed.
  Corollary src_wrun_model ops s' rs : src_wrun aw0 ops = (s', rs) ->
    wrun w_init ops = (absW s', rs) /\ RInv s'.
  Proof.
    intros Hr. destruct (RInv_init) as [HI HA]. fold aw0 in HI, HA.
    pose proof (src_wrun_sim ops aw0 HI) as Hs. rewrite Hr, HA in Hs.
    destruct (wrun w_init ops) as [m ys]. cbn [fst snd] in Hs. destruct Hs as (-> & -> & I2 & _). auto.
  Qed.

  (* ---------- absW forgets nothing on states in the invariant ---------- *)
  Lemma absFI_inj f g : absFI f = absFI g -> f = g.
  Proof. destruct f, g. unfold absFI. cbn. now intros [= -> -> ->]. Qed.
  Lemma absIds_inj m1 : forall m2, absIds m1 = absIds m2 -> m1 = m2.
  Proof.
    unfold absIds. induction m1 as [|[k v] r IH]; intros [|[k' v'] r']; cbn [map fst snd]; try discriminate; [reflexivity|].
    intros Heq. remember (absFI v) as a eqn:Ea. remember (absFI v') as a' eqn:Ea'.
    injection Heq as Hk Ha Hr. subst k'. rewrite Ea, Ea' in Ha. apply absFI_inj in Ha. subst v'. now rewrite (IH r' Hr).
  Qed.
  Lemma absW_inj s s' : RInv s -> RInv s' -> absW s = absW s' -> s = s'.
  Proof.
    destruct s as [d st fi ii nx cu], s' as [d' st' fi' ii' nx' cu']. unfold RInv, absW.
    cbn [Src2.dest Src2.state Src2.files_info Src2.ids_info Src2.next_id Src2.current_id].
    intros [H1 _] [H2 _] [= -> Hf Ho -> Hi -> ->]. apply absIds_inj in Hi. subst ii'.
    destruct st as [ids hs|], st' as [ids' hs'|]; try discriminate; [|reflexivity].
    destruct H1 as [-> _], H2 as [-> _]. now subst hs'.
  Qed.

  (* ================= C09 carried ================= *)

  (* a refused call leaves the WHOLE translated writer unchanged: destination bytes, state enum with
     its id vector and hash map, the two info maps, next id, current id.  For every writer in the
     representation invariant (every state reachable from from_config: src_wrun_sim). *)
  Theorem refused_noop_src s o s' e : RInv s ->
    src_wstep s o = (s', Err e) -> pre_write e = true -> s' = s.
  Proof.
    intros HR Hs He. pose proof (src_wstep_sim s o HR) as Hsim. rewrite Hs in Hsim.
    destruct Hsim as (A & Rr & I').
    destruct (wstep (absW s) o) as [m y] eqn:Em. cbn [fst snd] in A, Rr. subst y m.
    apply (absW_inj _ _ I' HR). exact (refused_noop FNMAX T_START T_CONTENT T_EOA T_EOF H order _ _ _ _ Em He).
  Qed.
  (* the form the simulation gives directly *)
  Corollary refused_noop_src_abs s o s' e : RInv s ->
    src_wstep s o = (s', Err e) -> pre_write e = true -> absW s' = absW s /\ Src2.dest s' = Src2.dest s.
  Proof. intros HR Hs He. now rewrite (refused_noop_src s o s' e HR Hs He). Qed.

  (* refused calls can be erased from a call list of the translated writer *)
  Theorem refused_erasable_src ops : forall s, RInv s ->
    let '(s1, rs) := src_wrun s ops in src_wrun s (erase ops rs) = (s1, kept rs).
  Proof.
    induction ops as [|o ops IH]; intros s HR; cbn [src_wrun erase kept]; [reflexivity|].
    pose proof (src_wstep_sim s o HR) as Hsim.
    destruct (src_wstep s o) as [s1 x] eqn:E1. destruct Hsim as (_ & _ & I1).
    specialize (IH s1 I1). destruct (src_wrun s1 ops) as [s2 xs] eqn:E2.
    cbn [erase kept]. destruct (refused x) eqn:Er.
    - destruct x as [v|e|c]; try discriminate. cbn [refused] in Er.
      rewrite (refused_noop_src _ _ _ _ HR E1 Er) in IH. exact IH.
    - cbn [src_wrun]. rewrite E1, IH. reflexivity.
  Qed.

  (* after finalization every call but flush is refused and changes nothing — of EVERY translated
     writer value, in the invariant or not (proved on the generated text itself) *)
  Theorem finalized_refuses_src s o : Src2.state s = Src2.Finalized -> o <> OFlush ->
    src_wstep s o = (s, Err EState).
  Proof.
    intros Hf Ho. destruct o; cbn [src_wstep]; try congruence;
      unfold Src2.add_file, Src2.start_file, Src2.append_file_content, Src2.end_file, Src2.finalize;
      rewrite Hf; reflexivity.
  Qed.

  (* a source ending before the announced size is never reported as success *)
  Theorem short_source_not_ok_src s id size src : RInv s -> len src < size ->
    forall s' v, g_append s id size src <> (s', Ok v).
  Proof.
    intros HR Hl s' v Hg. pose proof (append_file_content_sim FNMAX T_START T_CONTENT T_EOA T_EOF H s id size src HR) as Hs.
    rewrite Hg in Hs. destruct Hs as (_ & Rr & _). cbn [resu_short] in Rr.
    destruct (w_append (absW s) id size src) as [m y] eqn:Em. cbn [snd] in Rr. subst y.
    exact (short_source_not_ok T_CONTENT (fun b => b) _ _ _ _ Hl _ _ Em).
  Qed.
  Theorem short_source_add_not_ok_src s name size src : RInv s -> len src < size ->
    forall s' v, g_add s name size src <> (s', Ok v).
  Proof.
    intros HR Hl s' v Hg. pose proof (add_file_sim s name size src HR) as Hs.
    rewrite Hg in Hs. destruct Hs as (_ & Rr & _). cbn [resu_short] in Rr.
    destruct (wstep (absW s) (OAdd name size src)) as [m y] eqn:Em. cbn [snd] in Rr. subst y.
    exact (short_source_add_not_ok FNMAX T_START T_CONTENT T_EOA T_EOF H order _ _ _ _ Hl _ _ Em).
  Qed.

  (* ================= C01, writer side, carried ================= *)
  Notation ser_blocks := (ser_blocks T_START T_CONTENT T_EOA T_EOF).
  Notation WInv := (WInv FNMAX T_START T_CONTENT T_EOA T_EOF H).
  Hypothesis HHlen : forall x, len (H x) = 32.

  (* all calls of the translated writer returned Ok, then the translated finalize returned Ok: the
     destination holds the serialisation of a block list bl the writer invariant describes (well-formed
     blocks, no EndOfArchiveData inside), the EndOfArchiveData tag and the footer of the files; the names
     of bl are the started names, the content blocks of each id concatenate to the bytes given for it *)
  Theorem writer_final_src ops sf rs :
    src_wrun aw0 (ops ++ [OFinalize]) = (sf, rs) -> Forall (fun r => is_ok r = true) rs ->
    forallb op_utf8 ops = true ->
    Src2.state sf = Src2.Finalized /\
    exists s bl, WInv s bl /\ w_open s = [] /\
      Src2.dest sf = ser_blocks bl ++ [T_EOA] ++ ser_footer (order (w_footer s)) /\
      w_footer (absW sf) = w_footer s /\
      names_of bl = started 0 ops /\ (forall id, concat (datas id bl) = pieces 0 id ops) /\
      (len (Src2.dest sf) < 2 ^ 64 -> Forall (wfb FNMAX) bl /\ ~ In BEnd bl).
  Proof.
    intros Hr Hok Hu. destruct (src_wrun_model _ _ _ Hr) as [Hm HI].
    destruct (writer_final FNMAX T_START T_CONTENT T_EOA T_EOF H order HHlen _ _ _ Hm Hok Hu)
      as (s & bl & HW & Ho & Hout & Hf & Hn & Hd).
    split.
    - (* the last call was finalize and returned Ok *)
      rewrite wrun_app in Hm. destruct (wrun w_init ops) as [s1 r1]. cbn [Writer.wrun Writer.wstep] in Hm.
      destruct (w_finalize (s1)) as [s2 x] eqn:E2. injection Hm as Hs2 Hrs. subst rs.
      apply Forall_app in Hok. destruct Hok as [_ Hok2]. apply Forall_inv in Hok2.
      unfold Writer.w_finalize_with in E2. destruct (w_final s1); [injection E2 as <- <-; discriminate|].
      destruct (w_open s1); [|injection E2 as <- <-; discriminate]. cbv zeta in E2.
      destruct (lim <? _); [injection E2 as <- <-; discriminate|].
      destruct (2 ^ 32 <=? _); [injection E2 as <- <-; discriminate|]. injection E2 as E2 _.
      assert (Hfin : w_final (absW sf) = true) by (rewrite <- Hs2, <- E2; reflexivity).
      unfold absW in Hfin. cbn [w_final] in Hfin. destruct (Src2.state sf); [discriminate | reflexivity].
    - exists s, bl. change (Src2.dest sf) with (w_out (absW sf)).
      split; [exact HW|]. split; [exact Ho|]. split; [exact Hout|]. split; [exact Hf|]. split; [exact Hn|]. split; [exact Hd|].
      intros Hl. rewrite Hout, len_app in Hl.
      apply (blocks_wfb FNMAX T_START T_CONTENT T_EOA T_EOF H _ _ HW). lia.
  Qed.
End CarryWriter.

(* ---------- non-vacuity, through the GENERATED code ---------- *)
Section Example.
  (* concrete: the production value of BINCODE_MAX_DESERIALIZE *)
  Local Hint Extern 0 Limit => exact 536870912 : typeclass_instances.
  Let step := src_wstep 4 0 1 254 255 (fun b => b) (fun f => f).
  Let run := src_wrun 4 0 1 254 255 (fun b => b) (fun f => f).
  (* a duplicate, an over-long name and a short source are refused / reported, and the refused calls
     leave the translated writer as it was; a run ending in finalize is all Ok and finalized *)
  Example carry_writer_nonvacuous :
    (let '(s1, r1) := step aw0 (OStart [97]) in
     let '(s2, r2) := step s1 (OStart [97]) in
     let '(s3, r3) := step s2 (OStart [1;2;3;4;5]) in
     let '(s4, r4) := step s3 (OAppend 0 3 [7; 8]) in
     let '(s5, r5) := step s3 (OEnd 7) in
     r1 = Ok 0 /\ r2 = Err EDup /\ s2 = s1 /\ r3 = Err ENameTooLong /\ s3 = s1 /\ r4 = Err EShortSource /\
     r5 = Err EState /\ s5 = s3) /\
    (let '(sf, rs) := run aw0 [OStart [97]; OAppend 0 2 [7; 8]; OAdd [98] 1 [9]; OFlush; OEnd 0; OFinalize] in
     rs = [Ok 0; Ok 0; Ok 0; Ok 0; Ok 0; Ok 0] /\ Src2.state sf = Src2.Finalized /\ len (Src2.dest sf) = 197 /\
     snd (step sf (OStart [99])) = Err EState).
  Proof.
    split; vm_compute; repeat split; reflexivity.
  Qed.
End Example.
