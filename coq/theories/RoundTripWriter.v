(* RoundTripWriter.v — C01, writer side: what a sequence of successful ArchiveWriter calls
   leaves behind.  Specification functions over the call list (started / pieces), the ghost
   block list, and the invariant WInv tying files_info / ids_info / OpenedFiles / current_id
   to it: the recorded offsets are the starts of the MAXIMAL runs of each file's blocks. *)
From MLA Require Import Limit.
From MLA Require Import Base Stream Blocks Writer RoundTripBlocks.
From Coq Require Import ZifyBool ZifyNat ZifyN.
Open Scope N_scope.

(* ---------- association lists ---------- *)
Section AList.
  Context {LIM : Limit}.
  Context {A : Type}.
  Implicit Types l : list (N * A).

  Lemma alookup_app l l' k :
    alookup (l ++ l') k = match alookup l k with Some v => Some v | None => alookup l' k end.
  Proof.
    induction l as [|[k' v'] l IH]; cbn [app alookup]; [reflexivity|].
    destruct (k' =? k); [reflexivity | exact IH].
  Qed.
  Lemma alookup_aupdate_eq l k f : alookup (aupdate l k f) k = option_map f (alookup l k).
  Proof.
    induction l as [|[k' v'] l IH]; cbn [aupdate alookup]; [reflexivity|].
    destruct (k' =? k) eqn:E; cbn [alookup]; rewrite E; [reflexivity | exact IH].
  Qed.
  Lemma alookup_aupdate_ne l k k' f : k <> k' -> alookup (aupdate l k f) k' = alookup l k'.
  Proof.
    intros Hne. induction l as [|[k0 v0] l IH]; cbn [aupdate alookup]; [reflexivity|].
    destruct (N.eqb_spec k0 k) as [->|E]; cbn [alookup].
    - destruct (N.eqb_spec k k'); [congruence | reflexivity].
    - destruct (k0 =? k'); [reflexivity | exact IH].
  Qed.
  Lemma alookup_aremove_ne l k k' : k <> k' -> alookup (aremove l k) k' = alookup l k'.
  Proof.
    intros Hne. induction l as [|[k0 v0] l IH]; cbn [aremove alookup]; [reflexivity|].
    destruct (N.eqb_spec k0 k) as [->|E]; cbn [alookup].
    - destruct (N.eqb_spec k k'); [congruence | reflexivity].
    - destruct (k0 =? k'); [reflexivity | exact IH].
  Qed.
  Lemma alookup_None l k : alookup l k = None <-> ~ In k (map fst l).
  Proof.
    induction l as [|[k0 v0] l IH]; cbn [alookup map fst In]; [tauto|].
    destruct (N.eqb_spec k0 k) as [->|E].
    - split; [discriminate | intros Hn; exfalso; apply Hn; auto].
    - rewrite IH. tauto.
  Qed.
  Lemma alookup_aremove_eq l k : NoDup (map fst l) -> alookup (aremove l k) k = None.
  Proof.
    induction l as [|[k0 v0] l IH]; cbn [aremove alookup map fst]; [reflexivity|].
    intros Hnd. inversion Hnd as [|? ? Hnin Hnd']; subst.
    destruct (N.eqb_spec k0 k) as [->|E]; cbn [alookup].
    - apply alookup_None. exact Hnin.
    - destruct (N.eqb_spec k0 k); [congruence|]. apply IH. exact Hnd'.
  Qed.
  Lemma aremove_keys_incl l k x : In x (map fst (aremove l k)) -> In x (map fst l).
  Proof.
    induction l as [|[k0 v0] l IH]; cbn [aremove map fst In]; [tauto|].
    destruct (k0 =? k); cbn [map fst In]; [tauto|]. intros [?|?]; [auto | right; apply IH; assumption].
  Qed.
  Lemma aremove_nodup l k : NoDup (map fst l) -> NoDup (map fst (aremove l k)).
  Proof.
    induction l as [|[k0 v0] l IH]; cbn [aremove map fst]; [auto|].
    intros Hnd. inversion Hnd as [|? ? Hnin Hnd']; subst.
    destruct (k0 =? k); [exact Hnd'|]. cbn [map fst]. constructor; [|apply IH; exact Hnd'].
    intros Hin. apply Hnin. apply (aremove_keys_incl l k). exact Hin.
  Qed.
  Lemma aupdate_keys l k f : map fst (aupdate l k f) = map fst l.
  Proof.
    induction l as [|[k0 v0] l IH]; cbn [aupdate map fst]; [reflexivity|].
    destruct (k0 =? k); cbn [map fst]; [reflexivity | now rewrite IH].
  Qed.
End AList.

(* ---------- specification over the call list ---------- *)

(* names started, with the id each one got: ids are given out in call order *)
Fixpoint started (next : N) (ops : list wop) : list (bytes * N) :=
  match ops with
  | [] => []
  | OStart name :: r => (name, next) :: started (next + 1) r
  | OAdd name _ _ :: r => (name, next) :: started (next + 1) r
  | _ :: r => started next r
  end.

(* the bytes given for file [id], in call order *)
Fixpoint pieces (next id : N) (ops : list wop) : bytes :=
  match ops with
  | [] => []
  | OStart _ :: r => pieces (next + 1) id r
  | OAppend i size src :: r => (if i =? id then takeN size src else []) ++ pieces next id r
  | OAdd _ size src :: r => (if next =? id then takeN size src else []) ++ pieces (next + 1) id r
  | _ :: r => pieces next id r
  end.

(* Rust's &str is valid UTF-8 by construction; the model's names are byte strings *)
Definition op_utf8 (o : wop) : bool :=
  match o with OStart n | OAdd n _ _ => utf8_valid n | _ => true end.

Definition names_of (bl : list block) : list (bytes * N) :=
  flat_map (fun x => match x with BStart id n => [(n, id)] | _ => [] end) bl.

Lemma names_of_app l1 l2 : names_of (l1 ++ l2) = names_of l1 ++ names_of l2.
Proof. apply flat_map_app. Qed.

Definition dat (x : block) : list bytes := match x with BContent _ d => [d] | _ => [] end.
Definition datas (id : N) (bl : list block) : list bytes := flat_map dat (proj id bl).

Lemma datas_app id l1 l2 : datas id (l1 ++ l2) = datas id l1 ++ datas id l2.
Proof. unfold datas. rewrite proj_app. apply flat_map_app. Qed.

(* weak block well-formedness kept by the writer (bounds come from the total length) *)
Definition wfb0 (FNMAX : N) (x : block) : Prop :=
  match x with
  | BStart _ name => len name <= FNMAX /\ utf8_valid name = true
  | BContent _ d => 0 < len d
  | BEof _ h => len h = 32
  | BEnd => False
  end.

Lemma NoDup_snoc {A} (l : list A) a : NoDup l -> ~ In a l -> NoDup (l ++ [a]).
Proof.
  induction 1 as [|x l Hx Hl IH]; cbn [app]; intros Ha.
  - constructor; [intros [] | constructor].
  - constructor.
    + rewrite in_app_iff. cbn [In]. intros [?|[?|[]]]; [auto | subst; apply Ha; left; reflexivity].
    + apply IH. intros Hin. apply Ha. right. exact Hin.
Qed.

Lemma name_used_false l n : name_used l n = false -> ~ In n (map fst l).
Proof.
  unfold name_used. induction l as [|e l IH]; cbn [existsb map In]; [tauto|].
  rewrite orb_false_iff. intros [He Hl] [Hin|Hin]; [|exact (IH Hl Hin)].
  rewrite <- Hin, bytes_eqb_refl in He. discriminate.
Qed.

Section RTWriter.
  Context {LIM : Limit}.
  Variable FNMAX : N.
  Variables T_START T_CONTENT T_EOA T_EOF : N.
  Variable H : bytes -> bytes.
  Variable order : footer -> footer.
  Hypothesis HHlen : forall x, len (H x) = 32.

  Notation ser_block := (ser_block T_START T_CONTENT T_EOA T_EOF).
  Notation ser_blocks := (ser_blocks T_START T_CONTENT T_EOA T_EOF).
  Notation run_offs := (run_offs T_START T_CONTENT T_EOA T_EOF).
  Notation wstep := (wstep FNMAX T_START T_CONTENT T_EOA T_EOF H order).
  Notation wrun := (wrun FNMAX T_START T_CONTENT T_EOA T_EOF H order).
  Notation w_start := (w_start FNMAX T_START T_CONTENT T_EOA T_EOF).
  Notation w_append := (w_append T_CONTENT).
  Notation w_end := (w_end T_START T_CONTENT T_EOA T_EOF H).
  Notation w_finalize_with := (w_finalize_with T_START T_CONTENT T_EOA T_EOF).
  Notation wfb0 := (wfb0 FNMAX).

  (* what is recorded for file id, against the ghost block list *)
  Definition FileSt (s : wstate) (bl : list block) (id : N) : Prop :=
    if id <? w_next s then
      exists name fi, alookup (w_ids s) id = Some fi /\
        fi_offsets fi = run_offs id None 0 bl /\ fi_size fi = len (concat (datas id bl)) /\
        match alookup (w_open s) id with
        | Some hashed => hashed = concat (datas id bl) /\
                         proj id bl = BStart id name :: map (BContent id) (datas id bl)
        | None => proj id bl = BStart id name :: map (BContent id) (datas id bl)
                                 ++ [BEof id (H (concat (datas id bl)))] /\
                  exists pre post, bl = pre ++ BEof id (H (concat (datas id bl))) :: post /\
                                   fi_eof fi = len (ser_blocks pre)
        end
    else alookup (w_ids s) id = None /\ alookup (w_open s) id = None /\ proj id bl = [].

  Record WInv (s : wstate) (bl : list block) : Prop := {
    wi_out : w_out s = ser_blocks bl;
    wi_final : w_final s = false;
    wi_cur : bl = [] \/ last_id None bl = Some (w_cur s);
    wi_files : w_files s = names_of bl;
    wi_nodup : NoDup (map fst (w_files s));
    wi_fids : forall name id, In (name, id) (w_files s) -> id < w_next s;
    wi_next : w_next s <= len (w_out s);
    wi_open_nodup : NoDup (map fst (w_open s));
    wi_wf : Forall wfb0 bl;
    wi_file : forall id, FileSt s bl id;
  }.

  Lemma winv_init : WInv w_init [].
  Proof.
    constructor; cbn [w_init w_out w_final w_cur w_files w_next w_open map]; auto; try constructor.
    - intros ? ? [].
    - reflexivity.
    - intros id. unfold FileSt. cbn [w_init w_next w_ids w_open alookup proj filter].
      destruct (N.ltb_spec id 0); [lia | auto].
  Qed.

  Lemma proj_single id x : has_id id x = true -> proj id [x] = [x].
  Proof. intros Hx. cbn [proj filter]. rewrite Hx. reflexivity. Qed.
  Lemma proj_single_no id x : has_id id x = false -> proj id [x] = [].
  Proof. intros Hx. cbn [proj filter]. rewrite Hx. reflexivity. Qed.
  Lemma datas_foreign id bl : proj id bl = [] -> datas id bl = [].
  Proof. unfold datas. intros ->. reflexivity. Qed.

  Lemma FileSt_frame s s' bl x id' :
    has_id id' x = false ->
    alookup (w_ids s') id' = alookup (w_ids s) id' ->
    alookup (w_open s') id' = alookup (w_open s) id' ->
    (id' <? w_next s') = (id' <? w_next s) ->
    FileSt s bl id' -> FileSt s' (bl ++ [x]) id'.
  Proof.
    intros Hx Hi Ho Hn. unfold FileSt. rewrite Hi, Ho, Hn.
    assert (Hp : proj id' (bl ++ [x]) = proj id' bl)
      by (rewrite proj_app, (proj_single_no _ _ Hx); apply app_nil_r).
    assert (Hd : datas id' (bl ++ [x]) = datas id' bl) by (unfold datas; rewrite Hp; reflexivity).
    assert (Hr : run_offs id' None 0 (bl ++ [x]) = run_offs id' None 0 bl).
    { rewrite run_offs_app. cbn [RoundTripBlocks.run_offs]. rewrite Hx. cbn [andb app]. apply app_nil_r. }
    rewrite Hp, Hd, Hr. destruct (id' <? w_next s); [|exact (fun h => h)].
    intros (name & fi & Hfi & Hoff & Hsz & Hrest). exists name, fi.
    split; [exact Hfi|]. split; [exact Hoff|]. split; [exact Hsz|].
    destruct (alookup (w_open s) id'); [exact Hrest|].
    destruct Hrest as (Hpr & pre & post & Hbl & Heof). split; [exact Hpr|].
    exists pre, (post ++ [x]). split; [|exact Heof]. rewrite Hbl at 1. rewrite <- app_assoc. reflexivity.
  Qed.

  (* the file a successful append/end refers to is open: it has been started *)
  Lemma open_known s bl id hashed : WInv s bl -> alookup (w_open s) id = Some hashed ->
    exists name fi, (id <? w_next s) = true /\ alookup (w_ids s) id = Some fi /\
      fi_offsets fi = run_offs id None 0 bl /\ fi_size fi = len (concat (datas id bl)) /\
      hashed = concat (datas id bl) /\ proj id bl = BStart id name :: map (BContent id) (datas id bl) /\
      last_id None bl = Some (w_cur s).
  Proof.
    intros HI Ho. pose proof (wi_file _ _ HI id) as Hf. unfold FileSt in Hf.
    destruct (id <? w_next s).
    - destruct Hf as (name & fi & Hfi & Hoff & Hsz & Hrest). rewrite Ho in Hrest.
      destruct Hrest as [Hh Hp]. exists name, fi. repeat split; auto.
      destruct (wi_cur _ _ HI) as [->|Hc]; [discriminate | exact Hc].
    - destruct Hf as (_ & Hn & _). congruence.
  Qed.

  Lemma ser_blocks_snoc l x : ser_blocks (l ++ [x]) = ser_blocks l ++ ser_block x.
  Proof. rewrite ser_blocks_app, ser_blocks_cons, ser_blocks_nil, app_nil_r. reflexivity. Qed.

  Lemma offs_snoc id cur bl x : last_id None bl = Some cur -> has_id id x = true ->
    run_offs id None 0 (bl ++ [x]) =
    run_offs id None 0 bl ++ (if id =? cur then [] else [len (ser_blocks bl)]).
  Proof.
    intros Hl Hx. rewrite run_offs_app. cbn [RoundTripBlocks.run_offs]. rewrite Hx, Hl. cbn [is_id].
    rewrite (N.eqb_sym cur id). destruct (id =? cur); cbn [andb negb app]; rewrite ?N.add_0_l; reflexivity.
  Qed.

  Lemma mark_cont_spec s id :
    w_out (mark_cont s id) = w_out s /\ w_final (mark_cont s id) = w_final s /\
    w_open (mark_cont s id) = w_open s /\ w_files (mark_cont s id) = w_files s /\
    w_next (mark_cont s id) = w_next s /\ w_cur (mark_cont s id) = id /\
    (forall id', id <> id' -> alookup (w_ids (mark_cont s id)) id' = alookup (w_ids s) id') /\
    alookup (w_ids (mark_cont s id)) id =
      option_map (fun fi => mkFI (fi_offsets fi ++ (if id =? w_cur s then [] else [w_pos s]))
                                 (fi_size fi) (fi_eof fi)) (alookup (w_ids s) id).
  Proof.
    unfold mark_cont. destruct (N.eqb_spec id (w_cur s)) as [E|E];
      cbn [w_out w_final w_open w_files w_next w_cur w_ids].
    - repeat split; auto. destruct (alookup (w_ids s) id) as [[o sz e]|]; cbn [option_map fi_offsets fi_size fi_eof];
        rewrite ?app_nil_r; reflexivity.
    - repeat split; auto.
      + intros id' Hne. apply alookup_aupdate_ne. exact Hne.
      + apply alookup_aupdate_eq.
  Qed.

  Lemma has_id_ne id id' x : block_id x = Some id -> id <> id' -> has_id id' x = false.
  Proof. intros Hx Hne. unfold has_id. rewrite Hx. apply N.eqb_neq. exact Hne. Qed.
  Lemma has_id_eq id x : block_id x = Some id -> has_id id x = true.
  Proof. intros Hx. unfold has_id. rewrite Hx. apply N.eqb_refl. Qed.

  Lemma w_start_inv s bl name s' v :
    WInv s bl -> utf8_valid name = true -> w_start s name = (s', Ok v) ->
    v = w_next s /\ w_next s' = w_next s + 1 /\ WInv s' (bl ++ [BStart (w_next s) name]).
  Proof.
    intros HI Hu. unfold Writer.w_start.
    destruct (w_final s); [discriminate|].
    destruct (N.ltb_spec FNMAX (len name)) as [|Hfn]; [discriminate|].
    destruct (name_used (w_files s) name) eqn:Hused; [discriminate|].
    intros [= <- <-]. split; [reflexivity|]. split; [reflexivity|].
    set (id := w_next s).
    pose proof (wi_file _ _ HI id) as Hfresh. unfold FileSt in Hfresh.
    destruct (N.ltb_spec id (w_next s)) as [Hlt|_]; [unfold id in Hlt; lia|].
    destruct Hfresh as (Hids & Hopen & Hproj).
    assert (Hx : has_id id (BStart id name) = true) by (apply has_id_eq; reflexivity).
    constructor; cbn [emit w_out w_final w_open w_files w_ids w_next w_cur].
    - rewrite ser_blocks_snoc, (wi_out _ _ HI). reflexivity.
    - reflexivity.
    - right. rewrite last_id_app. reflexivity.
    - rewrite names_of_app, (wi_files _ _ HI). reflexivity.
    - rewrite map_app. cbn [map fst]. apply NoDup_snoc; [exact (wi_nodup _ _ HI)|].
      apply name_used_false. exact Hused.
    - intros n i Hin. apply in_app_or in Hin. destruct Hin as [Hin|[Hin|[]]].
      + pose proof (wi_fids _ _ HI n i Hin). lia.
      + injection Hin as _ <-. unfold id. lia.
    - rewrite len_app, len_cons. pose proof (wi_next _ _ HI). unfold id in *. lia.
    - rewrite map_app. cbn [map fst]. apply NoDup_snoc; [exact (wi_open_nodup _ _ HI)|].
      apply alookup_None. exact Hopen.
    - apply Forall_app. split; [exact (wi_wf _ _ HI)|]. constructor; [|constructor]. cbn [RoundTripWriter.wfb0]. auto.
    - intros id'. destruct (N.eq_dec id' id) as [->|Hne].
      + unfold FileSt. cbn [emit w_out w_final w_open w_files w_ids w_next w_cur].
        destruct (N.ltb_spec id (id + 1)); [|lia].
        exists name, (mkFI [w_pos s] 0 0).
        split. { rewrite alookup_app, Hids. cbn [alookup]. rewrite N.eqb_refl. reflexivity. }
        assert (Hd : datas id (bl ++ [BStart id name]) = []).
        { rewrite datas_app, (datas_foreign _ _ Hproj). unfold datas. rewrite (proj_single _ _ Hx). reflexivity. }
        rewrite Hd. cbn [fi_offsets fi_size fi_eof map concat].
        split. { rewrite run_offs_app, (run_offs_foreign _ _ _ _ id _ _ bl Hproj).
                 cbn [RoundTripBlocks.run_offs app]. rewrite Hx, (last_id_foreign id None bl Hproj eq_refl).
                 cbn [andb negb app]. unfold w_pos. rewrite (wi_out _ _ HI), N.add_0_l. reflexivity. }
        split; [reflexivity|].
        rewrite alookup_app, Hopen. cbn [alookup]. rewrite N.eqb_refl. split; [reflexivity|].
        rewrite proj_app, Hproj, (proj_single _ _ Hx). reflexivity.
      + apply (FileSt_frame s _ bl); cbn [emit w_out w_final w_open w_files w_ids w_next w_cur].
        * apply (has_id_ne id); [reflexivity | auto].
        * rewrite alookup_app. destruct (alookup (w_ids s) id'); [reflexivity|]. cbn [alookup].
          destruct (N.eqb_spec id id'); [congruence | reflexivity].
        * rewrite alookup_app. destruct (alookup (w_open s) id'); [reflexivity|]. cbn [alookup].
          destruct (N.eqb_spec id id'); [congruence | reflexivity].
        * destruct (N.ltb_spec id' (id + 1)); destruct (N.ltb_spec id' id); try reflexivity; lia.
        * exact (wi_file _ _ HI id').
  Qed.

  Lemma w_append_inv s bl id size src s' v :
    WInv s bl -> w_append s id size src = (s', Ok v) ->
    (size = 0 /\ s' = s) \/
    (size <> 0 /\ size <= len src /\ w_next s' = w_next s /\
     WInv s' (bl ++ [BContent id (takeN size src)])).
  Proof.
    intros HI. unfold Writer.w_append. rewrite (wi_final _ _ HI).
    destruct (alookup (w_open s) id) as [hashed|] eqn:Hopen; [|discriminate].
    destruct (N.eqb_spec size 0) as [->|Hsz]; [intros [= <- _]; left; auto|].
    destruct (N.ltb_spec (len src) size) as [|Hsrc]; [discriminate|].
    intros [= <- _]. right. split; [exact Hsz|]. split; [exact Hsrc|].
    destruct (open_known _ _ _ _ HI Hopen) as (name & fi & Hlt & Hfi & Hoff & Hfsz & Hh & Hproj & Hlast).
    destruct (mark_cont_spec s id) as (Eout & Efin & Eopen & Efiles & Enext & Ecur & Eidne & Eideq).
    set (s1 := mark_cont s id) in *. set (data := takeN size src).
    assert (Hld : len data = size) by (unfold data; rewrite len_takeN; lia).
    set (x := BContent id data).
    assert (Hx : block_id x = Some id) by reflexivity.
    cbn [w_next]. split; [exact Enext|].
    constructor; cbn [w_out w_final w_open w_files w_ids w_next w_cur].
    - rewrite Eout, ser_blocks_snoc, (wi_out _ _ HI). unfold x. cbn [Blocks.ser_block]. rewrite Hld. reflexivity.
    - reflexivity.
    - right. rewrite last_id_app, Ecur. reflexivity.
    - rewrite Efiles, names_of_app, (wi_files _ _ HI). cbn [names_of flat_map x app]. rewrite app_nil_r. reflexivity.
    - rewrite Efiles. exact (wi_nodup _ _ HI).
    - rewrite Efiles, Enext. exact (wi_fids _ _ HI).
    - rewrite Enext, Eout, len_app. pose proof (wi_next _ _ HI). lia.
    - rewrite aupdate_keys, Eopen. exact (wi_open_nodup _ _ HI).
    - apply Forall_app. split; [exact (wi_wf _ _ HI)|]. constructor; [|constructor].
      cbn [RoundTripWriter.wfb0 x]. lia.
    - intros id'. destruct (N.eq_dec id' id) as [->|Hne].
      + unfold FileSt. cbn [w_out w_final w_open w_files w_ids w_next w_cur]. rewrite Enext, Hlt.
        exists name, (mkFI (fi_offsets fi ++ (if id =? w_cur s then [] else [w_pos s])) (fi_size fi + size) (fi_eof fi)).
        split. { rewrite alookup_aupdate_eq, Eideq, Hfi. reflexivity. }
        assert (Hd : datas id (bl ++ [x]) = datas id bl ++ [data]).
        { rewrite datas_app. unfold datas at 2. rewrite (proj_single _ _ (has_id_eq _ _ Hx)). reflexivity. }
        rewrite Hd. cbn [fi_offsets fi_size fi_eof].
        split. { rewrite (offs_snoc id (w_cur s) bl x Hlast (has_id_eq _ _ Hx)), Hoff. unfold w_pos.
                 rewrite (wi_out _ _ HI). reflexivity. }
        split. { rewrite concat_app, len_app, Hfsz. cbn [concat]. rewrite app_nil_r, Hld. reflexivity. }
        rewrite alookup_aupdate_eq, Eopen, Hopen. cbn [option_map]. split.
        * rewrite concat_app. cbn [concat]. rewrite app_nil_r, Hh. reflexivity.
        * rewrite proj_app, Hproj, (proj_single _ _ (has_id_eq _ _ Hx)), map_app. reflexivity.
      + apply (FileSt_frame s _ bl); cbn [w_out w_final w_open w_files w_ids w_next w_cur].
        * apply (has_id_ne id); [reflexivity | auto].
        * rewrite alookup_aupdate_ne by auto. apply Eidne. auto.
        * rewrite alookup_aupdate_ne by auto. rewrite Eopen. reflexivity.
        * rewrite Enext. reflexivity.
        * exact (wi_file _ _ HI id').
  Qed.

  Lemma w_end_inv s bl id s' v :
    WInv s bl -> w_end s id = (s', Ok v) ->
    w_next s' = w_next s /\ WInv s' (bl ++ [BEof id (H (concat (datas id bl)))]).
  Proof.
    intros HI. unfold Writer.w_end. rewrite (wi_final _ _ HI).
    destruct (alookup (w_open s) id) as [hashed|] eqn:Hopen; [|discriminate].
    intros [= <- _].
    destruct (open_known _ _ _ _ HI Hopen) as (name & fi & Hlt & Hfi & Hoff & Hfsz & Hh & Hproj & Hlast).
    destruct (mark_cont_spec s id) as (Eout & Efin & Eopen & Efiles & Enext & Ecur & Eidne & Eideq).
    set (s1 := mark_cont s id) in *. subst hashed.
    set (x := BEof id (H (concat (datas id bl)))).
    assert (Hx : block_id x = Some id) by reflexivity.
    cbn [emit w_next]. split; [exact Enext|].
    constructor; cbn [emit w_out w_final w_open w_files w_ids w_next w_cur].
    - rewrite Eout, ser_blocks_snoc, (wi_out _ _ HI). reflexivity.
    - reflexivity.
    - right. rewrite last_id_app, Ecur. reflexivity.
    - rewrite Efiles, names_of_app, (wi_files _ _ HI). cbn [names_of flat_map x app]. rewrite app_nil_r. reflexivity.
    - rewrite Efiles. exact (wi_nodup _ _ HI).
    - rewrite Efiles, Enext. exact (wi_fids _ _ HI).
    - rewrite Enext, Eout, len_app. pose proof (wi_next _ _ HI). lia.
    - rewrite Eopen. apply aremove_nodup. exact (wi_open_nodup _ _ HI).
    - apply Forall_app. split; [exact (wi_wf _ _ HI)|]. constructor; [|constructor].
      cbn [RoundTripWriter.wfb0 x]. apply HHlen.
    - intros id'. destruct (N.eq_dec id' id) as [->|Hne].
      + unfold FileSt. cbn [emit w_out w_final w_open w_files w_ids w_next w_cur]. rewrite Enext, Hlt.
        exists name, (mkFI (fi_offsets fi ++ (if id =? w_cur s then [] else [w_pos s])) (fi_size fi) (w_pos s1)).
        split. { rewrite alookup_aupdate_eq, Eideq, Hfi. reflexivity. }
        assert (Hd : datas id (bl ++ [x]) = datas id bl).
        { rewrite datas_app. unfold datas at 2. rewrite (proj_single _ _ (has_id_eq _ _ Hx)). apply app_nil_r. }
        rewrite Hd. cbn [fi_offsets fi_size fi_eof].
        split. { rewrite (offs_snoc id (w_cur s) bl x Hlast (has_id_eq _ _ Hx)), Hoff. unfold w_pos.
                 rewrite (wi_out _ _ HI). reflexivity. }
        split; [exact Hfsz|].
        rewrite Eopen, (alookup_aremove_eq _ _ (wi_open_nodup _ _ HI)). split.
        * rewrite proj_app, Hproj, (proj_single _ _ (has_id_eq _ _ Hx)). reflexivity.
        * exists bl, []. split; [reflexivity|]. unfold w_pos. rewrite Eout, (wi_out _ _ HI). reflexivity.
      + apply (FileSt_frame s _ bl); cbn [emit w_out w_final w_open w_files w_ids w_next w_cur].
        * apply (has_id_ne id); [reflexivity | auto].
        * rewrite alookup_aupdate_ne by auto. apply Eidne. auto.
        * rewrite Eopen. apply alookup_aremove_ne. auto.
        * rewrite Enext. reflexivity.
        * exact (wi_file _ _ HI id').
  Qed.
End RTWriter.
