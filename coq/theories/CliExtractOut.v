(* CliExtractOut.v — `mlar extract` from archive BYTES and the `-o` ARGUMENT (work package fixcli): the commands
   of CliExtract.v behind the prologue of `extract` (PathDir.extract_prologue), in the order of the code:
       open_mla_file            a failing open ends the command BEFORE the output directory is made
       create_dir if missing, canonicalize   (`?`: exit 1, before list_files)
       list_files, sort, then the form chosen by the matcher, with the CANONICAL output directory.
   Definitions (two) and their confinement theorem; the facts about the prologue are in PathDirProofs.v. *)
From MLA Require Import Base Stream Blocks Reader CompLayer EncLayer Format Ecies Archive Path PathDir PathProofs PathLinks PathDirProofs
  Cli Pool PoolProofs CliExtract CliExtractProofs.
Open Scope N_scope.

Section CliExtractOut.
  Variables CHUNK TAG BLOCK LIMIT FNMAX : N.
  Variables TS TC TA TE : N.
  Variable dh : bytes -> bytes -> bytes.
  Variable kdf : bytes -> bytes.
  Variables wdec wtag : bytes -> bytes -> bytes.
  Variable ksf : bytes -> bytes -> N -> N -> N.
  Variable tagf : bytes -> bytes -> N -> bytes -> bytes.
  Variable dec : bytes -> bytes.

  Notation stack_of := (stack_of CHUNK TAG BLOCK ksf tagf dec).
  Notation cli_open := (cli_open CHUNK TAG BLOCK LIMIT dh kdf wdec wtag ksf tagf dec).

  (* whole-archive form, `-o o` *)
  Definition cmd_extract_linear_pool_o (cap : nat) (cut : bytes -> list bytes) (lfuel : nat)
             (a : bytes) (privs : list bytes) (o : path) (f : fs) : fs * bool :=
    match cli_open a privs with
    | Ok (existT _ p r) =>
      behind_prologue (extract_linear_body FNMAX TS TC TA TE (stack_of a p) cap cut lfuel r) o f
    | _ => (f, false)
    end.

  (* selected-files form, `-o o` *)
  Definition cmd_extract_selected_o (sel : bytes -> bool) (zf fuel : nat)
             (a : bytes) (privs : list bytes) (o : path) (f : fs) : fs * bool :=
    match cli_open a privs with
    | Ok (existT _ p r) =>
      behind_prologue (extract_listed_loop FNMAX TS TC TA TE (stack_of a p) zf fuel r
                         (filter sel (sort_names (list_files (stack_of a p) r)))) o f
    | _ => (f, false)
    end.

  (* with an output directory that is already a real directory, these are the commands of CliExtract.v *)
  Lemma cmd_extract_o_existing cap cut lfuel sel zf fuel a privs o f :
    sys_ok o = true -> real_dir f o ->
    cmd_extract_linear_pool_o cap cut lfuel a privs o f =
      cmd_extract_linear_pool CHUNK TAG BLOCK LIMIT FNMAX TS TC TA TE dh kdf wdec wtag ksf tagf dec cap cut lfuel a privs o f /\
    cmd_extract_selected_o sel zf fuel a privs o f =
      cmd_extract_selected CHUNK TAG BLOCK LIMIT FNMAX TS TC TA TE dh kdf wdec wtag ksf tagf dec sel zf fuel a privs o f.
  Proof.
    intros Hs Hr. unfold cmd_extract_linear_pool_o, cmd_extract_selected_o, cmd_extract_linear_pool, cmd_extract_selected, behind_prologue.
    rewrite (prologue_existing_dir f o Hs Hr). destruct (cli_open a privs) as [[p r]|e|c]; split; reflexivity.
  Qed.

  (* ANY bytes, keys, file system with links, ANY `-o` argument (missing, a file, a link, a dangling link, below
     a missing parent): with `out` the canonical directory the prologue arrives at (if it arrives anywhere),
     no regular file outside `out` is created, truncated, appended to or removed, no link changes; the
     prologue itself adds at most one directory.  A failing open touches nothing at all. *)
  Theorem extract_o_confined cap cut lfuel sel zf fuel a privs o f out :
    (forall d, concat (cut d) = d) ->
    (snd (extract_prologue f o) = Some out \/ snd (extract_prologue f o) = None) ->
    evolves out f (fst (cmd_extract_linear_pool_o cap cut lfuel a privs o f)) /\
    evolves out f (fst (cmd_extract_selected_o sel zf fuel a privs o f)).
  Proof.
    intros Hcut Hout. unfold cmd_extract_linear_pool_o, cmd_extract_selected_o.
    destruct (cli_open a privs) as [[p r]|e|c]; cbn [fst]; try (split; apply evolves_refl). split.
    - apply behind_prologue_evolves; [|exact Hout]. intros q g. apply extract_linear_body_confined. exact Hcut.
    - apply behind_prologue_evolves; [|exact Hout]. intros q g. apply extract_listed_loop_confined.
  Qed.

  Theorem extract_o_failed_open_untouched cap cut lfuel sel zf fuel a privs o f :
    (forall x, cli_open a privs <> Ok x) ->
    cmd_extract_linear_pool_o cap cut lfuel a privs o f = (f, false) /\
    cmd_extract_selected_o sel zf fuel a privs o f = (f, false).
  Proof.
    intros Hf. unfold cmd_extract_linear_pool_o, cmd_extract_selected_o.
    destruct (cli_open a privs) as [x|e|c]; [exfalso; exact (Hf x eq_refl)| |]; split; reflexivity.
  Qed.
End CliExtractOut.
