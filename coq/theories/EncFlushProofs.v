(* EncFlushProofs.v — C14, encryption layer: what the fail-safe reader gets from the bytes a
   NON-finalized writer has handed down (the state at which flush(), which only forwards,
   returns).
     unauthenticated mode: exactly the plaintext absorbed so far
     authenticated mode:   exactly the plaintext of the chunks whose tag is already there —
                           plus chunk 0, which the constructor loads without verification
                           (finding D2, kept) — and, should the last bytes of an unfinished
                           chunk happen to be the tag of the bytes before them, those bytes
                           (they are genuine plaintext; with a real MAC this does not happen)
   Neither mode crashes. *)
From MLA Require Import Base Stream EncLayer EncWriter EncWriterProofs.
From Coq Require Import ZifyBool ZifyNat ZifyN.
Open Scope N_scope.

(* ---------- slices ---------- *)
Lemma sliceN_takeN_in {A} a n m (l : list A) : a + n <= m -> sliceN a n (takeN m l) = sliceN a n l.
Proof.
  intros H. unfold sliceN. rewrite !takeN_dropN_comm, takeN_takeN. do 2 f_equal. lia.
Qed.
Lemma sliceN_app_dropN {A} q k (l : list A) : sliceN q k l ++ dropN (q + k) l = dropN q l.
Proof. unfold sliceN. rewrite <- dropN_dropN. apply takeN_dropN. Qed.
Lemma sliceN_takeN_tail {A} a e n (l : list A) : e <= n -> sliceN a n (takeN (a + e) l) = takeN e (dropN a l).
Proof.
  intros H. unfold sliceN. rewrite (takeN_dropN_comm e a l), takeN_dropN_comm, takeN_takeN.
  do 2 f_equal. lia.
Qed.

Section Flush.
  Variables CHUNK TAG : N.
  Hypothesis HCHUNK : 0 < CHUNK.
  Hypothesis HTAG : 0 < TAG.
  Variable ks : N -> N -> N.
  Variable tagc : N -> bytes -> bytes.
  Hypothesis Htagc : forall i c, len (tagc i c) = TAG.

  Notation CTS := (CTS CHUNK TAG).
  Notation xor_from := (xor_from ks).
  Notation chunk_enc := (chunk_enc ks tagc).
  Notation wire_open := (wire_open CHUNK ks tagc).

  Lemma CTS_is : CTS = CHUNK + TAG. Proof. reflexivity. Qed.

  Lemma xor_invol i off d : xor_from i off (xor_from i off d) = d.
  Proof.
    revert off; induction d as [|x d IH]; intros off; cbn [EncLayer.xor_from]; [reflexivity|].
    rewrite IH. f_equal. rewrite N.lxor_assoc, N.lxor_nilpotent, N.lxor_0_r. reflexivity.
  Qed.
  Lemma xor_takeN j : forall i off d, takeN j (xor_from i off d) = xor_from i off (takeN j d).
  Proof.
    unfold takeN. induction (N.to_nat j) as [|m IH]; intros i off d; [reflexivity|].
    destruct d as [|x d]; cbn [EncLayer.xor_from firstn]; [reflexivity|]. rewrite IH. reflexivity.
  Qed.
  Lemma len_chunk i pt : len (chunk_enc i pt) = len pt + TAG.
  Proof. unfold EncLayer.chunk_enc. rewrite len_app, Htagc, (len_xor ks). reflexivity. Qed.

  (* ---------- the structure of the open wire form ---------- *)

  Lemma len_wire_open n : forall i p, N.of_nat n * CHUNK <= len p ->
    len (wire_open n i p) = len p + TAG * N.of_nat n.
  Proof.
    induction n as [|n IH]; intros i p H; cbn [EncWriter.wire_open].
    - rewrite (len_xor ks). lia.
    - rewrite len_app, len_chunk, len_takeN, IH by (rewrite len_dropN; lia). rewrite len_dropN. lia.
  Qed.

  Lemma dropN_wire_open j : forall n i p, (j <= n)%nat -> N.of_nat n * CHUNK <= len p ->
    dropN (N.of_nat j * CTS) (wire_open n i p) =
    wire_open (n - j) (i + N.of_nat j) (dropN (N.of_nat j * CHUNK) p).
  Proof.
    induction j as [|j IH]; intros n i p Hj Hn.
    - cbn [N.of_nat]. rewrite !N.mul_0_l, !dropN_0, N.add_0_r, Nat.sub_0_r. reflexivity.
    - destruct n as [|n]; [lia|]. cbn [EncWriter.wire_open Nat.sub].
      rewrite dropN_app_ge by (rewrite len_chunk, len_takeN, CTS_is; lia).
      rewrite len_chunk, len_takeN.
      replace (N.of_nat (S j) * CTS - (N.min CHUNK (len p) + TAG)) with (N.of_nat j * CTS)
        by (rewrite CTS_is; lia).
      rewrite IH by (try rewrite len_dropN; lia).
      rewrite dropN_dropN. f_equal; [lia | f_equal; lia].
  Qed.

  (* ---------- reading: generic part ---------- *)
  Variable w : bytes.
  Notation SW := (Cursor w).

  Lemma cur_read_full fuel pos n : pos <= len w -> (N.to_nat (N.min n (len w - pos)) < fuel)%nat ->
    read_full SW fuel pos n = (pos + N.min n (len w - pos), Ok (sliceN pos n w)).
  Proof.
    intros Hp Hf.
    destruct (read_full_spec SW w _ (cursor_refines w) fuel pos pos n (conj eq_refl Hp) Hf)
      as (s' & Heq & [Hs' _]).
    rewrite Heq, Hs'. reflexivity.
  Qed.

  Lemma eload_unauth_eval (s1 : estate SW) k pos : e_chunk s1 = k -> e_in s1 = pos -> pos <= len w ->
    eload_unauth CHUNK TAG ks SW s1 =
      let dt := sliceN pos CHUNK w in
      if len dt =? 0 then (@mkE SW (pos + len dt) [] 0 k, Ok false)
      else (@mkE SW (N.min (pos + len dt + TAG) (len w)) (xor_from k 0 dt) 0 k, Ok true).
  Proof.
    intros Hk Hi Hp. unfold EncLayer.eload_unauth. rewrite Hk, Hi.
    rewrite cur_read_full by (try exact Hp; unfold rd_fuel; fold CTS; rewrite CTS_is; lia).
    rewrite <- (len_sliceN pos CHUNK w). cbv zeta.
    destruct (len (sliceN pos CHUNK w) =? 0); [reflexivity|].
    assert (Hp1 : pos + len (sliceN pos CHUNK w) <= len w) by (rewrite len_sliceN; lia).
    rewrite cur_read_full by (try exact Hp1; unfold rd_fuel; fold CTS; rewrite CTS_is; lia).
    do 2 f_equal. lia.
  Qed.

  Lemma eload_eval (s1 : estate SW) k pos : e_chunk s1 = k -> e_in s1 = pos -> pos <= len w ->
    eload CHUNK TAG ks tagc SW s1 =
      let dt := sliceN pos CTS w in
      let i' := pos + len dt in
      if len dt =? 0 then (@mkE SW i' [] 0 k, Ok false)
      else if len dt <? TAG then (@mkE SW i' [] 0 k, Err EWrongTag)
      else
        let ct := takeN (len dt - TAG) dt in
        let tg := dropN (len dt - TAG) dt in
        if bytes_eqb (tagc k ct) tg then (@mkE SW i' (xor_from k 0 ct) 0 k, Ok true)
        else (@mkE SW i' [] 0 k, Err EWrongTag).
  Proof.
    intros Hk Hi Hp. unfold EncLayer.eload. rewrite Hk, Hi. fold CTS.
    rewrite cur_read_full by (try exact Hp; unfold rd_fuel; fold CTS; lia).
    rewrite <- (len_sliceN pos CTS w). reflexivity.
  Qed.

  (* the plaintext P the reader will deliver; chunk loader `load`; whether a wrong tag can
     occur (authenticated mode) *)
  Variable P : bytes.
  Hypothesis HbigP : len P / CHUNK < 2 ^ 32.

  Definition Rfs (s : estate SW) (q : N) : Prop :=
    q <= len P /\ q = e_chunk s * CHUNK + e_cpos s /\
    e_cache s = sliceN (e_chunk s * CHUNK) CHUNK P /\ e_cpos s <= len (e_cache s) /\
    e_in s = N.min ((e_chunk s + 1) * CTS) (len w).

  Definition LoadSpec (load : estate SW -> estate SW * res bool) (tolerant : bool) : Prop :=
    forall (s1 : estate SW) k, e_chunk s1 = k -> 1 <= k -> k * CHUNK <= len P ->
      e_in s1 = N.min (k * CTS) (len w) ->
      exists s2 r, load s1 = (s2, r) /\
        (r = Ok true \/ ((r = Ok false \/ (tolerant = true /\ r = Err EWrongTag)) /\ k * CHUNK = len P)) /\
        e_chunk s2 = k /\ e_cpos s2 = 0 /\ e_cache s2 = sliceN (k * CHUNK) CHUNK P /\
        e_in s2 = N.min ((k + 1) * CTS) (len w).

  Lemma fs_cache_spec (s : estate SW) q avail n : Rfs s q -> avail = CHUNK - e_cpos s -> 0 < avail ->
    exists s' kk, eread_cache SW s avail n = (s', Ok (sliceN q kk P)) /\ kk <= n /\
      q + kk <= len P /\ (kk = 0 -> n = 0 \/ q = len P) /\ Rfs s' (q + kk).
  Proof.
    intros (Hp & Hpos & Hcache & Hcp & HR) Hav Havpos.
    assert (Hlc : len (e_cache s) = N.min CHUNK (len P - e_chunk s * CHUNK)) by (rewrite Hcache; apply len_sliceN).
    unfold EncLayer.eread_cache.
    replace (N.min (e_cpos s) (len (e_cache s))) with (e_cpos s) by lia.
    set (size := N.min avail n).
    set (d := sliceN (e_cpos s) size (e_cache s)).
    assert (Hd : d = sliceN q (len d) P).
    { unfold d at 1. rewrite Hcache at 1. rewrite sliceN_sliceN by lia.
      replace (e_chunk s * CHUNK + e_cpos s) with q by lia.
      replace (N.min size (CHUNK - e_cpos s)) with size by (unfold size; lia).
      rewrite sliceN_clip. f_equal. unfold d. rewrite len_sliceN, Hlc. lia. }
    assert (Hld : len d = N.min size (len (e_cache s) - e_cpos s)) by (unfold d; apply len_sliceN).
    eexists _, (len d). rewrite <- Hd. split; [reflexivity|].
    split; [unfold size in Hld; lia|].
    split; [lia|]. split.
    - intros Hz. unfold size in Hld. lia.
    - unfold Rfs. cbn [e_chunk e_cpos e_cache e_in]. repeat split; try assumption; lia.
  Qed.

  Lemma fs_gen_spec load tolerant (s : estate SW) q n : LoadSpec load tolerant -> Rfs s q ->
    exists s' kk, kk <= n /\ q + kk <= len P /\ (kk = 0 -> n = 0 \/ q = len P) /\ Rfs s' (q + kk) /\
      (eread_gen CHUNK SW load s n = (s', Ok (sliceN q kk P)) \/
       (tolerant = true /\ kk = 0 /\ eread_gen CHUNK SW load s n = (s', Err EWrongTag))).
  Proof.
    intros Hload HRs. pose proof HRs as (Hp & Hpos & Hcache & Hcp & HR).
    assert (Hlc : len (e_cache s) = N.min CHUNK (len P - e_chunk s * CHUNK)) by (rewrite Hcache; apply len_sliceN).
    unfold EncLayer.eread_gen, csub.
    destruct (N.leb_spec (e_cpos s) CHUNK) as [_|?]; [|lia].
    destruct (CHUNK - e_cpos s) as [|av] eqn:Hav.
    - assert (Hfull : e_cpos s = CHUNK) by lia.
      assert (Hnext : (e_chunk s + 1) * CHUNK <= len P) by lia.
      assert (Hkb : e_chunk s + 1 <= len P / CHUNK) by (apply N.div_le_lower_bound; lia).
      destruct (N.leb_spec (2 ^ 32) (e_chunk s + 1)) as [?|_]; [lia|].
      set (s1 := mkE (e_in s) (e_cache s) (e_cpos s) (e_chunk s + 1)).
      destruct (Hload s1 (e_chunk s + 1) eq_refl) as (s2 & r & Hl & Hr & Hk2 & Hc2 & Hcache2 & HR2);
        [lia | exact Hnext | exact HR |].
      rewrite Hl.
      assert (HR2' : Rfs s2 q).
      { unfold Rfs. rewrite Hk2, Hc2, Hcache2. repeat split; lia. }
      destruct Hr as [->|[[->|[Htol ->]] Hend]].
      + rewrite Hc2. destruct (N.leb_spec 0 CHUNK) as [_|?]; [|lia].
        rewrite N.sub_0_r. destruct CHUNK as [|ch] eqn:Hch; [lia|]. rewrite <- Hch in *.
        destruct (fs_cache_spec s2 q CHUNK n HR2') as (s' & kk & H1 & H2 & H3 & H4 & H5); [lia | lia |].
        exists s', kk. repeat (split; [assumption|]). left; assumption.
      + exists s2, 0. rewrite sliceN_0, N.add_0_r. split; [lia|]. split; [lia|].
        split; [intros _; right; lia|]. split; [exact HR2'|]. left; reflexivity.
      + exists s2, 0. rewrite N.add_0_r. split; [lia|]. split; [lia|].
        split; [intros _; right; lia|]. split; [exact HR2'|]. right; auto.
    - rewrite <- Hav.
      destruct (fs_cache_spec s q (CHUNK - e_cpos s) n HRs) as (s' & kk & H1 & H2 & H3 & H4 & H5); [lia | lia |].
      exists s', kk. repeat (split; [assumption|]). left; assumption.
  Qed.

  Definition ReadSpec (unauth : bool) : Prop :=
    forall (s : estate SW) q n, Rfs s q ->
      exists s' kk, fs_read CHUNK TAG ks tagc SW unauth s n = (s', Ok (sliceN q kk P)) /\ kk <= n /\
        q + kk <= len P /\ (kk = 0 -> n = 0 \/ q = len P) /\ Rfs s' (q + kk).

  Lemma read_spec_unauth : LoadSpec (eload_unauth CHUNK TAG ks SW) false -> ReadSpec true.
  Proof.
    intros Hload s q n HRs. cbn [EncLayer.fs_read].
    destruct (fs_gen_spec _ _ s q n Hload HRs) as (s' & kk & H1 & H2 & H3 & H4 & [H5|[? _]]); [|discriminate].
    exists s', kk. auto.
  Qed.

  Lemma read_spec_auth : LoadSpec (eload CHUNK TAG ks tagc SW) true -> ReadSpec false.
  Proof.
    intros Hload s q n HRs. cbn [EncLayer.fs_read].
    destruct (fs_gen_spec _ _ s q n Hload HRs) as (s' & kk & H1 & H2 & H3 & H4 & [H5|(_ & Hk0 & H5)]); [|subst kk].
    - exists s', kk. rewrite H5. auto.
    - exists s', 0. rewrite H5, sliceN_0. auto.
  Qed.

  (* reading with an n-byte buffer (n > 0) until Ok(0): everything from q on *)
  Lemma fs_drain_spec unauth n : ReadSpec unauth -> 0 < n -> forall fuel (s : estate SW) q acc,
    Rfs s q -> (N.to_nat (len P - q) < fuel)%nat ->
    fs_drain CHUNK TAG ks tagc SW unauth fuel s n acc = Ok (acc ++ dropN q P).
  Proof.
    intros Hrd Hn. induction fuel as [|fuel IH]; intros s q acc HRs Hf; [lia|].
    cbn [EncWriter.fs_drain].
    destruct (Hrd s q n HRs) as (s' & kk & Hr & Hk & Hq & Hz & HR'). rewrite Hr.
    assert (Hl : len (sliceN q kk P) = kk) by (rewrite len_sliceN; lia).
    rewrite Hl. destruct (N.eqb_spec kk 0) as [->|Hk0].
    - destruct (Hz eq_refl) as [?|Hql]; [lia|subst q]. rewrite dropN_all, app_nil_r by lia. reflexivity.
    - rewrite (IH s' (q + kk)) by (try exact HR'; lia).
      rewrite <- app_assoc, sliceN_app_dropN. reflexivity.
  Qed.

  (* ---------- the wire bytes of a writer state ---------- *)
  Variables (p : bytes) (ctr off : N).
  Hypothesis Hoff : off <= CHUNK.
  Hypothesis Hlp : len p = ctr * CHUNK + off.
  Hypothesis Hlw : len w = ctr * CTS + off.
  Hypothesis Hwb : forall k, k < ctr -> sliceN (k * CTS) CTS w = chunk_enc k (sliceN (k * CHUNK) CHUNK p).
  Hypothesis Hwc : dropN (ctr * CTS) w = xor_from ctr 0 (dropN (ctr * CHUNK) p).

  Lemma slice_chunk_of_cts x : sliceN x CHUNK w = takeN CHUNK (sliceN x CTS w).
  Proof. unfold sliceN. rewrite takeN_takeN. f_equal. rewrite CTS_is. lia. Qed.

  Lemma len_cur : len (dropN (ctr * CHUNK) p) = off.
  Proof. rewrite len_dropN. lia. Qed.

  (* unauthenticated load of chunk k, for every k up to the end of p *)
  Lemma unauth_load (s1 : estate SW) k : e_chunk s1 = k -> k * CHUNK <= len p ->
    e_in s1 = N.min (k * CTS) (len w) ->
    exists s2 b, eload_unauth CHUNK TAG ks SW s1 = (s2, Ok b) /\ (b = false -> k * CHUNK = len p) /\
      e_chunk s2 = k /\ e_cpos s2 = 0 /\ e_cache s2 = sliceN (k * CHUNK) CHUNK p /\
      e_in s2 = N.min ((k + 1) * CTS) (len w).
  Proof.
    intros Hk Hkp Hin.
    rewrite (eload_unauth_eval s1 k _ Hk Hin) by lia. cbv zeta.
    assert (Hcts : CTS = CHUNK + TAG) by reflexivity.
    destruct (N.eq_dec (k * CHUNK) (len p)) as [Hend|Hne].
    - (* at the end of the plaintext: the inner layer is at its end too *)
      assert (Hpos : N.min (k * CTS) (len w) = len w) by nia.
      rewrite Hpos, sliceN_past by lia. cbn [len length N.of_nat]. change (0 =? 0) with true. cbv iota.
      eexists _, false. split; [reflexivity|]. cbn [e_chunk e_cpos e_cache e_in].
      repeat split; auto; try (rewrite ?len_nil; lia). rewrite sliceN_past by lia. reflexivity.
    - assert (Hkc : k <= ctr) by nia.
      assert (Hpos : N.min (k * CTS) (len w) = k * CTS) by nia.
      rewrite Hpos.
      destruct (N.eq_dec k ctr) as [->|Hkn].
      + (* the current chunk: what there is of it, no tag *)
        assert (Hdt : sliceN (ctr * CTS) CHUNK w = xor_from ctr 0 (dropN (ctr * CHUNK) p)).
        { unfold sliceN. rewrite Hwc. apply takeN_all. rewrite (len_xor ks), len_cur. lia. }
        rewrite Hdt, (len_xor ks), len_cur, xor_invol.
        destruct (N.eqb_spec off 0) as [?|_]; [lia|].
        eexists _, true. split; [reflexivity|]. cbn [e_chunk e_cpos e_cache e_in].
        repeat split; auto; try discriminate; try lia.
        unfold sliceN. symmetry. apply takeN_all. rewrite len_cur. lia.
      + (* a completed chunk *)
        assert (Hlt : k < ctr) by lia.
        assert (Hpt : len (sliceN (k * CHUNK) CHUNK p) = CHUNK) by (rewrite len_sliceN; nia).
        assert (Hdt : sliceN (k * CTS) CHUNK w = xor_from k 0 (sliceN (k * CHUNK) CHUNK p)).
        { rewrite slice_chunk_of_cts, (Hwb k Hlt). unfold EncLayer.chunk_enc.
          rewrite <- Hpt at 1. rewrite <- (len_xor ks k 0 (sliceN (k * CHUNK) CHUNK p)).
          apply takeN_len_app. }
        rewrite Hdt, (len_xor ks), Hpt, xor_invol.
        destruct (N.eqb_spec CHUNK 0) as [?|_]; [lia|].
        eexists _, true. split; [reflexivity|]. cbn [e_chunk e_cpos e_cache e_in].
        repeat split; auto; try discriminate. nia.
  Qed.

  (* ---------- unauthenticated mode ---------- *)
  Lemma unauth_loadspec : P = p -> LoadSpec (eload_unauth CHUNK TAG ks SW) false.
  Proof.
    intros HP s1 k Hk _ Hkp Hin. rewrite HP in Hkp.
    destruct (unauth_load s1 k Hk Hkp Hin) as (s2 & b & Hl & Hb & H1 & H2 & H3 & H4).
    exists s2, (Ok b). rewrite HP. split; [exact Hl|]. split; [|auto].
    destruct b; [left; reflexivity | right; auto].
  Qed.

  Lemma fs_open_spec : exists (s : estate SW) b, fs_open CHUNK TAG ks SW 0 = (s, Ok b) /\
    e_chunk s = 0 /\ e_cpos s = 0 /\ e_cache s = sliceN 0 CHUNK p /\ e_in s = N.min CTS (len w).
  Proof.
    unfold EncLayer.fs_open.
    destruct (unauth_load (@mkE SW 0 [] 0 0) 0 eq_refl) as (s2 & b & Hl & _ & H1 & H2 & H3 & H4);
      [lia | cbn [e_in]; lia |].
    exists s2, b. rewrite Hl, H4. repeat split; auto. f_equal. lia.
  Qed.

  Theorem fs_unauth_all fuel n : P = p -> 0 < n -> (N.to_nat (len p) < fuel)%nat ->
    fs_read_all CHUNK TAG ks tagc SW true fuel 0 n = Ok p.
  Proof.
    intros HP Hn Hf. unfold EncWriter.fs_read_all.
    destruct fs_open_spec as (s & b & Ho & H1 & H2 & H3 & H4). rewrite Ho.
    rewrite (fs_drain_spec true n (read_spec_unauth (unauth_loadspec HP)) Hn fuel s 0 []).
    - rewrite dropN_0, HP. reflexivity.
    - unfold Rfs. rewrite H1, H2, H3, H4, HP. repeat split; lia.
    - rewrite HP. lia.
  Qed.

  (* ---------- authenticated mode ---------- *)

  (* the unfinished chunk passes the tag check by accident: its last TAG bytes are the tag of
     the bytes before them *)
  Definition accident : bool :=
    let cur := xor_from ctr 0 (dropN (ctr * CHUNK) p) in
    (TAG <=? off) && bytes_eqb (tagc ctr (takeN (off - TAG) cur)) (dropN (off - TAG) cur).
  Definition auth_len : N :=
    if ctr =? 0 then len p else ctr * CHUNK + (if accident then off - TAG else 0).

  Lemma auth_len_le : auth_len <= len p.
  Proof. unfold auth_len. destruct (ctr =? 0); [lia|]. destruct accident; lia. Qed.

  Lemma auth_loadspec : P = takeN auth_len p -> LoadSpec (eload CHUNK TAG ks tagc SW) true.
  Proof.
    intros HP s1 k Hk Hk1 Hkp Hin.
    assert (HlP : len P = auth_len) by (rewrite HP, len_takeN; pose proof auth_len_le; lia).
    assert (Hcts : CTS = CHUNK + TAG) by reflexivity.
    rewrite (eload_eval s1 k _ Hk Hin) by lia. cbv zeta.
    unfold auth_len in HlP. destruct (N.eqb_spec ctr 0) as [Hc0|Hc0].
    - (* only chunk 0 exists: k = 1, chunk 0 full, at the end *)
      assert (Hpos : N.min (k * CTS) (len w) = len w) by nia.
      rewrite Hpos, sliceN_past by lia. cbn [len length N.of_nat]. change (0 =? 0) with true. cbv iota.
      eexists _, _. split; [reflexivity|]. cbn [e_chunk e_cpos e_cache e_in].
      split; [right; split; [left; reflexivity | nia]|].
      repeat split; auto; try (rewrite ?len_nil; lia). rewrite sliceN_past by nia. reflexivity.
    - assert (Hkc : k <= ctr) by (destruct accident; nia).
      assert (Hpos : N.min (k * CTS) (len w) = k * CTS) by nia.
      rewrite Hpos.
      destruct (N.eq_dec k ctr) as [->|Hkn].
      + (* the unfinished chunk: no tag there *)
        assert (Hdt : sliceN (ctr * CTS) CTS w = xor_from ctr 0 (dropN (ctr * CHUNK) p)).
        { unfold sliceN. rewrite Hwc. apply takeN_all. rewrite (len_xor ks), len_cur. lia. }
        rewrite Hdt, (len_xor ks), len_cur.
        assert (Hin' : ctr * CTS + off = N.min ((ctr + 1) * CTS) (len w)) by lia.
        unfold accident in HlP.
        destruct (N.eqb_spec off 0) as [Hz|Hnz].
        { destruct (N.leb_spec TAG off) as [?|_]; [lia|]. cbn [andb] in HlP.
          eexists _, _. split; [reflexivity|]. cbn [e_chunk e_cpos e_cache e_in].
          split; [right; split; [left; reflexivity | lia]|].
          repeat split; auto. rewrite sliceN_past by lia. reflexivity. }
        destruct (N.ltb_spec off TAG) as [Hlt|Hge].
        { destruct (N.leb_spec TAG off) as [?|_]; [lia|]. cbn [andb] in HlP.
          eexists _, _. split; [reflexivity|]. cbn [e_chunk e_cpos e_cache e_in].
          split; [right; split; [right; auto | lia]|].
          repeat split; auto. rewrite sliceN_past by lia. reflexivity. }
        destruct (N.leb_spec TAG off) as [_|?]; [|lia]. cbn [andb] in HlP.
        destruct (bytes_eqb (tagc ctr (takeN (off - TAG) (xor_from ctr 0 (dropN (ctr * CHUNK) p))))
                            (dropN (off - TAG) (xor_from ctr 0 (dropN (ctr * CHUNK) p)))) eqn:Eacc.
        * eexists _, _. split; [reflexivity|]. cbn [e_chunk e_cpos e_cache e_in].
          split; [left; reflexivity|]. repeat split; auto.
          rewrite xor_takeN, xor_invol, HP. unfold auth_len, accident.
          destruct (N.eqb_spec ctr 0) as [?|_]; [lia|].
          destruct (N.leb_spec TAG off) as [_|?]; [|lia]. cbn [andb]. rewrite Eacc.
          symmetry. apply sliceN_takeN_tail. lia.
        * eexists _, _. split; [reflexivity|]. cbn [e_chunk e_cpos e_cache e_in].
          split; [right; split; [right; auto | lia]|].
          repeat split; auto. rewrite sliceN_past by lia. reflexivity.
      + (* a completed chunk with its tag *)
        assert (Hlt : k < ctr) by lia.
        assert (Hpt : len (sliceN (k * CHUNK) CHUNK p) = CHUNK) by (rewrite len_sliceN; nia).
        rewrite (Hwb k Hlt), len_chunk, Hpt.
        destruct (N.eqb_spec (CHUNK + TAG) 0) as [?|_]; [lia|].
        destruct (N.ltb_spec (CHUNK + TAG) TAG) as [?|_]; [lia|].
        replace (CHUNK + TAG - TAG) with (len (xor_from k 0 (sliceN (k * CHUNK) CHUNK p)))
          by (rewrite (len_xor ks), Hpt; lia).
        unfold EncLayer.chunk_enc. rewrite takeN_len_app, dropN_len_app, bytes_eqb_refl, xor_invol.
        eexists _, _. split; [reflexivity|]. cbn [e_chunk e_cpos e_cache e_in].
        split; [left; reflexivity|]. repeat split; auto; [|nia].
        rewrite HP. symmetry. apply sliceN_takeN_in.
        unfold auth_len. destruct (N.eqb_spec ctr 0) as [?|_]; [lia|]. destruct accident; nia.
  Qed.

  Theorem fs_auth_all fuel n : P = takeN auth_len p -> 0 < n -> (N.to_nat (len p) < fuel)%nat ->
    fs_read_all CHUNK TAG ks tagc SW false fuel 0 n = Ok (takeN auth_len p).
  Proof.
    intros HP Hn Hf. unfold EncWriter.fs_read_all.
    assert (HlP : len P = auth_len) by (rewrite HP, len_takeN; pose proof auth_len_le; lia).
    pose proof auth_len_le as Hle.
    destruct fs_open_spec as (s & b & Ho & H1 & H2 & H3 & H4). rewrite Ho.
    rewrite (fs_drain_spec false n (read_spec_auth (auth_loadspec HP)) Hn fuel s 0 []).
    - rewrite dropN_0. cbn [app]. f_equal. exact HP.
    - unfold Rfs. rewrite H1, H2, H3, H4. repeat split; try lia.
      (* chunk 0 was loaded without verification: it is part of what is delivered *)
      rewrite HP. unfold auth_len. destruct (N.eqb_spec ctr 0) as [Hc0|Hc0].
      + rewrite takeN_all by lia. reflexivity.
      + rewrite N.mul_0_l. symmetry. apply sliceN_takeN_in. destruct accident; nia.
    - lia.
  Qed.
End Flush.

(* ---------- the bytes a writer state has handed down ---------- *)
Section FlushWriter.
  Variables CHUNK TAG : N.
  Hypothesis HCHUNK : 0 < CHUNK.
  Hypothesis HTAG : 0 < TAG.
  Variable ks : N -> N -> N.
  Variable tagc : N -> bytes -> bytes.
  Hypothesis Htagc : forall i c, len (tagc i c) = TAG.

  Notation CTS := (CTS CHUNK TAG).
  Notation EwInv := (EwInv CHUNK ks tagc).
  Notation wire_open := (wire_open CHUNK ks tagc).

  Lemma ew_wire_facts s p : EwInv s p ->
    len (ew_out s) = ew_ctr s * CTS + ew_off s /\
    (forall k, k < ew_ctr s ->
       sliceN (k * CTS) CTS (ew_out s) = chunk_enc ks tagc k (sliceN (k * CHUNK) CHUNK p)) /\
    dropN (ew_ctr s * CTS) (ew_out s) = xor_from ks (ew_ctr s) 0 (dropN (ew_ctr s * CHUNK) p).
  Proof.
    intros (Ho & Hl & Hc & Hw). rewrite Hw.
    assert (Hn : N.of_nat (N.to_nat (ew_ctr s)) * CHUNK <= len p) by (rewrite N2Nat.id; lia).
    assert (Hcts : CTS = CHUNK + TAG) by reflexivity.
    split; [|split].
    - rewrite (len_wire_open CHUNK TAG HCHUNK HTAG ks tagc Htagc) by exact Hn. rewrite N2Nat.id. lia.
    - intros k Hk. unfold sliceN at 1.
      replace k with (N.of_nat (N.to_nat k)) at 1 by apply N2Nat.id.
      rewrite (dropN_wire_open CHUNK TAG HCHUNK HTAG ks tagc Htagc) by (try exact Hn; lia).
      rewrite N2Nat.id, N.add_0_l.
      destruct (N.to_nat (ew_ctr s) - N.to_nat k)%nat as [|m] eqn:Em; [lia|].
      cbn [EncWriter.wire_open].
      assert (Hpt : len (takeN CHUNK (dropN (k * CHUNK) p)) = CHUNK) by (rewrite len_takeN, len_dropN; nia).
      rewrite takeN_app_le by (rewrite (len_chunk TAG ks tagc Htagc), Hpt; lia).
      change (sliceN (k * CHUNK) CHUNK p) with (takeN CHUNK (dropN (k * CHUNK) p)).
      apply takeN_all. rewrite (len_chunk TAG ks tagc Htagc), Hpt. lia.
    - replace (ew_ctr s) with (N.of_nat (N.to_nat (ew_ctr s))) at 1 by apply N2Nat.id.
      rewrite (dropN_wire_open CHUNK TAG HCHUNK HTAG ks tagc Htagc) by (try exact Hn; lia).
      rewrite Nat.sub_diag, N2Nat.id, N.add_0_l. reflexivity.
  Qed.

  (* how much of p the authenticated mode delivers *)
  Definition ew_auth_len (s : ewstate) (p : bytes) : N := auth_len CHUNK TAG ks tagc p (ew_ctr s) (ew_off s).

  Lemma ew_auth_len_bounds s p : EwInv s p ->
    ew_ctr s * CHUNK <= ew_auth_len s p /\ ew_auth_len s p <= len p /\
    (ew_ctr s = 0 -> ew_auth_len s p = len p).
  Proof.
    intros (Ho & Hl & _ & _). unfold ew_auth_len, auth_len.
    destruct (N.eqb_spec (ew_ctr s) 0) as [Hz|Hnz].
    - rewrite Hz in *. repeat split; lia.
    - destruct (accident CHUNK TAG ks tagc p (ew_ctr s) (ew_off s)); repeat split; lia.
  Qed.

  (* A3 (C14, encryption layer), unauthenticated mode: at ANY point between writes, the
     fail-safe reader over the bytes handed down so far delivers exactly the plaintext
     written so far — a last partial chunk without tag and a full chunk without tag included —
     and does not crash.  Any read buffer size n > 0. *)
  Theorem flush_prefix_unauth s p fuel n : EwInv s p -> len p / CHUNK < 2 ^ 32 -> 0 < n ->
    (N.to_nat (len p) < fuel)%nat ->
    fs_read_all CHUNK TAG ks tagc (Cursor (ew_out s)) true fuel 0 n = Ok p.
  Proof.
    intros Hinv Hbig Hn Hf. destruct (ew_wire_facts s p Hinv) as (H1 & H2 & H3).
    destruct Hinv as (Ho & Hl & _ & _).
    exact (fs_unauth_all CHUNK TAG HCHUNK HTAG ks tagc Htagc (ew_out s) p Hbig p (ew_ctr s) (ew_off s)
             Ho Hl H1 H2 H3 fuel n eq_refl Hn Hf).
  Qed.

  (* authenticated mode: exactly the first ew_auth_len bytes — everything in the chunks whose
     tag has been written (ew_ctr * CHUNK bytes), all of chunk 0 even without its tag (D2) *)
  Theorem flush_prefix_auth s p fuel n : EwInv s p -> len p / CHUNK < 2 ^ 32 -> 0 < n ->
    (N.to_nat (len p) < fuel)%nat ->
    fs_read_all CHUNK TAG ks tagc (Cursor (ew_out s)) false fuel 0 n = Ok (takeN (ew_auth_len s p) p).
  Proof.
    intros Hinv Hbig Hn Hf. destruct (ew_wire_facts s p Hinv) as (H1 & H2 & H3).
    destruct (ew_auth_len_bounds s p Hinv) as (_ & Hle & _).
    destruct Hinv as (Ho & Hl & _ & _).
    assert (HbigP : len (takeN (ew_auth_len s p) p) / CHUNK < 2 ^ 32).
    { apply (N.le_lt_trans _ (len p / CHUNK)); [|exact Hbig].
      apply N.div_le_mono; [lia|]. rewrite len_takeN. lia. }
    exact (fs_auth_all CHUNK TAG HCHUNK HTAG ks tagc Htagc (ew_out s) _ HbigP p (ew_ctr s) (ew_off s)
             Ho Hl H1 H2 H3 fuel n eq_refl Hn Hf).
  Qed.
End FlushWriter.
