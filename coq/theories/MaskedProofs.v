(* MaskedProofs.v — "nothing in clear" (C07): every byte that reaches the destination after the header
   went through the cipher.
     write_emits_cipher_only          one Write::write adds to the inner writer at most the tag of the
                                      finished chunk and then exactly the XOR-masked prefix of buf it accepted
     flush_emits_nothing              flush adds nothing
     body_is_keystream_masked_layer   ANY list of write_all / flush calls, then finalize: what the inner
                                      writer holds is enc_format of the concatenation of the buffers
     archive_body_masked              whole archive (Archive.archive_write: any call list with flushes
                                      anywhere, any cuts between the layers): header ++ enc_format (layer plaintext)
     enc_format_byte                  byte i of chunk j = plaintext byte XOR keystream (j, i)
     plain_windows_need_keystream_coincidence *)
From MLA Require Import Limit.
From MLA Require Import Base Stream EncLayer EncLayerProofs EncWriter EncWriterProofs Masked
  CompLayer Blocks Writer Format Ecies Archive ArchiveProofs.
From Coq Require Import ZifyBool ZifyNat ZifyN.
Open Scope N_scope.

(* ---------- byte access ---------- *)
Lemma byteN_app_l i (a b : bytes) : i < len a -> byteN i (a ++ b) = byteN i a.
Proof. intros H. unfold byteN. apply app_nth1. unfold len in H. lia. Qed.
Lemma nth_firstn_lt {A} (d : A) : forall n i l, (i < n)%nat -> nth i (firstn n l) d = nth i l d.
Proof.
  induction n as [|n IH]; intros i l Hi; [lia|]. destruct l as [|x l]; [destruct i; reflexivity|].
  destruct i as [|i]; [reflexivity|]. cbn [firstn nth]. apply IH. lia.
Qed.
Lemma nth_skipn_add {A} (d : A) : forall p i l, nth i (skipn p l) d = nth (p + i) l d.
Proof.
  induction p as [|p IH]; intros i l; [reflexivity|]. destruct l as [|x l]; [destruct i; reflexivity|].
  cbn [skipn Nat.add nth]. apply IH.
Qed.
Lemma byteN_sliceN i p n (l : bytes) : i < n -> byteN i (sliceN p n l) = byteN (p + i) l.
Proof.
  intros H. unfold byteN, sliceN, takeN, dropN.
  rewrite nth_firstn_lt by lia. rewrite nth_skipn_add. f_equal. lia.
Qed.

Section MaskedProofs.
  Context {LIM : Limit}.
  Variables CHUNK TAG CIPHERBUF : N.
  Hypothesis HCHUNK : 0 < CHUNK.
  Variable ks : N -> N -> N.
  Variable tagc : N -> bytes -> bytes.

  Notation xor_from := (xor_from ks).
  Notation enc_format := (enc_format CHUNK ks tagc).
  Notation ew_write := (ew_write CHUNK CIPHERBUF ks tagc).
  Notation ew_calls := (ew_calls CHUNK CIPHERBUF ks tagc).
  Notation ew_write_pieces := (ew_write_pieces CHUNK CIPHERBUF ks tagc).
  Notation ew_archive_calls := (ew_archive_calls CHUNK CIPHERBUF ks tagc).

  (* ---------- one call ---------- *)
  (* what one Write::write hands to the inner writer: the tag of the chunk that was full (a cipher
     output) and then the accepted prefix of buf XORed with the keystream of the current chunk at the
     current offset — nothing else, never buf itself *)
  Theorem write_emits_cipher_only s buf s' n : ew_write s buf = Ok (s', n) ->
    exists tagpart,
      ew_out s' = ew_out s ++ tagpart ++ xor_from (ew_ctr s') (ew_off s' - n) (takeN n buf) /\
      (tagpart = [] \/ tagpart = tagc (ew_ctr s) (ew_cur s)) /\
      n <= len buf.
  Proof.
    unfold EncLayer.ew_write. destruct (CHUNK <? ew_off s); [discriminate|].
    destruct (ew_off s =? CHUNK) eqn:Hfull.
    - unfold ew_renew. destruct (2 ^ 32 <=? ew_ctr s + 1); [discriminate|]. cbn [bind ew_out ew_ctr ew_off ew_cur].
      intros H. injection H as <- <-. cbn [ew_out ew_ctr ew_off].
      exists (tagc (ew_ctr s) (ew_cur s)). rewrite <- app_assoc. split; [|split; [now right | lia]].
      do 3 f_equal. lia.
    - cbn [bind]. intros H. injection H as <- <-. cbn [ew_out ew_ctr ew_off].
      exists []. cbn [app]. split; [|split; [now left | lia]]. do 2 f_equal. lia.
  Qed.

  Theorem flush_emits_nothing s s' : ew_flush s = Ok s' -> s' = s.
  Proof. intros H. injection H as <-. reflexivity. Qed.

  (* ---------- any calls ---------- *)
  Lemma ew_calls_pieces fuel cs : forall s, ew_calls fuel s cs = ew_write_pieces fuel s (writes_of cs).
  Proof.
    induction cs as [|c cs IH]; intros s; [reflexivity|].
    destruct c as [b|]; cbn [Masked.ew_calls writes_of flat_map app EncWriter.ew_write_pieces].
    - destruct (ew_write_all CHUNK CIPHERBUF ks tagc fuel s b); cbn [bind]; [apply IH | reflexivity | reflexivity].
    - cbn [ew_flush bind]. apply IH.
  Qed.

  (* every call list (write_all of any buffers — empty ones, buffers across chunks — and flushes at any
     position), then finalize: if the writer succeeds, the inner writer holds exactly the canonical
     form of the concatenation of the buffers *)
  Theorem body_is_keystream_masked_layer fuel cs s :
    ew_archive_calls fuel cs = Ok s -> ew_out s = enc_format (concat (writes_of cs)).
  Proof.
    unfold Masked.ew_archive_calls. rewrite ew_calls_pieces. intros H.
    apply (enc_writer_canonical CHUNK CIPHERBUF HCHUNK ks tagc fuel). exact H.
  Qed.

  (* ---------- the bytes of the canonical form ---------- *)
  Hypothesis HTAG : 0 < TAG.
  Hypothesis Htagc : forall i c, len (tagc i c) = TAG.

  Lemma byteN_xor_from j : forall d off i, i < len d ->
    byteN i (xor_from j off d) = N.lxor (byteN i d) (ks j (off + i)).
  Proof.
    induction d as [|x d IH]; intros off i Hi; [rewrite len_nil in Hi; lia|].
    cbn [EncLayer.xor_from]. destruct (N.eq_dec i 0) as [->|Hne].
    - unfold byteN. cbn. rewrite N.add_0_r. reflexivity.
    - rewrite len_cons in Hi. unfold byteN in *. replace (N.to_nat i) with (S (N.to_nat (i - 1))) by lia.
      cbn [nth]. rewrite IH by lia. do 2 f_equal. lia.
  Qed.

  (* byte i of chunk j of the body is plaintext byte j*CHUNK+i XOR keystream byte (j, i) *)
  Theorem enc_format_byte plain j i : i < CHUNK -> j * CHUNK + i < len plain ->
    byteN (j * (CHUNK + TAG) + i) (enc_format plain) = N.lxor (byteN (j * CHUNK + i) plain) (ks j i).
  Proof.
    intros Hi Hp.
    assert (Hj : j <= nfull CHUNK (len plain)).
    { unfold nfull. apply N.div_le_lower_bound; lia. }
    pose proof (enc_format_slice CHUNK TAG HCHUNK HTAG ks tagc Htagc plain j Hj) as Hs.
    change (CTS CHUNK TAG) with (CHUNK + TAG) in Hs.
    rewrite <- (byteN_sliceN i (j * (CHUNK + TAG)) (CHUNK + TAG)) by lia.
    rewrite Hs. unfold chunk_enc.
    assert (Hl : i < len (sliceN (j * CHUNK) CHUNK plain)) by (rewrite len_sliceN; lia).
    rewrite byteN_app_l by (rewrite (len_xor_from ks); exact Hl).
    rewrite byteN_xor_from by exact Hl. rewrite N.add_0_l. rewrite byteN_sliceN by lia. reflexivity.
  Qed.

  (* If a window w (of a file's content, of a file name, of anything) shows up in the body at offset o,
     then at every position of the window that is a ciphertext position the keystream byte there is
     EXACTLY w's byte XOR the layer-plaintext byte there: the precise coincidence an occurrence needs.
     (No probability is claimed; that such coincidences are unlikely is AES-CTR's business.) *)
  Theorem plain_windows_need_keystream_coincidence plain w o :
    sliceN o (len w) (enc_format plain) = w ->
    forall t, t < len w ->
      let q := o + t in let j := q / (CHUNK + TAG) in let i := q mod (CHUNK + TAG) in
      i < CHUNK -> j * CHUNK + i < len plain ->
      ks j i = N.lxor (byteN t w) (byteN (j * CHUNK + i) plain).
  Proof.
    intros Hw t Ht q j i Hi Hp.
    assert (Hq : q = j * (CHUNK + TAG) + i).
    { subst j i. rewrite N.mul_comm. apply N.div_mod. lia. }
    pose proof (enc_format_byte plain j i Hi Hp) as Hb. rewrite <- Hq in Hb.
    assert (Hwt : byteN t w = byteN q (enc_format plain)).
    { rewrite <- Hw at 1. subst q. apply byteN_sliceN. exact Ht. }
    rewrite Hwt, Hb. rewrite (N.lxor_comm (byteN _ plain)), N.lxor_assoc, N.lxor_nilpotent, N.lxor_0_r. reflexivity.
  Qed.
End MaskedProofs.

(* ---------- the whole archive ---------- *)
Section ArchiveMasked.
  Variables CHUNK CIPHERBUF BLOCK LIMIT FNMAX : N.
  Local Hint Extern 0 Limit => exact LIMIT : typeclass_instances.
  Variables TS TC TA TE : N.
  Variable H : bytes -> bytes.
  Variable order : footer -> footer.
  Variable pubk : bytes -> bytes.
  Variable dh : bytes -> bytes -> bytes.
  Variable kdf : bytes -> bytes.
  Variables wenc wtag : bytes -> bytes -> bytes.
  Variable ksf : bytes -> bytes -> N -> N -> N.
  Variable tagf : bytes -> bytes -> N -> bytes -> bytes.
  Hypothesis HCHUNK : 0 < CHUNK.

  (* Archive.archive_write for a configuration with ENCRYPT enabled — any writer calls (OFlush anywhere),
     any cut of the block stream into write calls on the top layer, any cut of the compressed stream
     into write calls on the encryption layer: the archive is its header followed by enc_format, under
     the key stream of the configuration's key and nonce, of the LAYER PLAINTEXT (the block stream
     itself without compression, what the compression writer handed down otherwise) and nothing else *)
  Theorem archive_body_masked cfg cut_top cut_mid ops a :
    archive_write CHUNK CIPHERBUF BLOCK LIMIT FNMAX TS TC TA TE H order pubk dh kdf wenc wtag ksf tagf
                  cfg cut_top cut_mid ops = Ok a ->
    wc_encrypt cfg = true ->
    exists hdr plain,
      dump_header LIMIT (to_persistent pubk dh kdf wenc wtag cfg) = Ok hdr /\
      a = hdr ++ enc_format CHUNK (ksf (wc_key cfg) (wc_nonce cfg)) (tagf (wc_key cfg) (wc_nonce cfg)) plain /\
      (wc_compress cfg = false ->
       plain = w_out (fst (wrun FNMAX TS TC TA TE H order w_init (ops ++ [OFinalize])))).
  Proof.
    unfold archive_write. intros Ha He. rewrite He in Ha. cbn [andb] in Ha.
    destruct (wc_recipients cfg) as [|r rs]; [discriminate|].
    destruct (dump_header LIMIT _) as [hdr|e|c] eqn:Hh; cbn [bind] in Ha; try discriminate.
    destruct (wrun FNMAX TS TC TA TE H order w_init (ops ++ [OFinalize])) as [sf rs'] eqn:Hw.
    destruct (first_bad rs') as [u|e|c]; cbn [bind] in Ha; try discriminate.
    destruct (lower_write CHUNK CIPHERBUF BLOCK LIMIT ksf tagf cfg cut_top cut_mid (w_out sf)) as [body|e|c] eqn:Hl;
      cbn [bind] in Ha; try discriminate.
    injection Ha as <-. exists hdr.
    unfold lower_write in Hl. rewrite He in Hl.
    match type of Hl with (do mid <- ?M; _) = _ => destruct M as [mid|e|c] eqn:Hm end; cbn [bind] in Hl; try discriminate.
    match type of Hl with (do s <- ?M; _) = _ => destruct M as [s|e|c] eqn:Hs end; cbn [bind] in Hl; try discriminate.
    injection Hl as <-. exists (concat mid). split; [reflexivity|]. split.
    - f_equal. apply (enc_writer_canonical CHUNK CIPHERBUF HCHUNK _ _ _ _ _ Hs).
    - intros Hc. rewrite Hc in Hm. injection Hm as <-. cbn [fst]. apply cut_pieces_concat.
  Qed.
End ArchiveMasked.
