(* Carry2Hist.v — work package `carry2`, part 2c: C10 (history independence) with the TRANSLATED reader operations
   as subject.  hist_op_src is Run.hist_op written over the functions generated from /repo: ArchiveReader::
   list_files / get_hash / get_file and BlocksToFileReader::read (gen/Src3d.v), helpers::linear_extract (gen/Src3l.v).
     hist_op_src_eq    over ANY stream, on the translated image of a model reader, one operation of hist_op_src is the
                       operation of Run.hist_op (rows, reader left) — composition of list_files_sim, get_hash_sim,
                       get_file_sim, bfr_read_sim, linear_extract_sim.  Premises: the fuel F of the translated read
                       loop covers every offsets table ((fuel+1)(|offsets|+2) <= F), and no read of the MODEL ends
                       with its own out-of-fuel (op_fuelled; bfr_read_sim relates the two loops only then — the same
                       kind of premise as CliExtract.copies_fuelled).
     history_independent_stack_src
                       over Carry2Stack.StackSrc (translated compression reader over translated encryption reader
                       over translated raw layer over any source whose absolute seek forgets: cursor, throttled
                       file), any archive bytes, any footer, any history: the rows of every operation of the history
                       are its rows on the fresh reader.  Composition of hist_op_src_eq, Carry2Sim.hist_groups_resp /
                       hist_op_resp through Carry2SimLayers.sim_stack, and HistStack.stack_hist_independent. *)
From MLA Require Import Limit.
From MLA Require Import Base Stream EncLayer CompLayer RawLayer LayerStack Blocks Reader Inst Run HistProofs ComposeForgets HistStack
  SrcTie3Raw SrcTie3Enc SrcTie3EncC SrcTie3Comp SrcTie3Reader SrcTie3ReaderRT SrcTie3Linear Carry2Stack Carry2Sim Carry2SimLayers.
From MLAGen Require Src Src3d Src3e Src3c Src3l.
From Coq Require Import ZifyBool ZifyNat ZifyN.
Open Scope N_scope.

Section HistSrc.
  Variable k : consts.
  Variable S : Stream.
  Variable site_index : N.
  Notation TS := Src.BT_FileStart. Notation TC := Src.BT_FileContent.
  Notation TA := Src.BT_EndOfArchiveData. Notation TE := Src.BT_EndOfFile.
  Notation FN := (cFNMAX k).
  Notation AR := (Src3d.ArchiveReader S).
  Notation BFR := (Src3d.BlocksToFileReader S).
  Notation g_read := (Src3d.bfr_read S FN TS TC TA TE site_index 1123).
  Notation g_get_file := (Src3d.get_file S FN TS TC TA TE site_index).
  Notation g_get_hash := (Src3d.get_hash S FN TS TC TA TE).
  Notation g_linear := (Src3l.linear_extract S FN TS TC TA TE).
  Notation m_bread := (bread FN TS TC TA TE S).
  Notation rep := (SrcTie3Reader.rep S).
  Notation rep_r := (rep_r S).

  (* Run.do_reads over the translated BlocksToFileReader::read; F is the fuel of its loop *)
  Fixpoint do_reads_src (F fuel : nat) (x : BFR) (sizes : list N) (to_end : bool) : BFR * list (list N) :=
    match fuel with
    | O => (x, [[9]])
    | Datatypes.S fuel' =>
      match sizes with
      | [] => (x, [])
      | n :: rest =>
        match g_read F x n with
        | (x1, Ok d) =>
          let again := match rest with [] => to_end && negb (len d =? 0) | _ => true end in
          let sizes' := match rest with [] => [n] | _ => rest end in
          if again then let '(x2, rows) := do_reads_src F fuel' x1 sizes' to_end in (x2, (0 :: d) :: rows)
          else (x1, [0 :: d])
        | (x1, Err _) => (x1, [[1]])
        | (x1, Crash _) => (x1, [[2]])
        end
      end
    end.

  (* Run.hist_op over the translated functions *)
  Definition hist_op_src (F fuel : nat) (names : list bytes) (ar : AR) (op : list N) : AR * list (list N) :=
    let name_at i := nth (N.to_nat i) names [] in
    match op with
    | [0] =>
      match Src3d.list_files S ar with
      | (ar1, Ok l) => (ar1, map (fun n => 5 :: n) (sort_names l))
      | (ar1, x) => (ar1, [err_row x])
      end
    | [1; i] =>
      match g_get_hash ar (name_at i) with
      | (r1, Ok (Some h)) => (r1, [0 :: h])
      | (r1, Ok None) => (r1, [[4]])
      | (r1, x) => (r1, [err_row x])
      end
    | 2 :: i :: sizes =>
      match g_get_file ar (name_at i) with
      | (r1, Ok (Some (_, x, size))) =>
        let '(x1, rows) := do_reads_src F fuel x sizes false in
        (Src3d.mkAR S (Src3d.bfr_src S x1) (Src3d.ar_metadata S r1), [7; size] :: rows)
      | (r1, Ok None) => (r1, [[4]])
      | (r1, x) => (r1, [err_row x])
      end
    | [3; i; n] =>
      match g_get_file ar (name_at i) with
      | (r1, Ok (Some (_, x, size))) =>
        let '(x1, rows) := do_reads_src F fuel x [n] true in
        (Src3d.mkAR S (Src3d.bfr_src S x1) (Src3d.ar_metadata S r1), [7; size] :: rows)
      | (r1, Ok None) => (r1, [[4]])
      | (r1, x) => (r1, [err_row x])
      end
    | 4 :: chosen =>
      let export := map name_at chosen in
      let g := g_linear fuel ar (Src3l.mkExport export []) in
      match res_of (Src3l.ex_log (fst g)) (snd g) with
      | Ok ps => (ar, [0] :: map (fun n => 6 :: pieces_for n ps) export)
      | x => (ar, [err_row x])
      end
    | _ => (ar, [[9; 9]])
    end.

  Fixpoint hist_groups_src (F fuel : nat) (names : list bytes) (ar : AR) (ops : list (list N)) : list (list (list N)) :=
    match ops with
    | [] => []
    | op :: rest => let '(ar1, rows) := hist_op_src F fuel names ar op in rows :: hist_groups_src F fuel names ar1 rest
    end.

  (* ---------- no read of the MODEL runs out of the model's fuel ---------- *)
  Fixpoint reads_fuelled (zf fuel : nat) (b : bstate S) (sizes : list N) (to_end : bool) : Prop :=
    match fuel with
    | O => True
    | Datatypes.S fuel' =>
      match sizes with
      | [] => True
      | n :: rest =>
        snd (m_bread zf b n) <> Err EFuel /\
        match m_bread zf b n with
        | (b1, Ok d) =>
          if match rest with [] => to_end && negb (len d =? 0) | _ => true end
          then reads_fuelled zf fuel' b1 (match rest with [] => [n] | _ => rest end) to_end else True
        | _ => True
        end
      end
    end.
  Definition op_fuelled (fuel : nat) (names : list bytes) (r : rstate S) (op : list N) : Prop :=
    let name_at i := nth (N.to_nat i) names [] in
    match op with
    | 2 :: i :: sizes =>
      match get_file FN TS TC TA TE S r (name_at i) with
      | (_, Ok (Some (b, _))) => reads_fuelled fuel fuel b sizes false
      | _ => True
      end
    | [3; i; n] =>
      match get_file FN TS TC TA TE S r (name_at i) with
      | (_, Ok (Some (b, _))) => reads_fuelled fuel fuel b [n] true
      | _ => True
      end
    | _ => True
    end.
  (* the fuel of the translated read loop covers every offsets table of the footer *)
  Definition Foffs (F fuel : nat) (m : footer) : Prop :=
    forall name fi, flookup m name = Some fi -> (Datatypes.S fuel * Datatypes.S (Datatypes.S (length (fi_offsets fi))) <= F)%nat.

  Lemma do_reads_src_eq zf F : forall fuel (b : bstate S) sizes to_end,
    (Datatypes.S zf * Datatypes.S (Datatypes.S (length (b_offs b))) <= F)%nat ->
    reads_fuelled zf fuel b sizes to_end ->
    snd (do_reads_src F fuel (rep b) sizes to_end) = snd (do_reads k S zf fuel b sizes to_end) /\
    Src3d.bfr_src S (fst (do_reads_src F fuel (rep b) sizes to_end)) = b_src (fst (do_reads k S zf fuel b sizes to_end)).
  Proof.
    induction fuel as [|fuel IH]; intros b sizes to_end HF Hfu; cbn [do_reads_src do_reads reads_fuelled] in *; [split; reflexivity|].
    destruct sizes as [|n rest]; [split; reflexivity|]. destruct Hfu as [Hne Hrest].
    pose proof (bfr_read_sim S FN TS TC TA TE site_index zf F b n HF Hne) as (H1 & H2 & H3).
    pose proof (bread_offs S FN TS TC TA TE zf b n) as Ho.
    destruct (m_bread zf b n) as [b1 rm]. destruct (g_read F (rep b) n) as [x1 rg]. cbn [fst snd] in *. subst rg.
    destruct rm as [d|e|c]; [|split; [reflexivity | exact H2]..].
    rewrite (H3 eq_refl).
    destruct (match rest with [] => to_end && negb (len d =? 0) | _ :: _ => true end); [|split; [reflexivity | reflexivity]].
    destruct (IH b1 (match rest with [] => [n] | _ :: _ => rest end) to_end ltac:(rewrite Ho; exact HF) Hrest) as [E1 E2].
    destruct (do_reads_src F fuel (rep b1) _ to_end) as [x2 rows2]. destruct (do_reads k S zf fuel b1 _ to_end) as [b2 rows].
    cbn [fst snd] in *. subst rows2. split; [reflexivity | exact E2].
  Qed.

  (* one operation: the translated functions on the translated image of a model reader ARE Run.hist_op *)
  Theorem hist_op_src_eq F fuel names (r : rstate S) op :
    Foffs F fuel (r_meta r) -> op_fuelled fuel names r op ->
    hist_op_src F fuel names (rep_r r) op = (rep_r (fst (hist_op k S fuel names r op)), snd (hist_op k S fuel names r op)).
  Proof.
    intros HFo Hfu.
    assert (Hfile : forall i sizes to_end,
      match get_file FN TS TC TA TE S r (nth (N.to_nat i) names []) with
      | (_, Ok (Some (b, _))) => reads_fuelled fuel fuel b sizes to_end
      | _ => True
      end ->
      match g_get_file (rep_r r) (nth (N.to_nat i) names []) with
      | (r1, Ok (Some (_, x, size))) =>
        let '(x1, rows) := do_reads_src F fuel x sizes to_end in
        (Src3d.mkAR S (Src3d.bfr_src S x1) (Src3d.ar_metadata S r1), [7; size] :: rows)
      | (r1, Ok None) => (r1, [[4]])
      | (r1, x) => (r1, [err_row x])
      end =
      (rep_r (fst (match get_file FN TS TC TA TE S r (nth (N.to_nat i) names []) with
                   | (r1, Ok (Some (b, size))) =>
                     let '(b1, rows) := do_reads k S fuel fuel b sizes to_end in (mkR (b_src b1) (r_meta r1), [7; size] :: rows)
                   | (r1, Ok None) => (r1, [[4]])
                   | (r1, x) => (r1, [err_row x])
                   end)),
       snd (match get_file FN TS TC TA TE S r (nth (N.to_nat i) names []) with
            | (r1, Ok (Some (b, size))) =>
              let '(b1, rows) := do_reads k S fuel fuel b sizes to_end in (mkR (b_src b1) (r_meta r1), [7; size] :: rows)
            | (r1, Ok None) => (r1, [[4]])
            | (r1, x) => (r1, [err_row x])
            end))).
    { intros i sizes to_end Hf. rewrite get_file_sim.
      destruct (get_file FN TS TC TA TE S r (nth (N.to_nat i) names [])) as [r1 x] eqn:Eg.
      destruct x as [[[b sz]|]|e|c]; cbn [rep_file fst snd err_row]; try reflexivity.
      destruct (get_file_offs S FN TS TC TA TE r r1 _ b sz Eg) as (fi & Hlk & Hoffs).
      assert (HF : (Datatypes.S fuel * Datatypes.S (Datatypes.S (length (b_offs b))) <= F)%nat) by (rewrite Hoffs; exact (HFo _ fi Hlk)).
      destruct (do_reads_src_eq fuel F fuel b sizes to_end HF Hf) as [E1 E2].
      destruct (do_reads_src F fuel (rep b) sizes to_end) as [x1 rows1]. destruct (do_reads k S fuel fuel b sizes to_end) as [b1 rows].
      cbn [fst snd] in *. subst rows1. rewrite E2. reflexivity. }
    unfold hist_op_src, hist_op, op_fuelled in *.
    destruct op as [|c0 rest]; [reflexivity|].
    destruct c0 as [|p]; [destruct rest; [|reflexivity]|].
    - rewrite list_files_sim. reflexivity.
    - repeat (destruct p as [p|p|]; try reflexivity);
        lazymatch goal with
        | |- context [Src3l.linear_extract] =>
          rewrite (proj1 (linear_extract_sim_rep S FN TS TC TA TE fuel r (map (fun i => nth (N.to_nat i) names []) rest)));
          destruct (linear_extract FN TS TC TA TE S fuel r _); reflexivity
        | |- context [Src3d.get_hash] =>
          destruct rest as [|i [|? ?]]; try reflexivity; rewrite get_hash_sim;
          destruct (get_hash FN TS TC TA TE S r _) as [r1 [[h|]|e|c]]; reflexivity
        | |- context [do_reads k S fuel fuel _ _ true] =>
          destruct rest as [|i [|n [|? ?]]]; try reflexivity; apply Hfile; exact Hfu
        | |- context [Src3d.get_file] =>
          destruct rest as [|i sizes]; [reflexivity|]; apply Hfile; exact Hfu
        end.
  Qed.

  (* the readers met along a history all hold the footer of the first *)
  Lemma hist_op_meta fuel names (r : rstate S) op : r_meta (fst (hist_op k S fuel names r op)) = r_meta r.
  Proof.
    unfold hist_op.
    assert (Hgf : forall name, r_meta (fst (get_file FN TS TC TA TE S r name)) = r_meta r).
    { intros name. unfold get_file. destruct (flookup (r_meta r) name); [|reflexivity].
      destruct (fi_offsets f); [reflexivity|]. destruct (sk S (r_src r) _) as [s1 [v|e|c]]; try reflexivity.
      destruct (parse_block FN TS TC TA TE S s1) as [s2 [[]|e|c]]; reflexivity. }
    assert (Hgh : forall name, r_meta (fst (get_hash FN TS TC TA TE S r name)) = r_meta r).
    { intros name. unfold get_hash. destruct (flookup (r_meta r) name); [|reflexivity].
      destruct (sk S (r_src r) _) as [s1 [v|e|c]]; try reflexivity.
      destruct (parse_block FN TS TC TA TE S s1) as [s2 [[]|e|c]]; reflexivity. }
    assert (Hfile : forall i sizes to_end,
      r_meta (fst (match get_file FN TS TC TA TE S r (nth (N.to_nat i) names []) with
                   | (r1, Ok (Some (b, size))) =>
                     let '(b1, rows) := do_reads k S fuel fuel b sizes to_end in (mkR (b_src b1) (r_meta r1), [7; size] :: rows)
                   | (r1, Ok None) => (r1, [[4]])
                   | (r1, x) => (r1, [err_row x])
                   end)) = r_meta r).
    { intros i sizes to_end. pose proof (Hgf (nth (N.to_nat i) names [])) as H.
      destruct (get_file FN TS TC TA TE S r _) as [r1 [[[b sz]|]|e|c]]; cbn [fst] in H |- *; try exact H.
      destruct (do_reads k S fuel fuel b sizes to_end). exact H. }
    destruct op as [|c0 rest]; [reflexivity|].
    destruct c0 as [|p]; [destruct rest; reflexivity|].
    repeat (destruct p as [p|p|]; try reflexivity);
      lazymatch goal with
      | |- context [linear_extract] => destruct (linear_extract FN TS TC TA TE S fuel r _); reflexivity
      | |- context [get_hash] =>
        destruct rest as [|i [|? ?]]; try reflexivity; pose proof (Hgh (nth (N.to_nat i) names [])) as H;
        destruct (get_hash FN TS TC TA TE S r _) as [r1 [[h|]|e|c]]; exact H
      | |- context [do_reads k S fuel fuel _ _ true] => destruct rest as [|i [|n [|? ?]]]; try reflexivity; apply Hfile
      | |- context [get_file] => destruct rest as [|i sizes]; [reflexivity|]; apply Hfile
      end.
  Qed.

  (* a whole history *)
  Theorem hist_groups_src_eq F fuel names : forall ops (r : rstate S),
    Foffs F fuel (r_meta r) ->
    Forall2 (op_fuelled fuel names) (hist_readers k S fuel names r ops) ops ->
    hist_groups_src F fuel names (rep_r r) ops = hist_groups k S fuel names r ops.
  Proof.
    induction ops as [|op rest IH]; intros r HFo Hall; cbn [hist_groups_src hist_groups hist_readers] in *; [reflexivity|].
    inversion Hall as [|? ? ? ? Hop Hrest]; subst.
    rewrite (hist_op_src_eq F fuel names r op HFo Hop).
    destruct (hist_op k S fuel names r op) as [r1 rows] eqn:E. cbn [fst snd] in *. f_equal.
    apply IH; [|exact Hrest]. pose proof (hist_op_meta fuel names r op) as Hm. rewrite E in Hm. cbn [fst] in Hm. rewrite Hm. exact HFo.
  Qed.
End HistSrc.

(* ---------- the translated layer stack ---------- *)
Section StackHistSrc.
  Variable k : consts.
  Variables CHUNK TAG BLOCK : N.
  Variable ks : N -> N -> N.
  Variable tagc : N -> bytes -> bytes.
  Variable dec : bytes -> bytes.
  Hypothesis HCHUNK : 0 < CHUNK.
  Hypothesis Hfits : cts_fits CHUNK TAG.          (* CHUNK_TAG_SIZE <= u64::MAX *)
  Hypothesis HB32 : BLOCK < 2 ^ 32.
  Hypothesis HB0 : BLOCK <> 0.
  Variable Src : Stream.
  Hypothesis HSrc : SeekForgetsP Src (fun _ _ => True).
  Variables site_index site_enc s1 s2 s3 : N.
  Variable fuel_enc : nat.

  Notation T := (StackSrc CHUNK TAG BLOCK ks tagc dec Src site_enc s1 s2 s3 fuel_enc).
  Notation M := (CompS CHUNK TAG BLOCK ks tagc dec Src).
  Notation EncT := (EncSrcS CHUNK TAG ks tagc Src site_enc fuel_enc).
  Notation EncM := (EncS CHUNK TAG ks tagc Src).
  Notation Aenc := (Aenc CHUNK TAG ks tagc Src site_enc fuel_enc).
  Notation Astack := (Astack CHUNK TAG BLOCK ks tagc dec Src site_enc s1 s2 s3 fuel_enc).
  Notation Gstack := (Gstack CHUNK TAG BLOCK ks tagc dec Src).

  (* the Rust data of the three translated layers as the model's stack state: the AesGcm256 object is dropped *)
  Definition absE (x : st EncT) : st EncM :=
    @mkE (RawS Src) (abs_raw Src (Src3e.eli_inner _ x)) (Src3e.eli_cache _ x) (Src3e.eli_cache_pos _ x) (Src3e.eli_chunk _ x).
  Definition absS (s : Src3c.Rd.CompressionLayerReaderState EncT) : cstate EncM :=
    match s with
    | Src3c.Rd.Ready _ i => CReady (absE i)
    | Src3c.Rd.InData _ r u d => CInData r u (@mkDec EncM (absE (d_in d)) (d_plain d) (d_off d))
    | Src3c.Rd.Empty _ => CEmpty
    end.
  Definition absStack (x : st T) : st M :=
    mkC (absS (Src3c.Rd.clr_state _ x)) (Src3c.Rd.clr_sizes_info _ x) (Src3c.Rd.clr_underlayer_pos _ x).

  Lemma Aenc_iff x e : Aenc x e <-> e = absE x.
  Proof.
    unfold Carry2SimLayers.Aenc, liftE, absE, SrcTie3Enc.abs. split.
    - intros (y & -> & H1 & H2 & H3 & H4). destruct e as [i c p n]. cbn [e_in e_cache e_cpos e_chunk] in *. subst. reflexivity.
    - intros ->. eexists. split; [reflexivity|]. cbn [e_in e_cache e_cpos e_chunk]. repeat split.
  Qed.
  Lemma Astack_iff x c : Astack x c <-> wf EncT x /\ c = absStack x.
  Proof.
    unfold Carry2SimLayers.Astack, liftC, absStack, SrcTie3Comp.abs. split.
    - intros (y & [Hw ->] & Hs & Hsi & Hp). split; [exact Hw|]. destruct c as [stc si p]. cbn [c_state c_si c_pos] in *. subst si p.
      f_equal. destruct (Src3c.Rd.clr_state EncT x) as [i|r u d|], stc as [i2|r2 u2 d2|]; cbn [abs_state liftS absS] in *; try contradiction.
      + apply Aenc_iff in Hs. now subst.
      + destruct Hs as (-> & -> & Ha & Hpl & Hof). apply Aenc_iff in Ha. destruct d2 as [di dp dof]. cbn [d_in d_plain d_off] in *. now subst.
      + reflexivity.
    - intros [Hw ->]. eexists. split; [split; [exact Hw | reflexivity]|]. cbn [c_state c_si c_pos]. split; [|split; reflexivity].
      destruct (Src3c.Rd.clr_state EncT x) as [i|r u d|]; cbn [abs_state liftS absS d_in d_plain d_off].
      + apply Aenc_iff. reflexivity.
      + repeat split. apply Aenc_iff. reflexivity.
      + exact I.
  Qed.

  Notation hop_src := (hist_op_src k T site_index).
  Notation hgroups_src := (hist_groups_src k T site_index).

  (* C10 ON THE GENERATED CODE.  ar0 is any translated ArchiveReader over the translated stack (x0: the stack state,
     m: the footer it holds).  If the stack is not poisoned (Gstack: not Empty, sizes table si0, raw offset off0) and
     every operation of the history, run on THIS reader, leaves it so, then in the history the rows of every
     operation are the rows it produces on ar0 itself, whatever was listed, hashed, opened, read, abandoned or
     linearly extracted before. *)
  Theorem history_independent_stack_src si0 off0 F fuel names m (x0 : st T) ops :
    let ar0 := Src3d.mkAR T x0 (Some m) in
    wf EncT x0 -> Gstack si0 off0 (absStack x0) ->
    Forall (fun op => Gstack si0 off0 (absStack (Src3d.ar_src T (fst (hop_src F fuel names ar0 op))))) ops ->
    Foffs F fuel m ->
    Forall (op_fuelled k T fuel names (mkR x0 m)) ops ->
    Forall2 (op_fuelled k T fuel names) (hist_readers k T fuel names (mkR x0 m) ops) ops ->
    hgroups_src F fuel names ar0 ops = map (fun op => snd (hop_src F fuel names ar0 op)) ops.
  Proof.
    intros ar0 Hw HG0 HGops HFo Hfresh Halong.
    set (r0T := @mkR T x0 m). set (r0M := @mkR M (absStack x0) m).
    assert (HX : XRH T M Astack r0T r0M).
    { split; [|reflexivity]. cbn [r_src]. apply Astack_iff. split; [exact Hw | reflexivity]. }
    pose proof (sim_stack CHUNK TAG BLOCK ks tagc dec HCHUNK Hfits HB32 HB0 Src site_enc s1 s2 s3 fuel_enc) as Hsim.
    (* every operation on the fresh reader: translated = model over T ~ model over M *)
    assert (Hop : forall op, In op ops ->
              hop_src F fuel names ar0 op = (rep_r T (fst (hist_op k T fuel names r0T op)), snd (hist_op k M fuel names r0M op)) /\
              r_src (fst (hist_op k M fuel names r0M op)) = absStack (r_src (fst (hist_op k T fuel names r0T op)))).
    { intros op Hin. pose proof (proj1 (Forall_forall _ _) Hfresh op Hin) as Hf.
      change ar0 with (rep_r T r0T). rewrite (hist_op_src_eq k T site_index F fuel names r0T op HFo Hf).
      destruct (hist_op_resp k T M Astack Hsim fuel names r0T r0M op HX) as [Hr [Hx' _]].
      rewrite Hr. split; [reflexivity|]. apply Astack_iff in Hx'. exact (proj2 Hx'). }
    change ar0 with (rep_r T r0T) at 1.
    rewrite (hist_groups_src_eq k T site_index F fuel names ops r0T HFo Halong).
    rewrite (hist_groups_resp k T M Astack Hsim fuel names ops r0T r0M HX).
    assert (HGM : Forall (fun op => Gstack si0 off0 (r_src (fst (hist_op k M fuel names r0M op)))) ops).
    { apply Forall_forall. intros op Hin. pose proof (proj1 (Forall_forall _ _) HGops op Hin) as Hg. cbv beta in Hg.
      destruct (Hop op Hin) as [E1 E2]. rewrite E1 in Hg. cbn [fst rep_r Src3d.ar_src] in Hg. rewrite E2. exact Hg. }
    destruct (stack_hist_independent k CHUNK TAG BLOCK ks tagc dec Src HSrc si0 off0 fuel names r0M ops HG0 HGM) as [Hgr _].
    rewrite Hgr. apply map_ext_in. intros op Hin. destruct (Hop op Hin) as [E1 _]. rewrite E1. reflexivity.
  Qed.
End StackHistSrc.
