(* SrcTie3Cfg.v — Tie A level 1 for the CONSTRUCTION paths (work package cfgT), part 1: the builders of
   config.rs / encrypt.rs / compress.rs and `ArchiveWriter::from_config`.

   gen/Src3f.v (tools/src2v3_cfg.py) holds the functions translated statement by statement; the layer
   constructors are section variables there.  Here they are instantiated with the DATA of Config.v (a stack is
   a value: which layers, in which order, with which parameters) and the result is compared with the model:

     layers_consts_src            the bitflags constants are Format.L_ENCRYPT / L_COMPRESS, DEFAULT = both, all() = 3
     contains_encrypt_src, …      `contains(Layers::X)` is Format.has_bit for the two single-bit flags
     enable_layer_src, set_layers_src, is_layers_enabled_src     = Builders.v
     disable_layer_src            = Config.disable_layer_flags (bitflags' `!` truncates), for every value;
     disable_layer_known_src      = Builders.disable_layer when the receiver has no unknown bit;
     disable_layer_differs        the concrete value where Builders.disable_layer is imprecise (5, COMPRESS)
     add_public_keys_src          EXTENDS the recipient list, touches nothing else
     with_compression_level_src   refuses > 11 and changes nothing; otherwise sets the level only
     check_src                    = Builders.config_check
     to_persistent_src            = Config.to_persistent_full (the layers byte as it is; the encryption part iff enabled)
     writer_from_config_src       the stack built by the translated from_config = Config.writer_stack,
                                  for EVERY configuration, recipient list and drawn bytes (same error otherwise)
     writer_from_config_fresh_src the rest of the ArchiveWriter is the fresh state (abstracts to Writer.w_init)
     writer_from_config_archive_src   hence Archive.archive_write runs the stack the translated code built
     writer_total_src             construction returns a value or an error: never a panic (C08) *)
From Coq Require Import ZifyBool ZifyNat ZifyN Lia.
From MLA Require Import Limit.
From MLA Require Import Base Stream Blocks Writer Format Ecies Archive Builders CfgPrims Config ConfigProofs
  HeaderStream SrcTie3Header.
From MLAGen Require Src2 Src3e Src3h Src3f.
Open Scope N_scope.

(* ---------- constants and flag tests ---------- *)
Lemma layers_consts_src :
  Src3f.Layers_ENCRYPT = L_ENCRYPT /\ Src3f.Layers_COMPRESS = L_COMPRESS /\
  Src3f.Layers_DEFAULT = N.lor L_ENCRYPT L_COMPRESS /\ Src3f.Layers_EMPTY = 0 /\ Src3f.Layers_DEBUG = 0 /\
  Src3f.Layers_ALL = L_ALL /\ Src3f.Layers_default = 3.
Proof. repeat split; reflexivity. Qed.

Lemma land_pow2 l k : N.land l (2 ^ k) = if N.testbit l k then 2 ^ k else 0.
Proof.
  apply N.bits_inj; intros n. rewrite N.land_spec, N.pow2_bits_eqb.
  destruct (N.eqb_spec k n) as [->|Hn].
  - destruct (N.testbit l n); [rewrite N.pow2_bits_true | rewrite N.bits_0]; rewrite ?andb_true_r, ?andb_false_r; reflexivity.
  - rewrite andb_false_r. destruct (N.testbit l k); [rewrite N.pow2_bits_false by congruence | rewrite N.bits_0]; reflexivity.
Qed.
Lemma contains_pow2 l k : flags_contains l (2 ^ k) = has_bit l (2 ^ k).
Proof.
  unfold flags_contains, has_bit. rewrite land_pow2. destruct (N.testbit l k).
  - rewrite N.eqb_refl. assert (H0 : 2 ^ k <> 0) by (apply N.pow_nonzero; discriminate).
    apply N.eqb_neq in H0. rewrite H0. reflexivity.
  - assert (H0 : 2 ^ k <> 0) by (apply N.pow_nonzero; discriminate).
    destruct (N.eqb_spec 0 (2 ^ k)) as [E|_]; [congruence | reflexivity].
Qed.
Lemma contains_encrypt_src l : flags_contains l Src3f.Layers_ENCRYPT = has_bit l L_ENCRYPT.
Proof. exact (contains_pow2 l 0). Qed.
Lemma contains_compress_src l : flags_contains l Src3f.Layers_COMPRESS = has_bit l L_COMPRESS.
Proof. exact (contains_pow2 l 1). Qed.

(* ---------- the writer's configuration as the model's record ---------- *)
Definition absWC (c : Src3f.ArchiveWriterConfig) : wconf :=
  mkWConf (Src3f.awc_layers_enabled c) (Src3f.cc_compression_level (Src3f.awc_compress c))
          (Src3f.ec_ecc_keys (Src3f.awc_encrypt c)) (Src3f.ec_key (Src3f.awc_encrypt c)) (Src3f.ec_nonce (Src3f.awc_encrypt c)).

(* the interpretation of the source's errors in the model's coarser classes (Archive.v, head) *)
Definition err_of_config (e : Src3f.ConfigError) : err :=
  match e with
  | Src3f.IncoherentPersistentConfig => EInval
  | Src3f.CompressionLevelOutOfRange => EInval
  | _ => EKey
  end.
Definition err_of_Error (e : Src3f.Error) : err :=
  match e with
  | Src3f.PrivateKeyNeeded => EKey
  | Src3f.ConfigError_ c => err_of_config c
  | Src3f.Callee x => x
  end.

(* ---------- builders ---------- *)
Lemma new_src k n : absWC (Src3f.ArchiveWriterConfig_new k n) = mkWConf 0 5 [] k n.
Proof. reflexivity. Qed.
Lemma default_src k n : absWC (Src3f.ArchiveWriterConfig_default k n) = mkWConf 3 5 [] k n.
Proof. reflexivity. Qed.
Lemma enable_layer_src c l :
  absWC (Src3f.enable_layer c l) =
  mkWConf (enable_layer (wl_layers (absWC c)) l) (wl_level (absWC c)) (wl_recipients (absWC c)) (wl_key (absWC c)) (wl_nonce (absWC c)).
Proof. reflexivity. Qed.
Lemma set_layers_src c l :
  absWC (Src3f.set_layers c l) =
  mkWConf (set_layers (wl_layers (absWC c)) l) (wl_level (absWC c)) (wl_recipients (absWC c)) (wl_key (absWC c)) (wl_nonce (absWC c)).
Proof. reflexivity. Qed.
Lemma is_layers_enabled_src c l : Src3f.is_layers_enabled c l = is_layers_enabled (wl_layers (absWC c)) l.
Proof. reflexivity. Qed.
Lemma disable_layer_src c l :
  absWC (Src3f.disable_layer c l) =
  mkWConf (disable_layer_flags (wl_layers (absWC c)) l) (wl_level (absWC c)) (wl_recipients (absWC c)) (wl_key (absWC c)) (wl_nonce (absWC c)).
Proof. reflexivity. Qed.

(* without unknown bits in the receiver, bitflags' truncating complement is invisible *)
Lemma disable_layer_flags_known e l : N.land e L_ALL = e -> disable_layer_flags e l = disable_layer e l.
Proof.
  intros He. unfold disable_layer_flags, disable_layer. apply N.bits_inj; intros n.
  apply (f_equal (fun v => N.testbit v n)) in He. rewrite N.land_spec in He.
  rewrite N.land_spec, !N.ldiff_spec. destruct (N.testbit e n), (N.testbit L_ALL n), (N.testbit l n); cbn in *; congruence.
Qed.
Lemma disable_layer_known_src c l : N.land (Src3f.awc_layers_enabled c) L_ALL = Src3f.awc_layers_enabled c ->
  Src3f.awc_layers_enabled (Src3f.disable_layer c l) = disable_layer (Src3f.awc_layers_enabled c) l.
Proof. intros He. exact (disable_layer_flags_known _ l He). Qed.
(* MODEL IMPRECISION (Builders.disable_layer): the receiver holds the unknown bit 4 (reachable:
   set_layers(Layers::from_bits_retain(5))); disabling COMPRESS leaves ENCRYPT alone in the source, 5 in Builders.v *)
Example disable_layer_differs :
  Src3f.awc_layers_enabled (Src3f.disable_layer (Src3f.set_layers (Src3f.ArchiveWriterConfig_new [] []) 5) Src3f.Layers_COMPRESS) = 1 /\
  disable_layer 5 L_COMPRESS = 5.
Proof. split; reflexivity. Qed.

Lemma add_public_keys_src c keys :
  absWC (Src3f.add_public_keys c keys) =
  mkWConf (wl_layers (absWC c)) (wl_level (absWC c)) (wl_recipients (absWC c) ++ keys) (wl_key (absWC c)) (wl_nonce (absWC c)).
Proof. reflexivity. Qed.
Lemma with_compression_level_src c lvl :
  Src3f.with_compression_level c lvl =
  if 11 <? lvl then (c, CErr Src3f.CompressionLevelOutOfRange)
  else (Src3f.set_awc_compress c (Src3f.mkCC lvl), COk tt).
Proof. reflexivity. Qed.
Lemma with_compression_level_abs c lvl c' : Src3f.with_compression_level c lvl = (c', COk tt) ->
  lvl <= 11 /\
  absWC c' = mkWConf (wl_layers (absWC c)) lvl (wl_recipients (absWC c)) (wl_key (absWC c)) (wl_nonce (absWC c)).
Proof.
  rewrite with_compression_level_src. destruct (N.ltb_spec 11 lvl); [discriminate|].
  intros [= <-]. split; [assumption | reflexivity].
Qed.

Lemma check_src c :
  to_res err_of_config (Src3f.ArchiveWriterConfig_check c) =
  config_check (has_bit (Src3f.awc_layers_enabled c) L_ENCRYPT) (len (Src3f.ec_ecc_keys (Src3f.awc_encrypt c))).
Proof.
  unfold Src3f.ArchiveWriterConfig_check, Src3f.is_layers_enabled, config_check. rewrite contains_encrypt_src.
  destruct (has_bit (Src3f.awc_layers_enabled c) L_ENCRYPT); [|reflexivity].
  unfold Src3f.EncryptionConfig_check. destruct (Src3f.ec_ecc_keys (Src3f.awc_encrypt c)); reflexivity.
Qed.

(* ---------- the instance: layers as data ---------- *)
Section Writer.
  Variable pubk : bytes -> bytes.
  Variable dh : bytes -> bytes -> bytes.
  Variable kdf : bytes -> bytes.
  Variables wenc wtag : bytes -> bytes -> bytes.
  Variable retrieve_key : (bytes * list (bytes * bytes)) -> bytes -> res (option bytes).   (* not used by the writer *)

  (* crypto/ecc.rs store_key_for_multi_recipients = Ecies.store_key (SrcTie3Ecies.store_key_src) *)
  Definition store_key_m (keys : list bytes) (key rng : bytes) : res (bytes * list (bytes * bytes)) :=
    let m := store_key pubk dh kdf wenc wtag keys key rng in Ok (m_public m, m_keys m).
  (* the layer constructors, as data *)
  Definition w_raw_new (dest : bytes) : wstack := WRaw dest.
  Definition w_enc_new (inner : wstack) (ec : Src3f.EncryptionConfig) : res wstack :=
    Ok (WEnc inner (Src3f.ec_key ec) (Src3f.ec_nonce ec)).
  Definition w_comp_new (inner : wstack) (cc : Src3f.CompressionConfig) : wstack := WComp inner (Src3f.cc_compression_level cc).
  Definition w_pos_new (inner : wstack) : pstack := mkP inner 0.
  Definition w_pos_reset (p : pstack) : pstack := mkP (p_inner p) 0.

  Definition g_writer_from_config :=
    Src3f.ArchiveWriter_from_config store_key_m wstack pstack w_raw_new w_enc_new w_comp_new w_pos_new w_pos_reset.
  Notation LIMIT := Src3h.BINCODE_MAX_DESERIALIZE.

  Lemma to_persistent_src c eph :
    Src3f.ArchiveWriterConfig_to_persistent store_key_m c eph = COk (to_persistent_full pubk dh kdf wenc wtag (absWC c) eph).
  Proof.
    unfold Src3f.ArchiveWriterConfig_to_persistent, Src3f.is_layers_enabled, to_persistent_full.
    rewrite contains_encrypt_src. cbn [absWC wl_layers wl_recipients wl_key wl_nonce].
    destruct (has_bit (Src3f.awc_layers_enabled c) L_ENCRYPT); reflexivity.
  Qed.

  (* ArchiveWriter::from_config, translated, builds the model's stack: every configuration *)
  Theorem writer_from_config_src c eph :
    to_res err_of_Error (cmap (Src3f.aw_dest pstack) (g_writer_from_config [] c eph)) =
    writer_stack LIMIT pubk dh kdf wenc wtag (absWC c) eph.
  Proof.
    unfold g_writer_from_config, Src3f.ArchiveWriter_from_config, writer_stack.
    unfold Src3f.ArchiveWriterConfig_check, Src3f.is_layers_enabled. rewrite !contains_encrypt_src, contains_compress_src.
    rewrite to_persistent_src. cbn [absWC wl_layers wl_recipients wl_key wl_nonce wl_level].
    destruct (has_bit (Src3f.awc_layers_enabled c) L_ENCRYPT) eqn:He; cbn [andb].
    - unfold Src3f.EncryptionConfig_check.
      destruct (Src3f.ec_ecc_keys (Src3f.awc_encrypt c)) as [|r0 rs] eqn:Hr; [reflexivity|].
      cbn [vec_is_empty cbind cmap_err].
      rewrite header_dump_src_gen. unfold dump_header.
      destruct (LIMIT <? config_size _); [reflexivity|].
      cbn [app bind w_raw_new w_enc_new cres_of cbind].
      destruct (has_bit (Src3f.awc_layers_enabled c) L_COMPRESS); reflexivity.
    - cbn [cbind cmap_err].
      rewrite header_dump_src_gen. unfold dump_header.
      destruct (LIMIT <? config_size _); [reflexivity|].
      cbn [app bind w_raw_new cbind].
      destruct (has_bit (Src3f.awc_layers_enabled c) L_COMPRESS); reflexivity.
  Qed.

  (* … and the rest of the struct is the fresh writer state, the configuration is kept as given *)
  Theorem writer_from_config_fresh_src c eph w : g_writer_from_config [] c eph = COk w ->
    Src3f.aw_config _ w = c /\
    Src3f.aw_state _ w = Src2.OpenedFiles [] [] /\ Src3f.aw_files_info _ w = [] /\ Src3f.aw_ids_info _ w = [] /\
    Src3f.aw_next_id _ w = 0 /\ Src3f.aw_current_id _ w = 0.
  Proof.
    unfold g_writer_from_config, Src3f.ArchiveWriter_from_config.
    destruct (cmap_err Src3f.Error_from_ConfigError (Src3f.ArchiveWriterConfig_check c)) as [[]|e|x]; cbn [cbind]; try discriminate.
    destruct (cmap_err Src3f.Error_from_ConfigError (Src3f.ArchiveWriterConfig_to_persistent store_key_m c eph)) as [h|e|x];
      cbn [cbind]; try discriminate.
    destruct (Src3h.ArchiveHeader_dump Src3h.MLA_FORMAT_VERSION h []) as [d [[]|e|x]]; try discriminate.
    destruct (Src3f.is_layers_enabled c Src3f.Layers_ENCRYPT); cbn [w_enc_new cres_of cbind]; intros [= <-]; repeat split.
  Qed.

  (* construction is total: a value or an error, for every configuration and every drawn bytes *)
  Theorem writer_total_src c eph : forall x, g_writer_from_config [] c eph <> CCrash x.
  Proof.
    intros x Hx.
    assert (Hr := writer_from_config_src c eph). rewrite Hx in Hr. cbn [cmap to_res] in Hr.
    unfold writer_stack in Hr.
    destruct (has_bit (wl_layers (absWC c)) L_ENCRYPT && _); [discriminate|].
    unfold dump_header in Hr. destruct (LIMIT <? config_size _); discriminate.
  Qed.

  (* the refusals, exactly: encryption enabled without a recipient is EncryptionKeyIsMissing and NOTHING is written
     (the error precedes the header dump); the only other error is the header over bincode's limit *)
  Theorem writer_refuses_no_recipient_src c eph :
    has_bit (Src3f.awc_layers_enabled c) L_ENCRYPT = true -> Src3f.ec_ecc_keys (Src3f.awc_encrypt c) = [] ->
    g_writer_from_config [] c eph = CErr (Src3f.ConfigError_ Src3f.EncryptionKeyIsMissing).
  Proof.
    intros He Hr. unfold g_writer_from_config, Src3f.ArchiveWriter_from_config, Src3f.ArchiveWriterConfig_check,
      Src3f.is_layers_enabled, Src3f.EncryptionConfig_check.
    rewrite contains_encrypt_src, He, Hr. reflexivity.
  Qed.
End Writer.

(* ---------- Archive.archive_write runs the stack the TRANSLATED from_config built ---------- *)
Section Archive.
  Variables CHUNK CIPHERBUF BLOCK FNMAX TS TC TA TE : N.
  Notation LIMIT := Src3h.BINCODE_MAX_DESERIALIZE.
  Local Hint Extern 0 Limit => exact LIMIT : typeclass_instances.
  Variable H : bytes -> bytes.
  Variable order : footer -> footer.
  Variable pubk : bytes -> bytes.
  Variable dh : bytes -> bytes -> bytes.
  Variable kdf : bytes -> bytes.
  Variables wenc wtag : bytes -> bytes -> bytes.
  Variable ksf : bytes -> bytes -> N -> N -> N.
  Variable tagf : bytes -> bytes -> N -> bytes -> bytes.
  Variable compf : N -> bytes -> bytes.

  Theorem writer_from_config_archive_src c eph cut_top cut_mid ops : Src3f.awc_layers_enabled c < 4 ->
    archive_write CHUNK CIPHERBUF BLOCK LIMIT FNMAX TS TC TA TE H order pubk dh kdf wenc wtag ksf tagf
                  (wconfig_of compf (absWC c) eph) cut_top cut_mid ops =
    do p <- to_res err_of_Error (cmap (Src3f.aw_dest pstack) (g_writer_from_config pubk dh kdf wenc wtag [] c eph));
    let '(sf, rs) := wrun FNMAX TS TC TA TE H order w_init (ops ++ [OFinalize]) in
    do _ <- first_bad rs;
    run_wstack CHUNK CIPHERBUF BLOCK LIMIT ksf tagf compf (p_inner p) (cut_pieces cut_top (w_out sf)) [cut_mid].
  Proof.
    intros Hl. rewrite writer_from_config_src.
    exact (archive_write_is_stack CHUNK CIPHERBUF BLOCK LIMIT FNMAX TS TC TA TE H order pubk dh kdf wenc wtag ksf tagf compf
             (absWC c) eph cut_top cut_mid ops Hl).
  Qed.
End Archive.

(* ---------- non-vacuity, through the generated code ---------- *)
Definition ex_pubk (b : bytes) : bytes := map (fun x => (x + 1) mod 256) b.
Definition ex_dh (a b : bytes) : bytes := a ++ b.
Definition ex_kdf (b : bytes) : bytes := b.
Definition ex_wenc (k m : bytes) : bytes := m.
Definition ex_wtag (k c : bytes) : bytes := takeN 16 (k ++ repeat 0 16).
Definition ex_cfg : Src3f.ArchiveWriterConfig :=
  Src3f.add_public_keys (Src3f.add_public_keys (Src3f.ArchiveWriterConfig_default (repeat 7 32) (repeat 9 8)) [repeat 1 32]) [repeat 2 32].
Example writer_from_config_examples :
  (* default layers, two recipients added in two calls: compress over encrypt over raw, position 0 *)
  (exists hdr, cmap (Src3f.aw_dest pstack) (g_writer_from_config ex_pubk ex_dh ex_kdf ex_wenc ex_wtag [] ex_cfg (repeat 5 32)) =
     COk (mkP (WComp (WEnc (WRaw hdr) (repeat 7 32) (repeat 9 8)) 5) 0) /\ len hdr = 153 /\ nth 7 hdr 0 = 3) /\
  (* encryption disabled again: compress over raw, no encryption part in the header *)
  cmap (Src3f.aw_dest pstack) (g_writer_from_config ex_pubk ex_dh ex_kdf ex_wenc ex_wtag [] (Src3f.disable_layer ex_cfg Src3f.Layers_ENCRYPT) (repeat 5 32)) =
     COk (mkP (WComp (WRaw [77; 76; 65; 1; 0; 0; 0; 2; 0]) 5) 0) /\
  (* default configuration without recipient: refused, EncryptionKeyIsMissing *)
  g_writer_from_config ex_pubk ex_dh ex_kdf ex_wenc ex_wtag [] (Src3f.ArchiveWriterConfig_default [] []) [] =
     CErr (Src3f.ConfigError_ Src3f.EncryptionKeyIsMissing) /\
  (* no layer *)
  cmap (Src3f.aw_dest pstack) (g_writer_from_config ex_pubk ex_dh ex_kdf ex_wenc ex_wtag [] (Src3f.ArchiveWriterConfig_new [] []) []) =
     COk (mkP (WRaw [77; 76; 65; 1; 0; 0; 0; 0; 0]) 0) /\
  fst (Src3f.with_compression_level ex_cfg 12) = ex_cfg /\ snd (Src3f.with_compression_level ex_cfg 12) = CErr Src3f.CompressionLevelOutOfRange.
Proof. vm_compute. repeat split; try reflexivity. eexists. repeat split. Qed.

Print Assumptions writer_from_config_src.
Print Assumptions writer_from_config_fresh_src.
Print Assumptions writer_from_config_archive_src.
Print Assumptions writer_total_src.
Print Assumptions disable_layer_src.
