(* KeysProofs.v — machine-checked facts about the model in Keys.v (property C18).
   No Admitted / admit / Axiom / Parameter.  Every main theorem is followed by
   Print Assumptions. *)
From MLA Require Import Base Keys.
From Coq Require Import ZifyBool ZifyNat ZifyN.
Open Scope N_scope.

(* ================= (a) export / parse round trip ================= *)
(* wf_bytes k is not needed: the parsers never look at the key octets *)


Lemma length32 (k : bytes) : length k = 32%nat ->
  exists a0 a1 a2 a3 a4 a5 a6 a7 a8 a9 a10 a11 a12 a13 a14 a15 a16 a17 a18 a19 a20 a21 a22 a23 a24 a25 a26 a27 a28 a29 a30 a31,
  k = [a0;a1;a2;a3;a4;a5;a6;a7;a8;a9;a10;a11;a12;a13;a14;a15;a16;a17;a18;a19;a20;a21;a22;a23;a24;a25;a26;a27;a28;a29;a30;a31].
Proof.
  intros H.
  do 32 (destruct k as [|? k]; [discriminate H|]).
  destruct k; [|discriminate H].
  repeat eexists.
Qed.

Theorem parse_export_priv : forall k, length k = 32%nat -> parse_priv_der (export_priv_der k) = Ok (X, k).
Proof.
  intros k H. destruct (length32 k H) as (a0&a1&a2&a3&a4&a5&a6&a7&a8&a9&a10&a11&a12&a13&a14&a15&a16&a17&a18&a19&a20&a21&a22&a23&a24&a25&a26&a27&a28&a29&a30&a31&->).
  vm_compute. reflexivity.
Qed.
Print Assumptions parse_export_priv.
Theorem parse_export_pub : forall k, length k = 32%nat -> parse_pub_der (export_pub_der k) = Ok (X, k).
Proof.
  intros k H. destruct (length32 k H) as (a0&a1&a2&a3&a4&a5&a6&a7&a8&a9&a10&a11&a12&a13&a14&a15&a16&a17&a18&a19&a20&a21&a22&a23&a24&a25&a26&a27&a28&a29&a30&a31&->).
  vm_compute. reflexivity.
Qed.
Print Assumptions parse_export_pub.

(* ================= (b) base64 ================= *)


Lemma lt64_in v : v < 64 -> In v (map N.of_nat (seq 0 64)).
Proof.
  intros H. replace v with (N.of_nat (N.to_nat v)) by lia.
  apply in_map. apply in_seq. lia.
Qed.

Lemma b64_val_chr v : v < 64 -> b64_val (b64_chr v) = Some v.
Proof.
  intros H.
  assert (A : forallb (fun v => match b64_val (b64_chr v) with Some v' => v' =? v | None => false end)
                (map N.of_nat (seq 0 64)) = true) by (vm_compute; reflexivity).
  rewrite forallb_forall in A. specialize (A v (lt64_in v H)).
  destruct (b64_val (b64_chr v)); [|discriminate]. f_equal. lia.
Qed.

Definition b64c (c : N) : Prop := b64_val c <> None.

Lemma b64c_range c : b64c c -> c = 43 \/ (47 <= c <= 57) \/ (65 <= c <= 90) \/ (97 <= c <= 122).
Proof.
  unfold b64c, b64_val. intros H.
  destruct ((65 <=? c) && (c <=? 90)) eqn:E1; [lia|].
  destruct ((97 <=? c) && (c <=? 122)) eqn:E2; [lia|].
  destruct ((48 <=? c) && (c <=? 57)) eqn:E3; [lia|].
  destruct (c =? 43) eqn:E4; [lia|].
  destruct (c =? 47) eqn:E5; [lia|]. congruence.
Qed.

Lemma b64c_chr v : v < 64 -> b64c (b64_chr v).
Proof. intros H. unfold b64c. rewrite b64_val_chr by exact H. discriminate. Qed.

Lemma b64_chr_not_pad v : v < 64 -> (b64_chr v =? PAD) = false.
Proof. intros H. pose proof (b64c_range _ (b64c_chr v H)). unfold PAD. lia. Qed.

Lemma quad_arith x y z : x < 256 -> y < 256 -> z < 256 ->
  let va := x / 4 in let vb := (x mod 4) * 16 + y / 16 in
  let vc := (y mod 16) * 4 + z / 64 in let vd := z mod 64 in
  va < 64 /\ vb < 64 /\ vc < 64 /\ vd < 64 /\
  va * 4 + vb / 16 = x /\ (vb mod 16) * 16 + vc / 4 = y /\ (vc mod 4) * 64 + vd = z.
Proof.
  intros Hx Hy Hz. cbv zeta.
  pose proof (N.div_mod x 4). pose proof (N.mod_lt x 4).
  pose proof (N.div_mod y 16). pose proof (N.mod_lt y 16).
  pose proof (N.div_mod z 64). pose proof (N.mod_lt z 64).
  assert (((x mod 4) * 16 + y / 16) / 16 = x mod 4) by (symmetry; apply (N.div_unique _ 16 _ (y / 16)); lia).
  assert (((x mod 4) * 16 + y / 16) mod 16 = y / 16) by (symmetry; apply (N.mod_unique _ 16 (x mod 4) _); lia).
  assert (((y mod 16) * 4 + z / 64) / 4 = y mod 16) by (symmetry; apply (N.div_unique _ 4 _ (z / 64)); lia).
  assert (((y mod 16) * 4 + z / 64) mod 4 = z / 64) by (symmetry; apply (N.mod_unique _ 4 (y mod 16) _); lia).
  repeat split; lia.
Qed.

(* a quad of four alphabet symbols decodes the same way in last and non-last position *)
Lemma b64_decode_full a b c d va vb vc vd rest :
  b64_val a = Some va -> b64_val b = Some vb -> b64_val c = Some vc -> b64_val d = Some vd ->
  b64_decode (a :: b :: c :: d :: rest) =
  match b64_decode rest with Some o => Some (quad_bytes va vb vc vd ++ o) | None => None end.
Proof.
  intros Ha Hb Hc Hd.
  assert (Hcp : (c =? PAD) = false).
  { destruct (c =? PAD) eqn:E; [|reflexivity]. apply N.eqb_eq in E. subst c. vm_compute in Hc. discriminate. }
  assert (Hdp : (d =? PAD) = false).
  { destruct (d =? PAD) eqn:E; [|reflexivity]. apply N.eqb_eq in E. subst d. vm_compute in Hd. discriminate. }
  destruct rest as [|r0 rest].
  - cbn [b64_decode]. unfold b64_last. rewrite Ha, Hb, Hcp, Hc, Hdp, Hd. rewrite app_nil_r. reflexivity.
  - cbn [b64_decode]. rewrite Ha, Hb, Hc, Hd. reflexivity.
Qed.

Lemma b64_rt_n : forall n b, (length b <= n)%nat -> wf_bytes b -> b64_decode (b64_encode b) = Some b.
Proof.
  induction n as [|n IH]; intros b Hl Hw.
  - destruct b; [reflexivity | cbn in Hl; lia].
  - destruct b as [|x [|y [|z r]]].
    + reflexivity.
    + inversion Hw as [|? ? Hx _]; subst.
      destruct (quad_arith x 0 0 Hx) as (A&B&_&_&E1&_); try lia.
      cbn [b64_encode b64_decode]. unfold b64_last.
      replace (x mod 4 * 16 + 0 / 16) with (x mod 4 * 16) in * by (rewrite N.div_0_l; lia).
      rewrite !b64_val_chr by assumption.
      change (PAD =? PAD) with true. cbv iota.
      assert ((x mod 4 * 16) mod 16 = 0) by (apply N.mod_mul; lia).
      replace ((x mod 4 * 16) mod 16 =? 0) with true by lia.
      rewrite E1. reflexivity.
    + inversion Hw as [|? ? Hx Hw']; subst. inversion Hw' as [|? ? Hy _]; subst.
      destruct (quad_arith x y 0 Hx Hy) as (A&B&C&_&E1&E2&_); try lia.
      cbn [b64_encode b64_decode]. unfold b64_last.
      replace (y mod 16 * 4 + 0 / 64) with (y mod 16 * 4) in * by (rewrite N.div_0_l; lia).
      rewrite !b64_val_chr by assumption.
      rewrite (b64_chr_not_pad _ C).
      change (PAD =? PAD) with true. cbv iota.
      assert ((y mod 16 * 4) mod 4 = 0) by (apply N.mod_mul; lia).
      replace ((y mod 16 * 4) mod 4 =? 0) with true by lia.
      rewrite E1, E2. reflexivity.
    + inversion Hw as [|? ? Hx Hw']; subst. inversion Hw' as [|? ? Hy Hw'']; subst.
      inversion Hw'' as [|? ? Hz Hr]; subst.
      destruct (quad_arith x y z Hx Hy Hz) as (A&B&C&D&E1&E2&E3).
      cbn [b64_encode].
      rewrite (b64_decode_full _ _ _ _ _ _ _ _ _ (b64_val_chr _ A) (b64_val_chr _ B) (b64_val_chr _ C) (b64_val_chr _ D)).
      rewrite IH; [|cbn [length] in Hl; lia | exact Hr].
      unfold quad_bytes. rewrite E1, E2, E3. reflexivity.
Qed.

Theorem b64_decode_encode : forall b, wf_bytes b -> b64_decode (b64_encode b) = Some b.
Proof. intros b. apply (b64_rt_n (length b)). lia. Qed.
Print Assumptions b64_decode_encode.


(* ================= PEM framing ================= *)


(* ---------- read_until ---------- *)
Lemma ru_go_step_ne M x m' c s k : c <> x -> ru_go M (x :: m') (c :: s) k = ru_go M M s (S k).
Proof. intros H. cbn [ru_go]. replace (c =? x) with false by lia. reflexivity. Qed.
Lemma ru_go_step_eq M x y m' s k : ru_go M (x :: y :: m') (x :: s) k = ru_go M (y :: m') s (S k).
Proof. cbn [ru_go]. rewrite N.eqb_refl. reflexivity. Qed.
Lemma ru_go_step_fin M x s k : ru_go M [x] (x :: s) k = Some (S k).
Proof. cbn [ru_go]. rewrite N.eqb_refl. reflexivity. Qed.
Lemma ru_go_nil M m k : ru_go M m [] k = None.
Proof. reflexivity. Qed.

Lemma ru_go_match M : forall m post k, m <> [] -> ru_go M m (m ++ post) k = Some (k + length m)%nat.
Proof.
  induction m as [|x m IH]; intros post k H; [congruence|].
  destruct m as [|y m].
  - cbn [app]. rewrite ru_go_step_fin. f_equal. cbn [length]. lia.
  - change ((x :: y :: m) ++ post) with (x :: (y :: m) ++ post). rewrite ru_go_step_eq.
    rewrite IH by discriminate. f_equal. cbn [length]. lia.
Qed.

Lemma ru_go_skip0 x M' : forall pre s k, Forall (fun c => c <> x) pre ->
  ru_go (x :: M') (x :: M') (pre ++ s) k = ru_go (x :: M') (x :: M') s (k + length pre)%nat.
Proof.
  induction pre as [|c pre IH]; intros s k H.
  - cbn [app length]. f_equal. lia.
  - inversion H; subst. cbn [app]. rewrite ru_go_step_ne by assumption.
    rewrite IH by assumption. f_equal. cbn [length]. lia.
Qed.

Lemma ru_go_skip M : forall l s m k, M <> [] -> m <> [] -> incl m M -> l <> [] ->
  Forall (fun c => ~ In c M) l ->
  ru_go M m (l ++ s) k = ru_go M M s (k + length l)%nat.
Proof.
  induction l as [|c l IH]; intros s m k HM Hm Hi Hl HF; [congruence|].
  inversion HF as [|? ? Hc HF']; subst.
  destruct m as [|x m']; [congruence|].
  assert (c <> x) by (intros ->; apply Hc, Hi; left; reflexivity).
  cbn [app]. rewrite ru_go_step_ne by assumption.
  destruct l as [|c' l'].
  - cbn [app length]. f_equal. lia.
  - rewrite IH; try assumption; try discriminate.
    + f_equal. cbn [length]. lia.
    + apply incl_refl.
Qed.

Lemma read_until_hit M pre post : M <> [] -> Forall (fun c => c <> hd 0 M) pre ->
  read_until (pre ++ M ++ post) M = Some (post, pre).
Proof.
  intros HM H. destruct M as [|x M']; [congruence|]. cbn [hd] in H.
  unfold read_until. rewrite ru_go_skip0 by assumption.
  rewrite ru_go_match by discriminate.
  cbn [Nat.add].
  replace (length pre + length (x :: M') - length (x :: M'))%nat with (length pre) by lia.
  f_equal. f_equal.
  - rewrite app_assoc. rewrite <- app_length. rewrite skipn_app, skipn_all, Nat.sub_diag. reflexivity.
  - rewrite firstn_app, firstn_all, Nat.sub_diag. cbn [firstn]. apply app_nil_r.
Qed.
Lemma read_until_hit0 M post : M <> [] -> read_until (M ++ post) M = Some (post, []).
Proof. intros H. apply (read_until_hit M [] post H). constructor. Qed.

Lemma read_until_none M : M <> [] -> forall s, ru_go M M s 0 = None -> read_until s M = None.
Proof. intros HM s H. unfold read_until. destruct M; [congruence|]. rewrite H. reflexivity. Qed.

(* ---------- characters of the base64 body ---------- *)
Definition bodyc (c : N) : Prop :=
  c = 43 \/ (47 <= c <= 57) \/ c = 61 \/ (65 <= c <= 90) \/ (97 <= c <= 122).

Lemma b64_chr_bodyc v : bodyc (b64_chr v).
Proof. unfold bodyc, b64_chr. destruct (v <? 26) eqn:?, (v <? 52) eqn:?, (v <? 62) eqn:?, (v =? 62) eqn:?; lia. Qed.

Lemma b64_encode_bodyc : forall n b, (length b <= n)%nat -> Forall bodyc (b64_encode b).
Proof.
  induction n as [|n IH]; intros b Hl.
  - destruct b; [constructor | cbn in Hl; lia].
  - destruct b as [|x [|y [|z r]]]; cbn [b64_encode].
    + constructor.
    + repeat (constructor; [first [apply b64_chr_bodyc | unfold bodyc, PAD; lia]|]). constructor.
    + repeat (constructor; [first [apply b64_chr_bodyc | unfold bodyc, PAD; lia]|]). constructor.
    + repeat (constructor; [apply b64_chr_bodyc|]). apply IH. cbn [length] in Hl. lia.
Qed.

Lemma bodyc_not_ws_cp c : bodyc c -> is_ws_cp c = false.
Proof. unfold bodyc, is_ws_cp, in_range. intros H. lia. Qed.
Lemma bodyc_not_ws_byte c : bodyc c -> is_ws_byte c = false.
Proof. unfold bodyc, is_ws_byte. intros H. lia. Qed.

(* ---------- chunks ---------- *)
Lemma chunks_go_concat w : (1 <= w)%nat -> forall fuel l, (length l <= fuel)%nat ->
  concat (chunks_go fuel w l) = l.
Proof.
  intros Hw. induction fuel as [|f IH]; intros l Hl.
  - destruct l; [reflexivity | cbn in Hl; lia].
  - cbn [chunks_go]. destruct l as [|a l]; [reflexivity|]. cbn [is_nil concat].
    rewrite IH.
    + apply firstn_skipn.
    + rewrite skipn_length. cbn [length] in *. lia.
Qed.

Definition good_chunks (cs : list bytes) : Prop := Forall (fun c => c <> [] /\ Forall bodyc c) cs.

Lemma chunks_go_good w : (1 <= w)%nat -> forall fuel l, Forall bodyc l -> good_chunks (chunks_go fuel w l).
Proof.
  intros Hw. induction fuel as [|f IH]; intros l HF; [constructor|].
  cbn [chunks_go]. destruct l as [|a l]; [constructor|]. cbn [is_nil].
  constructor.
  - split.
    + destruct w; [lia|]. discriminate.
    + rewrite <- (firstn_skipn w (a :: l)) in HF. apply Forall_app in HF. apply HF.
  - apply IH. rewrite <- (firstn_skipn w (a :: l)) in HF. apply Forall_app in HF. apply HF.
Qed.

Section Body.
  Variable nl : bytes.
  Hypothesis Hnl : nl = CRLF \/ nl = LF.

  Definition body_of (cs : list bytes) : bytes := concat (map (fun c => c ++ nl) cs).

  Lemma nl_ws_cp : Forall (fun c => is_ws_cp c = true) nl.
  Proof. destruct Hnl; subst; repeat constructor. Qed.
  Lemma nl_props : Forall (fun c => c < 128 /\ c <> 45) nl.
  Proof. destruct Hnl; subst; unfold CRLF, LF; repeat constructor; lia. Qed.

  Lemma body_chars cs : good_chunks cs -> Forall (fun c => c < 128 /\ c <> 45) (body_of cs).
  Proof.
    induction 1 as [|c cs [_ Hc] _ IH]; [constructor|].
    unfold body_of. cbn [map concat]. apply Forall_app. split; [apply Forall_app; split|exact IH].
    - eapply Forall_impl; [|exact Hc]. unfold bodyc. intros; lia.
    - apply nl_props.
  Qed.

  Lemma filter_nl : filter (fun c => negb (is_ws_cp c)) nl = [].
  Proof. destruct Hnl; subst; reflexivity. Qed.

  Lemma body_filter cs : good_chunks cs ->
    filter (fun c => negb (is_ws_cp c)) (body_of cs) = concat cs.
  Proof.
    induction 1 as [|c cs [_ Hc] _ IH]; [reflexivity|].
    unfold body_of. cbn [map concat]. rewrite !filter_app, filter_nl, app_nil_r.
    unfold body_of in IH. rewrite IH. f_equal.
    clear -Hc. induction Hc as [|a c Ha _ IHc]; [reflexivity|].
    cbn [filter]. rewrite (bodyc_not_ws_cp a Ha). cbn [negb]. f_equal. exact IHc.
  Qed.

  Lemma ru_go_body_none M (HM : M = [10; 10] \/ M = [13; 10; 13; 10]) cs :
    good_chunks cs -> forall m k, m <> [] -> incl m M -> ru_go M m (body_of cs) k = None.
  Proof.
    induction 1 as [|c cs [Hne Hc] _ IH]; intros m k Hm Hi.
    - apply ru_go_nil.
    - unfold body_of. cbn [map concat]. fold (body_of cs). rewrite <- app_assoc.
      rewrite ru_go_skip; try assumption.
      + destruct HM as [-> | ->], Hnl as [-> | ->]; unfold CRLF, LF; cbn [app].
        * rewrite ru_go_step_ne by lia. rewrite ru_go_step_eq. apply IH; [discriminate|].
          intros ? [<-|[]]; cbn; tauto.
        * rewrite ru_go_step_eq. apply IH; [discriminate|]. intros ? [<-|[]]; cbn; tauto.
        * rewrite ru_go_step_eq, ru_go_step_eq. apply IH; [discriminate|].
          intros ? [<-|[<-|[]]]; cbn; tauto.
        * rewrite ru_go_step_ne by lia. apply IH; [discriminate|]. apply incl_refl.
      + destruct HM as [-> | ->]; discriminate.
      + eapply Forall_impl; [|exact Hc]. unfold bodyc.
        destruct HM as [-> | ->]; cbn [In]; intros; lia.
  Qed.

  Lemma extract_body cs : good_chunks cs -> extract_headers_and_data (body_of cs) = ([], body_of cs).
  Proof.
    intros H. unfold extract_headers_and_data.
    rewrite (read_until_none [10;10]); [|discriminate|].
    2:{ apply ru_go_body_none; auto. discriminate. apply incl_refl. }
    rewrite (read_until_none [13;10;13;10]); [reflexivity|discriminate|].
    apply ru_go_body_none; auto. discriminate. apply incl_refl.
  Qed.

  Lemma skip_ws_nl s : skip_whitespace (nl ++ s) = skip_whitespace s.
  Proof. destruct Hnl; subst; reflexivity. Qed.

  Lemma skip_ws_body cs r : good_chunks cs ->
    skip_whitespace (body_of cs ++ END_MARK ++ r) = body_of cs ++ END_MARK ++ r.
  Proof.
    intros H. destruct H as [|c cs [Hne Hc] _]; [reflexivity|].
    unfold body_of. cbn [map concat]. destruct c as [|a c]; [congruence|].
    inversion Hc; subst. cbn [app skip_whitespace]. rewrite bodyc_not_ws_byte by assumption. reflexivity.
  Qed.
End Body.

Lemma utf8_ascii s : Forall (fun c => c < 128) s -> utf8_decode s = Some s.
Proof.
  induction 1 as [|c s Hc _ IH]; [reflexivity|].
  cbn [utf8_decode]. replace (c <? 128) with true by lia. rewrite IH. reflexivity.
Qed.

Definition label_ok (label : bytes) : Prop :=
  label <> [] /\ Forall (fun c => c < 128 /\ c <> 45) label.


Lemma parser_inner_encode nl w label der tail :
  (nl = CRLF \/ nl = LF) -> (1 <= w)%nat -> label_ok label ->
  parser_inner (pem_encode_gen nl w label der ++ tail) =
  Some (skip_whitespace tail, mkCaptures label [] (pem_body nl w der) label).
Proof.
  intros Hnl Hw [Hl0 Hl].
  assert (Hg : good_chunks (chunks w (b64_encode der))).
  { apply chunks_go_good; [exact Hw|]. apply (b64_encode_bodyc (length der)). lia. }
  assert (Hl45 : Forall (fun c => c <> 45) label) by (eapply Forall_impl; [|exact Hl]; cbn; tauto).
  unfold parser_inner, pem_encode_gen. fold (pem_body nl w der).
  change (pem_body nl w der) with (body_of nl (chunks w (b64_encode der))).
  set (body := body_of nl (chunks w (b64_encode der))).
  (* 1. BEGIN *)
  rewrite <- !app_assoc.
  rewrite read_until_hit0 by discriminate.
  (* 2. label *)
  rewrite (read_until_hit DASHES label) by (discriminate || exact Hl45).
  (* 3. whitespace *)
  rewrite skip_ws_nl by exact Hnl.
  subst body. rewrite skip_ws_body by assumption.
  (* 4. payload *)
  rewrite (read_until_hit END_MARK).
  2: discriminate.
  2:{ eapply Forall_impl; [|apply body_chars; eassumption]. cbn; tauto. }
  rewrite extract_body by assumption.
  rewrite (read_until_hit DASHES label) by (discriminate || exact Hl45).
  rewrite skip_ws_nl by exact Hnl. reflexivity.
Qed.
Lemma chunks_concat w l : (1 <= w)%nat -> concat (chunks w l) = l.
Proof. intros H. apply chunks_go_concat; [exact H | lia]. Qed.
Lemma chunks_good w der : (1 <= w)%nat -> good_chunks (chunks w (b64_encode der)).
Proof. intros H. apply chunks_go_good; [exact H|]. apply (b64_encode_bodyc (length der)). lia. Qed.

Lemma label_ok_ascii label : label_ok label -> Forall (fun c => c < 128) label.
Proof. intros [_ H]. eapply Forall_impl; [|exact H]. cbn; tauto. Qed.

(* (b) the wrapped base64 body alone: any width, both line endings *)
Theorem decode_data_body : forall nl w der, (nl = CRLF \/ nl = LF) -> (1 <= w)%nat -> wf_bytes der ->
  decode_data (pem_body nl w der) = Some der.
Proof.
  intros nl w der Hnl Hw Hwf. unfold decode_data, pem_body.
  change (concat (map (fun c => c ++ nl) (chunks w (b64_encode der)))) with (body_of nl (chunks w (b64_encode der))).
  pose proof (chunks_good w der Hw) as Hg.
  rewrite utf8_ascii.
  2:{ eapply Forall_impl; [|apply (body_chars nl Hnl); exact Hg]. cbn; tauto. }
  rewrite body_filter by assumption.
  rewrite chunks_concat by exact Hw.
  apply b64_decode_encode. exact Hwf.
Qed.

Lemma pem_of_captures_encode nl w label der :
  (nl = CRLF \/ nl = LF) -> (1 <= w)%nat -> label_ok label -> wf_bytes der ->
  pem_of_captures (mkCaptures label [] (pem_body nl w der) label) = Ok (label, der).
Proof.
  intros Hnl Hw Hl Hwf. unfold pem_of_captures. cbn [c_begin c_end c_data c_headers].
  rewrite (utf8_ascii label (label_ok_ascii _ Hl)). cbn [is_some negb].
  destruct Hl as [Hl0 _]. destruct label as [|a label]; [congruence|]. cbn [is_nil].
  rewrite bytes_eqb_refl. cbn [negb].
  rewrite decode_data_body by assumption. reflexivity.
Qed.

(* (b) all line-wrapping variants: every width >= 1, CRLF or LF *)
Theorem pem_decode_encode_gen : forall nl w label der,
  (nl = CRLF \/ nl = LF) -> (1 <= w)%nat -> label_ok label -> wf_bytes der ->
  pem_parse (pem_encode_gen nl w label der) = Ok (label, der).
Proof.
  intros nl w label der Hnl Hw Hl Hwf. unfold pem_parse.
  rewrite <- (app_nil_r (pem_encode_gen nl w label der)).
  rewrite parser_inner_encode by assumption.
  apply pem_of_captures_encode; assumption.
Qed.
Print Assumptions pem_decode_encode_gen.

Theorem pem_decode_encode_w : forall w label der,
  (1 <= w)%nat -> label_ok label -> wf_bytes der ->
  pem_parse (pem_encode_w w label der) = Ok (label, der).
Proof. intros. apply pem_decode_encode_gen; auto. Qed.
Print Assumptions pem_decode_encode_w.

Theorem pem_decode_encode : forall label der, label_ok label -> wf_bytes der ->
  pem_parse (pem_encode label der) = Ok (label, der).
Proof. intros. apply pem_decode_encode_w; auto. lia. Qed.
Print Assumptions pem_decode_encode.

Lemma PRIVATE_TAG_ok : label_ok PRIVATE_TAG.
Proof. split; [discriminate|]. unfold PRIVATE_TAG. repeat constructor; lia. Qed.
Lemma PUBLIC_TAG_ok : label_ok PUBLIC_TAG.
Proof. split; [discriminate|]. unfold PUBLIC_TAG. repeat constructor; lia. Qed.

(* ---------- (d) parse_many ---------- *)
Lemma skip_ws_encs nl w label ders :
  skip_whitespace (concat (map (pem_encode_gen nl w label) ders)) = concat (map (pem_encode_gen nl w label) ders).
Proof. destruct ders; reflexivity. Qed.

Lemma pem_many_go_encs nl w label : (nl = CRLF \/ nl = LF) -> (1 <= w)%nat -> label_ok label ->
  forall ders fuel, Forall wf_bytes ders -> (length ders < fuel)%nat ->
  pem_many_go fuel (concat (map (pem_encode_gen nl w label) ders)) = Ok (map (fun d => (label, d)) ders).
Proof.
  intros Hnl Hw Hl. induction ders as [|d ders IH]; intros fuel HF Hf.
  - destruct fuel; [lia|]. reflexivity.
  - destruct fuel; [cbn in Hf; lia|]. inversion HF; subst.
    cbn [map concat pem_many_go].
    replace (is_nil (pem_encode_gen nl w label d ++ concat (map (pem_encode_gen nl w label) ders))) with false by reflexivity.
    rewrite parser_inner_encode by assumption.
    rewrite pem_of_captures_encode by assumption. cbn [bind].
    rewrite skip_ws_encs. rewrite IH; [reflexivity | assumption | cbn in Hf; lia].
Qed.

Lemma length_encs nl w label ders : (length ders <= length (concat (map (pem_encode_gen nl w label) ders)))%nat.
Proof.
  induction ders as [|d ders IH]; [cbn; lia|].
  cbn [map concat]. rewrite app_length. unfold pem_encode_gen at 1. rewrite app_length.
  change (length BEGIN_MARK) with 11%nat. cbn [length]. lia.
Qed.

Theorem pem_many_order_gen : forall nl w label ders,
  (nl = CRLF \/ nl = LF) -> (1 <= w)%nat -> label_ok label -> Forall wf_bytes ders ->
  pem_parse_many (concat (map (pem_encode_gen nl w label) ders)) = Ok (map (fun d => (label, d)) ders).
Proof.
  intros. unfold pem_parse_many. apply pem_many_go_encs; try assumption.
  pose proof (length_encs nl w label ders). lia.
Qed.

Theorem pem_many_order : forall label ders, label_ok label -> Forall wf_bytes ders ->
  pem_parse_many (concat (map (pem_encode label) ders)) = Ok (map (fun d => (label, d)) ders).
Proof. intros. apply pem_many_order_gen; auto. lia. Qed.
Print Assumptions pem_many_order.
(* ================= (e) totality: no Crash ================= *)
Definition nocrash {A} (r : res A) : Prop := is_crash r = false.

Lemma nc_ok {A} (a : A) : nocrash (Ok a). Proof. reflexivity. Qed.
Lemma nc_err {A} e : nocrash (@Err A e). Proof. reflexivity. Qed.
Lemma nc_E {A} : nocrash (@E A). Proof. reflexivity. Qed.
Lemma nc_bind {A B} (r : res A) (f : A -> res B) :
  nocrash r -> (forall a, r = Ok a -> nocrash (f a)) -> nocrash (bind r f).
Proof. destruct r; cbn; intros H1 H2; auto. Qed.
Lemma nc_cases {A} (r : res A) : nocrash r -> (exists a, r = Ok a) \/ (exists e, r = Err e).
Proof. destruct r; cbn; intros H; [left; eauto | right; eauto | discriminate]. Qed.

Lemma nc_idx site l i : i < len l -> nocrash (idx site l i).
Proof.
  intros H. unfold idx. destruct (nth_error l (N.to_nat i)) eqn:E; [reflexivity|].
  apply nth_error_None in E. unfold len in H. lia.
Qed.
Lemma nc_slice site l a b : a <= b -> b <= len l -> nocrash (slice site l a b).
Proof. intros H1 H2. unfold slice. replace ((a <=? b) && (b <=? len l)) with true by lia. reflexivity. Qed.

Ltac nc_step :=
  match goal with
  | |- nocrash (Ok _) => reflexivity
  | |- nocrash (Err _) => reflexivity
  | |- nocrash E => reflexivity
  | |- nocrash (bind _ _) => apply nc_bind; [ | intros ? ?]
  | |- nocrash (let '(_, _) := ?x in _) => destruct x
  | |- nocrash (if ?c then _ else _) => destruct c eqn:?
  | |- nocrash (match ?x with _ => _ end) => destruct x eqn:?
  end.

Lemma nc_high_tag : forall fuel c r, nocrash (high_tag fuel c r).
Proof. induction fuel; intros; cbn [high_tag]; repeat nc_step; auto. Qed.
Lemma nc_parse_identifier i : nocrash (parse_identifier i).
Proof. unfold parse_identifier. repeat nc_step. apply nc_high_tag. Qed.
Lemma nc_bytes_to_u64 : forall s u, nocrash (bytes_to_u64 u s).
Proof. induction s; intros; cbn [bytes_to_u64]; repeat nc_step; auto. Qed.
Lemma nc_read_header i : nocrash (read_header i).
Proof. unfold read_header. repeat nc_step; try apply nc_parse_identifier; try apply nc_bytes_to_u64. Qed.
Lemma nc_eof i : nocrash (eof i).
Proof. unfold eof. repeat nc_step. Qed.
Lemma nc_ber_content h r : nocrash (ber_content h r).
Proof. unfold ber_content. repeat nc_step. Qed.
Lemma nc_der_container {A} (f : bytes -> header -> res A) i :
  (forall c h, nocrash (f c h)) -> nocrash (der_container f i).
Proof. intros H. unfold der_container. repeat nc_step; auto using nc_read_header. Qed.

Lemma nc_parse_der_integer i : nocrash (parse_der_integer i).
Proof.
  unfold parse_der_integer. apply nc_bind; [apply nc_read_header|]. intros [h r] _.
  destruct (negb (h_tag h =? 2)); [reflexivity|].
  destruct (len r <? h_len h) eqn:Hl; [reflexivity|].
  apply nc_bind; [apply nc_slice; lia|]. intros c _.
  repeat nc_step; apply nc_ber_content.
Qed.
Lemma nc_parse_der_oid i : nocrash (parse_der_oid i).
Proof. unfold parse_der_oid. repeat nc_step; auto using nc_read_header, nc_ber_content. Qed.
Lemma nc_parse_der_octetstring i : nocrash (parse_der_octetstring i).
Proof. unfold parse_der_octetstring. repeat nc_step; auto using nc_read_header, nc_ber_content. Qed.
Lemma nc_parse_der_bitstring i : nocrash (parse_der_bitstring i).
Proof.
  unfold parse_der_bitstring. apply nc_bind; [apply nc_read_header|]. intros [h r] _.
  cbv zeta.
  destruct (negb (h_tag h =? 3)); [reflexivity|].
  destruct (len r <? h_len h) eqn:Hl; [reflexivity|].
  destruct (h_cons h); [reflexivity|].
  destruct r as [|ign r1]; [reflexivity|].
  destruct (7 <? ign); [reflexivity|].
  destruct (h_len h =? 0) eqn:H0; [reflexivity|].
  destruct (len r1 <? h_len h - 1) eqn:H1; [reflexivity|].
  apply nc_bind; [|intros; reflexivity].
  destruct (1 <? h_len h) eqn:H2; [|reflexivity].
  apply nc_bind.
  - apply nc_idx. rewrite len_takeN. lia.
  - intros. repeat nc_step.
Qed.

Lemma nc_parse_25519_header i : nocrash (parse_25519_header i).
Proof.
  unfold parse_25519_header. apply nc_der_container. intros.
  repeat nc_step; auto using nc_parse_der_oid, nc_eof.
Qed.
Lemma nc_parse_25519_private i : nocrash (parse_25519_private i).
Proof.
  unfold parse_25519_private. apply nc_bind; [|intros; reflexivity].
  apply nc_der_container. intros.
  repeat nc_step; auto using nc_parse_der_integer, nc_parse_25519_header, nc_parse_der_octetstring, nc_eof.
Qed.
Lemma nc_parse_25519_public i : nocrash (parse_25519_public i).
Proof.
  unfold parse_25519_public. apply nc_bind; [|intros; reflexivity].
  apply nc_der_container. intros.
  repeat nc_step; auto using nc_parse_der_bitstring, nc_parse_25519_header, nc_eof.
Qed.

Theorem parse_priv_der_total : forall b, nocrash (parse_priv_der b).
Proof.
  intros b. unfold parse_priv_der. apply nc_bind; [apply nc_parse_25519_private|].
  intros [oid d] _.
  destruct (negb (len d =? 34)) eqn:Hl; [reflexivity|].
  apply nc_bind; [apply nc_idx; lia|]. intros d0 _.
  destruct (negb (d0 =? TAG_OCTETSTRING)); [reflexivity|].
  apply nc_bind; [apply nc_idx; lia|]. intros d1 _.
  destruct (negb (d1 =? 32)); [reflexivity|].
  destruct (bytes_eqb oid ED_25519_OID).
  - apply nc_bind; [apply nc_slice; lia|]. intros; reflexivity.
  - destruct (bytes_eqb oid X_25519_OID); [|reflexivity].
    apply nc_bind; [apply nc_slice; lia|]. intros; reflexivity.
Qed.

Theorem parse_pub_der_total : forall b, nocrash (parse_pub_der b).
Proof.
  intros b. unfold parse_pub_der. apply nc_bind; [apply nc_parse_25519_public|].
  intros [oid d] _. repeat nc_step.
Qed.

Lemma nc_pem_of_captures c : nocrash (pem_of_captures c).
Proof. unfold pem_of_captures. repeat nc_step. Qed.
Lemma nc_pem_parse b : nocrash (pem_parse b).
Proof. unfold pem_parse. repeat nc_step. apply nc_pem_of_captures. Qed.
Lemma nc_pem_many_go : forall fuel b, nocrash (pem_many_go fuel b).
Proof. induction fuel; intros; cbn [pem_many_go]; repeat nc_step; auto using nc_pem_of_captures. Qed.
Lemma nc_pem_parse_many b : nocrash (pem_parse_many b).
Proof. apply nc_pem_many_go. Qed.

Lemma nc_pem_first {A} tag (der : bytes -> res A) b :
  (forall d, nocrash (der d)) -> nocrash (pem_first tag der b).
Proof.
  intros H. unfold pem_first. pose proof (nc_pem_parse b) as Hp.
  destruct (pem_parse b) as [[t c]| |]; [|apply H|discriminate Hp].
  destruct (negb (bytes_eqb t tag)); [reflexivity|apply H].
Qed.

Section Total.
  Variable sha512 : bytes -> bytes.
  Variable ed_to_mont : bytes -> option bytes.
  (* the only requirement on the hash parameter: at least 32 output octets (lib.rs:145
     slices [0..32] out of the digest) *)
  Hypothesis sha512_len : forall b, 32 <= len (sha512 b).

  Lemma nc_privkey_der b : nocrash (parse_openssl_25519_privkey_der sha512 b).
  Proof.
    unfold parse_openssl_25519_privkey_der. apply nc_bind; [apply parse_priv_der_total|].
    intros [k r] _. unfold static_secret_of. destruct k; cbn [fst snd]; [|reflexivity].
    apply nc_slice; [lia|apply sha512_len].
  Qed.
  Lemma nc_pubkey_der b : nocrash (parse_openssl_25519_pubkey_der ed_to_mont b).
  Proof.
    unfold parse_openssl_25519_pubkey_der. apply nc_bind; [apply parse_pub_der_total|].
    intros [k r] _. unfold public_key_of. repeat nc_step.
  Qed.
  Lemma nc_pubkeys_of tag : forall ps, nocrash (pubkeys_of tag (parse_openssl_25519_pubkey_der ed_to_mont) ps).
  Proof. induction ps as [|[t c] ps IH]; cbn [pubkeys_of]; repeat nc_step; auto using nc_pubkey_der. Qed.

  Theorem parse_total : forall b,
    nocrash (parse_priv_der b) /\ nocrash (parse_pub_der b) /\
    nocrash (parse_openssl_25519_privkey sha512 b) /\
    nocrash (parse_openssl_25519_pubkey ed_to_mont b) /\
    nocrash (parse_openssl_25519_pubkeys_pem_many ed_to_mont b).
  Proof.
    intros b. repeat split.
    - apply parse_priv_der_total.
    - apply parse_pub_der_total.
    - apply nc_pem_first, nc_privkey_der.
    - apply nc_pem_first, nc_pubkey_der.
    - unfold parse_openssl_25519_pubkeys_pem_many. apply nc_bind; [apply nc_pem_parse_many|].
      intros. apply nc_pubkeys_of.
  Qed.
End Total.
Print Assumptions parse_total.

(* the same, spelled as "Ok or Err" *)
Corollary parse_total_ok_or_err : forall sha512 ed_to_mont, (forall b, 32 <= len (sha512 b)) -> forall b,
  ((exists v, parse_openssl_25519_privkey sha512 b = Ok v) \/ (exists e, parse_openssl_25519_privkey sha512 b = Err e)) /\
  ((exists v, parse_openssl_25519_pubkey ed_to_mont b = Ok v) \/ (exists e, parse_openssl_25519_pubkey ed_to_mont b = Err e)) /\
  ((exists v, parse_openssl_25519_pubkeys_pem_many ed_to_mont b = Ok v) \/ (exists e, parse_openssl_25519_pubkeys_pem_many ed_to_mont b = Err e)).
Proof.
  intros sha ed H b. destruct (parse_total sha ed H b) as (_&_&A&B&C).
  repeat split; apply nc_cases; assumption.
Qed.


(* ================= lib.rs level statements ================= *)

Lemma wf_app a b : wf_bytes a -> wf_bytes b -> wf_bytes (a ++ b).
Proof. intros. apply Forall_app; split; assumption. Qed.
Lemma wf_export_priv k : wf_bytes k -> wf_bytes (export_priv_der k).
Proof. intros. apply wf_app; [|assumption]. unfold PRIV_KEY_PREFIX. repeat constructor; lia. Qed.
Lemma wf_export_pub k : wf_bytes k -> wf_bytes (export_pub_der k).
Proof. intros. apply wf_app; [|assumption]. unfold PUB_KEY_PREFIX. repeat constructor; lia. Qed.

(* PEM-first on the PEM encoding = the DER parser on the DER *)
Lemma pem_first_encode {A} nl w label (der : bytes -> res A) d :
  (nl = CRLF \/ nl = LF) -> (1 <= w)%nat -> label_ok label -> wf_bytes d ->
  pem_first label der (pem_encode_gen nl w label d) = der d.
Proof.
  intros. unfold pem_first. rewrite pem_decode_encode_gen by assumption.
  rewrite bytes_eqb_refl. reflexivity.
Qed.

(* PEM-first on something that is not framed as PEM = the DER parser *)
Lemma pem_first_not_pem {A} label (der : bytes -> res A) d :
  is_ok (pem_parse d) = false -> pem_first label der d = der d.
Proof.
  intros H. unfold pem_first. pose proof (nc_pem_parse d) as Hc.
  destruct (pem_parse d); [discriminate H | reflexivity | discriminate Hc].
Qed.

(* the conversion step commutes with "PEM first": the raw variants used by the
   differential test determine the full functions *)
Lemma pem_first_bind {A B} label (der : bytes -> res A) (g : A -> res B) d :
  pem_first label (fun x => bind (der x) g) d = bind (pem_first label der d) g.
Proof.
  unfold pem_first. destruct (pem_parse d) as [[t c]| |]; try reflexivity.
  destruct (negb (bytes_eqb t label)); reflexivity.
Qed.
Lemma privkey_via_raw sha512 d :
  parse_openssl_25519_privkey sha512 d = bind (parse_priv_raw d) (static_secret_of sha512).
Proof. apply pem_first_bind. Qed.
Lemma pubkey_via_raw ed_to_mont d :
  parse_openssl_25519_pubkey ed_to_mont d = bind (parse_pub_raw d) (public_key_of ed_to_mont).
Proof. apply pem_first_bind. Qed.

Section C18.
  Variable sha512 : bytes -> bytes.
  Variable ed_to_mont : bytes -> option bytes.
  Variable x25519_base : bytes -> bytes.

  Lemma privkey_der_export k : length k = 32%nat ->
    parse_openssl_25519_privkey_der sha512 (export_priv_der k) = Ok k.
  Proof. intros H. unfold parse_openssl_25519_privkey_der. rewrite parse_export_priv by exact H. reflexivity. Qed.
  Lemma pubkey_der_export k : length k = 32%nat ->
    parse_openssl_25519_pubkey_der ed_to_mont (export_pub_der k) = Ok k.
  Proof. intros H. unfold parse_openssl_25519_pubkey_der. rewrite parse_export_pub by exact H. reflexivity. Qed.

  (* (c) PEM and DER forms of an exported key parse identically, for every line width and
     both line endings — PROVIDED the DER octets are not themselves framed as a PEM block
     (see pem_der_disagree below: the proviso cannot be dropped). *)
  Theorem pem_der_agree_priv_gen : forall nl w k,
    (nl = CRLF \/ nl = LF) -> (1 <= w)%nat -> length k = 32%nat -> wf_bytes k ->
    is_ok (pem_parse (export_priv_der k)) = false ->
    parse_openssl_25519_privkey sha512 (pem_encode_gen nl w PRIVATE_TAG (export_priv_der k))
    = parse_openssl_25519_privkey sha512 (export_priv_der k).
  Proof.
    intros nl w k Hnl Hw Hl Hwf Hnp. unfold parse_openssl_25519_privkey.
    rewrite pem_first_encode by auto using PRIVATE_TAG_ok, wf_export_priv.
    rewrite pem_first_not_pem by exact Hnp. reflexivity.
  Qed.
  Theorem pem_der_agree_pub_gen : forall nl w k,
    (nl = CRLF \/ nl = LF) -> (1 <= w)%nat -> length k = 32%nat -> wf_bytes k ->
    is_ok (pem_parse (export_pub_der k)) = false ->
    parse_openssl_25519_pubkey ed_to_mont (pem_encode_gen nl w PUBLIC_TAG (export_pub_der k))
    = parse_openssl_25519_pubkey ed_to_mont (export_pub_der k).
  Proof.
    intros nl w k Hnl Hw Hl Hwf Hnp. unfold parse_openssl_25519_pubkey.
    rewrite pem_first_encode by auto using PUBLIC_TAG_ok, wf_export_pub.
    rewrite pem_first_not_pem by exact Hnp. reflexivity.
  Qed.

  Theorem pem_der_agree : forall k, length k = 32%nat -> wf_bytes k ->
    (is_ok (pem_parse (export_priv_der k)) = false ->
       parse_openssl_25519_privkey sha512 (pem_encode PRIVATE_TAG (export_priv_der k))
       = parse_openssl_25519_privkey sha512 (export_priv_der k)
       /\ parse_openssl_25519_privkey sha512 (export_priv_der k) = Ok k) /\
    (is_ok (pem_parse (export_pub_der k)) = false ->
       parse_openssl_25519_pubkey ed_to_mont (pem_encode PUBLIC_TAG (export_pub_der k))
       = parse_openssl_25519_pubkey ed_to_mont (export_pub_der k)
       /\ parse_openssl_25519_pubkey ed_to_mont (export_pub_der k) = Ok k).
  Proof.
    intros k Hl Hwf. split; intros Hnp; split.
    - apply pem_der_agree_priv_gen; auto. lia.
    - unfold parse_openssl_25519_privkey. rewrite pem_first_not_pem by exact Hnp.
      apply privkey_der_export, Hl.
    - apply pem_der_agree_pub_gen; auto. lia.
    - unfold parse_openssl_25519_pubkey. rewrite pem_first_not_pem by exact Hnp.
      apply pubkey_der_export, Hl.
  Qed.

  (* the PEM form alone needs no proviso *)
  Theorem privkey_pem_export : forall nl w k,
    (nl = CRLF \/ nl = LF) -> (1 <= w)%nat -> length k = 32%nat -> wf_bytes k ->
    parse_openssl_25519_privkey sha512 (pem_encode_gen nl w PRIVATE_TAG (export_priv_der k)) = Ok k.
  Proof.
    intros. unfold parse_openssl_25519_privkey.
    rewrite pem_first_encode by auto using PRIVATE_TAG_ok, wf_export_priv.
    apply privkey_der_export. assumption.
  Qed.
  Theorem pubkey_pem_export : forall nl w k,
    (nl = CRLF \/ nl = LF) -> (1 <= w)%nat -> length k = 32%nat -> wf_bytes k ->
    parse_openssl_25519_pubkey ed_to_mont (pem_encode_gen nl w PUBLIC_TAG (export_pub_der k)) = Ok k.
  Proof.
    intros. unfold parse_openssl_25519_pubkey.
    rewrite pem_first_encode by auto using PUBLIC_TAG_ok, wf_export_pub.
    apply pubkey_der_export. assumption.
  Qed.

  (* C18, first sentence, at the level of the model: the pair produced by generate_keypair
     parses back — DER through the _der functions, PEM through the PEM-first functions — to
     the seed and to x25519_base seed, i.e. the public key of the parsed private key is the
     generated public key. *)
  Theorem generated_keypair_parses_back : forall seed,
    length seed = 32%nat -> wf_bytes seed ->
    length (x25519_base seed) = 32%nat -> wf_bytes (x25519_base seed) ->
    let kp := generate_keypair_from_seed x25519_base seed in
    parse_openssl_25519_privkey_der sha512 (fst kp) = Ok seed /\
    parse_openssl_25519_pubkey_der ed_to_mont (snd kp) = Ok (x25519_base seed) /\
    parse_openssl_25519_privkey sha512 (private_as_pem kp) = Ok seed /\
    parse_openssl_25519_pubkey ed_to_mont (public_as_pem kp) = Ok (x25519_base seed).
  Proof.
    intros seed H1 H2 H3 H4 kp. subst kp. unfold generate_keypair_from_seed, private_as_pem, public_as_pem.
    cbn [fst snd]. repeat split.
    - apply privkey_der_export, H1.
    - apply pubkey_der_export, H3.
    - apply privkey_pem_export; auto. lia.
    - apply pubkey_pem_export; auto. lia.
  Qed.

  (* (d) at the level of lib.rs: several concatenated PEM public keys come back in order *)
  Lemma pubkeys_of_exports : forall ks, Forall (fun k => length k = 32%nat) ks ->
    pubkeys_of PUBLIC_TAG (parse_openssl_25519_pubkey_der ed_to_mont)
      (map (fun d => (PUBLIC_TAG, d)) (map export_pub_der ks)) = Ok ks.
  Proof.
    induction 1 as [|k ks Hk _ IH]; [reflexivity|].
    cbn [map pubkeys_of]. rewrite bytes_eqb_refl. cbn [negb].
    rewrite pubkey_der_export by exact Hk. cbn [bind]. rewrite IH. reflexivity.
  Qed.

  Theorem pubkeys_pem_many_order : forall nl w ks,
    (nl = CRLF \/ nl = LF) -> (1 <= w)%nat ->
    Forall (fun k => length k = 32%nat) ks -> Forall wf_bytes ks ->
    parse_openssl_25519_pubkeys_pem_many ed_to_mont
      (concat (map (pem_encode_gen nl w PUBLIC_TAG) (map export_pub_der ks))) = Ok ks.
  Proof.
    intros nl w ks Hnl Hw Hl Hwf. unfold parse_openssl_25519_pubkeys_pem_many.
    rewrite pem_many_order_gen; auto using PUBLIC_TAG_ok.
    - cbn [bind]. apply pubkeys_of_exports, Hl.
    - clear Hl. induction Hwf; constructor; auto using wf_export_pub.
  Qed.
End C18.
Print Assumptions pem_der_agree.
Print Assumptions generated_keypair_parses_back.
Print Assumptions pubkeys_pem_many_order.

(* ---------- when is the proviso of pem_der_agree met ---------- *)
Lemma ru_go_shift M : forall s m k, ru_go M m s k = option_map (Nat.add k) (ru_go M m s 0).
Proof.
  induction s as [|c s IH]; intros m k; [reflexivity|].
  cbn [ru_go]. destruct m as [|x m']; [reflexivity|].
  destruct (c =? x).
  - destruct m' as [|y m''].
    + cbn. f_equal. lia.
    + rewrite (IH (y :: m'') (S k)), (IH (y :: m'') 1%nat).
      destruct (ru_go M (y :: m'') s 0); cbn; [f_equal; lia | reflexivity].
  - rewrite (IH M (S k)), (IH M 1%nat).
    destruct (ru_go M M s 0); cbn; [f_equal; lia | reflexivity].
Qed.

Lemma not_pem_if_no_begin prefix k :
  Forall (fun c => c <> 45) prefix -> read_until k BEGIN_MARK = None ->
  is_ok (pem_parse (prefix ++ k)) = false.
Proof.
  intros Hp Hk. unfold pem_parse, parser_inner.
  assert (read_until (prefix ++ k) BEGIN_MARK = None) as ->; [|reflexivity].
  unfold read_until in *. change BEGIN_MARK with (45 :: tl BEGIN_MARK) in *.
  rewrite ru_go_skip0 by exact Hp. rewrite ru_go_shift.
  destruct (ru_go (45 :: tl BEGIN_MARK) (45 :: tl BEGIN_MARK) k 0); [discriminate Hk|reflexivity].
Qed.

(* a key that does not contain the 11 octets "-----BEGIN " (as read_until finds them)
   satisfies the proviso, for both export forms *)
Theorem proviso_if_no_begin : forall k, read_until k BEGIN_MARK = None ->
  is_ok (pem_parse (export_priv_der k)) = false /\ is_ok (pem_parse (export_pub_der k)) = false.
Proof.
  intros k H. split; apply not_pem_if_no_begin; try exact H.
  - unfold PRIV_KEY_PREFIX. repeat constructor; lia.
  - unfold PUB_KEY_PREFIX. repeat constructor; lia.
Qed.
Print Assumptions proviso_if_no_begin.

(* ---------- the proviso cannot be dropped ---------- *)
(* "-----BEGIN A----------END A-----" : 32 octets *)
Definition K_FRAMED : bytes :=
  [45;45;45;45;45;66;69;71;73;78;32;65;45;45;45;45;45;45;45;45;45;45;69;78;68;32;65;45;45;45;45;45].

(* C18 "PEM and DER forms of the same key parse identically" is FALSE for this key: its
   DER export is a well-formed PEM block with label "A" and empty contents, so the
   PEM-first functions answer InvalidPEMTag (lib.rs:243, 257) and never try DER. *)
Theorem pem_der_disagree : forall sha512 ed_to_mont,
  length K_FRAMED = 32%nat /\ wf_bytes K_FRAMED /\
  parse_openssl_25519_privkey sha512 (pem_encode PRIVATE_TAG (export_priv_der K_FRAMED)) = Ok K_FRAMED /\
  parse_openssl_25519_privkey sha512 (export_priv_der K_FRAMED) = Err EKey /\
  parse_openssl_25519_privkey_der sha512 (export_priv_der K_FRAMED) = Ok K_FRAMED /\
  parse_openssl_25519_pubkey ed_to_mont (pem_encode PUBLIC_TAG (export_pub_der K_FRAMED)) = Ok K_FRAMED /\
  parse_openssl_25519_pubkey ed_to_mont (export_pub_der K_FRAMED) = Err EKey /\
  parse_openssl_25519_pubkey_der ed_to_mont (export_pub_der K_FRAMED) = Ok K_FRAMED.
Proof.
  intros sha ed. split; [reflexivity|]. split; [unfold K_FRAMED; repeat constructor; lia|].
  repeat split; vm_compute; reflexivity.
Qed.
Print Assumptions pem_der_disagree.

(* ---------- other inputs that are accepted (all confirmed on the Rust code by the
   differential test) ---------- *)
(* parse_many: input without any PEM block -> Ok with zero keys, not an error *)
Theorem many_ok_on_garbage : forall ed_to_mont,
  parse_openssl_25519_pubkeys_pem_many ed_to_mont [] = Ok [] /\
  parse_openssl_25519_pubkeys_pem_many ed_to_mont [1; 2; 3] = Ok [] /\
  parse_openssl_25519_pubkeys_pem_many ed_to_mont PUB_KEY_PREFIX = Ok [].
Proof. intros. repeat split; vm_compute; reflexivity. Qed.

(* parse_many: whatever follows the last complete block and cannot be framed as a block
   (garbage, a block whose END line is missing, raw DER ...) is dropped without an error *)
Lemma pem_many_go_encs_tail nl w label tail : (nl = CRLF \/ nl = LF) -> (1 <= w)%nat -> label_ok label ->
  skip_whitespace tail = tail -> parser_inner tail = None ->
  forall ders fuel, Forall wf_bytes ders -> (length ders < fuel)%nat ->
  pem_many_go fuel (concat (map (pem_encode_gen nl w label) ders) ++ tail) = Ok (map (fun d => (label, d)) ders).
Proof.
  intros Hnl Hw Hl Ht1 Ht2. induction ders as [|d ders IH]; intros fuel HF Hf.
  - destruct fuel; [lia|]. cbn [map concat app pem_many_go]. rewrite Ht2.
    destruct (is_nil tail); reflexivity.
  - destruct fuel; [cbn in Hf; lia|]. inversion HF; subst.
    cbn [map concat pem_many_go]. rewrite <- app_assoc.
    replace (is_nil (pem_encode_gen nl w label d ++ concat (map (pem_encode_gen nl w label) ders) ++ tail)) with false by reflexivity.
    rewrite parser_inner_encode by assumption.
    rewrite pem_of_captures_encode by assumption. cbn [bind].
    replace (skip_whitespace (concat (map (pem_encode_gen nl w label) ders) ++ tail))
      with (concat (map (pem_encode_gen nl w label) ders) ++ tail)
      by (destruct ders; [symmetry; exact Ht1 | reflexivity]).
    rewrite IH; [reflexivity | assumption | cbn in Hf; lia].
Qed.

Theorem many_ignores_unframed_tail : forall ed_to_mont nl w ks tail,
  (nl = CRLF \/ nl = LF) -> (1 <= w)%nat ->
  Forall (fun k => length k = 32%nat) ks -> Forall wf_bytes ks ->
  skip_whitespace tail = tail -> parser_inner tail = None ->
  parse_openssl_25519_pubkeys_pem_many ed_to_mont
    (concat (map (pem_encode_gen nl w PUBLIC_TAG) (map export_pub_der ks)) ++ tail) = Ok ks.
Proof.
  intros ed nl w ks tail Hnl Hw Hl Hwf Ht1 Ht2. unfold parse_openssl_25519_pubkeys_pem_many, pem_parse_many.
  rewrite pem_many_go_encs_tail; auto using PUBLIC_TAG_ok.
  - cbn [bind]. apply pubkeys_of_exports, Hl.
  - clear Hl. induction Hwf; constructor; auto using wf_export_pub.
  - rewrite app_length. pose proof (length_encs nl w PUBLIC_TAG (map export_pub_der ks)). lia.
Qed.
(* instance: a second block cut before its END line *)
Example unterminated_tail : let tail := BEGIN_MARK ++ PUBLIC_TAG ++ DASHES ++ CRLF ++ [77; 67; 111; 119] in
  skip_whitespace tail = tail /\ parser_inner tail = None.
Proof. split; vm_compute; reflexivity. Qed.
Print Assumptions many_ignores_unframed_tail.

(* DER: octets after the outer SEQUENCE are ignored (lib.rs:134, 214 `_remain`) *)
Theorem der_trailing_octets_accepted : forall k, length k = 32%nat ->
  parse_priv_der (export_priv_der k ++ [0]) = Ok (X, k) /\
  parse_pub_der (export_pub_der k ++ [255; 255]) = Ok (X, k).
Proof.
  intros k H. destruct (length32 k H) as (a0&a1&a2&a3&a4&a5&a6&a7&a8&a9&a10&a11&a12&a13&a14&a15&a16&a17&a18&a19&a20&a21&a22&a23&a24&a25&a26&a27&a28&a29&a30&a31&->).
  split; vm_compute; reflexivity.
Qed.

(* DER: tag class and constructed bit are not checked, the version INTEGER may be anything,
   lengths need not be minimal, BIT STRING may declare unused bits *)
Theorem der_non_canonical_accepted : forall k, length k = 32%nat ->
  (* context class on the outer SEQUENCE (0xb0), version 0x7f, OID tagged 0x86 *)
  parse_priv_der ([176; 46; 2; 1; 127; 48; 5; 134; 3; 43; 101; 110; 4; 34; 4; 32] ++ k) = Ok (X, k) /\
  (* outer length in long form 0x82 0x00 0x2e *)
  parse_priv_der ([48; 130; 0; 46; 2; 1; 0; 48; 5; 6; 3; 43; 101; 110; 4; 34; 4; 32] ++ k) = Ok (X, k) /\
  (* outer SEQUENCE in high tag number form 0x3f 0x10 *)
  parse_pub_der ([63; 16; 42; 48; 5; 6; 3; 43; 101; 110; 3; 33; 0] ++ k) = Ok (X, k).
Proof.
  intros k H. destruct (length32 k H) as (a0&a1&a2&a3&a4&a5&a6&a7&a8&a9&a10&a11&a12&a13&a14&a15&a16&a17&a18&a19&a20&a21&a22&a23&a24&a25&a26&a27&a28&a29&a30&a31&->).
  repeat split; vm_compute; reflexivity.
Qed.
Print Assumptions der_non_canonical_accepted.


(* ---------- the fuel of pem_parse_many never runs out ---------- *)
Lemma ru_go_gt M : forall s m k j, ru_go M m s k = Some j -> (k < j)%nat.
Proof.
  induction s as [|c s IH]; intros m k j H; [discriminate H|].
  cbn [ru_go] in H. destruct m as [|x m']; [discriminate H|].
  destruct (c =? x).
  - destruct m' as [|y m'']; [inversion H; lia|]. apply IH in H. lia.
  - apply IH in H. lia.
Qed.
Lemma read_until_shorter s M rest pre : M <> [] -> read_until s M = Some (rest, pre) ->
  (length rest < length s)%nat.
Proof.
  intros HM H. unfold read_until in H. destruct M as [|x M']; [congruence|].
  destruct (ru_go (x :: M') (x :: M') s 0) as [j|] eqn:Ej; [|discriminate H].
  inversion H; subst. destruct s as [|c0 s]; [discriminate Ej|].
  apply ru_go_gt in Ej. rewrite skipn_length. cbn [length]. lia.
Qed.
Lemma skip_ws_len s : (length (skip_whitespace s) <= length s)%nat.
Proof. induction s as [|c s IH]; cbn [skip_whitespace length]; [lia|]. destruct (is_ws_byte c); cbn [length]; lia. Qed.

Lemma parser_inner_shorter s rest c : parser_inner s = Some (rest, c) -> (length rest < length s)%nat.
Proof.
  unfold parser_inner. intros H.
  destruct (read_until s BEGIN_MARK) as [[i1 ?]|] eqn:E1; [|discriminate H].
  destruct (read_until i1 DASHES) as [[i2 ?]|] eqn:E2; [|discriminate H].
  destruct (read_until (skip_whitespace i2) END_MARK) as [[i4 ?]|] eqn:E3; [|discriminate H].
  destruct (extract_headers_and_data b1) as [hd dt].
  destruct (read_until i4 DASHES) as [[i5 ?]|] eqn:E4; [|discriminate H].
  inversion H; subst.
  apply read_until_shorter in E1, E2, E3, E4; try discriminate.
  pose proof (skip_ws_len i2). pose proof (skip_ws_len i5). lia.
Qed.

Theorem pem_many_fuel_enough : forall fuel s, (length s < fuel)%nat -> pem_many_go fuel s <> Err EFuel.
Proof.
  induction fuel as [|f IH]; intros s Hl; [lia|].
  cbn [pem_many_go]. destruct (is_nil s); [discriminate|].
  destruct (parser_inner s) as [[rest c]|] eqn:Ep; [|discriminate].
  apply parser_inner_shorter in Ep.
  assert (Hc : pem_of_captures c <> Err EFuel).
  { unfold pem_of_captures, E.
    repeat match goal with |- context [if ?b then _ else _] => destruct b end; try discriminate.
    destruct (decode_data (c_data c)); [|discriminate].
    repeat match goal with |- context [if ?b then _ else _] => destruct b end; discriminate. }
  destruct (pem_of_captures c) as [p|e|site]; cbn [bind]; [|congruence|discriminate].
  specialize (IH rest ltac:(lia)).
  destruct (pem_many_go f rest); cbn [bind]; [discriminate|congruence|discriminate].
Qed.
Corollary pem_parse_many_no_fuel_error : forall s, pem_parse_many s <> Err EFuel.
Proof. intros s. apply pem_many_fuel_enough. lia. Qed.
Print Assumptions pem_parse_many_no_fuel_error.
