(* RepairSize2Example.v — non-vacuity / tightness of the size premises of RepairSize2*.v.
   1. the factor 3 of `fits_limit` cannot be lowered to 2: a 17-byte input (one FileStart with an
      empty name) yields a repaired archive whose footer map takes 48 = 8 + 40 bytes > 8 + 2 * 17 = 42;
   2. the decryptor bound on a concrete ciphertext (toy cipher, CHUNK = 4, TAG = 2). *)
From MLA Require Import Limit.
From MLA Require Import Base Stream Blocks Writer Repair EncLayer ComposeRepair Inst RepairSize RepairSize2.
Open Scope N_scope.

Definition ex17 : bytes := [0; 7;0;0;0;0;0;0;0; 0;0;0;0;0;0;0;0].
Example repair_footer_factor_tight :
  len ex17 = 17 /\
  match repair (LIM := 100) 48 4 0 1 254 255 (fun _ => []) (Cursor ex17) 30 0 w_init with
  | Ok (st, unf, out) => st = FEofNextBlock /\ unf = [[]] /\ len (ser_footer_map (w_footer out)) = 48
  | _ => False
  end /\
  8 + 2 * 17 < 48 /\ 48 <= 8 + 3 * 17 /\ fits_limit (LIM := 100) (len ex17).
Proof. vm_compute. repeat split; (reflexivity || discriminate). Qed.

Example decryptor_output_le_input_example :
  len (fs_output 4 2 toy_ks (toy_tag 2) true [1; 2; 3; 4; 5; 6; 7; 8; 9]) = 7 /\
  len (fs_output 4 2 toy_ks (toy_tag 2) false [1; 2; 3; 4; 5; 6; 7; 8; 9]) <= 9.
Proof.
  split; [vm_compute; reflexivity|].
  exact (len_fs_output_le 4 2 toy_ks ltac:(reflexivity) (toy_tag 2) false _).
Qed.
