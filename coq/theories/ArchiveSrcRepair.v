(* ArchiveSrcRepair.v — C02 for the WHOLE archive, header included: every cut of
   header ++ body (++ footer), read through any source refining a cursor over the prefix:
   `ArchiveFailSafeReader::from_config` + `convert_to_archive` (ArchiveSrc.failsafe_repair)
   either fails in the header stage — UnexpectedEof for a cut inside the magic / version,
   DeserializationError for a cut inside the persistent configuration / key-wrap table — or
   gives the repair result described by C02_repair_cut_sound / C02_repair_encrypted_cut_sound.
   Layer combinations: none, ENCRYPT.

   1. a proper prefix of a serialised header never parses (the pure parsers are prefix-stable);
   2. the fail-safe decryptor over ANY source whose `read_full` agrees with a cursor's is in
      simulation with the decryptor over that cursor, so `repair` gives the same result
      (ComposeRdOnly.repair_sim) and the existing theorems are reused as they stand. *)
From MLA Require Import Limit.
From MLA Require Import Base Stream EncLayer Blocks Writer Repair RepairSpec RepairPure RepairProofs2 RepairProofs6
  EncAuthFs EncAuthTrunc EncWriter Format Ecies Archive ArchiveProofs HeaderStream HeaderStreamProofs ArchiveSrc
  Run ComposeRdOnly ComposeRepair.
From Coq Require Import ZifyBool ZifyNat ZifyN.
Open Scope N_scope.

(* ---------- 1. prefix stability of the header parsers ---------- *)
Definition Stable {A} (pm : PP A) : Prop :=
  forall r x v k, pm r = Some (v, k) -> k <= len r /\ pm (r ++ x) = Some (v, k).

Lemma stable_ret {A} (a : A) : Stable (pret a).
Proof. intros r x v k E. unfold pret in *. injection E as <- <-. split; [lia | reflexivity]. Qed.
Lemma stable_fail {A} : Stable (@pfail A).
Proof. intros r x v k E. discriminate. Qed.
Lemma stable_take n : Stable (ptake n).
Proof.
  intros r x v k. unfold ptake. destruct (N.leb_spec n (len r)) as [Hn|Hn]; [|discriminate].
  intros E; injection E as <- <-. split; [exact Hn|].
  rewrite len_app. destruct (N.leb_spec n (len r + len x)); [|lia].
  rewrite takeN_app_le by lia. reflexivity.
Qed.
Lemma stable_bind {A B} (pm : PP A) (pf : A -> PP B) :
  Stable pm -> (forall v, Stable (pf v)) -> Stable (pbind pm pf).
Proof.
  intros Hm Hf r x w k E. unfold pbind in *.
  destruct (pm r) as [[v k1]|] eqn:E1; [|discriminate].
  destruct (Hm r x v k1 E1) as [Hk1 ->].
  destruct (pf v (dropN k1 r)) as [[w' k2]|] eqn:E2; [|discriminate].
  injection E as <- <-.
  destruct (Hf v (dropN k1 r) x w' k2 E2) as [Hk2 E3]. rewrite len_dropN in Hk2.
  rewrite dropN_app_le by lia. rewrite E3. split; [lia | reflexivity].
Qed.
Lemma stable_bytes k : Stable (pbytes k).
Proof.
  induction k as [|k IH]; cbn [pbytes]; [apply stable_ret|].
  apply stable_bind; [apply stable_take|]. intros d. apply stable_bind; [exact IH|]. intros ds. apply stable_ret.
Qed.
Lemma stable_key_and_tag : Stable pkey_and_tag.
Proof.
  apply stable_bind; [apply stable_bytes|]. intros k. apply stable_bind; [apply stable_bytes|]. intros t. apply stable_ret.
Qed.
Lemma stable_keys c : Stable (pkeys c).
Proof.
  induction c as [|c IH]; cbn [pkeys]; [apply stable_ret|].
  apply stable_bind; [apply stable_key_and_tag|]. intros kt. apply stable_bind; [exact IH|]. intros ks. apply stable_ret.
Qed.
Lemma stable_config : Stable pconfig.
Proof.
  apply stable_bind; [apply stable_take|]. intros l. apply stable_bind; [apply stable_take|]. intros o.
  destruct (le_val o =? 0); [apply stable_ret|]. destruct (le_val o =? 1); [|apply stable_fail].
  apply stable_bind; [|intros eh; apply stable_ret].
  apply stable_bind; [apply stable_bytes|]. intros pub. apply stable_bind; [apply stable_take|]. intros nb.
  apply stable_bind; [apply stable_keys|]. intros ks. apply stable_bind; [apply stable_bytes|]. intros nonce. apply stable_ret.
Qed.

Lemma len_ser_header h : wf_enc_opt h -> len (ser_header h) = 7 + config_size h.
Proof.
  intros Hwf.
  pose proof (read_header_ser (config_size h) h [] Hwf (N.le_refl _)) as E.
  rewrite app_nil_r in E.
  destruct (read_header_s_refines (Cursor (ser_header h)) (ser_header h) _ (cursor_refines _) (config_size h) 0
              ltac:(split; [reflexivity | lia])) as (s' & Hh).
  rewrite E in Hh. destruct Hh as (_ & _ & Hd & Hle & _).
  assert (Hl : len (@nil N) = len (dropN (7 + config_size h) (ser_header h))) by (f_equal; exact Hd).
  rewrite len_dropN in Hl. change (len (@nil N)) with 0 in Hl. lia.
Qed.

(* a cut inside the header: which error *)
Lemma read_header_cut LIMIT h data n : wf_enc_opt h -> config_size h <= LIMIT ->
  n < len (ser_header h) ->
  read_header LIMIT (takeN n (ser_header h ++ data)) = Err (if n <? 7 then EUnexpectedEof else EDeser).
Proof.
  intros Hwf Hlim Hn.
  pose proof (len_ser_header h Hwf) as Hlen.
  set (a := ser_header h ++ data) in *.
  assert (Ha : 7 + config_size h <= len a) by (unfold a; rewrite len_app; lia).
  pose proof (read_header_ser LIMIT h data Hwf Hlim) as Hfull. fold a in Hfull.
  rewrite read_header_unfold in Hfull |- *.
  unfold take, take_le, take in *. rewrite len_takeN.
  destruct (N.ltb_spec (len a) 3) as [?|_]; [lia|].
  destruct (N.ltb_spec n 7) as [H7|H7].
  - destruct (N.ltb_spec (N.min n (len a)) 3) as [_|H3]; [reflexivity|].
    rewrite takeN_takeN. replace (N.min 3 n) with 3 by lia.
    destruct (negb (bytes_eqb (takeN 3 a) MAGIC)); [discriminate|].
    rewrite len_dropN, len_takeN.
    destruct (N.ltb_spec (N.min n (len a) - 3) 4); [reflexivity | lia].
  - destruct (N.ltb_spec (N.min n (len a)) 3) as [?|_]; [lia|].
    rewrite takeN_takeN. replace (N.min 3 n) with 3 by lia.
    destruct (negb (bytes_eqb (takeN 3 a) MAGIC)); [discriminate|].
    rewrite len_dropN, len_takeN. rewrite len_dropN in Hfull.
    destruct (N.ltb_spec (len a - 3) 4) as [?|_]; [lia|].
    destruct (N.ltb_spec (N.min n (len a) - 3) 4) as [?|_]; [lia|].
    assert (E4 : takeN 4 (dropN 3 (takeN n a)) = takeN 4 (dropN 3 a)).
    { rewrite !takeN_dropN_comm, takeN_takeN. f_equal. f_equal. lia. }
    rewrite E4. destruct (negb (le_val (takeN 4 (dropN 3 a)) =? VERSION)); [discriminate|].
    rewrite !dropN_dropN in *. change (3 + 4) with 7 in *.
    destruct (pconfig_spec LIMIT (dropN 7 (takeN n a))) as [-> Hk].
    destruct (pconfig (dropN 7 (takeN n a))) as [[h' k]|] eqn:Ep; [exfalso | reflexivity].
    destruct (Hk _ _ eq_refl) as [_ Hkl]. rewrite len_dropN, len_takeN in Hkl.
    (* the same parse succeeds on the whole: it is the header *)
    assert (Esplit : dropN 7 a = dropN 7 (takeN n a) ++ dropN n a).
    { rewrite <- (takeN_dropN n a) at 1. rewrite dropN_app_le by (rewrite len_takeN; lia). reflexivity. }
    destruct (stable_config _ (dropN n a) _ _ Ep) as [_ Ep']. rewrite <- Esplit in Ep'.
    destruct (pconfig_spec LIMIT (dropN 7 a)) as [Hrc Hk']. rewrite Hrc, Ep' in Hfull.
    destruct (Hk' _ _ Ep') as [-> _].
    destruct (LIMIT <? config_size h'); [discriminate|]. injection Hfull as -> _. lia.
Qed.

(* ---------- 2. the fail-safe decryptor over two sources whose read_full agree ---------- *)
Section FsEncSim.
  Context {LIM : Limit}.
  Variables CHUNK TAG : N.
  Variable ks : N -> N -> N.
  Variable tagc : N -> bytes -> bytes.
  Variables S1 S2 : Stream.
  Variable rel : st S1 -> st S2 -> Prop.
  Notation fuelr := (rd_fuel CHUNK TAG).
  (* take(m).read_to_end for the sizes the loaders use *)
  Hypothesis Hrf : forall s1 s2 m, m <= CTS CHUNK TAG -> rel s1 s2 ->
    rel (fst (read_full S1 fuelr s1 m)) (fst (read_full S2 fuelr s2 m)) /\
    snd (read_full S1 fuelr s1 m) = snd (read_full S2 fuelr s2 m).

  Definition esim (x : estate S1) (y : estate S2) : Prop :=
    rel (e_in x) (e_in y) /\ e_cache x = e_cache y /\ e_cpos x = e_cpos y /\ e_chunk x = e_chunk y.
  Definition esimp {A} (x : estate S1 * A) (y : estate S2 * A) : Prop := esim (fst x) (fst y) /\ snd x = snd y.

  Ltac rf s1 s2 m Hs :=
    let Hx := fresh "Hx" in let Hy := fresh "Hy" in
    destruct (Hrf s1 s2 m ltac:(unfold CTS; lia) Hs) as [Hx Hy];
    destruct (read_full S1 fuelr s1 m) as [?i1 ?r1]; destruct (read_full S2 fuelr s2 m) as [?i2 ?r2];
    cbn [fst snd] in Hx, Hy; subst.
  Ltac fin := split; [repeat split; cbn [e_in e_cache e_cpos e_chunk]; (assumption || reflexivity || congruence) | reflexivity].

  Lemma eload_sim x y : esim x y ->
    esimp (eload CHUNK TAG ks tagc S1 x) (eload CHUNK TAG ks tagc S2 y).
  Proof.
    intros (Hi & Hc & Hp & Hk). unfold eload. rewrite <- Hk.
    rf (e_in x) (e_in y) (CTS CHUNK TAG) Hi.
    destruct r2 as [dt|e|c]; [|fin|fin].
    destruct (len dt =? 0); [fin|]. destruct (len dt <? TAG); [fin|].
    destruct (bytes_eqb _ _); fin.
  Qed.

  Lemma eload_unauth_sim x y : esim x y ->
    esimp (eload_unauth CHUNK TAG ks S1 x) (eload_unauth CHUNK TAG ks S2 y).
  Proof.
    intros (Hi & Hc & Hp & Hk). unfold eload_unauth. rewrite <- Hk.
    rf (e_in x) (e_in y) CHUNK Hi.
    destruct r2 as [dt|e|c]; [|fin|fin].
    destruct (len dt =? 0); [fin|].
    rf i1 i2 TAG Hx.
    destruct r2 as [d2|e|c]; fin.
  Qed.

  Lemma eread_gen_sim (l1 : estate S1 -> estate S1 * res bool) (l2 : estate S2 -> estate S2 * res bool) :
    (forall x y, esim x y -> esimp (l1 x) (l2 y)) ->
    forall x y n, esim x y -> esimp (eread_gen CHUNK S1 l1 x n) (eread_gen CHUNK S2 l2 y n).
  Proof.
    intros Hl x y n Hs.
    assert (Hcache : forall (x' : estate S1) (y' : estate S2) av, esim x' y' ->
              esimp (eread_cache S1 x' av n) (eread_cache S2 y' av n)).
    { intros x' y' av (Hi' & Hc' & Hp' & Hk'). unfold eread_cache. rewrite <- Hc', <- Hp', <- Hk'. fin. }
    destruct x as [xi xc xp xk], y as [yi yc yp yk]. pose proof Hs as (Hi & Hc & Hp & Hk).
    cbn [e_in e_cache e_cpos e_chunk] in Hi, Hc, Hp, Hk. subst yc yp yk.
    unfold eread_gen. cbn [e_in e_cache e_cpos e_chunk].
    destruct (csub 416 CHUNK xp) as [c|e|c]; [|split; [exact Hs | reflexivity]..].
    destruct c as [|c]; [|apply Hcache; exact Hs].
    destruct (2 ^ 32 <=? xk + 1); [split; [exact Hs | reflexivity]|].
    assert (Hs1 : esim (mkE xi xc xp (xk + 1)) (mkE yi xc xp (xk + 1))).
    { repeat split; cbn [e_in e_cache e_cpos e_chunk]; assumption. }
    destruct (Hl _ _ Hs1) as [Hs2 Hr].
    destruct (l1 _) as [x2 r1]. destruct (l2 _) as [y2 r2]. cbn [fst snd] in Hs2, Hr. subst r2.
    destruct r1 as [[|]|e|c]; [|split; [exact Hs2 | reflexivity]..].
    pose proof Hs2 as (_ & _ & Hp2 & _). rewrite <- Hp2.
    destruct (csub 416 CHUNK (e_cpos x2)) as [c|e|c]; [|split; [exact Hs2 | reflexivity]..].
    destruct c as [|c]; [split; [exact Hs2 | reflexivity] | apply Hcache; exact Hs2].
  Qed.

  Lemma fs_read_sim unauth x y n : esim x y ->
    esimp (fs_read CHUNK TAG ks tagc S1 unauth x n) (fs_read CHUNK TAG ks tagc S2 unauth y n).
  Proof.
    intros Hs. unfold fs_read. destruct unauth.
    - apply eread_gen_sim; [exact eload_unauth_sim | exact Hs].
    - destruct (eread_gen_sim _ _ eload_sim x y n Hs) as [Hs' Hr].
      destruct (eread_gen CHUNK S1 (eload CHUNK TAG ks tagc S1) x n) as [x' r1].
      destruct (eread_gen CHUNK S2 (eload CHUNK TAG ks tagc S2) y n) as [y' r2].
      cbn [fst snd] in Hs', Hr. subst r2.
      destruct r1 as [d|[]|c]; split; (exact Hs' || reflexivity).
  Qed.

  Lemma fs_open_sim i1 i2 : rel i1 i2 ->
    esimp (fs_open CHUNK TAG ks S1 i1) (fs_open CHUNK TAG ks S2 i2).
  Proof. intros Hi. apply eload_unauth_sim. repeat split; exact Hi. Qed.
End FsEncSim.

(* ---------- 3. every cut of the whole archive ---------- *)
(* a source standing at hl over A reads what a cursor over dropN hl A reads *)
Lemma read_full_shift (S0 : Stream) (A : bytes) (R0 : st S0 -> N -> Prop) (hl : N) fuel :
  Refines S0 A R0 -> hl <= len A ->
  forall (s : st S0) (q m : N), (N.to_nat m < fuel)%nat -> R0 s (hl + q) /\ q <= len (dropN hl A) ->
    (R0 (fst (read_full S0 fuel s m)) (hl + fst (read_full (Cursor (dropN hl A)) fuel q m)) /\
     fst (read_full (Cursor (dropN hl A)) fuel q m) <= len (dropN hl A)) /\
    snd (read_full S0 fuel s m) = snd (read_full (Cursor (dropN hl A)) fuel q m).
Proof.
  intros HR Hhl s q m Hf [Hs Hq]. rewrite len_dropN in *.
  destruct (read_full_spec S0 A R0 HR fuel s (hl + q) m Hs ltac:(lia)) as (s' & -> & Hs').
  destruct (read_full_spec (Cursor (dropN hl A)) _ _ (cursor_refines _) fuel q q m
              ltac:(split; [reflexivity | rewrite len_dropN; lia]) ltac:(rewrite len_dropN; lia)) as (q' & -> & [-> Hq']).
  cbn [fst snd]. rewrite len_dropN in *. split; [split|].
  - replace (hl + (q + N.min m (len A - hl - q))) with (hl + q + N.min m (len A - (hl + q))) by lia. exact Hs'.
  - exact Hq'.
  - f_equal. unfold sliceN. rewrite dropN_dropN. reflexivity.
Qed.

Section ArchiveCut.
  Variables CHUNK TAG CIPHERBUF BLOCK LIMIT FNMAX CACHE : N.
  Local Hint Extern 0 Limit => exact LIMIT : typeclass_instances.
  Hypothesis HFN : FNMAX < 2 ^ 64.
  Hypothesis HCACHE : 0 < CACHE.
  Variables TS TC TA TE : N.
  Hypothesis Htags : TS <> TC /\ TS <> TA /\ TS <> TE /\ TC <> TA /\ TC <> TE /\ TA <> TE.
  Variable H : bytes -> bytes.
  Hypothesis H_len : forall x, len (H x) = 32.
  Hypothesis HCHUNK : 0 < CHUNK.
  Hypothesis HTAG : 0 < TAG.
  Variable pubk : bytes -> bytes.
  Variable dh : bytes -> bytes -> bytes.
  Variable kdf : bytes -> bytes.
  Variables wenc wdec wtag : bytes -> bytes -> bytes.
  Variable ksf : bytes -> bytes -> N -> N -> N.
  Variable tagf : bytes -> bytes -> N -> bytes -> bytes.
  Hypothesis wdec_wenc : forall k m, len m = 32 -> wdec k (wenc k m) = m.
  (* the compression fail-safe layer: not reached by these theorems *)
  Variable FsCompOver : Stream -> Stream.
  Variable fscomp_open : forall I : Stream, st I -> res (st (FsCompOver I)).

  Notation body := (body TS TC TA TE).
  Notation to_persistent := (to_persistent pubk dh kdf wenc wtag).
  Notation failsafe_repair := (failsafe_repair CHUNK TAG LIMIT FNMAX CACHE TS TC TA TE H dh kdf wdec wtag ksf tagf).
  Notation concl := (repair_sound_concl FNMAX TS TC TA TE H).

  (* the archive: header of cfg, then the block stream `body bl ++ trailer` as the layer writers
     leave it (no compression) *)
  Variable cfg : wconfig.
  Hypothesis Hnc : wc_compress cfg = false.
  Let hp := to_persistent cfg.
  Hypothesis Hwf : wf_enc_opt hp.
  Hypothesis Hlim : config_size hp <= LIMIT.
  Variable bl : list block.
  Variable trailer : bytes.
  Hypothesis Hwfb : wf_blocks FNMAX H bl.
  Let plain := body bl ++ trailer.
  Let ks := ksf (wc_key cfg) (wc_nonce cfg).
  Let tagc := tagf (wc_key cfg) (wc_nonce cfg).
  Hypothesis Htr : In BEnd bl \/
    trailer ++ (if wc_encrypt cfg then junk CHUNK ks tagc plain else []) = [].
  Variable wire : bytes.
  Hypothesis Hwire :
    if wc_encrypt cfg then
      (forall i c, len (tagc i c) = TAG) /\
      exists pieces fuelw es, concat pieces = plain /\
        ew_archive CHUNK CIPHERBUF ks tagc fuelw pieces = Ok es /\ wire = ew_out es /\
        len (ew_out es) / (CHUNK + TAG) + 2 <= 2 ^ 32
    else wire = plain.
  (* the reader holds the private key s of a recipient (as in C01) *)
  Variables (privs : list bytes) (s : bytes).
  Hypothesis Hrecip : wc_encrypt cfg = true ->
    len (wc_key cfg) = 32 /\ dh s (pubk (wc_eph cfg)) = dh (wc_eph cfg) (pubk s) /\
    In (pubk s) (wc_recipients cfg) /\ In s privs.
  Let a := ser_header hp ++ wire.

  Theorem archive_cut_sound (n : N) (S0 : Stream) (R0 : st S0 -> N -> Prop) (s0 : st S0)
          (unauth : bool) (fuel : nat) :
    Refines S0 (takeN n a) R0 -> R0 s0 0 -> (N.to_nat (len plain + TAG) < fuel)%nat ->
    let r := failsafe_repair S0 FsCompOver fscomp_open s0 privs unauth fuel in
    (n < len (ser_header hp) -> r = Err (if n <? 7 then EUnexpectedEof else EDeser)) /\
    (len (ser_header hp) <= n ->
       TagCollision pubk dh kdf wenc wtag (wc_eph cfg) (wc_key cfg) (wc_recipients cfg) privs \/
       (* finalize of the repaired archive did not fail with SerializationError (its footer
          within the bincode limit); below the header length Err EDeser is the header's *)
       (r <> Err EDeser -> concl bl r)).
  Proof.
    intros HR0 Hs0 Hfuel r. subst r. unfold ArchiveSrc.failsafe_repair.
    destruct (read_header_s_refines S0 _ R0 HR0 LIMIT s0 Hs0) as (s1 & Hh).
    split.
    - intros Hn. unfold a in Hh. rewrite (read_header_cut LIMIT hp wire n Hwf Hlim Hn) in Hh.
      destruct Hh as [-> _]. reflexivity.
    - intros Hn. set (hl := len (ser_header hp)) in *.
      assert (EA : takeN n a = ser_header hp ++ takeN (n - hl) wire).
      { unfold a. replace n with (hl + (n - hl)) at 1 by lia. unfold hl. rewrite takeN_add, takeN_len_app, dropN_len_app. reflexivity. }
      rewrite EA in Hh. rewrite (read_header_ser LIMIT hp _ Hwf Hlim) in Hh.
      destruct Hh as (-> & Hs1 & _).
      rewrite len_app in Hs1.
      set (w := takeN (n - hl) wire) in *.
      replace (len (ser_header hp) + len w - len w) with hl in Hs1 by (unfold hl; lia).
      assert (Ew : dropN hl (takeN n a) = w) by (rewrite EA; unfold hl; apply dropN_len_app).
      assert (Hhl : hl <= len (takeN n a)) by (rewrite EA, len_app; lia).
      destruct (wc_encrypt cfg) eqn:Ee.
      + (* ENCRYPT *)
        destruct (Hrecip eq_refl) as (Hk & Hdh & Hrec & Hin).
        destruct (load_config_enc pubk dh kdf wenc wdec wtag wdec_wenc cfg privs s Ee Hk Hdh Hrec Hin) as [Hl|Ht];
          [right | left; exact Ht].
        fold hp in Hl. rewrite Hl. cbn [bind]. cbv iota beta. rewrite Hnc.
        destruct Hwire as (Htagc & pieces & fuelw & es & Hpc & Hew & -> & Hbig).
        fold ks tagc.
        destruct Htr as [Hend|Hjunk].
        * pose proof (or_introl Hend : In BEnd bl \/ trailer ++ junk CHUNK ks tagc plain = []) as Htr'.
          destruct (repair_encrypted_cut_sound FNMAX CACHE HFN HCACHE TS TC TA TE Htags H H_len CHUNK TAG CIPHERBUF
                      HCHUNK HTAG ks tagc Htagc bl trailer Hwfb Htr' pieces Hpc fuelw es Hew Hbig (n - hl) unauth fuel Hfuel)
            as (ec & b & Hoc & Hcon).
          fold w in Hoc, Hcon.
          (* simulation between the decryptor over the source and over the cursor *)
          set (rel := fun (x : st S0) (q : st (Cursor w)) => R0 x (hl + q) /\ q <= len w).
          assert (Hrf : forall x q m, m <= CTS CHUNK TAG -> rel x q ->
                    rel (fst (read_full S0 (rd_fuel CHUNK TAG) x m)) (fst (read_full (Cursor w) (rd_fuel CHUNK TAG) q m)) /\
                    snd (read_full S0 (rd_fuel CHUNK TAG) x m) = snd (read_full (Cursor w) (rd_fuel CHUNK TAG) q m)).
          { intros x q m Hm Hx. unfold rel in *. rewrite <- Ew in *.
            apply (read_full_shift S0 _ R0 hl _ HR0 Hhl); [unfold rd_fuel; lia | exact Hx]. }
          assert (H0 : rel s1 0) by (split; [rewrite N.add_0_r; exact Hs1 | lia]).
          destruct (fs_open_sim CHUNK TAG ks tagc S0 (Cursor w) rel Hrf s1 0 H0) as [Hes Hres].
          rewrite Hoc in Hes, Hres. destruct (fs_open CHUNK TAG ks S0 s1) as [e0 r0]. cbn [fst snd] in Hes, Hres. subst r0.
          rewrite (repair_sim (FsEnc CHUNK TAG ks tagc unauth S0) (FsEnc CHUNK TAG ks tagc unauth (Cursor w))
                     (esim S0 (Cursor w) rel)
                     (fun x y m Hxy => fs_read_sim CHUNK TAG ks tagc S0 (Cursor w) rel Hrf unauth x y m Hxy)
                     FNMAX CACHE TS TC TA TE H fuel e0 ec w_init Hes).
          exact Hcon.
        * pose proof (or_intror Hjunk : In BEnd bl \/ trailer ++ junk CHUNK ks tagc plain = []) as Htr'.
          destruct (repair_encrypted_cut_sound FNMAX CACHE HFN HCACHE TS TC TA TE Htags H H_len CHUNK TAG CIPHERBUF
                      HCHUNK HTAG ks tagc Htagc bl trailer Hwfb Htr' pieces Hpc fuelw es Hew Hbig (n - hl) unauth fuel Hfuel)
            as (ec & b & Hoc & Hcon).
          fold w in Hoc, Hcon.
          set (rel := fun (x : st S0) (q : st (Cursor w)) => R0 x (hl + q) /\ q <= len w).
          assert (Hrf : forall x q m, m <= CTS CHUNK TAG -> rel x q ->
                    rel (fst (read_full S0 (rd_fuel CHUNK TAG) x m)) (fst (read_full (Cursor w) (rd_fuel CHUNK TAG) q m)) /\
                    snd (read_full S0 (rd_fuel CHUNK TAG) x m) = snd (read_full (Cursor w) (rd_fuel CHUNK TAG) q m)).
          { intros x q m Hm Hx. unfold rel in *. rewrite <- Ew in *.
            apply (read_full_shift S0 _ R0 hl _ HR0 Hhl); [unfold rd_fuel; lia | exact Hx]. }
          assert (H0 : rel s1 0) by (split; [rewrite N.add_0_r; exact Hs1 | lia]).
          destruct (fs_open_sim CHUNK TAG ks tagc S0 (Cursor w) rel Hrf s1 0 H0) as [Hes Hres].
          rewrite Hoc in Hes, Hres. destruct (fs_open CHUNK TAG ks S0 s1) as [e0 r0]. cbn [fst snd] in Hes, Hres. subst r0.
          rewrite (repair_sim (FsEnc CHUNK TAG ks tagc unauth S0) (FsEnc CHUNK TAG ks tagc unauth (Cursor w))
                     (esim S0 (Cursor w) rel)
                     (fun x y m Hxy => fs_read_sim CHUNK TAG ks tagc S0 (Cursor w) rel Hrf unauth x y m Hxy)
                     FNMAX CACHE TS TC TA TE H fuel e0 ec w_init Hes).
          exact Hcon.
      + (* no layer *)
        right. pose proof (load_config_plain pubk dh kdf wenc wdec wtag cfg privs Ee) as Hl. fold hp in Hl. rewrite Hl. cbn [bind]. cbv iota beta.
        rewrite Hnc. subst wire.
        assert (Htr' : In BEnd bl \/ trailer = []).
        { destruct Htr as [?|E]; [now left | right]. now rewrite app_nil_r in E. }
        assert (HRd : RdRefines (rd S0) w (fun x q => R0 x (hl + q))).
        { intros x q m Hx. destruct (ref_rd _ _ _ HR0 x (hl + q) m Hx) as (x' & k & Hrd & Hk1 & Hk2 & Hk3 & Hx').
          exists x', k. rewrite Hrd. rewrite <- Ew. rewrite len_dropN.
          split; [f_equal; unfold sliceN; rewrite dropN_dropN; reflexivity|].
          split; [exact Hk1|]. split; [lia|]. split; [intros Hz; destruct (Hk3 Hz); [now left | right; lia]|].
          rewrite N.add_assoc. exact Hx'. }
        intros Hser.
        apply (repair_sound_rd FNMAX CACHE HFN HCACHE TS TC TA TE Htags H H_len S0 w _ HRd bl trailer Hwfb Htr').
        * apply prefix_takeN.
        * rewrite N.add_0_r. exact Hs1.
        * unfold w. rewrite len_takeN. fold plain. lia.
        * exact Hser.
  Qed.
End ArchiveCut.

(* ---------- the bytes `archive_write` produces, without compression ---------- *)
Lemma archive_write_shape CHUNK CIPHERBUF BLOCK LIMIT FNMAX TS TC TA TE H order pubk dh kdf wenc wtag ksf tagf
      cfg cut_top cut_mid ops a :
  archive_write CHUNK CIPHERBUF BLOCK LIMIT FNMAX TS TC TA TE H order pubk dh kdf wenc wtag ksf tagf
                cfg cut_top cut_mid ops = Ok a ->
  wc_compress cfg = false ->
  let hp := to_persistent pubk dh kdf wenc wtag cfg in
  exists sf rs wire,
    wrun (LIM := LIMIT) FNMAX TS TC TA TE H order w_init (ops ++ [OFinalize]) = (sf, rs) /\ first_bad rs = Ok tt /\
    config_size hp <= LIMIT /\ a = ser_header hp ++ wire /\
    if wc_encrypt cfg then
      exists pieces fuelw es, concat pieces = w_out sf /\
        ew_archive CHUNK CIPHERBUF (ksf (wc_key cfg) (wc_nonce cfg)) (tagf (wc_key cfg) (wc_nonce cfg)) fuelw pieces = Ok es /\
        wire = ew_out es
    else wire = w_out sf.
Proof.
  intros Hw Hnc hp. unfold archive_write in Hw.
  destruct (wc_encrypt cfg && _); [discriminate|].
  unfold dump_header in Hw. fold hp in Hw.
  destruct (N.ltb_spec LIMIT (config_size hp)) as [?|Hl]; [discriminate|]. cbn [bind] in Hw.
  destruct (wrun (LIM := LIMIT) FNMAX TS TC TA TE H order w_init (ops ++ [OFinalize])) as [sf rs] eqn:Er.
  destruct (first_bad rs) as [[]|e|c] eqn:Ef; try discriminate. cbn [bind] in Hw.
  unfold lower_write in Hw. rewrite Hnc in Hw. cbn [bind] in Hw.
  exists sf, rs. destruct (wc_encrypt cfg).
  - destruct (ew_archive _ _ _ _ _ _) as [es|e|c] eqn:Ee; try discriminate. cbn [bind] in Hw.
    injection Hw as <-. exists (ew_out es). repeat split; try assumption.
    eexists _, _, es. split; [apply cut_pieces_concat|]. split; [exact Ee | reflexivity].
  - injection Hw as <-. exists (concat (cut_pieces cut_top (w_out sf))). repeat split; try assumption.
    apply cut_pieces_concat.
Qed.
