(* PathLinks.v — property C16 on ANY initial file system: directories, regular
   files and symbolic links (absolute or relative targets, ".." in targets,
   dangling links, cycles) anywhere, inside and outside the output directory.
   All statements are about the model of Path.v. *)
From MLA Require Import Base Path PathProofs.
Import Coq.Strings.String.StringSyntax Coq.Strings.Ascii.AsciiSyntax.

(* ================================================================== *)
(** * 1. What an extraction may do to a file system *)

(* f' is a possible later state of f during one run of `mlar extract -o out`:
   - directories stay directories (nothing is removed);
   - symbolic links are exactly the same ones with the same targets: none is
     created, removed, retargeted or replaced.  (A link can therefore not
     "appear in between" the creation of a file and its reopening in append
     mode, within the run; another process racing with the extraction is
     outside the model);
   - regular files stay regular files (content may change);
   - at a physical path that is NOT beneath out: a regular file is there after
     iff it was there before, with the same content.  No file outside out is
     created, truncated, appended to or removed.
   Directories may appear anywhere (create_dir_all runs before the check). *)
Record evolves (out : path) (f f' : fs) : Prop := {
  ev_dir : forall p, lookup f p = Some Dir -> lookup f' p = Some Dir;
  ev_link : forall p t, lookup f' p = Some (Link t) <-> lookup f p = Some (Link t);
  ev_file : forall p d, lookup f p = Some (File d) -> exists d', lookup f' p = Some (File d');
  ev_outside : forall p, ~ prefix out p ->
      forall d, lookup f' p = Some (File d) <-> lookup f p = Some (File d)
}.

Lemma evolves_refl out f : evolves out f f.
Proof. split; try tauto; eauto. Qed.

Lemma evolves_trans out f f1 f2 : evolves out f f1 -> evolves out f1 f2 -> evolves out f f2.
Proof.
  intros [D1 L1 F1 O1] [D2 L2 F2 O2]. split.
  - auto.
  - intros p t. rewrite L2. apply L1.
  - intros p d H. destruct (F1 p d H) as [d1 H1]. eauto.
  - intros p Hp d. rewrite (O2 p Hp). apply (O1 p Hp).
Qed.

Lemma mk_rel_evolves out f f1 : mk_rel f f1 -> evolves out f f1.
Proof.
  intros H. split.
  - intros p Hl. now apply (mk_rel_mono f f1).
  - intros p t. now apply mk_rel_link.
  - intros p d Hl. exists d. now apply (mk_rel_mono f f1).
  - intros p _ d. now apply mk_rel_file.
Qed.

(* a regular file is created or gets a new content, beneath out *)
Lemma set_file_evolves out f cp d' :
  prefix out cp -> cp <> [] ->
  (lookup f cp = None \/ exists d, lookup f cp = Some (File d)) ->
  evolves out f (set f cp (File d')).
Proof.
  intros Hp Hne Hold.
  assert (Hoth : forall p, p <> cp -> lookup (set f cp (File d')) p = lookup f p).
  { intros p Hn. apply lookup_set_neq. congruence. }
  assert (Hat : lookup (set f cp (File d')) cp = Some (File d')) by now apply lookup_set_eq.
  assert (Hdec : forall p, p = cp \/ p <> cp).
  { intros p. destruct (path_eqb p cp) eqn:E; [left; now apply path_eqb_eq|right; now apply path_eqb_false]. }
  split.
  - intros p Hl. destruct (Hdec p) as [->|Hn]; [|now rewrite Hoth].
    destruct Hold as [Ho|[d Ho]]; congruence.
  - intros p t. destruct (Hdec p) as [->|Hn]; [|now rewrite Hoth].
    rewrite Hat. split; [discriminate|]. destruct Hold as [Ho|[d Ho]]; congruence.
  - intros p d Hl. destruct (Hdec p) as [->|Hn]; [eauto|]. exists d. now rewrite Hoth.
  - intros p Hnp d. rewrite Hoth; [reflexivity|]. intros ->. exact (Hnp Hp).
Qed.

Lemma write_at_evolves out f cp data : prefix out cp -> evolves out f (write_at f cp data).
Proof.
  intros Hp. unfold write_at. destruct (lookup f cp) as [[|old|t]|] eqn:Hl; try apply evolves_refl.
  apply set_file_evolves; [exact Hp| |right; eauto].
  intros ->. discriminate.
Qed.

(* ================================================================== *)
(** * 2. Path resolution is stable along an extraction *)

(* the part of `evolves` that resolution depends on *)
Definition grows (f f' : fs) : Prop :=
  (forall p, lookup f p = Some Dir -> lookup f' p = Some Dir) /\
  (forall p t, lookup f p = Some (Link t) -> lookup f' p = Some (Link t)) /\
  (forall p d, lookup f p = Some (File d) -> exists d', lookup f' p = Some (File d')).

Lemma evolves_grows out f f' : evolves out f f' -> grows f f'.
Proof. intros [D L F _]. split; [exact D|]. split; [|exact F]. intros p t. apply L. Qed.

Lemma grows_is_dir f f' p : grows f f' -> is_dir f p = true -> is_dir f' p = true.
Proof.
  intros [D _]. unfold is_dir. destruct (lookup f p) as [[|d|t]|] eqn:Hl; try discriminate.
  intros _. now rewrite (D p Hl).
Qed.

Lemma walk_grows f f' : grows f f' -> forall rest cur,
  match walk f cur rest with
  | WFail => True
  | r => walk f' cur rest = r
  end.
Proof.
  intros [D [L F]]. induction rest as [|[|c] rest IH]; intros cur; cbn [walk].
  - reflexivity.
  - apply IH.
  - destruct (lookup f (cur ++ [c])) as [[|d|t]|] eqn:Hl.
    + rewrite (D _ Hl). apply IH.
    + destruct (F _ _ Hl) as [d' Hl']. rewrite Hl'. destruct rest; [reflexivity|exact I].
    + rewrite (L _ _ Hl). reflexivity.
    + exact I.
Qed.

(* a path that resolves keeps resolving, to the same physical path *)
Lemma resolve_grows f f' : grows f f' -> forall k cur rest q,
  resolve k f cur rest = Some q -> resolve k f' cur rest = Some q.
Proof.
  intros Hg. induction k as [|k IH]; intros cur rest q; cbn [resolve];
    pose proof (walk_grows f f' Hg rest cur) as Hw;
    destruct (walk f cur rest) as [x| |c' r'] eqn:W; try discriminate; rewrite Hw; auto.
Qed.

Theorem canonicalize_stable out f f' p q :
  evolves out f f' -> canonicalize f p = Some q -> canonicalize f' p = Some q.
Proof. intros He. apply resolve_grows. exact (evolves_grows _ _ _ He). Qed.

(** ** appending steps to a path *)

Lemma walk_app_done f b : forall a cur q,
  walk f cur a = WDone q -> is_dir f q = true -> walk f cur (a ++ b) = walk f q b.
Proof.
  induction a as [|[|c] a IH]; intros cur q; cbn [walk app].
  - intros H _. now inversion H.
  - apply IH.
  - destruct (lookup f (cur ++ [c])) as [[|d|t]|] eqn:Hl; try discriminate.
    + apply IH.
    + destruct a; [|discriminate]. intros H Hd. inversion H; subst q.
      unfold is_dir in Hd. rewrite Hl in Hd. discriminate.
Qed.

Lemma walk_app_link f b : forall a cur c' r',
  walk f cur a = WLink c' r' -> walk f cur (a ++ b) = WLink c' (r' ++ b).
Proof.
  induction a as [|[|c] a IH]; intros cur c' r'; cbn [walk app].
  - discriminate.
  - apply IH.
  - destruct (lookup f (cur ++ [c])) as [[|d|t]|] eqn:Hl; try discriminate.
    + apply IH.
    + destruct a; discriminate.
    + intros H; inversion H; subst. now rewrite app_assoc.
Qed.

(* the parent resolves to the directory q and q/c is a regular file: the
   whole path resolves to q/c *)
Lemma resolve_snoc_file f c d : forall k cur a q,
  resolve k f cur a = Some q -> is_dir f q = true ->
  lookup f (q ++ [c]) = Some (File d) ->
  resolve k f cur (a ++ [Down c]) = Some (q ++ [c]).
Proof.
  induction k as [|k IH]; intros cur a q; cbn [resolve];
    destruct (walk f cur a) as [x| |c' r'] eqn:W; try discriminate.
  - intros H Hd Hl. inversion H; subst x.
    rewrite (walk_app_done f [Down c] a cur q W Hd). cbn [walk]. now rewrite Hl.
  - intros H Hd Hl. inversion H; subst x.
    rewrite (walk_app_done f [Down c] a cur q W Hd). cbn [walk]. now rewrite Hl.
  - intros H Hd Hl. rewrite (walk_app_link f [Down c] a cur c' r' W). now apply IH.
Qed.

(** ** canonical paths are physical *)

Lemma real_dir_removelast f p : real_dir f p -> real_dir f (removelast p).
Proof.
  destruct p as [|x p] using rev_ind; [auto|].
  intros H. rewrite removelast_last. apply real_dir_app in H. tauto.
Qed.

Lemma real_dir_snoc f p c : real_dir f p -> lookup f (p ++ [c]) = Some Dir -> real_dir f (p ++ [c]).
Proof. intros Hr Hl. apply real_dir_app. split; [exact Hr|]. cbn [dirs_from]. auto. Qed.

(* the result of a resolution: a real directory, or a regular file in one *)
Definition physical (f : fs) (q : path) : Prop :=
  real_dir f q \/ exists par c d, q = par ++ [c] /\ real_dir f par /\ lookup f q = Some (File d).

Lemma walk_physical f : forall rest cur, real_dir f cur ->
  match walk f cur rest with
  | WDone q => physical f q
  | WFail => True
  | WLink c' _ => real_dir f c'
  end.
Proof.
  induction rest as [|[|c] rest IH]; intros cur Hr; cbn [walk].
  - left; exact Hr.
  - apply IH. now apply real_dir_removelast.
  - destruct (lookup f (cur ++ [c])) as [[|d|t]|] eqn:Hl.
    + apply IH. now apply real_dir_snoc.
    + destruct rest; [|exact I]. right. exists cur, c, d. auto.
    + unfold link_base. destruct (fst t); [exact I|exact Hr].
    + exact I.
Qed.

Lemma resolve_physical f : forall k cur rest q,
  real_dir f cur -> resolve k f cur rest = Some q -> physical f q.
Proof.
  induction k as [|k IH]; intros cur rest q Hr; cbn [resolve];
    pose proof (walk_physical f rest cur Hr) as Hw;
    destruct (walk f cur rest) as [x| |c' r'] eqn:W; try discriminate;
    try (intros H; inversion H; subst; exact Hw).
  apply IH. exact Hw.
Qed.

(* fs::canonicalize returns a physical path: each of its ancestors is a
   directory entry (no link on the way).  In particular the `output_dir` that
   `extract` passes to create_file is a real directory. *)
Theorem canonicalize_physical f p q : canonicalize f p = Some q -> physical f q.
Proof. apply resolve_physical. exact I. Qed.

Corollary canonical_dir_is_real f p q :
  canonicalize f p = Some q -> is_dir f q = true -> real_dir f q.
Proof.
  intros Hc Hd. destruct (canonicalize_physical f p q Hc) as [H|[par [c [d [_ [_ Hl]]]]]]; [exact H|].
  unfold is_dir in Hd. rewrite Hl in Hd. discriminate.
Qed.

(* ================================================================== *)
(** * 3. create_file on any file system *)

Lemma create_file_with_not_created gp chk lt out name f f' o :
  create_file_with gp chk lt out name f = (f', o) ->
  (forall lit cp, o <> Created lit cp) -> mk_rel f f'.
Proof.
  unfold create_file_with. intros H Ho.
  destruct (gp out name) as [p|]; [|inversion H; apply mk_rel_refl].
  destruct (split_last p) as [[par c]|]; [|inversion H; apply mk_rel_refl].
  pose proof (prepare_parent_rel f par) as Hrel.
  destruct (prepare_parent f par) as [f1 b]. cbn [fst] in Hrel.
  destruct b; [|inversion H; subst; exact Hrel].
  destruct (canonicalize f1 par); [|inversion H; subst; exact Hrel].
  destruct (chk out p0); [|inversion H; subst; exact Hrel].
  destruct (lt f1 p); [inversion H; subst; exact Hrel|].
  destruct (sys_file_create f1 p) as [[f2 cp]|]; inversion H; subst; [|exact Hrel].
  exfalso. exact (Ho _ _ eq_refl).
Qed.

(* One call of the real create_file, ANY file system, ANY member name:
   - the file system evolves as described above (nothing outside out but
     directories);
   - if a file is created/truncated, its physical path cp is beneath out, it
     is a regular file, cp is its own canonical path, and the literal path
     handed to FileWriter resolves to it. *)
Theorem create_file_any_fs out name f f' o :
  create_file out name f = (f', o) ->
  evolves out f f' /\
  (forall lit cp, o = Created lit cp ->
     prefix out cp /\ lookup f' cp = Some (File []) /\
     canonicalize f' lit = Some cp /\ canonicalize f' cp = Some cp).
Proof.
  intros H. destruct o as [lit cp| |].
  2,3: split; [apply mk_rel_evolves;
               apply (create_file_with_not_created _ _ _ _ _ _ _ _ H); discriminate|discriminate].
  unfold create_file in H.
  destruct (confined_by_canonical_check_file _ _ _ _ _ _ _ H) as [Hpre [par [c [q [Hlit [Hcp [Hq _]]]]]]].
  destruct (confined_by_canonical_check _ _ _ _ _ _ _ _ H)
    as [par' [c' [q' [f1 [_ [Hlit' [Hf1 [Hc [_ [Hd [_ [Hold [Hset _]]]]]]]]]]]]].
  rewrite Hlit in Hlit'. apply app_inj_tail in Hlit'. destruct Hlit' as [<- <-].
  assert (Hne : cp <> []) by (rewrite Hcp; apply snoc_neq_nil).
  assert (H1 : evolves out f f1).
  { apply mk_rel_evolves. rewrite Hf1. apply prepare_parent_rel. }
  assert (H2 : evolves out f1 f') by (rewrite Hset; now apply set_file_evolves).
  split; [exact (evolves_trans _ _ _ _ H1 H2)|].
  intros lit0 cp0 E. inversion E; subst lit0 cp0. clear E.
  assert (Hl' : lookup f' cp = Some (File [])) by (rewrite Hset; now apply lookup_set_eq).
  split; [exact Hpre|]. split; [exact Hl'|].
  (* the parent still resolves to q' in f' *)
  pose proof (evolves_grows _ _ _ H2) as Hg.
  assert (Hcq : cp = q' ++ [c]).
  { (* both theorems speak of the same canonical parent *)
    rewrite Hcp. f_equal.
    destruct (confined_by_canonical_check_file _ _ _ _ _ _ _ H) as [_ [par2 [c2 [q2 [Hl2 [Hcp2 [_ Hc2]]]]]]].
    rewrite Hlit in Hl2. apply app_inj_tail in Hl2. destruct Hl2 as [<- <-].
    rewrite Hcp in Hcp2. apply app_inj_tail in Hcp2. destruct Hcp2 as [<- _].
    rewrite <- Hf1, Hc in Hc2. now inversion Hc2. }
  pose proof (resolve_grows f1 f' Hg _ _ _ _ Hc) as Hc'.
  pose proof (grows_is_dir f1 f' q' Hg Hd) as Hd'.
  rewrite Hcq in Hl'.
  split.
  - rewrite Hlit, Hcq. unfold canonicalize. rewrite down_app.
    exact (resolve_snoc_file f' c [] _ _ _ _ Hc' Hd' Hl').
  - rewrite Hcq. apply (read_file_reachable f' q' c []); [|exact Hl'].
    exact (canonical_dir_is_real f' par q' Hc' Hd').
Qed.
Print Assumptions create_file_any_fs.

(* ================================================================== *)
(** * 4. Both extraction forms on any file system *)

Lemma extract_member_any_fs out m f f' b :
  extract_member out m f = (f', b) -> evolves out f f'.
Proof.
  unfold extract_member. destruct (create_file out (fst m) f) as [f1 o] eqn:Hcf.
  destruct (create_file_any_fs _ _ _ _ _ Hcf) as [H1 Hc].
  destruct o as [lit cp| |]; intros H; inversion H; subst; try exact H1.
  apply (evolves_trans _ _ _ _ H1). apply write_at_evolves.
  exact (proj1 (Hc lit cp eq_refl)).
Qed.

Theorem extract_all_any_fs out ms : forall f f' b,
  extract_all out ms f = (f', b) -> evolves out f f'.
Proof.
  induction ms as [|m ms IH]; intros f f' b; cbn [extract_all].
  - intros H; inversion H; subst. apply evolves_refl.
  - destruct (extract_member out m f) as [f1 b1] eqn:Hem.
    pose proof (extract_member_any_fs _ _ _ _ _ Hem) as H1.
    destruct b1; [|intros H; inversion H; subst; exact H1].
    intros H. exact (evolves_trans _ _ _ _ H1 (IH _ _ _ H)).
Qed.
Print Assumptions extract_all_any_fs.

(* what is known about an entry of `export`: its literal path resolves to a
   physical path beneath out *)
Definition export_ok (out : path) (f : fs) (e : bytes * path) : Prop :=
  exists cp, canonicalize f (snd e) = Some cp /\ prefix out cp.

Lemma export_ok_stable out f f' e : evolves out f f' -> export_ok out f e -> export_ok out f' e.
Proof. intros He [cp [Hc Hp]]. exists cp. split; [now apply (canonicalize_stable out f f')|exact Hp]. Qed.

Lemma create_all_any_fs out names : forall f f' ex b,
  create_all out names f = (f', ex, b) ->
  evolves out f f' /\ Forall (export_ok out f') ex.
Proof.
  induction names as [|n names IH]; intros f f' ex b; cbn [create_all].
  - intros H; inversion H; subst. split; [apply evolves_refl|constructor].
  - destruct (create_file out n f) as [f1 o] eqn:Hcf.
    destruct (create_file_any_fs _ _ _ _ _ Hcf) as [H1 Hc].
    destruct o as [lit cp| |].
    + destruct (create_all out names f1) as [[f2 ex2] ok] eqn:Hca.
      destruct (IH _ _ _ _ Hca) as [H2 Hex].
      destruct (Hc lit cp eq_refl) as [Hpre [_ [Hcan _]]].
      intros H; inversion H; subst.
      split; [exact (evolves_trans _ _ _ _ H1 H2)|]. constructor; [|exact Hex].
      apply (export_ok_stable out f1 f' (n, lit) H2). exists cp. auto.
    + intros H. destruct (IH _ _ _ _ H) as [H2 Hex].
      split; [exact (evolves_trans _ _ _ _ H1 H2)|exact Hex].
    + intros H; inversion H; subst. split; [exact H1|constructor].
Qed.

Lemma append_path_any_fs out f (n : bytes) lit data f1 q :
  export_ok out f (n, lit) -> append_path f lit data = Some (f1, q) ->
  prefix out q /\ evolves out f f1.
Proof.
  intros [cp [Hc Hp]]. cbn [snd] in Hc. unfold append_path. rewrite Hc.
  destruct (lookup f cp) as [[|old|t]|] eqn:Hl; try discriminate.
  intros H; inversion H; subst. split; [exact Hp|].
  apply set_file_evolves; [exact Hp| |right; eauto]. intros ->. discriminate.
Qed.

Lemma append_blocks_any_fs out ex blocks : forall f f' b,
  Forall (export_ok out f) ex ->
  append_blocks ex blocks f = (f', b) -> evolves out f f'.
Proof.
  induction blocks as [|[n data] blocks IH]; intros f f' b Hex; cbn [append_blocks].
  - intros H; inversion H; subst. apply evolves_refl.
  - destruct (find_export ex n) as [lit|] eqn:Hfe; [|now apply IH].
    destruct (find_export_in_ex _ _ _ Hfe) as [n' Hin].
    pose proof (proj1 (Forall_forall _ _) Hex _ Hin) as Hok.
    destruct (append_path f lit data) as [[f1 q]|] eqn:Hap;
      [|intros H; inversion H; subst; apply evolves_refl].
    destruct (append_path_any_fs out f n' lit data f1 q Hok Hap) as [_ H1].
    intros H. apply (evolves_trans _ _ _ _ H1). apply (IH f1 f' b); [|exact H].
    apply Forall_forall. intros e He. apply (export_ok_stable out f f1 e H1).
    exact (proj1 (Forall_forall _ _) Hex e He).
Qed.

Theorem extract_linear_any_fs out names blocks f f' b :
  extract_linear out names blocks f = (f', b) -> evolves out f f'.
Proof.
  unfold extract_linear.
  destruct (create_all out names f) as [[f1 ex] ok] eqn:Hca.
  destruct (create_all_any_fs _ _ _ _ _ _ Hca) as [H1 Hex].
  destruct ok; [|intros H; inversion H; subst; exact H1].
  intros H. exact (evolves_trans _ _ _ _ H1 (append_blocks_any_fs _ _ _ _ _ _ Hex H)).
Qed.
Print Assumptions extract_linear_any_fs.

(* C16, first half, on the model: ANY initial file system f — directories,
   files and symbolic links anywhere, with absolute or relative targets,
   dangling or cyclic (resolution through more than MAXSYMLINKS links fails,
   as ELOOP does) — ANY output directory path out, ANY member names and
   contents, both forms, success or abort: no symbolic link changes, nothing is
   removed, and at every physical path that is not beneath out a regular file
   is there afterwards iff it was there before, with the same content.
   When out is the canonical path of a directory, as `extract` guarantees by
   `fs::canonicalize(output_dir)`, "beneath out" is physical containment and
   out remains that directory. *)
Theorem extract_confined_with_symlinks out f :
  (forall ms f' b, extract_all out ms f = (f', b) -> evolves out f f') /\
  (forall names blocks f' b, extract_linear out names blocks f = (f', b) -> evolves out f f') /\
  (forall f', evolves out f f' -> real_dir f out -> real_dir f' out).
Proof.
  split; [intros ms f' b; apply extract_all_any_fs|].
  split; [intros names blocks f' b; apply extract_linear_any_fs|].
  intros f' [D _ _ _] Hr. unfold real_dir in *.
  revert Hr. generalize (@nil bytes) as cur. induction out as [|c r IH]; intros cur; cbn [dirs_from]; [auto|].
  intros [Hl Hd]. split; [now apply D|now apply IH].
Qed.
Print Assumptions extract_confined_with_symlinks.

(* ================================================================== *)
(** * 5. The same as a list of touched files *)

(* `evolves` cannot see a write that leaves the content as it was (truncating
   an empty file, appending nothing).  So, separately: the physical path of
   EVERY file the extraction creates/truncates (File::create) or appends to
   (FileWriter), in order, whether or not the content changes. *)
Fixpoint touched_all (out : path) (ms : list (bytes * bytes)) (f : fs) : list path :=
  match ms with
  | [] => []
  | m :: ms' =>
      match create_file out (fst m) f with
      | (f1, Created _ cp) => cp :: cp :: touched_all out ms' (write_at f1 cp (snd m))
      | (f1, Skipped) => touched_all out ms' f1
      | (_, Failed) => []
      end
  end.

Fixpoint touched_append (ex : list (bytes * path)) (blocks : list (bytes * bytes)) (f : fs)
  : list path :=
  match blocks with
  | [] => []
  | (n, data) :: blocks' =>
      match find_export ex n with
      | None => touched_append ex blocks' f
      | Some lit =>
          match append_path f lit data with
          | Some (f1, q) => q :: touched_append ex blocks' f1
          | None => []
          end
      end
  end.

Fixpoint touched_create (out : path) (names : list bytes) (f : fs) : list path :=
  match names with
  | [] => []
  | n :: names' =>
      match create_file out n f with
      | (f1, Created _ cp) => cp :: touched_create out names' f1
      | (f1, Skipped) => touched_create out names' f1
      | (_, Failed) => []
      end
  end.

Definition touched_linear (out : path) (names : list bytes) (blocks : list (bytes * bytes)) (f : fs)
  : list path :=
  touched_create out names f ++
  match create_all out names f with
  | (f1, ex, true) => touched_append ex blocks f1
  | _ => []
  end.

Theorem touched_all_beneath out ms : forall f, Forall (prefix out) (touched_all out ms f).
Proof.
  induction ms as [|m ms IH]; intros f; cbn [touched_all]; [constructor|].
  destruct (create_file out (fst m) f) as [f1 o] eqn:Hcf.
  destruct (create_file_any_fs _ _ _ _ _ Hcf) as [_ Hc].
  destruct o as [lit cp| |]; [|apply IH|constructor].
  pose proof (proj1 (Hc lit cp eq_refl)) as Hp.
  constructor; [exact Hp|]. constructor; [exact Hp|apply IH].
Qed.

Lemma touched_create_beneath out names : forall f, Forall (prefix out) (touched_create out names f).
Proof.
  induction names as [|n names IH]; intros f; cbn [touched_create]; [constructor|].
  destruct (create_file out n f) as [f1 o] eqn:Hcf.
  destruct (create_file_any_fs _ _ _ _ _ Hcf) as [_ Hc].
  destruct o as [lit cp| |]; [|apply IH|constructor].
  constructor; [exact (proj1 (Hc lit cp eq_refl))|apply IH].
Qed.

Lemma touched_append_beneath out ex blocks : forall f,
  Forall (export_ok out f) ex -> Forall (prefix out) (touched_append ex blocks f).
Proof.
  induction blocks as [|[n data] blocks IH]; intros f Hex; cbn [touched_append]; [constructor|].
  destruct (find_export ex n) as [lit|] eqn:Hfe; [|now apply IH].
  destruct (find_export_in_ex _ _ _ Hfe) as [n' Hin].
  pose proof (proj1 (Forall_forall _ _) Hex _ Hin) as Hok.
  destruct (append_path f lit data) as [[f1 q]|] eqn:Hap; [|constructor].
  destruct (append_path_any_fs out f n' lit data f1 q Hok Hap) as [Hp H1].
  constructor; [exact Hp|]. apply IH.
  apply Forall_forall. intros e He. apply (export_ok_stable out f f1 e H1).
  exact (proj1 (Forall_forall _ _) Hex e He).
Qed.

Theorem touched_linear_beneath out names blocks f :
  Forall (prefix out) (touched_linear out names blocks f).
Proof.
  unfold touched_linear. apply Forall_app. split; [apply touched_create_beneath|].
  destruct (create_all out names f) as [[f1 ex] ok] eqn:Hca.
  destruct (create_all_any_fs _ _ _ _ _ _ Hca) as [_ Hex].
  destruct ok; [|constructor]. now apply touched_append_beneath.
Qed.
Print Assumptions touched_linear_beneath.

(* ================================================================== *)
(** * 6. Non-vacuity and the regression witness of D23, on the harness sandbox *)

Definition out_ : path := [s2b "out"].

(* members routed through the three links, one in a real subdirectory, one
   benign: per-file form *)
Definition sandbox_members : list (bytes * bytes) :=
  [ (s2b "deep/l2/new/z", s2b "Z"); (s2b "flink", s2b "F"); (s2b "inside/ok.txt", s2b "I");
    (s2b "link/keep.txt", s2b "K"); (s2b "link/sub/escaped.txt", s2b "E"); (s2b "zz_benign", s2b "B") ].

Example sandbox_extract_all :
  let r := extract_all out_ sandbox_members fs_sandbox in
  snd r = true /\
  (* through the links: nothing written, the files outside keep their content *)
  read_file (fst r) [s2b "outside.txt"] = Some (s2b "outside") /\
  read_file (fst r) [s2b "sibling"; s2b "keep.txt"] = Some (s2b "keep") /\
  lookup (fst r) [s2b "sibling"; s2b "sub"; s2b "escaped.txt"] = None /\
  lookup (fst r) [s2b "sibling"; s2b "keepdir"; s2b "new"; s2b "z"] = None /\
  (* ... but create_dir_all has made directories outside, before the check *)
  lookup (fst r) [s2b "sibling"; s2b "sub"] = Some Dir /\
  lookup (fst r) [s2b "sibling"; s2b "keepdir"; s2b "new"] = Some Dir /\
  (* the links are still links *)
  is_symlink (fst r) (out_ ++ [s2b "flink"]) = true /\
  is_symlink (fst r) (out_ ++ [s2b "link"]) = true /\
  (* the members not routed through a link are extracted *)
  read_file (fst r) (out_ ++ [s2b "inside"; s2b "ok.txt"]) = Some (s2b "I") /\
  read_file (fst r) (out_ ++ [s2b "zz_benign"]) = Some (s2b "B") /\
  touched_all out_ sandbox_members fs_sandbox =
    [ out_ ++ [s2b "inside"; s2b "ok.txt"]; out_ ++ [s2b "inside"; s2b "ok.txt"];
      out_ ++ [s2b "zz_benign"]; out_ ++ [s2b "zz_benign"] ].
Proof. vm_compute. repeat split. Qed.

(* the same members, linear form, blocks interleaved *)
Example sandbox_extract_linear :
  let names := map fst sandbox_members in
  let blocks := [ (s2b "zz_benign", s2b "B"); (s2b "flink", s2b "F"); (s2b "inside/ok.txt", s2b "I");
                  (s2b "link/keep.txt", s2b "K"); (s2b "zz_benign", s2b "b") ] in
  let r := extract_linear out_ names blocks fs_sandbox in
  snd r = true /\
  read_file (fst r) [s2b "outside.txt"] = Some (s2b "outside") /\
  read_file (fst r) [s2b "sibling"; s2b "keep.txt"] = Some (s2b "keep") /\
  read_file (fst r) (out_ ++ [s2b "inside"; s2b "ok.txt"]) = Some (s2b "I") /\
  read_file (fst r) (out_ ++ [s2b "zz_benign"]) = Some (s2b "Bb") /\
  touched_linear out_ names blocks fs_sandbox =
    [ out_ ++ [s2b "inside"; s2b "ok.txt"]; out_ ++ [s2b "zz_benign"];
      out_ ++ [s2b "zz_benign"]; out_ ++ [s2b "inside"; s2b "ok.txt"]; out_ ++ [s2b "zz_benign"] ].
Proof. vm_compute. repeat split. Qed.

(** ** D23 *)

(* the extraction loops with create_file as it was before the repair *)
Fixpoint extract_all_old (out : path) (ms : list (bytes * bytes)) (f : fs) : fs * bool :=
  match ms with
  | [] => (f, true)
  | m :: ms' =>
      match create_file_old out (fst m) f with
      | (f1, Created _ cp) => extract_all_old out ms' (write_at f1 cp (snd m))
      | (f1, Skipped) => extract_all_old out ms' f1
      | (f1, Failed) => (f1, false)
      end
  end.

Fixpoint create_all_old (out : path) (names : list bytes) (f : fs)
  : fs * list (bytes * path) * bool :=
  match names with
  | [] => (f, [], true)
  | n :: names' =>
      match create_file_old out n f with
      | (f1, Created lit _) =>
          match create_all_old out names' f1 with
          | (f2, ex, ok) => (f2, (n, lit) :: ex, ok)
          end
      | (f1, Skipped) => create_all_old out names' f1
      | (f1, Failed) => (f1, [], false)
      end
  end.

Definition extract_linear_old (out : path) (names : list bytes)
    (blocks : list (bytes * bytes)) (f : fs) : fs * bool :=
  match create_all_old out names f with
  | (f1, ex, true) => append_blocks ex blocks f1
  | (f1, _, false) => (f1, false)
  end.

(* Without the symlink_metadata test the confinement theorem is false: the
   member "flink" is written THROUGH out/flink -> ../outside.txt, in both
   forms (what the job c16-symlink observed on the real binary before the
   repair).  With the test (the code as it is) the file outside is untouched. *)
Theorem D23_old_code_extraction_refuted :
  exists out ms names blocks f,
    real_dir f out /\
    (exists f', extract_all_old out ms f = (f', true) /\ ~ evolves out f f' /\
       read_file f [s2b "outside.txt"] = Some (s2b "outside") /\
       read_file f' [s2b "outside.txt"] = Some (s2b "F")) /\
    (exists f', extract_linear_old out names blocks f = (f', true) /\ ~ evolves out f f' /\
       read_file f' [s2b "outside.txt"] = Some (s2b "F")) /\
    (exists f', extract_all out ms f = (f', true) /\
       read_file f' [s2b "outside.txt"] = Some (s2b "outside")).
Proof.
  exists out_, [(s2b "flink", s2b "F")], [s2b "flink"], [(s2b "flink", s2b "F")], fs_sandbox.
  split; [vm_compute; auto|].
  assert (Hno : forall f', lookup f' [s2b "outside.txt"] = Some (File (s2b "F")) ->
                  ~ evolves out_ fs_sandbox f').
  { intros f' Hl [_ _ _ O].
    assert (Hnp : ~ prefix out_ [s2b "outside.txt"]).
    { intros Hp. apply prefixb_prefix in Hp. vm_compute in Hp. discriminate. }
    apply (O _ Hnp) in Hl. vm_compute in Hl. discriminate. }
  split; [|split].
  - eexists. split; [vm_compute; reflexivity|]. split; [apply Hno; vm_compute; reflexivity|].
    split; vm_compute; reflexivity.
  - eexists. split; [vm_compute; reflexivity|]. split; [apply Hno; vm_compute; reflexivity|].
    vm_compute; reflexivity.
  - eexists. split; vm_compute; reflexivity.
Qed.
Print Assumptions D23_old_code_extraction_refuted.
