(* RepairProofs6.v — C02 and C05 for the repair loop at the level of the block stream:
   soundness for every prefix, intact archives, monotonicity in the prefix, and exactly
   which bytes are recovered. *)
From MLA Require Import Limit.
From MLA Require Import Base Stream Blocks Writer Repair RepairSpec RepairPure
  RepairProofs1 RepairProofs2 RepairProofs3 RepairProofs4 RepairProofs5.
From Coq Require Import ZifyBool ZifyNat ZifyN.
Open Scope N_scope.

(* the records recovered from the first m bytes of the serialised block list *)
Definition recovered (bl : list block) (m : N) : list frec := frun [] (fst (cutb bl m)).

Lemma Forall2_in_r {A B} (P : A -> B -> Prop) l1 l2 y : Forall2 P l1 l2 -> In y l2 ->
  exists x, In x l1 /\ P x y.
Proof.
  induction 1 as [|a b r r' Hab Hr IH]; [intros []|]. intros [<-|Hy].
  - exists a. split; [now left | exact Hab].
  - destruct (IH Hy) as (x & Hx & Hp). exists x. split; [now right | exact Hp].
Qed.
Lemma same_content fs ofs name : Forall2 same fs ofs -> content_of ofs name = content_of fs name.
Proof.
  unfold content_of. induction 1 as [|x y r r' (Sn & Sd & Se) Hr IH]; [reflexivity|].
  rewrite !find_name_cons, <- Sn. destruct (bytes_eqb (f_name x) name); [now rewrite Sd | exact IH].
Qed.
Lemma unfinished_none fs : (forall f, In f fs -> f_ended f = true) -> unfinished_of fs = [].
Proof.
  unfold unfinished_of. induction fs as [|x r IH]; [reflexivity|]. intros Ha. cbn [filter].
  rewrite (Ha x) by (now left). cbn [negb]. apply IH. intros f Hf. apply Ha. now right.
Qed.
Lemma unfinished_in fs f : In f fs -> f_ended f = false -> In (f_name f) (unfinished_of fs).
Proof.
  intros Hf He. unfold unfinished_of. apply in_map. apply filter_In. split; [exact Hf | now rewrite He].
Qed.
Lemma names_nodup_inj fs f g : names_nodup fs -> In f fs -> In g fs -> f_name f = f_name g -> f = g.
Proof.
  unfold names_nodup. induction fs as [|x r IH]; [intros _ []|]. cbn [map]. intros Hn Hf Hg E.
  inversion Hn as [|? ? Hx Hr]; subst.
  destruct Hf as [<-|Hf], Hg as [<-|Hg]; auto.
  - exfalso. apply Hx. rewrite E. now apply in_map.
  - exfalso. apply Hx. rewrite <- E. now apply in_map.
Qed.
Lemma ids_nodup_inj fs f g : ids_nodup fs -> In f fs -> In g fs -> f_id f = f_id g -> f = g.
Proof.
  unfold ids_nodup. induction fs as [|x r IH]; [intros _ []|]. cbn [map]. intros Hn Hf Hg E.
  inversion Hn as [|? ? Hx Hr]; subst.
  destruct Hf as [<-|Hf], Hg as [<-|Hg]; auto.
  - exfalso. apply Hx. rewrite E. now apply in_map.
  - exfalso. apply Hx. rewrite <- E. now apply in_map.
Qed.

Section Final.
  Context {LIM : Limit}.
  Variable FNMAX CACHE : N.
  Hypothesis HFN : FNMAX < 2 ^ 64.
  Hypothesis HCACHE : 0 < CACHE.
  Variables T_START T_CONTENT T_EOA T_EOF : N.
  Hypothesis Htags : T_START <> T_CONTENT /\ T_START <> T_EOA /\ T_START <> T_EOF /\
                     T_CONTENT <> T_EOA /\ T_CONTENT <> T_EOF /\ T_EOA <> T_EOF.
  Variable H : bytes -> bytes.
  Hypothesis H_len : forall x, len (H x) = 32.

  Notation body := (body T_START T_CONTENT T_EOA T_EOF).
  Notation history := (history FNMAX T_START T_CONTENT T_EOA T_EOF H).
  Notation repair := (repair FNMAX CACHE T_START T_CONTENT T_EOA T_EOF H).
  Notation wf_from := (wf_from FNMAX H).
  Notation wf_blocks := (wf_blocks FNMAX H).

  Lemma len_body bl : len (body bl) = blens bl.
  Proof.
    unfold RepairProofs2.body. induction bl as [|b r IH]; [reflexivity|].
    cbn [map concat blens fold_right]. rewrite len_app, len_ser_block. fold (blens r). now rewrite IH.
  Qed.

  (* the output of a run: a finalized writer state whose stream is the serialisation of a
     well-formed block list obl followed by a footer, reached by successful calls only *)
  Definition good_output (out : wstate) (obl : list block) : Prop :=
    w_final out = true /\
    (exists ft, w_out out = body (obl ++ [BEnd]) ++ ser_footer ft) /\
    w_files out = name_list (files_of obl) /\
    wf_from [] (obl ++ [BEnd]) /\
    history out /\
    (forall g, In g (files_of obl) -> f_ended g = true).

  Section OneRun.
    Variable S : Stream.
    Variable w : bytes.
    Variable R : st S -> N -> Prop.
    Hypothesis HR : Refines S w R.
    Variable bl : list block.
    Variable trailer : bytes.
    Hypothesis Hwf : wf_blocks bl.
    Hypothesis Htr : In BEnd bl \/ trailer = [].
    Hypothesis Hpre : prefix w (body bl ++ trailer).
    Variable s0 : st S.
    Hypothesis Hs0 : R s0 0.
    Variable fuel : nat.
    Hypothesis Hfuel : (N.to_nat (len w) < fuel)%nat.
    (* finalize of the output writer did not fail with SerializationError: the footer of the
       repaired archive fits BINCODE_MAX_DESERIALIZE (RepairProofs2.Wrep_finalize_unfit: that
       is the only way this error arises on a well-formed source) *)
    Hypothesis Hser : repair S fuel s0 w_init <> Err EDeser.

    (* exact description of the result *)
    Lemma repair_exact :
      exists out obl,
        repair S fuel s0 w_init =
          Ok (if snd (cutb bl (len w)) then FEndOfData else FEofNextBlock,
              unfinished_of (recovered bl (len w)), out) /\
        good_output out obl /\ Forall2 same (recovered bl (len w)) (files_of obl).
    Proof.
      destruct (repair_spec S w R HR FNMAX CACHE HFN HCACHE T_START T_CONTENT T_EOA T_EOF Htags H H_len
                  bl trailer fuel s0 Hwf Htr Hpre Hs0 Hfuel Hser)
        as (out & obl & ft & Hr & F1 & F2 & F3 & F4 & F5 & F6).
      exists out, obl. split; [exact Hr|]. split; [|exact F6].
      repeat split; try assumption; [exists ft; exact F2|].
      intros g Hg. destruct (Forall2_in_r _ _ _ _ F6 Hg) as (x & _ & _ & _ & He). exact He.
    Qed.

    Lemma rec_fle : fle (recovered bl (len w)) (files_of bl).
    Proof. destruct Hwf as [Hw _]. apply (cutb_sound FNMAX H); [constructor | exact Hw]. Qed.
    Lemma orig_names_nodup : names_nodup (files_of bl).
    Proof. destruct Hwf as [Hw _]. apply (frun_names_nodup FNMAX H); [constructor | exact Hw]. Qed.
    Lemma orig_ids_nodup : ids_nodup (files_of bl).
    Proof. destruct Hwf as [Hw _]. apply (frun_nodup FNMAX H); [constructor | exact Hw]. Qed.
    Lemma rec_ids_nodup : ids_nodup (recovered bl (len w)).
    Proof.
      destruct Hwf as [Hw _]. apply (frun_nodup FNMAX H); [constructor | apply cutb_wf; exact Hw].
    Qed.

    (* C02 *)
    Theorem repair_sound_any_prefix :
      exists status unfinished out obl,
        repair S fuel s0 w_init = Ok (status, unfinished, out) /\
        good_output out obl /\
        (* every file of the output is a file of the original and holds a prefix of it *)
        (forall g, In g (files_of obl) ->
           exists f, In f (files_of bl) /\ f_name f = f_name g /\ prefix (f_data g) (f_data f)) /\
        (forall name, prefix (content_of (files_of obl) name) (content_of (files_of bl) name)) /\
        (* every file not reported as unfinished is complete *)
        (forall g, In g (files_of obl) -> ~ In (f_name g) unfinished ->
           exists f, In f (files_of bl) /\ f_name f = f_name g /\ f_data f = f_data g /\ f_ended f = true) /\
        (* the end of the original data is reported only if everything was recovered *)
        (status = FEndOfData ->
           unfinished = [] /\ Forall2 same (files_of bl) (files_of obl) /\
           (forall f, In f (files_of bl) -> f_ended f = true)) /\
        (status = FEndOfData \/ status = FEofNextBlock).
    Proof.
      destruct repair_exact as (out & obl & Hr & Hgo & Hsame).
      eexists _, _, out, obl. split; [exact Hr|]. split; [exact Hgo|].
      pose proof rec_fle as Hfle.
      split; [|split; [|split; [|split]]].
      - intros g Hg. destruct (Forall2_in_r _ _ _ _ Hsame Hg) as (x & Hx & Sn & Sd & _).
        destruct (fle_names _ _ _ Hfle Hx) as (f & Hf & _ & Rn & Rd & _).
        exists f. split; [exact Hf|]. split; [congruence|]. now rewrite <- Sd.
      - intros name. rewrite (same_content _ _ name Hsame).
        apply fle_content_prefix; [exact orig_names_nodup | exact Hfle].
      - intros g Hg Hnu. destruct (Forall2_in_r _ _ _ _ Hsame Hg) as (x & Hx & Sn & Sd & _).
        destruct (f_ended x) eqn:Ex.
        + destruct (fle_names _ _ _ Hfle Hx) as (f & Hf & _ & Rn & _ & Re).
          destruct (Re Ex) as [Rf Rd]. exists f. repeat split; congruence.
        + exfalso. apply Hnu. rewrite <- Sn. now apply unfinished_in.
      - intros Hst. destruct (snd (cutb bl (len w))) eqn:Es; [|discriminate].
        destruct Hwf as [Hw _]. destruct (cutb_end FNMAX H bl [] (len w) Hw Es) as [Heq Hall].
        unfold recovered in *. rewrite Heq in *. fold (files_of bl) in *.
        split; [apply unfinished_none; exact Hall | split; [exact Hsame | exact Hall]].
      - destruct (snd (cutb bl (len w))); auto.
    Qed.

    (* C05: exactly which bytes are recovered: for every file of the original, the content
       under its name in the output is the concatenation of its content bytes that lie in
       the delivered prefix *)
    Theorem repair_max_any_prefix :
      exists status unfinished out obl,
        repair S fuel s0 w_init = Ok (status, unfinished, out) /\
        good_output out obl /\
        (forall f, In f (files_of bl) ->
           content_of (files_of obl) (f_name f) = present (f_id f) bl (len w)).
    Proof.
      destruct repair_exact as (out & obl & Hr & Hgo & Hsame).
      eexists _, _, out, obl. split; [exact Hr|]. split; [exact Hgo|].
      intros f Hf. rewrite (same_content _ _ _ Hsame).
      pose proof rec_fle as Hfle. pose proof rec_ids_nodup as Hnd.
      destruct Hwf as [Hw _].
      pose proof (cutb_present FNMAX H bl [] (len w) (f_id f) (NoDup_nil _) Hw) as Hp.
      cbn [app] in Hp. change (data_of_id [] (f_id f)) with (@nil N) in Hp. cbn [app] in Hp.
      rewrite <- Hp. fold (recovered bl (len w)).
      unfold content_of, data_of_id.
      destruct (find_name (recovered bl (len w)) (f_name f)) as [x|] eqn:En.
      - destruct (find_name_some _ _ _ En) as [Hx Hxn].
        destruct (fle_names _ _ _ Hfle Hx) as (g0 & Hg0 & Ri & Rn & _).
        assert (g0 = f) by (apply (names_nodup_inj _ _ _ orig_names_nodup Hg0 Hf); congruence).
        subst g0.
        destruct (find_id (recovered bl (len w)) (f_id f)) as [x'|] eqn:Ei.
        + f_equal. apply (find_id_unique _ _ _ _ Hnd Ei Hx). exact Ri.
        + exfalso. apply find_id_none_notin in Ei. apply Ei. rewrite <- Ri. now apply in_map.
      - destruct (find_id (recovered bl (len w)) (f_id f)) as [x'|] eqn:Ei; [|reflexivity].
        exfalso. destruct (find_id_some _ _ _ Ei) as [Hx' Hxi].
        destruct (fle_names _ _ _ Hfle Hx') as (g0 & Hg0 & Ri & Rn & _).
        assert (g0 = f) by (apply (ids_nodup_inj _ _ _ orig_ids_nodup Hg0 Hf); congruence).
        subst g0. apply find_name_none_notin in En. apply En. rewrite <- Rn. now apply in_map.
    Qed.

    (* C05: an undamaged archive *)
    Theorem repair_intact_any :
      In BEnd bl -> blens bl <= len w ->
      exists out obl,
        repair S fuel s0 w_init = Ok (FEndOfData, [], out) /\
        good_output out obl /\ Forall2 same (files_of bl) (files_of obl) /\
        (forall f, In f (files_of bl) -> f_ended f = true).
    Proof.
      intros Hend Hlen.
      destruct repair_exact as (out & obl & Hr & Hgo & Hsame).
      pose proof (cutb_all bl (len w) Hend Hlen) as Es.
      destruct Hwf as [Hw _]. destruct (cutb_end FNMAX H bl [] (len w) Hw Es) as [Heq Hall].
      unfold recovered in *. rewrite Es, Heq in *. fold (files_of bl) in *.
      rewrite (unfinished_none _ Hall) in Hr.
      exists out, obl. auto.
    Qed.
  End OneRun.

  (* ---------- the cut points of a streaming writer ---------- *)
  Section Cuts.
    Variable bl : list block.
    Variable trailer : bytes.
    Hypothesis Hwf : wf_blocks bl.
    Hypothesis Htr : In BEnd bl \/ trailer = [].
    Let stream := body bl ++ trailer.

    Lemma len_cut n : len (takeN n stream) <= n.
    Proof. rewrite len_takeN. lia. Qed.

    (* C02: every cut point; fuel n + 1 suffices *)
    Theorem repair_cut_sound n S R s0 fuel :
      Refines S (takeN n stream) R -> R s0 0 -> (N.to_nat n < fuel)%nat ->
      repair S fuel s0 w_init <> Err EDeser ->
      exists status unfinished out obl,
        repair S fuel s0 w_init = Ok (status, unfinished, out) /\
        good_output out obl /\
        (forall g, In g (files_of obl) ->
           exists f, In f (files_of bl) /\ f_name f = f_name g /\ prefix (f_data g) (f_data f)) /\
        (forall name, prefix (content_of (files_of obl) name) (content_of (files_of bl) name)) /\
        (forall g, In g (files_of obl) -> ~ In (f_name g) unfinished ->
           exists f, In f (files_of bl) /\ f_name f = f_name g /\ f_data f = f_data g /\ f_ended f = true) /\
        (status = FEndOfData ->
           unfinished = [] /\ Forall2 same (files_of bl) (files_of obl) /\
           (forall f, In f (files_of bl) -> f_ended f = true)) /\
        (status = FEndOfData \/ status = FEofNextBlock).
    Proof.
      intros HR Hs0 Hfuel Hser.
      apply (repair_sound_any_prefix S (takeN n stream) R HR bl trailer Hwf Htr (prefix_takeN _ _) s0 Hs0); [|exact Hser].
      pose proof (len_cut n). lia.
    Qed.

    (* C05: the whole archive *)
    Theorem repair_intact_complete S R s0 fuel :
      In BEnd bl -> Refines S stream R -> R s0 0 -> (N.to_nat (len stream) < fuel)%nat ->
      repair S fuel s0 w_init <> Err EDeser ->
      exists out obl,
        repair S fuel s0 w_init = Ok (FEndOfData, [], out) /\
        good_output out obl /\ Forall2 same (files_of bl) (files_of obl) /\
        (forall f, In f (files_of bl) -> f_ended f = true).
    Proof.
      intros Hend HR Hs0 Hfuel Hser.
      apply (repair_intact_any S stream R HR bl trailer Hwf Htr (prefix_refl _) s0 Hs0 fuel Hfuel Hser Hend).
      unfold stream. rewrite len_app, len_body. lia.
    Qed.

    (* C05: a longer prefix never yields less: for every name the content recovered from
       the first n bytes is a prefix of the content recovered from the first m bytes *)
    Theorem repair_monotone n m S1 R1 s1 fuel1 S2 R2 s2 fuel2 :
      n <= m ->
      Refines S1 (takeN n stream) R1 -> R1 s1 0 -> (N.to_nat n < fuel1)%nat ->
      Refines S2 (takeN m stream) R2 -> R2 s2 0 -> (N.to_nat m < fuel2)%nat ->
      repair S1 fuel1 s1 w_init <> Err EDeser -> repair S2 fuel2 s2 w_init <> Err EDeser ->
      exists st1 u1 out1 obl1 st2 u2 out2 obl2,
        repair S1 fuel1 s1 w_init = Ok (st1, u1, out1) /\ good_output out1 obl1 /\
        repair S2 fuel2 s2 w_init = Ok (st2, u2, out2) /\ good_output out2 obl2 /\
        forall name, prefix (content_of (files_of obl1) name) (content_of (files_of obl2) name).
    Proof.
      intros Hnm HR1 Hs1 Hf1 HR2 Hs2 Hf2 Hser1 Hser2.
      destruct (repair_exact S1 (takeN n stream) R1 HR1 bl trailer Hwf Htr (prefix_takeN _ _) s1 Hs1 fuel1)
        as (out1 & obl1 & Hr1 & Hg1 & Hsame1); [pose proof (len_cut n); lia|exact Hser1|].
      destruct (repair_exact S2 (takeN m stream) R2 HR2 bl trailer Hwf Htr (prefix_takeN _ _) s2 Hs2 fuel2)
        as (out2 & obl2 & Hr2 & Hg2 & Hsame2); [pose proof (len_cut m); lia|exact Hser2|].
      eexists _, _, out1, obl1, _, _, out2, obl2.
      split; [exact Hr1|]. split; [exact Hg1|]. split; [exact Hr2|]. split; [exact Hg2|].
      intros name. rewrite (same_content _ _ name Hsame1), (same_content _ _ name Hsame2).
      destruct Hwf as [Hw _].
      apply fle_content_prefix.
      - apply (frun_names_nodup FNMAX H); [constructor | apply cutb_wf; exact Hw].
      - apply (cutb_mono FNMAX H); [constructor | exact Hw |]. rewrite !len_takeN. lia.
    Qed.

    (* C05: nothing that is present before the cut is lost *)
    Theorem repair_max n S R s0 fuel :
      Refines S (takeN n stream) R -> R s0 0 -> (N.to_nat n < fuel)%nat ->
      repair S fuel s0 w_init <> Err EDeser ->
      exists status unfinished out obl,
        repair S fuel s0 w_init = Ok (status, unfinished, out) /\
        good_output out obl /\
        (forall f, In f (files_of bl) ->
           content_of (files_of obl) (f_name f) = present (f_id f) bl (N.min n (len stream))).
    Proof.
      intros HR Hs0 Hfuel Hser. rewrite <- len_takeN.
      apply (repair_max_any_prefix S (takeN n stream) R HR bl trailer Hwf Htr (prefix_takeN _ _) s0 Hs0); [|exact Hser].
      pose proof (len_cut n). lia.
    Qed.
  End Cuts.
End Final.
