(* SrcTie3CfgEx.v — non-vacuity of SrcTie3CfgR.v THROUGH THE GENERATED CODE (vm_compute), work package cfgT.
   Toy ECIES primitives (the ex_ functions of SrcTie3Cfg); the header is the one the translated writer dumps for SrcTie3Cfg.ex_cfg
   (ENCRYPT | COMPRESS, two recipients, 153 bytes).  [Trip b lim] is a cursor over b that PANICS (Crash 999) on any
   read reaching past offset lim and on any seek other than the initial rewind: a tripwire behind the header. *)
From MLA Require Import Base Stream Blocks Format Ecies CfgPrims Config SrcTie3Cfg SrcTie3CfgR.
From MLAGen Require Src2 Src3e Src3h Src3f.
Open Scope N_scope.

Definition Trip (b : bytes) (lim : N) : Stream :=
  {| st := N;
     rd := fun pos n => if lim <? pos + n then (pos, Crash 999) else cursor_rd b pos n;
     sk := fun pos w => match w with FromStart 0 => (0, Ok 0) | _ => (pos, Crash 998) end |}.

Definition ex_hdr : bytes :=
  match cmap (Src3f.aw_dest pstack) (g_writer_from_config ex_pubk ex_dh ex_kdf ex_wenc ex_wtag [] ex_cfg (repeat 5 32)) with
  | COk p => wstack_base (p_inner p)
  | _ => []
  end.
Definition ex_wdec (k c : bytes) : bytes := c.
Definition ex_rk := rk_pair ex_dh ex_kdf ex_wdec ex_wtag.
(* layer constructors that panic when called *)
Definition boom {A B} (site : N) (_ : A) : res B := Crash site.

Example reader_from_config_examples :
  len ex_hdr = 153 /\
  (* no private key, encrypted archive, every layer constructor a panic, a tripwire right behind the header:
     PrivateKeyNeeded — nothing ran, nothing was read past the header *)
  Src3f.ArchiveReader_from_config ex_rk (Trip (ex_hdr ++ [1; 2; 3]) 153) N N (fun s => s) (fun s => (s, Crash 1)) (fun s => s)
    (fun l _ => Crash 2) (boom 3) (fun l => (l, Crash 4)) (fun l => (l, Crash 5)) (fun l => (l, Crash 6))
    7 Src3f.ArchiveReaderConfig_new = CErr Src3f.PrivateKeyNeeded /\
  Src3f.ArchiveFailSafeReader_from_config ex_rk (Trip (ex_hdr ++ [1; 2; 3]) 153) N (fun s => s) (fun l _ => Crash 2) (boom 3)
    0 Src3f.ArchiveReaderConfig_new = CErr Src3f.PrivateKeyNeeded /\
  (* with a key that opens: compress over encrypt over raw, the writer's stack, and the parameters are the writer's *)
  cmap (fun r => (Src3f.ar_src (list N) r, Src3e.erc_encrypt_parameters (Src3f.arc_encrypt (Src3f.ar_config _ r))))
       (g_reader_desc ex_rk (Cursor ex_hdr) 0 (Src3f.add_private_keys Src3f.ArchiveReaderConfig_new [repeat 5 32])) =
    COk ([L_COMPRESS; L_ENCRYPT], Some (repeat 7 32, repeat 9 8)) /\
  (* a key that does not open: PrivateKeyNotFound *)
  g_reader_desc ex_rk (Cursor ex_hdr) 0 (Src3f.add_private_keys Src3f.ArchiveReaderConfig_new [repeat 6 32]) =
    CErr (Src3f.ConfigError_ Src3f.PrivateKeyNotFound) /\
  (* ENCRYPT bit without encryption part; an unknown bit is kept and ignored; wrong magic; version 2 *)
  g_reader_desc ex_rk (Cursor [77; 76; 65; 1; 0; 0; 0; 1; 0]) 0 Src3f.ArchiveReaderConfig_new =
    CErr (Src3f.ConfigError_ Src3f.IncoherentPersistentConfig) /\
  cmap (fun r => (Src3f.ar_src (list N) r, Src3f.arc_layers_enabled (Src3f.ar_config _ r)))
       (g_reader_desc ex_rk (Cursor [77; 76; 65; 1; 0; 0; 0; 6; 0]) 0 Src3f.ArchiveReaderConfig_new) = COk ([L_COMPRESS], 6) /\
  g_reader_desc ex_rk (Cursor [77; 76; 66; 1; 0; 0; 0; 0; 0]) 0 Src3f.ArchiveReaderConfig_new = CErr (Src3f.Callee EMagic) /\
  g_reader_desc ex_rk (Cursor [77; 76; 65; 2; 0; 0; 0; 0; 0]) 0 Src3f.ArchiveReaderConfig_new = CErr (Src3f.Callee EVersion).
Proof. vm_compute. repeat split; reflexivity. Qed.
