(* LayerStack.v — Refines composes: the stack ArchiveReader::from_config builds
   (compression over encryption over raw over the I/O source) behaves as a cursor over the
   plaintext, and opening it in the order of the code (raw new + reset_position, encryption
   new, compression new, then initialize recursively) establishes the invariant. *)
From MLA Require Import Limit.
From MLA Require Import Base Stream EncLayer EncLayerProofs CompLayer CompLayerProofs RawLayer RawLayerProofs.
From Coq Require Import ZifyBool ZifyNat ZifyN.
Open Scope N_scope.

Section Stack.
  Variables CHUNK TAG BLOCK LIMIT : N.
  Local Hint Extern 0 Limit => exact LIMIT : typeclass_instances.
  Hypothesis HCHUNK : 0 < CHUNK.
  Hypothesis HTAG : 0 < TAG.
  (* CHUNK_SIZE + TAG_LENGTH <= 2^31: with the chunk bound Hchunks it puts every position of the encrypted stream
     inside the u64 / i64 ranges of the encryption reader's seek (EncLayerProofs.ranges_of_sizes) *)
  Hypothesis Hsz : CHUNK + TAG <= 2 ^ 31.
  Hypothesis HB : 0 < BLOCK.
  Hypothesis HB32 : BLOCK < 2 ^ 32.
  Variable ks : N -> N -> N.
  Variable tagc : N -> bytes -> bytes.
  Hypothesis Htagc : forall i c, len (tagc i c) = TAG.
  Variables comp dec : bytes -> bytes.
  Hypothesis Hcomp : forall x, dec (comp x) = x.

  Variables header plain : bytes.
  Variable nb : N.
  Hypothesis Hnb : (nb - 1) * BLOCK <= len plain /\ len plain <= nb * BLOCK.
  Hypothesis Hcs : forall j, j < nb -> len (comp (block_at BLOCK plain j)) < 2 ^ 32.
  Hypothesis Hlim : 12 + 4 * nb <= LIMIT /\ 12 + 4 * nb < 2 ^ 32.
  Hypothesis HL : len plain < 2 ^ 63.

  Definition compwire : bytes := comp_format_n BLOCK comp nb plain.
  Definition encwire : bytes := enc_format CHUNK ks tagc compwire.
  Definition archive : bytes := header ++ encwire.

  Hypothesis Hchunks : nfull CHUNK (len compwire) + 2 < 2 ^ 32.
  Hypothesis Hlen : len archive < 2 ^ 64.

  (* the I/O source: anything that behaves as a cursor over the archive bytes *)
  Variable S : Stream.
  Variable Rin : st S -> N -> Prop.
  Hypothesis Hin : Refines S archive Rin.

  Definition RawS : Stream := RawReader S.
  Definition EncS : Stream := EncReader CHUNK TAG ks tagc RawS.
  Definition CompS : Stream := CompReader BLOCK dec EncS.

  Definition Rraw0 := Rraw S header encwire Rin.
  Definition Renc0 := Renc CHUNK TAG ks tagc RawS compwire Rraw0.
  Definition Rcomp0 := Rcompn BLOCK comp EncS plain nb Renc0.

  Lemma raw_refines : Refines RawS encwire Rraw0.
  Proof. apply raw_reader_refines; assumption. Qed.

  Lemma enc_ranges : (len compwire / CHUNK + 1) * CTS CHUNK TAG <= 2 ^ 64 - 1 /\ len compwire < 2 ^ 63.
  Proof. exact (ranges_of_sizes CHUNK TAG (len compwire) HCHUNK Hsz Hchunks). Qed.

  Lemma enc_refines : Refines EncS compwire Renc0.
  Proof.
    apply enc_reader_refines; try assumption; [exact raw_refines | exact (proj1 enc_ranges) | exact (proj2 enc_ranges)].
  Qed.

  Theorem stack_refines : Refines CompS plain Rcomp0.
  Proof.
    apply (comp_reader_refines_n BLOCK LIMIT HB HB32 comp dec Hcomp EncS plain nb); try assumption.
    exact enc_refines.
  Qed.

  (* EncryptionLayerReader::initialize = inner.initialize() (no-op for raw) + rewind *)
  Definition enc_initialize (e : st EncS) : st EncS * res unit :=
    match eseek_start CHUNK TAG ks tagc RawS e 0 with
    | (e', Ok _) => (e', Ok tt)
    | (e', Err x) => (e', Err x)
    | (e', Crash x) => (e', Crash x)
    end.

  (* from_config: the source stands right after the header *)
  Theorem stack_open i0 : Rin i0 (len header) ->
    exists r c, raw_open S i0 = (r, Ok tt) /\
      comp_open LIMIT EncS enc_initialize (@mkE RawS r [] 0 0) = (c, Ok tt) /\ Rcomp0 c 0.
  Proof.
    intros HR0.
    destruct (raw_open_spec S header encwire Rin Hin Hlen i0 HR0) as (r & Hro & HRr).
    exists r.
    set (e0 := @mkE RawS r [] 0 0).
    assert (Hsk : sk EncS e0 (FromCur 0) = (e0, Ok 0)).
    { cbn [EncS EncReader sk]. unfold eseek. cbn [Z.eqb e_chunk e_cpos e0]. rewrite N.mul_0_l. reflexivity. }
    destruct (enc_open_spec CHUNK TAG HCHUNK HTAG ks tagc Htagc RawS compwire Rraw0 raw_refines Hchunks
                (proj1 enc_ranges) (proj2 enc_ranges) r 0 HRr)
      as (e1 & Heo & HRe).
    assert (Hini : enc_initialize e0 = (e1, Ok tt)).
    { unfold enc_initialize. unfold enc_open in Heo. fold e0 in Heo. rewrite Heo. reflexivity. }
    destruct (comp_open_spec_n BLOCK LIMIT HB HB32 comp dec Hcomp EncS plain nb Hnb Hcs Hlim HL
                Renc0 enc_refines enc_initialize e0 e0 e1 Hsk Hini (ex_intro _ 0 HRe)) as (c & Hco & HRc).
    exists c. split; [exact Hro|]. split; [exact Hco | exact HRc].
  Qed.
End Stack.
