(* MemRepair.v — C15, repair (ArchiveFailSafeReader::convert_to_archive, model Repair.v): the
   measure rpmem of the loop state after ANY number of blocks over ANY source is bounded by
   constants, CACHE and terms in the number of files of the output archive and its runs; a
   FileContent block of any announced length adds at most one run. *)
From MLA Require Import Limit.
From MLA Require Import Base Stream Blocks Writer Reader Repair Total TotalRepair Mem MemSize MemSizeProofs MemReaders.
From Coq Require Import ZifyBool ZifyNat ZifyN.
Open Scope N_scope.

Section AppendCur.
  Context {LIM : Limit}.
  Variable T_CONTENT : N.
  Notation w_append := (w_append T_CONTENT).

  (* appending to the file that is already the current one records no offset *)
  Lemma w_append_cur s id z src : w_cur s = id ->
    wgrow s (fst (w_append s id z src)) 0 0 0 /\ w_cur (fst (w_append s id z src)) = id.
  Proof.
    intros Hc. unfold Writer.w_append.
    destruct (w_final s); [split; [apply wgrow_refl|exact Hc]|].
    destruct (alookup (w_open s) id) as [h|]; [|split; [apply wgrow_refl|exact Hc]].
    destruct (z =? 0); [split; [apply wgrow_refl|exact Hc]|].
    destruct (mark_cont_props s id) as (_ & _ & _ & _ & _ & _ & Msame). rewrite (Msame Hc).
    assert (G : forall r : res N,
      wgrow s (fst (mkW (w_out s ++ [T_CONTENT] ++ le64 id ++ le64 z ++ takeN z src) false
                        (aupdate (w_open s) id (fun h0 => h0 ++ takeN z src)) (w_files s)
                        (aupdate (w_ids s) id (fun fi => mkFI (fi_offsets fi) (fi_size fi + z) (fi_eof fi)))
                        (w_next s) (w_cur s), r)) 0 0 0 /\
      w_cur (fst (mkW (w_out s ++ [T_CONTENT] ++ le64 id ++ le64 z ++ takeN z src) false
                        (aupdate (w_open s) id (fun h0 => h0 ++ takeN z src)) (w_files s)
                        (aupdate (w_ids s) id (fun fi => mkFI (fi_offsets fi) (fi_size fi + z) (fi_eof fi)))
                        (w_next s) (w_cur s), r)) = id).
    { intros r. cbn [fst w_cur]. split; [|exact Hc]. unfold wgrow, nruns, nopen. cbn [w_files w_ids w_open].
      rewrite !len_aupdate, offs_total_aupdate_eq by (intros; reflexivity). repeat split; lia. }
    destruct (len src <? z); apply G.
  Qed.

  (* any append either leaves the writer as it was or makes the file the current one *)
  Lemma w_append_sets_cur s id z src :
    fst (w_append s id z src) = s \/ w_cur (fst (w_append s id z src)) = id.
  Proof.
    unfold Writer.w_append.
    destruct (w_final s); [left; reflexivity|].
    destruct (alookup (w_open s) id) as [h|]; [|left; reflexivity].
    destruct (z =? 0); [left; reflexivity|]. right.
    destruct (mark_cont_props s id) as (_ & _ & _ & _ & _ & Mc & _).
    destruct (len src <? z); cbn [fst w_cur]; exact Mc.
  Qed.
End AppendCur.

Section RepairMem.
  Context {LIM : Limit}.
  Variable FNMAX CACHE : N.
  Variables T_START T_CONTENT T_EOA T_EOF : N.
  Variable H : bytes -> bytes.
  Variable S : Stream.

  Notation parse_block := (parse_block FNMAX T_START T_CONTENT T_EOA T_EOF S).
  Notation w_start := (w_start FNMAX T_START T_CONTENT T_EOA T_EOF).
  Notation w_append := (w_append T_CONTENT).
  Notation w_end := (w_end T_START T_CONTENT T_EOA T_EOF H).
  Notation content_loop := (content_loop CACHE T_CONTENT S).
  Notation block_loop := (block_loop FNMAX CACHE T_START T_CONTENT T_EOA T_EOF H S).
  Notation cleanup := (cleanup T_START T_CONTENT T_EOA T_EOF H S).
  Notation repair := (repair FNMAX CACHE T_START T_CONTENT T_EOA T_EOF H S).

  Definition cl_out (x : st S * wstate * bytes * option err * option err) : wstate :=
    snd (fst (fst (fst x))).

  (* the pieces of one FileContent block: once the file is the current one, nothing grows *)
  Lemma content_loop_cur fuel : forall s out id rem got, w_cur out = id ->
    wgrow out (cl_out (content_loop fuel s out id rem got)) 0 0 0.
  Proof using Type.
    clear H.
    induction fuel as [|fuel IH]; intros s out id rem got Hc; [apply wgrow_refl|].
    cbn [Repair.content_loop].
    destruct (buf_fill CACHE S (Datatypes.S fuel) s rem []) as [[[s1 rem'] buf] rerr].
    destruct (w_append_cur T_CONTENT out id (len buf) buf Hc) as [G Hc1].
    destruct (w_append out id (len buf) buf) as [out1 [v|e|c]]; cbn [fst] in G, Hc1; try exact G.
    destruct rerr as [e|]; [exact G|].
    destruct (len buf <? CACHE); [exact G|].
    pose proof (IH s1 out1 id rem' (got ++ buf) Hc1) as G2.
    exact (wgrow_trans _ _ _ _ _ _ _ _ _ G G2).
  Qed.

  (* one FileContent block, WHATEVER its length and however many CACHE-sized pieces it is
     appended in: at most one more run *)
  Lemma content_loop_grow fuel : forall s out id rem got,
    wgrow out (cl_out (content_loop fuel s out id rem got)) 0 0 1.
  Proof using Type.
    clear H.
    induction fuel as [|fuel IH]; intros s out id rem got; [eapply wgrow_weaken; [apply wgrow_refl|lia]|].
    cbn [Repair.content_loop].
    destruct (buf_fill CACHE S (Datatypes.S fuel) s rem []) as [[[s1 rem'] buf] rerr].
    pose proof (w_append_grow T_CONTENT out id (len buf) buf) as G.
    pose proof (w_append_sets_cur T_CONTENT out id (len buf) buf) as Hcases.
    destruct (w_append out id (len buf) buf) as [out1 [v|e|c]]; cbn [fst] in G, Hcases; try exact G.
    destruct rerr as [e|]; [exact G|].
    destruct (len buf <? CACHE); [exact G|].
    destruct Hcases as [-> | Hc1]; [apply IH|].
    pose proof (content_loop_cur fuel s1 out1 id rem' (got ++ buf) Hc1) as G2.
    exact (wgrow_trans _ _ _ _ _ _ _ _ _ G G2).
  Qed.

  (* ---------- the invariant of the block loop ---------- *)

  Definition RT (slack : N) (out : wstate) (ids : list (N * N)) (names : list (N * bytes))
             (done : list N) (hash : list (N * bytes)) : Prop :=
    len ids <= nfiles out /\
    len names <= len ids + slack /\
    names_le FNMAX names /\
    len hash <= len ids /\
    len done + nopen out <= nfiles out /\
    len (w_ids out) = len (w_files out) /\
    names_bytes (w_files out) <= FNMAX * nfiles out.
  Definition RI (slack : N) (st : rpstate S) : Prop :=
    RT slack (rp_out S st) (rp_ids S st) (rp_names S st) (rp_done S st) (rp_hash S st).

  (* runs recorded by out' since out, k blocks later *)
  Definition RunLe (out out' : wstate) (k : N) : Prop :=
    nruns out' + nopen out' + 2 * nfiles out <= nruns out + nopen out + 2 * nfiles out' + k /\
    nfiles out <= nfiles out'.

  Lemma RunLe_refl out k : RunLe out out k.
  Proof. unfold RunLe. lia. Qed.
  Lemma RunLe_trans o1 o2 o3 a b : RunLe o1 o2 a -> RunLe o2 o3 b -> RunLe o1 o3 (a + b).
  Proof. unfold RunLe. lia. Qed.
  Lemma RunLe_grow out out' df dn da : wgrow out out' df dn da -> RunLe out out' da.
  Proof. unfold wgrow, RunLe, nfiles. intros (A1 & A2 & A3 & A4 & A5). lia. Qed.

  Lemma RT_slack out ids names done hash : RT 0 out ids names done hash -> RT 1 out ids names done hash.
  Proof. unfold RT. intros (A1 & A2 & A3 & A4 & A5 & A6 & A7). repeat split; try assumption; lia. Qed.

  (* a writer step that starts no file keeps the invariant when the open files do not increase *)
  Lemma RT_grow0 slack out out' ids names done hash da :
    wgrow out out' 0 0 da -> RT slack out ids names done hash -> RT slack out' ids names done hash.
  Proof.
    unfold wgrow, RT, nfiles, nopen. intros (A1 & A2 & A3 & A4 & A5) (B1 & B2 & B3 & B4 & B5 & B6 & B7).
    repeat split; try assumption; lia.
  Qed.

  Lemma w_start_name_le s n : (exists id, snd (w_start s n) = Ok id) \/ snd (w_start s n) = Err EDup -> len n <= FNMAX.
  Proof.
    unfold Writer.w_start. destruct (w_final s); [intros [[id X]|X]; discriminate X|].
    destruct (N.ltb_spec FNMAX (len n)); [intros [[id X]|X]; discriminate X|]. intros _. lia.
  Qed.

  Lemma w_end_ok_open s id v : snd (w_end s id) = Ok v -> nopen (fst (w_end s id)) + 1 = nopen s.
  Proof.
    unfold Writer.w_end. destruct (w_final s); [discriminate|].
    destruct (alookup (w_open s) id) as [h|] eqn:El; [|discriminate]. intros _.
    destruct (mark_cont_props s id) as (_ & Mo & _).
    cbn [fst]. unfold nopen, emit. cbn [w_open]. rewrite Mo. exact (len_aremove_some _ _ _ El).
  Qed.

  (* THE loop statement: from a state of the invariant, after at most `fuel` blocks *)
  Theorem block_loop_mem fuel : forall st, RI 0 st ->
    RI 1 (fst (block_loop fuel st)) /\
    RunLe (rp_out S st) (rp_out S (fst (block_loop fuel st))) (N.of_nat fuel).
  Proof.
    induction fuel as [|fuel IH]; intros st Hst.
    - cbn [Repair.block_loop fst]. split; [apply RT_slack; exact Hst | apply RunLe_refl].
    - assert (Hstop : forall s1, RI 1 (mkRP S s1 (rp_out S st) (rp_ids S st) (rp_names S st) (rp_done S st) (rp_hash S st)) /\
                     RunLe (rp_out S st) (rp_out S st) (N.of_nat (Datatypes.S fuel))).
      { intros s1. split; [apply RT_slack; exact Hst | apply RunLe_refl]. }
      assert (Hsame : RI 1 st /\ RunLe (rp_out S st) (rp_out S st) (N.of_nat (Datatypes.S fuel))).
      { split; [apply RT_slack; exact Hst | apply RunLe_refl]. }
      assert (Hfuel : N.of_nat (Datatypes.S fuel) = 1 + N.of_nat fuel) by lia.
      cbn [Repair.block_loop].
      destruct (parse_block (rp_src S st)) as [s1 [pb|e|c]] eqn:Ep; cbn [fst].
      2: { destruct e; cbn [fst]; apply Hstop. }
      2: { exact Hsame. }
      destruct pb as [id name|id l|id h|].
      + (* FileStart *)
        destruct (existsb (fun e => fst e =? id) (rp_ids S st)); [apply Hstop|].
        destruct (mem (rp_done S st) id); [apply Hstop|].
        pose proof (w_start_grow FNMAX T_START T_CONTENT T_EOA T_EOF (rp_out S st) name) as G. cbv zeta in G.
        pose proof (w_start_name_le (rp_out S st) name) as Hnm.
        destruct Hst as (B1 & B2 & B3 & B4 & B5 & B6 & B7).
        destruct (w_start (rp_out S st) name) as [out1 [ido|e|c]]; cbn [fst snd is_ok] in G, Hnm.
        * assert (Hn : len name <= FNMAX) by (apply Hnm; left; eexists; reflexivity).
          rewrite Hfuel.
          assert (Hst1 : RI 0 (mkRP S s1 out1 (rp_ids S st ++ [(id, ido)]) (assoc_set (rp_names S st) id name)
                                   (rp_done S st) (assoc_set (rp_hash S st) id []))).
          { unfold RI, RT. cbn [rp_out rp_ids rp_names rp_done rp_hash].
            pose proof (len_assoc_set (rp_names S st) id name). pose proof (len_assoc_set (rp_hash S st) id (@nil N)).
            pose proof (assoc_set_names_le FNMAX (rp_names S st) id name B3 Hn).
            unfold wgrow, nfiles, nopen in *. destruct G as (A1 & A2 & A3 & A4 & A5).
            rewrite len_app. change (len [(id, ido)]) with 1. repeat split; try assumption; lia. }
          destruct (IH _ Hst1) as [I1 I2]. cbn [rp_out] in I2.
          split; [exact I1|]. rewrite N.add_comm.
          pose proof (RunLe_grow _ _ _ _ _ G) as R0.
          replace (N.of_nat fuel + 1) with (0 + N.of_nat fuel + 1) by lia.
          eapply RunLe_trans; [eapply RunLe_trans; [exact R0 | exact I2]|apply RunLe_refl].
        * destruct e; cbn [fst]; try apply Hstop.
          (* DuplicateFilename: the name is kept, the loop stops *)
          assert (Hn : len name <= FNMAX) by (apply Hnm; right; reflexivity).
          split; [|cbn [rp_out]; apply RunLe_grow in G; destruct G; unfold RunLe; lia].
          unfold RI, RT. cbn [rp_out rp_ids rp_names rp_done rp_hash].
          pose proof (len_assoc_set (rp_names S st) id name).
          pose proof (assoc_set_names_le FNMAX (rp_names S st) id name B3 Hn).
          unfold wgrow, nfiles, nopen in *. destruct G as (A1 & A2 & A3 & A4 & A5).
          repeat split; try assumption; lia.
        * apply Hstop.
      + (* FileContent *)
        destruct (assoc (rp_ids S st) id) as [ido|]; [|apply Hstop].
        destruct (mem (rp_done S st) id); [apply Hstop|].
        destruct (assoc (rp_names S st) id) as [nm|]; [|apply Hstop].
        destruct (assoc (rp_hash S st) id) as [hashed|] eqn:Eh; [|apply Hstop].
        pose proof (content_loop_grow (Datatypes.S fuel) s1 (rp_out S st) ido l []) as G.
        destruct (content_loop (Datatypes.S fuel) s1 (rp_out S st) ido l []) as [[[[s2 out2] got] re] we].
        unfold cl_out in G. cbn [fst snd] in G.
        assert (Hlen : forall v, len (assoc_set (rp_hash S st) id v) = len (rp_hash S st))
          by (intros v; exact (len_assoc_set_has _ _ _ v Eh)).
        assert (HR : RunLe (rp_out S st) out2 1) by exact (RunLe_grow _ _ _ _ _ G).
        assert (HT : forall hash', len hash' = len (rp_hash S st) ->
                     RT 0 out2 (rp_ids S st) (rp_names S st) (rp_done S st) hash').
        { intros hash' Hl. pose proof (RT_grow0 _ _ _ _ _ _ _ _ G Hst) as X. unfold RT in *. rewrite Hl.
          destruct X as (X1 & X2 & X3 & X4 & X5 & X6 & X7). repeat split; assumption. }
        destruct re as [er|]; destruct we as [ew|]; cbn [fst rp_out].
        * split; [apply RT_slack; apply HT; reflexivity|]. destruct HR; unfold RunLe; lia.
        * split; [apply RT_slack; apply HT; apply Hlen|]. destruct HR; unfold RunLe; lia.
        * split; [apply RT_slack; apply HT; reflexivity|]. destruct HR; unfold RunLe; lia.
        * destruct (IH (mkRP S s2 out2 (rp_ids S st) (rp_names S st) (rp_done S st)
                             (assoc_set (rp_hash S st) id (hashed ++ got)))) as [I1 I2].
          { apply HT. apply Hlen. }
          cbn [rp_out] in I2. split; [exact I1|]. rewrite Hfuel. exact (RunLe_trans _ _ _ _ _ HR I2).
      + (* EndOfFile *)
        destruct (assoc (rp_ids S st) id) as [ido|]; [|apply Hstop].
        destruct (mem (rp_done S st) id); [apply Hstop|].
        destruct (assoc (rp_hash S st) id) as [hashed|] eqn:Eh; [|apply Hstop].
        pose proof (len_assoc_del (rp_hash S st) id) as Hdel.
        assert (Hst2 : RI 1 (mkRP S s1 (rp_out S st) (rp_ids S st) (rp_names S st) (rp_done S st) (assoc_del (rp_hash S st) id)) /\
                       RunLe (rp_out S st) (rp_out S st) (N.of_nat (Datatypes.S fuel))).
        { split; [|apply RunLe_refl]. apply RT_slack. unfold RI, RT in *. cbn [rp_out rp_ids rp_names rp_done rp_hash].
          destruct Hst as (B1 & B2 & B3 & B4 & B5 & B6 & B7). repeat split; try assumption; lia. }
        destruct (negb (bytes_eqb (H hashed) h)); [exact Hst2|].
        pose proof (w_end_grow T_START T_CONTENT T_EOA T_EOF H (rp_out S st) ido) as G.
        pose proof (w_end_ok_open (rp_out S st) ido) as Hop.
        destruct (w_end (rp_out S st) ido) as [out1 [v|e|c]]; cbn [fst snd] in G, Hop; [|exact Hst2|exact Hst2].
        specialize (Hop v eq_refl).
        destruct (IH (mkRP S s1 out1 (rp_ids S st) (rp_names S st) (rp_done S st ++ [id]) (assoc_del (rp_hash S st) id))) as [I1 I2].
        { unfold RI, RT in *. cbn [rp_out rp_ids rp_names rp_done rp_hash].
          destruct Hst as (B1 & B2 & B3 & B4 & B5 & B6 & B7).
          unfold wgrow, nfiles, nopen in *. destruct G as (A1 & A2 & A3 & A4 & A5).
          rewrite len_app. change (len [id]) with 1. repeat split; try assumption; lia. }
        cbn [rp_out] in I2. split; [exact I1|]. rewrite Hfuel.
        pose proof (RunLe_grow _ _ _ _ _ G) as R0.
        replace (1 + N.of_nat fuel) with (0 + N.of_nat fuel + 1) by lia.
        eapply RunLe_trans; [eapply RunLe_trans; [exact R0 | exact I2]|apply RunLe_refl].
      + apply Hstop.
  Qed.

  (* ---------- the measure ---------- *)

  Definition RP_PER_FILE : N :=
    16 + (32 + FNMAX) + 8 + (8 + SHA_STATE) + (FILES_ENTRY + FNMAX + IDS_ENTRY + OPEN_ENTRY).

  Lemma RI_mem slack st : RI slack st ->
    rpmem CACHE st <= RP_FIXED + CACHE + W_FIXED + (32 + FNMAX) * slack
                      + RP_PER_FILE * nfiles (rp_out S st) + OFFSET_WORD * nruns (rp_out S st).
  Proof.
    unfold RI, RT. intros (B1 & B2 & B3 & B4 & B5 & B6 & B7).
    pose proof (id_names_bytes_le FNMAX _ B3) as Hn.
    unfold rpmem, wmem, RP_PER_FILE, nfiles, nruns, nopen in *.
    unfold RP_FIXED, W_FIXED, FILES_ENTRY, IDS_ENTRY, OPEN_ENTRY, SHA_STATE, OFFSET_WORD in *. nia.
  Qed.

  (* THE statement for repair.  Over any source, from a fresh output writer, after any number
     `fuel` of blocks: the measure of the whole loop state (five tables, the cache buffer, the
     output writer's tables) is at most constants + CACHE + RP_PER_FILE per file of the output
     + 8 per run of the output; and runs + open files <= 2 * files + blocks.  No term in the
     bytes read, in the lengths announced by FileContent blocks, or in the bytes written. *)
  Theorem repair_mem_bounded fuel s0 :
    let st := fst (block_loop fuel (mkRP S s0 w_init [] [] [] [])) in
    let out := rp_out S st in
    rpmem CACHE st <= RP_FIXED + CACHE + W_FIXED + (32 + FNMAX)
                      + RP_PER_FILE * nfiles out + OFFSET_WORD * nruns out /\
    nruns out + nopen out <= 2 * nfiles out + N.of_nat fuel /\
    len (rp_ids S st) <= nfiles out /\ len (rp_names S st) <= nfiles out + 1 /\
    len (rp_done S st) <= nfiles out /\ len (rp_hash S st) <= nfiles out.
  Proof.
    cbv zeta.
    assert (H0 : RI 0 (mkRP S s0 w_init [] [] [] [])).
    { unfold RI, RT, nfiles, nopen. cbn [rp_out rp_ids rp_names rp_done rp_hash w_init w_files w_ids w_open names_bytes fold_right].
      repeat split; try apply Forall_nil; try apply N.le_refl; try reflexivity; cbn; lia. }
    destruct (block_loop_mem fuel _ H0) as [I1 I2]. cbn [rp_out] in I2.
    pose proof (RI_mem 1 _ I1) as Hm.
    destruct I2 as [I2 _]. unfold nruns, nopen, nfiles in I2. cbn [w_init w_ids w_open w_files offs_total fold_right] in I2.
    change (len (@nil (N * bytes))) with 0 in I2. change (len (@nil (bytes * N))) with 0 in I2.
    destruct I1 as (B1 & B2 & B3 & B4 & B5 & B6 & B7).
    unfold nruns, nopen, nfiles in *. repeat split; lia.
  Qed.

  (* the clean-up ends the files still open: it starts nothing and each end adds at most a run
     while closing a file, so runs + open files does not increase *)
  Lemma cleanup_grow st : forall ids out unf out1 unf1,
    cleanup ids st out unf = Ok (out1, unf1) -> wgrow out out1 0 0 0.
  Proof.
    induction ids as [|[idf ido] r IH]; intros out unf out1 unf1; cbn [Repair.cleanup].
    - intros [= <- _]. apply wgrow_refl.
    - destruct (mem (rp_done S st) idf); [apply IH|].
      destruct (assoc (rp_names S st) idf) as [nm|]; [|discriminate].
      pose proof (w_end_grow T_START T_CONTENT T_EOA T_EOF H out ido) as G.
      destruct (w_end out ido) as [o1 [v|e|c]]; try discriminate. cbn [fst] in G.
      intros E. apply IH in E. exact (wgrow_trans _ _ _ _ _ _ _ _ _ G E).
  Qed.

  (* the whole of repair: the writer it returns *)
  Theorem repair_result_mem fuel s0 status unfinished out :
    repair fuel s0 w_init = Ok (status, unfinished, out) ->
    wmem out <= W_FIXED + (FILES_ENTRY + IDS_ENTRY + OPEN_ENTRY + FNMAX) * nfiles out + OFFSET_WORD * nruns out /\
    nruns out + nopen out <= 2 * nfiles out + N.of_nat fuel.
  Proof.
    unfold Repair.repair.
    assert (H0 : RI 0 (mkRP S s0 w_init [] [] [] [])).
    { unfold RI, RT, nfiles, nopen. cbn [rp_out rp_ids rp_names rp_done rp_hash w_init w_files w_ids w_open names_bytes fold_right].
      repeat split; try apply Forall_nil; try apply N.le_refl; try reflexivity; cbn; lia. }
    destruct (block_loop_mem fuel _ H0) as [I1 I2]. cbn [rp_out] in I2.
    destruct (block_loop fuel (mkRP S s0 w_init [] [] [] [])) as [st [fs|e|c]]; try discriminate. cbn [fst] in I1, I2.
    destruct (cleanup (rp_ids S st) st (rp_out S st) []) as [[out1 unf]|e|c] eqn:Ec; try discriminate.
    apply cleanup_grow in Ec.
    pose proof (w_finalize_grow T_START T_CONTENT T_EOA T_EOF (fun f => f) out1) as Gf.
    destruct (w_finalize_with T_START T_CONTENT T_EOA T_EOF (fun f => f) out1) as [out2 [v|e|c]]; try discriminate.
    cbn [fst] in Gf. intros [= _ _ <-].
    pose proof (wgrow_trans _ _ _ _ _ _ _ _ _ Ec Gf) as G.
    destruct I1 as (B1 & B2 & B3 & B4 & B5 & B6 & B7). destruct I2 as [I2 I3].
    unfold wgrow in G. destruct G as (A1 & A2 & A3 & A4 & A5).
    unfold nruns, nopen, nfiles in *. cbn [w_init w_ids w_open w_files offs_total fold_right] in I2.
    change (len (@nil (N * bytes))) with 0 in I2. change (len (@nil (bytes * N))) with 0 in I2.
    unfold wmem, W_FIXED, FILES_ENTRY, IDS_ENTRY, OPEN_ENTRY, SHA_STATE, OFFSET_WORD in *. split; nia.
  Qed.
End RepairMem.
