(* RunC17.v — Tie B entry points of C17 (work package cli17): the command model of Cli.v / CliRepair.v
   evaluated on the inputs and the ARCHIVE BYTES the real `mlar` binary was run on (job c17,
   tools/cli/c17_job.py).

   Two kinds of entry points:
   (a) archive level, for archives WITHOUT encryption and compression (`mlar create -l`): the model
       reads the real archive bytes through its own reader (header, raw layer, footer, get_file,
       get_hash, reads) and runs each command: `c17_arch`, `c17_convert`, `c17_repair`;
       `c17_fail`: any archive (encrypted ones too) with NO key or with keys given for an archive
       that is not encrypted — the cases where the key policy decides before any cryptography;
   (b) file level, for ANY layer combination: what the theorems of CliArchive.v say the commands
       output for an archive made by create from these files (`c17_spec`): sorted names, tar bytes,
       cat of argument lists.
   Rows (first cell = kind):  [0; status]  [1 :: name] listing line  [2; size] [3 :: hash] list -vv
     [4; ok] [5 :: bytes] one cat  [6 :: tar bytes]  [7; ok; effect] per command on a failing open
     (effect 0 = output untouched, 1 = created empty, 2 = written)  [8 :: name] [9 :: content] members. *)
From MLA Require Import Limit.
From MLAGen Require Src.
(* executable entry points: the production value of BINCODE_MAX_DESERIALIZE (the same in both flavours), file-local *)
#[local] Instance RUN_LIMIT : Limit := MLAGen.Src.BINCODE_MAX_DESERIALIZE_prod.
From MLA Require Import Base Stream Inst Blocks Writer Reader Format Ecies Archive Path Tar Cli CliProofs CompFailSafe Repair CliRepair.
From MLA.Concrete Require Sha256.
From MLAGen Require Src.
Open Scope N_scope.

Definition c17_LIMIT : N := Src.BINCODE_MAX_DESERIALIZE_prod.
Definition c17_b1 (_ : bytes) : bytes := [].
Definition c17_b2 (_ _ : bytes) : bytes := [].
Definition c17_ksf (_ _ : bytes) (_ _ : N) : N := 0.
Definition c17_tagf (_ _ : bytes) (_ : N) (_ : bytes) : bytes := [].
Definition c17_order (f : footer) : footer := f.
(* no layer: the configuration of `-l` without value *)
Definition c17_plain : wconfig := mkWC false false (fun x => x) [] [] [] [].

Definition c17_files (l : list (list bytes)) : list (bytes * bytes) :=
  map (fun p => (nth 0 p [], nth 1 p [])) l.

Section Run17.
  Variable K : consts.
  Notation TS := Src.BT_FileStart. Notation TC := Src.BT_FileContent.
  Notation TA := Src.BT_EndOfArchiveData. Notation TE := Src.BT_EndOfFile.

  Definition c17_open (a : bytes) (privs : list bytes) :=
    cli_open (cCHUNK K) (cTAG K) (cBLOCK K) c17_LIMIT c17_b2 c17_b1 c17_b2 c17_b2 c17_ksf c17_tagf c17_b1 a privs.
  Definition c17_stack (a : bytes) := stack_of (cCHUNK K) (cTAG K) (cBLOCK K) c17_ksf c17_tagf c17_b1 a.

  Definition c17_privs (nkeys : N) : list bytes := repeat [1] (N.to_nat nkeys).

  Definition res_code {A} (r : res A) : N := match r with Ok _ => 0 | Err _ => 1 | Crash _ => 2 end.
  Definition b2n (b : bool) : N := if b then 1 else 0.
  (* `list -v` renders sizes with humansize (not modelled): exact below 1000 bytes only *)
  Definition shown (sz : N) : N := if sz <? 1000 then sz else 1000.
  Definition eff_code (e : outeff) : N := match e with OUntouched => 0 | OWritten [] => 1 | OWritten _ => 2 end.

  (* (a) every reading command on a real layer-less archive; `names` = the arguments of separate
     `cat` invocations (clap takes one name per invocation) *)
  Definition c17_arch (a : bytes) (nkeys : N) (names : list bytes) : list (list N) :=
    let fuel := Datatypes.S (N.to_nat (len a)) in
    match c17_open a (c17_privs nkeys) with
    | Ok (existT _ p r) =>
      let S := c17_stack a p in
      let '(vv, vok) := cmd_list_verbose (cFNMAX K) TS TC TA TE S r in
      [[0; 0]]
      ++ map (fun n => 1 :: n) (sort_names (list_files S r))
      ++ flat_map (fun row => [[2; shown (snd (fst row))]; 3 :: snd row]) vv ++ [[2; b2n vok]]
      ++ flat_map (fun n => let '(d, ok) := cat_loop (cFNMAX K) TS TC TA TE S fuel fuel r [n] [] in [[4; b2n ok]; 5 :: d]) names
      ++ [6 :: cmd_to_tar_opened (cFNMAX K) TS TC TA TE S fuel fuel r]
    | x => [[0; res_code x]]
    end.

  (* members of an archive as the model reads them: [8 :: name] [9 :: content] *)
  Definition c17_members (a : bytes) : list (list N) :=
    let fuel := Datatypes.S (N.to_nat (len a)) in
    match c17_open a [] with
    | Ok (existT _ p r) =>
      let S := c17_stack a p in
      match members_of (cFNMAX K) TS TC TA TE S fuel fuel r (sort_names (list_files S r)) [] with
      | Ok ms => [0; 0] :: flat_map (fun m => [8 :: fst m; 9 :: snd m]) ms
      | x => [[0; res_code x]]
      end
    | x => [[0; res_code x]]
    end.

  Definition c17_convert_cmd (a : bytes) (privs : list bytes) : cres :=
    let fuel := Datatypes.S (N.to_nat (len a)) in
    cmd_convert (cCHUNK K) (cTAG K) (cCIPHERBUF K) (cBLOCK K) c17_LIMIT (cFNMAX K) TS TC TA TE Sha256.sha256 c17_order
      c17_b1 c17_b2 c17_b1 c17_b2 c17_b2 c17_b2 c17_ksf c17_tagf c17_b1 fuel fuel a privs c17_plain [] [].

  Definition c17_repair_cmd (a : bytes) (privs : list bytes) : cres * option (fstatus * list bytes) :=
    let fuel := Datatypes.S (N.to_nat (len a) + 16) in
    cmd_repair (cCHUNK K) (cTAG K) (cCIPHERBUF K) (cBLOCK K) c17_LIMIT (cFNMAX K) (cCACHE K) (cFSBUF K) TS TC TA TE
      Sha256.sha256 c17_b1 c17_b2 c17_b1 c17_b2 c17_b2 c17_b2 c17_ksf c17_tagf
      unit tt (fun _ _ _ => (DFailure, 0, [], tt)) 0%nat
      false fuel a privs c17_plain [] [].

  (* convert / repair of a layer-less archive into a layer-less archive, then the members of the
     NEW archive as the model's reader finds them (compared with list + cat of the real output) *)
  Definition c17_convert (a : bytes) (nkeys : N) : list (list N) :=
    match c17_convert_cmd a (c17_privs nkeys) with
    | mkCR true (OWritten b) _ => [7; 1; 2] :: c17_members b
    | mkCR ok e _ => [[7; b2n ok; eff_code e]]
    end.
  Definition c17_repair (a : bytes) (nkeys : N) : list (list N) :=
    match c17_repair_cmd a (c17_privs nkeys) with
    | (mkCR true (OWritten b) _, _) => [7; 1; 2] :: c17_members b
    | (mkCR ok e _, _) => [[7; b2n ok; eff_code e]]
    end.

  (* the key policy where it decides alone: [0; status of open_mla_file] then per command
     [7; exit ok; output effect]: list, cat -o FILE, cat (stdout), to-tar, convert, repair *)
  Definition c17_fail (a : bytes) (nkeys : N) : list (list N) :=
    let privs := c17_privs nkeys in
    let fuel := Datatypes.S (N.to_nat (len a)) in
    let cat to_file := cmd_cat (cCHUNK K) (cTAG K) (cBLOCK K) c17_LIMIT (cFNMAX K) TS TC TA TE c17_b2 c17_b1 c17_b2 c17_b2 c17_ksf c17_tagf c17_b1
                         to_file fuel fuel a privs [[120]] in
    let tt_ := cmd_to_tar (cCHUNK K) (cTAG K) (cBLOCK K) c17_LIMIT (cFNMAX K) TS TC TA TE c17_b2 c17_b1 c17_b2 c17_b2 c17_ksf c17_tagf c17_b1
                 fuel fuel a privs in
    let ls := cmd_list_a (cCHUNK K) (cTAG K) (cBLOCK K) c17_LIMIT c17_b2 c17_b1 c17_b2 c17_b2 c17_ksf c17_tagf c17_b1 a privs in
    let cv := c17_convert_cmd a privs in
    let rp := fst (c17_repair_cmd a privs) in
    [0; res_code (c17_open a privs)] ::
    map (fun c => [7; b2n (cr_ok c); eff_code (cr_out c)]) [ls; cat true; cat false; tt_; cv; rp].

End Run17.

(* (b) what the theorems say of an archive made by create from these files, any layers:
   listing lines, list -vv rows (size, SHA-256), cat per argument list, tar bytes *)
Definition c17_spec (_ : consts) (files : list (list bytes)) (cats : list (list bytes)) (with_hash : N) : list (list N) :=
  let fs := c17_files files in
  map (fun n => 1 :: n) (sort_names (map fst fs))
  ++ flat_map (fun f => [2; shown (len (snd f))] :: (if with_hash =? 1 then [3 :: Sha256.sha256 (snd f)] else [])) (sorted_files fs)
  ++ flat_map (fun names => [[4; 1]; 5 :: concat (map (lookup_file fs) names)]) cats
  ++ [6 :: tar_of (sorted_files fs)].
