(* CliRepairIntact.v — `mlar repair` of an INTACT archive made by create holds every file:
   composition of ComposeWriterRun.run_wrep (what the writer's calls leave in the block stream),
   C05_repair_intact_complete / C05_repair_encrypted_intact_complete (RepairProofs6, ComposeRepair)
   and ComposeFlush.names_content, through CliRepair.cmd_repair.

   Proved for source archives WITHOUT compression (no layer / encryption, both modes of the
   fail-safe decryptor) and stated at the level of the block stream repair hands to the new
   writer: the command exits 0 with status EndOfOriginalArchiveData, nothing unfinished, and
   the output writer's block list holds under every given name exactly the given bytes
   (content_of (files_of obl)), in a finalized well-formed archive (good_output).
   NOT proved here: sources with the compression layer (the fail-safe decompressor needs the
   DecoderLaws premise, see C14_repair_over_decompressor), and re-reading the new archive's bytes
   through the Reader (good_output is the premise `history` + well-formedness from which C02 derives
   it).  Hence the name `_partial` in props/C17.v. *)
From MLA Require Import Limit.
From MLA Require Import Base Stream Blocks Writer WriterProofs Reader RoundTripBlocks RoundTripWriter RoundTripRun FlushProofs
  EncLayer CompLayer CompFailSafe Repair RepairSpec RepairPure RepairProofs2 RepairProofs5 RepairProofs6
  ComposeWriterRun ComposeFlush ComposeRepair EncWriter EncWriterProofs Format Ecies Archive ArchiveProofs Cli CliProofs CliArchive CliRepair Run.
From Coq Require Import ZifyBool ZifyNat ZifyN Permutation.
Open Scope N_scope.

Lemma open_list_nil_ended fs : open_list fs = [] -> forall f, In f fs -> f_ended f = true.
Proof.
  induction fs as [|x r IH]; intros Ho f Hin; [destruct Hin|].
  rewrite open_list_cons in Ho. apply app_eq_nil in Ho. destruct Ho as [Hx Hr].
  destruct Hin as [<-|Hin]; [|exact (IH Hr f Hin)].
  destruct (f_ended x); [reflexivity | discriminate].
Qed.

Section Intact.
  Context {LIM : Limit}.
  Variable FNMAX : N.
  Variables TS TC TA TE : N.
  Variable H : bytes -> bytes.
  Variable order : footer -> footer.

  Notation wstep := (wstep FNMAX TS TC TA TE H order).
  Notation wrun := (wrun FNMAX TS TC TA TE H order).
  Notation appended := (appended FNMAX TS TC TA TE H order).
  Notation body := (body TS TC TA TE).

  (* one successful add_file: the next id is used up, the name is registered under it *)
  Lemma wstep_add_ok s name size src s' v : wstep s (OAdd name size src) = (s', Ok v) ->
    w_next s' = w_next s + 1 /\ w_files s' = w_files s ++ [(name, w_next s)].
  Proof.
    cbn [Writer.wstep]. unfold Writer.w_start.
    destruct (w_final s); [discriminate|]. destruct (FNMAX <? len name); [discriminate|].
    destruct (name_used (w_files s) name); [discriminate|].
    unfold Writer.w_append, emit. cbn [w_final w_open w_out w_files w_ids w_next w_cur].
    destruct (alookup (w_open s ++ [(w_next s, [])]) (w_next s)) as [h|]; [|discriminate].
    destruct (size =? 0).
    - unfold Writer.w_end. cbn [w_final w_open w_out w_files w_ids w_next w_cur].
      destruct (alookup (w_open s ++ [(w_next s, [])]) (w_next s)) as [h2|]; [|discriminate].
      unfold mark_cont, emit. cbn [w_final w_open w_out w_files w_ids w_next w_cur]. rewrite N.eqb_refl.
      cbn [w_final w_open w_out w_files w_ids w_next w_cur]. intros [= <- _]. cbn [w_next w_files]. auto.
    - unfold mark_cont. cbn [w_final w_open w_out w_files w_ids w_next w_cur]. rewrite N.eqb_refl.
      cbn [w_final w_open w_out w_files w_ids w_next w_cur].
      destruct (len src <? size); [discriminate|].
      unfold Writer.w_end. cbn [w_final w_open w_out w_files w_ids w_next w_cur].
      match goal with |- context [alookup ?l ?k] => destruct (alookup l k) as [h2|]; [|discriminate] end.
      unfold mark_cont, emit. cbn [w_final w_open w_out w_files w_ids w_next w_cur]. rewrite N.eqb_refl.
      cbn [w_final w_open w_out w_files w_ids w_next w_cur]. intros [= <- _]. cbn [w_next w_files]. auto.
  Qed.

  (* the calls create makes, all successful: every given file is registered under an id whose
     appended bytes are the file *)
  Lemma create_appended files : forall s s' rs, wrun s (create_ops files) = (s', rs) ->
    Forall (fun r => is_ok r = true) rs ->
    (forall n d, In (n, d) files -> exists id, w_next s <= id /\ In (n, id) (w_files s') /\ appended id s (create_ops files) = d) /\
    w_next s <= w_next s' /\ (forall e, In e (w_files s) -> In e (w_files s')) /\
    (forall id, id < w_next s -> appended id s (create_ops files) = []).
  Proof.
    induction files as [|[n0 d0] files IH]; intros s s' rs Hr Hok; cbn [create_ops map] in *.
    - cbn [Writer.wrun] in Hr. injection Hr as <- <-. split; [intros n d []|]. split; [lia|]. split; [auto|]. reflexivity.
    - cbn [Writer.wrun fst snd] in Hr. fold (create_ops files) in *.
      destruct (wstep s (OAdd n0 (len d0) d0)) as [s1 x] eqn:E1.
      destruct (wrun s1 (create_ops files)) as [s2 xs] eqn:E2. injection Hr as <- <-.
      inversion Hok as [|? ? Hx Hxs]; subst. destruct x as [v|e|c]; try discriminate.
      destruct (wstep_add_ok _ _ _ _ _ _ E1) as [Hn1 Hf1].
      destruct (IH s1 s2 xs E2 Hxs) as (Hin & Hle & Hsub & Hlt).
      assert (Happ : forall id, appended id s (OAdd n0 (len d0) d0 :: create_ops files) =
                (if w_next s =? id then d0 else []) ++ appended id s1 (create_ops files)).
      { intros id. cbn [ComposeWriterRun.appended]. rewrite E1. cbn [added]. rewrite takeN_len_self. reflexivity. }
      split; [|split; [lia|split]].
      + intros n d [Heq|Hin'].
        * injection Heq as <- <-. exists (w_next s). split; [lia|]. split.
          -- apply Hsub. rewrite Hf1. apply in_or_app. right. left. reflexivity.
          -- rewrite Happ, N.eqb_refl, (Hlt (w_next s)) by lia. apply app_nil_r.
        * destruct (Hin n d Hin') as (id & Hge & Hi & Ha). exists id. split; [lia|]. split; [exact Hi|].
          rewrite Happ. destruct (N.eqb_spec (w_next s) id); [lia|]. exact Ha.
      + intros e He. apply Hsub. rewrite Hf1. apply in_or_app. left. exact He.
      + intros id Hid. rewrite Happ. destruct (N.eqb_spec (w_next s) id); [lia|]. cbn [app]. apply Hlt. lia.
  Qed.

  Lemma create_ops_clean files rs : length rs = length (create_ops files) -> Forall (fun r => is_ok r = true) rs ->
    Forall (fun x => clean (fst x) (snd x)) (combine (create_ops files) rs).
  Proof.
    revert rs. induction files as [|f files IH]; intros rs Hl Hok; cbn [create_ops map combine]; [constructor|].
    destruct rs as [|r rs]; [discriminate|]. inversion Hok as [|? ? Hr Hrs]; subst. constructor.
    - cbn [fst snd]. destruct r; try discriminate. repeat split; discriminate.
    - apply IH; [cbn [length] in Hl; unfold create_ops in *; cbn [map length] in Hl; lia | exact Hrs].
  Qed.

  Lemma create_ops_op_ok files : forallb (fun f => utf8_valid (fst f)) files = true ->
    (forall n d, In (n, d) files -> len d < 2 ^ 64) -> Forall (op_ok) (create_ops files).
  Proof.
    induction files as [|[n d] files IH]; intros Hu Hs; cbn [create_ops map]; [constructor|].
    cbn [forallb fst] in Hu. apply andb_true_iff in Hu. destruct Hu as [Hu1 Hu2]. constructor.
    - cbn [op_ok fst snd]. split; [exact Hu1 | apply (Hs n d); left; reflexivity].
    - apply IH; [exact Hu2 | intros n' d' Hin; apply (Hs n' d'); right; exact Hin].
  Qed.

  Lemma wrun_length ops : forall s s' rs, wrun s ops = (s', rs) -> length rs = length ops.
  Proof.
    induction ops as [|o ops IH]; intros s s' rs Hr; cbn [Writer.wrun] in Hr.
    - injection Hr as _ <-. reflexivity.
    - destruct (wstep s o) as [s1 x]. destruct (wrun s1 ops) as [s2 xs] eqn:E. injection Hr as _ <-.
      cbn [length]. f_equal. exact (IH _ _ _ E).
  Qed.

  Hypothesis Htags : tags_distinct TS TC TA TE.
  Hypothesis HHlen : forall x, len (H x) = 32.

  (* the block stream of an archive made by create: a well-formed block list ending in
     EndOfArchiveData, then the footer; every given file is in it under its name *)
  Theorem created_blocks files sf rs :
    wrun w_init (create_ops files ++ [OFinalize]) = (sf, rs) -> Forall (fun r => is_ok r = true) rs ->
    forallb (fun f => utf8_valid (fst f)) files = true -> (forall n d, In (n, d) files -> len d < 2 ^ 64) ->
    w_next sf < 2 ^ 64 ->
    exists bl trailer, w_out sf = body (bl ++ [BEnd]) ++ trailer /\ wf_blocks FNMAX H (bl ++ [BEnd]) /\ wf_blocks FNMAX H bl /\
      forall obl, Forall2 same (files_of (bl ++ [BEnd])) (files_of obl) ->
        forall n d, In (n, d) files -> content_of (files_of obl) n = d.
  Proof.
    intros Hrun Hok Hutf Hsz Hnext.
    rewrite wrun_app in Hrun. destruct (wrun w_init (create_ops files)) as [s r1] eqn:E1.
    cbn [Writer.wrun Writer.wstep] in Hrun. destruct (w_finalize_with TS TC TA TE order s) as [s2 x] eqn:E2.
    injection Hrun as <- <-. apply Forall_app in Hok. destruct Hok as [Hok1 Hok2].
    inversion Hok2 as [|? ? Hx _]; subst.
    destruct x as [v|e|c]; try discriminate Hx.
    destruct (w_finalize_ok TS TC TA TE order s s2 v E2) as (Hfin & Hopen & _ & _ & _ & ->). cbn [w_out w_next] in *.
    pose proof (create_ops_clean files r1 (wrun_length _ _ _ _ E1) Hok1) as Hclean.
    pose proof (create_ops_op_ok files Hutf Hsz) as Hopok.
    destruct (run_wrep FNMAX TS TC TA TE H order (create_ops files) w_init [] s r1
                (Wrep_init FNMAX TS TC TA TE H) (Forall_nil _) E1 Hclean Hopok) as (bl & W & Hb & Hd).
    cbn [app] in W, Hb.
    assert (Hended : forall f, In f (files_of bl) -> f_ended f = true).
    { apply open_list_nil_ended. rewrite <- (wr_open _ _ _ _ _ _ _ _ W). exact Hopen. }
    assert (Hwfb : wf_blocks FNMAX H bl).
    { split; [exact (wr_wf _ _ _ _ _ _ _ _ W)|]. eapply Forall_impl; [|exact Hb]. intros b. destruct b; cbn [blk_ok num_ok]; lia. }
    exists bl. eexists. split; [|split; [|split; [exact Hwfb|]]].
    - rewrite body_app, body_one, (wr_out _ _ _ _ _ _ _ _ W), <- app_assoc. reflexivity.
    - destruct Hwfb as [Hw Hnum]. split.
      + apply wf_from_snoc; [exact Hw | exact (wr_noend _ _ _ _ _ _ _ _ W) | exact Hended].
      + apply Forall_app. split; [exact Hnum | repeat constructor].
    - intros obl Hsame n d Hin.
      assert (Hfo : files_of (bl ++ [BEnd]) = files_of bl).
      { unfold files_of. rewrite frun_app. reflexivity. }
      rewrite Hfo in Hsame.
      destruct (create_appended files w_init s r1 E1 Hok1) as (Hall & _).
      destruct (Hall n d Hin) as (id & _ & Hi & Ha).
      rewrite (names_content FNMAX H bl obl (w_files s) (fun id => appended id w_init (create_ops files)) Hwfb
                 (wr_files _ _ _ _ _ _ _ _ W)
                 (fun id => eq_trans (data_of_frun FNMAX H id bl [] (wr_wf _ _ _ _ _ _ _ _ W)) (Hd id))
                 Hsame n id Hi).
      exact Ha.
  Qed.
End Intact.

(* ---------- the command ---------- *)
Section IntactCmd.
  Variables CHUNK TAG CIPHERBUF BLOCK LIMIT FNMAX CACHE FSBUF : N.
  Local Hint Extern 0 Limit => exact LIMIT : typeclass_instances.
  Variables TS TC TA TE : N.
  Variable H : bytes -> bytes.
  Variable order : footer -> footer.
  Variable pubk : bytes -> bytes.
  Variable dh : bytes -> bytes -> bytes.
  Variable kdf : bytes -> bytes.
  Variables wenc wdec wtag : bytes -> bytes -> bytes.
  Variable ksf : bytes -> bytes -> N -> N -> N.
  Variable tagf : bytes -> bytes -> N -> bytes -> bytes.
  Variable dec : bytes -> bytes.
  Variable dstate : Type.
  Variable dinit : dstate.
  Variable dstep : dstate -> bytes -> N -> dresult * N * bytes * dstate.
  Variable pfuel : nat.

  Hypothesis HCHUNK : 0 < CHUNK.
  Hypothesis HTAG : 0 < TAG.
  Hypothesis HCB : 0 < CIPHERBUF.
  Hypothesis HB : 0 < BLOCK.
  Hypothesis HB32 : BLOCK < 2 ^ 32.
  Hypothesis HFN : FNMAX < 2 ^ 64.
  Hypothesis HCACHE : 0 < CACHE.
  Hypothesis Htags : tags_distinct TS TC TA TE.
  Hypothesis HHlen : forall x, len (H x) = 32.
  Hypothesis Horder : forall f, Permutation (order f) f.
  Hypothesis wdec_wenc : forall k m, len m = 32 -> wdec k (wenc k m) = m.
  Hypothesis Hpubk : forall e, len (pubk e) = 32.
  Hypothesis Hwenc : forall k m, len m = 32 -> len (wenc k m) = 32.
  Hypothesis Hwtag : forall k c, len (wtag k c) = 16.

  Notation archive_write := (archive_write CHUNK CIPHERBUF BLOCK LIMIT FNMAX TS TC TA TE H order pubk dh kdf wenc wtag ksf tagf).
  Notation made_by_create := (made_by_create CHUNK TAG BLOCK LIMIT FNMAX TS TC TA TE H order pubk dh kdf wenc wtag ksf tagf dec).
  Notation repair_open := (repair_open LIMIT dh kdf wdec wtag).
  Notation archive_wrap := (archive_wrap CHUNK CIPHERBUF BLOCK LIMIT pubk dh kdf wenc wtag ksf tagf).
  Notation cmd_repair := (cmd_repair CHUNK TAG CIPHERBUF BLOCK LIMIT FNMAX CACHE FSBUF TS TC TA TE H pubk dh kdf wenc wdec wtag ksf tagf
                            dstate dinit dstep pfuel).
  Notation good_output := (good_output FNMAX TS TC TA TE H).

  Notation repaired := (repaired CHUNK CIPHERBUF BLOCK LIMIT pubk dh kdf wenc wtag ksf tagf).

  (* no layer in the source, no key (a key is refused: CliRepairProofs.repair_key_for_unencrypted_fails),
     either mode, any target configuration *)
  Theorem repair_intact_plain cfg ct cm files sf rs s :
    made_by_create cfg files sf rs [] s -> wc_encrypt cfg = false -> wc_compress cfg = false ->
    (forall n d, In (n, d) files -> len d < 2 ^ 64) -> w_next sf < 2 ^ 64 ->
    exists a, archive_write cfg ct cm (create_ops files) = Ok a /\
      forall fuel, (N.to_nat (len (w_out sf)) < fuel)%nat ->
      (* finalize of the repaired archive did not fail with SerializationError (its footer within
         LIMIT = BINCODE_MAX_DESERIALIZE and the u32 length field) *)
      repair FNMAX CACHE TS TC TA TE H (Cursor (w_out sf)) fuel 0 w_init <> Err EDeser ->
      exists out obl,
        good_output out obl /\
        (forall n d, In (n, d) files -> content_of (files_of obl) n = d) /\
        forall unauth cfg' ct' cm', cmd_repair unauth fuel a [] cfg' ct' cm' = repaired cfg' ct' cm' out.
  Proof.
    intros Hm He Hc Hsz Hnext.
    destruct (created_opens CHUNK TAG CIPHERBUF BLOCK LIMIT FNMAX TS TC TA TE H order pubk dh kdf wenc wdec wtag ksf tagf dec
                HCHUNK HTAG HCB HB HB32 HHlen Horder wdec_wenc Hpubk Hwenc Hwtag cfg ct cm files sf rs [] s Hm) as (a & Hw & Hh & _).
    exists a. split; [exact Hw|]. intros fuel Hfuel Hser.
    assert (Hwire : wire_of CHUNK BLOCK ksf tagf cfg (w_out sf) = w_out sf).
    { unfold wire_of, mid_of. rewrite He, Hc. reflexivity. }
    rewrite Hwire in Hh.
    destruct Hm as [Hrun Hok Hutf H64 H32 _ _ _ _ _].
    destruct (created_blocks FNMAX TS TC TA TE H order HHlen files sf rs Hrun Hok Hutf Hsz Hnext) as (bl & trailer & Hout & Hwf & _ & Hcont).
    assert (HinE : In BEnd (bl ++ [BEnd])) by (apply in_or_app; right; left; reflexivity).
    destruct (repair_intact_complete FNMAX CACHE HFN HCACHE TS TC TA TE Htags H HHlen (bl ++ [BEnd]) trailer Hwf (or_introl HinE)
                (Cursor (w_out sf)) (fun s p => s = p /\ p <= len (w_out sf)) 0 fuel HinE)
      as (out & obl & Hr & Hg & Hsame & _).
    { rewrite <- Hout. apply cursor_refines. }
    { split; [reflexivity | apply N.le_0_l]. }
    { rewrite <- Hout. exact Hfuel. }
    { exact Hser. }
    exists out, obl. split; [exact Hg|]. split; [exact (Hcont obl Hsame)|].
    intros unauth cfg' ct' cm'. unfold CliRepair.cmd_repair, CliRepair.cmd_repair_gen, CliRepair.repair_open. rewrite Hh. cbn [bind]. cbv iota beta.
    cbn [key_given andb].
    rewrite (load_config_plain pubk dh kdf wenc wdec wtag cfg [] He), Hc. cbn [bind]. cbv iota beta.
    unfold CliRepair.repair_with, repaired. rewrite Hr. reflexivity.
  Qed.
  (* encryption in the source (no compression), a candidate list holding a recipient's key, BOTH
     modes of the fail-safe decryptor (--allow-unauthenticated-data or not) *)
  Theorem repair_intact_enc cfg ct cm files sf rs privs s :
    made_by_create cfg files sf rs privs s -> wc_encrypt cfg = true -> wc_compress cfg = false ->
    (forall n d, In (n, d) files -> len d < 2 ^ 64) -> w_next sf < 2 ^ 64 ->
    len (enc_format CHUNK (ksf (wc_key cfg) (wc_nonce cfg)) (tagf (wc_key cfg) (wc_nonce cfg)) (w_out sf)) / (CHUNK + TAG) + 2 <= 2 ^ 32 ->
    exists a, archive_write cfg ct cm (create_ops files) = Ok a /\
      (TagCollision pubk dh kdf wenc wtag (wc_eph cfg) (wc_key cfg) (wc_recipients cfg) privs \/
       forall fuel unauth, (N.to_nat (len (w_out sf) + TAG) < fuel)%nat ->
       (* finalize of the repaired archive did not fail with SerializationError; `es`: the state
          the fail-safe decryptor opens in over the encrypted block stream *)
       (forall es b,
          fs_open CHUNK TAG (ksf (wc_key cfg) (wc_nonce cfg))
            (Cursor (enc_format CHUNK (ksf (wc_key cfg) (wc_nonce cfg)) (tagf (wc_key cfg) (wc_nonce cfg)) (w_out sf))) 0 = (es, Ok b) ->
          repair FNMAX CACHE TS TC TA TE H
            (FsEnc CHUNK TAG (ksf (wc_key cfg) (wc_nonce cfg)) (tagf (wc_key cfg) (wc_nonce cfg)) unauth
               (Cursor (enc_format CHUNK (ksf (wc_key cfg) (wc_nonce cfg)) (tagf (wc_key cfg) (wc_nonce cfg)) (w_out sf))))
            fuel es w_init <> Err EDeser) ->
       exists out obl,
         good_output out obl /\
         (forall n d, In (n, d) files -> content_of (files_of obl) n = d) /\
         forall cfg' ct' cm', cmd_repair unauth fuel a privs cfg' ct' cm' = repaired cfg' ct' cm' out).
  Proof.
    intros Hm He Hc Hsz Hnext Hbound.
    destruct (created_opens CHUNK TAG CIPHERBUF BLOCK LIMIT FNMAX TS TC TA TE H order pubk dh kdf wenc wdec wtag ksf tagf dec
                HCHUNK HTAG HCB HB HB32 HHlen Horder wdec_wenc Hpubk Hwenc Hwtag cfg ct cm files sf rs privs s Hm) as (a & Hw & Hh & _).
    exists a. split; [exact Hw|].
    destruct Hm as [Hrun Hok Hutf H64 H32 _ Henc _ _ _].
    destruct (Henc He) as (Hk & Hn & Htg & (Hnf & _) & Hdh & Hrec & Hin).
    destruct (load_config_enc pubk dh kdf wenc wdec wtag wdec_wenc cfg privs s He Hk Hdh Hrec Hin) as [Hl|Ht]; [right | left; exact Ht].
    set (ks := ksf (wc_key cfg) (wc_nonce cfg)) in *. set (tagc := tagf (wc_key cfg) (wc_nonce cfg)) in *.
    assert (Hmid : mid_of BLOCK cfg (w_out sf) = w_out sf) by (unfold mid_of; rewrite Hc; reflexivity).
    rewrite Hmid in Hnf.
    destruct (enc_writer_total CHUNK CIPHERBUF HCHUNK ks tagc (Datatypes.S (N.to_nat (len (w_out sf)))) [w_out sf] HCB)
      as (sw & Hew & Hout).
    { cbn [concat]. rewrite app_nil_r. apply nfull_div; assumption. }
    { intros b [<-|[]]. lia. }
    cbn [concat] in Hout. rewrite app_nil_r in Hout.
    assert (Hwire : wire_of CHUNK BLOCK ksf tagf cfg (w_out sf) = ew_out sw).
    { unfold wire_of. rewrite He, Hmid, Hout. reflexivity. }
    rewrite Hwire in Hh. rewrite <- Hout in Hbound.
    destruct (created_blocks FNMAX TS TC TA TE H order HHlen files sf rs Hrun Hok Hutf Hsz Hnext) as (bl & trailer & Hbody & Hwf & _ & Hcont).
    assert (HinE : In BEnd (bl ++ [BEnd])) by (apply in_or_app; right; left; reflexivity).
    intros fuel unauth Hfuel Hser. rewrite <- Hout in Hser.
    destruct (repair_encrypted_intact_complete FNMAX CACHE HFN HCACHE TS TC TA TE Htags H HHlen CHUNK TAG CIPHERBUF HCHUNK HTAG ks tagc Htg
                (bl ++ [BEnd]) trailer Hwf (or_introl HinE) [w_out sf]
                ltac:(cbn [concat]; rewrite app_nil_r; exact Hbody) _ sw Hew Hbound unauth fuel HinE
                ltac:(rewrite <- Hbody; exact Hfuel))
      as (es & b & Hfo & Hcon).
    destruct (Hcon (Hser es b Hfo)) as (out & obl & Hr & Hg & Hsame & _).
    exists out, obl. split; [exact Hg|]. split; [exact (Hcont obl Hsame)|].
    intros cfg' ct' cm'. unfold CliRepair.cmd_repair, CliRepair.cmd_repair_gen, CliRepair.repair_open. rewrite Hh. cbn [bind]. cbv iota beta.
    unfold Archive.to_persistent at 1. cbn [h_layers]. destruct (has_bit_layers cfg) as [Ehb _]. rewrite Ehb, He, andb_false_r.
    rewrite Hl, Hc. cbn [bind]. cbv iota beta. fold ks tagc.
    rewrite Hfo. unfold CliRepair.repair_with, CliRepair.FsE, repaired. fold ks tagc. rewrite Hr. reflexivity.
  Qed.
End IntactCmd.
