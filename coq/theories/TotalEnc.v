(* TotalEnc.v — C08, part 5: the encryption layer over ANY inner bytes.  Over a tame inner
   stream bounded by M < 2^32 * CHUNK (fewer than 2^32 chunks: the chunk counter is a u32 and
   `current_chunk_number += 1` would overflow otherwise — 512 TiB at production constants),
   load_in_cache (both flavours), read (both readers, both fail-safe modes), seek with every
   whence and ANY argument, and the two constructors never reach a Crash site (416, 419) nor
   the out-of-fuel arm; the reader is itself a tame stream, so everything proved above the
   layers applies to encrypted archives. *)
From MLA Require Import Base Stream EncLayer Total.
From Coq Require Import ZifyBool ZifyNat ZifyN.
Open Scope N_scope.

Ltac solve_empty lem := (split; [apply lem; assumption|]); cbn [e_cpos e_chunk]; repeat split; try discriminate; auto.

Section EncTotal.
  Variables CHUNK TAG : N.
  Variable ks : N -> N -> N.
  Variable tagc : N -> bytes -> bytes.
  Variable S : Stream.
  Variable Iin : st S -> Prop.
  Variable pin : st S -> N.
  Variable M : N.
  Hypothesis HTI : TameInner S Iin pin M.
  Hypothesis HC : 0 < CHUNK.
  Hypothesis HM : M < 2 ^ 32 * CHUNK.

  Let HT : Tame S Iin pin M := ti_tame S Iin pin M HTI.
  Notation CTS := (CHUNK + TAG).

  Notation eload := (eload CHUNK TAG ks tagc S).
  Notation eload_unauth := (eload_unauth CHUNK TAG ks S).
  Notation eread_gen := (eread_gen CHUNK S).
  Notation eseek_start := (eseek_start CHUNK TAG ks tagc S).
  Notation eseek := (eseek CHUNK TAG ks tagc S).

  Definition Ienc (s : estate S) : Prop :=
    Iin (e_in s) /\ e_cpos s <= CHUNK /\ e_chunk s < 2 ^ 32 /\ len (e_cache s) <= CHUNK /\
    (e_cpos s = CHUNK -> len (e_cache s) = CHUNK) /\
    (len (e_cache s) <> 0 ->
       e_chunk s * CHUNK + len (e_cache s) <= pin (e_in s) /\ e_chunk s * CHUNK + len (e_cache s) <= M).
  Definition pos_enc (s : estate S) : N := e_chunk s * CHUNK + e_cpos s.

  Lemma len_xor i : forall off d, len (xor_from ks i off d) = len d.
  Proof. intros off d; revert off; induction d as [|x d IH]; intros off; cbn [xor_from]; [reflexivity|]. rewrite !len_cons, IH. reflexivity. Qed.

  (* what a chunk loader guarantees when asked for chunk e_chunk s at or after its position *)
  Definition load_post (s : estate S) (out : estate S * res bool) : Prop :=
    match out with
    | (s', Ok _) => Ienc s' /\ e_cpos s' = 0 /\ e_chunk s' = e_chunk s
    | (s', Err e) => Ienc s' /\ e <> EFuel /\ e_cpos s' = 0 /\ e_chunk s' = e_chunk s
    | (_, Crash _) => False
    end.
  Definition LoadSpec (load : estate S -> estate S * res bool) : Prop :=
    forall s, Iin (e_in s) -> e_chunk s < 2 ^ 32 -> e_chunk s * CHUNK <= pin (e_in s) -> load_post s (load s).

  Lemma Ienc_empty i k : Iin i -> k < 2 ^ 32 -> Ienc (mkE i [] 0 k).
  Proof.
    intros Hi Hk. unfold Ienc. cbn [e_in e_cache e_cpos e_chunk].
    change (len (@nil N)) with 0. repeat split; try lia; assumption.
  Qed.

  (* load_in_cache *)
  Lemma eload_spec : LoadSpec eload.
  Proof.
    intros s Hi Hk Hp. unfold EncLayer.eload, load_post, rd_fuel.
    pose proof (read_full_tame_gen S Iin pin M HT (Datatypes.S (N.to_nat CTS)) (e_in s) CTS Hi ltac:(lia)) as H.
    fold (EncLayer.CTS CHUNK TAG) in H |- *. unfold EncLayer.CTS in *.
    destruct (read_full S (Datatypes.S (N.to_nat CTS)) (e_in s) CTS) as [i' [dt|e|c]]; [| |exact H].
    - destruct H as (Hi' & Hl & Hpos & HMx).
      destruct (N.eqb_spec (len dt) 0) as [Hz|Hz]; [solve_empty Ienc_empty|].
      destruct (N.ltb_spec (len dt) TAG) as [Ht|Ht];
        [solve_empty Ienc_empty|].
      destruct (bytes_eqb (tagc (e_chunk s) (takeN (len dt - TAG) dt)) (dropN (len dt - TAG) dt));
        [|solve_empty Ienc_empty].
      split; [|cbn [e_cpos e_chunk]; split; reflexivity].
      unfold Ienc. cbn [e_in e_cache e_cpos e_chunk]. rewrite len_xor, len_takeN.
      specialize (HMx Hz). repeat split; try lia; assumption.
    - destruct H as [Hi' He]. solve_empty Ienc_empty.
  Qed.

  (* load_in_cache_unauthenticated *)
  Lemma eload_unauth_spec : LoadSpec eload_unauth.
  Proof.
    intros s Hi Hk Hp. unfold EncLayer.eload_unauth, load_post, rd_fuel.
    pose proof (read_full_tame_gen S Iin pin M HT (Datatypes.S (N.to_nat CTS)) (e_in s) CHUNK Hi ltac:(lia)) as H.
    fold (EncLayer.CTS CHUNK TAG) in H |- *. unfold EncLayer.CTS in *.
    destruct (read_full S (Datatypes.S (N.to_nat CTS)) (e_in s) CHUNK) as [i' [dt|e|c]]; [| |exact H].
    - destruct H as (Hi' & Hl & Hpos & HMx).
      destruct (N.eqb_spec (len dt) 0) as [Hz|Hz]; [solve_empty Ienc_empty|].
      pose proof (read_full_tame_gen S Iin pin M HT (Datatypes.S (N.to_nat CTS)) i' TAG Hi' ltac:(lia)) as H2.
      destruct (read_full S (Datatypes.S (N.to_nat CTS)) i' TAG) as [i'' [tg|e|c]]; [| |exact H2].
      + destruct H2 as (Hi'' & _ & Hpos2 & _). split; [|cbn [e_cpos e_chunk]; split; reflexivity].
        unfold Ienc. cbn [e_in e_cache e_cpos e_chunk]. rewrite len_xor.
        specialize (HMx Hz). repeat split; try lia; assumption.
      + destruct H2 as [Hi'' He]. solve_empty Ienc_empty.
    - destruct H as [Hi' He]. solve_empty Ienc_empty.
  Qed.

  (* the Cursor read on the chunk cache *)
  Lemma eread_cache_tame s avail n : Ienc s -> avail = CHUNK - e_cpos s -> 0 < avail ->
    match eread_cache S s avail n with
    | (s', Ok d) => Ienc s' /\ len d <= n /\ pos_enc s' = pos_enc s + len d /\ (len d <> 0 -> pos_enc s' <= M)
    | _ => False
    end.
  Proof.
    intros (Hi & Hc & Hk & Hl & Hfull & Hb) -> Hav. unfold eread_cache.
    set (d := sliceN (N.min (e_cpos s) (len (e_cache s))) (N.min (CHUNK - e_cpos s) n) (e_cache s)).
    assert (Hd : len d = N.min (N.min (CHUNK - e_cpos s) n) (len (e_cache s) - N.min (e_cpos s) (len (e_cache s))))
      by (unfold d; apply len_sliceN).
    unfold Ienc, pos_enc. cbn [e_in e_cache e_cpos e_chunk].
    repeat split; try lia; try assumption.
  Qed.

  (* read_internal, generic in the loader: covers both readers *)
  Lemma eread_gen_tame load s n : LoadSpec load -> Ienc s ->
    match eread_gen load s n with
    | (s', Ok d) => Ienc s' /\ len d <= n /\ pos_enc s' = pos_enc s + len d /\ (len d <> 0 -> pos_enc s' <= M)
    | (s', Err e) => Ienc s' /\ e <> EFuel /\ pos_enc s' = pos_enc s
    | (_, Crash _) => False
    end.
  Proof.
    intros HL Hs. pose proof Hs as (Hi & Hc & Hk & Hl & Hfull & Hb).
    unfold EncLayer.eread_gen, csub.
    destruct (N.leb_spec (e_cpos s) CHUNK) as [_|?]; [|lia].
    destruct (CHUNK - e_cpos s) as [|p] eqn:Eav.
    - (* the cache is used up: next chunk *)
      assert (Ecp : e_cpos s = CHUNK) by lia.
      specialize (Hfull Ecp). assert (Hne : len (e_cache s) <> 0) by lia.
      destruct (Hb Hne) as [Hb1 Hb2].
      assert (Hk1 : e_chunk s + 1 < 2 ^ 32) by nia.
      destruct (N.leb_spec (2 ^ 32) (e_chunk s + 1)) as [?|_]; [lia|].
      pose proof (HL (mkE (e_in s) (e_cache s) (e_cpos s) (e_chunk s + 1))) as H.
      cbn [e_in e_chunk] in H. specialize (H Hi Hk1 ltac:(nia)). unfold load_post in H.
      destruct (load (mkE (e_in s) (e_cache s) (e_cpos s) (e_chunk s + 1))) as [s2 [[|]|e|c]]; [| | |exact H].
      + destruct H as (Hs2 & Hc2 & Hk2).
        unfold csub. rewrite Hc2. destruct (N.leb_spec 0 CHUNK) as [_|?]; [|lia].
        rewrite N.sub_0_r. destruct CHUNK as [|pc] eqn:EC; [lia|]. rewrite <- EC in *.
        pose proof (eread_cache_tame s2 CHUNK n Hs2 ltac:(lia) HC) as H2.
        destruct (eread_cache S s2 CHUNK n) as [s3 [d|e|c]]; try contradiction.
        destruct H2 as (Hs3 & Hd & Hp & Hm).
        split; [exact Hs3|]. split; [exact Hd|]. split; [|exact Hm].
        rewrite Hp. unfold pos_enc. cbn [e_chunk] in Hk2. rewrite Hc2, Hk2, Ecp, N.mul_add_distr_r, N.mul_1_l. lia.
      + destruct H as (Hs2 & Hc2 & Hk2). change (len (@nil N)) with 0.
        split; [exact Hs2|]. split; [lia|]. split; [|lia].
        unfold pos_enc. cbn [e_chunk] in Hk2. rewrite Hc2, Hk2, Ecp, N.mul_add_distr_r, N.mul_1_l. lia.
      + destruct H as (Hs2 & He & Hc2 & Hk2).
        split; [exact Hs2|]. split; [exact He|].
        unfold pos_enc. cbn [e_chunk] in Hk2. rewrite Hc2, Hk2, Ecp, N.mul_add_distr_r, N.mul_1_l. lia.
    - pose proof (eread_cache_tame s (N.pos p) n Hs ltac:(lia) ltac:(lia)) as H2.
      destruct (eread_cache S s (N.pos p) n) as [s3 [d|e|c]]; try contradiction. exact H2.
  Qed.

  Lemma notag_div p : (p / CHUNK * CTS + p mod CHUNK) / CTS = p / CHUNK /\
                      (p / CHUNK * CTS + p mod CHUNK) mod CTS = p mod CHUNK.
  Proof.
    assert (Hr : p mod CHUNK < CHUNK) by (apply N.mod_lt; lia).
    split.
    - symmetry. apply (N.div_unique _ CTS (p / CHUNK) (p mod CHUNK)); lia.
    - symmetry. apply (N.mod_unique _ CTS (p / CHUNK) (p mod CHUNK)); lia.
  Qed.

  (* the inner stream moved under a retained cache *)
  Lemma Ienc_move_inner s i' : Ienc s -> Iin i' ->
    (len (e_cache s) <> 0 -> e_chunk s * CHUNK + len (e_cache s) <= pin i') ->
    Ienc (mkE i' (e_cache s) (e_cpos s) (e_chunk s)).
  Proof.
    intros (Hi & Hc & Hk & Hl & Hfull & Hb) Hi' Hp. unfold Ienc. cbn [e_in e_cache e_cpos e_chunk].
    split; [exact Hi'|]. split; [exact Hc|]. split; [exact Hk|]. split; [exact Hl|]. split; [exact Hfull|].
    intros Hne. split; [exact (Hp Hne)|exact (proj2 (Hb Hne))].
  Qed.

  (* seek(SeekFrom::Start(p)) for ANY p *)
  Lemma eseek_start_tame s p : Ienc s ->
    match eseek_start s p with
    | (s', Ok q) => Ienc s' /\ pos_enc s' = p /\ q = p
    | (s', Err e) => Ienc s' /\ e <> EFuel
    | (_, Crash _) => False
    end.
  Proof.
    intros Hs. pose proof Hs as (Hi & Hc & Hk & Hl & Hfull & Hb).
    unfold EncLayer.eseek_start, notag2tag, EncLayer.CTS.
    destruct (_ <? p / CHUNK); [split; [exact Hs|discriminate]|].
    destruct (notag_div p) as [-> ->].
    pose proof (tame_sk _ _ _ _ HT (e_in s) (FromStart (p / CHUNK * CTS)) Hi) as H1.
    destruct (sk S (e_in s) (FromStart (p / CHUNK * CTS))) as [i' [q|e|c]] eqn:Esk; [| |exact H1].
    - destruct H1 as [Hi' Hp']. specialize (Hp' _ eq_refl).
      destruct (N.leb_spec (2 ^ 32) (p / CHUNK)) as [Hbig|Hsmall].
      + split; [|discriminate]. apply Ienc_move_inner; [exact Hs|exact Hi'|]. intros Hne. nia.
      + pose proof (eload_spec (mkE i' (e_cache s) (e_cpos s) (p / CHUNK))) as H2.
        cbn [e_in e_chunk] in H2. specialize (H2 Hi' Hsmall ltac:(nia)). unfold load_post in H2.
        destruct (eload (mkE i' (e_cache s) (e_cpos s) (p / CHUNK))) as [s2 [b|e|c]]; [| |exact H2].
        * destruct H2 as ((Hi2 & Hc2 & Hk2 & Hl2 & Hfull2 & Hb2) & _ & Hck).
          assert (Hr : p mod CHUNK < CHUNK) by (apply N.mod_lt; lia).
          unfold Ienc, pos_enc. cbn [e_in e_cache e_cpos e_chunk] in *.
          split; [|split; [|reflexivity]].
          -- split; [exact Hi2|]. split; [lia|]. split; [exact Hk2|]. split; [exact Hl2|]. split; [lia|exact Hb2].
          -- rewrite Hck. pose proof (N.div_mod p CHUNK). lia.
        * destruct H2 as (Hs2 & He & _). split; assumption.
    - destruct H1 as [Hi' He]. split; [|exact He].
      pose proof (ti_sk_err _ _ _ _ HTI _ _ _ _ Hi Esk) as Hsame.
      apply Ienc_move_inner; [exact Hs|exact Hi'|]. intros Hne. rewrite Hsame. exact (proj1 (Hb Hne)).
  Qed.

  (* Seek::seek: every whence, any argument.  The one panic site is `i64::try_from(current).unwrap()` of the Current
     arm (524): position >= 2^63, nothing touched. *)
  Lemma eseek_tame_gen s w : Ienc s ->
    match eseek s w with
    | (s', Ok q) => Ienc s' /\ (forall p, w = FromStart p -> pos_enc s' = p)
    | (s', Err e) => Ienc s' /\ e <> EFuel
    | (s', Crash c) => s' = s /\ c = 524 /\ 2 ^ 63 <= pos_enc s
    end.
  Proof.
    intros Hs. pose proof Hs as (Hi & Hc & Hk & Hl & Hfull & Hb).
    unfold EncLayer.eseek. destruct w as [p|d|d].
    - pose proof (eseek_start_tame s p Hs) as H.
      destruct (eseek_start s p) as [s' [q|e|c]]; [|exact H|destruct H].
      destruct H as (Hs' & Hp & _). split; [exact Hs'|]. intros p' E; injection E as <-. exact Hp.
    - destruct (d =? 0)%Z; [split; [exact Hs|intros; discriminate]|].
      destruct (N.leb_spec (2 ^ 63) (e_chunk s * CHUNK + e_cpos s)) as [Hcrash|_]; [auto|].
      unfold seek_target. destruct (Z.of_N (e_chunk s * CHUNK + e_cpos s) + d <? 0)%Z; [split; [exact Hs|discriminate]|].
      pose proof (eseek_start_tame s (Z.to_N (Z.of_N (e_chunk s * CHUNK + e_cpos s) + d)) Hs) as H.
      destruct (eseek_start s (Z.to_N (Z.of_N (e_chunk s * CHUNK + e_cpos s) + d))) as [s' [q|e|c]]; [|exact H|destruct H].
      split; [exact (proj1 H)|intros; discriminate].
    - destruct (0 <? d)%Z; [split; [exact Hs|discriminate]|].
      pose proof (tame_sk _ _ _ _ HT (e_in s) (FromEnd 0) Hi) as H1.
      destruct (sk S (e_in s) (FromEnd 0)) as [i' [endi|e|c]] eqn:Esk; [| |destruct H1].
      + destruct H1 as [Hi' _].
        destruct (ti_sk_end _ _ _ _ HTI _ _ _ Hi Esk) as [Hpe _].
        assert (Hs1 : Ienc (mkE i' (e_cache s) (e_cpos s) (e_chunk s))).
        { apply Ienc_move_inner; [exact Hs|exact Hi'|]. intros Hne. rewrite Hpe. exact (proj2 (Hb Hne)). }
        unfold end_pos_of_inner.
        destruct (endi mod EncLayer.CTS CHUNK TAG =? 0).
        * destruct (2 ^ 63 <=? _); [split; [exact Hs1|discriminate]|].
          destruct (negb (i64_fits _)); [split; [exact Hs1|discriminate]|].
          unfold seek_target. destruct (_ <? 0)%Z; [split; [exact Hs1|discriminate]|].
          match goal with |- context [eseek_start ?a ?b] => pose proof (eseek_start_tame a b Hs1) as H;
            destruct (eseek_start a b) as [s' [q|e|c]]; [|exact H|destruct H] end.
          split; [exact (proj1 H)|intros; discriminate].
        * destruct (endi mod EncLayer.CTS CHUNK TAG <? TAG); [split; [exact Hs1|discriminate]|].
          destruct (2 ^ 63 <=? _); [split; [exact Hs1|discriminate]|].
          destruct (negb (i64_fits _)); [split; [exact Hs1|discriminate]|].
          unfold seek_target. destruct (_ <? 0)%Z; [split; [exact Hs1|discriminate]|].
          match goal with |- context [eseek_start ?a ?b] => pose proof (eseek_start_tame a b Hs1) as H;
            destruct (eseek_start a b) as [s' [q|e|c]]; [|exact H|destruct H] end.
          split; [exact (proj1 H)|intros; discriminate].
      + destruct H1 as [Hi' He]. split; [|exact He].
        pose proof (ti_sk_err _ _ _ _ HTI _ _ _ _ Hi Esk) as Hsame.
        apply Ienc_move_inner; [exact Hs|exact Hi'|]. intros Hne. rewrite Hsame. exact (proj1 (Hb Hne)).
  Qed.

  (* whatever a seek returns (the panic included), the state it leaves is in the invariant *)
  Lemma eseek_keeps_Ienc s w : Ienc s -> Ienc (fst (eseek s w)).
  Proof.
    intros Hs. pose proof (eseek_tame_gen s w Hs) as H.
    destruct (eseek s w) as [s' [q|e|c]]; cbn [fst]; [exact (proj1 H)|exact (proj1 H)|].
    destruct H as [-> _]. exact Hs.
  Qed.

  (* the reader's position stays below 2^32 * CHUNK (the chunk number is a u32) *)
  Lemma pos_enc_lt s : Ienc s -> pos_enc s < 2 ^ 32 * CHUNK.
  Proof.
    intros (Hi & Hc & Hk & Hl & Hfull & Hb). unfold pos_enc.
    destruct (N.eq_dec (e_cpos s) CHUNK) as [E|E].
    - specialize (Hfull E). destruct Hb as [_ Hb]; [lia|]. rewrite E. lia.
    - nia.
  Qed.

  Section Seek31.
  (* CHUNK_SIZE <= 2^31 (production 2^17, scaled 2^6): the reader's position, chunk number (a u32) * CHUNK + cache
     position, then stays below 2^63, so `i64::try_from(current).unwrap()` in the SeekFrom::Current arm cannot
     panic.  A premise of eseek_tame and enc_reader_tame only. *)
  Hypothesis HC31 : CHUNK <= 2 ^ 31.

  Lemma eseek_tame s w : Ienc s ->
    match eseek s w with
    | (s', Ok q) => Ienc s' /\ (forall p, w = FromStart p -> pos_enc s' = p)
    | (s', Err e) => Ienc s' /\ e <> EFuel
    | (_, Crash _) => False
    end.
  Proof.
    intros Hs. pose proof (eseek_tame_gen s w Hs) as H.
    destruct (eseek s w) as [s' [q|e|c]]; [exact H|exact H|].
    destruct H as (_ & _ & Hcrash). pose proof (pos_enc_lt s Hs) as Hlt.
    change (2 ^ 63) with (2 ^ 32 * 2 ^ 31) in Hcrash. nia.
  Qed.

  (* C08 item 5: the encryption layer reader is a tame stream *)
  Theorem enc_reader_tame : Tame (EncReader CHUNK TAG ks tagc S) Ienc pos_enc M.
  Proof.
    constructor.
    - intros s n Hs. cbn [EncReader rd st]. unfold eread.
      pose proof (eread_gen_tame eload s n eload_spec Hs) as H.
      destruct (eread_gen eload s n) as [s' [d|e|c]]; [exact H| |exact H].
      destruct H as (H1 & H2 & _). split; assumption.
    - intros s w Hs. cbn [EncReader sk st]. apply eseek_tame; exact Hs.
  Qed.
  End Seek31.

  (* EncryptionLayerReader::new + initialize *)
  Theorem enc_open_tame i0 : Iin i0 ->
    match enc_open CHUNK TAG ks tagc S i0 with
    | (s, Ok _) => Ienc s
    | (s, Err e) => Ienc s /\ e <> EFuel
    | (_, Crash _) => False
    end.
  Proof.
    intros Hi. unfold enc_open.
    pose proof (eseek_start_tame (mkE i0 [] 0 0) 0 (Ienc_empty i0 0 Hi ltac:(lia))) as H.
    destruct (eseek_start (mkE i0 [] 0 0) 0) as [s [q|e|c]]; [exact (proj1 H)|exact H|exact H].
  Qed.

  (* EncryptionLayerFailSafeReader::new *)
  Theorem fs_open_tame i0 : Iin i0 ->
    match fs_open CHUNK TAG ks S i0 with
    | (s, Ok _) => Ienc s
    | (s, Err e) => Ienc s /\ e <> EFuel
    | (_, Crash _) => False
    end.
  Proof.
    intros Hi. unfold fs_open.
    pose proof (eload_unauth_spec (mkE i0 [] 0 0)) as H. cbn [e_in e_chunk] in H.
    specialize (H Hi ltac:(lia) ltac:(lia)). unfold load_post in H.
    destruct (eload_unauth (mkE i0 [] 0 0)) as [s [b|e|c]]; [exact (proj1 H)| |exact H].
    destruct H as (H1 & H2 & _). split; assumption.
  Qed.

  (* Read::read of the fail-safe reader, both modes *)
  Theorem fs_read_tame unauth s n : Ienc s ->
    match fs_read CHUNK TAG ks tagc S unauth s n with
    | (s', Ok d) => Ienc s' /\ len d <= n /\ pos_enc s' = pos_enc s + len d /\ (len d <> 0 -> pos_enc s' <= M)
    | (s', Err e) => Ienc s' /\ e <> EFuel
    | (_, Crash _) => False
    end.
  Proof.
    intros Hs. unfold fs_read. destruct unauth.
    - pose proof (eread_gen_tame eload_unauth s n eload_unauth_spec Hs) as H.
      destruct (eread_gen eload_unauth s n) as [s' [d|e|c]]; [exact H| |exact H].
      destruct H as (H1 & H2 & _). split; assumption.
    - pose proof (eread_gen_tame eload s n eload_spec Hs) as H.
      destruct (eread_gen eload s n) as [s' [d|e|c]]; [exact H| |exact H].
      destruct H as (H1 & H2 & H3).
      destruct e; try (split; assumption).
      change (len (@nil N)) with 0. split; [exact H1|]. split; [lia|]. split; [lia|]. intros; lia.
  Qed.
End EncTotal.
