(* TarProofs.v — the tar written by `mlar to-tar` (Tar.tar_of) is read back by the independent
   reader Tar.tar_read as the list of (name, data) members (tar_read_tar_of); the ".." findings
   of prepare_header_path (tar_member_dotdot_refuted, tar_member_short_dotdot_dropped); names that
   are a "/"-join of plain components and fit the 100-byte field come back unchanged
   (tar_name_benign, member_ok_benign). *)
From MLA Require Import Base Blocks Path PathProofs Tar.
From Coq Require Import ZifyBool ZifyNat ZifyN.
Open Scope N_scope.
(* ---------- generic list facts ---------- *)
Lemma splitN_app (n : N) (a b : bytes) : len a = n -> splitN n (a ++ b) = (a, b).
Proof.
  intros H. unfold splitN. subst n. rewrite takeN_len_app, dropN_len_app. reflexivity.
Qed.

Lemma len_zeros n : len (zeros n) = n.
Proof. unfold zeros, len. rewrite repeat_length. lia. Qed.

Lemma wf_app a b : wf_bytes a -> wf_bytes b -> wf_bytes (a ++ b).
Proof. intros Ha Hb. apply Forall_app. split; assumption. Qed.

Lemma wf_app_inv a b : wf_bytes (a ++ b) -> wf_bytes a /\ wf_bytes b.
Proof. intros H. apply Forall_app in H. exact H. Qed.

Lemma wf_takeN n b : wf_bytes b -> wf_bytes (takeN n b).
Proof. intros H. rewrite <- (takeN_dropN n b) in H. apply wf_app_inv in H. tauto. Qed.

Lemma wf_dropN n b : wf_bytes b -> wf_bytes (dropN n b).
Proof. intros H. rewrite <- (takeN_dropN n b) in H. apply wf_app_inv in H. tauto. Qed.

Lemma wf_zeros n : wf_bytes (zeros n).
Proof.
  unfold zeros. induction (N.to_nat n) as [|k IH]; cbn [repeat]; constructor; [lia|exact IH].
Qed.

Lemma wf_removelast b : wf_bytes b -> wf_bytes (removelast b).
Proof.
  induction 1 as [|x r Hx Hr IH]; cbn [removelast]; [constructor|].
  destruct r; [constructor|]. constructor; assumption.
Qed.

(* ---------- octal fields ---------- *)
Definition odigit (v : N) (k : nat) : N := 48 + (v / 8 ^ N.of_nat k) mod 8.

Lemma octal_field_1 v : octal_field 1 v = [0].
Proof. reflexivity. Qed.

Lemma octal_field_SS k v : octal_field (S (S k)) v = odigit v k :: octal_field (S k) v.
Proof.
  unfold octal_field.
  replace (S (S k) - 1)%nat with (S k) by lia. replace (S k - 1)%nat with k by lia.
  rewrite seq_S, map_app. cbn [rev map Nat.add app].
  rewrite rev_app_distr. reflexivity.
Qed.

Lemma odigit_range v k : 48 <= odigit v k <= 55.
Proof.
  unfold odigit. generalize (v / 8 ^ N.of_nat k). intros x.
  assert (H : x mod 8 < 8) by (apply N.mod_lt; lia). lia.
Qed.

Lemma len_octal_field k v : len (octal_field (S k) v) = N.of_nat (S k).
Proof.
  induction k as [|k IH]; [reflexivity|].
  rewrite octal_field_SS, len_cons, IH. lia.
Qed.

Lemma wf_octal_field k v : wf_bytes (octal_field (S k) v).
Proof.
  induction k as [|k IH]; [rewrite octal_field_1; constructor; [lia|constructor]|].
  rewrite octal_field_SS. constructor; [|exact IH]. pose proof (odigit_range v k). lia.
Qed.

Lemma skip_spaces_octal_field k v : skip_spaces (octal_field (S k) v) = octal_field (S k) v.
Proof.
  destruct k as [|k]; [reflexivity|].
  rewrite octal_field_SS. cbn [skip_spaces].
  pose proof (odigit_range v k) as Hr.
  destruct (odigit v k =? 32) eqn:E; [lia|reflexivity].
Qed.

Lemma oct_digits_octal_field k v : forall acc,
  oct_digits (octal_field (S k) v) acc = Some (acc * 8 ^ N.of_nat k + v mod 8 ^ N.of_nat k).
Proof.
  induction k as [|k IH]; intros acc.
  - rewrite octal_field_1. cbn [oct_digits].
    replace (0 =? 0) with true by reflexivity. cbn [orb].
    change (8 ^ N.of_nat 0) with 1. rewrite N.mod_1_r. f_equal. lia.
  - rewrite octal_field_SS. cbn [oct_digits].
    pose proof (odigit_range v k) as Hr.
    destruct (odigit v k =? 0) eqn:E0; [lia|].
    destruct (odigit v k =? 32) eqn:E1; [lia|]. cbn [orb].
    destruct (48 <=? odigit v k) eqn:E2; [|lia].
    destruct (odigit v k <=? 55) eqn:E3; [|lia]. cbn [andb].
    rewrite IH. f_equal.
    replace (N.of_nat (S k)) with (N.succ (N.of_nat k)) by lia.
    rewrite N.pow_succ_r'.
    assert (Hp : 8 ^ N.of_nat k <> 0) by (apply N.pow_nonzero; lia).
    rewrite (N.mul_comm 8 (8 ^ N.of_nat k)).
    rewrite (N.mod_mul_r v (8 ^ N.of_nat k) 8) by lia.
    unfold odigit. set (d := (v / 8 ^ N.of_nat k) mod 8).
    replace (48 + d - 48) with d by lia. ring.
Qed.

Lemma parse_octal_octal_field k v : v < 8 ^ N.of_nat k ->
  parse_octal (octal_field (S k) v) = Some v.
Proof.
  intros H. unfold parse_octal. rewrite skip_spaces_octal_field, oct_digits_octal_field.
  rewrite N.mod_small by exact H. f_equal; lia.
Qed.

(* ---------- 12-byte numeric field ---------- *)
Lemma len_num_field12 v : len (num_field12 v) = 12.
Proof.
  unfold num_field12. destruct (8589934592 <=? v).
  - rewrite len_app. unfold len at 2. rewrite length_be_bytes. reflexivity.
  - apply (len_octal_field 11).
Qed.

Lemma wf_num_field12 v : wf_bytes (num_field12 v).
Proof.
  unfold num_field12. destruct (8589934592 <=? v).
  - apply wf_app.
    + repeat constructor.
    + unfold be_bytes. apply Forall_rev. apply le_bytes_wf.
  - apply (wf_octal_field 11).
Qed.

Lemma parse_size_num_field12 v : v < 2 ^ 64 -> parse_size (num_field12 v) = Some v.
Proof.
  intros H. unfold num_field12. destruct (8589934592 <=? v) eqn:E.
  - cbn [app parse_size]. replace (128 <=? 128) with true by reflexivity.
    f_equal. change (dropN 4 (128 :: 0 :: 0 :: 0 :: be_bytes 8 v)) with (be_bytes 8 v).
    apply be_val_be_bytes. change (256 ^ N.of_nat 8) with (2 ^ 64). exact H.
  - change 12%nat with (S (S 10)). rewrite octal_field_SS. cbn [parse_size].
    pose proof (odigit_range v 10) as Hr.
    destruct (128 <=? odigit v 10) eqn:E1; [lia|].
    rewrite <- octal_field_SS. apply parse_octal_octal_field.
    change (8 ^ N.of_nat 11) with 8589934592. lia.
Qed.

(* ---------- the name field: length 100 and bytes < 256 are kept ---------- *)
Definition okf (f : bytes) : Prop := len f = 100 /\ wf_bytes f.

Lemma put_okf field pos b f' pos' :
  okf field -> wf_bytes b -> put field pos b = Some (f', pos') -> okf f'.
Proof.
  intros [Hl Hw] Hb H. unfold put in H.
  destruct (NAMEF - pos <? len b) eqn:E1; [discriminate|].
  destruct (existsb (N.eqb 0) b); [discriminate|].
  inversion H; subst f' pos'; clear H. unfold NAMEF in *. split.
  - rewrite len_takeN. repeat (rewrite ?len_app, ?len_cons, ?len_takeN, ?len_dropN, ?len_nil).
    rewrite Hl. lia.
  - apply wf_takeN. apply wf_app; [apply wf_takeN; exact Hw|].
    apply wf_app; [exact Hb|]. constructor; [lia|apply wf_dropN; exact Hw].
Qed.

Definition wfc (c : component) : Prop := wf_bytes (comp_bytes c).

Lemma cpi_loop_okf g s cs : Forall wfc cs -> forall field pos ns em f p n r,
  okf field -> cpi_loop g s cs field pos ns em = (f, p, n, r) -> okf f.
Proof.
  induction 1 as [|c cs Hc Hcs IH]; intros field pos ns em f p n r Hf H.
  - cbn [cpi_loop] in H. inversion H; subst; exact Hf.
  - cbn [cpi_loop] in H.
    assert (Hemit : forall f p n r,
      match (if ns then put field pos [SEP] else Some (field, pos)) with
      | None => (field, pos, ns, None)
      | Some (f1, p1) =>
        match put f1 p1 (comp_bytes c) with
        | None => (f1, p1, ns, None)
        | Some (f2, p2) => cpi_loop g s cs f2 p2 true true
        end
      end = (f, p, n, r) -> okf f).
    { clear H. intros f0 p0 n0 r0 H.
      assert (H1 : forall f1 p1, (if ns then put field pos [SEP] else Some (field, pos)) = Some (f1, p1) -> okf f1).
      { intros f1 p1 E. destruct ns.
        - eapply put_okf; [exact Hf| |exact E]. repeat constructor.
        - inversion E; subst; exact Hf. }
      destruct (if ns then put field pos [SEP] else Some (field, pos)) as [[f1 p1]|] eqn:E.
      - specialize (H1 f1 p1 eq_refl).
        destruct (put f1 p1 (comp_bytes c)) as [[f2 p2]|] eqn:E2.
        + eapply IH; [|exact H]. eapply put_okf; [exact H1|exact Hc|exact E2].
        + inversion H; subst; exact H1.
      - inversion H; subst; exact Hf. }
    destruct c.
    + inversion H; subst; exact Hf.
    + destruct s; [eapply Hemit; exact H|eapply IH; [exact Hf|exact H]].
    + destruct (negb g || match cs with [] => false | _ => true end).
      * inversion H; subst; exact Hf.
      * eapply Hemit; exact H.
    + eapply Hemit; exact H.
Qed.

Lemma set_path_okf g field p f b :
  Forall wfc (components p) -> okf field -> set_path g field p = (f, b) -> okf f.
Proof.
  intros Hc Hf H. unfold set_path in H.
  destruct (cpi_loop g (match components p with [_] => true | _ => false end) (components p) field 0 false false)
    as [[[f0 p0] n0] r0] eqn:E.
  pose proof (cpi_loop_okf _ _ _ Hc _ _ _ _ _ _ _ _ Hf E) as H0.
  destruct r0 as [[|]|].
  - destruct (ends_with_slash p).
    + destruct (put f0 p0 [SEP]) as [[f' p']|] eqn:E2.
      * inversion H; subst. eapply put_okf; [exact H0| |exact E2]. repeat constructor.
      * inversion H; subst; exact H0.
    + inversion H; subst; exact H0.
  - inversion H; subst; exact H0.
  - inversion H; subst; exact H0.
Qed.

Lemma wf_split_on sep s : wf_bytes s -> Forall wf_bytes (split_on sep s).
Proof.
  induction 1 as [|c s Hc Hs IH]; cbn [split_on].
  - repeat constructor.
  - destruct (c =? sep).
    + constructor; [constructor|exact IH].
    + destruct (split_on sep s) as [|w ws]; [repeat constructor; exact Hc|].
      inversion IH; subst. constructor; [constructor; assumption|assumption].
Qed.

Lemma wfc_components p : wf_bytes p -> Forall wfc (components p).
Proof.
  intros Hp. apply Forall_forall. intros c Hin. unfold wfc.
  destruct c; cbn [comp_bytes]; try (unfold SEP, DOT; repeat constructor; lia).
  apply components_normal_piece in Hin. destruct Hin as [Hin _].
  exact (proj1 (Forall_forall _ _) (wf_split_on SEP p Hp) b Hin).
Qed.

Lemma wf_utf8_cut b : wf_bytes b -> wf_bytes (utf8_cut b).
Proof.
  intros H. unfold utf8_cut.
  repeat match goal with |- wf_bytes (if ?c then _ else _) => destruct c end;
  repeat apply wf_removelast; try exact H. constructor.
Qed.

Lemma okf_zeros : okf (zeros NAMEF).
Proof. split; [apply len_zeros|apply wf_zeros]. Qed.

(* what prepare_path can return *)
Lemma prepare_path_some p pre field : wf_bytes p ->
  prepare_path p = (pre, Some field) ->
  okf field /\ (pre = [] \/ pre = longname_member p).
Proof.
  intros Hp H. unfold prepare_path in H.
  destruct (set_path false (zeros NAMEF) p) as [f1 b1] eqn:E1.
  pose proof (set_path_okf _ _ _ _ _ (wfc_components p Hp) okf_zeros E1) as H1.
  destruct b1.
  - inversion H; subst. split; [exact H1|left; reflexivity].
  - destruct (len p <? NAMEF); [discriminate|].
    destruct (set_path true f1 (utf8_cut (takeN NAMEF p))) as [f2 b2] eqn:E2.
    assert (Hc : wf_bytes (utf8_cut (takeN NAMEF p))) by (apply wf_utf8_cut, wf_takeN, Hp).
    pose proof (set_path_okf _ _ _ _ _ (wfc_components _ Hc) H1 E2) as H2.
    destruct b2; [|discriminate].
    inversion H; subst. split; [exact H2|right; reflexivity].
Qed.

Lemma wf_tar_path name : wf_bytes name -> wf_bytes (tar_path name).
Proof.
  intros H. unfold tar_path. destruct name as [|c r]; [exact H|].
  destruct (c =? SEP); [|exact H]. apply wf_app; [|exact H]. unfold DOT, SEP. repeat constructor; lia.
Qed.

Lemma len_tar_path name : len (tar_path name) <= len name + 2.
Proof.
  unfold tar_path. destruct name as [|c r]; [lia|].
  destruct (c =? SEP); [|lia]. rewrite len_app. change (len [DOT; SEP]) with 2. lia.
Qed.

(* ---------- checksum ---------- *)
Lemma fold_add_bound b : wf_bytes b -> forall acc, fold_left N.add b acc <= acc + 255 * len b.
Proof.
  induction 1 as [|x r Hx Hr IH]; intros acc; cbn [fold_left].
  - unfold len; cbn [length]; lia.
  - specialize (IH (acc + x)). rewrite len_cons. lia.
Qed.

Lemma sum_bytes_bound b : wf_bytes b -> sum_bytes b <= 255 * len b.
Proof. intros H. unfold sum_bytes. pose proof (fold_add_bound b H 0). lia. Qed.

(* ---------- padding ---------- *)
Lemma len_pad512 n : n + len (pad512 n) = round512 n.
Proof. unfold pad512, round512. rewrite len_zeros. reflexivity. Qed.

(* ---------- the 512-byte header ---------- *)
Section Header.
  Variables name mode uid gid size mtime : bytes.
  Variable tf : N.
  Hypothesis Hname : len name = 100.
  Hypothesis Hmode : len mode = 8.
  Hypothesis Huid : len uid = 8.
  Hypothesis Hgid : len gid = 8.
  Hypothesis Hsize : len size = 12.
  Hypothesis Hmtime : len mtime = 12.

  Lemma len_header_with ck : len ck = 8 -> len (header_with name mode uid gid size mtime ck tf) = 512.
  Proof.
    intros Hck. unfold header_with. rewrite !len_app, !len_zeros.
    rewrite Hname, Hmode, Huid, Hgid, Hsize, Hmtime, Hck. reflexivity.
  Qed.

  Lemma all_zero_header_with ck : all_zero (header_with name mode uid gid size mtime ck tf) = false.
  Proof.
    unfold all_zero, header_with. rewrite !forallb_app.
    replace (forallb (N.eqb 0) MAGIC_GNU) with false by reflexivity.
    rewrite andb_false_l. rewrite !andb_false_r. reflexivity.
  Qed.

  Lemma wf_header_with ck : wf_bytes name -> wf_bytes mode -> wf_bytes uid -> wf_bytes gid ->
    wf_bytes size -> wf_bytes mtime -> wf_bytes ck -> tf < 256 ->
    wf_bytes (header_with name mode uid gid size mtime ck tf).
  Proof.
    intros. unfold header_with.
    repeat (apply wf_app; [assumption|]).
    apply wf_app; [repeat constructor; assumption|].
    apply wf_app; [apply wf_zeros|]. apply wf_app; [|apply wf_zeros].
    unfold MAGIC_GNU. repeat constructor.
  Qed.

  (* one step of the reader over a block of this shape *)
  Lemma tar_read_block ck fuel rest ln : len ck = 8 ->
    tar_read (S fuel) (header_with name mode uid gid size mtime ck tf ++ rest) ln =
    match parse_octal ck, parse_size size with
    | Some ckv, Some sz =>
      if negb (ckv =? sum_bytes (header_with name mode uid gid size mtime SPACES8 tf)) then None else
      if len rest <? round512 sz then None else
      if tf =? 76 then tar_read fuel (dropN (round512 sz) rest) (Some (upto_nul (takeN sz rest)))
      else if (tf =? 0) || (tf =? 48) then
        match tar_read fuel (dropN (round512 sz) rest) None with
        | Some l => Some ((match ln with Some n => n | None => upto_nul name end, takeN sz rest) :: l)
        | None => None
        end
      else None
    | _, _ => None
    end.
  Proof.
    intros Hck. cbn [tar_read].
    pose proof (len_header_with ck Hck) as Hlen.
    rewrite len_app, Hlen. unfold TBLOCK.
    destruct (512 + len rest <? 512) eqn:E; [lia|]. clear E.
    rewrite (splitN_app 512 _ rest Hlen). cbv beta iota.
    rewrite all_zero_header_with.
    unfold header_with at 1.
    rewrite (splitN_app 100 name _ Hname). cbv beta iota.
    rewrite (splitN_app 8 mode _ Hmode). cbv beta iota.
    rewrite (splitN_app 8 uid _ Huid). cbv beta iota.
    rewrite (splitN_app 8 gid _ Hgid). cbv beta iota.
    rewrite (splitN_app 12 size _ Hsize). cbv beta iota.
    rewrite (splitN_app 12 mtime _ Hmtime). cbv beta iota.
    rewrite (splitN_app 8 ck _ Hck). cbv beta iota.
    rewrite (splitN_app 1 [tf] _ eq_refl). cbv beta iota.
    reflexivity.
  Qed.
End Header.

(* ---------- one whole member: header, data, padding ---------- *)
Lemma tar_read_entry name mode uid gid mtime tf data fuel rest ln :
  len name = 100 -> len mode = 8 -> len uid = 8 -> len gid = 8 -> len mtime = 12 ->
  wf_bytes name -> wf_bytes mode -> wf_bytes uid -> wf_bytes gid -> wf_bytes mtime -> tf < 256 ->
  len data < 2 ^ 64 ->
  tar_read (S fuel)
    (header name mode uid gid (num_field12 (len data)) mtime tf ++ data ++ pad512 (len data) ++ rest) ln =
  if tf =? 76 then tar_read fuel rest (Some (upto_nul data))
  else if (tf =? 0) || (tf =? 48) then
    match tar_read fuel rest None with
    | Some l => Some ((match ln with Some n => n | None => upto_nul name end, data) :: l)
    | None => None
    end
  else None.
Proof.
  intros Hname Hmode Huid Hgid Hmtime Wname Wmode Wuid Wgid Wmtime Htf Hdata.
  unfold header.
  set (ckv := sum_bytes (header_with name mode uid gid (num_field12 (len data)) mtime SPACES8 tf)).
  assert (Hck : ckv < 8 ^ N.of_nat 7).
  { assert (W : wf_bytes (header_with name mode uid gid (num_field12 (len data)) mtime SPACES8 tf)).
    { apply wf_header_with; try assumption; [apply wf_num_field12|].
      unfold SPACES8. cbn [repeat]. repeat constructor. }
    pose proof (sum_bytes_bound _ W) as Hb.
    rewrite (len_header_with name mode uid gid (num_field12 (len data)) mtime tf
               Hname Hmode Huid Hgid (len_num_field12 _) Hmtime SPACES8 eq_refl) in Hb.
    change (8 ^ N.of_nat 7) with 2097152. fold ckv in Hb. lia. }
  rewrite (tar_read_block name mode uid gid (num_field12 (len data)) mtime tf
             Hname Hmode Huid Hgid (len_num_field12 _) Hmtime (octal_field 8 ckv) fuel _ ln
             (len_octal_field 7 ckv)).
  rewrite (parse_octal_octal_field 7 ckv Hck), (parse_size_num_field12 _ Hdata).
  fold ckv. rewrite N.eqb_refl. cbn [negb].
  assert (Hl : len (data ++ pad512 (len data)) = round512 (len data)).
  { rewrite len_app. apply len_pad512. }
  rewrite (app_assoc data). rewrite (len_app (data ++ _)), Hl.
  destruct (round512 (len data) + len rest <? round512 (len data)) eqn:E; [lia|]. clear E.
  rewrite <- Hl. rewrite !dropN_len_app.
  rewrite <- app_assoc. rewrite takeN_len_app. reflexivity.
Qed.

Lemma upto_nul_snoc p : upto_nul (p ++ [0]) = upto_nul p.
Proof.
  induction p as [|c r IH]; [reflexivity|].
  cbn [app upto_nul]. rewrite IH. reflexivity.
Qed.

Lemma okf_longlink : okf (LONGLINK ++ zeros (NAMEF - len LONGLINK)).
Proof.
  split; [reflexivity|]. apply wf_app; [|apply wf_zeros]. unfold LONGLINK. repeat constructor.
Qed.

Lemma tar_read_longname p fuel rest ln : len p + 1 < 2 ^ 64 ->
  tar_read (S fuel) (longname_member p ++ rest) ln = tar_read fuel rest (Some (upto_nul p)).
Proof.
  intros Hp. unfold longname_member.
  assert (Hl : len (p ++ [0]) = len p + 1) by (rewrite len_app; reflexivity).
  rewrite <- Hl. rewrite <- !app_assoc. rewrite (app_assoc p [0]).
  destruct okf_longlink as [L1 L2].
  assert (H76 : 76 < 256) by reflexivity.
  assert (Hp' : len (p ++ [0]) < 2 ^ 64) by (rewrite Hl; exact Hp).
  rewrite (tar_read_entry _ _ _ _ _ 76 (p ++ [0]) fuel rest ln L1 (len_octal_field 7 _) (len_octal_field 7 _)
             (len_octal_field 7 _) (len_num_field12 _) L2 (wf_octal_field 7 _) (wf_octal_field 7 _)
             (wf_octal_field 7 _) (wf_num_field12 _) H76 Hp').
  replace (76 =? 76) with true by reflexivity. rewrite upto_nul_snoc. reflexivity.
Qed.

(* ---------- the main theorem ---------- *)
(* member_ok, tar_name: Tar.v *)

Lemma longname_member_not_nil p : longname_member p <> [].
Proof.
  intros H. apply (f_equal len) in H. unfold longname_member, header in H.
  destruct okf_longlink as [L1 _].
  rewrite len_app in H.
  rewrite (len_header_with _ _ _ _ _ _ 76 L1 (len_octal_field 7 _) (len_octal_field 7 _)
             (len_octal_field 7 _) (len_num_field12 _) (len_num_field12 _) _ (len_octal_field 7 _)) in H.
  change (len (@nil N)) with 0 in H. lia.
Qed.

Lemma tar_read_member m rest fuel : member_ok m ->
  tar_read (S (S fuel)) (fst (tar_member (fst m) (len (snd m)) (snd m) true) ++ rest) None =
  match tar_read (match fst (prepare_path (tar_path (fst m))) with [] => S fuel | _ => fuel end) rest None with
  | Some l => Some ((tar_name (fst m), snd m) :: l)
  | None => None
  end.
Proof.
  destruct m as [name data]. unfold member_ok. cbn [fst snd].
  intros [[pre [field Hpp]] [Hd [Wn Hn]]].
  pose proof (wf_tar_path name Wn) as Wp. pose proof (len_tar_path name) as Lp.
  unfold tar_member, tar_name. rewrite Hpp. cbn [fst].
  destruct (prepare_path_some _ _ _ Wp Hpp) as [[F1 F2] Hpre].
  assert (Hent : forall f ln,
    tar_read (S f)
      ((header field (octal_field 8 292) (zeros 8) (zeros 8) (num_field12 (len data)) (num_field12 0) 0
        ++ data ++ pad512 (len data)) ++ rest) ln =
    match tar_read f rest None with
    | Some l => Some ((match ln with Some n => n | None => upto_nul field end, data) :: l)
    | None => None
    end).
  { intros f ln. rewrite <- !app_assoc.
    assert (H0 : 0 < 256) by reflexivity.
    rewrite (tar_read_entry _ _ _ _ _ 0 data f rest ln F1 (len_octal_field 7 _) (len_zeros 8)
               (len_zeros 8) (len_num_field12 _) F2 (wf_octal_field 7 _) (wf_zeros 8)
               (wf_zeros 8) (wf_num_field12 _) H0 Hd).
    reflexivity. }
  destruct Hpre as [->| ->].
  - cbn [app]. apply Hent.
  - rewrite <- app_assoc. rewrite tar_read_longname by lia.
    rewrite Hent.
    destruct (longname_member (tar_path name)) eqn:E; [exfalso; exact (longname_member_not_nil _ E)|].
    reflexivity.
Qed.

Lemma tar_read_end fuel : tar_read (S fuel) TAR_END None = Some [].
Proof. vm_compute. reflexivity. Qed.

Lemma tar_of_cons m ms :
  tar_of (m :: ms) = fst (tar_member (fst m) (len (snd m)) (snd m) true) ++ tar_of ms.
Proof. unfold tar_of. cbn [map concat]. rewrite app_assoc. reflexivity. Qed.

Theorem tar_read_tar_of : forall ms, Forall member_ok ms ->
  forall fuel, (2 * length ms < fuel)%nat ->
  tar_read fuel (tar_of ms) None = Some (map (fun m => (tar_name (fst m), snd m)) ms).
Proof.
  induction 1 as [|m ms Hm Hms IH]; intros fuel Hf.
  - destruct fuel as [|fuel]; [lia|]. apply tar_read_end.
  - cbn [length] in Hf. destruct fuel as [|[|fuel]]; [lia|lia|].
    rewrite tar_of_cons, (tar_read_member m _ fuel Hm). cbn [map].
    rewrite IH; [reflexivity|].
    destruct (fst (prepare_path (tar_path (fst m)))); lia.
Qed.
Print Assumptions tar_read_tar_of.

(* ---------- non-vacuity: a short name and a GNU long name (101 × "x") ---------- *)
Lemma member_ok_by_compute m :
  (exists pre field, prepare_path (tar_path (fst m)) = (pre, Some field)) ->
  forallb (fun x => x <? 256) (fst m) = true ->
  (len (snd m) <? 2 ^ 64) && (len (fst m) + 3 <? 2 ^ 64) = true -> member_ok m.
Proof.
  intros H1 H2 H3. apply andb_true_iff in H3. destruct H3 as [H3 H4].
  apply N.ltb_lt in H3, H4.
  split; [exact H1|]. split; [exact H3|]. split; [|exact H4].
  apply Forall_forall. intros x Hx.
  pose proof (proj1 (forallb_forall _ _) H2 x Hx) as Hb. cbn beta in Hb. lia.
Qed.

Definition ex_short : bytes * bytes := ([122; 122], [103; 111; 111; 100]).            (* "zz", "good" *)
Definition ex_long : bytes * bytes := (repeat 120 101%nat, [69; 86; 73; 76]).          (* 101 × "x", "EVIL" *)

Example tar_read_tar_of_nonvacuous :
  Forall member_ok [ex_short; ex_long] /\
  fst (prepare_path (tar_path (fst ex_short))) = [] /\
  fst (prepare_path (tar_path (fst ex_long))) <> [] /\
  tar_read 5 (tar_of [ex_short; ex_long]) None = Some [ex_short; ex_long].
Proof.
  split; [|split; [|split]].
  - repeat constructor; apply member_ok_by_compute;
      try (vm_compute; reflexivity); eexists; eexists; vm_compute; reflexivity.
  - vm_compute. reflexivity.
  - vm_compute. discriminate.
  - vm_compute. reflexivity.
Qed.

(* ================================================================================== *)
(* FINDING (confirmed on the real binary): a name with a ".." component and >= 100 bytes.
   prepare_header_path writes the GNU long-name member, then the relaxed set_path fails on
   "..", append_data returns the error and to-tar goes on with the next file: the orphan
   long-name member is applied by every tar reader to the NEXT member header.  The second
   file's bytes come out under the first file's name. *)
Definition evil_name : bytes := [46; 46; 47; 100; 47] ++ repeat 120 100%nat.   (* "../d/" ++ 100 × "x" *)
Definition evil_data : bytes := [69; 86; 73; 76].                              (* "EVIL" *)
Definition good_name : bytes := [122; 122].                                    (* "zz" *)
Definition good_data : bytes := [103; 111; 111; 100].                          (* "good" *)

(* what to_tar leaves in the file: the bytes of every append_data, failed or not, then finish() *)
(* OLD CODE (before 6302e72), refuted: the orphaned long-name member renames the next file *)
Theorem tar_member_dotdot_old_code_refuted :
  exists ms, ms = [(evil_name, evil_data); (good_name, good_data)] /\
    snd (tar_member_old evil_name (len evil_data) evil_data true) = false /\
    fst (tar_member_old evil_name (len evil_data) evil_data true) = longname_member evil_name /\
    tar_read 10 (tar_of_old ms) None = Some [(evil_name, good_data)].
Proof. eexists. split; [reflexivity|]. vm_compute. repeat split; reflexivity. Qed.

(* repaired code: both `..` members leave nothing, the good member keeps its own name *)
Theorem tar_member_dotdot_omitted :
  tar_member evil_name (len evil_data) evil_data true = ([], false) /\
  tar_member [46; 46; 47; 100; 47; 115] (len evil_data) evil_data true = ([], false) /\   (* "../d/s" *)
  tar_read 10 (tar_of [(evil_name, evil_data); (good_name, good_data); ([46; 46; 47; 100; 47; 115], evil_data)]) None
    = Some [(good_name, good_data)].
Proof. vm_compute. repeat split; reflexivity. Qed.

(* ---------- ANY member list: the refused members leave nothing ---------- *)
Lemma tar_member_refused n s d c : path_accepted n = false -> fst (tar_member n s d c) = [].
Proof.
  unfold path_accepted, tar_member. destruct (prepare_path (tar_path n)) as [pre [f|]]; cbn [snd fst]; [discriminate | reflexivity].
Qed.

Lemma tar_of_filter ms : tar_of ms = tar_of (filter (fun m => path_accepted (fst m)) ms).
Proof.
  unfold tar_of. f_equal. induction ms as [|m ms IH]; cbn [filter map concat]; [reflexivity|].
  destruct (path_accepted (fst m)) eqn:E; cbn [map concat].
  - rewrite IH. reflexivity.
  - rewrite (tar_member_refused _ _ _ _ E). cbn [app]. exact IH.
Qed.

Lemma accepted_member_ok m : sizes_ok m -> path_accepted (fst m) = true -> member_ok m.
Proof.
  intros (H1 & H2 & H3). unfold path_accepted, member_ok.
  destruct (prepare_path (tar_path (fst m))) as [pre [f|]] eqn:E; cbn [snd]; [|discriminate].
  intros _. split; [exists pre, f; reflexivity | auto].
Qed.

Lemma filter_len_le {A} (f : A -> bool) l : (length (filter f l) <= length l)%nat.
Proof. induction l as [|x l IH]; cbn [filter length]; [lia|]. destruct (f x); cbn [length]; lia. Qed.

(* for ALL names: the reader returns exactly the accepted members, each with its own name and
   its own bytes *)
Theorem tar_read_tar_of_all ms : Forall sizes_ok ms ->
  forall fuel, (2 * length ms < fuel)%nat ->
  tar_read fuel (tar_of ms) None =
    Some (map (fun m => (tar_name (fst m), snd m)) (filter (fun m => path_accepted (fst m)) ms)).
Proof.
  intros Hs fuel Hf. rewrite tar_of_filter. apply tar_read_tar_of.
  - apply Forall_forall. intros m Hin. apply filter_In in Hin. destruct Hin as [Hin Hacc].
    rewrite Forall_forall in Hs. exact (accepted_member_ok m (Hs m Hin) Hacc).
  - pose proof (filter_len_le (fun m => path_accepted (fst m)) ms). lia.
Qed.

Print Assumptions tar_read_tar_of_nonvacuous.
Print Assumptions tar_member_dotdot_old_code_refuted.
Print Assumptions tar_member_dotdot_omitted.
Print Assumptions tar_read_tar_of_all.

(* ---------- a `..` component ---------- *)
(* the strict set_path refuses every path with a `..` component (or fails earlier) *)
Lemma cpi_loop_parent single cs : In ParentDir cs ->
  forall f p ns em, snd (cpi_loop false single cs f p ns em) = None.
Proof.
  induction cs as [|c cs IH]; intros Hin f p ns em; [destruct Hin|].
  cbn [cpi_loop]. destruct c as [| | |b].
  - reflexivity.
  - destruct Hin as [Hc|Hin]; [discriminate|].
    destruct single.
    + destruct (if ns then put f p [SEP] else Some (f, p)) as [[f1 p1]|]; [|reflexivity].
      destruct (put f1 p1 (comp_bytes CurDir)) as [[f2 p2]|]; [|reflexivity]. apply IH; exact Hin.
    + apply IH; exact Hin.
  - reflexivity.
  - destruct Hin as [Hc|Hin]; [discriminate|].
    destruct (if ns then put f p [SEP] else Some (f, p)) as [[f1 p1]|]; [|reflexivity].
    destruct (put f1 p1 (comp_bytes (Normal b))) as [[f2 p2]|]; [|reflexivity]. apply IH; exact Hin.
Qed.

(* hence: a member whose path (after the "./" of absolute names) has a `..` component and is
   shorter than 100 bytes is OMITTED from the tar: nothing written, add_file_to_tar fails (mlar
   prints the error and goes on, exit status 0) *)
Theorem dotdot_member_omitted name size data complete :
  In ParentDir (components (tar_path name)) -> len (tar_path name) < NAMEF ->
  path_accepted name = false /\ tar_member name size data complete = ([], false).
Proof.
  intros Hin Hlen.
  assert (Hpp : prepare_path (tar_path name) = ([], None)).
  { unfold prepare_path, set_path.
    pose proof (cpi_loop_parent (match components (tar_path name) with [_] => true | _ => false end)
                  (components (tar_path name)) Hin (zeros NAMEF) 0 false false) as Hn.
    destruct (cpi_loop false _ (components (tar_path name)) (zeros NAMEF) 0 false false) as [[[f pos] ns] [em|]];
      cbn [snd] in Hn; [discriminate|].
    destruct (N.ltb_spec (len (tar_path name)) NAMEF); [reflexivity | lia]. }
  unfold path_accepted, tar_member. rewrite Hpp. split; reflexivity.
Qed.
Print Assumptions dotdot_member_omitted.

(* ================================================================================== *)
(* ---------- benign names: what set_path leaves in the field ---------- *)
(* benign_comp: Tar.v *)

Definition fieldof (s : bytes) : bytes := s ++ zeros (NAMEF - len s).

Lemma dropN_zeros n k : dropN n (zeros k) = zeros (k - n).
Proof.
  unfold dropN, zeros. replace (N.to_nat (k - n)) with (N.to_nat k - N.to_nat n)%nat by lia.
  generalize (N.to_nat k) as b. induction (N.to_nat n) as [|a IH]; intros b.
  - cbn [skipn]. f_equal. lia.
  - destruct b as [|b]; [reflexivity|]. cbn [repeat skipn]. rewrite IH. f_equal.
Qed.

Lemma zeros_cons k : 0 < k -> 0 :: zeros (k - 1) = zeros k.
Proof.
  intros H. unfold zeros. replace (N.to_nat k) with (S (N.to_nat (k - 1))) by lia. reflexivity.
Qed.

Lemma no_nul_existsb b : ~ In 0 b -> existsb (N.eqb 0) b = false.
Proof.
  intros H. destruct (existsb (N.eqb 0) b) eqn:E; [|reflexivity].
  apply existsb_exists in E. destruct E as [x [Hx Hx0]]. apply N.eqb_eq in Hx0. subst x. contradiction.
Qed.

Lemma put_fieldof s b : len s + len b <= NAMEF -> ~ In 0 b ->
  put (fieldof s) (len s) b = Some (fieldof (s ++ b), len (s ++ b)).
Proof.
  unfold NAMEF. intros Hl Hn. unfold put, fieldof, NAMEF.
  destruct (100 - len s <? len b) eqn:E; [lia|]. clear E.
  rewrite (no_nul_existsb b Hn). rewrite takeN_len_app.
  rewrite dropN_app_ge by lia. rewrite dropN_zeros. rewrite len_app.
  f_equal. f_equal.
  destruct (N.eq_dec (len s + len b) 100) as [E|E].
  - replace (100 - len s - (len s + len b + 1 - len s)) with 0 by lia.
    replace (100 - (len s + len b)) with 0 by lia.
    change (zeros 0) with (@nil N). rewrite !app_nil_r.
    rewrite (app_assoc s b [0]). rewrite takeN_app_le by (rewrite len_app; lia).
    apply takeN_all. rewrite len_app. lia.
  - cbn [app].
    replace (100 - len s - (len s + len b + 1 - len s)) with (100 - (len s + len b) - 1) by lia.
    rewrite zeros_cons by lia. rewrite app_assoc. apply takeN_all.
    rewrite !len_app, len_zeros. lia.
Qed.

Fixpoint tailj (ns : bool) (cs : list bytes) : bytes :=
  match cs with
  | [] => []
  | c :: r => (if ns then [SEP] else []) ++ c ++ tailj true r
  end.

Lemma tailj_join cs : tailj false cs = join SEP cs.
Proof.
  destruct cs as [|c r]; [reflexivity|]. cbn [tailj app]. revert c.
  induction r as [|c' r IH]; intros c.
  - cbn [tailj join]. apply app_nil_r.
  - rewrite join_cons by discriminate. cbn [tailj app]. rewrite (IH c'). reflexivity.
Qed.

Lemma cpi_loop_normals g sg cs : Forall benign_comp cs -> forall s ns em,
  len (s ++ tailj ns cs) <= NAMEF ->
  cpi_loop g sg (map Normal cs) (fieldof s) (len s) ns em =
  (fieldof (s ++ tailj ns cs), len (s ++ tailj ns cs),
   match cs with [] => ns | _ => true end, Some (match cs with [] => em | _ => true end)).
Proof.
  induction 1 as [|c r Hc Hr IH]; intros s ns em Hl.
  - cbn [map cpi_loop tailj]. rewrite app_nil_r. reflexivity.
  - destruct Hc as [_ [_ [_ [_ Hc0]]]].
    cbn [map cpi_loop tailj] in *. cbn [comp_bytes].
    rewrite !len_app in Hl.
    assert (E1 : (if ns then put (fieldof s) (len s) [SEP] else Some (fieldof s, len s)) =
                 Some (fieldof (s ++ if ns then [SEP] else []), len (s ++ if ns then [SEP] else []))).
    { destruct ns; [|rewrite app_nil_r; reflexivity].
      apply put_fieldof; [lia|]. unfold SEP. intros [H|[]]. discriminate. }
    rewrite E1.
    rewrite put_fieldof; [|rewrite len_app; lia|exact Hc0].
    rewrite IH by (rewrite !len_app; lia).
    rewrite <- !app_assoc. destruct r; reflexivity.
Qed.

Lemma classify_benign c : benign_comp c -> classify c = [Normal c].
Proof.
  intros [H1 [H2 [H3 _]]]. unfold classify. destruct c as [|x c]; [congruence|].
  apply bytes_eqb_false in H2, H3. rewrite H2, H3. reflexivity.
Qed.

Lemma split_on_join cs : cs <> [] -> Forall benign_comp cs -> split_on SEP (join SEP cs) = cs.
Proof.
  intros Hne H. induction H as [|c r Hc Hr IH]; [congruence|].
  destruct Hc as [_ [_ [_ [Hs _]]]].
  destruct r as [|c' r]; [cbn [join]; apply split_on_single; exact Hs|].
  rewrite join_cons by discriminate. rewrite split_on_app, IH by discriminate.
  rewrite split_on_single by exact Hs. reflexivity.
Qed.

Lemma components_join cs : cs <> [] -> Forall benign_comp cs ->
  components (join SEP cs) = map Normal cs.
Proof.
  intros Hne H. unfold components. rewrite split_on_join by assumption.
  destruct cs as [|c r]; [congruence|]. inversion H as [|? ? Hc Hr]; subst.
  pose proof (classify_benign c Hc) as Ec.
  destruct Hc as [H1 [H2 _]]. destruct c as [|x c]; [congruence|].
  apply bytes_eqb_false in H2. rewrite H2, Ec. cbn [map app]. f_equal.
  clear -Hr. induction Hr as [|c' r Hc' Hr IH]; [reflexivity|].
  cbn [flat_map map]. rewrite (classify_benign c' Hc'), IH. reflexivity.
Qed.

Lemma ends_with_slash_app a b : b <> [] -> ends_with_slash (a ++ b) = ends_with_slash b.
Proof.
  intros Hb. unfold ends_with_slash. rewrite rev_app_distr.
  destruct (rev b) as [|x r] eqn:E; [|reflexivity].
  apply (f_equal (@rev N)) in E. rewrite rev_involutive in E. cbn in E. congruence.
Qed.

Lemma ends_with_slash_join cs : cs <> [] -> Forall benign_comp cs -> ends_with_slash (join SEP cs) = false.
Proof.
  intros Hne H. induction H as [|c r Hc Hr IH]; [congruence|].
  destruct r as [|c' r].
  - cbn [join]. destruct Hc as [_ [_ [_ [Hs _]]]]. unfold ends_with_slash.
    destruct (rev c) as [|x t] eqn:E; [reflexivity|].
    destruct (x =? SEP) eqn:Ex; [|reflexivity]. apply N.eqb_eq in Ex. subst x.
    exfalso. apply Hs. apply in_rev. rewrite E. left; reflexivity.
  - rewrite join_cons by discriminate.
    change (c ++ SEP :: join SEP (c' :: r)) with (c ++ [SEP] ++ join SEP (c' :: r)).
    rewrite app_assoc. rewrite ends_with_slash_app; [apply IH; discriminate|].
    destruct r; cbn [join]; [inversion Hr as [|? ? [Hx _] _]; subst; exact Hx|].
    destruct c'; discriminate.
Qed.

Lemma upto_nul_fieldof s : ~ In 0 s -> upto_nul (fieldof s) = s.
Proof.
  unfold fieldof. generalize (NAMEF - len s) as k. intros k.
  induction s as [|x s IH]; intros Hn.
  - cbn [app]. unfold zeros. destruct (N.to_nat k); reflexivity.
  - cbn [app upto_nul]. destruct (x =? 0) eqn:E.
    + apply N.eqb_eq in E. exfalso. apply Hn. left. congruence.
    + rewrite IH; [reflexivity|]. intros H. apply Hn. right; exact H.
Qed.

Lemma no_nul_join cs : Forall benign_comp cs -> ~ In 0 (join SEP cs).
Proof.
  induction 1 as [|c r Hc Hr IH]; [intros []|].
  destruct r as [|c' r]; [cbn [join]; apply Hc|].
  rewrite join_cons by discriminate. rewrite in_app_iff. intros [H|[H|H]].
  - apply Hc in H. exact H.
  - unfold SEP in H. discriminate.
  - exact (IH H).
Qed.

Theorem tar_name_benign cs name : cs <> [] -> Forall benign_comp cs -> name = join SEP cs ->
  len name <= 100 ->
  prepare_path (tar_path name) = ([], Some (name ++ zeros (100 - len name))) /\ tar_name name = name.
Proof.
  intros Hne Hb -> Hl.
  assert (Htp : tar_path (join SEP cs) = join SEP cs).
  { destruct cs as [|c r]; [congruence|]. inversion Hb as [|? ? Hc Hr]; subst.
    destruct Hc as [H1 [_ [_ [Hs _]]]]. destruct c as [|x c]; [congruence|].
    assert (Hj : exists t, join SEP (((x :: c) : bytes) :: r) = x :: t).
    { destruct r; cbn [join app]; eexists; reflexivity. }
    destruct Hj as [t Hj]. rewrite Hj. unfold tar_path.
    destruct (x =? SEP) eqn:E; [|reflexivity]. apply N.eqb_eq in E. exfalso. apply Hs. left. exact E. }
  assert (Hpp : prepare_path (join SEP cs) = ([], Some (fieldof (join SEP cs)))).
  { unfold prepare_path, set_path. rewrite components_join by assumption.
    change (zeros NAMEF) with (fieldof []). change 0 with (len (@nil N)) at 1.
    rewrite cpi_loop_normals; [|exact Hb|cbn [app]; rewrite tailj_join; exact Hl].
    cbn [app]. rewrite tailj_join.
    rewrite ends_with_slash_join by assumption.
    destruct cs; [congruence|reflexivity]. }
  unfold tar_name. rewrite Htp, Hpp. split; [reflexivity|].
  apply upto_nul_fieldof. apply no_nul_join. exact Hb.
Qed.
Print Assumptions tar_name_benign.

Lemma wf_join cs : Forall wf_bytes cs -> wf_bytes (join SEP cs).
Proof.
  induction 1 as [|c r Hc Hr IH]; [constructor|].
  destruct r as [|c' r]; [exact Hc|]. rewrite join_cons by discriminate.
  apply wf_app; [exact Hc|]. constructor; [reflexivity|exact IH].
Qed.

Theorem member_ok_benign cs name data : cs <> [] -> Forall benign_comp cs -> Forall wf_bytes cs ->
  name = join SEP cs -> len name <= 100 -> len data < 2 ^ 64 -> member_ok (name, data).
Proof.
  intros Hne Hb Hw Hn Hl Hd. destruct (tar_name_benign cs name Hne Hb Hn Hl) as [Hpp _].
  split; [eexists; eexists; exact Hpp|]. split; [exact Hd|]. cbn [fst]. split.
  - subst name. apply wf_join. exact Hw.
  - apply N.le_lt_trans with 103; [lia|reflexivity].
Qed.

Example tar_name_benign_nonvacuous :
  tar_name [97; 47; 98; 99] = [97; 47; 98; 99] /\ member_ok ([97; 47; 98; 99], [1; 2; 3]).   (* "a/bc" *)
Proof.
  assert (Hb : Forall benign_comp [[97]; [98; 99]]).
  { repeat constructor; try discriminate; unfold SEP; cbn [In]; intros H; repeat destruct H as [H|H]; try discriminate; exact H. }
  split.
  - apply (tar_name_benign [[97]; [98; 99]]); [discriminate|exact Hb|reflexivity|vm_compute; discriminate].
  - apply (member_ok_benign [[97]; [98; 99]]); [discriminate|exact Hb| |reflexivity|vm_compute; discriminate|reflexivity].
    repeat constructor.
Qed.
Print Assumptions member_ok_benign.
Print Assumptions tar_name_benign_nonvacuous.
