(* RoundTripInst.v — C01: the round-trip theorems at the constants of the source (block tags
   translated by Tie A, both FILENAME_MAX_SIZE flavours, concrete SHA-256), and a concrete
   non-trivial instance (3 files, interleaved, an empty piece, add_file, a source longer than
   the announced size, footer iterated in reverse order, read back through a throttled stream
   with short reads) on which every hypothesis is checked and the read-back is evaluated. *)
From MLA Require Import Limit.
From MLA Require Import Base Stream Blocks Writer Reader RoundTripBlocks RoundTripFooter
  RoundTripReader RoundTripWriter RoundTripRun RoundTripGlue RoundTrip Inst.
From MLA.Concrete Require Import Sha256.
From MLAGen Require Src.
From Coq Require Import ZifyBool ZifyNat ZifyN Permutation.
(* a concrete instance: the production value of BINCODE_MAX_DESERIALIZE, file-local *)
#[local] Instance EX_LIMIT : Limit := MLAGen.Src.BINCODE_MAX_DESERIALIZE_prod.
Open Scope N_scope.

Notation TS := Src.BT_FileStart.
Notation TC := Src.BT_FileContent.
Notation TA := Src.BT_EndOfArchiveData.
Notation TE := Src.BT_EndOfFile.

(* Tie A: the four block tags of the source are pairwise distinct *)
Lemma src_tags_distinct : tags_distinct TS TC TA TE.
Proof. unfold tags_distinct. repeat split; discriminate. Qed.

(* ---------- a concrete run ---------- *)
Definition ex_ops : list wop :=
  [ OStart [97]; OStart [98];
    OAppend 0 3 [1; 2; 3; 9];        (* source longer than announced: 3 bytes taken *)
    OAppend 1 2 [7; 8];
    OAppend 0 0 [];                  (* empty piece: no block *)
    OFlush;
    OAdd [99; 195; 169] 2 [5; 6];    (* "cé" *)
    OAppend 0 1 [4];
    OEnd 1; OEnd 0 ].

Definition ex_order : footer -> footer := @rev _.
Lemma ex_order_perm f : Permutation (ex_order f) f.
Proof. symmetry. apply Permutation_rev. Qed.

(* the run, evaluated once: final writer state and the result of every call *)
Definition ex_sf : wstate :=
  Eval vm_compute in fst (wrun 48 TS TC TA TE sha256 ex_order w_init (ex_ops ++ [OFinalize])).
Definition ex_rs : list (res N) :=
  Eval vm_compute in snd (wrun 48 TS TC TA TE sha256 ex_order w_init (ex_ops ++ [OFinalize])).
Definition ex_out : bytes := Eval vm_compute in w_out ex_sf.
Definition ex_S := Throttled ex_out.
Definition ex_s0 : st ex_S := (0, [1; 3; 2]).
Definition ex_R : st ex_S -> N -> Prop := fun s p => fst s = p /\ p <= len ex_out.

Lemma ex_hyp_run : wrun 48 TS TC TA TE sha256 ex_order w_init (ex_ops ++ [OFinalize]) = (ex_sf, ex_rs).
Proof. vm_compute. reflexivity. Qed.
Lemma ex_hyp_ok : Forall (fun r => is_ok r = true) ex_rs.
Proof. repeat constructor. Qed.
Lemma ex_hyp_utf8 : forallb op_utf8 ex_ops = true.
Proof. vm_compute. reflexivity. Qed.
Lemma ex_hyp_len64 : len (w_out ex_sf) < 2 ^ 64.
Proof. vm_compute. reflexivity. Qed.
Lemma ex_hyp_foot32 : len (ser_footer_map (ex_order (w_footer ex_sf))) < 2 ^ 32.
Proof. vm_compute. reflexivity. Qed.
Lemma ex_hyp_refines : Refines ex_S (w_out ex_sf) ex_R.
Proof. exact (throttled_refines ex_out). Qed.
Lemma ex_hyp_R0 : ex_R ex_s0 0.
Proof. split; [reflexivity | vm_compute; discriminate]. Qed.

(* the theorems apply to it *)
Lemma ex_open_applies : exists r, ropen ex_S ex_s0 = Ok r /\ RS ex_order ex_sf ex_S ex_R r.
Proof.
  exact (rt_open 48 TS TC TA TE sha256 ex_order len_sha256 ex_order_perm ex_ops ex_sf ex_rs
           ex_hyp_run ex_hyp_ok ex_hyp_utf8 ex_hyp_len64 ex_hyp_foot32 ex_S ex_R ex_hyp_refines ex_s0 0 ex_hyp_R0).
Qed.

(* what the specification says was written *)
Lemma ex_spec :
  started 0 ex_ops = [([97], 0); ([98], 1); ([99; 195; 169], 2)] /\
  pieces 0 0 ex_ops = [1; 2; 3; 4] /\ pieces 0 1 ex_ops = [7; 8] /\ pieces 0 2 ex_ops = [5; 6].
Proof. vm_compute. auto. Qed.

(* and the evaluated read-back: size, bytes (read with buffer sizes 1,2,3,1,2,3,... over a
   source delivering 1,3,2,2,... bytes at a time), stored hash *)
Definition ex_read (name : bytes) : option (N * res bytes * bool * res (option bytes)) :=
  match ropen ex_S ex_s0 with
  | Ok r =>
    match get_file 48 TS TC TA TE ex_S r name with
    | (r1, Ok (Some (bs, size))) =>
      let '(bs', data) := read_all 48 TS TC TA TE ex_S 0 64 bs (fun i => 1 + N.of_nat i mod 3) 0%nat [] in
      let '(_, h) := get_hash 48 TS TC TA TE ex_S r1 name in
      Some (size, data, match b_mode bs' with BFinish => true | _ => false end, h)
    | _ => None
    end
  | _ => None
  end.
Definition ex_list : option (list bytes) :=
  match ropen ex_S ex_s0 with Ok r => Some (list_files ex_S r) | _ => None end.
Definition ex_absent (name : bytes) : option (res (option N) * res (option bytes)) :=
  match ropen ex_S ex_s0 with
  | Ok r => Some (match snd (get_file 48 TS TC TA TE ex_S r name) with
                  | Ok (Some (_, sz)) => Ok (Some sz) | Ok None => Ok None | Err e => Err e | Crash c => Crash c end,
                  snd (get_hash 48 TS TC TA TE ex_S r name))
  | _ => None
  end.

Lemma ex_readback :
  ex_list = Some [[99; 195; 169]; [98]; [97]] /\
  ex_read [97] = Some (4, Ok [1; 2; 3; 4], true, Ok (Some (sha256 [1; 2; 3; 4]))) /\
  ex_read [98] = Some (2, Ok [7; 8], true, Ok (Some (sha256 [7; 8]))) /\
  ex_read [99; 195; 169] = Some (2, Ok [5; 6], true, Ok (Some (sha256 [5; 6]))) /\
  ex_absent [100] = Some (Ok None, Ok None).
Proof. vm_compute. auto 10. Qed.
