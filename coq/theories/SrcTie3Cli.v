(* SrcTie3Cli.v — Tie A, level 1, for the extraction path of `mlar` (work package linearT).
   gen/Src3x.v (tools/src2v3_cli.py) holds get_extracted_path (the WHOLE function), create_file (with the D23 test
   before File::create), FileWriter::write, ExtractFileNameMatcher::match_file_name and the body of `extract`
   (whole-archive form: pre-pass + linear_extract; per-name loop), translated statement by statement from
   /repo/mlar/src/main.rs over the model file system of Path.v and the pool of Pool.v.  This file proves them
   equal to / simulated by Path.get_extracted_path, Path.create_file, Pool.pool_write, Path.create_all +
   Pool.append_blocks_pool (= extract_linear_pool) and CliExtract.extract_listed_loop, and carries the confinement
   theorem of C16 over to the translated `extract`.  The trusted primitive table is in tools/src2v3_cli.py. *)
From MLA Require Import Limit.
From MLA Require Import Base Stream Blocks Reader LinearProofs Path PathDir PathProofs PathLinks PathDirProofs Pool PoolProofs Cli CliProofs
  CliExtract CliExtractProofs CliExtractOut SrcTie3Reader SrcTie3Linear SrcTie3CliCopy.
From MLA Require SrcTie3Block.
From MLAGen Require Src3d Src3l Src3x.
From Coq Require Import Permutation ZifyBool ZifyNat ZifyN.
Open Scope N_scope.

(* ---------- get_extracted_path: the whole function ---------- *)
Lemma get_extracted_path_for1_src name : forall cs acc,
  Src3x.get_extracted_path_for1 name acc cs = apply_actions acc cs.
Proof.
  induction cs as [|c cs IH]; intros acc; cbn [Src3x.get_extracted_path_for1 apply_actions]; [reflexivity|].
  destruct c; cbn [component_action]; try apply IH; reflexivity.
Qed.
Theorem get_extracted_path_src out name : Src3x.get_extracted_path out name = Path.get_extracted_path out name.
Proof. apply get_extracted_path_for1_src. Qed.

(* ---------- create_file ---------- *)
(* Result<Option<(File, PathBuf)>, MlarError> as the model's outcome; the File is the physical path *)
Definition rep_outcome (o : outcome) : res (option (path * path)) :=
  match o with Created lit cp => Ok (Some (cp, lit)) | Skipped => Ok None | Failed => Err EIo end.

Theorem create_file_sim out name f :
  Src3x.create_file out name f = let '(f', o) := Path.create_file out name f in (f', rep_outcome o).
Proof.
  unfold Src3x.create_file, Path.create_file, create_file_with. rewrite get_extracted_path_src.
  destruct (Path.get_extracted_path out name) as [p|]; [|reflexivity].
  unfold Src3x.path_parent. destruct (split_last p) as [[par c]|]; cbn [option_map fst]; [|reflexivity].
  assert (Htail : forall f1,
    match canonicalize f1 par with
    | Some q => if negb (prefixb out q) then (f1, Ok None)
                else if sys_is_symlink f1 p then (f1, Ok None)
                else match sys_file_create f1 p with Some (f5, file6) => (f5, Ok (Some (file6, p))) | None => (f1, Err EIo) end
    | None => (f1, Err EIo)
    end =
    (let '(f', o) := match canonicalize f1 par with
                     | Some q => if prefixb out q then if sys_is_symlink f1 p then (f1, Skipped)
                                   else match sys_file_create f1 p with Some (f2, cp) => (f2, Created p cp) | None => (f1, Failed) end
                                 else (f1, Skipped)
                     | None => (f1, Failed)
                     end in (f', rep_outcome o))).
  { intros f1. destruct (canonicalize f1 par) as [q|]; [|reflexivity].
    destruct (prefixb out q); cbn [negb]; [|reflexivity].
    destruct (sys_is_symlink f1 p); [reflexivity|].
    destruct (sys_file_create f1 p) as [[f2 cp]|]; reflexivity. }
  unfold prepare_parent, Src3x.sys_exists, Src3x.sys_create_dir_all.
  destruct (sys_ok par); cbn [andb negb]; [|reflexivity].
  destruct (exists_ f par); cbn [negb]; [apply Htail|].
  destruct (create_dir_all f par) as [f1 [|]]; [apply Htail|reflexivity].
Qed.

(* ---------- FileWriter::write = Pool.pool_write RAppend ---------- *)
Lemma pool_find_none_remove pl p : pool_find pl p = None -> pool_remove pl p = pl.
Proof.
  induction pl as [|[k h] pl IH]; cbn [pool_find pool_remove]; [reflexivity|].
  destruct (path_eqb k p); [discriminate|]. intros H. now rewrite IH.
Qed.
Lemma pool_find_none_removelast pl p : pool_find pl p = None -> pool_find (removelast pl) p = None.
Proof.
  induction pl as [|[k h] pl IH]; [reflexivity|]. cbn [pool_find]. destruct (path_eqb k p) eqn:E; [discriminate|].
  intros H. destruct pl as [|e pl']; [reflexivity|]. change (removelast ((k, h) :: e :: pl')) with ((k, h) :: removelast (e :: pl')).
  cbn [pool_find]. rewrite E. apply IH. exact H.
Qed.
Lemma pool_find_none_evict cap pl p : pool_find pl p = None -> pool_find (pool_evict cap pl) p = None.
Proof. intros H. unfold pool_evict. destruct (length pl <? cap)%nat; [exact H|]. apply pool_find_none_removelast. exact H. Qed.

Theorem file_writer_write_src site cap w buf f pl :
  Src3x.FileWriter_write site cap w buf f pl =
  match pool_write RAppend cap (Src3x.fw_path w) buf f pl with
  | Some (f1, pl1) => ((f1, pl1), Ok (len buf))
  | None => ((f, pl), Err EIo)
  end.
Proof.
  unfold Src3x.FileWriter_write, pool_write, Src3x.lru_contains. set (p := Src3x.fw_path w).
  destruct (pool_find pl p) as [h|] eqn:Ef; cbn [negb].
  - unfold Src3x.lru_get_mut. rewrite Ef. destruct (handle_write f h buf) as [f1 h1]. reflexivity.
  - destruct (pool_open RAppend f p) as [[f0 h]|]; [|reflexivity].
    unfold Src3x.lru_put, Src3x.lru_contains. rewrite Ef. unfold Src3x.lru_get_mut. cbn [pool_find pool_remove].
    rewrite !path_eqb_refl. cbv iota.
    rewrite (pool_find_none_remove _ _ (pool_find_none_evict cap pl p Ef)).
    destruct (handle_write f0 h buf) as [f1 h1]. reflexivity.
Qed.

(* the pool capacity the cache is made with *)
Lemma pool_capacity_src3x : N.to_nat Src3x.FILE_WRITER_POOL_SIZE = POOL_CAP.
Proof. reflexivity. Qed.

(* ---------- the writers of the whole-archive form = Pool.append_blocks_pool ---------- *)
Definition ex_of (m : Src3x.FwMap) : list (bytes * path) := map (fun e => (fst e, Src3x.fw_path (snd e))) m.
Definition fw_of (verbose : bool) (e : bytes * path) : bytes * Src3x.FileWriter := (fst e, Src3x.mkFW (snd e) verbose (fst e)).
Definition status (b : bool) : res unit := if b then Ok tt else Err EIo.

Lemma ex_of_fw_of verbose ex : ex_of (map (fw_of verbose) ex) = ex.
Proof.
  induction ex as [|[n l] ex IH]; [reflexivity|]. unfold ex_of in *.
  cbn [map fw_of fst snd Src3x.fw_path]. now rewrite IH.
Qed.
Lemma fw_keys_fw_of verbose ex : Src3x.fw_keys (map (fw_of verbose) ex) = map fst ex.
Proof. unfold Src3x.fw_keys. rewrite map_map. reflexivity. Qed.
Lemma find_export_ex_of m n : find_export (ex_of m) n = option_map Src3x.fw_path (Src3x.fw_get m n).
Proof.
  induction m as [|[k v] m IH]; cbn [ex_of map find_export Src3x.fw_get fst snd]; [reflexivity|].
  destruct (bytes_eqb k n); [reflexivity|exact IH].
Qed.

Lemma fw_write_all_sim site cap w : forall bufs f pl,
  Src3x.fw_write_all site cap w bufs f pl =
  let '(f1, pl1, b) := pool_run RAppend cap (map (fun c => (Src3x.fw_path w, c)) bufs) f pl in ((f1, pl1), status b).
Proof.
  induction bufs as [|b bufs IH]; intros f pl; cbn [Src3x.fw_write_all map pool_run]; [reflexivity|].
  rewrite file_writer_write_src. destruct (pool_write RAppend cap (Src3x.fw_path w) b f pl) as [[f1 pl1]|]; [apply IH|reflexivity].
Qed.

Lemma run_writers_sim site cap cut m : forall log f pl,
  Src3x.run_writers site cap cut m log f pl =
  let '(f1, pl1, b) := append_blocks_pool RAppend cap cut (ex_of m) log f pl in ((f1, pl1), status b).
Proof.
  induction log as [|[n d] log IH]; intros f pl; cbn [Src3x.run_writers append_blocks_pool]; [reflexivity|].
  rewrite find_export_ex_of. destruct (Src3x.fw_get m n) as [w|]; cbn [option_map]; [|apply IH].
  rewrite fw_write_all_sim.
  destruct (pool_run RAppend cap (map (fun c => (Src3x.fw_path w, c)) (cut d)) f pl) as [[f1 pl1] [|]]; [apply IH|reflexivity].
Qed.

(* ---------- the pre-pass of the whole-archive form = Path.create_all ---------- *)
Lemma fw_insert_fresh m k v : ~ In k (Src3x.fw_keys m) -> Src3x.fw_insert m k v = m ++ [(k, v)].
Proof.
  intros Hn. unfold Src3x.fw_insert. f_equal.
  induction m as [|[k' v'] m IH]; cbn [filter fst]; [reflexivity|].
  destruct (bytes_eqb k' k) eqn:E.
  - apply bytes_eqb_eq in E. subst. exfalso. apply Hn. left. reflexivity.
  - cbn [negb]. f_equal. apply IH. intros Hin. apply Hn. right. exact Hin.
Qed.

Lemma prepass_sim out verbose : forall names export f,
  NoDup names -> (forall n, In n names -> ~ In n (Src3x.fw_keys export)) ->
  match create_all out names f with
  | (f1, ex, true) => Src3x.extract_for1 out verbose export f names = ((export ++ map (fw_of verbose) ex, f1), Ok tt)
  | (f1, _, false) => exists ex', Src3x.extract_for1 out verbose export f names = ((ex', f1), Err EIo)
  end.
Proof.
  induction names as [|n names IH]; intros export f Hnd Hfresh; cbn [create_all Src3x.extract_for1].
  - now rewrite app_nil_r.
  - inversion Hnd as [|? ? Hn Hnd']; subst. rewrite create_file_sim.
    destruct (Path.create_file out n f) as [f1 [lit cp| |]]; cbn [rep_outcome].
    + rewrite fw_insert_fresh by (apply Hfresh; left; reflexivity).
      specialize (IH (export ++ [(n, Src3x.mkFW lit verbose n)]) f1 Hnd').
      destruct (create_all out names f1) as [[f2 ex] [|]].
      * rewrite IH; [now rewrite <- app_assoc|].
        intros m Hm. unfold Src3x.fw_keys. rewrite map_app. intros Hin. apply in_app_or in Hin. destruct Hin as [Hin|[<-|[]]].
        -- exact (Hfresh m (or_intror Hm) Hin).
        -- exact (Hn Hm).
      * apply IH. intros m Hm. unfold Src3x.fw_keys. rewrite map_app. intros Hin. apply in_app_or in Hin. destruct Hin as [Hin|[<-|[]]].
        -- exact (Hfresh m (or_intror Hm) Hin).
        -- exact (Hn Hm).
    + apply IH; [exact Hnd'|]. intros m Hm. apply Hfresh. right. exact Hm.
    + exists export. reflexivity.
Qed.

(* the names of an archive, as `extract` lists them, are pairwise distinct (HashMap keys, sorted) *)
Lemma dedup_names_nodup_any m : forall seen,
  NoDup (dedup_names m seen) /\ (forall x, In x (dedup_names m seen) -> ~ In x seen).
Proof.
  induction m as [|[k v] m IH]; intros seen; cbn [dedup_names]; [split; [constructor|intros x []]|].
  destruct (existsb (bytes_eqb k) seen) eqn:E; [apply IH|].
  destruct (IH (k :: seen)) as [H1 H2]. split.
  - constructor; [|exact H1]. intros Hin. apply (H2 k Hin). left. reflexivity.
  - intros x [<-|Hin] Hs.
    + assert (existsb (bytes_eqb k) seen = true) by (apply existsb_exists; exists k; split; [exact Hs|apply bytes_eqb_refl]). congruence.
    + apply (H2 x Hin). right. exact Hs.
Qed.
Lemma sorted_names_nodup (S : Stream) (r : rstate S) : NoDup (sort_names (list_files S r)).
Proof.
  apply (Permutation_NoDup (Permutation_sym (sort_names_perm _))). apply (proj1 (dedup_names_nodup_any (r_meta r) [])).
Qed.

Section Tie.
  Context {LIM : Limit}.
  Variable S : Stream.
  Variables FNMAX TS TC TA TE : N.
  Variables site_index site_unwrap : N.
  Variable Pat : Type.
  Variable glob : Pat -> bytes -> bool.
  Variable cut : bytes -> list bytes.
  Variable lfuel : nat.
  Variable io_copy_file : Src3d.BlocksToFileReader S -> Src3d.BlocksToFileReader S * bytes * res unit.

  Notation pb := (parse_block FNMAX TS TC TA TE S).
  Notation g_loop := (Src3l.linear_extract_loop S FNMAX TS TC TA TE).
  Notation g_linear := (Src3l.linear_extract S FNMAX TS TC TA TE).
  Notation m_loop_d := (lx_loop_d FNMAX TS TC TA TE S).
  Notation m_linear_d := (linear_extract_d FNMAX TS TC TA TE S).
  Notation g_for2 := (Src3x.extract_for2 S FNMAX TS TC TA TE site_index Pat glob io_copy_file).
  Notation g_extract := (Src3x.extract_body S FNMAX TS TC TA TE site_index site_unwrap Pat glob sort_names cut lfuel io_copy_file).
  Notation CAP := (N.to_nat Src3x.FILE_WRITER_POOL_SIZE).

  (* ---------- linear_extract with the pieces delivered on EVERY exit = CliExtract.linear_extract_d ---------- *)
  Lemma io_copy_take_d fuel : forall s l acc, Src3l.io_copy_take S fuel s l acc = copy_take_d S fuel s l acc.
  Proof.
    (* the same fixpoint, written twice *)
    intros s l acc. reflexivity.
  Qed.

  Theorem lx_loop_d_sim fuel : forall s export ids acc,
    ids_chosen export ids ->
    g_loop fuel (Src3l.mkExport export acc) s ids =
    let dl := m_loop_d fuel s export ids acc in (Src3l.mkExport export (fst dl), snd dl).
  Proof.
    induction fuel as [|fuel IH]; intros s export ids acc Hids; cbn [Src3l.linear_extract_loop lx_loop_d]; [reflexivity|].
    rewrite (SrcTie3Block.block_from_src S FNMAX TS TC TA TE s).
    destruct (pb s) as [s1 [blk|er|c]]; [|reflexivity|reflexivity].
    destruct blk as [id name|id l|id h|].
    - rewrite hm_contains_key_src. destruct (name_in export name) eqn:En.
      + rewrite hm_insert_src. apply IH. apply ids_chosen_insert; assumption.
      + apply IH. exact Hids.
    - rewrite (io_copy_take_d (Datatypes.S fuel) s1 l []). rewrite hm_get_src.
      destruct (id_lookup ids id) as [fname|] eqn:El.
      + unfold Src3l.export_get_mut. rewrite hm_contains_key_src, (Hids _ _ El).
        destruct (copy_take_d S (Datatypes.S fuel) s1 l []) as [[s2 d] [u|er|c]]; cbn [negb fst snd];
          [|reflexivity|reflexivity].
        unfold Src3l.writer_receive; cbn [Src3l.ex_keys Src3l.ex_log]. apply IH. exact Hids.
      + cbn [negb].
        destruct (copy_take_d S (Datatypes.S fuel) s1 l []) as [[s2 d] [u|er|c]]; cbn [fst snd]; [|reflexivity|reflexivity].
        apply IH. exact Hids.
    - rewrite hm_remove_src. apply IH. apply ids_chosen_remove. exact Hids.
    - reflexivity.
  Qed.

  Theorem linear_extract_d_sim fuel (r : rstate S) export :
    g_linear fuel (rep_r S r) (Src3l.mkExport export []) =
    let dl := m_linear_d fuel r export in (Src3l.mkExport export (fst dl), snd dl).
  Proof.
    unfold Src3l.linear_extract, linear_extract_d, rep_r. cbn [Src3d.ar_src].
    destruct (sk S (r_src r) (FromStart 0)) as [s1 [v|e|c]]; [|reflexivity|reflexivity].
    cbn [Src3d.ar_src Src3d.set_ar_src]. apply lx_loop_d_sim. intros id n Hl; discriminate.
  Qed.

  (* ---------- extract, whole-archive form ---------- *)
  (* For every reader state over every stream, output directory, file system, cut and fuel: the translated
     `extract` (matcher = Anything) IS CliExtract.extract_linear_body — the body of cmd_extract_linear_pool:
     same file system, and it succeeds iff the model says so.  (Until the work package fixcli the model walked
     the archive with ALL sorted names as `export`; the source passes the names create_file accepted, which is
     what extract_linear_body now does: Cli.accepted_names.) *)
  Theorem extract_linear_sim (r : rstate S) out verbose f :
    let g := g_extract (rep_r S r) out (Src3x.Anything Pat) verbose f in
    (fst g, is_ok (snd g)) = extract_linear_body FNMAX TS TC TA TE S CAP cut lfuel r out f.
  Proof.
    cbv zeta. unfold Src3x.extract_body, extract_linear_body, accepted_names. rewrite list_files_sim. cbv iota beta.
    set (names := sort_names (list_files S r)).
    pose proof (prepass_sim out verbose names [] f (sorted_names_nodup S r) (fun n _ H => H)) as Hpre.
    unfold extract_linear_pool. destruct (create_all out names f) as [[f1 ex] [|]]; cbn [fst snd].
    - rewrite Hpre. cbn [app]. rewrite fw_keys_fw_of, linear_extract_d_sim. cbv beta iota zeta.
      rewrite run_writers_sim, ex_of_fw_of. cbn [Src3l.ex_log].
      destruct (append_blocks_pool RAppend CAP cut ex (fst (m_linear_d lfuel r (map fst ex))) f1 []) as [[f2 pl2] [|]];
        cbn [status fst snd andb is_ok]; reflexivity.
    - destruct Hpre as [ex' Hpre]. rewrite Hpre. reflexivity.
  Qed.

  (* the special case in which the pre-pass skips no name: `export` = all the sorted names *)
  Corollary extract_linear_sim_none_skipped (r : rstate S) out verbose f :
    let names := sort_names (list_files S r) in
    map fst (snd (fst (create_all out names f))) = names ->
    let dl := m_linear_d lfuel r names in
    let m := extract_linear_pool RAppend CAP cut out names (fst dl) f in
    let g := g_extract (rep_r S r) out (Src3x.Anything Pat) verbose f in
    fst g = fst m /\ is_ok (snd g) = snd m && is_ok (snd dl).
  Proof.
    cbv zeta. intros H. pose proof (extract_linear_sim r out verbose f) as Hs. cbv zeta in Hs.
    unfold extract_linear_body, accepted_names in Hs. rewrite H in Hs.
    destruct (extract_linear_pool RAppend CAP cut out _ _ f) as [f' b]. cbn [fst snd].
    injection Hs as -> ->. split; reflexivity.
  Qed.

  (* ---------- extract, per-name form ---------- *)
  Section PerName.
    Variables zf fuel : nat.
    (* io::copy out of the ArchiveFile = std's copy loop over the TRANSLATED BlocksToFileReader::read
       (SrcTie3CliCopy.g_copy; its inner fuel is computed from the reader, no premise) *)
    Notation g_copy := (g_copy S FNMAX TS TC TA TE site_index zf fuel).
    Notation g_for2c := (Src3x.extract_for2 S FNMAX TS TC TA TE site_index Pat glob g_copy).
    Notation g_extractc := (Src3x.extract_body S FNMAX TS TC TA TE site_index site_unwrap Pat glob sort_names cut lfuel g_copy).
    Notation m_loop := (extract_listed_loop FNMAX TS TC TA TE S zf fuel).

    (* THE REMAINING PREMISE is CliExtract.copies_fuelled: no copy the model makes along the loop ends with
       "out of fuel" (computable; true of every archive made by `create` when fuel exceeds the longest file:
       CliExtractProofs.copies_fuelled_created). *)
    Notation copies_fuelled := (copies_fuelled FNMAX TS TC TA TE S zf fuel).

    (* No premise on get_file (a panic below it ends both sides: the model propagates it since fixcli), none on
       the copy beyond copies_fuelled. *)
    Theorem extract_selected_sim m verbose out : forall names (r : rstate S) f,
      let sel := filter (Src3x.match_file_name Pat glob m) names in
      copies_fuelled r sel out f = true ->
      let g := g_for2c out m verbose (rep_r S r) f names in
      (snd (fst g), is_ok (snd g)) = m_loop r sel out f.
    Proof.
      induction names as [|n names IH]; intros r f; cbn [Src3x.extract_for2 filter]; [reflexivity|].
      destruct (Src3x.match_file_name Pat glob m n) eqn:Em; cbn [negb]; [|apply IH].
      cbv zeta. cbn [extract_listed_loop CliExtract.copies_fuelled]. rewrite get_file_sim.
      destruct (get_file FNMAX TS TC TA TE S r n) as [r1 [[[bs sz]|]|e|c]]; cbn [rep_file]; [| apply IH | apply IH | reflexivity].
      rewrite create_file_sim. destruct (Path.create_file out n f) as [f1 [lit cp| |]]; cbn [rep_outcome].
      - intros Hfu.
        assert (Hne : snd (io_copy FNMAX TS TC TA TE S zf fuel bs []) <> Err EFuel).
        { destruct (io_copy FNMAX TS TC TA TE S zf fuel bs []) as [[bs' d] [u|[]|c]]; cbn [snd]; discriminate. }
        pose proof (g_copy_sim S FNMAX TS TC TA TE site_index zf fuel bs Hne) as Hc.
        destruct (io_copy FNMAX TS TC TA TE S zf fuel bs []) as [[bs' d] x].
        destruct Hc as (g' & Hc & Hsrc & Hg). rewrite Hc. destruct x as [u|e|c]; cbn [fst snd is_ok]; [|reflexivity|reflexivity].
        rewrite (Hg eq_refl). apply (IH (after_copy r1 bs')). exact Hfu.
      - apply IH.
      - reflexivity.
    Qed.

    Theorem extract_selected_body_sim (r : rstate S) m verbose out f :
      m <> Src3x.Anything Pat ->
      let sel := filter (Src3x.match_file_name Pat glob m) (sort_names (list_files S r)) in
      copies_fuelled r sel out f = true ->
      let g := g_extractc (rep_r S r) out m verbose f in
      (fst g, is_ok (snd g)) = m_loop r sel out f.
    Proof.
      intros Hm. cbv zeta. intros Hfu. unfold Src3x.extract_body. rewrite list_files_sim. cbv iota beta.
      destruct m as [fl|ps|]; [| |congruence].
      - pose proof (extract_selected_sim (Src3x.Files Pat fl) verbose out (sort_names (list_files S r)) r f Hfu) as H. cbv zeta in H.
        destruct (g_for2c out (Src3x.Files Pat fl) verbose (rep_r S r) f (sort_names (list_files S r))) as [[a b] [u|e|c]]; exact H.
      - pose proof (extract_selected_sim (Src3x.GlobPatterns Pat ps) verbose out (sort_names (list_files S r)) r f Hfu) as H. cbv zeta in H.
        destruct (g_for2c out (Src3x.GlobPatterns Pat ps) verbose (rep_r S r) f (sort_names (list_files S r))) as [[a b] [u|e|c]]; exact H.
    Qed.
  End PerName.

  (* ---------- C16 carried over: the translated `extract` is confined ---------- *)
  (* the per-name loop, whatever the copy delivers and however anything ends (no premise) *)
  Lemma extract_for2_confined out m verbose : forall names mla f,
    evolves out f (snd (fst (g_for2 out m verbose mla f names))).
  Proof.
    induction names as [|n names IH]; intros mla f; cbn [Src3x.extract_for2]; [apply evolves_refl|].
    destruct (negb (Src3x.match_file_name Pat glob m n)); [apply IH|].
    destruct (Src3d.get_file S FNMAX TS TC TA TE site_index mla n) as [mla1 [[[[nm data] sz]|]|e|c]];
      [| apply IH | apply IH | apply evolves_refl].
    rewrite create_file_sim. destruct (Path.create_file out n f) as [f1 o] eqn:Hcf.
    destruct (create_file_any_fs _ _ _ _ _ Hcf) as [H1 Hc].
    destruct o as [lit cp| |]; cbn [rep_outcome].
    - assert (Hw : forall d, evolves out f (write_at f1 cp d)).
      { intros d. apply (evolves_trans _ _ _ _ H1). apply write_at_evolves. exact (proj1 (Hc lit cp eq_refl)). }
      destruct (io_copy_file data) as [[data' d] [u|e|c]]; cbn [fst snd]; try apply Hw.
      exact (evolves_trans _ _ _ _ (Hw d) (IH _ _)).
    - exact (evolves_trans _ _ _ _ H1 (IH _ _)).
    - exact H1.
  Qed.

  (* BOTH forms, any reader state over any stream (hostile bytes included), any matcher, any output directory
     and file system with any symbolic links in it: the translated `extract` only lets the file system EVOLVE
     (PathLinks.evolves: no regular file outside the output directory is created or changed, no link
     appears, nothing is removed).  Whole-archive form: by extract_linear_sim and
     PoolProofs.linear_through_pool_confined (C16_linear_through_pool_confined); per-name form: by
     create_file_sim and PathLinks.create_file_any_fs (C16_create_file_any_fs). *)
  Theorem C16_extract_confined_src (r : rstate S) out m verbose f :
    (forall d, concat (cut d) = d) ->
    evolves out f (fst (g_extract (rep_r S r) out m verbose f)).
  Proof.
    intros Hcut. destruct m as [fl|ps|].
    - unfold Src3x.extract_body; rewrite list_files_sim; cbv iota beta.
      pose proof (extract_for2_confined out (Src3x.Files Pat fl) verbose (sort_names (list_files S r)) (rep_r S r) f) as H.
      destruct (g_for2 out (Src3x.Files Pat fl) verbose (rep_r S r) f (sort_names (list_files S r))) as [[a' b'] [u|e|c]]; exact H.
    - unfold Src3x.extract_body; rewrite list_files_sim; cbv iota beta.
      pose proof (extract_for2_confined out (Src3x.GlobPatterns Pat ps) verbose (sort_names (list_files S r)) (rep_r S r) f) as H.
      destruct (g_for2 out (Src3x.GlobPatterns Pat ps) verbose (rep_r S r) f (sort_names (list_files S r))) as [[a' b'] [u|e|c]]; exact H.
    - pose proof (extract_linear_sim r out verbose f) as Hf. cbv zeta in Hf.
      change (fst (g_extract (rep_r S r) out (Src3x.Anything Pat) verbose f))
        with (fst (fst (g_extract (rep_r S r) out (Src3x.Anything Pat) verbose f),
                   is_ok (snd (g_extract (rep_r S r) out (Src3x.Anything Pat) verbose f)))).
      rewrite Hf. apply extract_linear_body_confined. exact Hcut.
  Qed.

  (* ---------- the prologue of `extract`: create_dir of a missing output directory, canonicalize ---------- *)
  (* translated (tools/src2v3_cli.py, Src3x.extract_from_open = statements 5-6 of `extract` with extract_body as
     their continuation) = PathDir.extract_prologue, then the body with the canonical directory *)
  Theorem extract_from_open_src mla o m verbose f :
    Src3x.extract_from_open S FNMAX TS TC TA TE site_index site_unwrap Pat glob sort_names cut lfuel io_copy_file mla o m verbose f =
    match extract_prologue f o with
    | (f1, Some q) => g_extract mla q m verbose f1
    | (f1, None) => (f1, Err EIo)
    end.
  Proof.
    unfold Src3x.extract_from_open, extract_prologue, Src3x.sys_exists.
    destruct (sys_ok o && exists_ f o); cbn [negb].
    - destruct (canonicalize f o); reflexivity.
    - destruct (sys_create_dir f o) as [f1|]; [|reflexivity]. destruct (canonicalize f1 o); reflexivity.
  Qed.

  (* BOTH forms behind the prologue, ANY `-o` argument: confined to the canonical output directory *)
  Theorem C16_extract_from_open_confined_src (r : rstate S) o m verbose f out :
    (forall d, concat (cut d) = d) ->
    (snd (extract_prologue f o) = Some out \/ snd (extract_prologue f o) = None) ->
    evolves out f (fst (Src3x.extract_from_open S FNMAX TS TC TA TE site_index site_unwrap Pat glob sort_names cut lfuel io_copy_file
                          (rep_r S r) o m verbose f)).
  Proof.
    intros Hcut Hout. rewrite extract_from_open_src. pose proof (prologue_evolves out f o) as Hp.
    destruct (extract_prologue f o) as [f1 [q|]]; cbn [fst snd] in *; [|exact Hp].
    destruct Hout as [[= ->]|]; [|discriminate].
    exact (evolves_trans _ _ _ _ Hp (C16_extract_confined_src r out m verbose f1 Hcut)).
  Qed.
End Tie.

(* ---------- from archive BYTES: the two command models of CliExtract.v ARE the translated `extract` ---------- *)
Section FromBytes.
  Variables CHUNK TAG BLOCK LIMIT FNMAX : N.
  Variables TS TC TA TE : N.
  Variable dh : bytes -> bytes -> bytes.
  Variable kdf : bytes -> bytes.
  Variables wdec wtag : bytes -> bytes -> bytes.
  Variable ksf : bytes -> bytes -> N -> N -> N.
  Variable tagf : bytes -> bytes -> N -> bytes -> bytes.
  Variable dec : bytes -> bytes.
  Variables site_index site_unwrap : N.
  Variable Pat : Type.
  Variable glob : Pat -> bytes -> bool.

  Notation stack_of := (Archive.stack_of CHUNK TAG BLOCK ksf tagf dec).
  Notation cli_open := (cli_open CHUNK TAG BLOCK LIMIT dh kdf wdec wtag ksf tagf dec).
  Notation cmd_extract_linear_pool := (cmd_extract_linear_pool CHUNK TAG BLOCK LIMIT FNMAX TS TC TA TE dh kdf wdec wtag ksf tagf dec).
  Notation cmd_extract_selected := (cmd_extract_selected CHUNK TAG BLOCK LIMIT FNMAX TS TC TA TE dh kdf wdec wtag ksf tagf dec).

  (* whole-archive form: once open_mla_file has succeeded, the model command on the bytes IS the translated body of
     `extract` run on the opened reader (any copy function: this form does not use it) — no premise *)
  Theorem cmd_extract_linear_pool_src cut lfuel a privs p (r : rstate (stack_of a p)) io_copy_file out verbose f :
    cli_open a privs = Ok (existT _ p r) ->
    let g := Src3x.extract_body (stack_of a p) FNMAX TS TC TA TE site_index site_unwrap Pat glob sort_names cut lfuel io_copy_file
               (rep_r _ r) out (Src3x.Anything Pat) verbose f in
    cmd_extract_linear_pool (N.to_nat Src3x.FILE_WRITER_POOL_SIZE) cut lfuel a privs out f = (fst g, is_ok (snd g)).
  Proof.
    intros Ho. cbv zeta. unfold CliExtract.cmd_extract_linear_pool. rewrite Ho. symmetry.
    exact (extract_linear_sim (stack_of a p) FNMAX TS TC TA TE site_index site_unwrap Pat glob cut lfuel io_copy_file r out verbose f).
  Qed.

  (* selected-files form (names or glob patterns): the same, under the one remaining premise copies_fuelled *)
  Theorem cmd_extract_selected_src cut lfuel zf fuel a privs p r m out verbose f :
    cli_open a privs = Ok (existT _ p r) -> m <> Src3x.Anything Pat ->
    let sel := Src3x.match_file_name Pat glob m in
    copies_fuelled FNMAX TS TC TA TE (stack_of a p) zf fuel r (filter sel (sort_names (list_files _ r))) out f = true ->
    let g := Src3x.extract_body (stack_of a p) FNMAX TS TC TA TE site_index site_unwrap Pat glob sort_names cut lfuel
               (g_copy (stack_of a p) FNMAX TS TC TA TE site_index zf fuel) (rep_r _ r) out m verbose f in
    cmd_extract_selected sel zf fuel a privs out f = (fst g, is_ok (snd g)).
  Proof.
    intros Ho Hm. cbv zeta. intros Hfu. unfold CliExtract.cmd_extract_selected. rewrite Ho. symmetry.
    exact (extract_selected_body_sim (stack_of a p) FNMAX TS TC TA TE site_index site_unwrap Pat glob cut lfuel zf fuel r m verbose out f Hm Hfu).
  Qed.

  (* the same from the `-o` ARGUMENT: open, prologue, body — the commands of CliExtractOut.v *)
  Theorem cmd_extract_linear_pool_o_src cut lfuel a privs p (r : rstate (stack_of a p)) io_copy_file o verbose f :
    cli_open a privs = Ok (existT _ p r) ->
    let g := Src3x.extract_from_open (stack_of a p) FNMAX TS TC TA TE site_index site_unwrap Pat glob sort_names cut lfuel io_copy_file
               (rep_r _ r) o (Src3x.Anything Pat) verbose f in
    cmd_extract_linear_pool_o CHUNK TAG BLOCK LIMIT FNMAX TS TC TA TE dh kdf wdec wtag ksf tagf dec
      (N.to_nat Src3x.FILE_WRITER_POOL_SIZE) cut lfuel a privs o f = (fst g, is_ok (snd g)).
  Proof.
    intros Ho. cbv zeta. unfold cmd_extract_linear_pool_o, behind_prologue. rewrite Ho, extract_from_open_src.
    destruct (extract_prologue f o) as [f1 [q|]]; [|reflexivity]. symmetry.
    exact (extract_linear_sim (stack_of a p) FNMAX TS TC TA TE site_index site_unwrap Pat glob cut lfuel io_copy_file r q verbose f1).
  Qed.
End FromBytes.
