(* Sink.v — the WRITING side of C13: a destination (std::io::Write) that accepts only part
   of each write, one byte at a time, that reports ErrorKind::Interrupted, that returns
   Ok(0), or that fails; std::io::Write::write_all exactly as std defines it; the position
   layer (mla/src/layers/position.rs), which counts what `write` ACCEPTED.  Definitions only;
   proofs in SinkProofs.v.

   The result types are local: Base.err is not extended. *)
From MLA Require Import Base.
Open Scope N_scope.

(* what one call of Write::write can do *)
Inductive sev :=
| Accept (k : N)   (* accept at most max(1,k) bytes — the test sink clamps 0 to 1 *)
| AcceptZero       (* Ok(0) on a non-empty buffer: what std turns into ErrorKind::WriteZero *)
| Interrupt        (* Err(ErrorKind::Interrupted): write_all retries *)
| Fail.            (* any other io::Error: write_all returns it *)

(* result of Write::write *)
Inductive wres := WOk (n : N) | WInterrupted | WError.
(* result of Write::write_all *)
Inductive wares := WAOk | WAWriteZero | WAErr | WAFuel (* model ran out of fuel: excluded *).

(* anything that implements Write::write *)
Record Wr := { wr_st : Type; wr_write : wr_st -> bytes -> wr_st * wres }.

(* ---------- the throttled destination ---------- *)

(* bytes collected so far; what the next calls will do.  When the finite schedule is used up
   the sink accepts everything (Vec<u8>).  Any terminating run makes finitely many calls, so
   a sink that throttles or interrupts forever (the harness's SharedSink repeats its last
   quota and interrupts every n-th call) behaves on that run as the finite schedule made of
   its first events: the theorems quantify over ALL finite schedules. *)
Record sink := mkSink { sk_data : bytes; sk_sched : list sev }.

Definition sink_write (s : sink) (buf : bytes) : sink * wres :=
  match sk_sched s with
  | [] => (mkSink (sk_data s ++ buf) [], WOk (len buf))
  | Accept k :: r =>
    let n := N.min (N.max 1 k) (len buf) in
    (mkSink (sk_data s ++ takeN n buf) r, WOk n)
  | AcceptZero :: r => (mkSink (sk_data s) r, WOk 0)
  | Interrupt :: r => (mkSink (sk_data s) r, WInterrupted)
  | Fail :: r => (mkSink (sk_data s) r, WError)
  end.

Definition SinkW : Wr := {| wr_st := sink; wr_write := sink_write |}.

(* events a write_all survives *)
Definition good_ev (e : sev) : bool :=
  match e with Accept _ | Interrupt => true | AcceptZero | Fail => false end.

(* ---------- std::io::Write::write_all (library/std/src/io/mod.rs) ----------
     while !buf.is_empty() {
         match self.write(buf) {
             Ok(0) => return Err(WriteZero),
             Ok(n) => buf = &buf[n..],
             Err(ref e) if e.is_interrupted() => {}
             Err(e) => return Err(e),
         } }
     Ok(())
   fuel bounds the number of write calls. *)
Section WriteAll.
  Variable W : Wr.

  Fixpoint write_all (fuel : nat) (s : wr_st W) (buf : bytes) : wr_st W * wares :=
    match buf with
    | [] => (s, WAOk)
    | _ =>
      match fuel with
      | O => (s, WAFuel)
      | S fuel' =>
        match wr_write W s buf with
        | (s', WOk n) => if n =? 0 then (s', WAWriteZero) else write_all fuel' s' (dropN n buf)
        | (s', WInterrupted) => write_all fuel' s' buf
        | (s', WError) => (s', WAErr)
        end
      end
    end.

  (* a sequence of write_all calls; stops at the first one that does not return Ok(()) *)
  Fixpoint write_all_list (fuel : nat) (s : wr_st W) (bs : list bytes) : wr_st W * wares :=
    match bs with
    | [] => (s, WAOk)
    | b :: r =>
      match write_all fuel s b with
      | (s', WAOk) => write_all_list fuel s' r
      | x => x
      end
    end.

  (* ---------- PositionLayerWriter over W (position.rs:50-57) ----------
       let written = self.inner.write(buf)?;  self.pos += written as u64;  Ok(written) *)
  Definition pos_write (s : wr_st W * N) (buf : bytes) : (wr_st W * N) * wres :=
    match wr_write W (fst s) buf with
    | (w', WOk n) => ((w', snd s + n), WOk n)
    | (w', r) => ((w', snd s), r)
    end.
  Definition PosW : Wr := {| wr_st := wr_st W * N; wr_write := pos_write |}.
End WriteAll.

(* ---------- pushing an append-only producer through a sink ---------- *)

(* outs = the successive values of an append-only output (each a prefix of the next); the
   increment between two values is cut into buffers by `split` (any cutting) and each buffer
   goes through write_all *)
Fixpoint push_outs (split : bytes -> list bytes) (fuel : nat) (k : sink) (cur : bytes) (outs : list bytes)
  : sink * wares :=
  match outs with
  | [] => (k, WAOk)
  | o :: r =>
    match write_all_list SinkW fuel k (split (dropN (len cur) o)) with
    | (k', WAOk) => push_outs split fuel k' o r
    | x => x
    end
  end.
