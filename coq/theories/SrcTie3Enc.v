(* SrcTie3Enc.v — Tie A, level 1, for the READING side of the encryption layer (work package encT).
   gen/Src3e.v (tools/src2v3_enc.py) holds EncryptionLayerInternal::{new, load_in_cache,
   load_in_cache_unauthenticated, read_internal, read_internal_unauthenticated, read, seek},
   EncryptionLayerReader::{new, initialize, read, seek} and EncryptionLayerFailSafeReader::{new, read}
   translated statement by statement from /repo/mla/src/layers/encrypt.rs over an abstract inner Stream and
   the abstract cipher ks / tagc.  This file proves them equal to / simulated by the hand-written model
   (EncLayer.v) for EVERY inner stream, state, buffer size, seek argument and fuel >= 2.
   The Rust struct carries a cipher object the model does not have: `abs` forgets it (every load starts by
   replacing it, so no translated function depends on the cipher it finds: the lemmas quantify over it).
   An edit of a guard, of the order of two operations, of a state update or of a match arm changes the
   generated definition and a proof below stops compiling.
   (load_persistent: SrcTie3EncKeys.v; carried C11 / C04 theorems: SrcTie3EncC.v.) *)
From MLA Require Import Base Stream EncLayer.
From MLAGen Require Src3e.
From Coq Require Import ZifyBool ZifyNat ZifyN.
Open Scope N_scope.

Lemma len_zeros n : len (Src3e.zeros n) = n.
Proof. unfold len, Src3e.zeros. rewrite repeat_length. lia. Qed.
Lemma vec_resize_shrink (v : bytes) n x : n <= len v -> Src3e.vec_resize v n x = takeN n v.
Proof.
  intros H. unfold Src3e.vec_resize. replace (N.to_nat (n - len v)) with 0%nat by lia.
  cbn [repeat]. apply app_nil_r.
Qed.

Section Tie.
  Variable S : Stream.
  Variables CHUNK TAG : N.
  Variable ks : N -> N -> N.
  Variable tagc : N -> bytes -> bytes.
  (* the label of the panic site that is unreachable (the model has none there): any label.  The reachable ones carry
     the model's labels: 416 (`CHUNK_SIZE - position`), 419 (`current_chunk_number += 1`), 524
     (`i64::try_from(current).unwrap()` in the Current arm of seek). *)
  Variable site_index : N.

  Notation ELI := (Src3e.EncryptionLayerInternal S).
  Notation FSR := (Src3e.EncryptionLayerFailSafeReader S).
  Notation fuel_rd := (rd_fuel CHUNK TAG).
  Notation g_load := (Src3e.load_in_cache S CHUNK TAG ks tagc fuel_rd 416 site_index).
  Notation g_load_u := (Src3e.load_in_cache_unauthenticated S CHUNK TAG ks fuel_rd).
  Notation g_read_internal := (Src3e.read_internal S CHUNK TAG ks tagc fuel_rd 416 site_index 419).
  Notation g_read_internal_u := (Src3e.read_internal_unauthenticated S CHUNK TAG ks fuel_rd 416 site_index 419).
  Notation g_eli_read := (Src3e.eli_read S CHUNK TAG ks tagc fuel_rd 416 site_index 419).
  Notation g_eli_seek := (Src3e.eli_seek S CHUNK TAG ks tagc fuel_rd 416 site_index 524).
  Notation g_read := (Src3e.elr_read S CHUNK TAG ks tagc fuel_rd 416 site_index 419).
  Notation g_seek := (Src3e.elr_seek S CHUNK TAG ks tagc fuel_rd 416 site_index 524).
  Notation g_fs_read := (Src3e.fs_read S CHUNK TAG ks tagc fuel_rd 416 site_index 419).
  Notation g_fs_new := (Src3e.EncryptionLayerFailSafeReader_new S CHUNK TAG ks fuel_rd).
  Notation m_load := (eload CHUNK TAG ks tagc S).
  Notation m_load_u := (eload_unauth CHUNK TAG ks S).
  Notation m_read := (eread CHUNK TAG ks tagc S).
  Notation m_seek := (eseek CHUNK TAG ks tagc S).
  Notation m_seek_start := (eseek_start CHUNK TAG ks tagc S).

  (* ---------- the model's state of a Rust reader: the cipher object is forgotten ---------- *)
  Definition abs (x : ELI) : estate S :=
    mkE (Src3e.eli_inner S x) (Src3e.eli_cache S x) (Src3e.eli_cache_pos S x) (Src3e.eli_chunk S x).
  Definition absr {A} (p : ELI * res A) : estate S * res A := (abs (fst p), snd p).
  (* a Rust reader for a model state, with any cipher *)
  Definition rep (c : Src3e.AesGcm256) (s : estate S) : ELI :=
    Src3e.mkELI S (e_in s) c (e_cache s) (e_cpos s) (e_chunk s).
  Lemma abs_rep c s : abs (rep c s) = s.
  Proof. destruct s; reflexivity. Qed.

  (* ---------- load_in_cache = eload (whole function, from the source statements) ---------- *)
  Theorem eload_src (x : ELI) : absr (g_load x) = m_load (abs x).
  Proof.
    destruct x as [i c cache cpos k]. unfold Src3e.load_in_cache, eload, absr, abs, CTS.
    cbn [Src3e.eli_inner Src3e.eli_cipher Src3e.eli_cache Src3e.eli_cache_pos Src3e.eli_chunk
         Src3e.set_eli_cipher Src3e.set_eli_chunk_cache Src3e.set_eli_inner e_in e_chunk e_cache e_cpos].
    destruct (read_full S fuel_rd i (CHUNK + TAG)) as [i' [dt|e|cr]]; [|reflexivity|reflexivity].
    cbn [app]. destruct (len dt =? 0); [reflexivity|].
    destruct (N.ltb_spec (len dt) TAG) as [Hlt|Hge]; [reflexivity|].
    rewrite len_zeros.
    replace ((len dt <? len dt - TAG) || negb (TAG =? len dt - (len dt - TAG))) with false by lia.
    rewrite vec_resize_shrink by lia.
    unfold Src3e.AesGcm256_decrypt, Src3e.AesGcm256_new, Src3e.ct_eq.
    cbn [Src3e.gcm_ctr Src3e.gcm_seen app len length N.of_nat
         Src3e.eli_inner Src3e.eli_cipher Src3e.eli_cache Src3e.eli_cache_pos Src3e.eli_chunk
         Src3e.set_eli_cipher Src3e.set_eli_chunk_cache Src3e.set_eli_inner].
    destruct (bytes_eqb _ _); reflexivity.
  Qed.

  (* ---------- load_in_cache_unauthenticated = eload_unauth ---------- *)
  Theorem eload_unauth_src (x : ELI) : absr (g_load_u x) = m_load_u (abs x).
  Proof.
    destruct x as [i c cache cpos k]. unfold Src3e.load_in_cache_unauthenticated, eload_unauth, absr, abs.
    cbn [Src3e.eli_inner Src3e.eli_cipher Src3e.eli_cache Src3e.eli_cache_pos Src3e.eli_chunk
         Src3e.set_eli_cipher Src3e.set_eli_chunk_cache Src3e.set_eli_inner e_in e_chunk e_cache e_cpos].
    destruct (read_full S fuel_rd i CHUNK) as [i' [dt|e|cr]]; [|reflexivity|reflexivity].
    cbn [app]. destruct (len dt =? 0); [reflexivity|].
    destruct (read_full S fuel_rd i' TAG) as [i'' [tg|e|cr]]; reflexivity.
  Qed.

  (* a successful load leaves the cache position at 0 (both loaders) *)
  Lemma eload_ok_cpos s s' : m_load s = (s', Ok true) -> e_cpos s' = 0.
  Proof.
    unfold eload. destruct (read_full _ _ _ _) as [i' [dt|e|c]]; [|intros [= <-]; discriminate..].
    destruct (len dt =? 0); [intros [= <-]; discriminate|].
    destruct (len dt <? TAG); [intros [= <-]; discriminate|].
    destruct (bytes_eqb _ _); intros H; [injection H as <-; reflexivity | discriminate H].
  Qed.
  Lemma eload_unauth_ok_cpos s s' : m_load_u s = (s', Ok true) -> e_cpos s' = 0.
  Proof.
    unfold eload_unauth. destruct (read_full _ _ _ _) as [i' [dt|e|c]]; [|intros [= <-]; discriminate..].
    destruct (len dt =? 0); [intros [= <-]; discriminate|].
    destruct (read_full _ _ _ _) as [i'' [tg|e|c]]; intros H; [injection H as <-; reflexivity | discriminate H..].
  Qed.

  (* ---------- read_internal / read_internal_unauthenticated = eread_gen <loader> ---------- *)
  (* the part after the renewal test: the Cursor read on the chunk cache *)
  Lemma cache_read_sim (x : ELI) c n :
    absr (if n <? N.min c n then (x, Crash site_index)
          else let '(p, r) := cursor_rd (Src3e.eli_cache S x) (Src3e.eli_cache_pos S x) (N.min c n) in
               (Src3e.set_eli_cache_pos S x p, r)) =
    eread_cache S (abs x) c n.
  Proof.
    destruct (N.ltb_spec n (N.min c n)) as [?|_]; [lia|].
    destruct x as [i ci cache cpos k]. reflexivity.
  Qed.

  Ltac read_sim load_src load_cpos gl :=
    intros HC fuel x n; destruct x as [i c cache cpos k];
    remember (Datatypes.S fuel) as f1 eqn:Hf1;
    unfold eread, eread_gen, csub, Src3e.read_internal, Src3e.read_internal_unauthenticated;
    cbn [Src3e.read_internal_loop Src3e.read_internal_unauthenticated_loop];
    cbn [abs Src3e.eli_inner Src3e.eli_cipher Src3e.eli_cache Src3e.eli_cache_pos Src3e.eli_chunk e_cpos e_chunk e_in e_cache];
    destruct (N.ltb_spec CHUNK cpos) as [Hlt|Hge];
    [ destruct (N.leb_spec cpos CHUNK) as [?|_]; [lia|reflexivity] |];
    destruct (N.leb_spec cpos CHUNK) as [_|?]; [|lia];
    destruct (CHUNK - cpos) as [|av] eqn:Hav;
    [ change (0 =? 0) with true; cbv iota;
      destruct (2 ^ 32 <=? k + 1); [reflexivity|];
      unfold Src3e.set_eli_chunk; cbn [Src3e.eli_inner Src3e.eli_cipher Src3e.eli_cache Src3e.eli_cache_pos Src3e.eli_chunk];
      pose proof (load_src (Src3e.mkELI S i c cache cpos (k + 1))) as Hl;
      destruct (gl (Src3e.mkELI S i c cache cpos (k + 1))) as [x3 r];
      unfold absr, abs in Hl; cbn [fst snd Src3e.eli_inner Src3e.eli_cipher Src3e.eli_cache Src3e.eli_cache_pos Src3e.eli_chunk] in Hl;
      rewrite <- Hl;
      destruct r as [[|]|e|cr]; cbn [negb]; try reflexivity;
      (* Some(()): the recursive call finds a fresh cache, position 0 *)
      symmetry in Hl; apply load_cpos in Hl; cbn [e_cpos] in Hl;
      destruct x3 as [i3 c3 cache3 cpos3 k3];
      unfold abs in Hl |- *; cbn [Src3e.eli_inner Src3e.eli_cipher Src3e.eli_cache Src3e.eli_cache_pos Src3e.eli_chunk e_cpos] in Hl |- *;
      subst cpos3; subst f1;
      cbn [Src3e.read_internal_loop Src3e.read_internal_unauthenticated_loop];
      cbn [Src3e.eli_inner Src3e.eli_cipher Src3e.eli_cache Src3e.eli_cache_pos Src3e.eli_chunk];
      destruct (N.ltb_spec CHUNK 0) as [?|_]; [lia|];
      destruct (N.leb_spec 0 CHUNK) as [_|?]; [|lia];
      rewrite N.sub_0_r; destruct CHUNK as [|pc] eqn:HCe; [lia|];
      change (N.pos pc =? 0) with false; cbv iota; rewrite <- HCe;
      apply (cache_read_sim (Src3e.mkELI S i3 c3 cache3 0 k3))
    | change (N.pos av =? 0) with false; cbv iota; apply (cache_read_sim (Src3e.mkELI S i c cache cpos k)) ].

  Theorem enc_read_internal_sim : 0 < CHUNK -> forall fuel (x : ELI) n,
    absr (g_read_internal (Datatypes.S (Datatypes.S fuel)) x n) = m_read (abs x) n.
  Proof. read_sim eload_src eload_ok_cpos constr:(g_load). Qed.

  Theorem enc_read_internal_unauth_sim : 0 < CHUNK -> forall fuel (x : ELI) n,
    absr (g_read_internal_u (Datatypes.S (Datatypes.S fuel)) x n) = eread_gen CHUNK S m_load_u (abs x) n.
  Proof. read_sim eload_unauth_src eload_unauth_ok_cpos constr:(g_load_u). Qed.

  (* Read::read of EncryptionLayerInternal and of EncryptionLayerReader: the model's `rd` of EncReader *)
  Theorem enc_read_sim : 0 < CHUNK -> forall fuel (x : ELI) n,
    absr (g_read (Datatypes.S (Datatypes.S fuel)) x n) = rd (EncReader CHUNK TAG ks tagc S) (abs x) n.
  Proof. intros HC fuel x n. exact (enc_read_internal_sim HC fuel x n). Qed.
  Lemma eli_read_is_read_internal fuel (x : ELI) n : g_eli_read fuel x n = g_read_internal fuel x n.
  Proof. reflexivity. Qed.

  (* ---------- Seek::seek ---------- *)
  (* Since work package fixenc the model has the D20 guard of the Start arm and the i64 range tests of the Current /
     End arms (EncLayer.eseek_start, eseek), so the three arms are EQUAL to the model for every argument: no range
     premise is left.  The only premise is about the constants: CHUNK_TAG_SIZE <= u64::MAX, i.e. the compile-time
     constant `u64::MAX / CHUNK_TAG_SIZE - 1` of the source does not underflow (the translator emits a Crash arm for
     that subtraction; the model has none). *)
  Definition cts_fits : Prop := 1 <= Src3e.U64_MAX / (CHUNK + TAG).
  (* the D20 guard of the Start arm, as translated (= EncLayer.start_in_range) *)
  Definition start_ok (pos : N) : Prop := pos / CHUNK <= Src3e.U64_MAX / (CHUNK + TAG) - 1.

  Lemma notag2tag_src p : Src3e.no_tag_position_to_tag_position CHUNK TAG p = notag2tag CHUNK TAG p.
  Proof. reflexivity. Qed.
  Lemma start_ok_model pos : start_ok pos <-> start_in_range CHUNK TAG pos = true.
  Proof. unfold start_ok, start_in_range, U64MAX, Src3e.U64_MAX, CTS. rewrite Bool.negb_true_iff, N.ltb_ge. reflexivity. Qed.

  (* Start arm: exactly the model's eseek_start, for EVERY position *)
  Theorem enc_seek_start_sim fuel (x : ELI) pos : cts_fits ->
    absr (g_eli_seek (Datatypes.S fuel) x (FromStart pos)) = m_seek_start (abs x) pos.
  Proof.
    unfold cts_fits. intros Hf. destruct x as [i c cache cpos k].
    unfold eseek_start. cbn [Src3e.eli_seek Src3e.eli_seek_loop]. unfold Src3e.CHUNK_TAG_SIZE, U64MAX, CTS.
    destruct (N.ltb_spec (Src3e.U64_MAX / (CHUNK + TAG)) 1) as [?|_]; [lia|].
    change (2 ^ 64 - 1) with Src3e.U64_MAX.
    destruct (Src3e.U64_MAX / (CHUNK + TAG) - 1 <? pos / CHUNK); [reflexivity|].
    rewrite notag2tag_src.
    unfold abs. cbn [Src3e.eli_inner Src3e.eli_cipher Src3e.eli_cache Src3e.eli_cache_pos Src3e.eli_chunk e_cpos e_chunk e_in e_cache].
    destruct (sk S i (FromStart (notag2tag CHUNK TAG pos / (CHUNK + TAG) * (CHUNK + TAG)))) as [i' [p|e|cr]];
      [|reflexivity|reflexivity].
    unfold Src3e.set_eli_inner, Src3e.set_eli_chunk.
    cbn [Src3e.eli_inner Src3e.eli_cipher Src3e.eli_cache Src3e.eli_cache_pos Src3e.eli_chunk].
    destruct (2 ^ 32 <=? notag2tag CHUNK TAG pos / (CHUNK + TAG)); [reflexivity|].
    match goal with |- absr match g_load ?x2 with _ => _ end = _ =>
      pose proof (eload_src x2) as Hl; destruct (g_load x2) as [x3 r] end.
    unfold absr, abs in Hl. cbn [fst snd Src3e.eli_inner Src3e.eli_cipher Src3e.eli_cache Src3e.eli_cache_pos Src3e.eli_chunk] in Hl.
    rewrite <- Hl. destruct x3 as [i3 c3 cache3 cpos3 k3]. destruct r as [b|e|cr]; reflexivity.
  Qed.

  (* Start arm: guard refused (D20 repair) -> InvalidInput and NOTHING is touched — in the source ... *)
  Theorem enc_seek_start_guard fuel (x : ELI) pos : cts_fits -> ~ start_ok pos ->
    g_eli_seek (Datatypes.S fuel) x (FromStart pos) = (x, Err EInval).
  Proof.
    unfold cts_fits, start_ok. intros Hf Hok. cbn [Src3e.eli_seek Src3e.eli_seek_loop]. unfold Src3e.CHUNK_TAG_SIZE.
    destruct (N.ltb_spec (Src3e.U64_MAX / (CHUNK + TAG)) 1) as [?|_]; [lia|].
    destruct (N.ltb_spec (Src3e.U64_MAX / (CHUNK + TAG) - 1) (pos / CHUNK)) as [_|?]; [reflexivity|lia].
  Qed.
  (* ... and in the model *)
  Theorem eseek_start_guard_model (s : estate S) pos : ~ start_ok pos -> m_seek_start s pos = (s, Err EInval).
  Proof.
    unfold start_ok, eseek_start, U64MAX, CTS. intros Hok. change (2 ^ 64 - 1) with Src3e.U64_MAX.
    destruct (N.ltb_spec (Src3e.U64_MAX / (CHUNK + TAG) - 1) (pos / CHUNK)) as [_|?]; [reflexivity|lia].
  Qed.

  (* Current arm (D10 repair: the position is chunk number * CHUNK + cache position; `i64::try_from(current).unwrap()`
     is the model's Crash 524), for EVERY state and offset *)
  Theorem enc_seek_current_sim fuel (x : ELI) d : cts_fits ->
    absr (g_eli_seek (Datatypes.S (Datatypes.S fuel)) x (FromCur d)) = m_seek (abs x) (FromCur d).
  Proof.
    intros Hf. destruct x as [i c cache cpos k].
    unfold abs. unfold eseek. cbn [Src3e.eli_inner Src3e.eli_cipher Src3e.eli_cache Src3e.eli_cache_pos Src3e.eli_chunk e_chunk e_cpos].
    change (g_eli_seek (Datatypes.S (Datatypes.S fuel)) (Src3e.mkELI S i c cache cpos k) (FromCur d))
      with (if (d =? 0)%Z then (Src3e.mkELI S i c cache cpos k, Ok (k * CHUNK + cpos))
            else if 2 ^ 63 <=? k * CHUNK + cpos then (Src3e.mkELI S i c cache cpos k, Crash 524)
            else if (Z.of_N (k * CHUNK + cpos) + d <? 0)%Z then (Src3e.mkELI S i c cache cpos k, Err EInval)
            else g_eli_seek (Datatypes.S fuel) (Src3e.mkELI S i c cache cpos k)
                   (FromStart (Z.to_N (Z.of_N (k * CHUNK + cpos) + d)))).
    destruct (d =? 0)%Z; [reflexivity|].
    destruct (2 ^ 63 <=? k * CHUNK + cpos); [reflexivity|].
    unfold seek_target. destruct (Z.of_N (k * CHUNK + cpos) + d <? 0)%Z; [reflexivity|].
    exact (enc_seek_start_sim fuel (Src3e.mkELI S i c cache cpos k) _ Hf).
  Qed.

  Lemma i64_in_range_model z : Src3e.i64_in_range z = i64_fits z.
  Proof. reflexivity. Qed.

  (* End arm (D9 / D1 repairs: end_pos_of_inner; a partial tag is InvalidData; `i64::try_from(end_pos)` and
     `checked_add` are the model's two InvalidInput tests), for EVERY state and offset *)
  Theorem enc_seek_end_sim fuel (x : ELI) d : cts_fits ->
    absr (g_eli_seek (Datatypes.S (Datatypes.S fuel)) x (FromEnd d)) = m_seek (abs x) (FromEnd d).
  Proof.
    intros Hf. destruct x as [i c cache cpos k]. unfold abs.
    unfold eseek. cbn [Src3e.eli_inner Src3e.eli_cipher Src3e.eli_cache Src3e.eli_cache_pos Src3e.eli_chunk e_chunk e_cpos e_in e_cache].
    remember (Datatypes.S fuel) as f1 eqn:Hf1. unfold Src3e.eli_seek. cbn [Src3e.eli_seek_loop].
    destruct (0 <? d)%Z; [reflexivity|].
    cbn [Src3e.eli_inner].
    destruct (sk S i (FromEnd 0)) as [i' [ei|e|cr]] eqn:Esk; [|reflexivity|reflexivity].
    unfold end_pos_of_inner, CTS. unfold Src3e.CHUNK_TAG_SIZE.
    unfold Src3e.set_eli_inner. cbn [Src3e.eli_inner Src3e.eli_cipher Src3e.eli_cache Src3e.eli_cache_pos Src3e.eli_chunk].
    subst f1. change Src3e.i64_in_range with i64_fits.
    destruct (ei mod (CHUNK + TAG) =? 0).
    - destruct (2 ^ 63 <=? ei / (CHUNK + TAG) * CHUNK); [reflexivity|].
      destruct (negb (i64_fits _)); [reflexivity|].
      unfold seek_target. destruct (_ <? 0)%Z; [reflexivity|].
      exact (enc_seek_start_sim fuel (Src3e.mkELI S i' c cache cpos k) _ Hf).
    - destruct (ei mod (CHUNK + TAG) <? TAG); [reflexivity|].
      destruct (2 ^ 63 <=? ei / (CHUNK + TAG) * CHUNK + (ei mod (CHUNK + TAG) - TAG)); [reflexivity|].
      destruct (negb (i64_fits _)); [reflexivity|].
      unfold seek_target. destruct (_ <? 0)%Z; [reflexivity|].
      exact (enc_seek_start_sim fuel (Src3e.mkELI S i' c cache cpos k) _ Hf).
  Qed.

  (* Seek::seek of EncryptionLayerReader is the EncryptionLayerInternal's *)
  Lemma elr_seek_is_eli_seek fuel (x : ELI) w : g_seek fuel x w = g_eli_seek fuel x w.
  Proof. reflexivity. Qed.

  (* all three arms at once: the translated seek IS the model's seek, for every state and every argument *)
  Theorem enc_seek_sim fuel (x : ELI) w : cts_fits ->
    absr (g_seek (Datatypes.S (Datatypes.S fuel)) x w) = sk (EncReader CHUNK TAG ks tagc S) (abs x) w.
  Proof.
    intros Hf. rewrite elr_seek_is_eli_seek. cbn [EncReader sk]. destruct w as [pos|d|d].
    - apply enc_seek_start_sim; assumption.
    - apply enc_seek_current_sim; assumption.
    - apply enc_seek_end_sim; assumption.
  Qed.

  (* ---------- the fail-safe reader ---------- *)
  Definition abs_fs (l : FSR) : estate S := abs (Src3e.fs_internal S l).
  Definition unauth_of (m : Src3e.FailSafeReaderDecryptionMode) : bool :=
    match m with Src3e.OnlyAuthenticatedData => false | Src3e.DataEvenUnauthenticated => true end.

  (* new: chunk 0 is loaded by load_in_cache_unauthenticated in BOTH modes (open finding D2, translated literally) *)
  Theorem enc_fs_open_src i0 mode :
    match g_fs_new i0 (Some tt) mode with
    | Ok l => exists b, fs_open CHUNK TAG ks S i0 = (abs_fs l, Ok b) /\ Src3e.fs_mode S l = mode
    | Err e => exists s, fs_open CHUNK TAG ks S i0 = (s, Err e)
    | Crash c => exists s, fs_open CHUNK TAG ks S i0 = (s, Crash c)
    end.
  Proof.
    unfold Src3e.EncryptionLayerFailSafeReader_new, fs_open. cbn [Src3e.EncryptionLayerInternal_new Src3e.fs_internal].
    pose proof (eload_unauth_src (Src3e.mkELI S i0 (Src3e.AesGcm256_new 0) [] 0 0)) as Hl.
    unfold abs in Hl. cbn [Src3e.eli_inner Src3e.eli_cipher Src3e.eli_cache Src3e.eli_cache_pos Src3e.eli_chunk] in Hl. rewrite <- Hl.
    destruct (g_load_u _) as [x' [b|e|cr]]; unfold absr; cbn [fst snd]; eauto.
  Qed.
  Lemma enc_fs_new_needs_key i0 mode : g_fs_new i0 None mode = Err EKey.
  Proof. reflexivity. Qed.

  (* read: the two modes; a wrong tag is the end of the stream only in the authenticated mode *)
  Theorem enc_fs_read_sim : 0 < CHUNK -> forall fuel (l : FSR) n,
    (let '(l', r) := g_fs_read (Datatypes.S (Datatypes.S fuel)) l n in (abs_fs l', Src3e.fs_mode S l', r)) =
    (let '(s', r) := fs_read CHUNK TAG ks tagc S (unauth_of (Src3e.fs_mode S l)) (abs_fs l) n in (s', Src3e.fs_mode S l, r)).
  Proof.
    intros HC fuel [x mode] n. unfold Src3e.fs_read, fs_read, abs_fs. cbn [Src3e.fs_mode Src3e.fs_internal].
    destruct mode; cbn [unauth_of].
    - pose proof (enc_read_internal_sim HC fuel x n) as Hr. fold (eread CHUNK TAG ks tagc S). rewrite <- Hr.
      destruct (g_read_internal _ x n) as [x' [d|e|cr]]; unfold absr; cbn [fst snd Src3e.set_fs_internal Src3e.fs_internal Src3e.fs_mode];
        try reflexivity.
      destruct e; reflexivity.
    - pose proof (enc_read_internal_unauth_sim HC fuel x n) as Hr. rewrite <- Hr.
      destruct (g_read_internal_u _ x n) as [x' r]; reflexivity.
  Qed.

  (* ---------- carried: C03 (D3 cannot return) holds of the TRANSLATED read ---------- *)
  (* after a failed load (empty cache, position inside the chunk) the translated `read` returns Ok(0) and
     changes nothing: it cannot step over the chunk that failed *)
  Theorem failed_load_is_sticky_src : 0 < CHUNK -> forall fuel (x : ELI) n,
    Src3e.eli_cache S x = [] -> Src3e.eli_cache_pos S x < CHUNK ->
    g_read (Datatypes.S fuel) x n = (x, Ok []).
  Proof.
    intros HC fuel [i c cache cpos k] n Hc Hp. cbn [Src3e.eli_cache Src3e.eli_cache_pos] in Hc, Hp. subst cache.
    unfold Src3e.elr_read, Src3e.eli_read. cbn [Src3e.read_internal Src3e.read_internal_loop].
    cbn [Src3e.eli_cache Src3e.eli_cache_pos].
    destruct (N.ltb_spec CHUNK cpos) as [?|_]; [lia|].
    destruct (N.eqb_spec (CHUNK - cpos) 0) as [?|_]; [lia|].
    destruct (N.ltb_spec n (N.min (CHUNK - cpos) n)) as [?|_]; [lia|].
    unfold cursor_rd, sliceN. rewrite dropN_nil, takeN_nil. cbn [len length N.of_nat].
    unfold Src3e.set_eli_cache_pos. cbn [Src3e.eli_inner Src3e.eli_cipher Src3e.eli_cache Src3e.eli_cache_pos Src3e.eli_chunk].
    rewrite N.add_0_r. reflexivity.
  Qed.
  (* ---------- EncryptionLayerReader::new + initialize = enc_open ---------- *)
  Variable inner_init : st S -> st S * res unit.
  Notation g_init := (Src3e.elr_initialize S CHUNK TAG ks tagc fuel_rd inner_init 416 site_index 524).
  Theorem enc_open_src fuel i0 i1 x : cts_fits ->
    Src3e.EncryptionLayerReader_new S i0 (Some tt) = Ok x -> inner_init i0 = (i1, Ok tt) ->
    absr (g_init (Datatypes.S fuel) x) =
    (let '(s, r) := enc_open CHUNK TAG ks tagc S i1 in (s, match r with Ok _ => Ok tt | Err e => Err e | Crash c => Crash c end)).
  Proof.
    intros Hf Hnew Hi. cbn in Hnew. injection Hnew as <-.
    unfold Src3e.elr_initialize. cbn [Src3e.eli_inner]. rewrite Hi. unfold Src3e.set_eli_inner.
    cbn [Src3e.eli_inner Src3e.eli_cipher Src3e.eli_cache Src3e.eli_cache_pos Src3e.eli_chunk].
    pose proof (enc_seek_start_sim fuel (Src3e.mkELI S i1 (Src3e.AesGcm256_new 0) [] 0 0) 0 Hf) as Hs.
    unfold enc_open. unfold abs in Hs. cbn [Src3e.eli_inner Src3e.eli_cipher Src3e.eli_cache Src3e.eli_cache_pos Src3e.eli_chunk] in Hs.
    rewrite <- Hs.
    destruct (g_eli_seek _ _ _) as [x' [p|e|cr]]; reflexivity.
  Qed.
  (* without decryption parameters the reader is not built *)
  Lemma enc_new_needs_key i0 : Src3e.EncryptionLayerReader_new S i0 None = Err EKey.
  Proof. reflexivity. Qed.

End Tie.
