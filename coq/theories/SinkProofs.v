(* SinkProofs.v — C13, writing side: write_all into a destination that accepts only part of
   each write / one byte at a time / reports interruptions leaves exactly the bytes given,
   for every schedule; Ok(0) gives WriteZero and a prefix; a sequence of write_all calls
   leaves the concatenation; an append-only producer pushed through any such sink leaves what
   it leaves in memory; the position layer counts exactly the bytes that reached the sink. *)
From MLA Require Import Base Sink.
From Coq Require Import ZifyBool ZifyNat ZifyN.
Open Scope N_scope.

Lemma write_all_nil W fuel s : write_all W fuel s [] = (s, WAOk).
Proof. destruct fuel; reflexivity. Qed.

Definition good_sched (l : list sev) : Prop := forallb good_ev l = true.

(* ---------- one write ---------- *)

Lemma sink_write_len s buf s' r : sink_write s buf = (s', r) ->
  len (sk_data s') = len (sk_data s) + match r with WOk n => n | _ => 0 end.
Proof.
  unfold sink_write. destruct (sk_sched s) as [|[k| | |] rest]; intros [= <- <-]; cbn [sk_data];
    rewrite ?len_app, ?len_takeN; lia.
Qed.

(* ---------- write_all, every schedule (Fail and Ok(0) included), every fuel ---------- *)

(* whatever happens, the destination holds what it held plus a PREFIX of the buffer, and
   the whole buffer when write_all returned Ok(()) *)
Theorem write_all_any fuel : forall s buf s' r,
  write_all SinkW fuel s buf = (s', r) ->
  exists n, n <= len buf /\ sk_data s' = sk_data s ++ takeN n buf /\ (r = WAOk -> n = len buf).
Proof.
  induction fuel as [|fuel IH]; intros s buf s' r Hw.
  - destruct buf as [|x b]; cbn [write_all] in Hw; injection Hw as <- <-.
    + exists 0. rewrite takeN_0, app_nil_r. repeat split; auto; lia.
    + exists 0. rewrite takeN_0, app_nil_r. repeat split; [lia | discriminate].
  - destruct buf as [|x b].
    { cbn [write_all] in Hw. injection Hw as <- <-.
      exists 0. rewrite takeN_0, app_nil_r. repeat split; auto; lia. }
    set (buf := x :: b) in *.
    assert (Hlb : 1 <= len buf) by (unfold buf; rewrite len_cons; lia).
    change (write_all SinkW (S fuel) s buf) with
      (match sink_write s buf with
       | (s1, WOk n) => if n =? 0 then (s1, WAWriteZero) else write_all SinkW fuel s1 (dropN n buf)
       | (s1, WInterrupted) => write_all SinkW fuel s1 buf
       | (s1, WError) => (s1, WAErr)
       end) in Hw.
    unfold sink_write in Hw. destruct (sk_sched s) as [|[k| | |] rest].
    + (* schedule used up: everything accepted *)
      destruct (N.eqb_spec (len buf) 0) as [?|_]; [lia|].
      rewrite dropN_all, write_all_nil in Hw by lia. injection Hw as <- <-. cbn [sk_data].
      exists (len buf). rewrite takeN_all by lia. repeat split; auto; lia.
    + set (n0 := N.min (N.max 1 k) (len buf)) in *.
      destruct (N.eqb_spec n0 0) as [?|_]; [lia|].
      apply IH in Hw. destruct Hw as (n1 & Hn1 & Hd & Hok). cbn [sk_data] in Hd.
      rewrite len_dropN in Hn1.
      exists (n0 + n1). rewrite takeN_add, app_assoc. repeat split; [lia | exact Hd |].
      intros Hr. specialize (Hok Hr). rewrite len_dropN in Hok. lia.
    + cbn [N.eqb] in Hw. change (0 =? 0) with true in Hw. injection Hw as <- <-. cbn [sk_data].
      exists 0. rewrite takeN_0, app_nil_r. repeat split; [lia | discriminate].
    + apply IH in Hw. exact Hw.
    + injection Hw as <- <-. cbn [sk_data].
      exists 0. rewrite takeN_0, app_nil_r. repeat split; [lia | discriminate].
Qed.

Corollary write_all_prefix fuel s buf s' r :
  write_all SinkW fuel s buf = (s', r) ->
  exists pre, prefix pre buf /\ sk_data s' = sk_data s ++ pre /\ (r = WAOk -> pre = buf).
Proof.
  intros Hw. destruct (write_all_any fuel s buf s' r Hw) as (n & Hn & Hd & Hok).
  exists (takeN n buf). split; [apply prefix_takeN|]. split; [exact Hd|].
  intros Hr. rewrite (Hok Hr). apply takeN_all. lia.
Qed.

(* the real std semantic of Ok(0): after any number of interruptions, a write returning 0 on
   a non-empty buffer makes write_all fail with WriteZero; nothing more was written *)
Theorem write_all_zero n : forall fuel s buf rest,
  buf <> [] -> sk_sched s = repeat Interrupt n ++ AcceptZero :: rest -> (n < fuel)%nat ->
  write_all SinkW fuel s buf = (mkSink (sk_data s) rest, WAWriteZero).
Proof.
  induction n as [|n IH]; intros fuel s buf rest Hb Hs Hf;
    (destruct fuel as [|fuel]; [lia|]); (destruct buf as [|x b]; [congruence|]);
    cbn [write_all SinkW wr_write]; unfold sink_write; rewrite Hs; cbn [repeat app].
  - reflexivity.
  - rewrite (IH fuel (mkSink (sk_data s) (repeat Interrupt n ++ AcceptZero :: rest)) (x :: b) rest);
      [reflexivity | discriminate | reflexivity | lia].
Qed.

(* ---------- write_all, schedules without Fail / Ok(0) ---------- *)

(* any number of interruptions, any accepted sizes (one byte at a time included): with fuel
   >= |buf| + |schedule| + 1 write_all returns Ok(()) and the destination holds data ++ buf *)
Theorem write_all_sched fuel : forall s buf,
  good_sched (sk_sched s) ->
  (N.to_nat (len buf) + length (sk_sched s) < fuel)%nat ->
  exists s', write_all SinkW fuel s buf = (s', WAOk) /\ sk_data s' = sk_data s ++ buf /\
             good_sched (sk_sched s') /\ (length (sk_sched s') <= length (sk_sched s))%nat.
Proof.
  unfold good_sched.
  induction fuel as [|fuel IH]; intros s buf Hg Hf; [lia|].
  destruct buf as [|x b].
  { exists s. cbn [write_all]. rewrite app_nil_r. auto. }
  set (buf := x :: b) in *.
  assert (Hlb : 1 <= len buf) by (unfold buf; rewrite len_cons; lia).
  change (write_all SinkW (S fuel) s buf) with
    (match sink_write s buf with
     | (s1, WOk n) => if n =? 0 then (s1, WAWriteZero) else write_all SinkW fuel s1 (dropN n buf)
     | (s1, WInterrupted) => write_all SinkW fuel s1 buf
     | (s1, WError) => (s1, WAErr)
     end).
  unfold sink_write. destruct (sk_sched s) as [|[k| | |] rest] eqn:Es; cbn [forallb good_ev andb] in Hg;
    try discriminate.
  - destruct (N.eqb_spec (len buf) 0) as [?|_]; [lia|].
    rewrite dropN_all, write_all_nil by lia. eexists. split; [reflexivity|]. cbn [sk_data sk_sched].
    auto.
  - set (n0 := N.min (N.max 1 k) (len buf)) in *.
    destruct (N.eqb_spec n0 0) as [?|_]; [lia|].
    destruct (IH (mkSink (sk_data s ++ takeN n0 buf) rest) (dropN n0 buf)) as (s' & Hw & Hd & Hg' & Hl).
    + exact Hg.
    + cbn [sk_sched length] in *. rewrite len_dropN. lia.
    + exists s'. split; [exact Hw|]. cbn [sk_data sk_sched length] in *.
      rewrite Hd, <- app_assoc, takeN_dropN. repeat split; auto.
  - destruct (IH (mkSink (sk_data s) rest) buf) as (s' & Hw & Hd & Hg' & Hl).
    + exact Hg.
    + cbn [sk_sched length] in *. lia.
    + exists s'. split; [exact Hw|]. cbn [sk_data sk_sched length] in *. repeat split; auto.
Qed.

(* a sequence of write_all calls leaves the concatenation, whatever the schedule *)
Theorem write_all_seq fuel : forall bs s,
  good_sched (sk_sched s) ->
  (N.to_nat (len (concat bs)) + length (sk_sched s) < fuel)%nat ->
  exists s', write_all_list SinkW fuel s bs = (s', WAOk) /\ sk_data s' = sk_data s ++ concat bs /\
             good_sched (sk_sched s') /\ (length (sk_sched s') <= length (sk_sched s))%nat.
Proof.
  induction bs as [|b bs IH]; intros s Hg Hf; cbn [write_all_list concat].
  - exists s. rewrite app_nil_r. auto.
  - cbn [concat] in Hf. rewrite len_app in Hf.
    destruct (write_all_sched fuel s b Hg) as (s1 & Hw & Hd & Hg1 & Hl1); [lia|].
    rewrite Hw. destruct (IH s1 Hg1) as (s2 & Hw2 & Hd2 & Hg2 & Hl2); [lia|].
    exists s2. split; [exact Hw2|]. rewrite Hd2, Hd, app_assoc. repeat split; auto. lia.
Qed.

(* ---------- an append-only producer through a sink ---------- *)

Fixpoint chain (cur : bytes) (outs : list bytes) : Prop :=
  match outs with [] => True | o :: r => prefix cur o /\ chain o r end.

Lemma last_cons_default {A} (o : A) r d : last (o :: r) d = last r o.
Proof.
  revert o d; induction r as [|x r IH]; intros o d; [reflexivity|].
  change (last (o :: x :: r) d) with (last (x :: r) d). rewrite !IH. reflexivity.
Qed.

Lemma chain_last cur outs : chain cur outs -> prefix cur (last outs cur).
Proof.
  revert cur; induction outs as [|o r IH]; intros cur Hc.
  - apply prefix_refl.
  - destruct Hc as [H1 H2]. rewrite last_cons_default.
    apply (prefix_trans _ o); [exact H1 | exact (IH o H2)].
Qed.

Lemma dropN_prefix_chain (a b c : bytes) : prefix a b -> prefix b c ->
  dropN (len a) b ++ dropN (len b) c = dropN (len a) c.
Proof.
  intros [x ->] [y ->]. rewrite dropN_len_app, dropN_len_app, <- app_assoc, dropN_len_app. reflexivity.
Qed.

(* pushing the successive increments, cut in any way, through a throttling / interrupting
   sink leaves exactly what the producer appended *)
Theorem push_outs_spec split fuel : (forall b, concat (split b) = b) ->
  forall outs cur k,
  chain cur outs -> good_sched (sk_sched k) ->
  (N.to_nat (len (last outs cur)) + length (sk_sched k) < fuel)%nat ->
  exists k', push_outs split fuel k cur outs = (k', WAOk) /\
             sk_data k' = sk_data k ++ dropN (len cur) (last outs cur) /\
             good_sched (sk_sched k').
Proof.
  intros Hsplit. induction outs as [|o r IH]; intros cur k Hc Hg Hf.
  - cbn [push_outs last]. exists k. rewrite dropN_all, app_nil_r by lia. auto.
  - destruct Hc as [Hco Hc]. rewrite last_cons_default in Hf |- *.
    pose proof (chain_last o r Hc) as Hol. pose proof (prefix_len _ _ Hol) as Hlen.
    cbn [push_outs].
    destruct (write_all_seq fuel (split (dropN (len cur) o)) k Hg) as (k1 & Hw & Hd & Hg1 & Hl1).
    { rewrite Hsplit, len_dropN. lia. }
    rewrite Hw. destruct (IH o k1 Hc Hg1) as (k2 & Hp & Hd2 & Hg2); [lia|].
    exists k2. split; [exact Hp|]. split; [|exact Hg2].
    rewrite Hd2, Hd, Hsplit, <- app_assoc, dropN_prefix_chain by assumption. reflexivity.
Qed.

(* ---------- the position layer ---------- *)

(* the position layer does not change what reaches the destination nor the result *)
Theorem pos_transparent W fuel : forall w p buf,
  fst (fst (write_all (PosW W) fuel (w, p) buf)) = fst (write_all W fuel w buf) /\
  snd (write_all (PosW W) fuel (w, p) buf) = snd (write_all W fuel w buf).
Proof.
  induction fuel as [|fuel IH]; intros w p buf.
  - destruct buf; cbn [write_all fst snd]; auto.
  - destruct buf as [|x b]; [cbn [write_all fst snd]; auto|].
    cbn [write_all PosW wr_write wr_st]. unfold pos_write. cbn [fst snd].
    destruct (wr_write W w (x :: b)) as [w1 [n| |]]; cbn [fst snd].
    + destruct (n =? 0); [cbn [fst snd]; auto | apply IH].
    + apply IH.
    + auto.
Qed.

(* under EVERY schedule and outcome, the position advanced by exactly the number of bytes
   that reached the destination (so the offsets recorded in the footer are right) *)
Theorem pos_counts fuel : forall (k : sink) (p : N) buf (k' : sink) (p' : N) r,
  write_all (PosW SinkW) fuel (k, p) buf = ((k', p'), r) ->
  p' + len (sk_data k) = p + len (sk_data k').
Proof.
  induction fuel as [|fuel IH]; intros k p buf k' p' r Hw.
  - destruct buf; cbn [write_all] in Hw; injection Hw as <- <- <-; reflexivity.
  - destruct buf as [|x b]; [cbn [write_all] in Hw; injection Hw as <- <- <-; reflexivity|].
    cbn [write_all PosW wr_write wr_st] in Hw. unfold pos_write in Hw. cbn [SinkW wr_write fst snd] in Hw.
    destruct (sink_write k (x :: b)) as [k1 r1] eqn:Es.
    pose proof (sink_write_len _ _ _ _ Es) as Hl.
    destruct r1 as [n| |].
    + destruct (n =? 0).
      * injection Hw as <- <- <-. lia.
      * apply IH in Hw. lia.
    + apply IH in Hw. lia.
    + injection Hw as <- <- <-. lia.
Qed.

Corollary pos_is_length fuel : forall bs (k : sink) (p : N) (k' : sink) (p' : N) r,
  p = len (sk_data k) ->
  write_all_list (PosW SinkW) fuel (k, p) bs = ((k', p'), r) ->
  p' = len (sk_data k').
Proof.
  induction bs as [|b bs IH]; intros k p k' p' r Hs Hw; cbn [write_all_list] in Hw.
  - injection Hw as <- <- _. exact Hs.
  - destruct (write_all (PosW SinkW) fuel (k, p) b) as [[k1 p1] r1] eqn:E1.
    pose proof (pos_counts _ _ _ _ _ _ _ E1) as Hc.
    assert (H1 : p1 = len (sk_data k1)) by lia.
    destruct r1; try (injection Hw as <- <- _; exact H1).
    exact (IH k1 p1 k' p' r H1 Hw).
Qed.
