(* RunC03.v — Tie B entry point of C03: reading history of an encrypted archive body that may
   have been altered (concrete AES-256-GCM).  Same rows as Run.hist_enc, except that a failure
   of the encryption layer's initialisation is reported like any other failure to open
   (the implementation's ArchiveReader::from_config has one error path for both). *)
From MLA Require Import Limit.
From MLAGen Require Src.
(* executable entry points: the production value of BINCODE_MAX_DESERIALIZE (the same in both flavours), file-local *)
#[local] Instance RUN_LIMIT : Limit := MLAGen.Src.BINCODE_MAX_DESERIALIZE_prod.
From MLA Require Import Base Stream Inst Run.
Open Scope N_scope.

Definition c03_enc (k : consts) (key nonce8 body : bytes) (names : list bytes) (ops : list (list N)) : list (list N) :=
  match hist_enc k key nonce8 body names ops with
  | [[1; 1]] => [[1]]
  | [[2; 1]] => [[2]]
  | r => r
  end.
