(* FsCompStream.v — the fail-safe decompression reader (CompFailSafe.v) packaged as a
   read-only Stream, the way ArchiveFailSafeReader stacks it under the repair loop:
   Read::read = CompFailSafe.fs_read (the `loop { read_pass }`, with fuel for its passes);
   the fail-safe layers have no Seek.  Definitions only. *)
From MLA Require Import Base Stream CompFailSafe.
Open Scope N_scope.

Definition FsComp (BLOCK FSBUF : N) (dstate : Type) (dinit : dstate)
    (dstep : dstate -> bytes -> N -> dresult * N * bytes * dstate) (pfuel : nat) (S : Stream) : Stream :=
  {| st := fstate dstate S;
     rd := fs_read BLOCK FSBUF dstate dinit dstep S pfuel;
     sk := fun s _ => (s, Err EInval) |}.
