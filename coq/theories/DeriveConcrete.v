(* DeriveConcrete.v — C19 for the concrete primitives (SHA-512, HKDF-SHA512, the ChaCha20
   generator of rand_chacha 0.9, X25519): the hypotheses of DeriveProofs.Gen are discharged,
   the D18 witnesses are computed, and the outputs of the real `mlar` binary are reproduced. *)
From MLA Require Import Base Keys KeysProofs Derive DeriveProofs.
From MLA.Concrete Require Import HexS Sha512 Hmac Hkdf ChaCha20 X25519.
From Coq Require Import ZifyBool ZifyNat ZifyN.
Open Scope N_scope.

(* ---------- lengths and well-formedness of the primitives ---------- *)

Lemma length_of_len {A} (l : list A) n : len l = N.of_nat n -> length l = n.
Proof. unfold len. lia. Qed.

Lemma length_hkdf_sha512_32 s k p : length (hkdf_sha512 s k p 32) = 32%nat.
Proof. apply length_of_len. now rewrite len_hkdf_sha512 by lia. Qed.

Lemma wf_firstn n (l : bytes) : wf_bytes l -> wf_bytes (firstn n l).
Proof.
  intros H. rewrite <- (firstn_skipn n l) in H. apply Forall_app in H. apply H.
Qed.

Lemma wf_chacha20_core init : wf_bytes (chacha20_core init).
Proof.
  unfold chacha20_core.
  do 16 (destruct init as [|? init]; [apply Forall_nil|]).
  destruct init as [|? init]; [|apply Forall_nil].
  destruct (iter_rounds _ _) as [[[[[[[[[[[[[[[? ?] ?] ?] ?] ?] ?] ?] ?] ?] ?] ?] ?] ?] ?] ?].
  apply Forall_flat_map, Forall_forall. intros w _. apply le_bytes_wf.
Qed.

Lemma wf_chacha20_djb_block key c s : wf_bytes (chacha20_djb_block key c s).
Proof. unfold chacha20_djb_block. destruct (_ =? _); [apply wf_chacha20_core|apply Forall_nil]. Qed.

Lemma wf_chacha20_djb_stream key s : forall n c, wf_bytes (chacha20_djb_stream key s c n).
Proof.
  induction n as [|n IH]; intros c; cbn [chacha20_djb_stream]; [apply Forall_nil|].
  apply Forall_app. split; [apply wf_chacha20_djb_block|apply IH].
Qed.

Lemma wf_rng_fill_c s n : wf_bytes (rng_fill_c s n).
Proof. unfold rng_fill_c, chacha20_rng_bytes, takeN. apply wf_firstn, wf_chacha20_djb_stream. Qed.

Lemma length_le_words32_32 s : length s = 32%nat -> length (le_words32 s) = 8%nat.
Proof.
  intros H. do 33 (destruct s as [|? s]; cbn [length] in H; try discriminate H). reflexivity.
Qed.

Lemma length_rng_fill_c_32 s : length s = 32%nat -> length (rng_fill_c s 32) = 32%nat.
Proof.
  intros H. unfold rng_fill_c, chacha20_rng_bytes.
  change (N.to_nat ((32 + 63) / 64)) with 1%nat. cbn [chacha20_djb_stream].
  rewrite app_nil_r. unfold takeN. rewrite firstn_length.
  unfold chacha20_djb_block.
  assert (len s =? 32 = true) as -> by (unfold len; rewrite H; reflexivity).
  rewrite length_chacha20_core_16; [reflexivity|].
  rewrite !app_length, (length_le_words32_32 s H). reflexivity.
Qed.

Lemma length_x25519_base_c k : length (x25519_base_c k) = 32%nat.
Proof. apply length_x25519. Qed.
Lemma wf_x25519_base_c k : wf_bytes (x25519_base_c k).
Proof.
  unfold x25519_base_c, X25519.x25519_base, x25519.
  destruct (ladder _ _ _ _ _ _ _ _) as [x2 z2]. apply le_bytes_wf.
Qed.

(* "use the first 32 bytes": the first 32 octets of an HKDF-SHA512 output do not depend on
   the requested length (32 <= L <= 255*64) *)
Lemma hkdf_sha512_first32 s k p L : 32 <= L <= 16320 ->
  takeN 32 (hkdf_sha512 s k p L) = hkdf_sha512 s k p 32.
Proof.
  intros HL. unfold hkdf_sha512, hkdf, hkdf_expand.
  set (prk := hkdf_extract hmac_sha512 64 s k).
  change (64 =? 0) with false. cbn [orb].
  assert (255 * 64 <? L = false) as -> by lia.
  change (255 * 64 <? 32) with false. cbn iota.
  change (N.to_nat ((32 + 64 - 1) / 64)) with 1%nat.
  assert (exists m, N.to_nat ((L + 64 - 1) / 64) = S m) as [m ->].
  { assert (1 <= (L + 64 - 1) / 64) by (apply N.div_le_lower_bound; lia).
    exists (pred (N.to_nat ((L + 64 - 1) / 64))). lia. }
  cbn [hkdf_blocks]. rewrite app_nil_r.
  set (t := hmac_sha512 prk ([] ++ p ++ [1])).
  assert (len t = 64) as Ht by (unfold len, t; now rewrite length_hmac_sha512).
  rewrite takeN_takeN. replace (N.min 32 L) with 32 by lia.
  apply takeN_app_le. lia.
Qed.

(* ---------- the theorems of DeriveProofs.Gen, instantiated ---------- *)

Theorem derive_code_eq_doc_c L ps k : 32 <= L <= 16320 ->
  parents_clamped hkdf_sha512 rng_fill_c k ps -> clamp (derive_code_c k ps) = derive_doc_c L k ps.
Proof.
  intros HL. apply derive_code_eq_doc. intros. apply hkdf_sha512_first32, HL.
Qed.

Theorem keygen_pub_matches_priv_c ed_to_mont seed f g : keygen_seed_files_c seed = Ok (f, g) ->
  exists priv, length priv = 32%nat /\ f = export_priv_der priv /\
    parse_openssl_25519_privkey_der sha512 f = Ok priv /\
    parse_openssl_25519_pubkey ed_to_mont g = Ok (X25519.x25519_base (clamp priv)) /\
    clamp priv = keygen_doc_c seed.
Proof.
  intros H.
  destruct (keygen_pub_matches_priv sha512 rng_fill_c x25519_base_c ed_to_mont
              length_sha512 length_rng_fill_c_32 wf_rng_fill_c length_x25519_base_c wf_x25519_base_c
              seed f g H) as (priv & Hl & Hf & A & B & C).
  exists priv. rewrite x25519_base_clamp by exact Hl. auto.
Qed.

Theorem keyderive_pub_matches_priv_c ed_to_mont input ps f g : keyderive_files_c input ps = Ok (f, g) ->
  exists priv, length priv = 32%nat /\ f = export_priv_der priv /\
    parse_openssl_25519_privkey_der sha512 f = Ok priv /\
    parse_openssl_25519_pubkey ed_to_mont g = Ok (X25519.x25519_base (clamp priv)).
Proof.
  intros H.
  destruct (keyderive_pub_matches_priv sha512 hkdf_sha512 rng_fill_c x25519_base_c ed_to_mont
              length_hkdf_sha512_32 length_rng_fill_c_32 wf_rng_fill_c length_x25519_base_c wf_x25519_base_c
              input ps f g H) as (priv & Hl & Hf & A & B).
  exists priv. rewrite x25519_base_clamp by exact Hl. auto.
Qed.

Theorem keyderive_files_ok_c input k ps :
  parse_openssl_25519_privkey sha512 input = Ok k -> ps <> [] ->
  reparse_ok hkdf_sha512 rng_fill_c k ps ->
  keyderive_files_c input ps = Ok (files_of_private x25519_base_c (derive_code_c k ps)).
Proof.
  apply keyderive_files_ok; auto using length_hkdf_sha512_32, length_rng_fill_c_32.
Qed.

(* ---------- D18: the code is NOT the README's algorithm ---------- *)

(* parent: the key written by `mlar keygen --seed ""` (stored octets 73 b0 ... 60: bits 0-1
   of the first octet are set, so the stored octets are not clamped) *)
Definition D18_parent : bytes := Eval vm_compute in keygen_private_c [].
Definition D18_path : bytes := [97].   (* "a" *)

Theorem D18_refuted :
  clampedb D18_parent = false /\
  bytes_eqb (clamp (derive_code_c D18_parent [D18_path])) (derive_doc_c 32 D18_parent [D18_path]) = false.
Proof. apply conj; vm_compute; reflexivity. Qed.

(* a parent stored clamped (the OpenSSL sample /repo/samples/test_x25519.der) agrees on one
   path, and disagrees on two because the intermediate key is not stored clamped *)
Definition sample_x25519_der : bytes :=
  hex_bytes "302e020100300506032b656e042204206826d4f0d61dde68d65d234a55335f9a3f9118d87609dadfa42324053fecec6a".
Definition sample_x25519_private : bytes :=
  hex_bytes "6826d4f0d61dde68d65d234a55335f9a3f9118d87609dadfa42324053fecec6a".
Definition path_app_x : bytes := Eval vm_compute in bytes_of_string "App X".
Definition path_v123 : bytes := Eval vm_compute in bytes_of_string "v1.2.3".

Theorem D18_refuted_two_paths :
  parse_openssl_25519_privkey sha512 sample_x25519_der = Ok sample_x25519_private /\
  clampedb sample_x25519_private = true /\
  bytes_eqb (clamp (derive_code_c sample_x25519_private [path_app_x]))
            (derive_doc_c 32 sample_x25519_private [path_app_x]) = true /\
  clampedb (derive_code_c sample_x25519_private [path_app_x]) = false /\
  bytes_eqb (clamp (derive_code_c sample_x25519_private [path_app_x; path_v123]))
            (derive_doc_c 32 sample_x25519_private [path_app_x; path_v123]) = false.
Proof. repeat apply conj; try exact I; vm_compute; reflexivity. Qed.

(* non-vacuity of derive_code_eq_doc_c: a clamped parent and one path meet its hypothesis *)
Example parents_clamped_sample :
  parents_clamped hkdf_sha512 rng_fill_c sample_x25519_private [path_app_x].
Proof. split; [vm_compute; reflexivity|exact I]. Qed.

(* non-vacuity of keyderive_files_ok_c: the sample parent and two paths meet reparse_ok *)
Example reparse_ok_sample :
  reparse_ok hkdf_sha512 rng_fill_c sample_x25519_private [path_app_x; path_v123].
Proof. repeat apply conj; try exact I; vm_compute; reflexivity. Qed.

(* ---------- outputs of the REAL binary (target/debug/mlar of /repo, this tree) ----------
   $ mlar keygen --seed "" k0 ; mlar keygen --seed "TEST SEED" k1
   $ mlar keyderive samples/test_x25519.der s2 --path="App X" --path="v1.2.3"
   private file = DER, public file = PEM with CRLF line ends; hex of the files below. *)
Ltac kat := match goal with |- _ = ?r => vm_cast_no_check (@eq_refl _ r) end.

Definition pub_pem_of_b64 (b64 : String.string) : bytes :=
  bytes_of_string "-----BEGIN PUBLIC KEY-----" ++ [13; 10] ++ bytes_of_string b64 ++ [13; 10] ++
  bytes_of_string "-----END PUBLIC KEY-----" ++ [13; 10].
Arguments pub_pem_of_b64 b64%string_scope.

Example mlar_keygen_seed_empty :
  keygen_seed_files_c [] =
  Ok (hex_bytes "302e020100300506032b656e0422042073b0442de2a7be14aa07b9af60479ef99a3b2159f1aed4c3ac2b6d40cc192d60",
      pub_pem_of_b64 "MCowBQYDK2VuAyEA2ROOBUi4IA8hZJLIKgmxqr17pt1wxXXGM2aOR+cq2yM=").
Proof. kat. Qed.

Example mlar_keygen_seed_test :
  keygen_seed_files_c (bytes_of_string "TEST SEED") =
  Ok (hex_bytes "302e020100300506032b656e0422042067b2911522d786bd57c9ae9978a46d35455c7f0c58bc73e8179b0de1bd0b688d",
      pub_pem_of_b64 "MCowBQYDK2VuAyEADT4zu/p6lbfLE4r1Uo9FxDsKY7P3prSvEV7Hi33Z4xY=").
Proof. kat. Qed.

Example mlar_keyderive_sample_two_paths :
  keyderive_files_c sample_x25519_der [path_app_x; path_v123] =
  Ok (hex_bytes "302e020100300506032b656e0422042061b25c44d95f4766674159500d8e7d16f1d0f78440b5abf98123b2570f068cfe",
      pub_pem_of_b64 "MCowBQYDK2VuAyEAQtFUgBwE4GAS+fnq7EpbWVivptbX/Z+ADpJIm9GfYBc=").
Proof. kat. Qed.

(* the intermediate key of the run above, as written by
   $ mlar keyderive samples/test_x25519.der s1 --path="App X" *)
Example mlar_keyderive_sample_one_path :
  derive_code_c sample_x25519_private [path_app_x] =
  hex_bytes "7d8596c58247be4adeefb7fc5545afe2bf5b0305d9412c667ce315cdd347ed07".
Proof. kat. Qed.

(* no path: the binary panics (main.rs:873) after creating two empty files; a file that is
   not a key: panic at main.rs:867 *)
Example keyderive_no_path : keyderive_files_c sample_x25519_der [] = Crash SITE_MAIN_873.
Proof. kat. Qed.
Example keyderive_bad_input : keyderive_files_c [1; 2; 3] [path_app_x] = Crash SITE_MAIN_867.
Proof. kat. Qed.
