(* RunC15.v — Tie B entry point of C15 (job c15-dims): the dimensions of the archive writer's
   tables and the measure wmem (MemSize.v) after a call sequence, from the writer MODEL's final
   state.  The harness runs the REAL writer on the same calls with appends thousands of times
   larger (the model is given sizes of 1..3 bytes: by C15_writer_mem_shape_only the dimensions
   depend on the shape of the calls only) and reads the dimensions back from the footer of the
   finished archive with its own parser.
   rows: per call [status; value] as Run.c09_run; then per file, sorted by name,
   [10; |name|; name..; number of offsets]; then [7; files; runs; name bytes; wmem]. *)
From MLA Require Import Limit.
From MLAGen Require Src.
(* executable entry points: the production value of BINCODE_MAX_DESERIALIZE (the same in both flavours), file-local *)
#[local] Instance RUN_LIMIT : Limit := MLAGen.Src.BINCODE_MAX_DESERIALIZE_prod.
From MLA Require Import Base Stream Inst Run Blocks Writer MemSize.
Open Scope N_scope.

Definition c15_file_row (e : bytes * finfo) : list N :=
  [10; len (fst e)] ++ fst e ++ [len (fi_offsets (snd e))].

Definition c15_state_rows (s : wstate) : list (list N) :=
  map c15_file_row (sort_footer (w_footer s)) ++
  [[7; nfiles s; nruns s; names_bytes (w_files s); wmem s]].

Definition c15_dims (k : consts) (calls : list (list N)) : list (list N) :=
  let '(s, rows, crashed) := run_calls k w_init 0 calls in
  if crashed then rows ++ [[8]] else
  if w_final s then rows ++ c15_state_rows s else
  let s1 := fold_left (fun st id => fst (wstep' k st (OEnd id))) (map N.of_nat (seq 0 64)) s in
  match wstep' k s1 OFinalize with
  | (s2, Ok _) => rows ++ c15_state_rows s2
  | (s2, r) => rows ++ [res_row r true] ++ [[8]]
  end.
