(* SrcTie.v — Tie A: what tools/src2v.py regenerated from /repo's working tree (gen/Src.v)
   equals what the model uses.  A source edit to a translated constant or kernel breaks one
   of these lemmas at `make` time. *)
From MLA Require Import Limit.
From MLA Require Import Base Stream EncLayer CompLayer.
From MLAGen Require Src.
From Coq Require Import ZifyBool ZifyNat ZifyN.
Open Scope N_scope.

(* ---- constants fixed by FORMAT.md / the README (production flavour) ---- *)
Lemma chunk_size_prod : Src.CHUNK_SIZE_prod = 128 * 1024. Proof. reflexivity. Qed.
Lemma tag_length_prod : Src.TAG_LENGTH_prod = 16. Proof. reflexivity. Qed.
Lemma tag_length_verif : Src.TAG_LENGTH_verif = 16. Proof. reflexivity. Qed.
Lemma key_size : Src.KEY_SIZE_prod = 32. Proof. reflexivity. Qed.
Lemma nonce_sizes : Src.NONCE_SIZE_prod = 8 /\ Src.NONCE_AES_SIZE_prod = 12. Proof. split; reflexivity. Qed.
Lemma block_size_prod : Src.UNCOMPRESSED_DATA_SIZE_prod = 4 * 1024 * 1024. Proof. reflexivity. Qed.
Lemma magic : Src.MLA_MAGIC = [77; 76; 65]. Proof. reflexivity. Qed.
Lemma version : Src.MLA_FORMAT_VERSION_prod = 1. Proof. reflexivity. Qed.
Lemma block_tags :
  Src.BT_FileStart = 0 /\ Src.BT_FileContent = 1 /\ Src.BT_EndOfArchiveData = 254 /\ Src.BT_EndOfFile = 255.
Proof. repeat split; reflexivity. Qed.
Lemma layer_bits : Src.LAYER_ENCRYPT = 1 /\ Src.LAYER_COMPRESS = 2. Proof. split; reflexivity. Qed.
Lemma filename_max : Src.FILENAME_MAX_SIZE_prod = 65536. Proof. reflexivity. Qed.

(* ---- side conditions of the parametric theorems, for both constant sets ---- *)
Lemma consts_ok_prod :
  0 < Src.CHUNK_SIZE_prod /\ 0 < Src.TAG_LENGTH_prod /\ 0 < Src.CIPHER_BUF_SIZE_prod /\
  Src.CIPHER_BUF_SIZE_prod <= Src.CHUNK_SIZE_prod /\ 0 < Src.UNCOMPRESSED_DATA_SIZE_prod /\
  0 < Src.FAIL_SAFE_BUFFER_SIZE_prod /\ 0 < Src.CACHE_SIZE_prod /\
  Src.UNCOMPRESSED_DATA_SIZE_prod < 2 ^ 32.
Proof. repeat split; vm_compute; try reflexivity; discriminate. Qed.
Lemma consts_ok_verif :
  0 < Src.CHUNK_SIZE_verif /\ 0 < Src.TAG_LENGTH_verif /\ 0 < Src.CIPHER_BUF_SIZE_verif /\
  Src.CIPHER_BUF_SIZE_verif <= Src.CHUNK_SIZE_verif /\ 0 < Src.UNCOMPRESSED_DATA_SIZE_verif /\
  0 < Src.FAIL_SAFE_BUFFER_SIZE_verif /\ 0 < Src.CACHE_SIZE_verif /\
  Src.UNCOMPRESSED_DATA_SIZE_verif < 2 ^ 32.
Proof. repeat split; vm_compute; try reflexivity; discriminate. Qed.

(* ---- kernels ---- *)
Section Kernels.
  Context {LIM : Limit}.
  Variables CHUNK TAG U : N.

  Lemma notag2tag_eq p :
    Src.no_tag_position_to_tag_position CHUNK (CHUNK + TAG) p = Ok (notag2tag CHUNK TAG p).
  Proof. reflexivity. Qed.

  Lemma seek_end_pos_eq e :
    Src.seek_end_pos CHUNK TAG (CHUNK + TAG) e = end_pos_of_inner CHUNK TAG e.
  Proof.
    unfold Src.seek_end_pos, end_pos_of_inner, CTS.
    destruct (_ =? 0); cbn [bind]; [reflexivity|].
    destruct (N.leb_spec TAG (e mod (CHUNK + TAG))); destruct (N.ltb_spec (e mod (CHUNK + TAG)) TAG);
      cbn [bind]; try reflexivity; lia.
  Qed.

  Lemma seek_cur_pos_eq k c : Src.seek_cur_pos CHUNK k c = Ok (k * CHUNK + c).
  Proof. reflexivity. Qed.
End Kernels.

(* ---- compress.rs: SizesInfo and the SeekFrom::End target ---- *)
Lemma vec_get_nthN {A} (l : list A) : forall i, Src.vec_get l i = nthN l i.
Proof. induction l as [|x r IH]; intros i; cbn [Src.vec_get nthN]; [reflexivity|]. now rewrite IH. Qed.

Lemma sizes_info_kernels_eq BLOCK sizes last :
  (forall b, Src.si_uncompressed_block_size_at BLOCK sizes last b = Ok (si_ubs BLOCK (mkSI sizes last) b)) /\
  (forall p, Src.si_compressed_block_size_at BLOCK sizes p = si_cbs BLOCK (mkSI sizes last) p) /\
  Src.si_max_uncompressed_pos BLOCK sizes last = Ok (si_max BLOCK (mkSI sizes last)).
Proof.
  repeat split.
  - intros b. unfold Src.si_uncompressed_block_size_at, si_ubs. cbn [si_sizes si_last].
    destruct (b + 1 <? len sizes); reflexivity.
  - intros p. unfold Src.si_compressed_block_size_at, si_cbs. cbn [si_sizes].
    rewrite vec_get_nthN. destruct (nthN sizes (p / BLOCK)); reflexivity.
Qed.

Lemma comp_seek_end_target_eq e d : Src.comp_seek_end_target e d = end_target e d.
Proof. unfold Src.comp_seek_end_target, end_target. destruct (d <=? e); reflexivity. Qed.

(* ---- mlar get_extracted_path: the component filter (C16) ---- *)
From MLA Require Path.
Definition embed_component (c : Path.component) : Src.src_component :=
  match c with
  | Path.RootDir => Src.SRootDir | Path.CurDir => Src.SCurDir
  | Path.ParentDir => Src.SParentDir | Path.Normal _ => Src.SNormal
  end.
Definition embed_action (a : Path.action) : Src.src_action :=
  match a with Path.Skip => Src.SSkip | Path.Refuse => Src.SRefuse | Path.Push _ => Src.SPush end.
Lemma component_action_eq c :
  Src.component_action (embed_component c) = embed_action (Path.component_action c).
Proof. destruct c; reflexivity. Qed.
