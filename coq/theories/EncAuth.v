(* EncAuth.v — integrity of the encryption-layer readers over ARBITRARY inner bytes (C03/C04).

   Part 1 (this file): total cursor-likeness of the inner stream (`Seekable`: also seeks past
   the end, which the enc reader issues when asked for an out-of-range position), the two
   chunk loaders over arbitrary bytes, and theorem A for the normal reader:

     every byte string returned by `eread` at plaintext position p = e_chunk*CHUNK + e_cpos is
     a slice of `xor_from k 0 ct` for a ciphertext ct taken from a CTS-window of the inner
     bytes whose tag verified UNDER THE COUNTER k = p / CHUNK (`Accepted k ct`),

   for every state reachable from `enc_open` by any reads and seeks (all whences, any
   arguments, failing ones included).  No unforgeability assumption: the corollary concludes
   "original bytes \/ Forgery".

   Part 2 (EncAuthFs.v): the fail-safe reader, both modes. *)
From MLA Require Import Base Stream EncLayer EncLayerProofs.
From Coq Require Import ZifyBool ZifyNat ZifyN.
Open Scope N_scope.

(* ---------- arithmetic helpers (free of the section hypotheses of EncLayerProofs) ---------- *)

Lemma dm_unique b q r : 0 < b -> r < b -> (q * b + r) / b = q /\ (q * b + r) mod b = r.
Proof.
  intros Hb Hr. split.
  - symmetry. apply (N.div_unique _ _ q r); lia.
  - symmetry. apply (N.mod_unique _ _ q r); lia.
Qed.

Lemma dm_spec a b : 0 < b -> a = (a / b) * b + a mod b /\ a mod b < b.
Proof.
  intros Hb. split.
  - rewrite N.mul_comm. apply N.div_mod. lia.
  - apply N.mod_lt. lia.
Qed.

(* ---------- total cursor-likeness ---------- *)

(* Through R (R s p: "state s stands at position p", p possibly beyond the end), S behaves as
   std::io::Cursor over w for what the encryption layer asks of its inner layer: reads
   (short reads allowed, 0 only for n = 0 or at/after the end), seek(Start(q)) for ANY q,
   seek(End(0)). *)
Record Seekable (S : Stream) (w : bytes) (R : st S -> N -> Prop) : Prop := {
  skb_rd : forall s p n, R s p ->
    exists s' k, rd S s n = (s', Ok (sliceN p k w)) /\ k <= n /\ k <= len w - p /\
                 (k = 0 -> n = 0 \/ len w <= p) /\ R s' (p + k);
  skb_start : forall s p q, R s p -> exists s', sk S s (FromStart q) = (s', Ok q) /\ R s' q;
  skb_end : forall s p, R s p -> exists s', sk S s (FromEnd 0) = (s', Ok (len w)) /\ R s' (len w);
}.

Lemma cursor_rd_skb w p n :
  cursor_rd w p n = (p + N.min n (len w - p), Ok (sliceN p (N.min n (len w - p)) w)).
Proof.
  unfold cursor_rd. destruct (N.le_gt_cases p (len w)) as [H|H].
  - replace (N.min p (len w)) with p by lia.
    rewrite len_sliceN. rewrite <- sliceN_clip. reflexivity.
  - replace (N.min p (len w)) with (len w) by lia.
    replace (N.min n (len w - p)) with 0 by lia.
    rewrite (sliceN_past (len w) n w) by lia. rewrite sliceN_0. reflexivity.
Qed.

Lemma cursor_seekable w : Seekable (Cursor w) w (fun s p => s = p).
Proof.
  constructor.
  - intros s p n ->. cbn [Cursor rd st]. rewrite cursor_rd_skb.
    exists (p + N.min n (len w - p)), (N.min n (len w - p)). repeat split; lia.
  - intros s p q _. cbn [Cursor sk st cursor_sk]. exists q. split; reflexivity.
  - intros s p _. cbn [Cursor sk st cursor_sk]. unfold seek_target.
    rewrite Z.add_0_r. destruct (Z.of_N (len w) <? 0)%Z eqn:E; [lia|].
    rewrite N2Z.id. exists (len w). split; reflexivity.
Qed.

Lemma throttled_seekable w : Seekable (Throttled w) w (fun s p => fst s = p).
Proof.
  constructor.
  - intros [pos sched] p n Hs. cbn [fst] in Hs. subst pos.
    cbn [Throttled rd st]. unfold throttled_rd.
    set (ks := match sched with [] => (n, []) | [k] => (N.max 1 k, [k]) | k :: (_ :: _) as r => (N.max 1 k, r) end).
    destruct ks as [k sched'] eqn:Ek.
    assert (Hk : n = 0 \/ 1 <= k).
    { subst ks. destruct sched as [|k0 [|k1 r]]; injection Ek as <- <-; lia. }
    rewrite cursor_rd_skb.
    exists (p + N.min (N.min n k) (len w - p), sched'), (N.min (N.min n k) (len w - p)).
    cbn [fst]. repeat split; lia.
  - intros [pos sched] p q _. cbn [Throttled sk st]. unfold throttled_sk. cbn [cursor_sk].
    exists (q, sched). split; reflexivity.
  - intros [pos sched] p _. cbn [Throttled sk st]. unfold throttled_sk. cbn [cursor_sk]. unfold seek_target.
    rewrite Z.add_0_r. destruct (Z.of_N (len w) <? 0)%Z eqn:E; [lia|].
    rewrite N2Z.id. exists (len w, sched). split; reflexivity.
Qed.

Section ReadFull.
  Variable S : Stream.
  Variable w : bytes.
  Variable R : st S -> N -> Prop.
  Hypothesis HS : Seekable S w R.

  Lemma read_full_aux_skb fuel : forall s p n acc,
    R s p -> (N.to_nat (N.min n (len w - p)) < fuel)%nat ->
    exists s', read_full_aux S fuel s n acc = (s', Ok (acc ++ sliceN p n w)) /\
               R s' (p + N.min n (len w - p)).
  Proof.
    induction fuel as [|fuel IH]; intros s p n acc HRs Hf; [lia|].
    cbn [read_full_aux].
    destruct (N.eqb_spec n 0) as [->|Hn].
    - exists s. rewrite sliceN_0, app_nil_r. split; [reflexivity|].
      replace (p + N.min 0 (len w - p)) with p by lia. exact HRs.
    - destruct (skb_rd _ _ _ HS s p n HRs) as (s' & k & Hrd & Hkn & Hkb & Hz & HR').
      rewrite Hrd.
      assert (Hlen : len (sliceN p k w) = k) by (rewrite len_sliceN; lia).
      rewrite Hlen.
      destruct (N.eqb_spec k 0) as [->|Hk].
      + exists s'. destruct (Hz eq_refl) as [?|Hend]; [lia|].
        rewrite (sliceN_past p n w) by lia. rewrite app_nil_r.
        split; [reflexivity|]. replace (p + N.min n (len w - p)) with (p + 0) by lia. exact HR'.
      + destruct (N.ltb_spec n k) as [?|_]; [lia|].
        destruct (IH s' (p + k) (n - k) (acc ++ sliceN p k w) HR') as (s'' & Heq & HR''); [lia|].
        exists s''. rewrite Heq. split.
        * f_equal. f_equal. rewrite <- app_assoc. f_equal.
          replace n with (k + (n - k)) at 2 by lia. rewrite sliceN_add. reflexivity.
        * replace (p + N.min n (len w - p)) with (p + k + N.min (n - k) (len w - (p + k))) by lia.
          exact HR''.
  Qed.

  Lemma read_full_skb fuel s p n :
    R s p -> (N.to_nat (N.min n (len w - p)) < fuel)%nat ->
    exists s', read_full S fuel s n = (s', Ok (sliceN p n w)) /\ R s' (p + N.min n (len w - p)).
  Proof.
    intros HRs Hf. unfold read_full.
    destruct (read_full_aux_skb fuel s p n [] HRs Hf) as (s' & H1 & H2).
    exists s'. now rewrite H1.
  Qed.
End ReadFull.

(* ---------- the loaders over arbitrary inner bytes ---------- *)

Section EncAuth.
  Variables CHUNK TAG : N.
  Hypothesis HCHUNK : 0 < CHUNK.
  Variable ks : N -> N -> N.
  Variable tagc : N -> bytes -> bytes.
  Variable S : Stream.
  Variable w : bytes.
  Variable R : st S -> N -> Prop.
  Hypothesis HS : Seekable S w R.

  Notation CTS := (CTS CHUNK TAG).
  Notation xor_from := (xor_from ks).
  Notation estate := (estate S).
  Notation eload := (eload CHUNK TAG ks tagc S).
  Notation eload_unauth := (eload_unauth CHUNK TAG ks S).
  Notation eread := (eread CHUNK TAG ks tagc S).
  Notation eread_gen := (eread_gen CHUNK S).
  Notation eread_cache := (eread_cache S).
  Notation eseek_start := (eseek_start CHUNK TAG ks tagc S).
  Notation eseek := (eseek CHUNK TAG ks tagc S).
  Notation enc_open := (enc_open CHUNK TAG ks tagc S).

  (* what load_in_cache makes of the bytes `dt` it read (ciphertext followed by its tag) *)
  Definition ct_of (dt : bytes) : bytes := takeN (len dt - TAG) dt.
  Definition tg_of (dt : bytes) : bytes := dropN (len dt - TAG) dt.
  Definition verifiesb (i : N) (dt : bytes) : bool :=
    negb (len dt =? 0) && negb (len dt <? TAG) && bytes_eqb (tagc i (ct_of dt)) (tg_of dt).

  (* ct was accepted under counter i: some CTS-window of the inner bytes splits as ct ++ tag
     with tag = tagc i ct *)
  Definition Accepted (i : N) (ct : bytes) : Prop :=
    exists off, verifiesb i (sliceN off CTS w) = true /\ ct = ct_of (sliceN off CTS w).

  Lemma len_ct_of dt : len dt <= CTS -> len (ct_of dt) <= CHUNK.
  Proof. intros H. unfold ct_of. rewrite len_takeN. unfold EncLayer.CTS in H. lia. Qed.

  Lemma len_xor_from' i off d : len (xor_from i off d) = len d.
  Proof.
    revert off; induction d as [|x d IH]; intros off; cbn [EncLayer.xor_from]; [reflexivity|].
    rewrite !len_cons, IH. reflexivity.
  Qed.

  Lemma Accepted_len i ct : Accepted i ct -> len ct <= CHUNK.
  Proof.
    intros (off & _ & ->). apply len_ct_of. rewrite len_sliceN. lia.
  Qed.

  Lemma rd_fuel_ok n p : n <= CTS -> (N.to_nat (N.min n (len w - p)) < rd_fuel CHUNK TAG)%nat.
  Proof. intros H. unfold rd_fuel. lia. Qed.

  (* load_in_cache at inner position pin *)
  Lemma eload_skb (s : estate) pin : R (e_in s) pin ->
    let k := e_chunk s in
    let dt := sliceN pin CTS w in
    exists i', R i' (pin + N.min CTS (len w - pin)) /\
      eload s = (mkE i' (if verifiesb k dt then xor_from k 0 (ct_of dt) else []) 0 k,
                 if len dt =? 0 then Ok false else if verifiesb k dt then Ok true else Err EWrongTag).
  Proof.
    intros HR k dt. unfold EncLayer.eload.
    destruct (read_full_skb S w R HS (rd_fuel CHUNK TAG) (e_in s) pin CTS HR (rd_fuel_ok _ _ (N.le_refl _)))
      as (i' & Hrd & HR').
    rewrite Hrd. fold dt. fold k. exists i'. split; [exact HR'|].
    unfold verifiesb.
    destruct (len dt =? 0); cbn [negb andb]; [reflexivity|].
    destruct (len dt <? TAG); cbn [negb andb]; [reflexivity|].
    unfold ct_of, tg_of. destruct (bytes_eqb _ _); reflexivity.
  Qed.

  (* load_in_cache_unauthenticated at inner position pin *)
  Lemma eload_unauth_skb (s : estate) pin : R (e_in s) pin ->
    let k := e_chunk s in
    let dt := sliceN pin CHUNK w in
    exists i', R i' (pin + N.min CTS (len w - pin)) /\
      eload_unauth s = (mkE i' (xor_from k 0 dt) 0 k, if len dt =? 0 then Ok false else Ok true).
  Proof.
    intros HR k dt. unfold EncLayer.eload_unauth.
    destruct (read_full_skb S w R HS (rd_fuel CHUNK TAG) (e_in s) pin CHUNK HR) as (i' & Hrd & HR').
    { apply rd_fuel_ok. unfold EncLayer.CTS. lia. }
    rewrite Hrd. fold dt. fold k.
    destruct (N.eqb_spec (len dt) 0) as [Hz|Hz].
    - exists i'. split.
      + assert (len w <= pin) by (unfold dt in Hz; rewrite len_sliceN in Hz; lia).
        replace (pin + N.min CTS (len w - pin)) with (pin + N.min CHUNK (len w - pin)) by lia. exact HR'.
      + apply len_0_nil in Hz. rewrite Hz. reflexivity.
    - destruct (read_full_skb S w R HS (rd_fuel CHUNK TAG) i' _ TAG HR') as (i'' & Hrd2 & HR'').
      { apply rd_fuel_ok. unfold EncLayer.CTS. lia. }
      rewrite Hrd2. exists i''. split; [|reflexivity].
      replace (pin + N.min CTS (len w - pin))
        with (pin + N.min CHUNK (len w - pin) + N.min TAG (len w - (pin + N.min CHUNK (len w - pin))))
        by (unfold EncLayer.CTS; lia).
      exact HR''.
  Qed.

  (* ---------- theorem A: the normal reader ---------- *)

  (* plaintext position of a reader state *)
  Definition epos (s : estate) : N := e_chunk s * CHUNK + e_cpos s.

  Definition cache_ok (s : estate) : Prop :=
    e_cache s = [] \/ exists ct, Accepted (e_chunk s) ct /\ e_cache s = xor_from (e_chunk s) 0 ct.

  Definition InvA (s : estate) : Prop :=
    (exists pin, R (e_in s) pin) /\ e_cpos s <= CHUNK /\ cache_ok s.

  Lemma cache_ok_len s : cache_ok s -> len (e_cache s) <= CHUNK.
  Proof.
    intros [->|(ct & Ha & ->)]; [rewrite len_nil; lia|]. rewrite len_xor_from'. eapply Accepted_len; eassumption.
  Qed.

  (* eload from any state with a usable inner layer *)
  Lemma eload_inv (s : estate) : (exists pin, R (e_in s) pin) ->
    exists s' r, eload s = (s', r) /\ e_chunk s' = e_chunk s /\ e_cpos s' = 0 /\
      (exists pin, R (e_in s') pin) /\ cache_ok s' /\
      (r = Ok true \/ (e_cache s' = [] /\ (r = Ok false \/ r = Err EWrongTag))).
  Proof.
    intros [pin HR]. destruct (eload_skb s pin HR) as (i' & HR' & ->).
    eexists _, _. split; [reflexivity|]. cbn [e_chunk e_cpos e_in e_cache].
    split; [reflexivity|]. split; [reflexivity|]. split; [eexists; exact HR'|].
    destruct (verifiesb (e_chunk s) (sliceN pin CTS w)) eqn:Ev.
    - split.
      + right. exists (ct_of (sliceN pin CTS w)). split; [|reflexivity]. exists pin. auto.
      + left. unfold verifiesb in Ev. destruct (len (sliceN pin CTS w) =? 0); [discriminate|reflexivity].
    - split; [left; reflexivity|]. right. split; [reflexivity|].
      destruct (len (sliceN pin CTS w) =? 0); auto.
  Qed.

  (* the Cursor read on the cache: what comes out is a slice of the cache at e_cpos *)
  Lemma eread_cache_inv s avail n : InvA s -> avail = CHUNK - e_cpos s -> 0 < avail ->
    exists s' d, eread_cache s avail n = (s', Ok d) /\ InvA s' /\
      e_chunk s' = e_chunk s /\ e_cache s' = e_cache s /\ e_cpos s' = e_cpos s + len d /\
      len d <= n /\
      (d = [] \/ d = sliceN (e_cpos s) (len d) (e_cache s)).
  Proof.
    intros (Hin & Hcp & Hc) Hav Hpos. unfold EncLayer.eread_cache.
    set (d := sliceN (N.min (e_cpos s) (len (e_cache s))) (N.min avail n) (e_cache s)).
    exists (mkE (e_in s) (e_cache s) (e_cpos s + len d) (e_chunk s)), d.
    assert (Hld : len d <= N.min avail n) by (unfold d; rewrite len_sliceN; lia).
    split; [reflexivity|]. cbn [e_in e_cache e_cpos e_chunk].
    split.
    - split; [exact Hin|]. split; [cbn [e_cpos]; lia|]. exact Hc.
    - repeat split; try lia.
      destruct (N.le_gt_cases (len (e_cache s)) (e_cpos s)) as [H|H].
      + left. unfold d. apply sliceN_past. lia.
      + right. unfold d at 1. replace (N.min (e_cpos s) (len (e_cache s))) with (e_cpos s) by lia.
        rewrite sliceN_len_self at 1. unfold d.
        replace (N.min (e_cpos s) (len (e_cache s))) with (e_cpos s) by lia. reflexivity.
  Qed.

  Lemma divmod_pos q r : r < CHUNK -> (q * CHUNK + r) / CHUNK = q /\ (q * CHUNK + r) mod CHUNK = r.
  Proof.
    intros Hr. split.
    - symmetry. apply (N.div_unique _ _ q r); lia.
    - symmetry. apply (N.mod_unique _ _ q r); lia.
  Qed.

  (* what one read returns, and where it leaves the reader *)
  Definition read_post (s : estate) (s' : estate) (r : res bytes) : Prop :=
    match r with
    | Ok d =>
      epos s' = epos s + len d /\
      (d = [] \/ exists ct, Accepted (epos s / CHUNK) ct /\
                  d = sliceN (epos s mod CHUNK) (len d) (xor_from (epos s / CHUNK) 0 ct))
    | Err _ => epos s' = epos s /\ e_cache s' = [] /\ e_cpos s' = 0
    | Crash c => s' = s /\ c = 419 /\ 2 ^ 32 <= e_chunk s + 1
    end.

  Theorem eread_inv s n : InvA s ->
    exists s' r, eread s n = (s', r) /\ InvA s' /\ read_post s s' r.
  Proof.
    intros HI. pose proof HI as (Hin & Hcp & Hc).
    unfold EncLayer.eread, EncLayer.eread_gen, csub.
    destruct (N.leb_spec (e_cpos s) CHUNK) as [_|?]; [|lia].
    destruct (CHUNK - e_cpos s) as [|av] eqn:Hav.
    - (* cache consumed: next chunk *)
      assert (Hfull : e_cpos s = CHUNK) by lia.
      destruct (N.leb_spec (2 ^ 32) (e_chunk s + 1)) as [Hbig|_].
      { eexists _, _. split; [reflexivity|]. split; [exact HI|]. cbn. auto. }
      set (s1 := mkE (e_in s) (e_cache s) (e_cpos s) (e_chunk s + 1)).
      destruct (eload_inv s1 Hin) as (s2 & r & Hl & Hk2 & Hc2 & Hin2 & Hcache2 & Hr).
      rewrite Hl. cbn [s1 e_chunk] in Hk2.
      assert (HI2 : InvA s2) by (split; [exact Hin2|]; split; [lia | exact Hcache2]).
      assert (Hpos2 : epos s2 = epos s) by (unfold epos; rewrite Hk2, Hc2, Hfull; lia).
      destruct Hr as [->|[Hnil [->| ->]]].
      + rewrite Hc2. destruct (N.leb_spec 0 CHUNK) as [_|?]; [|lia].
        rewrite N.sub_0_r. destruct CHUNK as [|ch] eqn:Hch; [lia|]. rewrite <- Hch in *.
        destruct (eread_cache_inv s2 CHUNK n HI2) as (s3 & d & He & HI3 & Hk3 & Hca3 & Hcp3 & Hdn & Hd); [lia..|].
        rewrite He. eexists _, _. split; [reflexivity|]. split; [exact HI3|].
        cbn [read_post]. split.
        * unfold epos in *. rewrite Hk3, Hcp3. lia.
        * destruct Hd as [Hd|Hd]; [left; exact Hd|].
          destruct (divmod_pos (e_chunk s + 1) 0 HCHUNK) as [Hq Hm].
          replace (epos s) with ((e_chunk s + 1) * CHUNK + 0) by (unfold epos; lia).
          rewrite Hq, Hm.
          destruct Hcache2 as [Hn|(ct & Ha & Hx)].
          -- rewrite Hn in Hd. rewrite Hd. left. apply sliceN_past. rewrite len_nil; lia.
          -- right. exists ct. rewrite Hk2 in Ha, Hx. split; [exact Ha|]. rewrite Hd at 1. rewrite Hc2, Hx. reflexivity.
      + eexists _, _. split; [reflexivity|]. split; [exact HI2|].
        cbn [read_post]. rewrite len_nil. split; [lia | left; reflexivity].
      + eexists _, _. split; [reflexivity|]. split; [exact HI2|].
        cbn [read_post]. auto.
    - rewrite <- Hav.
      destruct (eread_cache_inv s (CHUNK - e_cpos s) n HI) as (s3 & d & He & HI3 & Hk3 & Hca3 & Hcp3 & Hdn & Hd); [lia..|].
      rewrite He. eexists _, _. split; [reflexivity|]. split; [exact HI3|].
      cbn [read_post]. split.
      + unfold epos. rewrite Hk3, Hcp3. lia.
      + destruct Hd as [Hd|Hd]; [left; exact Hd|].
        destruct (divmod_pos (e_chunk s) (e_cpos s)) as [Hq Hm]; [lia|].
        unfold epos. rewrite Hq, Hm.
        destruct Hc as [Hn|(ct & Ha & Hx)].
        * rewrite Hn in Hd. rewrite Hd. left. apply sliceN_past. rewrite len_nil; lia.
        * right. exists ct. split; [exact Ha|]. rewrite Hd at 1. rewrite Hx. reflexivity.
  Qed.

  (* a failed load is sticky: the position does not move and no byte comes out until a seek *)
  Theorem eread_empty_cache_sticky s n : e_cache s = [] -> e_cpos s < CHUNK ->
    eread s n = (s, Ok []).
  Proof.
    intros Hn Hc. unfold EncLayer.eread, EncLayer.eread_gen, csub.
    destruct (N.leb_spec (e_cpos s) CHUNK) as [_|?]; [|lia].
    destruct (CHUNK - e_cpos s) as [|av] eqn:Hav; [lia|].
    unfold EncLayer.eread_cache. rewrite Hn. rewrite sliceN_past by (rewrite len_nil; lia).
    cbn [len length N.of_nat]. rewrite N.add_0_r. destruct s; cbn in *. subst. reflexivity.
  Qed.

  (* seeks *)
  Definition seek_post (s' : estate) (r : res N) : Prop :=
    match r with Ok q => epos s' = q | _ => True end.

  Lemma eseek_start_inv s q : InvA s ->
    exists s' r, eseek_start s q = (s', r) /\ InvA s' /\ (r = Ok q \/ exists e, r = Err e) /\ seek_post s' r.
  Proof.
    intros (Hin & Hcp & Hc). destruct Hin as [pin HR]. unfold EncLayer.eseek_start.
    destruct (_ <? q / CHUNK).
    { (* the D20 guard: InvalidInput, nothing touched *)
      eexists _, _. split; [reflexivity|]. split; [split; [eexists; exact HR|split; assumption]|].
      split; [right; eexists; reflexivity | exact I]. }
    destruct (dm_spec q CHUNK HCHUNK) as [Hqd Hr].
    set (k := q / CHUNK) in *. set (r := q mod CHUNK) in *.
    assert (Hnt : notag2tag CHUNK TAG q = k * CTS + r).
    { unfold EncLayer.notag2tag. reflexivity. }
    rewrite Hnt.
    assert (HCTS : r < CTS) by (unfold EncLayer.CTS; lia).
    destruct (dm_unique CTS k r) as [-> ->]; [unfold EncLayer.CTS; lia | exact HCTS |].
    destruct (skb_start _ _ _ HS (e_in s) pin (k * CTS) HR) as (i' & Hsk & HR').
    rewrite Hsk.
    destruct (N.leb_spec (2 ^ 32) k) as [?|_].
    { eexists _, _. split; [reflexivity|]. split.
      - split; [eexists; exact HR'|]. split; assumption.
      - split; [right; eexists; reflexivity | exact I]. }
    destruct (eload_inv (mkE i' (e_cache s) (e_cpos s) k)) as (s2 & rr & Hl & Hk2 & Hc2 & Hin2 & Hcache2 & Hrr).
    { eexists; exact HR'. }
    rewrite Hl. cbn [e_chunk] in Hk2.
    destruct Hrr as [->|[Hnil [->| ->]]].
    - eexists _, _. split; [reflexivity|]. split.
      + split; [exact Hin2|]. split; [cbn [e_cpos]; lia | exact Hcache2].
      + split; [left; reflexivity|]. cbn [seek_post]. unfold epos. cbn [e_chunk e_cpos]. rewrite Hk2. lia.
    - eexists _, _. split; [reflexivity|]. split.
      + split; [exact Hin2|]. split; [cbn [e_cpos]; lia | exact Hcache2].
      + split; [left; reflexivity|]. cbn [seek_post]. unfold epos. cbn [e_chunk e_cpos]. rewrite Hk2. lia.
    - eexists _, _. split; [reflexivity|]. split.
      + split; [exact Hin2|]. split; [lia | exact Hcache2].
      + split; [right; eexists; reflexivity | exact I].
  Qed.

  (* every whence, any argument: the invariant is kept and an Ok result is the new position.  The only panic site
     of `seek` is `i64::try_from(current).unwrap()` in the Current arm (524): position >= 2^63, nothing touched. *)
  Theorem eseek_inv_weak s wh : InvA s ->
    exists s' r, eseek s wh = (s', r) /\ InvA s' /\ seek_post s' r /\
      (forall c, r = Crash c -> c = 524 /\ 2 ^ 63 <= epos s /\ s' = s).
  Proof.
    intros HI. pose proof HI as (Hin & Hcp & Hc).
    assert (Hfin : forall s0 q, InvA s0 ->
      exists s' r, eseek_start s0 q = (s', r) /\ InvA s' /\ seek_post s' r /\
        (forall c, r = Crash c -> c = 524 /\ 2 ^ 63 <= epos s /\ s' = s)).
    { intros s0 q H0. destruct (eseek_start_inv s0 q H0) as (s' & r & He & HI' & Hr & Hp).
      exists s', r. split; [exact He|]. split; [exact HI'|]. split; [exact Hp|].
      intros c Hcr. destruct Hr as [->|[e ->]]; discriminate. }
    unfold EncLayer.eseek. destruct wh as [q|d|d].
    - apply Hfin; exact HI.
    - destruct (d =? 0)%Z.
      + eexists _, _. split; [reflexivity|]. split; [exact HI|]. split; [reflexivity | discriminate].
      + destruct (N.leb_spec (2 ^ 63) (e_chunk s * CHUNK + e_cpos s)) as [Hbig|_].
        { eexists _, _. split; [reflexivity|]. split; [exact HI|]. split; [exact I|].
          intros c [= <-]. auto. }
        unfold seek_target. destruct (Z.of_N (e_chunk s * CHUNK + e_cpos s) + d <? 0)%Z.
        * eexists _, _. split; [reflexivity|]. split; [exact HI|]. split; [exact I | discriminate].
        * apply Hfin; exact HI.
    - destruct (0 <? d)%Z.
      + eexists _, _. split; [reflexivity|]. split; [exact HI|]. split; [exact I | discriminate].
      + destruct Hin as [pin HR].
        destruct (skb_end _ _ _ HS (e_in s) pin HR) as (i' & Hsk & HR'). rewrite Hsk.
        assert (HI1 : InvA (mkE i' (e_cache s) (e_cpos s) (e_chunk s))).
        { split; [eexists; exact HR'|]. split; assumption. }
        destruct (end_pos_of_inner CHUNK TAG (len w)) as [ep|e|c] eqn:Eep.
        * destruct (2 ^ 63 <=? ep).
          { eexists _, _. split; [reflexivity|]. split; [exact HI1|]. split; [exact I | discriminate]. }
          destruct (negb (i64_fits (Z.of_N ep + d))).
          { eexists _, _. split; [reflexivity|]. split; [exact HI1|]. split; [exact I | discriminate]. }
          unfold seek_target. destruct (Z.of_N ep + d <? 0)%Z.
          -- eexists _, _. split; [reflexivity|]. split; [exact HI1|]. split; [exact I | discriminate].
          -- apply Hfin; exact HI1.
        * eexists _, _. split; [reflexivity|]. split; [exact HI1|]. split; [exact I | discriminate].
        * exfalso. unfold end_pos_of_inner in Eep.
          destruct (len w mod CTS =? 0); [discriminate|]. destruct (len w mod CTS <? TAG); discriminate.
  Qed.

  (* no panic: the chunk number is a u32 and CHUNK_SIZE < 2^31, so the position stays below 2^63 *)
  Theorem eseek_inv s wh : CHUNK < 2 ^ 31 -> InvA s -> e_chunk s < 2 ^ 32 ->
    exists s' r, eseek s wh = (s', r) /\ InvA s' /\ (forall c, r <> Crash c) /\ seek_post s' r.
  Proof.
    intros HC31 HI Hk. destruct (eseek_inv_weak s wh HI) as (s' & r & He & HI' & Hp & Hcr).
    exists s', r. split; [exact He|]. split; [exact HI'|]. split; [|exact Hp].
    intros c Hc. destruct (Hcr c Hc) as (_ & Hbig & _). destruct HI as (_ & Hcp & _). unfold epos in Hbig.
    change (2 ^ 63) with (2 ^ 32 * 2 ^ 31) in Hbig. nia.
  Qed.

  (* the chunk number stays a u32 *)
  Lemma eload_chunk s : e_chunk (fst (eload s)) = e_chunk s.
  Proof.
    unfold EncLayer.eload. destruct (read_full _ _ _ _) as [i' [dt|e|c]]; [|reflexivity..].
    destruct (len dt =? 0); [reflexivity|]. destruct (len dt <? TAG); [reflexivity|].
    destruct (bytes_eqb _ _); reflexivity.
  Qed.
  Lemma eseek_start_chunk32 s q : e_chunk s < 2 ^ 32 -> e_chunk (fst (eseek_start s q)) < 2 ^ 32.
  Proof.
    intros Hk. unfold EncLayer.eseek_start. destruct (_ <? q / CHUNK); [exact Hk|].
    destruct (sk S (e_in s) _) as [i' [p|e|c]]; [|exact Hk..].
    destruct (N.leb_spec (2 ^ 32) (notag2tag CHUNK TAG q / CTS)) as [?|Hlt]; [exact Hk|].
    match goal with |- context [eload ?x] => pose proof (eload_chunk x) as Hl; destruct (eload x) as [s2 [b|e|c]] end;
      cbn [fst e_chunk] in Hl |- *; rewrite Hl; exact Hlt.
  Qed.
  Lemma eseek_chunk32 s wh : e_chunk s < 2 ^ 32 -> e_chunk (fst (eseek s wh)) < 2 ^ 32.
  Proof.
    intros Hk. unfold EncLayer.eseek. destruct wh as [q|d|d].
    - apply eseek_start_chunk32; exact Hk.
    - destruct (d =? 0)%Z; [exact Hk|]. destruct (2 ^ 63 <=? _); [exact Hk|].
      destruct (seek_target _ d) as [q|e|c]; [|exact Hk..]. apply eseek_start_chunk32; exact Hk.
    - destruct (0 <? d)%Z; [exact Hk|].
      destruct (sk S (e_in s) (FromEnd 0)) as [i' [ei|e|c]]; [|exact Hk..].
      destruct (end_pos_of_inner CHUNK TAG ei) as [ep|e|c]; [|exact Hk..].
      destruct (2 ^ 63 <=? ep); [exact Hk|]. destruct (negb _); [exact Hk|].
      destruct (seek_target ep d) as [q|e|c]; [|exact Hk..]. apply eseek_start_chunk32; exact Hk.
  Qed.
  Lemma eread_chunk32 s n : e_chunk s < 2 ^ 32 -> e_chunk (fst (eread s n)) < 2 ^ 32.
  Proof.
    intros Hk. unfold EncLayer.eread, EncLayer.eread_gen.
    destruct (csub 416 CHUNK (e_cpos s)) as [[|av]|e|c]; [|exact Hk..].
    destruct (N.leb_spec (2 ^ 32) (e_chunk s + 1)) as [?|Hlt]; [exact Hk|].
    match goal with |- context [eload ?x] => pose proof (eload_chunk x) as Hl; destruct (eload x) as [s2 [[|]|e|c]] end;
      cbn [fst e_chunk] in Hl |- *; try (rewrite Hl; exact Hlt).
    destruct (csub 416 CHUNK (e_cpos s2)) as [[|av]|e|c]; cbn [fst eread_cache EncLayer.eread_cache e_chunk]; rewrite Hl; exact Hlt.
  Qed.

  Theorem enc_open_inv i0 pin : R i0 pin ->
    exists s r, enc_open i0 = (s, r) /\ InvA s /\ (forall c, r <> Crash c).
  Proof.
    intros HR. unfold EncLayer.enc_open.
    destruct (eseek_start_inv (mkE i0 [] 0 0) 0) as (s & r & He & HI & Hr & _).
    { split; [eexists; exact HR|]. split; [cbn; lia | left; reflexivity]. }
    exists s, r. split; [exact He|]. split; [exact HI|]. intros c Hc. destruct Hr as [->|[e ->]]; discriminate.
  Qed.

  (* ---------- reachable states ---------- *)

  Inductive eop := ORead (n : N) | OSeek (wh : whence).
  Definition estep (s : estate) (o : eop) : estate :=
    match o with ORead n => fst (eread s n) | OSeek wh => fst (eseek s wh) end.

  Inductive reach (i0 : st S) : estate -> Prop :=
  | reach_open : reach i0 (fst (enc_open i0))
  | reach_step s o : reach i0 s -> reach i0 (estep s o).

  Theorem reach_inv i0 pin s : R i0 pin -> reach i0 s -> InvA s.
  Proof.
    intros HR Hre. induction Hre as [|s o Hre IH].
    - destruct (enc_open_inv i0 pin HR) as (s & r & He & HI & _). rewrite He. exact HI.
    - destruct o as [n|wh]; cbn [estep].
      + destruct (eread_inv s n IH) as (s' & r & He & HI & _). rewrite He. exact HI.
      + destruct (eseek_inv_weak s wh IH) as (s' & r & He & HI & _). rewrite He. exact HI.
  Qed.

  Theorem reach_chunk32 i0 s : reach i0 s -> e_chunk s < 2 ^ 32.
  Proof.
    intros Hre. induction Hre as [|s o Hre IH].
    - unfold EncLayer.enc_open. apply eseek_start_chunk32. cbn [e_chunk]. lia.
    - destruct o as [n|wh]; cbn [estep]; [apply eread_chunk32 | apply eseek_chunk32]; exact IH.
  Qed.

  (* THEOREM A.  Whatever the inner bytes, in any state reached from enc_open by any reads and
     seeks, a read that returns bytes returns, at plaintext position p = epos s, a slice of the
     decryption of a ciphertext that VERIFIED UNDER THE COUNTER p / CHUNK, and advances the
     position by exactly what it returned; a failing read leaves the position and an empty
     cache (so that nothing is returned until the next seek: eread_empty_cache_sticky). *)
  Theorem enc_read_authentic i0 pin s n : R i0 pin -> reach i0 s ->
    exists s' r, eread s n = (s', r) /\ reach i0 s' /\ read_post s s' r.
  Proof.
    intros HR Hre. pose proof (reach_inv i0 pin s HR Hre) as HI.
    destruct (eread_inv s n HI) as (s' & r & He & _ & Hp).
    exists s', r. split; [exact He|]. split; [|exact Hp].
    replace s' with (estep s (ORead n)) by (cbn [estep]; rewrite He; reflexivity).
    constructor. exact Hre.
  Qed.

  Theorem enc_seek_position i0 pin s wh : CHUNK < 2 ^ 31 -> R i0 pin -> reach i0 s ->
    exists s' r, eseek s wh = (s', r) /\ reach i0 s' /\ (forall c, r <> Crash c) /\ seek_post s' r.
  Proof.
    intros HC31 HR Hre. pose proof (reach_inv i0 pin s HR Hre) as HI.
    destruct (eseek_inv s wh HC31 HI (reach_chunk32 i0 s Hre)) as (s' & r & He & _ & Hc & Hp).
    exists s', r. split; [exact He|]. split; [|split; assumption].
    replace s' with (estep s (OSeek wh)) by (cbn [estep]; rewrite He; reflexivity).
    constructor. exact Hre.
  Qed.

  (* ---------- original bytes or forgery ---------- *)

  Variable plain : bytes.
  (* the ciphertext the writer produced for chunk i of `plain` *)
  Definition orig_ct (i : N) : bytes := xor_from i 0 (sliceN (i * CHUNK) CHUNK plain).
  (* the reader accepted, under counter i, a ciphertext the writer did not produce for chunk i
     — together with a tag equal to tagc i ct (found in the inner bytes) *)
  Definition Forgery : Prop := exists i ct, Accepted i ct /\ ct <> orig_ct i.

  Lemma xor_from_invol i off d : xor_from i off (xor_from i off d) = d.
  Proof.
    revert off; induction d as [|x d IH]; intros off; cbn [EncLayer.xor_from]; [reflexivity|].
    rewrite IH. f_equal. rewrite N.lxor_assoc, N.lxor_nilpotent, N.lxor_0_r. reflexivity.
  Qed.

  Lemma bytes_eq_dec (a b : bytes) : a = b \/ a <> b.
  Proof.
    destruct (bytes_eqb a b) eqn:E.
    - left. apply bytes_eqb_eq. exact E.
    - right. intros H. apply bytes_eqb_eq in H. congruence.
  Qed.

  Lemma accepted_original_or_forgery i ct : Accepted i ct ->
    xor_from i 0 ct = sliceN (i * CHUNK) CHUNK plain \/ Forgery.
  Proof.
    intros Ha. destruct (bytes_eq_dec ct (orig_ct i)) as [->|Hne].
    - left. unfold orig_ct. apply xor_from_invol.
    - right. exists i, ct. auto.
  Qed.

  (* COROLLARY.  Every byte string returned at position p is the original plaintext at p —
     or the inner bytes contain a forgery.  (w is arbitrary: it need not be related to
     enc_format plain at all.) *)
  Theorem enc_read_original_or_forgery i0 pin s n s' d : R i0 pin -> reach i0 s ->
    eread s n = (s', Ok d) ->
    d = sliceN (epos s) (len d) plain \/ Forgery.
  Proof.
    intros HR Hre He.
    destruct (enc_read_authentic i0 pin s n HR Hre) as (s'' & r & He' & _ & Hp).
    rewrite He in He'. injection He' as <- <-. cbn [read_post] in Hp.
    destruct Hp as (_ & [->|(ct & Ha & Hd)]).
    - left. rewrite sliceN_0. reflexivity.
    - destruct (accepted_original_or_forgery _ ct Ha) as [Hx|Hf]; [|right; exact Hf].
      left. rewrite Hx in Hd.
      destruct (dm_spec (epos s) CHUNK HCHUNK) as [Hqd Hr].
      rewrite sliceN_sliceN in Hd by lia.
      rewrite <- Hqd in Hd.
      assert (Hl : len d <= CHUNK - epos s mod CHUNK).
      { rewrite Hd at 1. rewrite len_sliceN. lia. }
      replace (N.min (len d) (CHUNK - epos s mod CHUNK)) with (len d) in Hd by lia.
      exact Hd.
  Qed.
End EncAuth.
