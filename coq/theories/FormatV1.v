(* FormatV1.v — C06: the full round-trip theorems of the FORMAT.md codec at the concrete
   primitives of format v1 (SHA-256, X25519 + HKDF-SHA256, AES-256-GCM) and at the block tags
   translated from the source, plus the instances used as non-vacuity examples by props/C06.v. *)
From MLA Require Import Limit.
From Coq Require Import String.
From MLA Require Import Base Stream Blocks Writer RoundTripBlocks RoundTripWriter EncLayer EncWriter
  InstGcm Format FormatProofs FormatBridge FormatScan FormatContent FormatWriterBridge FormatCipher.
From MLA.Concrete Require Aes Sha256 Hkdf X25519.
From MLAGen Require Src.
From Coq Require Import ZifyBool ZifyNat ZifyN Permutation.
Open Scope N_scope.

Notation sha := Sha256.sha256.
(* what a decoder reports for the files given: name, content, SHA-256 *)
Definition expected (files : list (bytes * bytes)) : list (bytes * bytes * bytes) :=
  map (fun f => (fst f, snd f, sha (snd f))) files.

(* ---------- decoder after canonical encoder, all layers and the content ---------- *)
Theorem content_roundtrip_v1 files : wf_files files ->
  decode_content sha (encode_content sha files) = Ok (expected files).
Proof. exact (format_content_roundtrip sha Sha256.len_sha256 files). Qed.

Theorem decode_encode_v1_enc CHUNK BLOCK unbr files eph rpub rpubs cpriv cands kd nonce8 :
  0 < CHUNK ->
  X25519.x25519 cpriv (X25519.x25519_base eph) = X25519.x25519 eph rpub ->
  length kd = 32%nat -> length nonce8 = 8%nat -> len rpubs < 2 ^ 63 ->
  (len (encode_content sha files) + CHUNK - 1) / CHUNK <= 2 ^ 32 ->
  wf_files files ->
  decode_v1 CHUNK BLOCK unbr (encode_v1 CHUNK files true eph (rpub :: rpubs) kd nonce8) (cpriv :: cands)
  = Ok (expected files).
Proof.
  intros HCH Hdh Hkd H8 Hn Hch Hwf.
  rewrite decode_encode_v1_enc_layers by assumption. exact (content_roundtrip_v1 files Hwf).
Qed.

Theorem decode_encode_v1_plain CHUNK BLOCK unbr files eph rpubs kd nonce8 cands :
  wf_files files ->
  decode_v1 CHUNK BLOCK unbr (encode_v1 CHUNK files false eph rpubs kd nonce8) cands = Ok (expected files).
Proof. intros Hwf. rewrite decode_encode_v1_plain_layers. exact (content_roundtrip_v1 files Hwf). Qed.

(* ---------- decoder after the writer MODEL ---------- *)
Notation src_wrun FNMAX order :=
  (wrun FNMAX Src.BT_FileStart Src.BT_FileContent Src.BT_EndOfArchiveData Src.BT_EndOfFile sha order).
(* header of lib.rs for a layer-less archive: magic, version, layers 0, Option tag None *)
Definition src_header_plain : bytes := Src.MLA_MAGIC ++ le_bytes 4 Src.MLA_FORMAT_VERSION_prod ++ [0; 0].

Theorem decode_writer_v1_content {LIM : Limit} FNMAX order ops sf rs :
  (forall f, Permutation (order f) f) ->
  src_wrun FNMAX order w_init (ops ++ [OFinalize]) = (sf, rs) ->
  Forall (fun r => is_ok r = true) rs -> forallb op_utf8 ops = true ->
  len (w_out sf) < 2 ^ 64 -> len (ser_footer_map (order (w_footer sf))) < 2 ^ 32 ->
  decode_content sha (w_out sf) = Ok (written sha ops).
Proof.
  intros Horder Hrun Hok Hutf H64 H32.
  exact (format_decode_writer FNMAX sha order Sha256.len_sha256 Horder ops sf rs Hrun Hok Hutf H64 H32).
Qed.

Theorem decode_writer_v1_plain {LIM : Limit} CHUNK BLOCK unbr FNMAX order ops sf rs cands :
  (forall f, Permutation (order f) f) ->
  src_wrun FNMAX order w_init (ops ++ [OFinalize]) = (sf, rs) ->
  Forall (fun r => is_ok r = true) rs -> forallb op_utf8 ops = true ->
  len (w_out sf) < 2 ^ 64 -> len (ser_footer_map (order (w_footer sf))) < 2 ^ 32 ->
  decode_v1 CHUNK BLOCK unbr (src_header_plain ++ w_out sf) cands = Ok (written sha ops).
Proof.
  intros Horder Hrun Hok Hutf H64 H32. unfold decode_v1, src_header_plain.
  change ((Src.MLA_MAGIC ++ le_bytes 4 Src.MLA_FORMAT_VERSION_prod ++ [0; 0]) ++ w_out sf)
    with (ser_header (mkH 0 None) ++ w_out sf).
  exact (format_decode_writer_plain FNMAX sha order Sha256.len_sha256 Horder ops sf rs Hrun Hok Hutf H64 H32
           CHUNK BLOCK dhkey_x25519 aopen_gcm unbr cands).
Qed.

(* encrypted: the block stream cut into any pieces [pcs] through the encryption writer model;
   [ks]/[tagc] is AES-256-GCM under kd with the per-chunk nonces (cipher_agrees); the key is
   wrapped for the recipients' public keys rpub :: rpubs with the ephemeral scalar eph *)
Theorem decode_writer_v1_enc {LIM : Limit} CHUNK BLOCK CIPHERBUF unbr FNMAX order ops sf rs
        ks tagc fuel pcs es eph rpub rpubs cpriv cands kd nonce8 :
  0 < CHUNK ->
  (forall f, Permutation (order f) f) ->
  src_wrun FNMAX order w_init (ops ++ [OFinalize]) = (sf, rs) ->
  Forall (fun r => is_ok r = true) rs -> forallb op_utf8 ops = true ->
  len (w_out sf) < 2 ^ 64 -> len (ser_footer_map (order (w_footer sf))) < 2 ^ 32 ->
  concat pcs = w_out sf ->
  ew_archive CHUNK CIPHERBUF ks tagc fuel pcs = Ok es ->
  cipher_agrees CHUNK ks tagc aseal_gcm kd nonce8 ((len (w_out sf) + CHUNK - 1) / CHUNK) ->
  X25519.x25519 cpriv (X25519.x25519_base eph) = X25519.x25519 eph rpub ->
  length kd = 32%nat -> length nonce8 = 8%nat -> len rpubs < 2 ^ 63 ->
  (len (w_out sf) + CHUNK - 1) / CHUNK <= 2 ^ 32 ->
  decode_v1 CHUNK BLOCK unbr
    (ser_header (mkH L_ENCRYPT (Some (mkEH (X25519.x25519_base eph)
                  (wrap aseal_gcm kd (map (fun r => dhkey_x25519 eph r) (rpub :: rpubs))) nonce8)))
     ++ ew_out es) (cpriv :: cands)
  = Ok (written sha ops).
Proof.
  intros HCH Horder Hrun Hok Hutf H64 H32 Hcat Hew Hag Hdh Hkd H8 Hn Hch. unfold decode_v1. cbn [map].
  apply (format_decode_writer_enc CHUNK BLOCK CIPHERBUF FNMAX sha order HCH Sha256.len_sha256 Horder
           dhkey_x25519 aopen_gcm aseal_gcm unbr key32 gcm_open_seal gcm_len_ct gcm_len_tag ks tagc
           ops sf rs Hrun Hok Hutf H64 H32 fuel pcs es); try assumption.
  - constructor; [apply key32_hkdf_info|]. apply Forall_forall. intros d Hin. apply in_map_iff in Hin.
    destruct Hin as (r & <- & _). apply key32_hkdf_info.
  - unfold dhkey_x25519. now rewrite Hdh.
  - unfold X25519.x25519_base. apply X25519.length_x25519.
  - unfold len in *. rewrite map_length. exact Hn.
Qed.

(* the same with the cipher parameters the encryption-layer model is instantiated with (InstGcm.v:
   key stream table of n chunks and tag function over the expanded AES-256 key): no hypothesis on
   the cipher is left *)
Theorem decode_writer_v1_enc_gcm {LIM : Limit} CHUNK BLOCK CIPHERBUF unbr FNMAX order ops sf rs
        n fuel pcs es eph rpub rpubs cpriv cands kd nonce8 :
  0 < CHUNK ->
  (forall f, Permutation (order f) f) ->
  src_wrun FNMAX order w_init (ops ++ [OFinalize]) = (sf, rs) ->
  Forall (fun r => is_ok r = true) rs -> forallb op_utf8 ops = true ->
  len (w_out sf) < 2 ^ 64 -> len (ser_footer_map (order (w_footer sf))) < 2 ^ 32 ->
  concat pcs = w_out sf ->
  ew_archive CHUNK CIPHERBUF (gcm_ks (gcm_tab (Aes.aes256_expand kd) nonce8 CHUNK n))
             (gcm_tagc (Aes.aes256_expand kd) nonce8) fuel pcs = Ok es ->
  (len (w_out sf) + CHUNK - 1) / CHUNK <= N.of_nat n ->
  X25519.x25519 cpriv (X25519.x25519_base eph) = X25519.x25519 eph rpub ->
  length kd = 32%nat -> length nonce8 = 8%nat -> len rpubs < 2 ^ 63 ->
  (len (w_out sf) + CHUNK - 1) / CHUNK <= 2 ^ 32 ->
  decode_v1 CHUNK BLOCK unbr
    (ser_header (mkH L_ENCRYPT (Some (mkEH (X25519.x25519_base eph)
                  (wrap aseal_gcm kd (map (fun r => dhkey_x25519 eph r) (rpub :: rpubs))) nonce8)))
     ++ ew_out es) (cpriv :: cands)
  = Ok (written sha ops).
Proof.
  intros HCH Horder Hrun Hok Hutf H64 H32 Hcat Hew Htab Hdh Hkd H8 Hn Hch.
  apply (decode_writer_v1_enc CHUNK BLOCK CIPHERBUF unbr FNMAX order ops sf rs
           (gcm_ks (gcm_tab (Aes.aes256_expand kd) nonce8 CHUNK n)) (gcm_tagc (Aes.aes256_expand kd) nonce8)
           fuel pcs es); try assumption.
  intros j pt Hj Hpt. apply (gcm_cipher_agrees CHUNK kd nonce8 n Hkd H8); [lia | exact Hpt].
Qed.

(* the concrete examples below: the production value of BINCODE_MAX_DESERIALIZE (file-local, declared AFTER the theorems) *)
#[local] Instance EX_LIMIT : Limit := MLAGen.Src.BINCODE_MAX_DESERIALIZE_prod.
(* ---------- a concrete interleaved call list: 3 files, two open at once, add_file in between,
   footer written in reverse order ---------- *)
Definition ex2_ops : list wop :=
  [OStart ex_a; OStart ex_b; OAppend 0 60 (ex_data 60 1); OAppend 1 30 (ex_data 30 5);
   OAppend 0 40 (ex_data 40 2); OEnd 0; OAdd ex_c 70 (ex_data 70 9); OAppend 1 5 (ex_data 5 6); OEnd 1].
Definition ex2_order : footer -> footer := @rev _.
Lemma ex2_order_perm f : Permutation (ex2_order f) f.
Proof. symmetry. apply Permutation_rev. Qed.
Definition ex2_run := src_wrun 48 ex2_order w_init (ex2_ops ++ [OFinalize]).
Definition ex2_sf : wstate := fst ex2_run.
Definition ex2_rs : list (res N) := snd ex2_run.

(* the block stream in four pieces (one empty, cuts inside chunks) through the encryption writer,
   scaled constants CHUNK = 64, CIPHERBUF = 24; RFC 7748 6.1 key pairs: ephemeral = Alice, recipient = Bob *)
Definition ex2_pcs : list bytes :=
  let o := w_out ex2_sf in [takeN 100 o; []; sliceN 100 37 o; dropN 137 o].
Definition ex2_ntab : nat := N.to_nat (len (w_out ex2_sf) / 64 + 2).
(* notations, not definitions: the example instantiates the theorem syntactically *)
Notation ex2_enc :=
  (ew_archive 64 24 (gcm_ks (gcm_tab (Aes.aes256_expand ex_kd) ex_nonce8 64 ex2_ntab))
              (gcm_tagc (Aes.aes256_expand ex_kd) ex_nonce8) 1000 ex2_pcs).
Notation ex2_header :=
  (ser_header (mkH L_ENCRYPT (Some (mkEH (X25519.x25519_base X25519.alice_sk)
                (wrap aseal_gcm ex_kd (map (fun r => dhkey_x25519 X25519.alice_sk r) [X25519.bob_pk])) ex_nonce8)))).
