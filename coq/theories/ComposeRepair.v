(* ComposeRepair.v — C02 / C05 END TO END for encrypted archives without compression:

     block list  --writer-->  plain = body bl ++ trailer  --encryption writer (any pieces)-->
     wire = enc_format plain  --cut at ANY n-->  takeN n wire
       --fail-safe decryptor (authenticated or DataEvenUnauthenticated)-->  out
       --repair loop-->  a new archive

   composed from: EncWriterProofs.enc_writer_canonical (C01), EncAuthFs.fs_*_refines and
   fs_open_* (C03/C04: the fail-safe decryptor is a read-only cursor over `auth_out` /
   `unauth_out` of the inner bytes), EncAuthTrunc.fs_*_truncated (on a truncation both are
   prefixes of plain ++ junk), and the repair theorems for read-only sources
   (ComposeRdOnly.v, from RepairProofs6).

   Side condition inherited from the repair theorems, and REAL here: the block list ends with
   EndOfArchiveData (`In BEnd bl`) or nothing at all follows the blocks, junk included
   (`trailer ++ junk = []`).  `junk` = tag bytes of a short last chunk decrypted as data by
   the unauthenticated loader: if they followed an unterminated block list, the repair loop
   would parse them as blocks.  The real writer finalizes the encryption layer only after
   EndOfArchiveData and the footer, so the first disjunct is what occurs. *)
From MLA Require Import Limit.
From MLA Require Import Base Stream Blocks Writer Repair RepairSpec RepairPure
  RepairProofs2 RepairProofs5 RepairProofs6 EncLayer EncLayerProofs EncAuth EncAuthFs EncAuthC
  EncAuthTrunc EncWriter EncWriterProofs Inst Run ComposeRdOnly.
From Coq Require Import ZifyBool ZifyNat ZifyN.
Open Scope N_scope.

Lemma prefix_dropN_both {A} n (a b : list A) : prefix a b -> prefix (dropN n a) (dropN n b).
Proof.
  intros [r ->]. destruct (N.le_gt_cases n (len a)) as [Hl|Hl].
  - rewrite dropN_app_le by exact Hl. apply prefix_app.
  - rewrite (dropN_all n a) by lia. apply prefix_nil.
Qed.
Lemma prefix_full_eq {A} (a b : list A) : prefix a b -> len b <= len a -> a = b.
Proof.
  intros [r ->] Hl. rewrite len_app in Hl. assert (Hr : len r = 0) by lia.
  apply len_0_nil in Hr. subst r. symmetry; apply app_nil_r.
Qed.

(* ---------- the fail-safe output on the UNCUT wire, and its growth with the cut ---------- *)
Section FullWire.
  Context {LIM : Limit}.
  Variables CHUNK TAG : N.
  Hypothesis HCHUNK : 0 < CHUNK.
  Hypothesis HTAG : 0 < TAG.
  Variable ks : N -> N -> N.
  Variable tagc : N -> bytes -> bytes.
  Hypothesis Htagc : forall i c, len (tagc i c) = TAG.

  Notation CTS := (CTS CHUNK TAG).
  Notation xor_from := (xor_from ks).
  Notation chunk_enc := (chunk_enc ks tagc).
  Notation enc_from := (enc_from CHUNK ks tagc).
  Notation enc_format := (enc_format CHUNK ks tagc).
  Notation dec_auth := (dec_auth CHUNK TAG ks tagc).
  Notation dec_unauth := (dec_unauth CHUNK ks).
  Notation out_from := (out_from CHUNK TAG).

  Lemma len_chunk_enc i pc : len (chunk_enc i pc) = len pc + TAG.
  Proof. unfold EncLayer.chunk_enc. rewrite len_app, len_xor_from', Htagc. reflexivity. Qed.

  (* a whole chunk on the wire verifies under its own counter and decrypts to itself *)
  Lemma dec_auth_chunk i pc tl : len pc <= CHUNK -> (len pc < CHUNK -> tl = []) ->
    dec_auth i (chunk_enc i pc ++ tl) = Some pc.
  Proof.
    intros Hl Htl. unfold EncAuthFs.dec_auth.
    assert (Ht : takeN CTS (chunk_enc i pc ++ tl) = chunk_enc i pc).
    { destruct (N.eq_dec (len pc) CHUNK) as [E|E].
      - rewrite takeN_app_le by (rewrite len_chunk_enc; unfold EncLayer.CTS; lia).
        apply takeN_all. rewrite len_chunk_enc. unfold EncLayer.CTS. lia.
      - rewrite (Htl ltac:(lia)), app_nil_r. apply takeN_all. rewrite len_chunk_enc. unfold EncLayer.CTS. lia. }
    rewrite Ht. unfold verifiesb, EncAuth.ct_of, EncAuth.tg_of. rewrite len_chunk_enc.
    replace (len pc + TAG - TAG) with (len (xor_from i 0 pc)) by (rewrite len_xor_from'; lia).
    unfold EncLayer.chunk_enc. rewrite takeN_len_app, dropN_len_app, bytes_eqb_refl, xor_from_invol.
    destruct (N.eqb_spec (len pc + TAG) 0); [lia|]. destruct (N.ltb_spec (len pc + TAG) TAG); [lia|].
    reflexivity.
  Qed.

  Lemma length_enc_from n : forall i pl, (n < length (enc_from n i pl))%nat.
  Proof.
    induction n as [|n IH]; intros i pl; cbn [EncLayer.enc_from].
    - pose proof (len_chunk_enc i pl) as Hl. unfold len in Hl. lia.
    - rewrite app_length. specialize (IH (i + 1) (dropN CHUNK pl)).
      pose proof (len_chunk_enc i (takeN CHUNK pl)) as Hl. unfold len in Hl. lia.
  Qed.

  Lemma auth_full_from n : forall i pl f,
    N.of_nat n * CHUNK <= len pl -> len pl <= (N.of_nat n + 1) * CHUNK -> (n < f)%nat ->
    prefix pl (out_from dec_auth f i (enc_from n i pl)).
  Proof.
    induction n as [|n IH]; intros i pl f Hlo Hhi Hf; (destruct f as [|f]; [lia|]);
      cbn [EncLayer.enc_from EncAuthFs.out_from].
    - rewrite <- (app_nil_r (chunk_enc i pl)). rewrite dec_auth_chunk by (auto; lia).
      destruct (len pl <? CHUNK); [apply prefix_refl | apply prefix_app].
    - assert (Hn : N.of_nat (Datatypes.S n) = N.of_nat n + 1) by lia. rewrite Hn in *.
      assert (Hpc : len (takeN CHUNK pl) = CHUNK) by (rewrite len_takeN; lia).
      rewrite dec_auth_chunk by lia. rewrite Hpc.
      destruct (N.ltb_spec CHUNK CHUNK) as [?|_]; [lia|].
      replace CTS with (len (chunk_enc i (takeN CHUNK pl))) by (rewrite len_chunk_enc, Hpc; reflexivity).
      rewrite dropN_len_app. rewrite <- (takeN_dropN CHUNK pl) at 1. apply prefix_app_same.
      apply IH; [rewrite len_dropN; lia | rewrite len_dropN; lia | lia].
  Qed.

  Variable plain : bytes.

  (* nothing is lost on an undamaged stream, in either mode *)
  Theorem fs_auth_full : prefix plain (auth_out CHUNK TAG ks tagc (enc_format plain)).
  Proof.
    destruct (nfull_bounds CHUNK TAG HCHUNK ks tagc Htagc plain) as [H1 H2].
    unfold auth_out, fs_out, EncLayer.enc_format.
    destruct (N.to_nat (nfull CHUNK (len plain))) as [|n] eqn:En; cbn [EncLayer.enc_from].
    - change (N.of_nat 0) with 0 in *. rewrite (dec_chunk_enc CHUNK TAG HCHUNK ks tagc Htagc) by lia.
      destruct (_ <? _); [apply prefix_app|]. rewrite <- app_assoc. apply prefix_app.
    - assert (Hn : N.of_nat (Datatypes.S n) = N.of_nat n + 1) by lia. rewrite Hn in *.
      assert (Hpc : len (takeN CHUNK plain) = CHUNK) by (rewrite len_takeN; lia).
      rewrite takeN_app_le by (rewrite len_chunk_enc; lia).
      rewrite (dec_chunk_enc CHUNK TAG HCHUNK ks tagc Htagc) by lia.
      unfold junk_of. rewrite Hpc, N.sub_diag, takeN_0. cbn [EncLayer.xor_from]. rewrite app_nil_r, Hpc.
      destruct (N.ltb_spec CHUNK CHUNK) as [?|_]; [lia|].
      replace CTS with (len (chunk_enc 0 (takeN CHUNK plain))) by (rewrite len_chunk_enc, Hpc; reflexivity).
      rewrite dropN_len_app. rewrite <- (takeN_dropN CHUNK plain) at 1. apply prefix_app_same.
      apply auth_full_from; [rewrite len_dropN; lia | rewrite len_dropN; lia |].
      pose proof (length_enc_from n (0 + 1) (dropN CHUNK plain)). rewrite app_length. lia.
  Qed.
End FullWire.

(* the unauthenticated output grows with the inner bytes *)
Section UnauthMono.
  Context {LIM : Limit}.
  Variables CHUNK TAG : N.
  Hypothesis HCHUNK : 0 < CHUNK.
  Variable ks : N -> N -> N.
  Variable tagc : N -> bytes -> bytes.
  Notation dec_unauth := (dec_unauth CHUNK ks).
  Notation out_from := (out_from CHUNK TAG).

  Lemma xor_prefix i : forall a b off, prefix a b -> prefix (xor_from ks i off a) (xor_from ks i off b).
  Proof.
    induction a as [|x a IH]; intros b off [r ->]; cbn [app EncLayer.xor_from]; [apply prefix_nil|].
    destruct (IH (a ++ r) (off + 1) (prefix_app _ _)) as [r' E]. exists r'. rewrite E. reflexivity.
  Qed.

  Lemma unauth_from_mono f : forall i w1 w2, prefix w1 w2 ->
    prefix (out_from dec_unauth f i w1) (out_from dec_unauth f i w2).
  Proof.
    induction f as [|f IH]; intros i w1 w2 Hp; cbn [EncAuthFs.out_from]; [apply prefix_nil|].
    unfold EncAuthFs.dec_unauth.
    pose proof (xor_prefix i _ _ 0 (prefix_takeN_both CHUNK _ _ Hp)) as Hx.
    set (p1 := xor_from ks i 0 (takeN CHUNK w1)) in *. set (p2 := xor_from ks i 0 (takeN CHUNK w2)) in *.
    assert (H2 : len p2 <= CHUNK) by (unfold p2; rewrite len_xor_from', len_takeN; lia).
    destruct (N.ltb_spec (len p1) CHUNK) as [H1|H1].
    - eapply prefix_trans; [exact Hx|]. destruct (len p2 <? CHUNK); [apply prefix_refl | apply prefix_app].
    - assert (E : p1 = p2) by (apply prefix_full_eq; [exact Hx | lia]). rewrite <- E.
      destruct (N.ltb_spec (len p1) CHUNK) as [?|_]; [lia|].
      apply prefix_app_same, IH, prefix_dropN_both, Hp.
  Qed.

  Theorem unauth_out_mono w1 w2 : prefix w1 w2 ->
    prefix (unauth_out CHUNK TAG ks w1) (unauth_out CHUNK TAG ks w2).
  Proof.
    intros Hp. rewrite !(unauth_out_unfold CHUNK TAG ks).
    assert (Hl : (length w1 <= length w2)%nat) by (apply prefix_len in Hp; unfold len in Hp; lia).
    rewrite (out_from_fuel CHUNK TAG HCHUNK ks tagc dec_unauth (dec_unauth_spec CHUNK HCHUNK ks tagc)
               (Datatypes.S (Datatypes.S (length w1))) (Datatypes.S (Datatypes.S (length w2))) 0 w1) by lia.
    apply unauth_from_mono, Hp.
  Qed.
End UnauthMono.

(* ---------- the composition ---------- *)
Section EncRepair.
  Context {LIM : Limit}.
  Variable FNMAX CACHE : N.
  Hypothesis HFN : FNMAX < 2 ^ 64.
  Hypothesis HCACHE : 0 < CACHE.
  Variables T_START T_CONTENT T_EOA T_EOF : N.
  Hypothesis Htags : T_START <> T_CONTENT /\ T_START <> T_EOA /\ T_START <> T_EOF /\
                     T_CONTENT <> T_EOA /\ T_CONTENT <> T_EOF /\ T_EOA <> T_EOF.
  Variable H : bytes -> bytes.
  Hypothesis H_len : forall x, len (H x) = 32.
  Variables CHUNK TAG CIPHERBUF : N.
  Hypothesis HCHUNK : 0 < CHUNK.
  Hypothesis HTAG : 0 < TAG.
  Variable ks : N -> N -> N.
  Variable tagc : N -> bytes -> bytes.
  Hypothesis Htagc : forall i c, len (tagc i c) = TAG.

  Notation body := (body T_START T_CONTENT T_EOA T_EOF).
  Notation repair := (repair FNMAX CACHE T_START T_CONTENT T_EOA T_EOF H).
  Notation wf_blocks := (wf_blocks FNMAX H).
  Notation good_output := (good_output FNMAX T_START T_CONTENT T_EOA T_EOF H).
  Notation FsEnc := (FsEnc CHUNK TAG ks tagc).
  Notation fs_open := (fs_open CHUNK TAG ks).
  Notation junk := (junk CHUNK ks tagc).
  Notation ew_archive := (ew_archive CHUNK CIPHERBUF ks tagc).

  (* everything the fail-safe decryptor will ever deliver over the inner bytes w *)
  Definition fs_output (unauth : bool) (w : bytes) : bytes :=
    if unauth then unauth_out CHUNK TAG ks w else auth_out CHUNK TAG ks tagc w.

  (* the decryptor over a cursor: opens, and refines (read-only) a cursor over fs_output *)
  Lemma fsenc_rd_refines unauth w : len w / (CHUNK + TAG) + 2 <= 2 ^ 32 ->
    exists I : st (FsEnc unauth (Cursor w)) -> N -> Prop,
      RdRefines (rd (FsEnc unauth (Cursor w))) (fs_output unauth w) I /\
      exists es b, fs_open (Cursor w) 0 = (es, Ok b) /\ I es 0.
  Proof.
    intros Hbig. pose proof (cursor_seekable w) as HS. destruct unauth; cbn [fs_output FsEnc Run.FsEnc rd st].
    - exists (FsInvU CHUNK TAG ks (Cursor w) w (fun s p => s = p)). split.
      + exact (fs_unauth_refines CHUNK TAG HCHUNK ks tagc (Cursor w) w _ HS Hbig).
      + destruct (fs_open_unauth CHUNK TAG HCHUNK ks tagc (Cursor w) w _ HS Hbig 0 eq_refl) as (es & r & Ho & Hr & HI).
        destruct Hr as [-> | ->]; eauto.
    - exists (FsInvA CHUNK TAG ks tagc (Cursor w) w (fun s p => s = p)). split.
      + exact (fs_auth_refines CHUNK TAG HCHUNK ks tagc (Cursor w) w _ HS Hbig).
      + destruct (fs_open_auth CHUNK TAG HCHUNK ks tagc (Cursor w) w _ HS Hbig 0 eq_refl) as (es & r & Ho & Hr & HI).
        destruct Hr as [-> | ->]; eauto.
  Qed.

  (* the conclusions of C02 about one result of `repair` *)
  Definition repair_sound_concl (bl : list block) (r : res (fstatus * list bytes * wstate)) : Prop :=
    exists status unfinished out obl,
      r = Ok (status, unfinished, out) /\
      good_output out obl /\
      (forall g, In g (files_of obl) ->
         exists f, In f (files_of bl) /\ f_name f = f_name g /\ prefix (f_data g) (f_data f)) /\
      (forall name, prefix (content_of (files_of obl) name) (content_of (files_of bl) name)) /\
      (forall g, In g (files_of obl) -> ~ In (f_name g) unfinished ->
         exists f, In f (files_of bl) /\ f_name f = f_name g /\ f_data f = f_data g /\ f_ended f = true) /\
      (status = FEndOfData ->
         unfinished = [] /\ Forall2 same (files_of bl) (files_of obl) /\
         (forall f, In f (files_of bl) -> f_ended f = true)) /\
      (status = FEndOfData \/ status = FEofNextBlock).

  Section OneArchive.
    Variable bl : list block.
    Variable trailer : bytes.
    Hypothesis Hwf : wf_blocks bl.
    Let plain := body bl ++ trailer.
    Hypothesis Htr : In BEnd bl \/ trailer ++ junk plain = [].
    Variable pieces : list bytes.
    Hypothesis Hpieces : concat pieces = plain.
    Variable fuelw : nat.
    Variable s : ewstate.
    Hypothesis Hw : ew_archive fuelw pieces = Ok s.
    Hypothesis Hbig : len (ew_out s) / (CHUNK + TAG) + 2 <= 2 ^ 32.

    Lemma wire_is : ew_out s = enc_format CHUNK ks tagc plain.
    Proof. rewrite <- Hpieces. exact (enc_writer_canonical CHUNK CIPHERBUF HCHUNK ks tagc fuelw pieces s Hw). Qed.

    Lemma cut_big n : len (takeN n (ew_out s)) / (CHUNK + TAG) + 2 <= 2 ^ 32.
    Proof.
      eapply N.le_trans; [|exact Hbig]. apply N.add_le_mono_r. apply N.div_le_mono; [lia|].
      rewrite len_takeN. lia.
    Qed.

    Lemma len_junk : len (junk plain) <= TAG.
    Proof. unfold EncAuthTrunc.junk, junk_of. rewrite len_xor_from', len_takeN, Htagc. lia. Qed.

    Lemma fs_output_cut unauth n :
      prefix (fs_output unauth (takeN n (ew_out s))) (body bl ++ (trailer ++ junk plain)).
    Proof.
      rewrite app_assoc. fold plain. rewrite wire_is.
      destruct unauth; cbn [fs_output].
      - apply (fs_unauth_truncated CHUNK TAG HCHUNK ks tagc Htagc), prefix_takeN.
      - apply (fs_auth_truncated CHUNK TAG HCHUNK ks tagc Htagc), prefix_takeN.
    Qed.

    Lemma fuel_ok unauth n fuel : (N.to_nat (len plain + TAG) < fuel)%nat ->
      (N.to_nat (len (fs_output unauth (takeN n (ew_out s)))) < fuel)%nat.
    Proof.
      intros Hf. pose proof (prefix_len _ _ (fs_output_cut unauth n)) as Hl.
      rewrite app_assoc, len_app in Hl. fold plain in Hl. pose proof len_junk. lia.
    Qed.

    (* C02, encrypted: every cut of the wire, both modes *)
    Theorem repair_encrypted_cut_sound n unauth fuel :
      (N.to_nat (len plain + TAG) < fuel)%nat ->
      exists es b, fs_open (Cursor (takeN n (ew_out s))) 0 = (es, Ok b) /\
        (* finalize did not fail with SerializationError (footer within the bincode limit) *)
        (repair (FsEnc unauth (Cursor (takeN n (ew_out s)))) fuel es w_init <> Err EDeser ->
         repair_sound_concl bl (repair (FsEnc unauth (Cursor (takeN n (ew_out s)))) fuel es w_init)).
    Proof.
      intros Hf. destruct (fsenc_rd_refines unauth _ (cut_big n)) as (I & HR & es & b & Ho & HI).
      exists es, b. split; [exact Ho|]. intros Hser.
      exact (repair_sound_rd FNMAX CACHE HFN HCACHE T_START T_CONTENT T_EOA T_EOF Htags H H_len
               _ _ I HR bl (trailer ++ junk plain) Hwf Htr (fs_output_cut unauth n) es HI fuel (fuel_ok unauth n fuel Hf) Hser).
    Qed.

    (* C05, encrypted: exactly the content bytes present in what the decryptor delivers *)
    Theorem repair_encrypted_max n unauth fuel :
      (N.to_nat (len plain + TAG) < fuel)%nat ->
      exists es b, fs_open (Cursor (takeN n (ew_out s))) 0 = (es, Ok b) /\
      (repair (FsEnc unauth (Cursor (takeN n (ew_out s)))) fuel es w_init <> Err EDeser ->
      exists status unfinished out obl,
        repair (FsEnc unauth (Cursor (takeN n (ew_out s)))) fuel es w_init = Ok (status, unfinished, out) /\
        good_output out obl /\
        (forall f, In f (files_of bl) ->
           content_of (files_of obl) (f_name f) =
           present (f_id f) bl (len (fs_output unauth (takeN n (ew_out s)))))).
    Proof.
      intros Hf. destruct (fsenc_rd_refines unauth _ (cut_big n)) as (I & HR & es & b & Ho & HI).
      exists es, b. split; [exact Ho|]. intros Hser.
      exact (repair_max_rd FNMAX CACHE HFN HCACHE T_START T_CONTENT T_EOA T_EOF Htags H H_len
               _ _ I HR bl (trailer ++ junk plain) Hwf Htr (fs_output_cut unauth n) es HI fuel (fuel_ok unauth n fuel Hf) Hser).
    Qed.

    (* C05, encrypted: the undamaged wire, both modes: everything recovered *)
    Theorem repair_encrypted_intact_complete unauth fuel :
      In BEnd bl -> (N.to_nat (len plain + TAG) < fuel)%nat ->
      exists es b, fs_open (Cursor (ew_out s)) 0 = (es, Ok b) /\
      (repair (FsEnc unauth (Cursor (ew_out s))) fuel es w_init <> Err EDeser ->
      exists out obl,
        repair (FsEnc unauth (Cursor (ew_out s))) fuel es w_init = Ok (FEndOfData, [], out) /\
        good_output out obl /\ Forall2 same (files_of bl) (files_of obl) /\
        (forall f, In f (files_of bl) -> f_ended f = true)).
    Proof.
      intros Hend Hf.
      assert (Hall : takeN (len (ew_out s)) (ew_out s) = ew_out s) by (apply takeN_all; lia).
      pose proof (fs_output_cut unauth (len (ew_out s))) as Hcut.
      pose proof (fuel_ok unauth (len (ew_out s)) fuel Hf) as Hfu. rewrite Hall in Hcut, Hfu.
      destruct (fsenc_rd_refines unauth _ Hbig) as (I & HR & es & b & Ho & HI).
      exists es, b. split; [exact Ho|]. intros Hser.
      apply (repair_intact_rd FNMAX CACHE HFN HCACHE T_START T_CONTENT T_EOA T_EOF Htags H H_len
               _ _ I HR bl (trailer ++ junk plain) Hwf Htr Hcut es HI fuel Hfu Hser Hend).
      assert (Hp : prefix plain (fs_output unauth (ew_out s))).
      { rewrite wire_is. pose proof (fs_auth_full CHUNK TAG HCHUNK HTAG ks tagc Htagc plain) as Ha.
        destruct unauth; cbn [fs_output]; [|exact Ha].
        eapply prefix_trans; [exact Ha | apply (fs_auth_prefix_of_unauth CHUNK TAG HCHUNK)]. }
      apply prefix_len in Hp. unfold plain in Hp. rewrite len_app, (len_body T_START T_CONTENT T_EOA T_EOF) in Hp. lia.
    Qed.

    (* C05, encrypted: whenever a second run's decryptor delivers at least as much as a first
       run's, it recovers at least as much of every file *)
    Theorem repair_encrypted_monotone_gen n m u1 u2 fuel1 fuel2 :
      len (fs_output u1 (takeN n (ew_out s))) <= len (fs_output u2 (takeN m (ew_out s))) ->
      (N.to_nat (len plain + TAG) < fuel1)%nat -> (N.to_nat (len plain + TAG) < fuel2)%nat ->
      exists es1 b1 es2 b2,
        fs_open (Cursor (takeN n (ew_out s))) 0 = (es1, Ok b1) /\
        fs_open (Cursor (takeN m (ew_out s))) 0 = (es2, Ok b2) /\
      (repair (FsEnc u1 (Cursor (takeN n (ew_out s)))) fuel1 es1 w_init <> Err EDeser ->
       repair (FsEnc u2 (Cursor (takeN m (ew_out s)))) fuel2 es2 w_init <> Err EDeser ->
      exists st1 un1 out1 obl1 st2 un2 out2 obl2,
        repair (FsEnc u1 (Cursor (takeN n (ew_out s)))) fuel1 es1 w_init = Ok (st1, un1, out1) /\
        good_output out1 obl1 /\
        repair (FsEnc u2 (Cursor (takeN m (ew_out s)))) fuel2 es2 w_init = Ok (st2, un2, out2) /\
        good_output out2 obl2 /\
        forall name, prefix (content_of (files_of obl1) name) (content_of (files_of obl2) name)).
    Proof.
      intros Hle Hf1 Hf2.
      destruct (fsenc_rd_refines u1 _ (cut_big n)) as (I1 & HR1 & es1 & b1 & Ho1 & HI1).
      destruct (fsenc_rd_refines u2 _ (cut_big m)) as (I2 & HR2 & es2 & b2 & Ho2 & HI2).
      exists es1, b1, es2, b2. split; [exact Ho1|]. split; [exact Ho2|]. intros Hser1 Hser2.
      destruct (repair_exact_rd FNMAX CACHE HFN HCACHE T_START T_CONTENT T_EOA T_EOF Htags H H_len
                  _ _ I1 HR1 bl (trailer ++ junk plain) Hwf Htr (fs_output_cut u1 n) es1 HI1 fuel1 (fuel_ok u1 n fuel1 Hf1) Hser1)
        as (out1 & obl1 & Hr1 & Hg1 & Hsame1).
      destruct (repair_exact_rd FNMAX CACHE HFN HCACHE T_START T_CONTENT T_EOA T_EOF Htags H H_len
                  _ _ I2 HR2 bl (trailer ++ junk plain) Hwf Htr (fs_output_cut u2 m) es2 HI2 fuel2 (fuel_ok u2 m fuel2 Hf2) Hser2)
        as (out2 & obl2 & Hr2 & Hg2 & Hsame2).
      eexists _, _, out1, obl1, _, _, out2, obl2.
      split; [exact Hr1|]. split; [exact Hg1|]. split; [exact Hr2|]. split; [exact Hg2|].
      intros name. rewrite (same_content _ _ name Hsame1), (same_content _ _ name Hsame2).
      destruct Hwf as [Hwf1 _].
      apply fle_content_prefix.
      - apply (frun_names_nodup FNMAX H); [constructor | apply cutb_wf; exact Hwf1].
      - apply (cutb_mono FNMAX H); [constructor | exact Hwf1 | exact Hle].
    Qed.

    (* the hypothesis of the previous theorem holds for: unauthenticated at n, unauthenticated
       at m >= n; and authenticated at n, unauthenticated at m >= n.  (Authenticated at both is
       NOT monotone in the abstract model: a cut inside chunk k whose last TAG ciphertext bytes
       happen to verify as a tag of the bytes before them delivers a part of chunk k, one more
       wire byte then delivers none of it.  Excluded only by unforgeability.) *)
    Lemma fs_output_mono n m u1 : n <= m ->
      len (fs_output u1 (takeN n (ew_out s))) <= len (fs_output true (takeN m (ew_out s))).
    Proof.
      intros Hnm. apply prefix_len.
      apply (prefix_trans _ (fs_output true (takeN n (ew_out s)))).
      - destruct u1; cbn [fs_output]; [apply prefix_refl | apply (fs_auth_prefix_of_unauth CHUNK TAG HCHUNK)].
      - cbn [fs_output]. apply (unauth_out_mono CHUNK TAG HCHUNK ks tagc), prefix_takeN_mono, Hnm.
    Qed.

    Theorem repair_encrypted_monotone n m u1 fuel1 fuel2 :
      n <= m ->
      (N.to_nat (len plain + TAG) < fuel1)%nat -> (N.to_nat (len plain + TAG) < fuel2)%nat ->
      exists es1 b1 es2 b2,
        fs_open (Cursor (takeN n (ew_out s))) 0 = (es1, Ok b1) /\
        fs_open (Cursor (takeN m (ew_out s))) 0 = (es2, Ok b2) /\
      (repair (FsEnc u1 (Cursor (takeN n (ew_out s)))) fuel1 es1 w_init <> Err EDeser ->
       repair (FsEnc true (Cursor (takeN m (ew_out s)))) fuel2 es2 w_init <> Err EDeser ->
      exists st1 un1 out1 obl1 st2 un2 out2 obl2,
        repair (FsEnc u1 (Cursor (takeN n (ew_out s)))) fuel1 es1 w_init = Ok (st1, un1, out1) /\
        good_output out1 obl1 /\
        repair (FsEnc true (Cursor (takeN m (ew_out s)))) fuel2 es2 w_init = Ok (st2, un2, out2) /\
        good_output out2 obl2 /\
        forall name, prefix (content_of (files_of obl1) name) (content_of (files_of obl2) name)).
    Proof. intros Hnm. apply repair_encrypted_monotone_gen, fs_output_mono, Hnm. Qed.
  End OneArchive.
End EncRepair.
