(* RunC06.v — Tie B entry points of property C06: the FORMAT.md decoder of Format.v with the
   concrete primitives (AES-256-GCM, HKDF-SHA256, SHA-256, X25519 of Concrete/), and the model
   of the incremental AES-GCM core (Gcm.v). *)
From MLA Require Import Base Inst Format Gcm.
From MLA.Concrete Require Aes.
Open Scope N_scope.

(* brotli enters as a table: entries [compressed block; its decompression] *)
Fixpoint table_lookup (t : list (list bytes)) (c : bytes) : option bytes :=
  match t with
  | [] => None
  | [k; v] :: r => if bytes_eqb k c then Some v else table_lookup r c
  | _ :: r => table_lookup r c
  end.

Fixpoint c06_leb (a b : bytes) : bool :=
  match a, b with
  | [], _ => true
  | _ :: _, [] => false
  | x :: a', y :: b' => if x <? y then true else if y <? x then false else c06_leb a' b'
  end.
Fixpoint c06_ins (e : bytes * bytes * bytes) (l : list (bytes * bytes * bytes)) :=
  match l with
  | [] => [e]
  | h :: t => if c06_leb (fst (fst e)) (fst (fst h)) then e :: l else h :: c06_ins e t
  end.
Definition c06_sort (l : list (bytes * bytes * bytes)) := fold_right c06_ins [] l.

(* status row first; then name, content, hash of every file, in sorted name order *)
Definition c06_rows (r : res (list (bytes * bytes * bytes))) : list (list N) :=
  match r with
  | Ok fs => [0] :: flat_map (fun e => [5 :: fst (fst e); 6 :: snd (fst e); 7 :: snd e]) (c06_sort fs)
  | Err _ => [[1]]
  | Crash _ => [[2]]
  end.

Definition c06_decode (k : consts) (archive priv : bytes) (table : list (list bytes)) : list (list N) :=
  c06_rows (decode_v1 (cCHUNK k) (cBLOCK k) (table_lookup table) archive [priv]).
(* oracle mode for X25519: the D-H shared secret is an input *)
Definition c06_decode_dh (k : consts) (archive shared : bytes) (table : list (list bytes)) : list (list N) :=
  c06_rows (decode_v1_dh (cCHUNK k) (cBLOCK k) (table_lookup table) archive [shared]).

(* the model of crypto/aesgcm.rs: new, one encrypt call per piece, into_tag *)
Definition c06_gcm (_ : consts) (key nonce aad msg : bytes) (sizes : list N) : list (list N) :=
  let '(outs, tag) := aesgcm_encrypt_incremental (Aes.aes256_expand key) nonce aad
                        (split_sizes (map N.to_nat sizes) msg) in
  [concat outs; tag].

(* the canonical encoder, for byte-for-byte comparison with the harness' independent encoder *)
Definition c06_encode (k : consts) (names contents : list bytes) (encrypted : N)
           (eph : bytes) (recipients : list bytes) (kd nonce8 : bytes) : list (list N) :=
  [encode_v1 (cCHUNK k) (combine names contents) (encrypted =? 1) eph recipients kd nonce8].
