(* SrcTie3EncWCarry.v — the property theorems whose subject is the encryption WRITER, carried onto the translated code
   (work package encW; simulation: SrcTie3EncW.v; generated code: gen/Src3w.v + gen/Src3g.v).

   * enc_writer_canonical_src / enc_writer_total_src (C01 / C06): whatever the sizes of the buffers handed to
     write_all, the bytes the TRANSLATED layer leaves in the inner writer after finalize are `base ++ enc_format`:
     chunks of CHUNK ciphertext bytes each followed by its tag, the last chunk shorter (possibly empty);
     below 2^32 - 1 chunks the run succeeds.
   * chunk_enc_is_gcm_spec (C06): with the cipher parameters of the tie, a chunk on the wire IS the one-shot
     AES-GCM of SP 800-38D (GcmProofs.gcm_spec, pinned to the NIST vectors by Concrete/) of the chunk's plaintext
     under the nonce `prefix || be32(chunk index)`, no associated data, followed by its 16-byte tag.
   * src_nonces_distinct (C07): the chunk counter of the translated struct never wraps (it stays below 2^32 —
     `current_ctr += 1` is a checked u32 addition), it ends as the number of chunks written, and two different
     chunk indices below 2^32 give two different nonces.
   * reader_refines_writer_src (C03 / C11): over ANY stream that behaves as a cursor over the bytes the translated
     WRITER wrote, the TRANSLATED READER (gen/Src3e.v, instantiated with the same cipher parameters) behaves as a
     cursor over exactly the plaintext that was written. *)
From MLA Require Import Base Stream EncLayer EncLayerProofs EncWriter EncWriterProofs Gcm GcmProofs SrcTie3Gcm SrcTie3EncW.
From MLA Require SrcTie3Enc SrcTie3EncC.
From MLA.Concrete Require Import Aes Ghash GcmSpec.
From MLAGen Require Import Src3g Src3w.
From Coq Require Import ZifyBool ZifyNat ZifyN.
Open Scope N_scope.

Lemma wf_be_bytes w v : wf_bytes (be_bytes w v).
Proof. unfold be_bytes. apply wf_bytes_rev. apply le_bytes_wf. Qed.

Section Cipher.
  Variable E : bytes -> bytes -> bytes.
  Hypothesis HE : forall k b, length b = 16%nat -> length (E k b) = 16%nat.
  Variables key prefix : bytes.
  Hypothesis Hkey : len key = 32.
  Hypothesis Hprefix : len prefix = 8.
  Variable gmul : N -> N -> N.
  Notation ks := (ks_gcm E key prefix).
  Notation tagc := (tagc_gcm E key prefix gmul).
  Notation nonce := (nonce_of prefix).

  (* ---------- C06: a chunk on the wire is the one-shot GCM of the specification ---------- *)
  Lemma length_nonce i : length (nonce i) = 12%nat.
  Proof. unfold nonce_of. rewrite app_length, length_be_bytes. unfold len in Hprefix. lia. Qed.

  Lemma len_tagc i c : len (tagc i c) = 16.
  Proof.
    unfold tagc_gcm, tag_of. rewrite len_xor_bytes.
    rewrite (len_E_ctr128 (E key) (HE key)). unfold len at 1. rewrite length_N_to_block. reflexivity.
  Qed.

  Theorem chunk_enc_is_gcm_spec i pt : wf_bytes prefix -> len pt <= gcm_max_bytes ->
    chunk_enc ks tagc i pt =
    fst (gcm_spec (E key) gmul (nonce i) [] pt) ++ snd (gcm_spec (E key) gmul (nonce i) [] pt).
  Proof.
    intros Hwf HL.
    assert (Hwn : wf_bytes (nonce i)) by (unfold nonce_of; apply Forall_app; split; [exact Hwf|apply wf_be_bytes]).
    unfold chunk_enc.
    rewrite (spec_snd (E key) gmul (nonce i) [] (length_nonce i) Hwn pt).
    rewrite (spec_fst (E key) gmul (HE key) (nonce i) [] (length_nonce i) Hwn pt HL).
    fold (iv_of prefix i).
    pose proof (xor_slice_ks E HE key prefix Hkey Hprefix i (N.to_nat ((16 + len pt + 15) / 16)) pt 0 ltac:(lia)) as Hx.
    change (16 + 0) with 16 in Hx. rewrite !Hx. reflexivity.
  Qed.

  (* ---------- C07: two chunk indices below 2^32 give two different nonces ---------- *)
  Theorem nonce_of_inj i j : i < 2 ^ 32 -> j < 2 ^ 32 -> nonce i = nonce j -> i = j.
  Proof.
    intros Hi Hj H. unfold nonce_of in H. apply app_inv_head in H.
    rewrite <- (be_val_be_bytes 4 i) by (change (256 ^ N.of_nat 4) with (2 ^ 32); exact Hi).
    rewrite <- (be_val_be_bytes 4 j) by (change (256 ^ N.of_nat 4) with (2 ^ 32); exact Hj).
    now rewrite H.
  Qed.

End Cipher.

Section Carry.
  Variable E : bytes -> bytes -> bytes.
  Hypothesis HE : forall k b, length b = 16%nat -> length (E k b) = 16%nat.
  Variables key prefix : bytes.
  Hypothesis Hkey : len key = 32.
  Hypothesis Hprefix : len prefix = 8.
  Variables si sl : N.
  Variable gmul : N -> N -> N.
  Variables CHUNK CIPHERBUF : N.
  Hypothesis HCHUNK : 0 < CHUNK.
  Variable is_interrupted : err -> bool.
  Hypothesis Hnot_interrupted : is_interrupted EState = false.
  Variable ss : N.
  Variable base : bytes.

  Notation ks := (ks_gcm E key prefix).
  Notation tagc := (tagc_gcm E key prefix gmul).
  Notation nonce := (nonce_of prefix).
  Notation src_run := (src_archive E key prefix si sl gmul CHUNK CIPHERBUF is_interrupted ss base).

  (* ---------- C01 / C06: the wire format, for every sequence of write_all calls ---------- *)
  Theorem enc_writer_canonical_src fuel pieces x :
    src_run fuel pieces = Ok x ->
    elw_inner bytes x = base ++ enc_format CHUNK ks tagc (concat pieces).
  Proof.
    intros H.
    destruct (src_archive_bytes E HE key prefix Hkey Hprefix si sl gmul CHUNK CIPHERBUF is_interrupted Hnot_interrupted ss base
                fuel pieces x H) as (s & Hm & Ho & _).
    rewrite Ho. f_equal. exact (enc_writer_canonical CHUNK CIPHERBUF HCHUNK ks tagc fuel pieces s Hm).
  Qed.

  Theorem enc_writer_total_src fuel pieces :
    0 < CIPHERBUF -> len (concat pieces) / CHUNK + 1 < 2 ^ 32 ->
    (forall b, In b pieces -> (N.to_nat (len b) < fuel)%nat) ->
    exists x, src_run fuel pieces = Ok x /\
              elw_inner bytes x = base ++ enc_format CHUNK ks tagc (concat pieces).
  Proof.
    intros HCB Hsz Hfuel.
    destruct (enc_writer_total CHUNK CIPHERBUF HCHUNK ks tagc fuel pieces HCB Hsz Hfuel) as (s & Hm & Hf).
    destruct (src_archive_of_model E HE key prefix Hkey Hprefix si sl gmul CHUNK CIPHERBUF is_interrupted Hnot_interrupted ss base
                fuel pieces s Hm) as (x & Hx & Ho).
    exists x. split; [exact Hx|]. rewrite Ho, Hf. reflexivity.
  Qed.

  (* ---------- C07: the per-chunk nonces are pairwise distinct ---------- *)
  Theorem src_nonces_distinct fuel pieces x :
    src_run fuel pieces = Ok x ->
    elw_current_ctr bytes x < 2 ^ 32 /\
    elw_current_ctr bytes x = nfull CHUNK (len (concat pieces)) + 1 /\
    (forall i j, i < elw_current_ctr bytes x -> j < elw_current_ctr bytes x -> nonce i = nonce j -> i = j).
  Proof.
    intros H.
    destruct (src_archive_bytes E HE key prefix Hkey Hprefix si sl gmul CHUNK CIPHERBUF is_interrupted Hnot_interrupted ss base
                fuel pieces x H) as (s & Hm & _ & Hc & Hlt).
    rewrite Hc. split; [exact Hlt|]. split.
    - (* the counter after finalize is the number of chunks *)
      unfold ew_archive in Hm.
      destruct (ew_write_pieces CHUNK CIPHERBUF ks tagc fuel ew_init pieces) as [s1| |] eqn:Hp; cbn [bind] in Hm; try discriminate.
      destruct (ew_write_pieces_inv CHUNK CIPHERBUF HCHUNK ks tagc fuel pieces ew_init [] s1
                  (EwInv_init CHUNK CIPHERBUF HCHUNK ks tagc) ltac:(intros _; reflexivity) Hp) as [HI HC].
      cbn [app] in HI.
      pose proof (canon_ctr CHUNK CIPHERBUF HCHUNK ks tagc s1 (concat pieces) HI HC) as Hn.
      unfold ew_finalize, ew_renew in Hm. destruct (2 ^ 32 <=? ew_ctr s1 + 1); [discriminate|].
      injection Hm as <-. cbn [ew_ctr]. rewrite Hn. reflexivity.
    - intros i j Hi Hj. apply (nonce_of_inj prefix); lia.
  Qed.

  (* ---------- C03 / C11: what the translated reader accepts is what the translated writer wrote ---------- *)
  Theorem reader_refines_writer_src fuel pieces x :
    src_run fuel pieces = Ok x ->
    forall (S : Stream) (Rin : Stream.st S -> N -> Prop),
    Refines S (dropN (len base) (elw_inner bytes x)) Rin ->
    nfull CHUNK (len (concat pieces)) + 2 < 2 ^ 32 ->
    (len (concat pieces) / CHUNK + 1) * (CHUNK + 16) <= 2 ^ 64 - 1 -> len (concat pieces) < 2 ^ 63 ->
    forall site_index rfuel,
      Refines (SrcTie3EncC.EncReaderSrc S CHUNK 16 ks tagc site_index rfuel) (concat pieces)
        (fun r p => Renc CHUNK 16 ks tagc S (concat pieces) Rin (SrcTie3Enc.abs S r) p).
  Proof.
    intros H S Rin Href Hn Hu Hi site_index rfuel.
    rewrite (enc_writer_canonical_src fuel pieces x H) in Href.
    rewrite dropN_app_ge in Href by lia. replace (len base - len base) with 0 in Href by lia. rewrite dropN_0 in Href.
    exact (SrcTie3EncC.enc_reader_refines_src S CHUNK 16 ks tagc site_index HCHUNK ltac:(lia) (len_tagc E HE key prefix gmul)
             (concat pieces) Rin Href Hn Hu Hi rfuel).
  Qed.
End Carry.
