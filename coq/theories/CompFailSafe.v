(* CompFailSafe.v — model of CompressionLayerFailSafeReader (mla/src/layers/compress.rs, from
   "// ---------- Fail-Safe Reader ----------" to the end of `read_pass`), definitions only;
   proofs in CompFailSafeProofs*.v.

   The reader is a functor over an inner read-only stream (only `rd` of the Stream is used),
   parametric in BLOCK (UNCOMPRESSED_DATA_SIZE) and FSBUF (FAIL_SAFE_BUFFER_SIZE).
   Brotli's streaming decoder is NOT re-implemented: it enters as an abstract step function
     dstep : dstate -> bytes -> N -> dresult * N * bytes * dstate
   one call of brotli::BrotliDecompressStream on a BrotliState: given the state, the input
   slice offered (`&cache[read_offset..cache_filled_offset]`, available_in = its length,
   input_offset = 0) and the output room (available_out, output_offset = 0) it returns the
   BrotliResult, the number of input bytes consumed (input_offset after the call), the bytes
   written to the output (buf[..output_offset]) and the mutated state.  `dinit` is
   BrotliState::new(..).

   Line numbers refer to compress.rs of the pinned tree (after the fix: commits D4-D6, which
   introduced read_pass / more_passes / inner_eof).

   State: CompressionLayerFailSafeReaderState::{Ready(inner), InData{..}, Empty}.  The cache
   Vec always has FSBUF bytes; only cache[..cache_filled_offset] is ever read, so the model
   keeps exactly those bytes: fs_cache = cache[..cache_filled_offset],
   cache_filled_offset = len fs_cache.  `mem::replace(&mut self.state, Empty)` at the top of
   read_pass is modelled literally: every early `return` / `?` between the replace and the
   re-assignment of self.state leaves FEmpty (and drops the inner layer). *)
From MLA Require Import Base Stream.
From Coq Require Import ZifyBool ZifyNat ZifyN.
Open Scope N_scope.

(* brotli::BrotliResult *)
Inductive dresult := DSuccess | DNeedsMoreInput | DNeedsMoreOutput | DFailure.

Section FailSafe.
  Variables BLOCK FSBUF : N.
  Variable dstate : Type.
  Variable dinit : dstate.
  Variable dstep : dstate -> bytes -> N -> dresult * N * bytes * dstate.
  Variable S : Stream.

  Record fsdata := mkFs {
    fs_cache : bytes;     (* cache[..cache_filled_offset] *)
    fs_ro : N;            (* read_offset *)
    fs_ds : dstate;       (* state: Box<BrotliState> *)
    fs_ur : N;            (* uncompressed_read: u32 *)
    fs_in : st S;         (* inner *)
  }.

  Inductive fstate :=
  | FReady (i : st S)
  | FInData (d : fsdata)
  | FEmpty.

  (* CompressionLayerFailSafeReader::new *)
  Definition fs_new (i : st S) : fstate := FReady i.

  (* l.970-979: "Cache is full and there is no more data to read from -> cache must be reset" *)
  Definition reset_cache (cache : bytes) (ro : N) : bytes * N :=
    if (ro =? len cache) && (len cache =? FSBUF) then ([], 0) else (cache, ro).

  (* l.981-1001: ONE inner read into the free tail of the cache, cache[cache_filled_offset..]
     (an empty slice when the cache is full but not drained).  Result: cache, read_offset,
     inner, inner_eof.  An inner error with a drained cache is returned (state left Empty);
     with bytes still in the cache it is swallowed: the pass goes on with the cached bytes. *)
  Definition refill (cache0 : bytes) (ro0 : N) (i : st S) : res (bytes * N * st S * bool) :=
    let '(cache, ro) := reset_cache cache0 ro0 in
    if FSBUF <? len cache then Crash 983          (* &mut cache[cache_filled_offset..] *)
    else
      match rd S i (FSBUF - len cache) with
      | (i', Ok data) =>
        (* read == 0 && read_offset == cache_filled_offset (before += read) *)
        Ok (cache ++ data, ro, i', (len data =? 0) && (ro =? len cache))
      | (i', Err e) => if ro =? len cache then Err e else Ok (cache, ro, i', false)
      | (i', Crash c) => Crash c
      end.

  (* l.1083-1100: the final match on `ret` (Ok(output_offset) here), with self.state already
     re-assigned.  None = Ok(None): another pass is needed. *)
  Definition finish (eof : bool) (n : N) (more : bool) (d' : fsdata) (out : bytes)
    : fstate * res (option bytes) :=
    if (len out =? 0) && eof then
      if 0 <? fs_ur d' then (FInData d', Err EUnexpectedEof)   (* inside a stream, no more data *)
      else (FInData d', Ok (Some []))
    else if (len out =? 0) && more && negb (n =? 0) then (FInData d', Ok None)
    else (FInData d', Ok (Some out)).

  (* uncompressed_read += u32::try_from(output_offset).map_err(..)?  — the `?` returns with
     the state Empty; the += is a checked u32 addition *)
  Definition add_ur (ur : N) (out : bytes) : res N :=
    if 2 ^ 32 <=? len out then Err EInval
    else if 2 ^ 32 <=? ur + len out then Crash 1053
    else Ok (ur + len out).

  (* the InData arm of read_pass with a caller buffer of n bytes *)
  Definition pass_indata (d : fsdata) (n : N) : fstate * res (option bytes) :=
    if BLOCK <? fs_ur d then (FEmpty, Err EState)            (* l.964 "Too much data read" *)
    else
      match refill (fs_cache d) (fs_ro d) (fs_in d) with
      | Err e => (FEmpty, Err e)
      | Crash c => (FEmpty, Crash c)
      | Ok (cache, ro, i', eof) =>
        if len cache <? ro then (FEmpty, Crash 1004)           (* cache_filled_offset - read_offset *)
        else if FSBUF <? len cache then (FEmpty, Crash 1024)   (* &cache[read_offset..cache_filled_offset] *)
        else
          (* available_out = min(buf.len(), UNCOMPRESSED_DATA_SIZE - uncompressed_read) *)
          let room := N.min n (BLOCK - fs_ur d) in
          match dstep (fs_ds d) (dropN ro cache) room with
          | (DSuccess, k, out, _) =>
            (* rewind the cache to the start of the next stream; fresh decoder *)
            finish eof n true (mkFs cache (ro + k) dinit 0 i') out
          | (DNeedsMoreInput, k, out, ds') =>
            match add_ur (fs_ur d) out with
            | Ok ur' => finish eof n true (mkFs cache (ro + k) ds' ur' i') out
            | Err e => (FEmpty, Err e)
            | Crash c => (FEmpty, Crash c)
            end
          | (DNeedsMoreOutput, k, out, ds') =>
            match add_ur (fs_ur d) out with
            | Ok ur' => finish eof n false (mkFs cache (ro + k) ds' ur' i') out
            | Err e => (FEmpty, Err e)
            | Crash c => (FEmpty, Crash c)
            end
          | (DFailure, _, _, ds') =>
            (* offsets untouched, the (failed) decoder state kept, output dropped *)
            (FInData (mkFs cache ro ds' (fs_ur d) i'), Err EInval)
          end
      end.

  (* read_pass *)
  Definition fs_pass (f : fstate) (n : N) : fstate * res (option bytes) :=
    match f with
    | FReady i => pass_indata (mkFs [] 0 dinit 0 i) n     (* InData{..}; self.read_pass(buf) *)
    | FInData d => pass_indata d n
    | FEmpty => (FEmpty, Err EState)
    end.

  (* Read::read: loop { if let Some(count) = self.read_pass(buf)? { return Ok(count) } } *)
  Fixpoint fs_read (fuel : nat) (f : fstate) (n : N) : fstate * res bytes :=
    match fuel with
    | O => (f, Err EFuel)
    | Datatypes.S fuel' =>
      match fs_pass f n with
      | (f', Ok (Some d)) => (f', Ok d)
      | (f', Ok None) => fs_read fuel' f' n
      | (f', Err e) => (f', Err e)
      | (f', Crash c) => (f', Crash c)
      end
    end.

  (* a client reading to exhaustion: the i-th read has a buffer of sz i bytes; stops at the
     first Ok(0) (end of stream for std::io::Read) or error.  Result: everything delivered,
     and how it ended (Ok tt = Ok(0)). *)
  Fixpoint fs_drain (rfuel pfuel : nat) (f : fstate) (sz : nat -> N) (i : nat) (acc : bytes)
    : fstate * bytes * res unit :=
    match rfuel with
    | O => (f, acc, Err EFuel)
    | Datatypes.S rfuel' =>
      match fs_read pfuel f (sz i) with
      | (f', Ok d) =>
        if len d =? 0 then (f', acc, Ok tt)
        else fs_drain rfuel' pfuel f' sz (Datatypes.S i) (acc ++ d)
      | (f', Err e) => (f', acc, Err e)
      | (f', Crash c) => (f', acc, Crash c)
      end
    end.

  Definition fs_read_all (rfuel pfuel : nat) (i0 : st S) (sz : nat -> N) : bytes * res unit :=
    let '(_, out, r) := fs_drain rfuel pfuel (fs_new i0) sz 0 [] in (out, r).
End FailSafe.

Arguments mkFs {dstate S}.
Arguments FReady {dstate S}.
Arguments FInData {dstate S}.
Arguments FEmpty {dstate S}.
Arguments fs_cache {dstate S}.
Arguments fs_ro {dstate S}.
Arguments fs_ds {dstate S}.
Arguments fs_ur {dstate S}.
Arguments fs_in {dstate S}.
