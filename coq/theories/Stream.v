(* Stream.v — readable/seekable byte streams as the layers see them (std::io::Read + Seek),
   the in-memory cursor, throttled sources, the combinators of std (read_exact,
   take(n).read_to_end, io::copy to a sink), and the refinement relation
   "S behaves as a cursor over b". *)
From MLA Require Import Base.
From Coq Require Import ZifyBool ZifyNat ZifyN.
Open Scope N_scope.

Inductive whence := FromStart (p : N) | FromCur (d : Z) | FromEnd (d : Z).

Record Stream := {
  st : Type;
  (* Read::read with a buffer of n bytes: new state, bytes delivered (at most n) *)
  rd : st -> N -> st * res bytes;
  (* Seek::seek *)
  sk : st -> whence -> st * res N;
}.

(* ---------- std::io::Cursor over a byte string ---------- *)

Definition cursor_rd (b : bytes) (pos : N) (n : N) : N * res bytes :=
  let d := sliceN (N.min pos (len b)) n b in
  (pos + len d, Ok d).

Definition seek_target (base : N) (d : Z) : res N :=
  let t := (Z.of_N base + d)%Z in
  if (t <? 0)%Z then Err EInval else Ok (Z.to_N t).

Definition cursor_sk (b : bytes) (pos : N) (w : whence) : N * res N :=
  match w with
  | FromStart p => (p, Ok p)
  | FromCur d => match seek_target pos d with Ok q => (q, Ok q) | r => (pos, r) end
  | FromEnd d => match seek_target (len b) d with Ok q => (q, Ok q) | r => (pos, r) end
  end.

Definition Cursor (b : bytes) : Stream := {| st := N; rd := cursor_rd b; sk := cursor_sk b |}.

(* A source that returns at most (next schedule entry, at least 1) bytes per read; the
   schedule repeats its last entry.  Seeks as a cursor. *)
Definition throttled_rd (b : bytes) (s : N * list N) (n : N) : (N * list N) * res bytes :=
  let '(pos, sched) := s in
  let '(k, sched') := match sched with
                      | [] => (n, [])
                      | [k] => (N.max 1 k, [k])
                      | k :: r => (N.max 1 k, r)
                      end in
  let '(pos', r) := cursor_rd b pos (N.min n k) in
  ((pos', sched'), r).
Definition throttled_sk (b : bytes) (s : N * list N) (w : whence) : (N * list N) * res N :=
  let '(pos, sched) := s in
  let '(pos', r) := cursor_sk b pos w in ((pos', sched), r).
Definition Throttled (b : bytes) : Stream :=
  {| st := N * list N; rd := throttled_rd b; sk := throttled_sk b |}.

(* ---------- in-range seek targets ---------- *)

(* the absolute position a seek denotes on a stream of length l at position p, when it lies
   in [0, l] *)
Definition target (l p : N) (w : whence) : option N :=
  let t := match w with
           | FromStart q => Z.of_N q
           | FromCur d => (Z.of_N p + d)%Z
           | FromEnd d => (Z.of_N l + d)%Z
           end in
  if ((0 <=? t) && (t <=? Z.of_N l))%Z then Some (Z.to_N t) else None.

(* ---------- refinement ---------- *)

(* Through the invariant R (R s p: "state s stands at position p"), S behaves as a cursor
   over b: a read of n delivers the next k <= n bytes, k = 0 only when n = 0 or at the end
   (short reads allowed, progress and EOF fixed); a seek to any target in [0, |b|] returns
   the cursor's position. *)
Record Refines (S : Stream) (b : bytes) (R : st S -> N -> Prop) : Prop := {
  ref_range : forall s p, R s p -> p <= len b;
  ref_rd : forall s p n, R s p ->
    exists s' k, rd S s n = (s', Ok (sliceN p k b)) /\ k <= n /\ p + k <= len b /\
                 (k = 0 -> n = 0 \/ p = len b) /\ R s' (p + k);
  ref_sk : forall s p w q, R s p -> target (len b) p w = Some q ->
    exists s', sk S s w = (s', Ok q) /\ R s' q;
}.

Lemma cursor_refines b : Refines (Cursor b) b (fun s p => s = p /\ p <= len b).
Proof.
  constructor.
  - intros s p [_ H]; exact H.
  - intros s p n [-> Hp]. cbn [Cursor rd st]. unfold cursor_rd.
    replace (N.min p (len b)) with p by lia.
    exists (p + len (sliceN p n b)), (N.min n (len b - p)).
    assert (Hl : len (sliceN p n b) = N.min n (len b - p)).
    { unfold sliceN. rewrite len_takeN, len_dropN. reflexivity. }
    assert (Hs : sliceN p n b = sliceN p (N.min n (len b - p)) b).
    { unfold sliceN. destruct (N.le_gt_cases n (len b - p)).
      - f_equal; lia.
      - rewrite !takeN_all by (rewrite len_dropN; lia). reflexivity. }
    rewrite Hl. rewrite Hs at 1.
    repeat split; try lia.
  - intros s p w q [-> Hp] Ht. cbn [Cursor sk st]. unfold cursor_sk, target in *.
    destruct w as [q0|d|d]; unfold seek_target.
    + destruct ((0 <=? Z.of_N q0) && (Z.of_N q0 <=? Z.of_N (len b)))%Z eqn:E; [|discriminate].
      injection Ht as <-. exists q0. rewrite N2Z.id. repeat split; lia.
    + destruct ((0 <=? Z.of_N p + d) && (Z.of_N p + d <=? Z.of_N (len b)))%Z eqn:E; [|discriminate].
      injection Ht as <-.
      destruct (Z.of_N p + d <? 0)%Z eqn:E2; [lia|].
      eexists; repeat split; lia.
    + destruct ((0 <=? Z.of_N (len b) + d) && (Z.of_N (len b) + d <=? Z.of_N (len b)))%Z eqn:E; [|discriminate].
      injection Ht as <-.
      destruct (Z.of_N (len b) + d <? 0)%Z eqn:E2; [lia|].
      eexists; repeat split; lia.
Qed.

Lemma throttled_refines b :
  Refines (Throttled b) b (fun s p => fst s = p /\ p <= len b).
Proof.
  constructor.
  - intros s p [_ H]; exact H.
  - intros [pos sched] p n [Hs Hp]. cbn [fst] in Hs. subst pos.
    cbn [Throttled rd st]. unfold throttled_rd.
    set (ks := match sched with [] => (n, []) | [k] => (N.max 1 k, [k]) | k :: (_ :: _) as r => (N.max 1 k, r) end).
    destruct ks as [k sched'] eqn:Ek.
    assert (Hk : n = 0 \/ 1 <= k).
    { subst ks. destruct sched as [|k0 [|k1 r]]; injection Ek as <- <-; lia. }
    destruct (ref_rd _ _ _ (cursor_refines b) p p (N.min n k) (conj eq_refl Hp))
      as (s' & k' & Hrd & Hle & Hb & Hz & [-> _]).
    cbn [Cursor rd st] in Hrd. rewrite Hrd.
    exists (p + k', sched'), k'. cbn [fst]. repeat split; try lia.
  - intros [pos sched] p w q [Hs Hp] Ht. cbn [fst] in Hs. subst pos.
    cbn [Throttled sk st]. unfold throttled_sk.
    destruct (ref_sk _ _ _ (cursor_refines b) p p w q (conj eq_refl Hp) Ht) as (s' & Hsk & [-> Hq]).
    cbn [Cursor sk st] in Hsk. rewrite Hsk. exists (q, sched). cbn [fst]. auto.
Qed.

(* ---------- combinators of std ---------- *)

Section Combinators.
  Variable S : Stream.

  (* take(n).read_to_end(&mut v): read until n bytes are collected or a read returns 0.
     fuel bounds the number of read calls. *)
  Fixpoint read_full_aux (fuel : nat) (s : st S) (n : N) (acc : bytes) : st S * res bytes :=
    if n =? 0 then (s, Ok acc) else
    match fuel with
    | O => (s, Err EFuel)
    | Datatypes.S fuel' =>
      match rd S s n with
      | (s', Ok d) =>
        if len d =? 0 then (s', Ok acc)
        else if n <? len d then (s', Crash 900)  (* a Read impl returning more than asked *)
        else read_full_aux fuel' s' (n - len d) (acc ++ d)
      | (s', Err e) => (s', Err e)
      | (s', Crash c) => (s', Crash c)
      end
    end.
  Definition read_full (fuel : nat) (s : st S) (n : N) : st S * res bytes :=
    read_full_aux fuel s n [].

  (* read_exact *)
  Definition read_exact (fuel : nat) (s : st S) (n : N) : st S * res bytes :=
    match read_full fuel s n with
    | (s', Ok d) => if len d <? n then (s', Err EUnexpectedEof) else (s', Ok d)
    | r => r
    end.

  Variable b : bytes.
  Variable R : st S -> N -> Prop.
  Hypothesis HR : Refines S b R.

  Lemma read_full_aux_spec fuel : forall s p n acc,
    R s p -> (N.to_nat (N.min n (len b - p)) < fuel)%nat ->
    exists s', read_full_aux fuel s n acc = (s', Ok (acc ++ sliceN p n b)) /\
               R s' (p + N.min n (len b - p)).
  Proof.
    induction fuel as [|fuel IH]; intros s p n acc HRs Hf; [lia|].
    cbn [read_full_aux].
    destruct (N.eqb_spec n 0) as [->|Hn].
    - exists s. unfold sliceN. rewrite takeN_0, app_nil_r. split; [reflexivity|].
      replace (p + N.min 0 (len b - p)) with p by lia. exact HRs.
    - destruct (ref_rd _ _ _ HR s p n HRs) as (s' & k & Hrd & Hkn & Hkb & Hz & HR').
      rewrite Hrd.
      assert (Hlen : len (sliceN p k b) = k).
      { unfold sliceN. rewrite len_takeN, len_dropN. lia. }
      rewrite Hlen.
      destruct (N.eqb_spec k 0) as [->|Hk].
      + exists s'. destruct (Hz eq_refl) as [?|Hend]; [lia|].
        unfold sliceN. rewrite (dropN_all p b) by lia. rewrite takeN_nil, app_nil_r.
        split; [reflexivity|]. replace (p + N.min n (len b - p)) with (p + 0) by lia. exact HR'.
      + destruct (N.ltb_spec n k) as [?|_]; [lia|].
        destruct (IH s' (p + k) (n - k) (acc ++ sliceN p k b) HR') as (s'' & Heq & HR''); [lia|].
        exists s''. rewrite Heq. split.
        * f_equal. f_equal. rewrite <- app_assoc. f_equal.
          unfold sliceN. replace n with (k + (n - k)) at 2 by lia.
          rewrite takeN_add, dropN_dropN. reflexivity.
        * replace (p + N.min n (len b - p)) with (p + k + N.min (n - k) (len b - (p + k))) by lia.
          exact HR''.
  Qed.

  Lemma read_full_spec fuel s p n :
    R s p -> (N.to_nat (N.min n (len b - p)) < fuel)%nat ->
    exists s', read_full fuel s n = (s', Ok (sliceN p n b)) /\ R s' (p + N.min n (len b - p)).
  Proof.
    intros HRs Hf. unfold read_full.
    destruct (read_full_aux_spec fuel s p n [] HRs Hf) as (s' & H1 & H2).
    exists s'. now rewrite H1.
  Qed.

  Lemma read_exact_spec fuel s p n :
    R s p -> (N.to_nat (N.min n (len b - p)) < fuel)%nat ->
    exists s', R s' (p + N.min n (len b - p)) /\
      read_exact fuel s n =
        (s', if p + n <=? len b then Ok (sliceN p n b) else Err EUnexpectedEof).
  Proof.
    intros HRs Hf. unfold read_exact.
    destruct (read_full_spec fuel s p n HRs Hf) as (s' & -> & HR').
    exists s'. split; [exact HR'|].
    pose proof (ref_range _ _ _ HR s p HRs) as Hp.
    assert (Hlen : len (sliceN p n b) = N.min n (len b - p)).
    { unfold sliceN. rewrite len_takeN, len_dropN. reflexivity. }
    rewrite Hlen.
    destruct (N.leb_spec (p + n) (len b)); destruct (N.ltb_spec (N.min n (len b - p)) n);
      try reflexivity; lia.
  Qed.
End Combinators.

Arguments read_full S fuel s n : clear implicits.
Arguments read_exact S fuel s n : clear implicits.
