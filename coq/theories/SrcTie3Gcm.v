(* SrcTie3Gcm.v — Tie A level 1 for mla/src/crypto/aesgcm.rs (work package cryptoT).
   gen/Src3g.v is regenerated from /repo on every run by tools/src2v3_crypto.py (statement by statement:
   AesGcm256::{new, encrypt, into_tag, decrypt_unauthenticated, decrypt} over the trusted primitives
   Ctr128BE / GHash / Aes256 listed in the translator's header).  Here the generated functions are proved
   EQUAL to the hand-written model Gcm.v for every key, nonce, associated data, object state and buffer:

     aesgcm_new_src, aesgcm_encrypt_src, aesgcm_into_tag_src, aesgcm_decrypt_unauth_src, aesgcm_decrypt_src

   and the C06 one-shot theorem is carried onto the translated code (C06_gcm_incremental_oneshot_src).
   The state correspondence repG is a bijection between the translated struct (with the key the Ctr holds)
   and Gcm.gstate, so "for every state" loses nothing.  Premises: the block function returns 16 bytes (HE, the
   model's only premise on E), the array types of the signature (len key = 32, len nonce = 12), and for
   encrypt `len current_block < 16`, an invariant established by new and kept by encrypt (encrypt_cur_lt_src);
   outside it the source panics (BLOCK_SIZE - current_block.len() underflows) where the model's N subtraction
   truncates: unreachable by any call sequence. *)
From MLA Require Import Base Gcm GcmProofs.
From MLA.Concrete Require Import Aes Ghash GcmSpec.
From MLAGen Require Import Src3g.
From Coq Require Import ZifyBool ZifyNat ZifyN.
Open Scope N_scope.

Lemma len_be_bytes w v : len (be_bytes w v) = N.of_nat w.
Proof. unfold len. now rewrite length_be_bytes. Qed.

Lemma len_eq_12 (l : bytes) : len l = 12 ->
  exists a0 a1 a2 a3 a4 a5 a6 a7 a8 a9 a10 a11, l = [a0; a1; a2; a3; a4; a5; a6; a7; a8; a9; a10; a11].
Proof.
  intros H. do 12 (destruct l as [|? l]; [discriminate H|]).
  destruct l; [|unfold len in H; cbn [length] in H; lia].
  repeat eexists.
Qed.

Lemma ok_pair_inv {A B} (a a' : A) (b b' : B) : @Ok (A * B) (a, b) = Ok (a', b') -> a = a' /\ b = b'.
Proof.
  intros H. split.
  - exact (f_equal (fun r => match r with Ok (x, _) => x | _ => a end) H).
  - exact (f_equal (fun r => match r with Ok (_, y) => y | _ => b end) H).
Qed.

Section Checked.
  Variables si sl : N.
  (* ---------- small facts about the checked primitives ---------- *)
  Lemma copy_range_ok d a b s : a <= b -> b <= len d -> len s = b - a ->
    copy_range si sl d a b s = Ok (takeN a d ++ s ++ dropN b d).
  Proof.
    intros H1 H2 H3. unfold copy_range.
    destruct ((b <? a) || (len d <? b)) eqn:C; [lia|].
    destruct (negb (len s =? b - a)) eqn:C2; [lia|]. reflexivity.
  Qed.

  (* the "len(A) || len(C)" block as the source builds it *)
  Lemma len_block_src {A} a b (k : bytes -> res A) :
    (do b1 <- copy_range si sl (zeros 16) 0 8 (be_bytes 8 a);
     do b2 <- copy_range si sl b1 8 (len b1) (be_bytes 8 b); k b2)
    = k (be_bytes 8 a ++ be_bytes 8 b).
  Proof.
    assert (Ha : len (be_bytes 8 a) = 8) by apply len_be_bytes.
    assert (Hb : len (be_bytes 8 b) = 8) by apply len_be_bytes.
    assert (Hz : len (zeros 16) = 16) by reflexivity.
    rewrite copy_range_ok; [| lia | rewrite Hz; lia | rewrite Ha; lia ].
    cbn [bind]. change (takeN 0 (zeros 16)) with (@nil N). cbn [app].
    set (b1 := be_bytes 8 a ++ dropN 8 (zeros 16)).
    assert (Hl : len b1 = 16) by (unfold b1; rewrite len_app, Ha; reflexivity).
    rewrite copy_range_ok by (rewrite ?Hl, ?Hb; lia).
    cbn [bind]. apply f_equal. unfold b1.
    rewrite takeN_app_le by lia. rewrite takeN_all by lia.
    rewrite dropN_all by (fold b1; lia). now rewrite app_nil_r.
  Qed.

End Checked.

Section Tie.
  Variable E : bytes -> bytes -> bytes.
  Variable gmul : N -> N -> N.
  Hypothesis HE : forall k b, length b = 16%nat -> length (E k b) = 16%nat.
  Variables ss si sl : N.

  (* ---------- the state correspondence ---------- *)
  Definition repG (key : bytes) (g : gstate) : AesGcm256 :=
    mkAesGcm256 (mkCtr key (g_iv g) (g_pos g)) (mkGHash (g_h g) (g_acc g)) (g_aad_bits g) (g_cur g) (g_enc g).
  Definition absG (s : AesGcm256) : gstate :=
    mk_gstate (ctr_iv (cipher s)) (ctr_pos (cipher s)) (gh_key (ghash s)) (gh_y (ghash s))
              (associated_data_bits_len s) (current_block s) (bytes_encrypted s).
  Definition keyG (s : AesGcm256) : bytes := ctr_key (cipher s).

  Lemma repG_absG s : repG (keyG s) (absG s) = s.
  Proof. destruct s as [[k iv p] [h y] a c e]. reflexivity. Qed.
  Lemma absG_repG k g : absG (repG k g) = g.
  Proof. destruct g. reflexivity. Qed.
  Lemma keyG_repG k g : keyG (repG k g) = k.
  Proof. reflexivity. Qed.

  Lemma len_ks_range k iv pos n : len (ks_range (E k) iv pos n) = n.
  Proof.
    set (M := N.to_nat ((pos + n) / 16 + 1)).
    rewrite (ks_range_KS (E k) (HE k) iv M) by (unfold M; lia).
    rewrite len_sliceN, (len_KS (E k) (HE k)). unfold M. lia.
  Qed.

  Lemma len_apply_keystream k g buf : len (snd (apply_keystream (E k) g buf)) = len buf.
  Proof. unfold apply_keystream. cbn [snd]. rewrite len_xor_bytes, len_ks_range. lia. Qed.

  Lemma Ctr_apply_src k g buf :
    Ctr_apply_keystream E (cipher (repG k g)) buf
    = (cipher (repG k (set_pos g (g_pos g + len buf))), snd (apply_keystream (E k) g buf)).
  Proof. destruct g. reflexivity. Qed.
  Lemma apply_ks_eq k g buf :
    apply_keystream (E k) g buf = (set_pos g (g_pos g + len buf), snd (apply_keystream (E k) g buf)).
  Proof. reflexivity. Qed.

  (* ---------- new ---------- *)
  Theorem aesgcm_new_src key nonce aad : len key = 32 -> len nonce = 12 ->
    AesGcm256_new E gmul si sl key nonce aad = Ok (repG key (gcm_new (E key) gmul nonce aad)).
  Proof.
    intros Hk Hn. destruct (len_eq_12 nonce Hn) as (a0&a1&a2&a3&a4&a5&a6&a7&a8&a9&a10&a11&->).
    unfold AesGcm256_new, Aes256_new. rewrite Hk. reflexivity.
  Qed.

  (* ---------- the chunk loops ---------- *)
  Lemma enc_for_src n : forall k g buf, 16 * N.of_nat n <= len buf ->
    AesGcm256_encrypt_for1 E gmul sl n (repG k g) buf
    = Ok (repG k (fst (enc_chunks (E k) gmul n g buf)), snd (enc_chunks (E k) gmul n g buf)).
  Proof.
    induction n as [|n IH]; intros k g buf Hb; cbn [AesGcm256_encrypt_for1 enc_chunks]; [reflexivity|].
    change BLOCK_SIZE with 16.
    rewrite Ctr_apply_src, (apply_ks_eq k g (takeN 16 buf)).
    pose proof (len_apply_keystream k g (takeN 16 buf)) as Hc.
    set (c := snd (apply_keystream (E k) g (takeN 16 buf))) in *.
    rewrite len_takeN in Hc.
    set (s1 := set_pos g (g_pos g + len (takeN 16 buf))).
    cbn [fst snd].
    unfold as_block. replace (len c =? 16) with true by lia. cbn [bind].
    match goal with |- context [AesGcm256_encrypt_for1 _ _ _ n ?s _] =>
      replace s with (repG k (set_acc s1 (gh_block gmul (g_h s1) (g_acc s1) c))) by (destruct g; reflexivity) end.
    rewrite IH by (rewrite len_dropN; lia). cbn [bind].
    destruct (enc_chunks (E k) gmul n _ (dropN 16 buf)) as [s3 out]. reflexivity.
  Qed.

  Lemma dec_for_src n : forall k g buf, 16 * N.of_nat n <= len buf ->
    AesGcm256_decrypt_for1 E gmul sl n (repG k g) buf
    = Ok (repG k (fst (dec_chunks (E k) gmul n g buf)), snd (dec_chunks (E k) gmul n g buf)).
  Proof.
    induction n as [|n IH]; intros k g buf Hb; cbn [AesGcm256_decrypt_for1 dec_chunks]; [reflexivity|].
    change BLOCK_SIZE with 16.
    unfold as_block. replace (len (takeN 16 buf) =? 16) with true by (rewrite len_takeN; lia). cbn [bind].
    set (g1 := set_acc g (gh_block gmul (g_h g) (g_acc g) (takeN 16 buf))).
    match goal with |- context [Ctr_apply_keystream E (cipher ?s) _] =>
      replace s with (repG k g1) by (destruct g; reflexivity) end.
    rewrite Ctr_apply_src, (apply_ks_eq k g1 (takeN 16 buf)).
    set (p := snd (apply_keystream (E k) g1 (takeN 16 buf))).
    set (s2 := set_pos g1 (g_pos g1 + len (takeN 16 buf))).
    match goal with |- context [AesGcm256_decrypt_for1 _ _ _ n ?s _] =>
      replace s with (repG k s2) by (destruct g; reflexivity) end.
    rewrite IH by (rewrite len_dropN; lia). cbn [bind].
    destruct (dec_chunks (E k) gmul n s2 (dropN 16 buf)) as [s3 out]. reflexivity.
  Qed.

  (* `if !rem.is_empty()` against the model's match *)
  Lemma is_empty_match {A B} (l : list A) (x y : B) :
    (if negb (len l =? 0) then x else y) = match l with [] => y | _ :: _ => x end.
  Proof. destruct l; reflexivity. Qed.

  (* the part of encrypt that runs with current_block empty *)
  Definition src_aligned (k : bytes) (s : AesGcm256) (buf : bytes) : res (AesGcm256 * bytes) :=
    do (s1, done) <- AesGcm256_encrypt_for1 E gmul sl (N.to_nat (len buf / 16)) s buf;
    let rem := dropN (16 * (len buf / 16)) buf in
    if negb (len rem =? 0) then
      let '(cs, o) := Ctr_apply_keystream E (cipher s1) rem in
      let s2 := set_cipher s1 cs in
      Ok (set_current_block s2 (current_block s2 ++ o), done ++ o)
    else Ok (s1, done ++ rem).

  Lemma enc_aligned_src k g buf :
    src_aligned k (repG k g) buf
    = Ok (repG k (fst (enc_aligned (E k) gmul g buf)), snd (enc_aligned (E k) gmul g buf)).
  Proof.
    unfold src_aligned, enc_aligned.
    rewrite enc_for_src by lia. cbn [bind].
    destruct (enc_chunks (E k) gmul (N.to_nat (len buf / 16)) g buf) as [s1 out]. cbn [fst snd].
    rewrite is_empty_match.
    destruct (dropN (16 * (len buf / 16)) buf) as [|x r] eqn:Hrem.
    - now rewrite app_nil_r.
    - rewrite Ctr_apply_src, (apply_ks_eq k s1 (x :: r)).
      destruct s1. reflexivity.
  Qed.

  (* ---------- encrypt ---------- *)
  Theorem aesgcm_encrypt_src key g buf : len (g_cur g) < 16 ->
    AesGcm256_encrypt E gmul ss si sl (repG key g) buf
    = Ok (repG key (fst (gcm_encrypt_piece (E key) gmul g buf)), snd (gcm_encrypt_piece (E key) gmul g buf)).
  Proof.
    intros Hcur. unfold AesGcm256_encrypt, gcm_encrypt_piece. change BLOCK_SIZE with 16.
    set (g1 := set_enc g (g_enc g + len buf)).
    replace (set_bytes_encrypted (repG key g) (bytes_encrypted (repG key g) + len buf)) with (repG key g1)
      by (destruct g; reflexivity).
    assert (Hlt : len (g_cur g1) < 16) by (destruct g; exact Hcur).
    change (current_block (repG key g1)) with (g_cur g1).
    rewrite is_empty_match.
    destruct (g_cur g1) as [|c0 cr] eqn:Hcg.
    - (* current_block empty *)
      pose proof (enc_aligned_src key g1 buf) as H. unfold src_aligned in H.
      exact H.
    - rewrite <- Hcg in *.
      destruct (len (g_cur g1) + len buf <? 16) eqn:Hsmall.
      + rewrite Ctr_apply_src, (apply_ks_eq key g1 buf). destruct g1. reflexivity.
      + unfold csub. replace (len (g_cur g1) <=? 16) with true by lia. cbn [bind].
        unfold split_at. replace (len buf <? 16 - len (g_cur g1)) with false by lia. cbn [bind].
        set (kk := 16 - len (g_cur g1)).
        rewrite Ctr_apply_src, (apply_ks_eq key g1 (takeN kk buf)).
        pose proof (len_apply_keystream key g1 (takeN kk buf)) as Hlc.
        set (c := snd (apply_keystream (E key) g1 (takeN kk buf))) in *.
        set (s1 := set_pos g1 (g_pos g1 + len (takeN kk buf))).
        assert (Hcs : g_cur s1 = g_cur g1) by (destruct g1; reflexivity).
        rewrite len_takeN in Hlc.
        match goal with |- context [as_block sl ?x] => replace x with (g_cur s1 ++ c) by (destruct g1; reflexivity) end.
        unfold as_block. replace (len (g_cur s1 ++ c) =? 16) with true by (rewrite len_app, Hcs; lia).
        cbn [bind].
        set (s2 := set_cur (set_acc s1 (gh_block gmul (g_h s1) (g_acc s1) (g_cur s1 ++ c))) []).
        pose proof (enc_aligned_src key s2 (dropN kk buf)) as H. unfold src_aligned in H.
        match goal with |- context [AesGcm256_encrypt_for1 _ _ _ _ ?s _] =>
          replace s with (repG key s2) by (destruct g1; reflexivity) end.
        destruct (AesGcm256_encrypt_for1 E gmul sl _ (repG key s2) (dropN kk buf)) as [[sa done]| |]; cbn [bind] in *;
          try discriminate H.
        destruct (enc_aligned (E key) gmul s2 (dropN kk buf)) as [s3 out]. cbn [fst snd] in *.
        destruct (negb (len (dropN (16 * (len (dropN kk buf) / 16)) (dropN kk buf)) =? 0)).
        * destruct (Ctr_apply_keystream E (cipher sa) _) as [cs o]. apply ok_pair_inv in H. destruct H as [H1 H2]. subst out. now rewrite H1.
        * apply ok_pair_inv in H. destruct H as [H1 H2]. subst out. now rewrite H1.
  Qed.

  (* ---------- into_tag ---------- *)
  Theorem aesgcm_into_tag_src key g :
    AesGcm256_into_tag E gmul si sl (repG key g) = Ok (gcm_into_tag (E key) gmul g).
  Proof.
    unfold AesGcm256_into_tag. cbv zeta.
    rewrite (len_block_src si sl). unfold gcm_into_tag, len_block.
    destruct g. reflexivity.
  Qed.

  (* ---------- decrypt_unauthenticated ---------- *)
  Theorem aesgcm_decrypt_unauth_src key g buf :
    AesGcm256_decrypt_unauthenticated E (repG key g) buf
    = Ok (repG key (fst (gcm_decrypt_unauth (E key) g buf)), snd (gcm_decrypt_unauth (E key) g buf)).
  Proof. destruct g. reflexivity. Qed.

  (* ---------- decrypt ---------- *)
  Theorem aesgcm_decrypt_src key g buf :
    AesGcm256_decrypt E gmul si sl (repG key g) buf
    = let '(g', p, t) := Gcm.gcm_decrypt (E key) gmul g buf in Ok (repG key g', p, t).
  Proof.
    unfold AesGcm256_decrypt, Gcm.gcm_decrypt. change BLOCK_SIZE with 16.
    rewrite dec_for_src by lia. cbn [bind].
    destruct (dec_chunks (E key) gmul (N.to_nat (len buf / 16)) g buf) as [s1 out]. cbn [fst snd].
    rewrite is_empty_match. cbv zeta.
    destruct (dropN (16 * (len buf / 16)) buf) as [|x r] eqn:Hrem; cbn [dec_rem].
    - rewrite (len_block_src si sl). rewrite app_nil_r. unfold len_block. destruct s1. reflexivity.
    - match goal with |- context [Ctr_apply_keystream E (cipher ?s) _] =>
        replace s with (repG key (set_acc s1 (gh_update_padded gmul (g_h s1) (g_acc s1) (x :: r))))
          by (destruct s1; reflexivity) end.
      rewrite Ctr_apply_src, apply_ks_eq.
      rewrite (len_block_src si sl). unfold len_block. destruct s1. reflexivity.
  Qed.

  (* ---------- the invariant of encrypt: current_block stays shorter than a block ---------- *)
  Lemma enc_chunks_cur k n : forall g buf, g_cur (fst (enc_chunks (E k) gmul n g buf)) = g_cur g.
  Proof.
    induction n as [|n IH]; intros g buf; cbn [enc_chunks]; [reflexivity|].
    rewrite (apply_ks_eq k g (takeN 16 buf)).
    match goal with |- context [enc_chunks _ _ n ?s ?b] => specialize (IH s b); destruct (enc_chunks (E k) gmul n s b) end.
    cbn [fst] in *. rewrite IH. destruct g. reflexivity.
  Qed.

  Lemma enc_aligned_cur k g buf : g_cur g = [] -> len (g_cur (fst (enc_aligned (E k) gmul g buf))) < 16.
  Proof.
    intros Hg. unfold enc_aligned.
    pose proof (enc_chunks_cur k (N.to_nat (len buf / 16)) g buf) as Hc.
    destruct (enc_chunks (E k) gmul (N.to_nat (len buf / 16)) g buf) as [s1 out]. cbn [fst] in Hc.
    destruct (dropN (16 * (len buf / 16)) buf) as [|x r] eqn:Hrem.
    - cbn [fst]. rewrite Hc, Hg. reflexivity.
    - rewrite <- Hrem. rewrite (apply_ks_eq k s1). cbn [fst].
      pose proof (len_apply_keystream k s1 (dropN (16 * (len buf / 16)) buf)) as Hl.
      rewrite len_dropN in Hl.
      replace (g_cur (set_cur _ _)) with (g_cur s1 ++ snd (apply_keystream (E k) s1 (dropN (16 * (len buf / 16)) buf)))
        by (destruct s1; reflexivity).
      rewrite Hc, Hg. cbn [app]. lia.
  Qed.

  Lemma encrypt_cur_lt k g buf : len (g_cur g) < 16 ->
    len (g_cur (fst (gcm_encrypt_piece (E k) gmul g buf))) < 16.
  Proof.
    intros Hcur. unfold gcm_encrypt_piece.
    set (g1 := set_enc g (g_enc g + len buf)).
    assert (Hlt : len (g_cur g1) < 16) by (destruct g; exact Hcur).
    destruct (g_cur g1) as [|c0 cr] eqn:Hcg.
    - apply enc_aligned_cur. exact Hcg.
    - rewrite <- Hcg in *. destruct (len (g_cur g1) + len buf <? 16) eqn:Hs.
      + rewrite (apply_ks_eq k g1 buf). cbn [fst].
        pose proof (len_apply_keystream k g1 buf) as Hl.
        replace (g_cur (set_cur _ _)) with (g_cur g1 ++ snd (apply_keystream (E k) g1 buf)) by (destruct g1; reflexivity).
        rewrite len_app. lia.
      + rewrite (apply_ks_eq k g1).
        match goal with |- context [enc_aligned _ _ ?s ?b] =>
          pose proof (enc_aligned_cur k s b eq_refl) as Ha; destruct (enc_aligned (E k) gmul s b) end.
        exact Ha.
  Qed.

  (* the same fact about the translated code *)
  Corollary encrypt_cur_lt_src key s buf s' o : len (current_block s) < 16 -> keyG s = key ->
    AesGcm256_encrypt E gmul ss si sl s buf = Ok (s', o) -> len (current_block s') < 16 /\ keyG s' = key.
  Proof.
    intros Hc Hk H. rewrite <- (repG_absG s), Hk in H.
    rewrite aesgcm_encrypt_src in H by (destruct s; exact Hc).
    apply ok_pair_inv in H. destruct H as [<- _]. split; [|reflexivity].
    apply (encrypt_cur_lt key (absG s) buf). destruct s; exact Hc.
  Qed.

  (* ---------- a sequence of encrypt calls, then into_tag ---------- *)
  Fixpoint src_encrypt_pieces (s : AesGcm256) (ps : list bytes) : res (AesGcm256 * list bytes) :=
    match ps with
    | [] => Ok (s, [])
    | p :: r =>
      do (s1, o) <- AesGcm256_encrypt E gmul ss si sl s p;
      do (s2, os) <- src_encrypt_pieces s1 r;
      Ok (s2, o :: os)
    end.

  (* new; encrypt piece by piece; into_tag — all three translated *)
  Definition src_encrypt_incremental (key nonce aad : bytes) (ps : list bytes) : res (list bytes * bytes) :=
    do s0 <- AesGcm256_new E gmul si sl key nonce aad;
    do (s, outs) <- src_encrypt_pieces s0 ps;
    do t <- AesGcm256_into_tag E gmul si sl s;
    Ok (outs, t).

  Lemma src_encrypt_pieces_sim key ps : forall g, len (g_cur g) < 16 ->
    src_encrypt_pieces (repG key g) ps
    = Ok (repG key (fst (gcm_encrypt_pieces (E key) gmul g ps)), snd (gcm_encrypt_pieces (E key) gmul g ps)).
  Proof.
    induction ps as [|p r IH]; intros g Hc; cbn [src_encrypt_pieces gcm_encrypt_pieces]; [reflexivity|].
    rewrite aesgcm_encrypt_src by exact Hc. cbn [bind].
    pose proof (encrypt_cur_lt key g p Hc) as Hc1.
    destruct (gcm_encrypt_piece (E key) gmul g p) as [g1 o]. cbn [fst snd] in *.
    rewrite IH by exact Hc1. cbn [bind].
    destruct (gcm_encrypt_pieces (E key) gmul g1 r) as [g2 os]. reflexivity.
  Qed.

  Theorem src_encrypt_incremental_model key nonce aad ps : len key = 32 -> len nonce = 12 ->
    src_encrypt_incremental key nonce aad ps = Ok (gcm_encrypt_incremental (E key) gmul nonce aad ps).
  Proof.
    intros Hk Hn. unfold src_encrypt_incremental, gcm_encrypt_incremental.
    rewrite aesgcm_new_src by assumption. cbn [bind].
    rewrite src_encrypt_pieces_sim by (cbn [gcm_new g_cur]; reflexivity). cbn [bind].
    destruct (gcm_encrypt_pieces (E key) gmul (gcm_new (E key) gmul nonce aad) ps) as [g outs]. cbn [fst snd].
    rewrite aesgcm_into_tag_src. reflexivity.
  Qed.

  (* C06 carried: any way of cutting a message into encrypt calls of the TRANSLATED code gives the one-shot
     ciphertext and tag of the GCM specification (composition with GcmProofs.gcm_incremental_oneshot) *)
  Theorem gcm_incremental_oneshot_src key nonce aad ps :
    len key = 32 -> length nonce = 12%nat -> wf_bytes nonce -> len (concat ps) <= gcm_max_bytes ->
    exists outs tag,
      src_encrypt_incremental key nonce aad ps = Ok (outs, tag)
      /\ concat outs = fst (gcm_spec (E key) gmul nonce aad (concat ps))
      /\ tag = snd (gcm_spec (E key) gmul nonce aad (concat ps))
      /\ map (@length N) outs = map (@length N) ps.
  Proof.
    intros Hk Hn Hwf HL.
    rewrite src_encrypt_incremental_model by (try assumption; unfold len; rewrite Hn; reflexivity).
    unfold gcm_encrypt_incremental.
    pose proof (gcm_incremental_oneshot (E key) gmul (HE key) nonce aad Hn Hwf ps HL) as H.
    destruct (gcm_encrypt_pieces (E key) gmul (gcm_new (E key) gmul nonce aad) ps) as [g outs].
    destruct H as (H1 & H2 & H3). exists outs, (gcm_into_tag (E key) gmul g). repeat split; assumption.
  Qed.

  (* C03 / C06 carried: the translated decrypt on a one-shot ciphertext returns the plaintext and the tag *)
  Theorem gcm_decrypt_tag_src key nonce aad msg :
    len key = 32 -> length nonce = 12%nat -> wf_bytes nonce -> len msg <= gcm_max_bytes ->
    exists s',
      (do s0 <- AesGcm256_new E gmul si sl key nonce aad;
       AesGcm256_decrypt E gmul si sl s0 (fst (gcm_spec (E key) gmul nonce aad msg)))
      = Ok (s', msg, snd (gcm_spec (E key) gmul nonce aad msg)).
  Proof.
    intros Hk Hn Hwf HL.
    rewrite aesgcm_new_src by (try assumption; unfold len; rewrite Hn; reflexivity). cbn [bind].
    rewrite aesgcm_decrypt_src.
    pose proof (gcm_decrypt_tag_encrypt (E key) gmul (HE key) nonce aad Hn Hwf msg HL) as H.
    destruct (gcm_spec (E key) gmul nonce aad msg) as [ct tag]. cbn [fst snd].
    destruct (Gcm.gcm_decrypt (E key) gmul (gcm_new (E key) gmul nonce aad) ct) as [[g' p] t].
    destruct H as (-> & -> & _). eexists. reflexivity.
  Qed.
End Tie.
