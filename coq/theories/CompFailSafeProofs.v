(* CompFailSafeProofs.v — what the theorems on the fail-safe decompression reader ASSUME of
   brotli's streaming decoder (Record DecoderLaws: part of the trusted base; the harness job
   c02-comp observes every law on the real decoder, fscomp.rs::check_laws), the byte strings
   considered (compressed blocks followed by bytes a fresh decoder makes nothing of), the
   reader's total output written down as a function of the available bytes (fs_spec), and
   list facts.  The reader itself is analysed in CompFailSafeStep.v / CompFailSafeThms.v. *)
From MLA Require Import Base Stream CompFailSafe.
From Coq Require Import ZifyBool ZifyNat ZifyN.
Open Scope N_scope.

(* ---------- list facts ---------- *)
Section PrefixFacts.
  Context {A : Type}.
  Implicit Types a b c z : list A.

  Lemma prefix_nil_l a : prefix [] a.
  Proof. exists a. reflexivity. Qed.
  Lemma prefix_nil_inv a : prefix a [] -> a = [].
  Proof. intros [r H]. symmetry in H. apply app_eq_nil in H. tauto. Qed.
  Lemma prefix_len_eq a b : prefix a b -> len b <= len a -> a = b.
  Proof.
    intros [r ->] H. rewrite len_app in H. assert (len r = 0) by lia.
    rewrite (len_0_nil r) by assumption. symmetry; apply app_nil_r.
  Qed.
  Lemma prefix_comparable a b z : prefix a z -> prefix b z -> prefix a b \/ prefix b a.
  Proof.
    intros Ha Hb. rewrite (prefix_is_takeN a z Ha), (prefix_is_takeN b z Hb).
    destruct (N.le_gt_cases (len a) (len b)); [left | right]; apply prefix_takeN_mono; lia.
  Qed.
  Lemma prefix_app_le a c z : prefix a (c ++ z) -> len a <= len c -> prefix a c.
  Proof.
    intros Ha Hl. rewrite (prefix_is_takeN a _ Ha). rewrite takeN_app_le by exact Hl. apply prefix_takeN.
  Qed.
  Lemma prefix_app_ge a c z : prefix a (c ++ z) -> len c <= len a ->
    exists a', a = c ++ a' /\ prefix a' z.
  Proof.
    intros Ha Hl. exists (takeN (len a - len c) z). split; [|apply prefix_takeN].
    rewrite (prefix_is_takeN a _ Ha) at 1. apply takeN_app_ge. exact Hl.
  Qed.
  Lemma prefix_app_app a b c : prefix b c -> prefix (a ++ b) (a ++ c).
  Proof. intros [r ->]. exists r. apply app_assoc. Qed.
  Lemma prefix_app_inv a b c : prefix (a ++ b) (a ++ c) -> prefix b c.
  Proof. intros [r H]. rewrite <- app_assoc in H. apply app_inv_head in H. exists r. exact H. Qed.
  Lemma prefix_app_l a b c : prefix (a ++ b) c -> prefix a c.
  Proof. intros [r ->]. exists (b ++ r). symmetry; apply app_assoc. Qed.
  Lemma prefix_dropN n a b : prefix a b -> prefix (dropN n a) (dropN n b).
  Proof.
    intros [r ->]. destruct (N.le_gt_cases n (len a)).
    - rewrite dropN_app_le by assumption. apply prefix_app.
    - rewrite (dropN_all n a) by lia. apply prefix_nil_l.
  Qed.
  (* what remains of s after a, when a ++ b is a prefix of s *)
  Lemma dropN_prefix_app a b s : prefix (a ++ b) s ->
    dropN (len a) s = b ++ dropN (len (a ++ b)) s.
  Proof.
    intros [r ->]. rewrite <- app_assoc. rewrite dropN_len_app.
    rewrite app_assoc. rewrite dropN_len_app. reflexivity.
  Qed.
  Lemma dropN_len_self a : dropN (len a) a = [].
  Proof. apply dropN_all. lia. Qed.
  Lemma takeN_dropN_split k a z : k <= len a -> takeN k (a ++ z) = takeN k a.
  Proof. apply takeN_app_le. Qed.
End PrefixFacts.

(* ---------- the decoder laws ---------- *)
Section Laws.
  Variable dstate : Type.
  Variable dinit : dstate.
  Variable dstep : dstate -> bytes -> N -> dresult * N * bytes * dstate.
  (* D x: the maximal output decodable from the compressed bytes x (x: everything consumed
     since the decoder was created); fin x: x is exactly one complete stream *)
  Variable D : bytes -> bytes.
  Variable fin : bytes -> bool.

  (* ds is a state reached from a fresh decoder that has consumed cin and produced cout.
     Only NeedsMoreInput / NeedsMoreOutput steps: the reader discards the decoder state after
     ResultSuccess and stops (for the theorems) after ResultFailure. *)
  Inductive dreach : dstate -> bytes -> bytes -> Prop :=
  | dreach_init : dreach dinit [] []
  | dreach_step ds cin cout inp room r k out ds' :
      dreach ds cin cout -> dstep ds inp room = (r, k, out, ds') ->
      r = DNeedsMoreInput \/ r = DNeedsMoreOutput ->
      dreach ds' (cin ++ takeN k inp) (cout ++ out).

  (* the bytes offered so far are consistent with some complete stream *)
  Definition okin (x : bytes) : Prop := exists c, fin c = true /\ (prefix x c \/ prefix c x).

  Record DecoderLaws : Prop := {
    (* about fin and D *)
    dl_fin_nil : fin [] = false;
    dl_fin_pfree : forall a b, fin a = true -> fin (a ++ b) = true -> b = [];
    dl_D_mono : forall a b, prefix (D a) (D (a ++ b));
    (* about one call, in a reachable state that has consumed cin and produced cout *)
    dl_bounds : forall ds cin cout inp room r k out ds',
      dreach ds cin cout -> dstep ds inp room = (r, k, out, ds') -> k <= len inp /\ len out <= room;
    (* never consumes past the end of a complete stream *)
    dl_stop : forall ds cin cout inp room r k out ds' c,
      dreach ds cin cout -> dstep ds inp room = (r, k, out, ds') ->
      fin c = true -> prefix c (cin ++ inp) -> len cin + k <= len c;
    (* everything emitted is decoded from what was consumed *)
    dl_sound : forall ds cin cout inp room r k out ds',
      dreach ds cin cout -> dstep ds inp room = (r, k, out, ds') -> r <> DFailure ->
      prefix (cout ++ out) (D (cin ++ takeN k inp));
    (* ResultSuccess: exactly one complete stream consumed, nothing pending *)
    dl_success : forall ds cin cout inp room k out ds',
      dreach ds cin cout -> dstep ds inp room = (DSuccess, k, out, ds') ->
      fin (cin ++ takeN k inp) = true /\ cout ++ out = D (cin ++ takeN k inp);
    (* NeedsMoreInput: all input consumed, and the room exhausted or nothing pending *)
    dl_nmi : forall ds cin cout inp room k out ds',
      dreach ds cin cout -> dstep ds inp room = (DNeedsMoreInput, k, out, ds') ->
      k = len inp /\ (len out = room \/ cout ++ out = D (cin ++ inp));
    (* NeedsMoreOutput: the room exhausted and something pending *)
    dl_nmo : forall ds cin cout inp room k out ds',
      dreach ds cin cout -> dstep ds inp room = (DNeedsMoreOutput, k, out, ds') ->
      len out = room /\ cout ++ out <> D (cin ++ takeN k inp);
    (* ResultFailure: never on bytes consistent with a complete stream *)
    dl_nofail : forall ds cin cout inp room k out ds',
      dreach ds cin cout -> dstep ds inp room = (DFailure, k, out, ds') -> ~ okin (cin ++ inp);
  }.

  Lemma D_mono_prefix : DecoderLaws -> forall a b, prefix a b -> prefix (D a) (D b).
  Proof. intros L a b [r ->]. apply (dl_D_mono L). Qed.
End Laws.

Arguments dreach {dstate} dinit dstep.
Arguments DecoderLaws {dstate} dinit dstep D fin.

(* ---------- the byte strings considered and the reader's total output ---------- *)
Section Spec.
  Variable BLOCK : N.
  Variable D : bytes -> bytes.
  Variable fin : bytes -> bool.
  Hypothesis fin_nil : fin [] = false.
  Hypothesis D_mono : forall a b, prefix a b -> prefix (D a) (D b).

  (* (c, p): c is a complete stream decoding to p, at most one block of plaintext *)
  Definition good_block (cp : bytes * bytes) : Prop :=
    fin (fst cp) = true /\ D (fst cp) = snd cp /\ len (snd cp) <= BLOCK.
  (* bytes a fresh decoder makes nothing of: no output, no complete stream, on any prefix *)
  Definition dead (tail : bytes) : Prop := forall u, prefix u tail -> D u = [] /\ fin u = false.

  Variable tail : bytes.
  Hypothesis Htail : dead tail.

  Definition wire_of (bs : list (bytes * bytes)) : bytes := concat (map fst bs) ++ tail.
  Definition plain_of (bs : list (bytes * bytes)) : bytes := concat (map snd bs).

  (* what the reader delivers in total when x is available: the plaintext of the blocks
     wholly present, then D of the partial one *)
  Fixpoint fs_spec (bs : list (bytes * bytes)) (x : bytes) : bytes :=
    match bs with
    | [] => D x
    | (c, p) :: r => if len c <=? len x then p ++ fs_spec r (dropN (len c) x) else D x
    end.

  Lemma D_nil : D [] = [].
  Proof. apply (Htail []). apply prefix_nil_l. Qed.

  Lemma wire_of_cons c p r : wire_of ((c, p) :: r) = c ++ wire_of r.
  Proof. unfold wire_of. cbn [map concat fst]. symmetry; apply app_assoc. Qed.

  Lemma good_nonempty cp : good_block cp -> 0 < len (fst cp).
  Proof.
    intros (Hf & _). destruct (fst cp) as [|x r]; [congruence|]. rewrite len_cons. lia.
  Qed.

  Lemma fs_spec_nil bs : Forall good_block bs -> fs_spec bs [] = [].
  Proof.
    intros H. destruct H as [|[c p] r Hg _]; cbn [fs_spec]; [apply D_nil|].
    pose proof (good_nonempty _ Hg) as Hl. cbn [fst] in Hl.
    rewrite len_nil. destruct (N.leb_spec (len c) 0) as [Hle|_]; [lia | apply D_nil].
  Qed.

  Lemma fs_spec_dead x : prefix x tail -> fs_spec [] x = [].
  Proof. intros H. cbn [fs_spec]. apply (Htail x H). Qed.

  (* C02: a prefix of the plaintext of the blocks *)
  Lemma fs_spec_prefix bs : Forall good_block bs ->
    forall x, prefix x (wire_of bs) -> prefix (fs_spec bs x) (plain_of bs).
  Proof.
    induction 1 as [|[c p] r Hg Hr IH]; intros x Hx.
    - cbn [fs_spec]. unfold wire_of in Hx. cbn [map concat app] in Hx.
      rewrite (proj1 (Htail x Hx)). apply prefix_nil_l.
    - cbn [fs_spec]. rewrite wire_of_cons in Hx. unfold plain_of. cbn [map concat snd].
      destruct Hg as (Hf & HD & Hl). cbn [fst snd] in *.
      destruct (N.leb_spec (len c) (len x)) as [Hle|Hlt].
      + destruct (prefix_app_ge _ _ _ Hx Hle) as (x' & -> & Hx').
        rewrite dropN_len_app. apply prefix_app_app. apply IH. exact Hx'.
      + apply prefix_trans with p; [|apply prefix_app].
        rewrite <- HD. apply D_mono. apply (prefix_app_le _ _ _ Hx). lia.
  Qed.

  (* C05: monotone in the available bytes *)
  Lemma fs_spec_mono bs : Forall good_block bs ->
    forall x y, prefix x y -> prefix y (wire_of bs) -> prefix (fs_spec bs x) (fs_spec bs y).
  Proof.
    induction 1 as [|[c p] r Hg Hr IH]; intros x y Hxy Hy.
    - cbn [fs_spec]. apply D_mono. exact Hxy.
    - cbn [fs_spec]. rewrite wire_of_cons in Hy.
      destruct Hg as (Hf & HD & Hl). cbn [fst snd] in *.
      pose proof (prefix_len _ _ Hxy) as Hlen.
      destruct (N.leb_spec (len c) (len x)) as [Hcx|Hcx];
        destruct (N.leb_spec (len c) (len y)) as [Hcy|Hcy]; try lia.
      + apply prefix_app_app. apply IH; [apply prefix_dropN; exact Hxy|].
        destruct (prefix_app_ge _ _ _ Hy Hcy) as (y' & -> & Hy'). rewrite dropN_len_app. exact Hy'.
      + apply prefix_trans with p; [|apply prefix_app]. rewrite <- HD. apply D_mono.
        apply (prefix_app_le x c (wire_of r)); [|lia]. apply prefix_trans with y; assumption.
      + apply D_mono. exact Hxy.
  Qed.

  (* the blocks wholly present, then the partial one *)
  Lemma fs_spec_app b1 b2 x :
    fs_spec (b1 ++ b2) (concat (map fst b1) ++ x) = plain_of b1 ++ fs_spec b2 x.
  Proof.
    induction b1 as [|[c p] r IH]; [reflexivity|].
    cbn [app fs_spec map concat fst]. unfold plain_of. cbn [map concat snd].
    rewrite <- !app_assoc.
    destruct (N.leb_spec (len c) (len (c ++ concat (map fst r) ++ x))) as [_|H];
      [|rewrite len_app in H; lia].
    rewrite dropN_len_app. rewrite IH. reflexivity.
  Qed.
  Lemma fs_spec_partial c p r x : len x < len c -> fs_spec ((c, p) :: r) x = D x.
  Proof. intros H. cbn [fs_spec]. destruct (N.leb_spec (len c) (len x)); [lia | reflexivity]. Qed.
End Spec.
