(* SrcTie3EncWFormat.v — C06 carried onto the TRANSLATED encryption writer (work package encW):
   src_cipher_agrees: at the concrete AES-256 / GHASH, the cipher parameters of the tie (SrcTie3EncW.ks_gcm / tagc_gcm:
     the Ctr128BE key stream and GHASH tag of the GCM model at nonce8 || be32(chunk)) ARE Format.v's AEAD aseal_gcm
     (SP 800-38D one-shot, Concrete/GcmSpec.v) under the archive key with FORMAT.md's per-chunk nonce — the
     hypothesis cipher_agrees of FormatWriterBridge holds of them, for every chunk index and every chunk content;
   decode_writer_v1_enc_src: the archive writer's block stream, cut into ANY pieces and pushed through the TRANSLATED
     EncryptionLayerWriter (new over an inner writer already holding the header; write_all of every piece; finalize),
     leaves bytes that FORMAT.md's decoder (Format.decode_v1) opens with a recipient's private key and reads back as
     exactly the files written. *)
From MLA Require Import Limit.
From MLA Require Import Base Stream Blocks Writer RoundTripBlocks RoundTripWriter EncLayer EncWriter
  InstGcm Format FormatProofs FormatBridge FormatScan FormatContent FormatWriterBridge FormatCipher FormatV1
  Gcm GcmProofs ArchiveInst ArchiveGcm SrcTie3Gcm SrcTie3EncW SrcTie3EncWCarry.
From MLA.Concrete Require Aes Sha256 Hkdf X25519 Ghash GcmSpec.
From MLAGen Require Src Src3g Src3w.
From Coq Require Import ZifyBool ZifyNat ZifyN Permutation.
Open Scope N_scope.

Lemma E_aes256_is kd : length kd = 32%nat -> E_aes256 kd = Aes.aes_encrypt_rk (Aes.aes256_expand kd).
Proof. intros H. unfold E_aes256. rewrite H. reflexivity. Qed.

Theorem src_cipher_agrees CHUNK kd nonce8 n :
  length kd = 32%nat -> length nonce8 = 8%nat -> wf_bytes nonce8 -> CHUNK <= gcm_max_bytes ->
  cipher_agrees CHUNK (ks_gcm E_aes256 kd nonce8) (tagc_gcm E_aes256 kd nonce8 Ghash.gf_mul) aseal_gcm kd nonce8 n.
Proof.
  intros Hk H8 Hwf HC j pt _ Hpt.
  assert (Hk' : len kd = 32) by (unfold len; rewrite Hk; reflexivity).
  assert (H8' : len nonce8 = 8) by (unfold len; rewrite H8; reflexivity).
  rewrite (chunk_enc_is_gcm_spec E_aes256 E_aes256_len kd nonce8 Hk' H8' Ghash.gf_mul j pt Hwf ltac:(lia)).
  rewrite (E_aes256_is kd Hk), gcm_spec_concrete.
  reflexivity.
Qed.

Theorem decode_writer_v1_enc_src {LIM : Limit} CHUNK BLOCK CIPHERBUF unbr FNMAX order ops sf rs
        is_interrupted ss si sl fuel pcs x eph rpub rpubs cpriv cands kd nonce8 :
  0 < CHUNK -> CHUNK <= gcm_max_bytes -> is_interrupted EState = false ->
  (forall f, Permutation (order f) f) ->
  src_wrun FNMAX order w_init (ops ++ [OFinalize]) = (sf, rs) ->
  Forall (fun r => is_ok r = true) rs -> forallb op_utf8 ops = true ->
  len (w_out sf) < 2 ^ 64 -> len (ser_footer_map (order (w_footer sf))) < 2 ^ 32 ->
  concat pcs = w_out sf ->
  let hdr := ser_header (mkH L_ENCRYPT (Some (mkEH (X25519.x25519_base eph)
                  (wrap aseal_gcm kd (map (fun r => dhkey_x25519 eph r) (rpub :: rpubs))) nonce8))) in
  src_archive E_aes256 kd nonce8 si sl Ghash.gf_mul CHUNK CIPHERBUF is_interrupted ss hdr fuel pcs = Ok x ->
  X25519.x25519 cpriv (X25519.x25519_base eph) = X25519.x25519 eph rpub ->
  length kd = 32%nat -> length nonce8 = 8%nat -> wf_bytes nonce8 -> len rpubs < 2 ^ 63 ->
  (len (w_out sf) + CHUNK - 1) / CHUNK <= 2 ^ 32 ->
  decode_v1 CHUNK BLOCK unbr (Src3w.elw_inner bytes x) (cpriv :: cands) = Ok (written sha ops).
Proof.
  intros HCH HCmax Hint Horder Hrun Hok Hutf H64 H32 Hcat hdr Hsrc Hdh Hkd H8 Hwf Hn Hch.
  assert (Hk' : len kd = 32) by (unfold len; rewrite Hkd; reflexivity).
  assert (H8' : len nonce8 = 8) by (unfold len; rewrite H8; reflexivity).
  destruct (src_archive_bytes E_aes256 E_aes256_len kd nonce8 Hk' H8' si sl Ghash.gf_mul CHUNK CIPHERBUF is_interrupted Hint ss hdr
              fuel pcs x Hsrc) as (es & Hm & Ho & _).
  rewrite Ho.
  exact (decode_writer_v1_enc CHUNK BLOCK CIPHERBUF unbr FNMAX order ops sf rs
           (ks_gcm E_aes256 kd nonce8) (tagc_gcm E_aes256 kd nonce8 Ghash.gf_mul) fuel pcs es eph rpub rpubs cpriv cands kd nonce8
           HCH Horder Hrun Hok Hutf H64 H32 Hcat Hm (src_cipher_agrees CHUNK kd nonce8 _ Hkd H8 Hwf HCmax) Hdh Hkd H8 Hn Hch).
Qed.
