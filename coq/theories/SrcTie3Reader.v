(* SrcTie3Reader.v — Tie A, level 1, for the NORMAL READER (work package readerT).
   gen/Src3d.v (tools/src2v3_reader.py) holds BlocksToFileReader::{new, move_to_next_block, read},
   ArchiveReader::{list_files, get_hash, get_file}, ArchiveFooter::{deserialize_from, serialize_into}
   and RawLayerReader::{new, reset_position, seek, read} translated statement by statement from
   /repo over an abstract Stream.  This file proves them equal to / simulated by the hand-written
   model (Reader.v, Blocks.v; the raw layer is in SrcTie3Raw.v) for EVERY stream, buffer size, state and fuel.
   Since work package blockT the generated functions call the TRANSLATED block parser (gen/Src3b.v), tied to
   Blocks.parse_block by SrcTie3Block.block_from_src: no trusted link is left on this path.
   An edit of a guard, of the order of two operations, of a state update or of a match arm in
   one of these functions changes the generated definition and a proof below stops compiling. *)
From MLA Require Import Limit.
From MLA Require Import Base Stream Blocks Reader SrcTie3Block.
From MLAGen Require Src3d.
From Coq Require Import ZifyBool ZifyNat ZifyN.
Open Scope N_scope.

(* ---------- HashMap::keys ---------- *)
Lemma hm_keys_aux_dedup m : forall seen, Src3d.hm_keys_aux m seen = dedup_names m seen.
Proof.
  induction m as [|[k v] r IH]; intros seen; cbn [Src3d.hm_keys_aux dedup_names]; [reflexivity|].
  destruct (existsb (bytes_eqb k) seen); now rewrite IH.
Qed.

Section Tie.
  Context {LIM : Limit}.
  Variable S : Stream.
  Variables FNMAX T_START T_CONTENT T_EOA T_EOF : N.
  (* the label of the index panic sites: the model has none (they are unreachable, which the
     proofs below establish), so the lemmas hold for every label *)
  Variable site_index : N.

  Notation pb := (parse_block FNMAX T_START T_CONTENT T_EOA T_EOF S).
  Notation BFR := (Src3d.BlocksToFileReader S).
  Notation g_new := (Src3d.BlocksToFileReader_new S FNMAX T_START T_CONTENT T_EOA T_EOF site_index).
  Notation g_move := (Src3d.move_to_next_block S site_index).
  Notation g_loop := (Src3d.bfr_read_loop S FNMAX T_START T_CONTENT T_EOA T_EOF site_index 1123).
  Notation g_read := (Src3d.bfr_read S FNMAX T_START T_CONTENT T_EOA T_EOF site_index 1123).
  Notation g_get_file := (Src3d.get_file S FNMAX T_START T_CONTENT T_EOA T_EOF site_index).
  Notation g_get_hash := (Src3d.get_hash S FNMAX T_START T_CONTENT T_EOA T_EOF).
  Notation m_bread := (bread FNMAX T_START T_CONTENT T_EOA T_EOF S).
  Notation m_ready := (bread_ready FNMAX T_START T_CONTENT T_EOA T_EOF S).
  Notation m_next := (next_block FNMAX T_START T_CONTENT T_EOA T_EOF S).

  (* ---------- representation of the model's states by the Rust data ---------- *)
  Definition rep_mode (m : bmode) : Src3d.BlocksToFileReaderState :=
    match m with BReady => Src3d.Ready | BInFile r => Src3d.InFile r | BFinish => Src3d.Finish end.
  Definition rep (b : bstate S) : BFR :=
    Src3d.mkBFR S (b_src b) (rep_mode (b_mode b)) (b_id b) (N.of_nat (b_cur b)) (b_offs b).
  Definition abs_mode (m : Src3d.BlocksToFileReaderState) : bmode :=
    match m with Src3d.Ready => BReady | Src3d.InFile r => BInFile r | Src3d.Finish => BFinish end.
  Definition abs (x : BFR) : bstate S :=
    mkB (Src3d.bfr_src S x) (abs_mode (Src3d.bfr_state S x)) (Src3d.bfr_id S x)
        (N.to_nat (Src3d.bfr_current_offset S x)) (Src3d.bfr_offsets S x).
  Lemma abs_rep b : abs (rep b) = b.
  Proof. destruct b as [s m i c o]; unfold abs, rep; cbn. rewrite Nat2N.id. now destruct m. Qed.
  Lemma rep_abs x : rep (abs x) = x.
  Proof. destruct x as [s m i c o]; unfold abs, rep; cbn. rewrite N2Nat.id. now destruct m. Qed.

  Definition rep_r (r : rstate S) : Src3d.ArchiveReader S := Src3d.mkAR S (r_src r) (Some (r_meta r)).

  (* ---------- move_to_next_block = bmove ---------- *)
  Theorem move_to_next_block_sim (b : bstate S) :
    g_move (rep b) = let '(b', r) := bmove S b in (rep b', r).
  Proof.
    destruct b as [s m i c o]. unfold Src3d.move_to_next_block, bmove, rep.
    cbn [b_src b_mode b_id b_cur b_offs Src3d.set_bfr_current_offset Src3d.bfr_current_offset
         Src3d.bfr_offsets Src3d.bfr_src Src3d.bfr_state Src3d.bfr_id Src3d.set_bfr_src].
    replace (N.of_nat c + 1) with (N.of_nat (Datatypes.S c)) by lia. rewrite Nat2N.id.
    destruct (nth_error o (Datatypes.S c)) as [x|] eqn:En.
    - assert (Hlt : (Datatypes.S c < length o)%nat) by (apply nth_error_Some; congruence).
      destruct (N.leb_spec (len o) (N.of_nat (Datatypes.S c))) as [Hle|_]; [unfold len in Hle; lia|].
      destruct (sk S s (FromStart x)) as [s1 [p|e|x0]]; reflexivity.
    - apply nth_error_None in En.
      destruct (N.leb_spec (len o) (N.of_nat (Datatypes.S c))) as [_|Hgt]; [reflexivity|unfold len in Hgt; lia].
  Qed.

  (* ---------- the data part of `read`: take(rem).read(into), `remaining` from the bytes GOT ---------- *)
  (* the generated text of that part, as it stands in both arms of gen/Src3d.bfr_read_loop *)
  Definition g_data (self : BFR) (rem n : N) : BFR * res bytes :=
    match rd S (Src3d.bfr_src S self) (N.min rem n) with
    | (s8, Ok got) =>
      let self10 := Src3d.set_bfr_src S self s8 in
      if rem <? len got then (self10, Crash 1123) else
      let remaining := rem - len got in
      if 0 <? remaining then (Src3d.set_bfr_state S self10 (Src3d.InFile remaining), Ok got)
      else (Src3d.set_bfr_state S self10 Src3d.Ready, Ok got)
    | (s8, Err e) => (Src3d.set_bfr_src S self s8, Err e)
    | (s8, Crash x) => (Src3d.set_bfr_src S self s8, Crash x)
    end.

  (* outcome relation: same result, same stream state; same reader state unless the result is a
     panic (the model parks the reader in BReady at its panic site `length_usize - count`, the
     source leaves `state` as it was: unobservable, the caller has unwound) *)
  Definition out_rel {A} (m : bstate S * res A) (g : BFR * res A) : Prop :=
    snd g = snd m /\ Src3d.bfr_src S (fst g) = b_src (fst m) /\
    (is_crash (snd m) = false -> fst g = rep (fst m)).
  Lemma out_rel_eq {A} (b : bstate S) (r : res A) : out_rel (b, r) (rep b, r).
  Proof. unfold out_rel; cbn [fst snd]. repeat split. Qed.

  Lemma data_sim (b : bstate S) rem n : out_rel (bread_data S b (b_src b) rem n) (g_data (rep b) rem n).
  Proof.
    destruct b as [s m i c o]. unfold bread_data, g_data, rep, bset.
    cbn [b_src b_mode b_id b_cur b_offs Src3d.bfr_src Src3d.set_bfr_src Src3d.set_bfr_state
         Src3d.bfr_state Src3d.bfr_id Src3d.bfr_current_offset Src3d.bfr_offsets].
    destruct (rd S s (N.min rem n)) as [s1 [d|e|x]]; [|apply out_rel_eq|apply out_rel_eq].
    destruct (rem <? len d).
    - unfold out_rel; cbn [fst snd is_crash Src3d.bfr_src b_src]. repeat split. discriminate.
    - cbv zeta. destruct (0 <? rem - len d); apply out_rel_eq.
  Qed.

  (* ---------- `read` in state Ready: one fuel in the source's loop, two in the model ---------- *)
  (* Reader.bread_ready with the bound of its FIRST next_block made explicit (the induction
     below runs on it) *)
  Definition ready_with (mf z zf : nat) (b : bstate S) (n : N) : bstate S * res bytes :=
    match m_next z (b_id b) (b_src b) with
    | (s1, Ok blk) =>
      let b1 := bset S b s1 BReady in
      let skip :=
        match mf with
        | O => (b1, Err EFuel)
        | Datatypes.S mf' =>
          match bmove S b1 with
          | (b2, Ok _) => m_ready mf' zf b2 n
          | (b2, Err e) => (b2, Err e)
          | (b2, Crash c) => (b2, Crash c)
          end
        end in
      match blk with
      | PContent id l => if id =? b_id b then bread_data S b1 s1 l n else skip
      | PEof id _ => if id =? b_id b then (bset S b s1 BFinish, Ok []) else skip
      | PStart id _ => if id =? b_id b then (b1, Err EState) else skip
      | PEnd => (b1, Err EState)
      end
    | (s1, Err e) => (bset S b s1 BReady, Err e)
    | (s1, Crash c) => (bset S b s1 BReady, Crash c)
    end.
  Lemma bread_ready_with mf zf b n : m_ready mf zf b n = ready_with mf zf zf b n.
  Proof. destruct mf; reflexivity. Qed.

  Lemma next_block_eq z id s :
    m_next z id s =
    match pb s with
    | (s1, Ok (PContent i l)) =>
      if (i =? id) && (l =? 0) then
        match z with O => (s1, Err EFuel) | Datatypes.S z' => m_next z' id s1 end
      else (s1, Ok (PContent i l))
    | r => r
    end.
  Proof. destruct z; reflexivity. Qed.

  Lemma bmove_ok b b2 : bmove S b = (b2, Ok tt) -> b_mode b2 = b_mode b.
  Proof.
    unfold bmove. destruct (nth_error (b_offs b) (Datatypes.S (b_cur b))); [|discriminate].
    destruct (sk S (b_src b) (FromStart n)) as [s1 [p|e|x]]; intros [= <-]; reflexivity.
  Qed.

  Lemma bfr_id_rep b : Src3d.bfr_id S (rep b) = b_id b.
  Proof. reflexivity. Qed.
  Lemma rep_bset_ready b s1 : b_mode b = BReady -> Src3d.set_bfr_src S (rep b) s1 = rep (bset S b s1 BReady).
  Proof. destruct b as [s m i c o]; cbn [b_mode]; intros ->; reflexivity. Qed.

  (* the skipping of a foreign block, given the simulation for the rest of the run *)
  Lemma skip_sim mf zf F' (b1 : bstate S) n :
    b_mode b1 = BReady ->
    (forall b2, b_mode b2 = BReady ->
       match mf with
       | O => True
       | Datatypes.S mf' => snd (m_ready mf' zf b2 n) <> Err EFuel -> out_rel (m_ready mf' zf b2 n) (g_loop F' (rep b2) n)
       end) ->
    let skip := match mf with
                | O => (b1, Err EFuel)
                | Datatypes.S mf' =>
                  match bmove S b1 with
                  | (b2, Ok _) => m_ready mf' zf b2 n
                  | (b2, Err e) => (b2, Err e)
                  | (b2, Crash c) => (b2, Crash c)
                  end
                end in
    snd skip <> Err EFuel ->
    out_rel skip
      match g_move (rep b1) with
      | (self6, Ok _) => g_loop F' self6 n
      | (self6, Err e) => (self6, Err e)
      | (self6, Crash x) => (self6, Crash x)
      end.
  Proof.
    intros Hm IH skip Hne. subst skip. rewrite move_to_next_block_sim.
    destruct mf as [|mf']; [now cbn [snd] in Hne|].
    destruct (bmove S b1) as [b2 [[]|e|x]] eqn:Em; try apply out_rel_eq.
    apply (IH b2); [rewrite (bmove_ok _ _ Em); exact Hm | exact Hne].
  Qed.

  (* one turn of the source's loop in state Ready, given the simulation for what follows *)
  Lemma ready_step zf mf z F' (b : bstate S) n :
    b_mode b = BReady ->
    (forall b2, b_mode b2 = BReady ->
       match mf with
       | O => True
       | Datatypes.S mf' => snd (m_ready mf' zf b2 n) <> Err EFuel -> out_rel (m_ready mf' zf b2 n) (g_loop F' (rep b2) n)
       end) ->
    (forall b2, b_mode b2 = BReady ->
       match z with
       | O => True
       | Datatypes.S z' =>
         snd (ready_with mf z' zf b2 n) <> Err EFuel -> out_rel (ready_with mf z' zf b2 n) (g_loop F' (rep b2) n)
       end) ->
    snd (ready_with mf z zf b n) <> Err EFuel ->
    out_rel (ready_with mf z zf b n) (g_loop (Datatypes.S F') (rep b) n).
  Proof.
    intros Hm IHs IHz Hne.
    pose proof (rep_bset_ready b) as Hrb.
    destruct b as [s m i c o]; cbn [b_mode] in Hm; subst m.
    unfold ready_with in Hne |- *. rewrite next_block_eq in Hne |- *.
    cbn [Src3d.bfr_read_loop rep rep_mode b_mode b_src b_id b_cur b_offs Src3d.bfr_state Src3d.bfr_src].
    cbn [b_src b_id] in Hne.
    rewrite (block_from_src S FNMAX T_START T_CONTENT T_EOA T_EOF s).
    destruct (pb s) as [s1 [blk|e|x]].
    2,3: rewrite (Hrb s1 eq_refl); apply out_rel_eq.
    rewrite (Hrb s1 eq_refl). clear Hrb.
    pose (b1 := bset S (mkB s BReady i c o) s1 BReady).
    destruct blk as [bi nm|bi l|bi h|].
    - rewrite bfr_id_rep; cbn [bset b_id]. destruct (bi =? i) eqn:Ei; cbn [negb b_id] in Hne |- *; rewrite ?Ei in Hne; rewrite ?Ei.
      + apply out_rel_eq.
      + exact (skip_sim mf zf F' b1 n eq_refl IHs Hne).
    - rewrite bfr_id_rep; cbn [bset b_id]. destruct (bi =? i) eqn:Ei; destruct (l =? 0) eqn:El; cbn [negb andb b_id] in Hne |- *; rewrite ?Ei in Hne; rewrite ?Ei.
      + destruct z as [|z']; [exfalso; apply Hne; reflexivity|].
        exact (IHz b1 eq_refl Hne).
      + exact (data_sim b1 l n).
      + exact (skip_sim mf zf F' b1 n eq_refl IHs Hne).
      + exact (skip_sim mf zf F' b1 n eq_refl IHs Hne).
    - rewrite bfr_id_rep; cbn [bset b_id]. destruct (bi =? i) eqn:Ei; cbn [negb b_id] in Hne |- *; rewrite ?Ei in Hne; rewrite ?Ei.
      + apply out_rel_eq.
      + exact (skip_sim mf zf F' b1 n eq_refl IHs Hne).
    - apply out_rel_eq.
  Qed.

  Lemma ready_sim zf : forall mf z F (b : bstate S) n,
    b_mode b = BReady -> (z + mf * Datatypes.S zf < F)%nat ->
    snd (ready_with mf z zf b n) <> Err EFuel ->
    out_rel (ready_with mf z zf b n) (g_loop F (rep b) n).
  Proof.
    induction mf as [|mf' IHmf]; induction z as [|z' IHz]; intros F b n Hm HF Hne;
      (destruct F as [|F']; [lia|]); apply ready_step; try assumption; intros b2 Hb2; try exact I.
    - intros Hne2. apply IHz; [exact Hb2 | lia | exact Hne2].
    - intros Hne2. rewrite bread_ready_with in *. apply IHmf; [exact Hb2 | cbn [Nat.mul] in HF; lia | exact Hne2].
    - intros Hne2. rewrite bread_ready_with in *. apply IHmf; [exact Hb2 | cbn [Nat.mul] in HF; lia | exact Hne2].
    - intros Hne2. apply IHz; [exact Hb2 | lia | exact Hne2].
  Qed.

  (* ---------- Read::read of BlocksToFileReader = Reader.bread ---------- *)
  Theorem bfr_read_sim zf F (b : bstate S) n :
    (Datatypes.S zf * Datatypes.S (Datatypes.S (length (b_offs b))) <= F)%nat ->
    snd (m_bread zf b n) <> Err EFuel ->
    out_rel (m_bread zf b n) (g_read F (rep b) n).
  Proof.
    intros HF Hne. destruct F as [|F']; [lia|]. unfold Src3d.bfr_read, bread in *.
    destruct b as [s m i c o]. cbn [b_mode b_offs b_src] in *. destruct m as [|rem|].
    - rewrite bread_ready_with in *. apply ready_sim; [reflexivity | cbn [b_offs] in HF; lia | exact Hne].
    - cbn [Src3d.bfr_read_loop rep rep_mode b_mode b_src Src3d.bfr_state].
      change s with (b_src (mkB s (BInFile rem) i c o)) at 1.
      apply (data_sim (mkB s (BInFile rem) i c o) rem n).
    - cbn [Src3d.bfr_read_loop rep rep_mode b_mode Src3d.bfr_state]. apply out_rel_eq.
  Qed.

  (* the same, as an equation, where the model's outcome is not a panic *)
  Corollary bfr_read_eq zf F (b : bstate S) n :
    (Datatypes.S zf * Datatypes.S (Datatypes.S (length (b_offs b))) <= F)%nat ->
    snd (m_bread zf b n) <> Err EFuel -> is_crash (snd (m_bread zf b n)) = false ->
    g_read F (rep b) n = (rep (fst (m_bread zf b n)), snd (m_bread zf b n)).
  Proof.
    intros HF Hne Hc. destruct (bfr_read_sim zf F b n HF Hne) as (H1 & _ & H3).
    destruct (g_read F (rep b) n) as [x r]. cbn [fst snd] in *. now rewrite H1, (H3 Hc).
  Qed.

  (* ---------- work package blockT: the block parser is no longer a trusted link ---------- *)
  (* `g_read`, `g_get_file`, `g_get_hash` (gen/Src3d.v) call the TRANSLATED `ArchiveFileBlock::from` of
     gen/Src3b.v where the source says `ArchiveFileBlock::from(&mut self.src)`; the theorems above rewrite
     it to Blocks.parse_block with SrcTie3Block.block_from_src at every call.  Witness (the translated
     `read` in state Ready hands on exactly what the translated `from` returned as an error): *)
  Lemma bfr_read_calls_translated_from fuel (x : BFR) n s1 e :
    Src3d.bfr_state S x = Src3d.Ready ->
    Src3b.ArchiveFileBlock_from S FNMAX T_START T_CONTENT T_EOA T_EOF 636 (Src3d.bfr_src S x) = (s1, Err e) ->
    g_loop (Datatypes.S fuel) x n = (Src3d.set_bfr_src S x s1, Err e).
  Proof. intros Hst Hf. cbn [Src3d.bfr_read_loop]. rewrite Hst, Hf. reflexivity. Qed.
  (* the simulation with the whole reading path translated: `read` over the translated `from` *)
  Corollary bfr_read_sim_full zf F (b : bstate S) n :
    (Datatypes.S zf * Datatypes.S (Datatypes.S (length (b_offs b))) <= F)%nat ->
    snd (m_bread zf b n) <> Err EFuel ->
    out_rel (m_bread zf b n) (g_read F (rep b) n).
  Proof. exact (bfr_read_sim zf F b n). Qed.

  (* ---------- ArchiveReader::get_file (with BlocksToFileReader::new) = Reader.get_file ---------- *)
  Definition rep_file (name : bytes) (x : res (option (bstate S * N))) : res (option (bytes * BFR * N)) :=
    match x with
    | Ok (Some (b, sz)) => Ok (Some (name, rep b, sz))
    | Ok None => Ok None
    | Err e => Err e
    | Crash c => Crash c
    end.
  Theorem get_file_sim (r : rstate S) name :
    g_get_file (rep_r r) name =
    let '(r', x) := get_file FNMAX T_START T_CONTENT T_EOA T_EOF S r name in (rep_r r', rep_file name x).
  Proof.
    destruct r as [s m]. unfold Src3d.get_file, get_file, rep_r, Src3d.BlocksToFileReader_new.
    cbn [r_src r_meta Src3d.ar_metadata Src3d.ar_src Src3d.set_ar_src].
    destruct (flookup m name) as [fi|]; [|reflexivity].
    destruct (fi_offsets fi) as [|o0 rest] eqn:Eo; cbn [Src3d.vec_is_empty]; [reflexivity|].
    change (N.to_nat 0) with 0%nat; cbn [nth_error].
    destruct (sk S s (FromStart o0)) as [s1 [p|e|x]]; [|reflexivity|reflexivity].
    rewrite (block_from_src S FNMAX T_START T_CONTENT T_EOA T_EOF s1).
    destruct (pb s1) as [s2 [blk|e|x]]; [|reflexivity|reflexivity].
    destruct blk; reflexivity.
  Qed.

  (* BlocksToFileReader::new on its own: `offsets[0]` panics on an empty table (get_file guards it) *)
  Lemma bfr_new_empty_panics s : g_new s [] = (s, Crash site_index).
  Proof. reflexivity. Qed.

  (* ---------- ArchiveReader::get_hash = Reader.get_hash ---------- *)
  Theorem get_hash_sim (r : rstate S) name :
    g_get_hash (rep_r r) name =
    let '(r', x) := get_hash FNMAX T_START T_CONTENT T_EOA T_EOF S r name in (rep_r r', x).
  Proof.
    destruct r as [s m]. unfold Src3d.get_hash, get_hash, rep_r.
    cbn [r_src r_meta Src3d.ar_metadata Src3d.ar_src Src3d.set_ar_src].
    destruct (flookup m name) as [fi|]; [|reflexivity].
    destruct (sk S s (FromStart (fi_eof fi))) as [s1 [p|e|x]]; [|reflexivity|reflexivity].
    rewrite (block_from_src S FNMAX T_START T_CONTENT T_EOA T_EOF s1).
    destruct (pb s1) as [s2 [blk|e|x]]; [|reflexivity|reflexivity].
    destruct blk; reflexivity.
  Qed.

  (* ---------- ArchiveReader::list_files = Reader.list_files ---------- *)
  Theorem list_files_sim (r : rstate S) :
    Src3d.list_files S (rep_r r) = (rep_r r, Ok (list_files S r)).
  Proof.
    unfold Src3d.list_files, list_files, rep_r, Src3d.hm_keys. cbn [Src3d.ar_metadata].
    now rewrite hm_keys_aux_dedup.
  Qed.
  (* without metadata (never built by from_config) the three methods refuse *)
  Lemma no_metadata_refused s name :
    Src3d.list_files S (Src3d.mkAR S s None) = (Src3d.mkAR S s None, Err EMissingMeta) /\
    g_get_hash (Src3d.mkAR S s None) name = (Src3d.mkAR S s None, Err EMissingMeta) /\
    g_get_file (Src3d.mkAR S s None) name = (Src3d.mkAR S s None, Err EMissingMeta).
  Proof. repeat split. Qed.

  (* ---------- ArchiveFooter::deserialize_from = Reader.read_footer ---------- *)
  (* bincode over take(len) under with_limit(limit): what Reader.read_footer does with the region
     (the byte layout is Blocks.parse_footer_map; every read is charged against the limit, so the
     map is delivered iff it parses and the bytes consumed, len (ser_footer_map m), fit the limit) *)
  Definition bincode_model (limit l : N) (s : st S) : st S * res footer :=
    match read_full S (Datatypes.S (N.to_nat l)) s l with
    | (s4, Ok b) =>
      match parse_footer_map b with
      | Some m => if limit <? len (ser_footer_map m) then (s4, Err EDeser) else (s4, Ok m)
      | None => (s4, Err EDeser)
      end
    | (s4, Err e) => (s4, Err e)
    | (s4, Crash c) => (s4, Crash c)
    end.
  (* unconditional: the translated function IS the model's read_footer at the source's limit
     (the model has the limit as a parameter since the fixlimits work package) *)
  Theorem footer_deserialize_order_src (s : st S) :
    Src3d.footer_deserialize_from S bincode_model s = read_footer (LIM := Src3d.BINCODE_MAX_DESERIALIZE) S s.
  Proof.
    unfold Src3d.footer_deserialize_from, read_footer, bincode_model.
    destruct (sk S s (FromEnd (-4))) as [s1 [pos|e|x]]; [|reflexivity|reflexivity].
    destruct (rexact S s1 4) as [s2 [d|e|x]]; [|reflexivity|reflexivity].
    cbv zeta. destruct (pos <? le_val d); [reflexivity|].
    destruct (sk S s2 (FromStart (pos - le_val d))) as [s3 [p|e|x]]; [|reflexivity|reflexivity].
    destruct (read_full S (Datatypes.S (N.to_nat (le_val d))) s3 (le_val d)) as [s4 [b|e|x]]; [|reflexivity|reflexivity].
    destruct (parse_footer_map b) as [m|]; [|reflexivity].
    unfold lim. destruct (N.min (le_val d) Src3d.BINCODE_MAX_DESERIALIZE <? len (ser_footer_map m)); reflexivity.
  Qed.
  (* D15 / D12a on the source: whatever bincode is, it is consulted only with limit =
     min(len, BINCODE_MAX_DESERIALIZE) over take(len), and only after `pos < len` was refused *)
  Theorem footer_bincode_args_src (P P' : N -> N -> st S -> st S * res footer) (s : st S) :
    (forall l s', P (N.min l 536870912) l s' = P' (N.min l 536870912) l s') ->
    Src3d.footer_deserialize_from S P s = Src3d.footer_deserialize_from S P' s.
  Proof.
    intros HP. unfold Src3d.footer_deserialize_from.
    destruct (sk S s (FromEnd (-4))) as [s1 [pos|e|x]]; [|reflexivity|reflexivity].
    destruct (rexact S s1 4) as [s2 [d|e|x]]; [|reflexivity|reflexivity].
    cbv zeta. destruct (pos <? le_val d); [reflexivity|].
    destruct (sk S s2 (FromStart (pos - le_val d))) as [s3 [p|e|x]]; [|reflexivity|reflexivity].
    change Src3d.BINCODE_MAX_DESERIALIZE with 536870912. now rewrite HP.
  Qed.
  Lemma footer_short_position_refused (P : N -> N -> st S -> st S * res footer) s s1 s2 pos d :
    sk S s (FromEnd (-4)) = (s1, Ok pos) -> rexact S s1 4 = (s2, Ok d) -> pos < le_val d ->
    Src3d.footer_deserialize_from S P s = (s2, Err EDeser).
  Proof.
    intros H1 H2 Hlt. unfold Src3d.footer_deserialize_from. rewrite H1, H2. cbv zeta.
    destruct (N.ltb_spec pos (le_val d)); [reflexivity|lia].
  Qed.

End Tie.

(* ---------- ArchiveFooter::serialize_into: join, map, 4-byte length = Blocks.ser_footer ---------- *)
(* no premise on the size: the three outcomes of the translated function are the three arms of
   Writer.w_finalize_with after the EndOfArchiveData block (limit: nothing written; u32: the map
   without its length; otherwise Blocks.ser_footer) *)
Lemma footer_serialize_into_src (order : footer -> footer) dest files ids tmp :
  Src3d.footer_join files ids = Ok tmp ->
  Src3d.footer_serialize_into ser_footer_map order dest files ids =
    if Src3d.BINCODE_MAX_DESERIALIZE <? len (ser_footer_map (order tmp)) then (dest, Err EDeser)
    else if 2 ^ 32 <=? len (ser_footer_map (order tmp)) then (dest ++ ser_footer_map (order tmp), Err EDeser)
    else (dest ++ ser_footer (order tmp), Ok tt).
Proof.
  intros Hj. unfold Src3d.footer_serialize_into, ser_footer, le32. rewrite Hj. cbv zeta.
  destruct (Src3d.BINCODE_MAX_DESERIALIZE <? len (ser_footer_map (order tmp))); [reflexivity|].
  rewrite N.add_0_l.
  destruct (2 ^ 32 <=? len (ser_footer_map (order tmp))); [reflexivity|].
  now rewrite <- app_assoc.
Qed.
(* a name whose id is unknown: WrongWriterState, nothing written *)
Lemma footer_serialize_into_unknown_id (FI : Type) (ser : list (bytes * FI) -> bytes) order dest files ids e :
  Src3d.footer_join files ids = Err e ->
  Src3d.footer_serialize_into ser order dest files ids = (dest, Err e).
Proof. intros Hj. unfold Src3d.footer_serialize_into. now rewrite Hj. Qed.

(* ---------- non-vacuity: a two-file archive over a cursor, read through the TRANSLATED code ---------- *)
Section Example.
  Context {LIM : Limit}.
  Let T_START := 0. Let T_CONTENT := 1. Let T_EOA := 254. Let T_EOF := 255.
  Let h0 := repeat 7 32.
  (* file 1 = "ab" ++ "" ++ "c" (with an EMPTY block), interleaved with file 2 *)
  Let blocks : bytes :=
    ser_block T_START T_CONTENT T_EOA T_EOF (BStart 1 [102]) ++            (* 0  *)
    ser_block T_START T_CONTENT T_EOA T_EOF (BContent 1 [97; 98]) ++       (* 18 *)
    ser_block T_START T_CONTENT T_EOA T_EOF (BStart 2 [103]) ++            (* 37 *)
    ser_block T_START T_CONTENT T_EOA T_EOF (BContent 2 [120]) ++          (* 55 *)
    ser_block T_START T_CONTENT T_EOA T_EOF (BContent 1 []) ++             (* 73 *)
    ser_block T_START T_CONTENT T_EOA T_EOF (BContent 1 [99]) ++           (* 90 *)
    ser_block T_START T_CONTENT T_EOA T_EOF (BEof 1 h0) ++                 (* 108 *)
    ser_block T_START T_CONTENT T_EOA T_EOF (BEof 2 h0) ++
    ser_block T_START T_CONTENT T_EOA T_EOF BEnd.
  Let meta : footer := [([102], mkFI [0; 73] 3 108)].
  Let S0 := Cursor blocks.
  Let ar := Src3d.mkAR S0 0 (Some meta).
  Fixpoint drain (k : nat) (x : Src3d.BlocksToFileReader S0) (acc : bytes) : bytes * res unit :=
    match k with
    | O => (acc, Err EFuel)
    | Datatypes.S k' =>
      match Src3d.bfr_read S0 48 T_START T_CONTENT T_EOA T_EOF 0 1123 100%nat x 2 with
      | (x', Ok []) => (acc, Ok tt)
      | (x', Ok d) => drain k' x' (acc ++ d)
      | (_, Err e) => (acc, Err e)
      | (_, Crash c) => (acc, Crash c)
      end
    end.
  Example translated_reader_nonvacuous :
    match Src3d.get_file S0 48 T_START T_CONTENT T_EOA T_EOF 0 ar [102] with
    | (_, Ok (Some (_, x, sz))) => sz = 3 /\ drain 10 x [] = ([97; 98; 99], Ok tt)
    | _ => False
    end /\
    snd (Src3d.get_hash S0 48 T_START T_CONTENT T_EOA T_EOF ar [102]) = Ok (Some h0) /\
    snd (Src3d.list_files S0 ar) = Ok [[102]].
  Proof. vm_compute. repeat split; reflexivity. Qed.
End Example.
