(* CApiReadTie.v — Tie A for the reading side of the C interface: what tools/src2v.py finds in
   bindings/C/src/lib.rs (coq/gen/Src.v) is what the model CApiRead.v uses: the whence codes of
   the three SeekFrom arms of CallbackInputRead::seek, the value the request length of
   CallbackInputRead::read is clamped to when buf.len() does not fit a u32, and that
   `iter.sort()` stands before the loop that calls the file callback. *)
From MLA Require Import Limit.
From MLA Require Import Base CApi CApiRead.
From MLAGen Require Src.
Open Scope N_scope.

Lemma read_side_src :
  Src.CAPI_SEEK_WHENCE = [W_SET; W_CUR; W_END] /\
  Src.CAPI_READ_CLAMP = clamp_u32 (2 ^ 32) /\
  Src.CAPI_SORT_BEFORE_CALLBACKS = true.
Proof. repeat split; reflexivity. Qed.
