(* RunHistStack.v — Tie B entry points: whole-archive reading histories (C01 / C10 / C12) over
   the stacks of ArchiveReader::from_config that contain the compression layer:

     hist_comp      CompressionLayerReader ∘ RawLayerReader ∘ Cursor
     hist_comp_enc  CompressionLayerReader ∘ EncryptionLayerReader ∘ RawLayerReader ∘ Cursor
                    (concrete AES-256-GCM, as Run.hist_enc)

   Brotli enters as in RunC11: the harness cuts the compressed blocks out of the REAL archive
   with an independent decoder (sizes table of the compression layer's footer, FORMAT.md; the
   encryption layer removed with the aes-gcm crate), decodes each with the brotli crate and hands
   over the table [compressed block; its plaintext]; `dec` is the lookup (RunC11.dec_tab).  The
   key of an entry is exactly the bytes the sizes table assigns to the block — what
   Decompressor::new(inner.take(csize)) can see, and what CompLayer.new_decompressor_at reads
   with read_full before calling `dec`.  Everything else — the compression footer, positions,
   the reader state machine, raw offsets, chunk loads and tags, block parsing, the archive
   footer — is the model's.

   The `_h` forms take the archive header bytes too: the source is a cursor over the WHOLE
   archive, the header is read from it (ArchiveHeader::from; its content is C01-header's
   business), and RawLayerReader::reset_position pins a non-zero offset, as in from_config.

   Granularity of reads.  A single Read::read of the real compression reader returns what
   brotli's streaming decoder happens to have ready, which is not an observable of the format
   (CompLayer.dec_read).  As the harness does for these archives (archive.rs::run_history with
   single = false), a read of n > 0 bytes is "Read::read until n bytes, a call that returns 0
   bytes, or an error"; a read of 0 bytes is one call.  Apart from that the interpreter is
   Run.hist_op / hist_ops / hist_run. *)
From MLA Require Import Limit.
From MLAGen Require Src.
(* executable entry points: the production value of BINCODE_MAX_DESERIALIZE (the same in both flavours), file-local *)
#[local] Instance RUN_LIMIT : Limit := MLAGen.Src.BINCODE_MAX_DESERIALIZE_prod.
From MLA Require Import Base Stream EncLayer CompLayer RawLayer Blocks Reader Inst InstGcm Run RunC11.
From MLA.Concrete Require Aes.
From MLAGen Require Src.
Open Scope N_scope.

Section HistU.
  Variable k : consts.
  Variable S : Stream.
  Notation TS := Src.BT_FileStart. Notation TC := Src.BT_FileContent.
  Notation TA := Src.BT_EndOfArchiveData. Notation TE := Src.BT_EndOfFile.
  Notation FN := (cFNMAX k).
  Notation bread := (Reader.bread FN TS TC TA TE S).
  Notation get_file := (Reader.get_file FN TS TC TA TE S).

  (* while got < n { match read(&mut buf[got..]) { Ok(0) => break, Ok(m) => got += m, Err => fail } } *)
  Fixpoint bread_until (zf fuel : nat) (b : bstate S) (n : N) (acc : bytes) : bstate S * res bytes :=
    match fuel with
    | O => (b, Err EFuel)
    | Datatypes.S fuel' =>
      if len acc <? n then
        match bread zf b (n - len acc) with
        | (b1, Ok d) => if len d =? 0 then (b1, Ok acc) else bread_until zf fuel' b1 n (acc ++ d)
        | (b1, Err e) => (b1, Err e)
        | (b1, Crash c) => (b1, Crash c)
        end
      else (b, Ok acc)
    end.
  Definition read_u (zf fuel : nat) (b : bstate S) (n : N) : bstate S * res bytes :=
    if n =? 0 then bread zf b 0 else bread_until zf fuel b n [].

  (* Run.do_reads with read_u for bread *)
  Fixpoint do_reads_u (zf fuel : nat) (b : bstate S) (sizes : list N) (to_end : bool)
    : bstate S * list (list N) :=
    match fuel with
    | O => (b, [[9]])
    | Datatypes.S fuel' =>
      match sizes with
      | [] => (b, [])
      | n :: rest =>
        match read_u zf zf b n with
        | (b1, Ok d) =>
          let again := match rest with [] => to_end && negb (len d =? 0) | _ => true end in
          let sizes' := match rest with [] => [n] | _ => rest end in
          if again then let '(b2, rows) := do_reads_u zf fuel' b1 sizes' to_end in (b2, (0 :: d) :: rows)
          else (b1, [0 :: d])
        | (b1, Err _) => (b1, [[1]])
        | (b1, Crash _) => (b1, [[2]])
        end
      end
    end.

  (* Run.hist_op, the two reading operations with do_reads_u *)
  Definition hist_op_u (fuel : nat) (names : list bytes) (r : Reader.rstate S) (op : list N)
    : Reader.rstate S * list (list N) :=
    let name_at i := nth (N.to_nat i) names [] in
    match op with
    | 2 :: i :: sizes =>
      match get_file r (name_at i) with
      | (r1, Ok (Some (b, size))) =>
        let '(b1, rows) := do_reads_u fuel fuel b sizes false in
        (Reader.mkR (b_src b1) (Reader.r_meta r1), [7; size] :: rows)
      | (r1, Ok None) => (r1, [[4]])
      | (r1, x) => (r1, [err_row x])
      end
    | [3; i; n] =>
      match get_file r (name_at i) with
      | (r1, Ok (Some (b, size))) =>
        let '(b1, rows) := do_reads_u fuel fuel b [n] true in
        (Reader.mkR (b_src b1) (Reader.r_meta r1), [7; size] :: rows)
      | (r1, Ok None) => (r1, [[4]])
      | (r1, x) => (r1, [err_row x])
      end
    | _ => hist_op k S fuel names r op
    end.

  Fixpoint hist_ops_u (fuel : nat) (names : list bytes) (r : Reader.rstate S) (ops : list (list N)) : list (list N) :=
    match ops with
    | [] => []
    | op :: rest => let '(r1, rows) := hist_op_u fuel names r op in rows ++ [[88]] ++ hist_ops_u fuel names r1 rest
    end.

  Definition hist_run_u (fuel : nat) (s0 : st S) (names : list bytes) (ops : list (list N)) : list (list N) :=
    match ropen S s0 with
    | Ok r => [0] :: hist_ops_u fuel names r ops
    | x => [err_row x]
    end.
End HistU.

(* bytes of the decompressed stream (bounds the number of reads and of blocks) *)
Definition table_plain_len (table : list (list bytes)) : N :=
  fold_right (fun e a => len (hd [] (tl e)) + a) 0 table.

Definition open_fail {A} (r : res A) : list (list N) :=
  match r with Ok _ => [[0]] | Err _ => [[1]] | Crash _ => [[2]] end.

Section Stacks.
  Variable k : consts.
  Let BL := cBLOCK k. Let CH := cCHUNK k. Let TG := cTAG k.

  (* from_config on a compressed archive: header, raw new + reset_position, compression new,
     initialize (raw: no-op), then Reader.ropen (footer, rewind) and the history *)
  Definition hist_comp_h (header body : bytes) (table : list (list bytes)) (names : list bytes)
             (ops : list (list N)) : list (list N) :=
    let C := Cursor (header ++ body) in
    let R := RawReader C in
    let T := CompReader BL (dec_tab table) R in
    let fuel := (N.to_nat (len body + table_plain_len table) + 16)%nat in
    match read_exact C (Datatypes.S (N.to_nat (len header))) 0 (len header) with
    | (p, Ok _) =>
      match raw_open C p with
      | (r0, Ok _) =>
        match comp_open LIMITC R (raw_initialize C) r0 with
        | (c, Ok _) => hist_run_u k T fuel c names ops
        | (_, x) => open_fail x
        end
      | (_, x) => open_fail x
      end
    | (_, x) => open_fail x
    end.

  (* the same with the encryption layer between compression and raw; EncryptionLayerReader::
     initialize = inner.initialize() (no-op) + rewind (loads chunk 0) *)
  Definition hist_comp_enc_h (key nonce8 header body : bytes) (table : list (list bytes))
             (names : list bytes) (ops : list (list N)) : list (list N) :=
    let rk := Aes.aes256_expand key in
    let nchunks := N.to_nat (len body / (CH + TG) + 2) in
    let tab := gcm_tab rk nonce8 CH nchunks in
    let ks := gcm_ks tab in let tagc := gcm_tagc rk nonce8 in
    let C := Cursor (header ++ body) in
    let R := RawReader C in
    let E := EncReader CH TG ks tagc R in
    let T := CompReader BL (dec_tab table) E in
    let enc_init (e : st E) : st E * res unit :=
      match eseek_start CH TG ks tagc R e 0 with
      | (e', Ok _) => (e', Ok tt) | (e', Err x) => (e', Err x) | (e', Crash x) => (e', Crash x)
      end in
    let fuel := (N.to_nat (len body + table_plain_len table) + 16)%nat in
    match read_exact C (Datatypes.S (N.to_nat (len header))) 0 (len header) with
    | (p, Ok _) =>
      match raw_open C p with
      | (r0, Ok _) =>
        match comp_open LIMITC E enc_init (@mkE R r0 [] 0 0) with
        | (c, Ok _) => hist_run_u k T fuel c names ops
        | (_, x) => open_fail x
        end
      | (_, x) => open_fail x
      end
    | (_, x) => open_fail x
    end.

  (* the archive body alone (what follows the header): raw offset 0 *)
  Definition hist_comp (body : bytes) := hist_comp_h [] body.
  Definition hist_comp_enc (key nonce8 body : bytes) := hist_comp_enc_h key nonce8 [] body.
End Stacks.
