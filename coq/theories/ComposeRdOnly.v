(* ComposeRdOnly.v — the repair loop only READS its source.

   The theorems of RepairProofs1-6 are stated for a source `S` with `Refines S w R`, which also
   asks for cursor-like seeks (`ref_sk`), although no proof uses them (only `ref_rd` and
   `ref_range` are used, in RepairProofs1).  A fail-safe decryptor (`Run.FsEnc`) has no seek at
   all, so it cannot satisfy `Refines`.  Route taken here, WITHOUT touching the existing files:

   1. `repair_sim`: the result of `repair` is the same over any two streams whose `rd`
      functions are in simulation (same results from related states); `sk` is never called.
   2. `SeekView S b`: the stream S with a position counter and an added, genuinely working,
      seek (after a seek it reads from a cursor over b).  When `rd S` refines b read-only
      (`RdRefines`), `SeekView S b` satisfies the full `Refines`, and as long as nobody seeks it
      is in simulation with S.
   3. hence every theorem about `repair` over a `Refines` source transfers to a `RdRefines`
      source: `repair_rd_transfer`, and the re-exported C02/C05 theorems below. *)
From MLA Require Import Limit.
From MLA Require Import Base Stream Blocks Writer Repair RepairSpec RepairPure
  RepairProofs1 RepairProofs2 RepairProofs3 RepairProofs4 RepairProofs5 RepairProofs6 EncAuthFs.
From Coq Require Import ZifyBool ZifyNat ZifyN.
Open Scope N_scope.

(* ---------- 1. simulation ---------- *)
Section Sim.
  Context {LIM : Limit}.
  Variables S1 S2 : Stream.
  Variable sim : st S1 -> st S2 -> Prop.
  Definition simp {A} (x : st S1 * A) (y : st S2 * A) : Prop := sim (fst x) (fst y) /\ snd x = snd y.
  Hypothesis Hrd : forall s1 s2 n, sim s1 s2 -> simp (rd S1 s1 n) (rd S2 s2 n).

  Ltac done := split; [assumption | reflexivity].
  Tactic Notation "use" constr(lem) "as" ident(a) ident(b) ident(r) :=
    let Hx := fresh "Hx" in let Hs := fresh "Hs" in
    pose proof lem as Hx;
    match type of Hx with
    | simp ?X ?Y => destruct X as [a r]; let r' := fresh r in destruct Y as [b r'];
                    destruct Hx as [Hs Hx]; cbn [fst snd] in Hs, Hx; subst r'
    end.

  Lemma read_full_aux_sim fuel : forall s1 s2 n acc, sim s1 s2 ->
    simp (read_full_aux S1 fuel s1 n acc) (read_full_aux S2 fuel s2 n acc).
  Proof.
    induction fuel as [|f IH]; intros s1 s2 n acc Hs; cbn [read_full_aux];
      (destruct (n =? 0); [done|]); [done|].
    use (Hrd s1 s2 n Hs) as a b r. destruct r as [d|e|c]; [|done|done].
    destruct (len d =? 0); [done|]. destruct (n <? len d); [done|]. apply IH; assumption.
  Qed.

  Lemma rexact_sim s1 s2 n : sim s1 s2 -> simp (rexact S1 s1 n) (rexact S2 s2 n).
  Proof.
    intros Hs. unfold rexact, read_exact, read_full.
    use (read_full_aux_sim (Datatypes.S (N.to_nat n)) s1 s2 n [] Hs) as a b r.
    destruct r as [d|e|c]; [destruct (len d <? n)|..]; done.
  Qed.

  Lemma read_u64_sim s1 s2 : sim s1 s2 -> simp (read_u64 S1 s1) (read_u64 S2 s2).
  Proof.
    intros Hs. unfold read_u64. use (rexact_sim s1 s2 8 Hs) as a b r. destruct r; done.
  Qed.

  Section Loop.
    Variables FNMAX CACHE T_START T_CONTENT T_EOA T_EOF : N.
    Variable H : bytes -> bytes.
    Notation parse_block := (parse_block FNMAX T_START T_CONTENT T_EOA T_EOF).
    Notation block_loop := (block_loop FNMAX CACHE T_START T_CONTENT T_EOA T_EOF H).
    Notation repair := (repair FNMAX CACHE T_START T_CONTENT T_EOA T_EOF H).
    Notation cleanup := (cleanup T_START T_CONTENT T_EOA T_EOF H).

    Lemma parse_block_sim s1 s2 : sim s1 s2 -> simp (parse_block S1 s1) (parse_block S2 s2).
    Proof.
      intros Hs. unfold Blocks.parse_block.
      use (rexact_sim s1 s2 1 Hs) as a1 b1 r1. destruct r1 as [d|e|c]; [|done|done].
      destruct d as [|t [|? ?]]; [done| |done].
      destruct (t =? T_START).
      { use (read_u64_sim a1 b1 ltac:(assumption)) as a2 b2 r2. destruct r2 as [id|e|c]; [|done|done].
        use (read_u64_sim a2 b2 ltac:(assumption)) as a3 b3 r3. destruct r3 as [l|e|c]; [|done|done].
        destruct (FNMAX <? l); [done|].
        use (rexact_sim a3 b3 l ltac:(assumption)) as a4 b4 r4.
        destruct r4 as [nm|e|c]; [destruct (utf8_valid nm)|..]; done. }
      destruct (t =? T_CONTENT).
      { use (read_u64_sim a1 b1 ltac:(assumption)) as a2 b2 r2. destruct r2 as [id|e|c]; [|done|done].
        use (read_u64_sim a2 b2 ltac:(assumption)) as a3 b3 r3. destruct r3 as [l|e|c]; done. }
      destruct (t =? T_EOF).
      { use (read_u64_sim a1 b1 ltac:(assumption)) as a2 b2 r2. destruct r2 as [id|e|c]; [|done|done].
        use (rexact_sim a2 b2 32 ltac:(assumption)) as a3 b3 r3. destruct r3 as [l|e|c]; done. }
      destruct (t =? T_EOA); done.
    Qed.

    Definition rel4 (x : st S1 * N * bytes * option err) (y : st S2 * N * bytes * option err) : Prop :=
      let '(a, r, c, e) := x in let '(a', r', c', e') := y in sim a a' /\ r = r' /\ c = c' /\ e = e'.

    Lemma buf_fill_sim fuel : forall s1 s2 rem acc, sim s1 s2 ->
      rel4 (buf_fill CACHE S1 fuel s1 rem acc) (buf_fill CACHE S2 fuel s2 rem acc).
    Proof.
      induction fuel as [|f IH]; intros s1 s2 rem acc Hs; cbn [buf_fill]; [cbn; auto|].
      destruct (N.min rem (CACHE - len acc) =? 0); [cbn; auto|].
      use (Hrd s1 s2 (N.min rem (CACHE - len acc)) Hs) as a b r.
      destruct r as [d|e|c]; [|cbn; auto..].
      destruct (len d =? 0); [cbn; auto|]. destruct (CACHE <=? len (acc ++ d)); [cbn; auto|].
      apply IH; assumption.
    Qed.

    Definition rel5 (x : st S1 * wstate * bytes * option err * option err)
                    (y : st S2 * wstate * bytes * option err * option err) : Prop :=
      let '(a, o, g, e, f) := x in let '(a', o', g', e', f') := y in
      sim a a' /\ o = o' /\ g = g' /\ e = e' /\ f = f'.

    Lemma content_loop_sim fuel : forall s1 s2 out id rem got, sim s1 s2 ->
      rel5 (content_loop CACHE T_CONTENT S1 fuel s1 out id rem got)
           (content_loop CACHE T_CONTENT S2 fuel s2 out id rem got).
    Proof.
      induction fuel as [|f IH]; intros s1 s2 out id rem got Hs; [cbn; auto|].
      cbn [content_loop].
      pose proof (buf_fill_sim (Datatypes.S f) s1 s2 rem [] Hs) as Hb.
      destruct (buf_fill CACHE S1 (Datatypes.S f) s1 rem []) as [[[a r] c] e].
      destruct (buf_fill CACHE S2 (Datatypes.S f) s2 rem []) as [[[a' r'] c'] e'].
      destruct Hb as (Ha & <- & <- & <-).
      destruct (w_append T_CONTENT out id (len c) c) as [o1 [x|x|x]]; [|cbn; auto..].
      destruct e; [cbn; auto|]. destruct (len c <? CACHE); [cbn; auto|]. apply IH; assumption.
    Qed.

    (* the two loop states agree on everything but the source *)
    Definition rp_rel (x : rpstate S1 * res fstatus) (y : rpstate S2 * res fstatus) : Prop :=
      snd x = snd y /\ rp_out _ (fst x) = rp_out _ (fst y) /\ rp_ids _ (fst x) = rp_ids _ (fst y) /\
      rp_names _ (fst x) = rp_names _ (fst y) /\ rp_done _ (fst x) = rp_done _ (fst y).

    Lemma block_loop_sim fuel : forall s1 s2 out ids names dn hs, sim s1 s2 ->
      rp_rel (block_loop S1 fuel (mkRP S1 s1 out ids names dn hs))
             (block_loop S2 fuel (mkRP S2 s2 out ids names dn hs)).
    Proof.
      induction fuel as [|f IH]; intros s1 s2 out ids names dn hs Hs; [repeat split|].
      cbn [Repair.block_loop rp_src rp_out rp_ids rp_names rp_done rp_hash].
      use (parse_block_sim s1 s2 Hs) as a b r.
      destruct r as [pb|e|c]; [|destruct e; repeat split|repeat split].
      destruct pb as [id name|id l|id h|].
      - destruct (existsb _ ids); [repeat split|]. destruct (mem dn id); [repeat split|].
        destruct (w_start _ _ _ _ _ out name) as [o1 [x|x|x]];
          [apply IH; assumption | destruct x; repeat split | repeat split].
      - destruct (assoc ids id) as [ido|]; [|repeat split]. destruct (mem dn id); [repeat split|].
        destruct (assoc names id); [|repeat split]. destruct (assoc hs id) as [hashed|]; [|repeat split].
        pose proof (content_loop_sim (Datatypes.S f) a b out ido l [] ltac:(assumption)) as Hc.
        destruct (content_loop CACHE T_CONTENT S1 (Datatypes.S f) a out ido l []) as [[[[a2 o2] g2] e2] f2].
        destruct (content_loop CACHE T_CONTENT S2 (Datatypes.S f) b out ido l []) as [[[[b2 o2'] g2'] e2'] f2'].
        destruct Hc as (Ha & <- & <- & <- & <-).
        destruct e2, f2; try solve [repeat split]. apply IH; assumption.
      - destruct (assoc ids id) as [ido|]; [|repeat split]. destruct (mem dn id); [repeat split|].
        destruct (assoc hs id) as [hashed|]; [|repeat split].
        destruct (negb _); [repeat split|].
        destruct (w_end _ _ _ _ _ out ido) as [o1 [x|x|x]]; [apply IH; assumption | repeat split..].
      - repeat split.
    Qed.

    Lemma cleanup_sim ids : forall (x : rpstate S1) (y : rpstate S2) out u,
      rp_names _ x = rp_names _ y -> rp_done _ x = rp_done _ y ->
      cleanup S1 ids x out u = cleanup S2 ids y out u.
    Proof.
      induction ids as [|[idf ido] r IH]; intros x y out u Hn Hd; cbn [Repair.cleanup]; [reflexivity|].
      rewrite <- Hn, <- Hd. destruct (mem (rp_done _ x) idf); [apply IH; assumption|].
      destruct (assoc (rp_names _ x) idf); [|reflexivity].
      destruct (w_end _ _ _ _ _ out ido) as [o1 [v|v|v]]; [apply IH; assumption | reflexivity..].
    Qed.

    Theorem repair_sim fuel s1 s2 out : sim s1 s2 -> repair S1 fuel s1 out = repair S2 fuel s2 out.
    Proof.
      intros Hs. unfold Repair.repair.
      pose proof (block_loop_sim fuel s1 s2 out [] [] [] [] Hs) as Hb.
      destruct (block_loop S1 fuel _) as [x r]. destruct (block_loop S2 fuel _) as [y r'].
      destruct Hb as (Hr & Ho & Hi & Hn & Hd). cbn [fst snd] in *. subst r'.
      destruct r as [stt|e|c]; [|reflexivity..].
      rewrite <- Ho, <- Hi, (cleanup_sim (rp_ids _ x) x y (rp_out _ x) [] Hn Hd). reflexivity.
    Qed.
  End Loop.
End Sim.

(* ---------- 2. a read-only source with a working seek added ---------- *)
Section SeekView.
  Context {LIM : Limit}.
  Variable S : Stream.
  Variable b : bytes.
  Variable I : st S -> N -> Prop.
  Hypothesis HR : RdRefines (rd S) b I.

  (* state: the state of S, the position, "a seek has happened: read from the cursor" *)
  Definition sv_rd (x : st S * N * bool) (n : N) : (st S * N * bool) * res bytes :=
    let '(s, p, k) := x in
    if k then let '(p', r) := cursor_rd b p n in ((s, p', true), r)
    else let '(s', r) := rd S s n in
         ((s', p + match r with Ok d => len d | _ => 0 end, false), r).
  Definition sv_sk (x : st S * N * bool) (w : whence) : (st S * N * bool) * res N :=
    let '(s, p, _) := x in let '(p', r) := cursor_sk b p w in ((s, p', true), r).
  Definition SeekView : Stream := {| st := st S * N * bool; rd := sv_rd; sk := sv_sk |}.

  Definition SvR (x : st S * N * bool) (q : N) : Prop :=
    let '(s, p, k) := x in p = q /\ if k then q <= len b else I s q.

  Lemma rd_refines_range s q : I s q -> q <= len b.
  Proof. intros HI. destruct (HR s q 0 HI) as (_ & k & _ & _ & Hk & _). lia. Qed.

  Lemma seekview_refines : Refines SeekView b SvR.
  Proof.
    constructor.
    - intros [[s p] k] q [-> Hq]. destruct k; [exact Hq | exact (rd_refines_range s q Hq)].
    - intros [[s p] k] q n [-> Hq]. cbn [SeekView rd st sv_rd]. destruct k.
      + destruct (ref_rd _ _ _ (cursor_refines b) q q n (conj eq_refl Hq))
          as (s' & k & Hrd & Hle & Hb & Hz & [-> _]).
        cbn [Cursor rd st] in Hrd. rewrite Hrd. exists (s, q + k, true), k.
        split; [reflexivity|]. repeat split; try assumption.
      + destruct (HR s q n Hq) as (s' & k & Hrd & Hle & Hb & Hz & HI). rewrite Hrd.
        assert (Hl : len (sliceN q k b) = k) by (rewrite len_sliceN; lia). rewrite Hl.
        exists (s', q + k, false), k. split; [reflexivity|]. repeat split; assumption.
    - intros [[s p] k] q w t [-> Hq] Ht. cbn [SeekView sk st sv_sk].
      assert (Hq' : q <= len b) by (destruct k; [exact Hq | exact (rd_refines_range s q Hq)]).
      destruct (ref_sk _ _ _ (cursor_refines b) q q w t (conj eq_refl Hq') Ht) as (s' & Hsk & [-> Ht']).
      cbn [Cursor sk st] in Hsk. rewrite Hsk. exists (s, t, true). split; [reflexivity|]. split; auto.
  Qed.

  (* as long as nobody seeks, SeekView is S *)
  Definition sv_sim (s : st S) (x : st S * N * bool) : Prop := exists p, x = (s, p, false).
  Lemma sv_sim_rd s x n : sv_sim s x -> simp S SeekView sv_sim (rd S s n) (rd SeekView x n).
  Proof.
    intros [p ->]. cbn [SeekView rd st sv_rd]. destruct (rd S s n) as [s' r]. split; [|reflexivity].
    eexists; reflexivity.
  Qed.

  (* 3. the transfer principle *)
  Theorem repair_rd_transfer FNMAX CACHE T_START T_CONTENT T_EOA T_EOF H fuel s0 out0 :
    repair FNMAX CACHE T_START T_CONTENT T_EOA T_EOF H S fuel s0 out0 =
    repair FNMAX CACHE T_START T_CONTENT T_EOA T_EOF H SeekView fuel (s0, 0, false) out0.
  Proof. apply (repair_sim S SeekView sv_sim sv_sim_rd). exists 0. reflexivity. Qed.

  Lemma SvR_init s0 : I s0 0 -> SvR (s0, 0, false) 0.
  Proof. intros HI. split; [reflexivity | exact HI]. Qed.
End SeekView.

(* ---------- the C02/C05 theorems for read-only sources ---------- *)
Section RdOnlyRepair.
  Context {LIM : Limit}.
  Variable FNMAX CACHE : N.
  Hypothesis HFN : FNMAX < 2 ^ 64.
  Hypothesis HCACHE : 0 < CACHE.
  Variables T_START T_CONTENT T_EOA T_EOF : N.
  Hypothesis Htags : T_START <> T_CONTENT /\ T_START <> T_EOA /\ T_START <> T_EOF /\
                     T_CONTENT <> T_EOA /\ T_CONTENT <> T_EOF /\ T_EOA <> T_EOF.
  Variable H : bytes -> bytes.
  Hypothesis H_len : forall x, len (H x) = 32.

  Notation body := (body T_START T_CONTENT T_EOA T_EOF).
  Notation repair := (repair FNMAX CACHE T_START T_CONTENT T_EOA T_EOF H).
  Notation wf_blocks := (wf_blocks FNMAX H).
  Notation good_output := (good_output FNMAX T_START T_CONTENT T_EOA T_EOF H).

  Variable S : Stream.
  Variable w : bytes.
  Variable I : st S -> N -> Prop.
  Hypothesis HR : RdRefines (rd S) w I.
  Variable bl : list block.
  Variable trailer : bytes.
  Hypothesis Hwf : wf_blocks bl.
  Hypothesis Htr : In BEnd bl \/ trailer = [].
  Hypothesis Hpre : prefix w (body bl ++ trailer).
  Variable s0 : st S.
  Hypothesis Hs0 : I s0 0.
  Variable fuel : nat.
  Hypothesis Hfuel : (N.to_nat (len w) < fuel)%nat.
  (* finalize did not fail with SerializationError (footer within the bincode limit) *)
  Hypothesis Hser : repair S fuel s0 w_init <> Err EDeser.

  Lemma repair_rd_ser_view :
    Repair.repair FNMAX CACHE T_START T_CONTENT T_EOA T_EOF H (SeekView S w) fuel (s0, 0, false) w_init
      <> Err EDeser.
  Proof. rewrite <- (repair_rd_transfer S w). exact Hser. Qed.

  Theorem repair_exact_rd :
    exists out obl,
      repair S fuel s0 w_init =
        Ok (if snd (cutb bl (len w)) then FEndOfData else FEofNextBlock,
            unfinished_of (recovered bl (len w)), out) /\
      good_output out obl /\ Forall2 same (recovered bl (len w)) (files_of obl).
  Proof.
    rewrite (repair_rd_transfer S w).
    exact (repair_exact FNMAX CACHE HFN HCACHE T_START T_CONTENT T_EOA T_EOF Htags H H_len
             (SeekView S w) w (SvR S w I) (seekview_refines S w I HR) bl trailer Hwf Htr Hpre
             (s0, 0, false) (SvR_init S w I s0 Hs0) fuel Hfuel repair_rd_ser_view).
  Qed.

  Theorem repair_sound_rd :
    exists status unfinished out obl,
      repair S fuel s0 w_init = Ok (status, unfinished, out) /\
      good_output out obl /\
      (forall g, In g (files_of obl) ->
         exists f, In f (files_of bl) /\ f_name f = f_name g /\ prefix (f_data g) (f_data f)) /\
      (forall name, prefix (content_of (files_of obl) name) (content_of (files_of bl) name)) /\
      (forall g, In g (files_of obl) -> ~ In (f_name g) unfinished ->
         exists f, In f (files_of bl) /\ f_name f = f_name g /\ f_data f = f_data g /\ f_ended f = true) /\
      (status = FEndOfData ->
         unfinished = [] /\ Forall2 same (files_of bl) (files_of obl) /\
         (forall f, In f (files_of bl) -> f_ended f = true)) /\
      (status = FEndOfData \/ status = FEofNextBlock).
  Proof.
    rewrite (repair_rd_transfer S w).
    exact (repair_sound_any_prefix FNMAX CACHE HFN HCACHE T_START T_CONTENT T_EOA T_EOF Htags H H_len
             (SeekView S w) w (SvR S w I) (seekview_refines S w I HR) bl trailer Hwf Htr Hpre
             (s0, 0, false) (SvR_init S w I s0 Hs0) fuel Hfuel repair_rd_ser_view).
  Qed.

  Theorem repair_max_rd :
    exists status unfinished out obl,
      repair S fuel s0 w_init = Ok (status, unfinished, out) /\
      good_output out obl /\
      (forall f, In f (files_of bl) ->
         content_of (files_of obl) (f_name f) = present (f_id f) bl (len w)).
  Proof.
    rewrite (repair_rd_transfer S w).
    exact (repair_max_any_prefix FNMAX CACHE HFN HCACHE T_START T_CONTENT T_EOA T_EOF Htags H H_len
             (SeekView S w) w (SvR S w I) (seekview_refines S w I HR) bl trailer Hwf Htr Hpre
             (s0, 0, false) (SvR_init S w I s0 Hs0) fuel Hfuel repair_rd_ser_view).
  Qed.

  Theorem repair_intact_rd :
    In BEnd bl -> blens bl <= len w ->
    exists out obl,
      repair S fuel s0 w_init = Ok (FEndOfData, [], out) /\
      good_output out obl /\ Forall2 same (files_of bl) (files_of obl) /\
      (forall f, In f (files_of bl) -> f_ended f = true).
  Proof.
    rewrite (repair_rd_transfer S w).
    exact (repair_intact_any FNMAX CACHE HFN HCACHE T_START T_CONTENT T_EOA T_EOF Htags H H_len
             (SeekView S w) w (SvR S w I) (seekview_refines S w I HR) bl trailer Hwf Htr Hpre
             (s0, 0, false) (SvR_init S w I s0 Hs0) fuel Hfuel repair_rd_ser_view).
  Qed.
End RdOnlyRepair.
