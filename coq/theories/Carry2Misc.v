(* Carry2Misc.v — work package `carry2`, part 4: C05 (monotone), C14 (flush then repair) and C12 (linear =
   per file) with GENERATED code as subject.
     C05  two runs of the TRANSLATED convert_to_archive (gen/Src3r.v over the translated ArchiveWriter of
          gen/Src2.v) on cuts n <= m of a body: both return Ok and every file recovered at n is a prefix of the
          file recovered at m.  RepairProofs6.repair_monotone through CarryRepair.conv_of_repair.
     C14  the bytes the TRANSLATED ArchiveWriter holds in its destination after any clean call list (what a flush
          makes durable), given to the TRANSLATED convert_to_archive: every byte appended to every file comes back.
          ComposeFlush.flush_then_repair_plain through CarryWriter.src_wrun_model and conv_of_repair.
     C12  an archive written by the translated writer: the TRANSLATED linear_extract (gen/Src3l.v) delivers to each
          chosen file exactly what the TRANSLATED get_file + read (gen/Src3d.v) return for it.
          SrcTie3Linear.C12_linear_delivers_written_src with CarryReader.get_file_read_src.
   Premise of the two repair statements, as in CarryRepair.v: RdBounded (a read delivers at most what was asked, in
   every state of the source) — true of Cursor and Throttled; and the translated function did not stop with
   SerializationError (the footer of the repaired archive within the bincode limit). *)
From MLA Require Import Limit.
From MLA Require Import Base Stream Blocks Writer Reader Repair RepairSpec RepairPure RepairProofs2 RepairProofs5 RepairProofs6
  EncAuthFs FlushProofs ComposeWriterRun ComposeFlush SrcTie2 SrcTie3Repair SrcTie3RepairLoop SrcTie3Reader SrcTie3ReaderRT
  RoundTripBlocks RoundTripWriter RoundTrip LinearProofs LinearRoundTripDefs SrcTie3Linear CarryWriter CarryReader CarryRepair.
From MLAGen Require Src2 Src3d Src3l Src3r.
From Coq Require Import ZifyBool ZifyNat ZifyN Permutation.
Open Scope N_scope.

Section RepairSrc.
  Context {LIM : Limit}.
  Variable FNMAX CACHE : N.
  Hypothesis HFN : FNMAX < 2 ^ 64.
  Hypothesis HCACHE : 0 < CACHE.
  Variables TS TC TA TE : N.
  Hypothesis Htags : TS <> TC /\ TS <> TA /\ TS <> TE /\ TC <> TA /\ TC <> TE /\ TA <> TE.
  Variable H : bytes -> bytes.
  Hypothesis H_len : forall x, len (H x) = 32.

  Notation body := (body TS TC TA TE).
  Notation good_output := (good_output FNMAX TS TC TA TE H).
  Notation g_conv S := (Src3r.convert_to_archive FNMAX CACHE TS TC TA TE H
                          (footer_ser (fun f => f)) (fun _ => Ok tt) S (block_from FNMAX TS TC TA TE S)).

  (* ---------- C05: monotone in the cut ---------- *)
  Theorem repair_monotone_src (bl : list block) (trailer : bytes) :
    wf_blocks FNMAX H bl -> In BEnd bl \/ trailer = [] ->
    forall (n m : N) (S1 : Stream) (R1 : st S1 -> N -> Prop) (s1 : st S1) (fuel1 : nat)
           (S2 : Stream) (R2 : st S2 -> N -> Prop) (s2 : st S2) (fuel2 : nat),
      RdBounded S1 -> RdBounded S2 -> n <= m ->
      Refines S1 (takeN n (body bl ++ trailer)) R1 -> R1 s1 0 -> (N.to_nat n < fuel1)%nat ->
      Refines S2 (takeN m (body bl ++ trailer)) R2 -> R2 s2 0 -> (N.to_nat m < fuel2)%nat ->
      snd (g_conv S1 fuel1 s1 aw_init) <> Err EDeser -> snd (g_conv S2 fuel2 s2 aw_init) <> Err EDeser ->
      exists l1 e1 obl1 l2 e2 obl2,
        g_conv S1 fuel1 s1 aw_init = (l1, Ok e1) /\ good_output (absW (Src3r.l_output S1 l1)) obl1 /\
        g_conv S2 fuel2 s2 aw_init = (l2, Ok e2) /\ good_output (absW (Src3r.l_output S2 l2)) obl2 /\
        forall name, prefix (content_of (files_of obl1) name) (content_of (files_of obl2) name).
  Proof.
    intros Hwf Htr n m S1 R1 s1 fuel1 S2 R2 s2 fuel2 HB1 HB2 Hnm HR1 Hs1 Hf1 HR2 Hs2 Hf2 Hser1 Hser2.
    destruct (repair_monotone FNMAX CACHE HFN HCACHE TS TC TA TE Htags H H_len bl trailer Hwf Htr
                n m S1 R1 s1 fuel1 S2 R2 s2 fuel2 Hnm HR1 Hs1 Hf1 HR2 Hs2 Hf2
                (repair_ser_of_conv FNMAX CACHE HCACHE TS TC TA TE H S1 fuel1 s1 HB1 Hser1)
                (repair_ser_of_conv FNMAX CACHE HCACHE TS TC TA TE H S2 fuel2 s2 HB2 Hser2))
      as (st1 & u1 & out1 & obl1 & st2 & u2 & out2 & obl2 & Hr1 & Hg1 & Hr2 & Hg2 & Hpre).
    destruct (conv_of_repair FNMAX CACHE HCACHE TS TC TA TE H S1 fuel1 s1 _ _ _ HB1 Hr1) as (l1 & e1 & Hc1 & _ & Ho1 & _).
    destruct (conv_of_repair FNMAX CACHE HCACHE TS TC TA TE H S2 fuel2 s2 _ _ _ HB2 Hr2) as (l2 & e2 & Hc2 & _ & Ho2 & _).
    exists l1, e1, obl1, l2, e2, obl2. rewrite Ho1, Ho2. auto.
  Qed.

  (* ---------- C14: translated writer up to a flush, then translated repair ---------- *)
  Theorem flush_then_repair_plain_src (order : footer -> footer) (ops : list wop) (sw : Src2.ArchiveWriter) (rs : list (res N)) :
    src_wrun FNMAX TS TC TA TE H order aw0 ops = (sw, rs) ->
    Forall (fun x => clean (fst x) (snd x)) (combine ops rs) ->
    Forall op_ok ops -> Src2.next_id sw < 2 ^ 64 ->
    forall (S : Stream) (I : st S -> N -> Prop) (s0 : st S) (fuel : nat),
      RdBounded S -> RdRefines (rd S) (Src2.dest sw) I -> I s0 0 -> (N.to_nat (len (Src2.dest sw)) < fuel)%nat ->
      snd (g_conv S fuel s0 aw_init) <> Err EDeser ->
      exists bl l e obl,
        Src2.dest sw = body bl /\ wf_blocks FNMAX H bl /\ Src2.files_info sw = name_list (files_of bl) /\
        g_conv S fuel s0 aw_init = (l, Ok e) /\
        status_of e = (FEofNextBlock, unfinished_of (files_of bl)) /\
        good_output (absW (Src3r.l_output S l)) obl /\ Forall2 same (files_of bl) (files_of obl) /\
        forall name id, In (name, id) (Src2.files_info sw) ->
          content_of (files_of obl) name = appended FNMAX TS TC TA TE H order id w_init ops.
  Proof.
    intros Hrun Hclean Hops Hnext S I s0 fuel HB HR HI Hf Hser.
    destruct (src_wrun_model FNMAX TS TC TA TE H order ops sw rs Hrun) as [Hm _].
    destruct (flush_then_repair_plain FNMAX CACHE HFN HCACHE TS TC TA TE Htags H H_len order ops (absW sw) rs Hm Hclean Hops Hnext
                S I s0 fuel HR HI Hf (repair_ser_of_conv FNMAX CACHE HCACHE TS TC TA TE H S fuel s0 HB Hser))
      as (bl & out & obl & Hout & Hwf & Hfiles & Hr & Hgo & Hsame & Hcont).
    destruct (conv_of_repair FNMAX CACHE HCACHE TS TC TA TE H S fuel s0 _ _ _ HB Hr) as (l & e & Hc & Hst & Ho & _).
    exists bl, l, e, obl. rewrite Ho.
    split; [exact Hout|]. split; [exact Hwf|]. split; [exact Hfiles|]. split; [exact Hc|]. split; [exact Hst|].
    split; [exact Hgo|]. split; [exact Hsame | exact Hcont].
  Qed.
End RepairSrc.

(* ---------- C12: translated linear_extract = translated get_file + read, on the translated writer's archive ---------- *)
Section LinearSrc.
  Local Hint Extern 0 Limit => exact Src3d.BINCODE_MAX_DESERIALIZE : typeclass_instances.
  Variable FNMAX : N.
  Variables TS TC TA TE : N.
  Variable H : bytes -> bytes.
  Variable order : footer -> footer.
  Variable site_index : N.
  Hypothesis Htags : tags_distinct TS TC TA TE.
  Hypothesis HHlen : forall x, len (H x) = 32.
  Hypothesis Horder : forall f, Permutation (order f) f.
  Variable ops : list wop.
  Variable sf : Src2.ArchiveWriter.
  Variable rs : list (res N).
  Hypothesis Hrun : src_wrun FNMAX TS TC TA TE H order aw0 (ops ++ [OFinalize]) = (sf, rs).
  Hypothesis Hok : Forall (fun r => is_ok r = true) rs.
  Hypothesis Hutf : forallb op_utf8 ops = true.
  Hypothesis Hlen64 : len (Src2.dest sf) < 2 ^ 64.
  Hypothesis Hfoot32 : len (ser_footer_map (order (w_footer (absW sf)))) < 2 ^ 32.
  Variable S : Stream.
  Variable R : st S -> N -> Prop.
  Hypothesis HR : Refines S (Src2.dest sf) R.

  Theorem linear_equals_per_file_src (ar ar2 : Src3d.ArchiveReader S) (export : list bytes) (fuel : nat) :
    SrcRS order sf S R ar -> SrcRS order sf S R ar2 -> (N.to_nat (len (Src2.dest sf)) < fuel)%nat ->
    exists out,
      Src3l.linear_extract S FNMAX TS TC TA TE fuel ar (Src3l.mkExport export []) = (Src3l.mkExport export out, Ok tt) /\
      chosen_only export out /\
      (forall name, ~ In name (map fst (started 0 ops)) -> delivered name out = []) /\
      forall name id, In (name, id) (started 0 ops) -> name_in export name = true ->
        exists fi, flookup (order (w_footer (absW sf))) name = Some fi /\
        forall sizes : nat -> N, (forall i, 0 < sizes i) ->
        forall zf fuel2 F : nat, (length (pieces 0 id ops) < fuel2)%nat ->
          (Datatypes.S zf * Datatypes.S (Datatypes.S (length (fi_offsets fi))) <= F)%nat ->
          exists ar' x x',
            Src3d.get_file S FNMAX TS TC TA TE site_index ar2 name = (ar', Ok (Some (name, x, len (delivered name out)))) /\
            g_read_all S FNMAX TS TC TA TE site_index F fuel2 x sizes 0%nat [] = (x', Ok (delivered name out)).
  Proof.
    intros Har Har2 Hfuel. destruct (SrcRS_rep order sf S R ar Har) as (r & -> & HRS).
    pose proof (Hrun_model FNMAX TS TC TA TE H order ops sf rs Hrun) as Hm.
    destruct (C12_linear_delivers_written_src FNMAX TS TC TA TE H order Htags HHlen ops (absW sf) rs Hm Hok Hutf Hlen64 Hfoot32
                S R HR r export fuel HRS Hfuel) as (out & Hlin & Hch & Hdel & Habs).
    exists out. split; [exact Hlin|]. split; [exact Hch|]. split; [exact Habs|].
    intros name id Hin Hex. pose proof (Hdel name id Hin) as Hd. rewrite Hex in Hd.
    destruct (get_file_read_src FNMAX TS TC TA TE H order site_index Htags HHlen Horder ops sf rs Hrun Hok Hutf Hlen64 Hfoot32
                S R HR ar2 name id Har2 Hin) as (fi & Hlk & _ & Hrd).
    exists fi. split; [exact Hlk|]. intros sizes Hsz zf fuel2 F Hf2 HF.
    destruct (Hrd sizes Hsz zf fuel2 F Hf2 HF) as (ar' & x & x' & Hg & _ & Hra & _).
    exists ar', x, x'. rewrite Hd. split; [exact Hg | exact Hra].
  Qed.
End LinearSrc.
