(* CompFailSafeToy.v — a toy codec satisfying DecoderLaws, for the non-vacuity examples of
   the fail-safe decompression theorems.  A stream is [n] ++ payload with n < 128 payload
   bytes; a first byte >= 128 is invalid (the decoder reports ResultFailure).  The decoder
   keeps what it has consumed and how much it has emitted; one call consumes what it is given
   up to the end of the stream and emits as much as the room allows. *)
From MLA Require Import Base Stream CompFailSafe CompFailSafeProofs CompFailSafeStep.
From Coq Require Import ZifyBool ZifyNat ZifyN.
Open Scope N_scope.

Definition tneed (x : bytes) : N := match x with [] => 0 | n :: _ => n + 1 end.
Definition tbad (x : bytes) : bool := match x with [] => false | n :: _ => 128 <=? n end.
Definition tD (x : bytes) : bytes :=
  match x with [] => [] | n :: r => if 128 <=? n then [] else takeN n r end.
Definition tfin (x : bytes) : bool :=
  match x with [] => false | n :: r => (n <? 128) && (len r =? n) end.
Definition tcomp (p : bytes) : bytes := len p :: p.

Definition tstate : Type := bytes * N.
Definition tinit : tstate := ([], 0).
Definition tstep (ds : tstate) (inp : bytes) (room : N) : dresult * N * bytes * tstate :=
  let '(cin, co) := ds in
  let x := cin ++ inp in
  if tbad x then (DFailure, 0, [], ds)
  else
    let k := N.min (tneed x - len cin) (len inp) in
    let cons := cin ++ takeN k inp in
    let A := tD cons in
    let out := takeN room (dropN co A) in
    let r := if co + len out <? len A then DNeedsMoreOutput
             else if tfin cons then DSuccess else DNeedsMoreInput in
    (r, k, out, (cons, co + len out)).

Lemma prefix_takeN_app {A} n (r b : list A) : prefix (takeN n r) (takeN n (r ++ b)).
Proof.
  destruct (N.le_gt_cases n (len r)).
  - rewrite takeN_app_le by assumption. apply prefix_refl.
  - rewrite takeN_app_ge by lia. rewrite (takeN_all n r) by lia. apply prefix_app.
Qed.

Lemma tD_mono a b : prefix (tD a) (tD (a ++ b)).
Proof.
  destruct a as [|n r]; [apply prefix_nil_l|]. cbn [tD app].
  destruct (128 <=? n); [apply prefix_nil_l | apply prefix_takeN_app].
Qed.
Lemma tfin_pfree a b : tfin a = true -> tfin (a ++ b) = true -> b = [].
Proof.
  destruct a as [|n r]; [discriminate|]. cbn [tfin app]. rewrite len_app. intros H1 H2.
  apply len_0_nil. lia.
Qed.
Lemma tneed_app x y : x <> [] -> tneed (x ++ y) = tneed x.
Proof. destruct x; [congruence | reflexivity]. Qed.
Lemma tbad_app x y : x <> [] -> tbad (x ++ y) = tbad x.
Proof. destruct x; [congruence | reflexivity]. Qed.
Lemma tfin_len c : tfin c = true -> len c = tneed c /\ c <> [] /\ tbad c = false.
Proof.
  destruct c as [|n r]; [discriminate|]. cbn [tfin tneed tbad]. rewrite len_cons. intros H.
  repeat split; try lia. discriminate.
Qed.
Lemma prefix_nonnil_head (c x : bytes) : prefix c x -> c <> [] -> tneed x = tneed c /\ tbad x = tbad c.
Proof. intros [r ->] H. split; [apply tneed_app | apply tbad_app]; exact H. Qed.

(* the invariant of reachable states *)
Definition tJ (ds : tstate) (cin cout : bytes) : Prop :=
  ds = (cin, len cout) /\ prefix cout (tD cin) /\ len cin <= tneed cin /\ tbad cin = false.

(* everything one call does, from a state satisfying the invariant *)
Lemma tstep_facts cin cout inp room r k out ds' :
  prefix cout (tD cin) -> len cin <= tneed cin ->
  tstep (cin, len cout) inp room = (r, k, out, ds') ->
  (r = DFailure /\ k = 0 /\ out = [] /\ tbad (cin ++ inp) = true) \/
  (tbad (cin ++ inp) = false /\ k <= len inp /\ len cin + k <= tneed (cin ++ inp) /\
   ds' = (cin ++ takeN k inp, len (cout ++ out)) /\
   cout ++ out = takeN (len cout + room) (tD (cin ++ takeN k inp)) /\
   len (cin ++ takeN k inp) <= tneed (cin ++ takeN k inp) /\
   (k < len inp -> tfin (cin ++ takeN k inp) = true) /\
   r = (if len (cout ++ out) <? len (tD (cin ++ takeN k inp)) then DNeedsMoreOutput
        else if tfin (cin ++ takeN k inp) then DSuccess else DNeedsMoreInput)).
Proof.
  intros Hc Hn. unfold tstep. destruct (tbad (cin ++ inp)) eqn:Eb.
  - intros H; injection H as <- <- <- _. left; auto.
  - set (k0 := N.min (tneed (cin ++ inp) - len cin) (len inp)).
    intros H; injection H as <- <- <- <-. right.
    set (cons := cin ++ takeN k0 inp).
    assert (Hneed : len cin <= tneed (cin ++ inp)).
    { destruct cin as [|a l]; [rewrite len_nil; lia|]. rewrite tneed_app by discriminate. exact Hn. }
    assert (Hlc : len cons = len cin + k0) by (unfold cons; rewrite len_app, len_takeN; lia).
    assert (Hco : cout = takeN (len cout) (tD cons)).
    { apply prefix_is_takeN. apply prefix_trans with (tD cin); [exact Hc | apply tD_mono]. }
    assert (Hcat : cout ++ takeN room (dropN (len cout) (tD cons)) = takeN (len cout + room) (tD cons)).
    { rewrite takeN_add. rewrite <- Hco. reflexivity. }
    assert (Hx : cons <> [] -> tneed cons = tneed (cin ++ inp)).
    { intros Hne. symmetry. apply (prefix_nonnil_head cons (cin ++ inp)); [|exact Hne].
      unfold cons. apply prefix_app_app. apply prefix_takeN. }
    assert (Hcn : len cons <= tneed cons).
    { destruct cons as [|a l] eqn:Ec; [rewrite len_nil; lia|]. rewrite Hx by discriminate. lia. }
    split; [reflexivity|]. split; [lia|]. split; [lia|].
    split; [rewrite len_app; reflexivity|]. split; [exact Hcat|]. split; [exact Hcn|].
    split.
    + intros Hlt. assert (Hk : len cin + k0 = tneed (cin ++ inp)) by lia.
      assert (Hne : cons <> []).
      { apply len_pos_nonnil. destruct (cin ++ inp) as [|a l] eqn:Ex.
        - apply (f_equal (@len N)) in Ex. rewrite len_app, len_nil in Ex. lia.
        - cbn [tneed] in Hk. lia. }
      pose proof (Hx Hne) as Hx'.
      assert (Hb : tbad cons = false).
      { rewrite <- Eb. symmetry. apply (prefix_nonnil_head cons (cin ++ inp)); [|exact Hne].
        unfold cons. apply prefix_app_app. apply prefix_takeN. }
      destruct cons as [|n l]; [congruence|]. cbn [tfin tneed tbad] in *. rewrite len_cons in Hlc. lia.
    + rewrite len_app. reflexivity.
Qed.

Lemma tbad_prefix c x : prefix c x -> tbad x = false -> tbad c = false.
Proof.
  intros Hp Hx. destruct c as [|n l] eqn:E; [reflexivity|]. rewrite <- E in *.
  rewrite <- Hx. symmetry. apply (prefix_nonnil_head c x Hp). rewrite E. discriminate.
Qed.

Lemma treach_J ds cin cout : dreach tinit tstep ds cin cout -> tJ ds cin cout.
Proof.
  induction 1 as [|ds cin cout inp room r k out ds' Hr IH Hstep Hres].
  - unfold tJ, tinit. split; [reflexivity|]. split; [apply prefix_nil_l|]. split; [|reflexivity].
    rewrite len_nil. cbn [tneed]. lia.
  - destruct IH as (-> & Hc & Hn & Hb).
    destruct (tstep_facts _ _ _ _ _ _ _ _ Hc Hn Hstep)
      as [(-> & _)|(Eb & Hk & Hle & -> & Hcat & Hcn & _ & Hr')].
    + destruct Hres; discriminate.
    + unfold tJ. split; [reflexivity|]. split; [rewrite Hcat; apply prefix_takeN|].
      split; [exact Hcn|]. apply (tbad_prefix _ (cin ++ inp)); [|exact Eb].
      apply prefix_app_app. apply prefix_takeN.
Qed.

Lemma len_cin_need cin inp : len cin <= tneed cin -> len cin <= tneed (cin ++ inp).
Proof.
  intros H. destruct cin as [|a l]; [rewrite len_nil; lia|]. rewrite tneed_app by discriminate. exact H.
Qed.

Theorem toy_laws : DecoderLaws tinit tstep tD tfin.
Proof.
  constructor.
  - reflexivity.
  - exact tfin_pfree.
  - exact tD_mono.
  - intros ds cin cout inp room r k out ds' Hr Hs.
    destruct (treach_J _ _ _ Hr) as (-> & Hc & Hn & Hb).
    destruct (tstep_facts _ _ _ _ _ _ _ _ Hc Hn Hs)
      as [(-> & -> & -> & _)|(Eb & Hk & Hle & -> & Hcat & Hcn & Hf & Hr')].
    + change (len (@nil N)) with 0. lia.
    + split; [exact Hk|]. apply (f_equal (@len N)) in Hcat. rewrite len_app, len_takeN in Hcat. lia.
  - intros ds cin cout inp room r k out ds' c Hr Hs Hfc Hpc.
    destruct (treach_J _ _ _ Hr) as (-> & Hc & Hn & Hb).
    destruct (tfin_len c Hfc) as (Hlc & Hne & Hbc).
    destruct (prefix_nonnil_head c (cin ++ inp) Hpc Hne) as [Hnx Hbx].
    destruct (tstep_facts _ _ _ _ _ _ _ _ Hc Hn Hs)
      as [(-> & -> & -> & Eb)|(Eb & Hk & Hle & -> & Hcat & Hcn & Hf & Hr')].
    + congruence.
    + lia.
  - intros ds cin cout inp room r k out ds' Hr Hs Hnf.
    destruct (treach_J _ _ _ Hr) as (-> & Hc & Hn & Hb).
    destruct (tstep_facts _ _ _ _ _ _ _ _ Hc Hn Hs)
      as [(-> & _)|(Eb & Hk & Hle & -> & Hcat & Hcn & Hf & Hr')]; [congruence|].
    rewrite Hcat. apply prefix_takeN.
  - intros ds cin cout inp room k out ds' Hr Hs.
    destruct (treach_J _ _ _ Hr) as (-> & Hc & Hn & Hb).
    destruct (tstep_facts _ _ _ _ _ _ _ _ Hc Hn Hs)
      as [(? & _)|(Eb & Hk & Hle & -> & Hcat & Hcn & Hf & Hr')]; [congruence|].
    destruct (N.ltb_spec (len (cout ++ out)) (len (tD (cin ++ takeN k inp)))) as [?|Hge]; [discriminate|].
    destruct (tfin (cin ++ takeN k inp)) eqn:Ef; [|discriminate].
    split; [reflexivity|]. apply prefix_len_eq; [|exact Hge]. rewrite Hcat. apply prefix_takeN.
  - intros ds cin cout inp room k out ds' Hr Hs.
    destruct (treach_J _ _ _ Hr) as (-> & Hc & Hn & Hb).
    destruct (tstep_facts _ _ _ _ _ _ _ _ Hc Hn Hs)
      as [(? & _)|(Eb & Hk & Hle & -> & Hcat & Hcn & Hf & Hr')]; [congruence|].
    destruct (N.ltb_spec (len (cout ++ out)) (len (tD (cin ++ takeN k inp)))) as [?|Hge]; [discriminate|].
    destruct (tfin (cin ++ takeN k inp)) eqn:Ef; [discriminate|].
    assert (Hkk : k = len inp).
    { destruct (N.lt_ge_cases k (len inp)) as [Hlt|?]; [|lia]. specialize (Hf Hlt). congruence. }
    split; [exact Hkk|]. right. subst k.
    assert (Ht : takeN (len inp) inp = inp) by (apply takeN_all; lia). rewrite Ht in *.
    apply prefix_len_eq; [|exact Hge]. rewrite Hcat. apply prefix_takeN.
  - intros ds cin cout inp room k out ds' Hr Hs.
    destruct (treach_J _ _ _ Hr) as (-> & Hc & Hn & Hb).
    destruct (tstep_facts _ _ _ _ _ _ _ _ Hc Hn Hs)
      as [(? & _)|(Eb & Hk & Hle & -> & Hcat & Hcn & Hf & Hr')]; [congruence|].
    destruct (N.ltb_spec (len (cout ++ out)) (len (tD (cin ++ takeN k inp)))) as [Hlt|?];
      [|destruct (tfin (cin ++ takeN k inp)); discriminate].
    split.
    + pose proof (f_equal (@len N) Hcat) as Hl. rewrite len_takeN in Hl. rewrite len_app in *. lia.
    + intros He. rewrite He in Hlt. lia.
  - intros ds cin cout inp room k out ds' Hr Hs (c & Hfc & Hcmp).
    destruct (treach_J _ _ _ Hr) as (-> & Hc & Hn & Hb).
    destruct (tfin_len c Hfc) as (Hlc & Hne & Hbc).
    destruct (tstep_facts _ _ _ _ _ _ _ _ Hc Hn Hs)
      as [(_ & _ & _ & Eb)|(Eb & Hk & Hle & -> & Hcat & Hcn & Hf & Hr')].
    + destruct Hcmp as [Hp|Hp].
      * assert (Hx : cin ++ inp <> []) by (intros E; rewrite E in Eb; discriminate).
        destruct (prefix_nonnil_head _ _ Hp Hx) as [_ H2]. congruence.
      * destruct (prefix_nonnil_head _ _ Hp Hne) as [_ H2]. congruence.
    + destruct (len (cout ++ out) <? len (tD (cin ++ takeN k inp))); [discriminate|].
      destruct (tfin (cin ++ takeN k inp)); discriminate.
Qed.

(* ---------- the example wire: BLOCK = 8, FSBUF = 4 ---------- *)
From MLA Require Import CompFailSafeThms.
Definition fsx_p0 : bytes := [1; 2; 3; 4; 5; 6; 7; 8].
Definition fsx_p1 : bytes := [9; 10; 11; 12; 13; 14; 15; 16].
Definition fsx_p2 : bytes := [17; 18; 19; 20].
Definition fsx_bs : list (bytes * bytes) :=
  [(tcomp fsx_p0, fsx_p0); (tcomp fsx_p1, fsx_p1); (tcomp fsx_p2, fsx_p2)].
(* a first byte >= 128: the fresh decoder reports ResultFailure *)
Definition fsx_tail : bytes := [200; 7; 7].
Definition fsx_wire : bytes := wire_of fsx_tail fsx_bs.

Lemma fsx_good : Forall (good_block 8 tD tfin) fsx_bs.
Proof. repeat constructor; (reflexivity || (vm_compute; discriminate)). Qed.
Lemma fsx_dead : dead tD tfin fsx_tail.
Proof.
  intros u Hp. destruct u as [|a l]; [split; reflexivity|].
  destruct Hp as [r Hr]. injection Hr as <- _. unfold tD, tfin.
  replace (128 <=? 200) with true by reflexivity. replace (200 <? 128) with false by reflexivity.
  split; reflexivity.
Qed.

(* a run over the available bytes w: the toy decoder, a source returning at most sched[i]
   bytes at the i-th read ([] = as many as asked), reads of n+1 bytes *)
Definition fsx_run (w : bytes) (sched : list N) (n : N) : run tD tfin fsx_bs w.
Proof.
  refine (mkRun tD tfin fsx_bs w tstate tinit tstep toy_laws (Throttled w)
            (fun s p => fst s = p /\ p <= len w) (throttled_src w) (0, sched) _
            (fun _ => n + 1) _
            (Datatypes.S (N.to_nat (len (plain_of fsx_bs)))) (Datatypes.S (N.to_nat (2 * len w + 1))) _ _).
  - split; [reflexivity | lia].
  - intros j. lia.
  - lia.
  - lia.
Defined.
