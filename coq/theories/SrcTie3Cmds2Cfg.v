(* SrcTie3Cmds2Cfg.v — Tie A level 1 for the writer side of the mlar command line (work package cmdsT2): open_ecc_public_keys,
   config_from_matches, destination_from_output_argument and writer_from_matches of mlar/src/main.rs as translated by
   tools/src2v3_cmds.py (gen/Src3m.v) ARE the specification function config_spec below:
     -l names          each "compress" / "encrypt" enables its layer; any other name is a PANIC; without -l: BOTH layers
     -p files          read only when ENCRYPT is enabled (else: a warning, the keys are ignored); a file that cannot be opened /
                       read / parsed is a PANIC; the keys are added in argument order
     -q level          used only when COMPRESS is enabled; a level above 11 is a PANIC (the assert)
   and the output file is created (truncated) AFTER the configuration is complete and BEFORE ArchiveWriter::from_config.
   Everything about the key files is left free: any paths, any file system function, any parser. *)
From MLA Require Import Limit.
From MLA Require Import Base Cli Keys.
From MLA Require Import SrcTie3Cmds2Open.
From MLAGen Require Src3m.
From Coq Require Import Lia ZifyBool ZifyNat ZifyN.
Open Scope N_scope.

Section Cfg.
  Variable KPath : Type.
  Variable fs_open_key : KPath -> Src3m.World -> res bytes.
  Variable parse_pubkey : bytes -> res bytes.
  Variable site : N -> N.
  Variable arg_level : option N.
  Variable arg_pubs : option (list KPath).
  Variable arg_layers : option (list bytes).

  Definition S_COMPRESS : bytes := [99; 111; 109; 112; 114; 101; 115; 115].
  Definition S_ENCRYPT : bytes := [101; 110; 99; 114; 121; 112; 116].

  (* the two key loops are the same function *)
  Lemma public_keys_loop_src l : forall acc w,
    Src3m.open_ecc_public_keys_for1 KPath fs_open_key parse_pubkey acc w l =
    Src3m.open_ecc_private_keys_for1 KPath fs_open_key parse_pubkey acc w l.
  Proof.
    induction l as [|kp l IH]; intros acc w; cbn [Src3m.open_ecc_public_keys_for1 Src3m.open_ecc_private_keys_for1]; [reflexivity|].
    destruct (fs_open_key kp w) as [c|e|x]; [|reflexivity|reflexivity].
    destruct (Src3m.read_to_end c []) as [buf [v|e|x]]; [|reflexivity|reflexivity].
    destruct (parse_pubkey buf) as [k|e|x]; [|reflexivity|reflexivity]. apply IH.
  Qed.

  Definition layer_of (b : bytes) : option Src3m.Layer :=
    if bytes_eqb b S_COMPRESS then Some Src3m.COMPRESS else if bytes_eqb b S_ENCRYPT then Some Src3m.ENCRYPT else None.
  Fixpoint enable_all (c : Src3m.WriterConfig) (l : list bytes) : option Src3m.WriterConfig :=
    match l with
    | [] => Some c
    | x :: r => match layer_of x with Some L => enable_all (Src3m.wc_enable_layer c L) r | None => None end
    end.

  Definition config_spec (w : Src3m.World) : res Src3m.WriterConfig :=
    match enable_all Src3m.wc_new (match arg_layers with Some l => l | None => [S_COMPRESS; S_ENCRYPT] end) with
    | None => Crash (site 2)
    | Some c1 =>
      match (match arg_pubs with
             | Some l => if Src3m.wc_is_enabled c1 Src3m.ENCRYPT then
                           match load_keys KPath fs_open_key parse_pubkey w l with
                           | Ok ks => Ok (Src3m.wc_add_public_keys c1 ks) | Err _ => Crash (site 3) | Crash x => Crash x
                           end
                         else Ok c1
             | None => Ok c1
             end) with
      | Ok c2 =>
        match arg_level with
        | Some q => if Src3m.wc_is_enabled c2 Src3m.COMPRESS then
                      if q <=? 11 then Ok (Src3m.mkWC (Src3m.wl_layers c2) (Src3m.wl_pubkeys c2) (Some q)) else Crash (site 6)
                    else Ok c2
        | None => Ok c2
        end
      | Err e => Err e
      | Crash x => Crash x
      end
    end.

  Lemma layers_copy_src l : forall acc w, Src3m.config_from_matches_for1 acc w l = ((w, acc ++ l), Ok tt).
  Proof.
    induction l as [|x l IH]; intros acc w; cbn [Src3m.config_from_matches_for1]; [rewrite app_nil_r; reflexivity|].
    rewrite IH, <- app_assoc. reflexivity.
  Qed.

  Lemma layers_loop_src l : forall c w,
    Src3m.config_from_matches_for2 site c w l =
    match enable_all c l with
    | Some c' => ((w, c'), Ok tt)
    | None => (fst (Src3m.config_from_matches_for2 site c w l), Crash (site 2))
    end.
  Proof.
    induction l as [|x l IH]; intros c w; cbn [Src3m.config_from_matches_for2 enable_all]; [reflexivity|].
    unfold layer_of. change [99; 111; 109; 112; 114; 101; 115; 115] with S_COMPRESS. change [101; 110; 99; 114; 121; 112; 116] with S_ENCRYPT.
    destruct (bytes_eqb x S_COMPRESS); [apply IH|]. destruct (bytes_eqb x S_ENCRYPT); [apply IH|]. reflexivity.
  Qed.
  Lemma layers_loop_world l : forall c w, fst (fst (Src3m.config_from_matches_for2 site c w l)) = w.
  Proof.
    induction l as [|x l IH]; intros c w; cbn [Src3m.config_from_matches_for2]; [reflexivity|].
    destruct (bytes_eqb x _); [apply IH|]. destruct (bytes_eqb x _); [apply IH|]. reflexivity.
  Qed.

  Theorem config_from_matches_src w :
    Src3m.config_from_matches KPath arg_level arg_pubs arg_layers fs_open_key parse_pubkey site w = (w, config_spec w).
  Proof.
    unfold Src3m.config_from_matches, config_spec.
    assert (Hl : (if Src3m.is_some arg_layers
                  then match arg_layers with
                       | Some x1 => match Src3m.config_from_matches_for1 [] w x1 with
                                    | ((w3, l4), Ok _) => ((w3, l4), Ok tt) | ((w3, l4), Err e) => ((w3, l4), Err e) | ((w3, l4), Crash x) => ((w3, l4), Crash x) end
                       | None => ((w, []), Crash (site 1))
                       end
                  else ((w, ([] ++ [[99; 111; 109; 112; 114; 101; 115; 115]]) ++ [[101; 110; 99; 114; 121; 112; 116]]), Ok tt)) =
                 ((w, match arg_layers with Some l => l | None => [S_COMPRESS; S_ENCRYPT] end), Ok tt)).
    { destruct arg_layers as [l|]; cbn [Src3m.is_some]; [rewrite layers_copy_src|]; reflexivity. }
    cbv zeta. rewrite Hl. clear Hl. cbv iota beta.
    set (names := match arg_layers with Some l => l | None => [S_COMPRESS; S_ENCRYPT] end).
    pose proof (layers_loop_world names Src3m.wc_new w) as Hw. rewrite layers_loop_src in *.
    destruct (enable_all Src3m.wc_new names) as [c1|].
    2:{ destruct (Src3m.config_from_matches_for2 site Src3m.wc_new w names) as [[w' c'] r']. cbn [fst] in *. subst w'. reflexivity. }
    clear Hw. cbv iota beta.
    destruct arg_pubs as [l|]; cbn [Src3m.is_some].
    - destruct (Src3m.wc_is_enabled c1 Src3m.ENCRYPT).
      + unfold Src3m.open_ecc_public_keys. rewrite public_keys_loop_src.
        pose proof (keys_loop_world KPath fs_open_key parse_pubkey l (@nil Src3m.PublicKey) w) as Hw. rewrite keys_loop_src in *.
        destruct (load_keys KPath fs_open_key parse_pubkey w l) as [ks|e|x]; cbn [fst] in *.
        * cbn [app]. destruct arg_level as [q|]; cbn [Src3m.is_some]; [|reflexivity].
          destruct (Src3m.wc_is_enabled (Src3m.wc_add_public_keys c1 ks) Src3m.COMPRESS); [|reflexivity].
          unfold Src3m.wc_with_compression_level. destruct (q <=? 11); reflexivity.
        * destruct (Src3m.open_ecc_private_keys_for1 KPath fs_open_key parse_pubkey (@nil Src3m.PublicKey) w l) as [[w' a'] r']. cbn [fst] in Hw. subst w'. reflexivity.
        * destruct (Src3m.open_ecc_private_keys_for1 KPath fs_open_key parse_pubkey (@nil Src3m.PublicKey) w l) as [[w' a'] r']. cbn [fst] in Hw. subst w'. reflexivity.
      + destruct arg_level as [q|]; cbn [Src3m.is_some]; [|reflexivity].
        destruct (Src3m.wc_is_enabled c1 Src3m.COMPRESS); [|reflexivity].
        unfold Src3m.wc_with_compression_level. destruct (q <=? 11); reflexivity.
    - destruct arg_level as [q|]; cbn [Src3m.is_some]; [|reflexivity].
      destruct (Src3m.wc_is_enabled c1 Src3m.COMPRESS); [|reflexivity].
      unfold Src3m.wc_with_compression_level. destruct (q <=? 11); reflexivity.
  Qed.

  (* ---------- writer_from_matches: configuration, THEN File::create, THEN ArchiveWriter::from_config ---------- *)
  Variable AW : Type.
  Variable writer_from_config : Src3m.OutputTypes -> Src3m.WriterConfig -> Src3m.World -> Src3m.World * res AW.

  Theorem writer_from_matches_src dash w :
    Src3m.writer_from_matches KPath AW dash arg_level arg_pubs arg_layers fs_open_key parse_pubkey writer_from_config site w =
    match config_spec w with
    | Ok c => if dash then writer_from_config Src3m.Stdout c w
              else writer_from_config (Src3m.OFile Src3m.PMain) c (Src3m.w_set Src3m.PMain (fun _ => OWritten []) w)
    | Err e => (w, Err e)
    | Crash x => (w, Crash x)
    end.
  Proof.
    unfold Src3m.writer_from_matches. rewrite config_from_matches_src.
    destruct (config_spec w) as [c|e|x]; [|reflexivity|reflexivity].
    unfold Src3m.destination_from_output_argument, Src3m.arg_output, Src3m.opath_is_dash, Src3m.sys_create.
    destruct dash; cbv iota beta; destruct (writer_from_config _ c _) as [w5 [v|e|x]]; reflexivity.
  Qed.

  (* ---------- the defaults, and the refusals ---------- *)
  (* no -l, no -p, no -q: both layers, no recipient (ArchiveWriter::from_config then refuses: EncryptionConfig::check) *)
  Corollary config_default w :
    arg_layers = None -> arg_pubs = None -> arg_level = None ->
    config_spec w = Ok (Src3m.mkWC [Src3m.ENCRYPT; Src3m.COMPRESS] [] None).
  Proof. unfold config_spec. intros -> -> ->. reflexivity. Qed.
End Cfg.
