(* ArchiveInst.v — the concrete parameters with which Archive.v is run (RunC01.v) and with which
   the non-vacuity example of props/C01.v instantiates [archive_roundtrip_gcm]: AES-256 as the
   block cipher of the header's key wrap, InstGcm's AES-GCM tables for the data chunks, a
   concrete call list and configuration.  Definitions only. *)
From MLA Require Import Limit.
From MLA Require Import Base Stream CompLayer Blocks Writer InstGcm Format Gcm Ecies EciesGcm FormatBridge FormatV1 Archive.
From MLA.Concrete Require Aes Ghash X25519 Sha256.
From MLAGen Require Src.
Open Scope N_scope.

(* AES-256 keyed by a 32-byte key (the key schedule is computed once per key); the identity for
   keys of another length, which the Rust types ([u8; 32]) exclude *)
Definition E_aes256 (k : bytes) : bytes -> bytes :=
  if Nat.eqb (length k) 32
  then (let rk := Aes.aes256_expand k in Aes.aes_encrypt_rk rk)
  else fun b => b.

(* the data chunks: key stream table of ntab chunks, tag function (InstGcm.v) *)
Definition ksf_gcm (CHUNK : N) (ntab : nat) (k n : bytes) : N -> N -> N :=
  gcm_ks (gcm_tab (Aes.aes256_expand k) n CHUNK ntab).
Definition tagf_gcm (k n : bytes) : N -> bytes -> bytes := gcm_tagc (Aes.aes256_expand k) n.

(* ---------- the example: scaled constants, both layers, 2 recipients ---------- *)
Definition ex3_decoy : bytes := ex_data 32 3.
(* recipients: Alice's public key and Bob's, ephemeral scalar = Alice's private key (RFC 7748 6.1) *)
Definition ex3_cfg : wconfig :=
  mkWC true true toy_comp ex_kd ex_nonce8 X25519.alice_sk [X25519.alice_pk; X25519.x25519_base X25519.bob_sk].
(* the reader: a decoy first, then Bob's private key *)
Definition ex3_privs : list bytes := [ex3_decoy; X25519.bob_sk].
Definition ex3_cut_top : list N := [100; 0; 37].
Definition ex3_cut_mid : list N := [70; 1; 0; 200].

(* the instance, evaluated: write, open with [decoy; Bob], list, and for each name the size
   reported, everything read with buffers of 7, 8, 9, … bytes, and the stored hash *)
From MLA Require Import Reader RoundTripReader.
Definition ex3_LIMIT : N := Src.BINCODE_MAX_DESERIALIZE_verif.
Definition ex3_write : res bytes :=
  archive_write 64 24 256 ex3_LIMIT 48 Src.BT_FileStart Src.BT_FileContent Src.BT_EndOfArchiveData Src.BT_EndOfFile
    Sha256.sha256 ex2_order X25519.x25519_base X25519.x25519 hkdf_info (gwenc E_aes256 Ghash.gf_mul) (gwtag E_aes256 Ghash.gf_mul)
    (ksf_gcm 64 16) tagf_gcm ex3_cfg ex3_cut_top ex3_cut_mid ex2_ops.
Definition ex3_open (a : bytes) :=
  archive_open 64 16 256 ex3_LIMIT X25519.x25519 hkdf_info (gwdec E_aes256 Ghash.gf_mul) (gwtag E_aes256 Ghash.gf_mul)
    (ksf_gcm 64 16) tagf_gcm toy_dec a ex3_privs.
Definition ex3_summary
  : option (bool * bool * N * list bytes * list (N * res bytes * res (option bytes))) :=
  match ex3_write with
  | Ok a =>
    match ex3_open a with
    | Ok (existT _ p r) =>
      let S := stack_of 64 16 256 (ksf_gcm 64 16) tagf_gcm toy_dec a p in
      let T1 := Src.BT_FileStart in let T2 := Src.BT_FileContent in
      let T3 := Src.BT_EndOfArchiveData in let T4 := Src.BT_EndOfFile in
      Some (op_enc p, op_comp p, op_off p, list_files S r,
            map (fun name =>
                   match get_file 48 T1 T2 T3 T4 S r name with
                   | (r1, Ok (Some (bs, size))) =>
                     (size, snd (read_all 48 T1 T2 T3 T4 S 0 200 bs (fun i => 7 + N.of_nat i) 0%nat []),
                      snd (get_hash 48 T1 T2 T3 T4 S r1 name))
                   | _ => (0, Err EState, Err EState)
                   end) [ex_a; ex_b; ex_c])
    | _ => None
    end
  | _ => None
  end.
