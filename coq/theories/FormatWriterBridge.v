(* FormatWriterBridge.v — C06: the independently written FORMAT.md decoder (Format.v) reads
   exactly what the writer MODEL (Writer.v) writes, for EVERY accepted call list:
     format_decode_writer : all calls of ops ++ [finalize] Ok  ->
       decode_content (w_out sf) = Ok [(name, bytes appended, H of them) | name started, in start order]
   whatever the interleaving of the calls and the iteration order of the footer HashMap.  The
   decoder also CHECKS the index against the stream (sizes, EndOfFile offsets, offsets = starts of
   the continuous runs): the writer invariant WInv (RoundTripWriter.v) gives exactly these facts.
   Whole archives: layer-less header, and the encryption layer written by the encryption WRITER
   model fed the block stream in any pieces (EncWriterProofs.enc_writer_canonical).  No axioms. *)
From MLA Require Import Limit.
From MLA Require Import Base Stream Blocks Writer RoundTripBlocks RoundTripFooter RoundTripWriter
  RoundTripRun RoundTripGlue EncLayer EncWriter EncWriterProofs Format FormatProofs FormatScan FormatContent.
From Coq Require Import ZifyBool ZifyNat ZifyN Permutation.
Open Scope N_scope.

(* the two descriptions of a FileInfo (Blocks.v: from the Rust struct; Format.v: from FORMAT.md) *)
Definition fconv (fi : Blocks.finfo) : Format.finfo :=
  Format.mkFI (Blocks.fi_offsets fi) (Blocks.fi_size fi) (Blocks.fi_eof fi).
Definition fconv_e (e : bytes * Blocks.finfo) : bytes * Format.finfo := (fst e, fconv (snd e)).

Lemma ser_entries_conv m : map Format.ser_entry (map fconv_e m) = map Blocks.ser_entry m.
Proof. rewrite map_map. apply map_ext. intros [n [o s e]]. reflexivity. Qed.
Lemma ser_fmap_conv m : ser_fmap (map fconv_e m) = Blocks.ser_footer_map m.
Proof.
  unfold ser_fmap, Blocks.ser_footer_map. rewrite ser_entries_conv. unfold len. rewrite map_length. reflexivity.
Qed.
Lemma ser_footer_conv m : Blocks.ser_footer m = Format.ser_footer (map fconv_e m).
Proof.
  unfold Blocks.ser_footer, Format.ser_footer. fold (ser_fmap (map fconv_e m)). cbv zeta.
  rewrite ser_fmap_conv. reflexivity.
Qed.
Lemma wf_footer_conv m : wf_footer m -> fwf_footer (map fconv_e m).
Proof.
  intros [Hl Hm]. split; [unfold len in *; rewrite map_length; exact Hl|].
  apply Forall_forall. intros e Hin. apply in_map_iff in Hin. destruct Hin as ([n [o s e0]] & <- & Hin).
  rewrite Forall_forall in Hm. exact (Hm _ Hin).
Qed.

Lemma wfb_fwf FNMAX x : wfb FNMAX x -> x <> BEnd -> fwf x.
Proof.
  destruct x as [i n|i d|i h|]; cbn [wfb fwf]; intros Hw Hne; try tauto.
Qed.

Section Bridge.
  Context {LIM : Limit}.
  Variable FNMAX : N.
  Variable H : bytes -> bytes.
  Variable order : footer -> footer.
  Hypothesis HHlen : forall x, len (H x) = 32.
  Hypothesis Horder : forall f, Permutation (order f) f.

  Notation wrun := (wrun FNMAX BT_START BT_CONTENT BT_END BT_EOF H order).
  Notation WInv := (WInv FNMAX BT_START BT_CONTENT BT_END BT_EOF H).

  (* the files a call list writes, in the order of the FileStart blocks *)
  Definition written (ops : list wop) : list (bytes * bytes * bytes) :=
    map (fun ni => (fst ni, pieces 0 (snd ni) ops, H (pieces 0 (snd ni) ops))) (started 0 ops).

  (* at finalize every projection is FileStart FileContent* EndOfFile *)
  Lemma final_shapes s bl : WInv s bl -> w_open s = [] -> forall id, file_ok (proj id bl).
  Proof.
    intros HI Ho id. pose proof (wi_file _ _ _ _ _ _ _ _ HI id) as Hf. unfold FileSt in Hf.
    destruct (id <? w_next s).
    - destruct Hf as (name & fi & _ & _ & _ & Hrest). rewrite Ho in Hrest. cbn [alookup] in Hrest.
      destruct Hrest as [Hp _]. rewrite Hp. cbn [file_ok]. apply body_ok_final. apply HHlen.
    - destruct Hf as (_ & _ & ->). exact I.
  Qed.

  Variable ops : list wop.
  Variable sf : wstate.
  Variable rs : list (res N).
  Hypothesis Hrun : wrun w_init (ops ++ [OFinalize]) = (sf, rs).
  Hypothesis Hok : Forall (fun r => is_ok r = true) rs.
  Hypothesis Hutf : forallb op_utf8 ops = true.
  (* u64 positions / u32 footer length, as in C01 (RoundTrip.v) *)
  Hypothesis Hlen64 : len (w_out sf) < 2 ^ 64.
  Hypothesis Hfoot32 : len (ser_footer_map (order (w_footer sf))) < 2 ^ 32.

  Theorem format_decode_writer : decode_content H (w_out sf) = Ok (written ops).
  Proof.
    destruct (writer_final _ _ _ _ _ _ _ HHlen _ _ _ Hrun Hok Hutf) as (s & bl & HI & Ho & Hout & Hf & Hn & Hd).
    assert (Hl : len (fser_blocks bl) < 2 ^ 64).
    { pose proof Hlen64 as Hx. rewrite Hout, len_app in Hx. lia. }
    destruct (blocks_wfb _ _ _ _ _ _ _ _ HI Hl) as [Hwf Hne].
    assert (Hfwf : Forall fwf bl).
    { apply Forall_forall. intros x Hin. rewrite Forall_forall in Hwf.
      apply (wfb_fwf FNMAX); [exact (Hwf x Hin) | intros ->; exact (Hne Hin)]. }
    rewrite Hf in Hfoot32.
    set (m := order (w_footer s)) in *.
    assert (Hpm : Permutation m (w_footer s)) by apply Horder.
    pose proof (final_footer_wf _ _ _ _ _ _ _ _ HI Hl Ho m Hpm) as Hmwf.
    pose proof (final_footer_keys _ _ _ _ _ _ _ _ HI Hl Ho) as Hkeys.
    pose proof (final_shapes s bl HI Ho) as Hsh.
    rewrite Hout, ser_footer_conv.
    rewrite decode_content_blocks; [| exact Hfwf | apply wf_footer_conv; exact Hmwf | rewrite ser_fmap_conv; exact Hfoot32].
    pose proof (bscan_valid bl [] (NoDup_nil _) (shapes_valid bl [] Hsh Hne)) as Hscan.
    cbn [app] in Hscan. change (len (fser_blocks [])) with 0 in Hscan. change (last_id None []) with (@None N) in Hscan.
    change (expect []) with (@nil fstate) in Hscan. rewrite Hscan. cbn [bind].
    assert (Hlen : len (expect bl) = len (map fconv_e m)).
    { unfold len, expect. rewrite !map_length, (Permutation_length Hpm).
      rewrite <- (map_length fst (w_footer s)), Hkeys, map_length, (wi_files _ _ _ _ _ _ _ _ HI). reflexivity. }
    rewrite Hlen, N.eqb_refl. cbn [negb].
    rewrite check_files_ok.
    - f_equal. unfold expect, written. rewrite map_map, Hn. apply map_ext. intros [name id].
      unfold fst_of. cbn [f_name f_content fst snd]. rewrite Hd. reflexivity.
    - rewrite map_map. cbn [fconv_e fst]. change (fun x : bytes * Blocks.finfo => fst x) with (@fst bytes Blocks.finfo).
      apply (Permutation_NoDup (l := map fst (w_footer s))); [apply Permutation_map; symmetry; exact Hpm|].
      rewrite Hkeys. exact (wi_nodup _ _ _ _ _ _ _ _ HI).
    - unfold expect. apply Forall_forall. intros f Hin. apply in_map_iff in Hin. destruct Hin as ([name id] & <- & Hin).
      rewrite <- (wi_files _ _ _ _ _ _ _ _ HI) in Hin.
      destruct (final_file _ _ _ _ _ _ _ _ HI Hl Ho name id Hin) as (fi & nm & Hfi & Hoff & Hsz & Hproj & pre & post & Hbl & Heof).
      pose proof (Hsh id) as Hs. remember (H (concat (datas id bl))) as h eqn:Eh.
      assert (He : eof_info id 0 bl = Some (h, len (fser_blocks pre))).
      { rewrite Hbl in Hs |- *. exact (eof_info_final id pre h post Hs). }
      unfold fst_of. cbn [f_hash f_content f_name f_runs f_eof fst snd]. rewrite He. cbn [option_map fst].
      split; [rewrite Eh; reflexivity|].
      apply in_map_iff. exists (name, fi). split.
      + unfold fconv_e, fconv. cbn [fst snd]. rewrite Hoff, Hsz, Heof. reflexivity.
      + apply (Permutation_in (l := w_footer s)); [symmetry; exact Hpm|]. exact (footer_in s name id fi Hin Hfi).
  Qed.

  (* the layer-less archive: header of lib.rs, then the block stream *)
  Theorem format_decode_writer_plain CHUNK BLOCK dhkey_of aopen unbr cands :
    Format.decode CHUNK BLOCK H dhkey_of aopen unbr (ser_header (mkH 0 None) ++ w_out sf) cands = Ok (written ops).
  Proof.
    unfold Format.decode.
    rewrite parse_header_ser by (split; [cbn [h_layers]; lia | reflexivity]).
    cbn [bind h_layers h_enc]. exact format_decode_writer.
  Qed.
End Bridge.

(* ---------- the encryption layer as the encryption WRITER model leaves it ---------- *)
Section EncFormat.
  Context {LIM : Limit}.
  Variable CHUNK : N.
  Hypothesis HCH : 0 < CHUNK.
  (* the cipher of EncLayer.v: keystream byte and tag of chunk i *)
  Variable ks : N -> N -> N.
  Variable tagc : N -> bytes -> bytes.
  (* the AEAD of Format.v, the archive key and nonce *)
  Variable aseal : bytes -> bytes -> bytes -> bytes * bytes.
  Variables kd nonce8 : bytes.

  (* "ks/tagc is aseal under kd with the nonce of chunk j", for the chunks below [n] *)
  Definition cipher_agrees (n : N) : Prop :=
    forall j pt, j < n -> len pt <= CHUNK ->
    chunk_enc ks tagc j pt = fst (aseal kd (data_nonce nonce8 j) pt) ++ snd (aseal kd (data_nonce nonce8 j) pt).

  Lemma enc_from_chunks n : forall i plain,
    cipher_agrees (i + N.of_nat n + 1) -> len plain <= (N.of_nat n + 1) * CHUNK ->
    enc_from CHUNK ks tagc n i plain = enc_chunks CHUNK aseal (S n) kd nonce8 i plain.
  Proof.
    induction n as [|n IH]; intros i plain Hag Hlen.
    - cbn [enc_from enc_chunks]. rewrite takeN_all by lia. rewrite Hag by lia.
      destruct (aseal kd (data_nonce nonce8 i) plain) as [ct tag]. cbn [fst snd]. rewrite app_nil_r. reflexivity.
    - change (enc_chunks CHUNK aseal (S (S n)) kd nonce8 i plain)
        with (let '(ct, tag) := aseal kd (data_nonce nonce8 i) (takeN CHUNK plain) in
              ct ++ tag ++ enc_chunks CHUNK aseal (S n) kd nonce8 (i + 1) (dropN CHUNK plain)).
      cbn [enc_from]. rewrite Hag by (rewrite ?len_takeN; lia).
      rewrite IH.
      + destruct (aseal kd (data_nonce nonce8 i) (takeN CHUNK plain)) as [ct tag]. cbn [fst snd].
        rewrite <- app_assoc. reflexivity.
      + intros j pt Hj Hpt. apply Hag; lia.
      + rewrite len_dropN. lia.
  Qed.

  (* the wire format of the encryption writer = FORMAT.md's DataBlocks, for a non-empty payload *)
  Theorem enc_format_encrypt plain : plain <> [] ->
    cipher_agrees ((len plain + CHUNK - 1) / CHUNK) ->
    enc_format CHUNK ks tagc plain = encrypt CHUNK aseal kd nonce8 plain.
  Proof.
    intros Hne Hag. unfold enc_format, encrypt, nfull.
    assert (Hl : 0 < len plain).
    { destruct plain; [congruence | rewrite len_cons; lia]. }
    assert (Hq : (len plain + CHUNK - 1) / CHUNK = (len plain - 1) / CHUNK + 1).
    { replace (len plain + CHUNK - 1) with ((len plain - 1) + 1 * CHUNK) by lia. apply N.div_add. lia. }
    rewrite Hq in *. set (q := (len plain - 1) / CHUNK) in *.
    replace (N.to_nat (q + 1)) with (S (N.to_nat q)) by lia.
    apply enc_from_chunks.
    - rewrite N2Nat.id. intros j pt Hj Hpt. apply Hag; lia.
    - rewrite N2Nat.id. pose proof (N.div_mod (len plain - 1) CHUNK ltac:(lia)) as Hd. fold q in Hd.
      pose proof (N.mod_lt (len plain - 1) CHUNK ltac:(lia)). nia.
  Qed.
End EncFormat.

Section EncBridge.
  Context {LIM : Limit}.
  Variables CHUNK BLOCK CIPHERBUF FNMAX : N.
  Variable H : bytes -> bytes.
  Variable order : footer -> footer.
  Hypothesis HCH : 0 < CHUNK.
  Hypothesis HHlen : forall x, len (H x) = 32.
  Hypothesis Horder : forall f, Permutation (order f) f.
  (* Format.v's primitives with the AEAD laws on the good keys K, as in FormatProofs.v *)
  Variable dhkey_of : bytes -> bytes -> bytes.
  Variable aopen : bytes -> bytes -> bytes -> bytes -> option bytes.
  Variable aseal : bytes -> bytes -> bytes -> bytes * bytes.
  Variable unbr : bytes -> option bytes.
  Variable K : bytes -> Prop.
  Hypothesis open_seal : forall k n p, K k -> length n = 12%nat ->
    aopen k n (fst (aseal k n p)) (snd (aseal k n p)) = Some p.
  Hypothesis len_ct : forall k n p, K k -> length n = 12%nat -> len (fst (aseal k n p)) = len p.
  Hypothesis len_tag : forall k n p, K k -> length n = 12%nat -> len (snd (aseal k n p)) = TAGLEN.
  (* EncLayer.v's cipher *)
  Variable ks : N -> N -> N.
  Variable tagc : N -> bytes -> bytes.

  Notation decode := (Format.decode CHUNK BLOCK H dhkey_of aopen unbr).

  (* any payload behind the encryption layer of the canonical encoder (FormatProofs.
     decode_encode_enc_layers is this at payload = encode_content files) *)
  Lemma decode_enc_payload plain cpriv cands apub dk dks kd nonce8 :
    K kd -> Forall K (dk :: dks) -> dhkey_of cpriv apub = dk ->
    length apub = 32%nat -> length kd = 32%nat -> length nonce8 = 8%nat -> len dks < 2 ^ 63 ->
    (len plain + CHUNK - 1) / CHUNK <= 2 ^ 32 ->
    decode (ser_header (mkH L_ENCRYPT (Some (mkEH apub (wrap aseal kd (dk :: dks)) nonce8)))
            ++ encrypt CHUNK aseal kd nonce8 plain) (cpriv :: cands)
    = decode_content H plain.
  Proof.
    intros HKd HKs Hdk Hap Hkd H8 Hn Hch. unfold Format.decode.
    assert (HKdk : K dk) by (inversion HKs; assumption).
    rewrite parse_header_ser.
    2:{ split; [cbn [h_layers]; unfold L_ENCRYPT; lia|]. cbn [h_enc]. unfold wf_enc_header.
        cbn [eh_public eh_nonce eh_keys]. repeat split.
        - unfold len. rewrite Hap. reflexivity.
        - unfold len. rewrite H8. reflexivity.
        - unfold wrap, len in *. rewrite map_length. cbn [length] in *. lia.
        - unfold wrap. apply Forall_forall. intros kt Hin. apply in_map_iff in Hin.
          destruct Hin as (d & <- & Hd). rewrite Forall_forall in HKs. split.
          + rewrite len_ct by (auto using HKs). unfold len. rewrite Hkd. reflexivity.
          + apply len_tag; auto using HKs. }
    cbn [bind h_layers h_enc]. change (has_bit L_ENCRYPT L_ENCRYPT) with true.
    change (has_bit L_ENCRYPT L_COMPRESS) with false. cbn iota.
    unfold decrypt. rewrite (unwrap_first aopen aseal K open_seal dhkey_of) by assumption.
    cbn [eh_nonce].
    rewrite (decrypt_encrypt CHUNK aopen aseal HCH K open_seal len_ct len_tag) by assumption.
    cbn [bind]. reflexivity.
  Qed.

  Variable ops : list wop.
  Variable sf : wstate.
  Variable rs : list (res N).
  Hypothesis Hrun : wrun FNMAX BT_START BT_CONTENT BT_END BT_EOF H order w_init (ops ++ [OFinalize]) = (sf, rs).
  Hypothesis Hok : Forall (fun r => is_ok r = true) rs.
  Hypothesis Hutf : forallb op_utf8 ops = true.
  Hypothesis Hlen64 : len (w_out sf) < 2 ^ 64.
  Hypothesis Hfoot32 : len (ser_footer_map (order (w_footer sf))) < 2 ^ 32.

  (* The encrypted archive of the two writer MODELS: the block stream of Writer.v, cut into ANY
     pieces, through the encryption writer of EncLayer.v (write_all per piece, finalize); header
     with the archive key wrapped for the recipients dk :: dks.  The reader holds the key of the
     first recipient (the TagCollision / first-recipient caveat of C06_format_decode_encode). *)
  Theorem format_decode_writer_enc fuel pcs es cpriv cands apub dk dks kd nonce8 :
    concat pcs = w_out sf ->
    ew_archive CHUNK CIPHERBUF ks tagc fuel pcs = Ok es ->
    cipher_agrees CHUNK ks tagc aseal kd nonce8 ((len (w_out sf) + CHUNK - 1) / CHUNK) ->
    K kd -> Forall K (dk :: dks) -> dhkey_of cpriv apub = dk ->
    length apub = 32%nat -> length kd = 32%nat -> length nonce8 = 8%nat -> len dks < 2 ^ 63 ->
    (len (w_out sf) + CHUNK - 1) / CHUNK <= 2 ^ 32 ->
    decode (ser_header (mkH L_ENCRYPT (Some (mkEH apub (wrap aseal kd (dk :: dks)) nonce8))) ++ ew_out es)
           (cpriv :: cands)
    = Ok (written H ops).
  Proof.
    intros Hcat Hew Hag HKd HKs Hdk Hap Hkd H8 Hn Hch.
    pose proof (format_decode_writer FNMAX H order HHlen Horder ops sf rs Hrun Hok Hutf Hlen64 Hfoot32) as Hdec.
    assert (Hne : w_out sf <> []).
    { intros E. rewrite E in Hdec. discriminate Hdec. }
    rewrite (enc_writer_canonical CHUNK CIPHERBUF HCH ks tagc fuel pcs es Hew), Hcat.
    rewrite (enc_format_encrypt CHUNK HCH ks tagc aseal kd nonce8 (w_out sf) Hne Hag).
    rewrite decode_enc_payload by assumption. exact Hdec.
  Qed.
End EncBridge.
