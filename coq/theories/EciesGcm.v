(* EciesGcm.v — the key wrap of Ecies.v instantiated with the model of the incremental
   AES-GCM core (Gcm.v): wrap = GCM encryption of the 32-byte key under nonce "ECIES NONCE0",
   empty AAD; unwrap = gcm_decrypt; the unwrap/wrap inverse law is GcmProofs.gcm_decrypt_tag_encrypt. *)
From MLA Require Import Base Gcm GcmProofs Ecies.
From MLAGen Require Src.
Open Scope N_scope.

Section EG.
  (* block cipher keyed by the wrapping key, any GF(2^128) product *)
  Variable E : bytes -> bytes -> bytes.
  Variable gmul : N -> N -> N.
  Hypothesis HE : forall k b, length b = 16%nat -> length (E k b) = 16%nat.

  Definition enonce : bytes := Src.ECIES_NONCE.
  Lemma enonce_len : length enonce = 12%nat. Proof. reflexivity. Qed.
  Lemma enonce_wf : wf_bytes enonce.
  Proof. unfold enonce, Src.ECIES_NONCE, wf_bytes. repeat constructor. Qed.

  Definition gwenc (k m : bytes) : bytes := fst (gcm_spec (E k) gmul enonce [] m).
  Definition gwtag (k c : bytes) : bytes :=
    let '(_, _, t) := gcm_decrypt (E k) gmul (gcm_new (E k) gmul enonce []) c in t.
  Definition gwdec (k c : bytes) : bytes :=
    let '(_, p, _) := gcm_decrypt (E k) gmul (gcm_new (E k) gmul enonce []) c in p.

  Lemma gwdec_gwenc k m : len m = 32 -> gwdec k (gwenc k m) = m.
  Proof.
    intros Hm. unfold gwdec, gwenc.
    pose proof (gcm_decrypt_tag_encrypt (E k) gmul (HE k) enonce [] enonce_len enonce_wf m) as H.
    destruct (gcm_spec (E k) gmul enonce [] m) as [ct tag]. cbn [fst].
    destruct (gcm_decrypt (E k) gmul (gcm_new (E k) gmul enonce []) ct) as [[s' pt] tag'].
    apply H. rewrite Hm. unfold gcm_max_bytes. lia.
  Qed.

  (* the tag the writer stores (into_tag after encrypt) is the tag the reader recomputes *)
  Lemma gwtag_gwenc k m : len m = 32 ->
    gwtag k (gwenc k m) = snd (gcm_spec (E k) gmul enonce [] m).
  Proof.
    intros Hm. unfold gwtag, gwenc.
    pose proof (gcm_decrypt_tag_encrypt (E k) gmul (HE k) enonce [] enonce_len enonce_wf m) as H.
    destruct (gcm_spec (E k) gmul enonce [] m) as [ct tag]. cbn [fst snd].
    destruct (gcm_decrypt (E k) gmul (gcm_new (E k) gmul enonce []) ct) as [[s' pt] tag'].
    apply H. rewrite Hm. unfold gcm_max_bytes. lia.
  Qed.

  Variable pubk : bytes -> bytes.
  Variable dh : bytes -> bytes -> bytes.
  Variable kdf : bytes -> bytes.
  Hypothesis dh_comm : forall a b, dh a (pubk b) = dh b (pubk a).

  Theorem recipient_opens_gcm eph key recipients privs s : len key = 32 ->
    In (pubk s) recipients -> In s privs ->
    load_persistent dh kdf gwdec gwtag (store_key pubk dh kdf gwenc gwtag recipients key eph) privs = Some key \/
    TagCollision pubk dh kdf gwenc gwtag eph key recipients privs.
  Proof. apply (recipient_opens pubk dh kdf gwenc gwdec gwtag dh_comm 32 gwdec_gwenc). Qed.

  Theorem non_recipient_fails_gcm eph key recipients privs : len key = 32 ->
    (forall p r, In p privs -> In r recipients ->
       derive_key dh kdf p (pubk eph) <> derive_key dh kdf eph r) ->
    load_persistent dh kdf gwdec gwtag (store_key pubk dh kdf gwenc gwtag recipients key eph) privs = None \/
    TagCollision pubk dh kdf gwenc gwtag eph key recipients privs.
  Proof. apply (non_recipient_fails pubk dh kdf gwenc gwdec gwtag 32 gwdec_gwenc). Qed.
End EG.
