(* EncLayerProofs.v — theorems about the encryption layer model.
   1. position kernels (round trip, end position for every length)
   2. the format: length and chunk slices of enc_format
   3. the writer is canonical: any pieces, then finalize = enc_format (concat pieces)
   4. the reader refines a cursor over the plaintext, over ANY inner stream that refines a
      cursor over enc_format plain (all three whences, short reads of the inner allowed). *)
From MLA Require Import Base Stream EncLayer.
From Coq Require Import ZifyBool ZifyNat ZifyN.
Open Scope N_scope.

Section EncProofs.
  Variables CHUNK TAG : N.
  Hypothesis HCHUNK : 0 < CHUNK.
  Hypothesis HTAG : 0 < TAG.

  Notation CTS := (CTS CHUNK TAG).
  Notation notag2tag := (notag2tag CHUNK TAG).
  Notation tag2notag := (tag2notag CHUNK TAG).
  Notation nfull := (nfull CHUNK).
  Notation end_pos_of_inner := (end_pos_of_inner CHUNK TAG).

  Lemma CTS_eq : CTS = CHUNK + TAG. Proof. reflexivity. Qed.

  (* ---------- arithmetic helpers ---------- *)

  Lemma divmod_unique b q r : 0 < b -> r < b -> (q * b + r) / b = q /\ (q * b + r) mod b = r.
  Proof.
    intros Hb Hr. split.
    - symmetry. apply (N.div_unique _ _ q r); lia.
    - symmetry. apply (N.mod_unique _ _ q r); lia.
  Qed.

  Lemma divmod_spec a b : 0 < b -> a = (a / b) * b + a mod b /\ a mod b < b.
  Proof.
    intros Hb. split.
    - rewrite N.mul_comm. apply N.div_mod. lia.
    - apply N.mod_lt. lia.
  Qed.

  Lemma nfull_spec L : (L = 0 /\ nfull L = 0) \/ (nfull L * CHUNK < L /\ L <= (nfull L + 1) * CHUNK).
  Proof.
    unfold EncLayer.nfull. destruct (N.eq_dec L 0) as [->|HL].
    - left. split; [reflexivity|]. apply N.div_small. lia.
    - right. destruct (divmod_spec (L - 1) CHUNK HCHUNK) as [H1 H2]. lia.
  Qed.

  (* ---------- 1. position kernels ---------- *)

  Lemma notag2tag_decomp q r : r < CHUNK -> notag2tag (q * CHUNK + r) = q * CTS + r.
  Proof.
    intros Hr. unfold EncLayer.notag2tag.
    destruct (divmod_unique CHUNK q r HCHUNK Hr) as [-> ->]. reflexivity.
  Qed.

  Theorem tag2notag_notag2tag p : tag2notag (notag2tag p) = p.
  Proof.
    destruct (divmod_spec p CHUNK HCHUNK) as [Hp Hr].
    rewrite Hp at 1. rewrite notag2tag_decomp by exact Hr.
    unfold EncLayer.tag2notag.
    assert (Hr' : p mod CHUNK < CTS) by (rewrite CTS_eq; lia).
    destruct (divmod_unique CTS (p / CHUNK) (p mod CHUNK)) as [-> ->]; [rewrite CTS_eq; lia | exact Hr' |].
    lia.
  Qed.

  Theorem notag2tag_mono p q : p <= q -> notag2tag p <= notag2tag q.
  Proof.
    intros Hpq. unfold EncLayer.notag2tag.
    destruct (divmod_spec p CHUNK HCHUNK) as [Hp Hrp].
    destruct (divmod_spec q CHUNK HCHUNK) as [Hq Hrq].
    assert (Hd : p / CHUNK <= q / CHUNK) by (apply N.div_le_mono; lia).
    rewrite CTS_eq. nia.
  Qed.

  (* the length of the wire form of an L-byte plaintext *)
  Definition wire_len (L : N) : N := L + TAG * (nfull L + 1).

  (* the repaired SeekFrom::End arithmetic finds the end of the plaintext for EVERY length *)
  Theorem end_pos_of_wire_len L : end_pos_of_inner (wire_len L) = Ok L.
  Proof.
    unfold EncLayer.end_pos_of_inner, wire_len.
    destruct (nfull_spec L) as [[-> Hn]|[H1 H2]].
    - rewrite Hn. replace (0 + TAG * (0 + 1)) with (0 * CTS + TAG) by lia.
      destruct (divmod_unique CTS 0 TAG) as [-> ->]; [rewrite CTS_eq; lia..|].
      destruct (N.eqb_spec TAG 0); [lia|]. destruct (N.ltb_spec TAG TAG); [lia|]. f_equal; lia.
    - set (n := nfull L) in *.
      destruct (N.eq_dec L ((n + 1) * CHUNK)) as [HL|HL].
      + replace (L + TAG * (n + 1)) with ((n + 1) * CTS + 0) by (rewrite CTS_eq; lia).
        destruct (divmod_unique CTS (n + 1) 0) as [-> ->]; [rewrite CTS_eq; lia..|].
        rewrite N.eqb_refl. f_equal; lia.
      + replace (L + TAG * (n + 1)) with (n * CTS + (L - n * CHUNK + TAG)) by (rewrite CTS_eq; lia).
        destruct (divmod_unique CTS n (L - n * CHUNK + TAG)) as [-> ->]; [rewrite CTS_eq; lia..|].
        destruct (N.eqb_spec (L - n * CHUNK + TAG) 0); [lia|].
        destruct (N.ltb_spec (L - n * CHUNK + TAG) TAG); [lia|]. f_equal; lia.
  Qed.

  (* ---------- xor with the keystream ---------- *)
  Variable ks : N -> N -> N.
  Variable tagc : N -> bytes -> bytes.
  Hypothesis Htagc : forall i c, len (tagc i c) = TAG.
  Notation xor_from := (xor_from ks).
  Notation chunk_enc := (chunk_enc ks tagc).
  Notation enc_from := (enc_from CHUNK ks tagc).
  Notation enc_format := (enc_format CHUNK ks tagc).

  Lemma len_xor_from i off d : len (xor_from i off d) = len d.
  Proof.
    revert off; induction d as [|x d IH]; intros off; cbn [EncLayer.xor_from]; [reflexivity|].
    rewrite !len_cons, IH. reflexivity.
  Qed.

  Lemma xor_from_involutive i off d : xor_from i off (xor_from i off d) = d.
  Proof.
    revert off; induction d as [|x d IH]; intros off; cbn [EncLayer.xor_from]; [reflexivity|].
    rewrite IH. f_equal. rewrite N.lxor_assoc, N.lxor_nilpotent, N.lxor_0_r. reflexivity.
  Qed.

  Lemma xor_from_app i off a b :
    xor_from i off (a ++ b) = xor_from i off a ++ xor_from i (off + len a) b.
  Proof.
    revert off; induction a as [|x a IH]; intros off; cbn [EncLayer.xor_from app].
    - rewrite len_nil, N.add_0_r. reflexivity.
    - rewrite IH. rewrite len_cons. do 3 f_equal. lia.
  Qed.

  Lemma len_chunk_enc i pt : len (chunk_enc i pt) = len pt + TAG.
  Proof. unfold EncLayer.chunk_enc. rewrite len_app, Htagc, len_xor_from. reflexivity. Qed.

  (* ---------- 2. the format ---------- *)

  Lemma len_enc_from n : forall i plain, N.of_nat n * CHUNK <= len plain ->
    len (enc_from n i plain) = len plain + TAG * (N.of_nat n + 1).
  Proof.
    induction n as [|n IH]; intros i plain H; cbn [EncLayer.enc_from].
    - rewrite len_chunk_enc. lia.
    - rewrite len_app, len_chunk_enc, len_takeN, IH by (rewrite len_dropN; lia).
      rewrite len_dropN. lia.
  Qed.

  Lemma len_enc_format plain : len (enc_format plain) = wire_len (len plain).
  Proof.
    unfold EncLayer.enc_format, wire_len. rewrite len_enc_from.
    - rewrite N2Nat.id. reflexivity.
    - rewrite N2Nat.id. destruct (nfull_spec (len plain)) as [[H1 H2]|[H1 H2]]; lia.
  Qed.

  Lemma dropN_enc_from j : forall n i plain, (j <= n)%nat -> N.of_nat n * CHUNK <= len plain ->
    dropN (N.of_nat j * CTS) (enc_from n i plain) =
    enc_from (n - j) (i + N.of_nat j) (dropN (N.of_nat j * CHUNK) plain).
  Proof.
    induction j as [|j IH]; intros n i plain Hj Hn.
    - cbn [N.of_nat]. rewrite !N.mul_0_l, !dropN_0, N.add_0_r, Nat.sub_0_r. reflexivity.
    - destruct n as [|n]; [lia|]. cbn [EncLayer.enc_from Nat.sub].
      rewrite dropN_app_ge by (rewrite len_chunk_enc, len_takeN, CTS_eq; lia).
      rewrite len_chunk_enc, len_takeN.
      replace (N.of_nat (S j) * CTS - (N.min CHUNK (len plain) + TAG)) with (N.of_nat j * CTS)
        by (rewrite CTS_eq; lia).
      rewrite IH by (try rewrite len_dropN; lia).
      rewrite dropN_dropN. f_equal; [lia | f_equal; lia].
  Qed.

  Lemma takeN_enc_from n i plain :
    (n = O /\ len plain <= CHUNK) \/ (n <> O /\ CHUNK <= len plain) ->
    takeN CTS (enc_from n i plain) = chunk_enc i (takeN CHUNK plain).
  Proof.
    intros [[-> H]|[Hn H]].
    - cbn [EncLayer.enc_from]. rewrite (takeN_all CHUNK plain H).
      apply takeN_all. rewrite len_chunk_enc, CTS_eq. lia.
    - destruct n as [|n]; [congruence|]. cbn [EncLayer.enc_from].
      rewrite takeN_app_le by (rewrite len_chunk_enc, len_takeN, CTS_eq; lia).
      apply takeN_all. rewrite len_chunk_enc, len_takeN, CTS_eq. lia.
  Qed.

  (* chunk j of the wire form is the encryption of chunk j of the plaintext *)
  Theorem enc_format_slice plain j : j <= nfull (len plain) ->
    sliceN (j * CTS) CTS (enc_format plain) = chunk_enc j (sliceN (j * CHUNK) CHUNK plain).
  Proof.
    intros Hj. unfold sliceN, EncLayer.enc_format.
    set (n := nfull (len plain)) in *.
    assert (Hn : N.of_nat (N.to_nat n) * CHUNK <= len plain).
    { rewrite N2Nat.id. destruct (nfull_spec (len plain)) as [[H1 H2]|[H1 H2]]; fold n in H2 |- *; lia. }
    assert (Hjn : j = N.of_nat (N.to_nat j)) by (symmetry; apply N2Nat.id).
    revert Hj. rewrite Hjn. generalize (N.to_nat j) as jn. clear Hjn j. intros jn Hj.
    rewrite dropN_enc_from by (try exact Hn; lia).
    rewrite N.add_0_l, takeN_enc_from; [reflexivity|].
    rewrite len_dropN.
    destruct (nfull_spec (len plain)) as [[H1 H2]|[H1 H2]]; fold n in H1, H2.
    - left. split; lia.
    - destruct (N.eq_dec (N.of_nat jn) n) as [He|Hne].
      + left. split; lia.
      + right. split; [lia|]. nia.
  Qed.

  Lemma wire_pos_le (plain : bytes) k : k * CHUNK <= len plain -> k * CTS <= wire_len (len plain).
  Proof.
    intros H. unfold wire_len. rewrite CTS_eq.
    destruct (nfull_spec (len plain)) as [[H1 H2]|[H1 H2]]; nia.
  Qed.

  Lemma chunk_index_cases (plain : bytes) k : k * CHUNK <= len plain ->
    k <= nfull (len plain) \/ (k = nfull (len plain) + 1 /\ k * CHUNK = len plain).
  Proof.
    intros H. destruct (nfull_spec (len plain)) as [[H1 H2]|[H1 H2]]; [nia|].
    destruct (N.le_gt_cases k (nfull (len plain))) as [?|Hgt]; [left; assumption|].
    right. nia.
  Qed.

  (* ---------- 4. the reader refines a cursor over the plaintext ---------- *)

  Variable S : Stream.
  Variable plain : bytes.
  Variable Rin : st S -> N -> Prop.
  Notation c := (enc_format plain).
  Hypothesis Hin : Refines S c Rin.
  (* fewer than 2^32 - 2 chunks: current_chunk_number is a u32 *)
  Hypothesis Hbig : nfull (len plain) + 2 < 2 ^ 32.
  Notation estate := (estate S).
  Notation eload := (eload CHUNK TAG ks tagc S).
  Notation eread := (eread CHUNK TAG ks tagc S).
  Notation eread_cache := (eread_cache S).
  Notation eseek_start := (eseek_start CHUNK TAG ks tagc S).
  Notation eseek := (eseek CHUNK TAG ks tagc S).
  Notation EncReader := (EncReader CHUNK TAG ks tagc S).

  Definition Renc (s : estate) (p : N) : Prop :=
    p <= len plain /\ p = e_chunk s * CHUNK + e_cpos s /\
    e_cache s = sliceN (e_chunk s * CHUNK) CHUNK plain /\
    e_cpos s <= len (e_cache s) /\
    Rin (e_in s) (N.min ((e_chunk s + 1) * CTS) (len c)).

  Lemma len_c : len c = wire_len (len plain).
  Proof. apply len_enc_format. Qed.

  Lemma eload_spec s k : e_chunk s = k -> k * CHUNK <= len plain -> Rin (e_in s) (k * CTS) ->
    exists s' b, eload s = (s', Ok b) /\ e_chunk s' = k /\ e_cpos s' = 0 /\
      e_cache s' = sliceN (k * CHUNK) CHUNK plain /\
      Rin (e_in s') (N.min ((k + 1) * CTS) (len c)) /\
      (b = false -> k * CHUNK = len plain).
  Proof.
    intros Hk Hkl HR. unfold EncLayer.eload. rewrite Hk.
    pose proof (wire_pos_le plain k Hkl) as Hle. rewrite <- len_c in Hle.
    destruct (read_full_spec S c Rin Hin (rd_fuel CHUNK TAG) (e_in s) (k * CTS) CTS HR)
      as (i' & Hrd & HR').
    { unfold rd_fuel. fold CTS. lia. }
    fold CTS. rewrite Hrd.
    destruct (chunk_index_cases plain k Hkl) as [Hkn|[Hkn Hend]].
    - (* chunk k exists *)
      rewrite enc_format_slice by exact Hkn.
      set (pt := sliceN (k * CHUNK) CHUNK plain).
      rewrite len_chunk_enc.
      destruct (N.eqb_spec (len pt + TAG) 0) as [?|_]; [lia|].
      destruct (N.ltb_spec (len pt + TAG) TAG) as [?|_]; [lia|].
      replace (len pt + TAG - TAG) with (len pt) by lia.
      unfold EncLayer.chunk_enc.
      replace (len pt) with (len (xor_from k 0 pt)) by apply len_xor_from.
      rewrite takeN_len_app, dropN_len_app, bytes_eqb_refl, xor_from_involutive.
      eexists _, true. split; [reflexivity|]. cbn [e_chunk e_cpos e_cache e_in].
      repeat split; try reflexivity; [|discriminate].
      replace (N.min ((k + 1) * CTS) (len c)) with (k * CTS + N.min CTS (len c - k * CTS)) by lia.
      exact HR'.
    - (* one past the last chunk, at the very end *)
      assert (Hc : len c = k * CTS).
      { rewrite len_c. unfold wire_len. rewrite CTS_eq. lia. }
      rewrite sliceN_past by lia. cbn [len length N.of_nat N.eqb].
      change (0 =? 0) with true. cbv iota.
      eexists _, false. split; [reflexivity|]. cbn [e_chunk e_cpos e_cache e_in].
      repeat split; try reflexivity; try lia.
      + rewrite sliceN_past by lia. reflexivity.
      + replace (N.min ((k + 1) * CTS) (len c)) with (k * CTS + N.min CTS (len c - k * CTS)) by lia.
        exact HR'.
  Qed.

  Lemma len_cache_of (s : estate) : e_cache s = sliceN (e_chunk s * CHUNK) CHUNK plain ->
    len (e_cache s) = N.min CHUNK (len plain - e_chunk s * CHUNK).
  Proof. intros ->. apply len_sliceN. Qed.

  Lemma eread_cache_spec s p avail n : Renc s p -> avail = CHUNK - e_cpos s -> 0 < avail ->
    exists s' kk, eread_cache s avail n = (s', Ok (sliceN p kk plain)) /\ kk <= n /\
      p + kk <= len plain /\ (kk = 0 -> n = 0 \/ p = len plain) /\ Renc s' (p + kk).
  Proof.
    intros (Hp & Hpos & Hcache & Hcp & HR) Hav Havpos.
    pose proof (len_cache_of s Hcache) as Hlc.
    unfold EncLayer.eread_cache.
    replace (N.min (e_cpos s) (len (e_cache s))) with (e_cpos s) by lia.
    set (size := N.min avail n).
    set (d := sliceN (e_cpos s) size (e_cache s)).
    assert (Hd : d = sliceN p (len d) plain).
    { unfold d at 1. rewrite Hcache at 1. rewrite sliceN_sliceN by lia.
      replace (e_chunk s * CHUNK + e_cpos s) with p by lia.
      replace (N.min size (CHUNK - e_cpos s)) with size by (unfold size; lia).
      rewrite sliceN_clip. f_equal. unfold d. rewrite len_sliceN, Hlc. lia. }
    assert (Hld : len d = N.min size (len (e_cache s) - e_cpos s)) by (unfold d; apply len_sliceN).
    eexists _, (len d). rewrite <- Hd. split; [reflexivity|].
    split; [unfold size in Hld; lia|].
    split; [lia|]. split.
    - intros Hz. unfold size in Hld. lia.
    - unfold Renc. cbn [e_chunk e_cpos e_cache e_in]. repeat split; try assumption; lia.
  Qed.

  Lemma eread_spec s p n : Renc s p ->
    exists s' kk, eread s n = (s', Ok (sliceN p kk plain)) /\ kk <= n /\
      p + kk <= len plain /\ (kk = 0 -> n = 0 \/ p = len plain) /\ Renc s' (p + kk).
  Proof.
    intros HRs. pose proof HRs as (Hp & Hpos & Hcache & Hcp & HR).
    pose proof (len_cache_of s Hcache) as Hlc.
    unfold EncLayer.eread, eread_gen, csub.
    destruct (N.leb_spec (e_cpos s) CHUNK) as [_|?]; [|lia].
    destruct (CHUNK - e_cpos s) as [|av] eqn:Hav.
    - (* cache consumed: next chunk *)
      assert (Hfull : e_cpos s = CHUNK) by lia.
      assert (Hnext : (e_chunk s + 1) * CHUNK <= len plain) by lia.
      assert (Hkb : e_chunk s + 1 <= nfull (len plain) + 1).
      { destruct (chunk_index_cases plain _ Hnext); lia. }
      destruct (N.leb_spec (2 ^ 32) (e_chunk s + 1)) as [?|_]; [lia|].
      set (s1 := mkE (e_in s) (e_cache s) (e_cpos s) (e_chunk s + 1)).
      pose proof (wire_pos_le plain _ Hnext) as Hle. rewrite <- len_c in Hle.
      destruct (eload_spec s1 (e_chunk s + 1) eq_refl Hnext) as (s2 & b & Hl & Hk2 & Hc2 & Hcache2 & HR2 & Hb).
      { cbn [s1 e_in]. replace ((e_chunk s + 1) * CTS) with (N.min ((e_chunk s + 1) * CTS) (len c)) by lia.
        exact HR. }
      rewrite Hl.
      assert (HR2' : Renc s2 p).
      { unfold Renc. rewrite Hk2, Hc2, Hcache2. repeat split; try lia. rewrite <- Hk2 at 1. rewrite Hk2. exact HR2. }
      destruct b.
      + rewrite Hc2. destruct (N.leb_spec 0 CHUNK) as [_|?]; [|lia].
        rewrite N.sub_0_r. destruct CHUNK as [|ch] eqn:Hch; [lia|]. rewrite <- Hch in *.
        apply (eread_cache_spec s2 p CHUNK n HR2'); lia.
      + exists s2, 0. rewrite sliceN_0. split; [reflexivity|].
        rewrite N.add_0_r. split; [lia|]. split; [lia|]. split; [|exact HR2'].
        intros _. right. specialize (Hb eq_refl). lia.
    - rewrite <- Hav. apply (eread_cache_spec s p _ n HRs); lia.
  Qed.

  (* a state whose inner layer is usable, wherever it stands *)
  Definition Rpre (s : estate) : Prop := exists pin, Rin (e_in s) pin.
  Lemma Renc_pre s p : Renc s p -> Rpre s.
  Proof. intros (_ & _ & _ & _ & H). eexists; exact H. Qed.

  (* the u64 / i64 ranges of the seek arithmetic (used by the seek lemmas only): the D20 guard of the Start arm
     accepts every position of the plaintext — exactly `len plain / CHUNK <= u64::MAX / CHUNK_TAG_SIZE - 1` — and
     the plaintext length fits an i64 (`i64::try_from(current).unwrap()`, `i64::try_from(end_pos)`).  Both follow
     from Hbig when CHUNK + TAG <= 2^31 (ranges_of_sizes below), which the production and scaled constants meet. *)
  Hypothesis Hu64 : (len plain / CHUNK + 1) * CTS <= 2 ^ 64 - 1.
  Hypothesis Hi64 : len plain < 2 ^ 63.

  (* the D20 guard passes on every position of the plaintext *)
  Lemma start_guard_passes q : q <= len plain -> (U64MAX / CTS - 1 <? q / CHUNK) = false.
  Proof.
    intros Hq. unfold U64MAX.
    assert (Hd : q / CHUNK <= len plain / CHUNK) by (apply N.div_le_mono; lia).
    assert (Hb : len plain / CHUNK + 1 <= (2 ^ 64 - 1) / CTS).
    { apply N.div_le_lower_bound; [rewrite CTS_eq; lia|]. rewrite N.mul_comm. exact Hu64. }
    apply N.ltb_ge. lia.
  Qed.

  Lemma eseek_start_spec s q : Rpre s -> q <= len plain ->
    exists s', eseek_start s q = (s', Ok q) /\ Renc s' q.
  Proof.
    intros [pin HR] Hq. unfold EncLayer.eseek_start. rewrite (start_guard_passes q Hq).
    destruct (divmod_spec q CHUNK HCHUNK) as [Hqd Hr].
    set (k := q / CHUNK) in *. set (r := q mod CHUNK) in *.
    assert (Hnt : notag2tag q = k * CTS + r).
    { rewrite Hqd at 1. apply notag2tag_decomp; exact Hr. }
    rewrite Hnt.
    destruct (divmod_unique CTS k r) as [-> ->]; [rewrite CTS_eq; lia..|].
    assert (Hkl : k * CHUNK <= len plain) by lia.
    pose proof (wire_pos_le plain k Hkl) as Hle. rewrite <- len_c in Hle.
    destruct (ref_sk _ _ _ Hin (e_in s) pin (FromStart (k * CTS)) (k * CTS) HR) as (i' & Hsk & HR').
    { unfold target. destruct ((0 <=? Z.of_N (k * CTS)) && (Z.of_N (k * CTS) <=? Z.of_N (len c)))%Z eqn:E; [|lia].
      rewrite N2Z.id. reflexivity. }
    rewrite Hsk.
    assert (Hkb : k <= nfull (len plain) + 1) by (destruct (chunk_index_cases plain k Hkl); lia).
    destruct (N.leb_spec (2 ^ 32) k) as [?|_]; [lia|].
    destruct (eload_spec (mkE i' (e_cache s) (e_cpos s) k) k eq_refl Hkl HR')
      as (s2 & b & Hl & Hk2 & Hc2 & Hcache2 & HR2 & _).
    rewrite Hl. eexists. split; [reflexivity|].
    unfold Renc. cbn [e_chunk e_cpos e_cache e_in]. rewrite Hk2, Hcache2, len_sliceN.
    repeat split; try lia. exact HR2.
  Qed.

  Lemma eseek_spec s p w q : Renc s p -> target (len plain) p w = Some q ->
    exists s', eseek s w = (s', Ok q) /\ Renc s' q.
  Proof.
    intros HRs Ht. pose proof HRs as (Hp & Hpos & Hcache & Hcp & HR).
    unfold target in Ht. unfold EncLayer.eseek.
    destruct w as [q0|d|d].
    - destruct ((0 <=? Z.of_N q0) && (Z.of_N q0 <=? Z.of_N (len plain)))%Z eqn:E; [|discriminate].
      injection Ht as <-. rewrite N2Z.id. apply eseek_start_spec; [eapply Renc_pre; eassumption | lia].
    - destruct ((0 <=? Z.of_N p + d) && (Z.of_N p + d <=? Z.of_N (len plain)))%Z eqn:E; [|discriminate].
      injection Ht as <-. rewrite <- Hpos.
      destruct (Z.eqb_spec d 0) as [->|Hd].
      + exists s. rewrite Z.add_0_r, N2Z.id. split; [reflexivity | exact HRs].
      + destruct (N.leb_spec (2 ^ 63) p) as [?|_]; [lia|].
        unfold seek_target. destruct (Z.of_N p + d <? 0)%Z eqn:E2; [lia|].
        apply eseek_start_spec; [eapply Renc_pre; eassumption | lia].
    - destruct ((0 <=? Z.of_N (len plain) + d) && (Z.of_N (len plain) + d <=? Z.of_N (len plain)))%Z eqn:E;
        [|discriminate].
      injection Ht as <-.
      destruct (0 <? d)%Z eqn:Ed; [lia|].
      destruct (ref_sk _ _ _ Hin (e_in s) _ (FromEnd 0) (len c) HR) as (i' & Hsk & HR').
      { unfold target. rewrite Z.add_0_r.
        destruct ((0 <=? Z.of_N (len c)) && (Z.of_N (len c) <=? Z.of_N (len c)))%Z eqn:E3; [|lia].
        rewrite N2Z.id. reflexivity. }
      rewrite Hsk, len_c, end_pos_of_wire_len.
      destruct (N.leb_spec (2 ^ 63) (len plain)) as [?|_]; [lia|].
      replace (i64_fits (Z.of_N (len plain) + d)) with true by (unfold i64_fits; lia). cbn [negb].
      unfold seek_target. destruct (Z.of_N (len plain) + d <? 0)%Z eqn:E2; [lia|].
      apply eseek_start_spec; [|lia]. exists (len c). exact HR'.
  Qed.

  Theorem enc_reader_refines : Refines EncReader plain Renc.
  Proof.
    constructor.
    - intros s p (Hp & _). exact Hp.
    - intros s p n HRs. cbn [EncLayer.EncReader rd st].
      destruct (eread_spec s p n HRs) as (s' & kk & H1 & H2 & H3 & H4 & H5).
      exists s', kk. auto.
    - intros s p w q HRs Ht. cbn [EncLayer.EncReader sk st]. apply (eseek_spec s p w q HRs Ht).
  Qed.

  (* new + initialize from any usable inner state *)
  Theorem enc_open_spec i0 pin : Rin i0 pin ->
    exists s, enc_open CHUNK TAG ks tagc S i0 = (s, Ok 0) /\ Renc s 0.
  Proof.
    intros HR. unfold enc_open. apply eseek_start_spec; [|lia]. exists pin. exact HR.
  Qed.
End EncProofs.

(* The two range premises of enc_reader_refines / enc_open_spec follow from the chunk bound Hbig once the size
   constants are small: CHUNK_SIZE + TAG_LENGTH <= 2^31 (production: 131088; scaled: 80). *)
Lemma ranges_of_sizes CHUNK TAG L : 0 < CHUNK -> CHUNK + TAG <= 2 ^ 31 ->
  nfull CHUNK L + 2 < 2 ^ 32 ->
  (L / CHUNK + 1) * CTS CHUNK TAG <= 2 ^ 64 - 1 /\ L < 2 ^ 63.
Proof.
  intros HC Hsz Hbig. unfold CTS, nfull in *.
  pose proof (N.div_mod (L - 1) CHUNK ltac:(lia)) as H1.
  pose proof (N.mod_lt (L - 1) CHUNK ltac:(lia)) as H2.
  set (n := (L - 1) / CHUNK) in *.
  assert (Hd : L / CHUNK <= n + 1).
  { apply N.lt_succ_r. apply N.div_lt_upper_bound; [lia|]. nia. }
  change (2 ^ 32) with 4294967296 in Hbig. change (2 ^ 31) with 2147483648 in Hsz.
  change (2 ^ 64 - 1) with 18446744073709551615. change (2 ^ 63) with 9223372036854775808.
  split; nia.
Qed.
