(* SrcTie3Header.v — Tie A level 1 for the archive header (work package blockT, part B).

   gen/Src3h.v (tools/src2v3_header.py) holds `ArchiveHeader::{from, dump}` translated statement by
   statement and the bincode reader / writer / size checker GENERATED FROM THE STRUCT DEFINITIONS
   (`ArchivePersistentConfig`, `EncryptionPersistentConfig`, `MultiRecipientPersistent`, `KeyAndTag`:
   field order and field types of the source, array lengths resolved through the source constants),
   written in the combinators of Bincode.v.  Here:

     deser_config_src     the generated reader IS HeaderStream.bc_config: same value, same source state,
                          same remainder of the limit, for every stream, state and limit
     header_from_src      the translated `from` IS HeaderStream.read_header_s, for every stream and state,
                          at the limit the source names (BINCODE_MAX_DESERIALIZE, translated)
     header_dump_src_gen  the translated `dump` onto any prefix: SizeLimit after the 7 bytes of magic and
                          version are in `dest`, otherwise dest ++ Format.ser_header h
     header_dump_src      … = Archive.dump_header (format_version = MLA_FORMAT_VERSION = Format.VERSION)
     C08_header_total_src, C13_header_any_source_src   (C13_header_then_rest_src: SrcTie3HeaderRest.v)
                          the property theorems of HeaderStreamProofs with the TRANSLATED function as subject

   Not a fact of the source, by construction of the translation (see the head of the translator): EFuel
   (the model's own fuel) and Crash pass through the `_` arm; `format_version` is dropped from the
   value (it has just been tested equal to the constant). *)
From Coq Require Import ZifyBool ZifyNat ZifyN Lia.
From MLA Require Import Base Stream Format Bincode HeaderStream HeaderStreamProofs Archive.
From MLAGen Require Src Src3h.
Open Scope N_scope.

(* ---------- constants ---------- *)
Lemma magic_src : Src3h.MLA_MAGIC = MAGIC.
Proof. reflexivity. Qed.
Lemma version_src : Src3h.MLA_FORMAT_VERSION = VERSION.
Proof. reflexivity. Qed.
Lemma limit_src : Src3h.BINCODE_MAX_DESERIALIZE = 536870912.
Proof. reflexivity. Qed.
(* the LIMIT the model instances are run with (Tie A constants of both flavours) *)
Lemma limit_src_consts :
  Src3h.BINCODE_MAX_DESERIALIZE = Src.BINCODE_MAX_DESERIALIZE_prod /\
  Src3h.BINCODE_MAX_DESERIALIZE = Src.BINCODE_MAX_DESERIALIZE_verif.
Proof. split; reflexivity. Qed.

Section Tie.
  Variable S : Stream.

  (* the combinators of Bincode.v are the model's, by conversion *)
  Lemma bc_prim_rx n : bc_prim S n = bc_rx S n.
  Proof. reflexivity. Qed.
  Lemma bc_array_bytes k : bc_array S k = bc_bytes S k.
  Proof. reflexivity. Qed.
  Lemma deser_key_and_tag_src : Src3h.deser_KeyAndTag S = bc_key_and_tag S.
  Proof. reflexivity. Qed.

  Lemma bc_seq_keys fuel : forall n s lim,
    bc_seq S (Src3h.deser_KeyAndTag S) fuel n s lim = bc_keys S fuel n s lim.
  Proof.
    induction fuel as [|fuel IH]; intros n s lim; cbn [bc_seq bc_keys].
    - destruct (n =? 0); reflexivity.
    - destruct (n =? 0); [reflexivity|].
      unfold bm_bind, mbind. rewrite deser_key_and_tag_src.
      destruct (bc_key_and_tag S s lim) as [[s1 l1] [kt|e|c]]; try reflexivity.
      rewrite IH. reflexivity.
  Qed.

  Lemma deser_enc_src s lim :
    Src3h.deser_EncryptionPersistentConfig S s lim = bc_enc_header S s lim.
  Proof.
    unfold Src3h.deser_EncryptionPersistentConfig, Src3h.deser_MultiRecipientPersistent, bc_enc_header,
      bc_vec, bm_bind, mbind.
    rewrite !bc_array_bytes, bc_prim_rx.
    destruct (bc_bytes S 32 s lim) as [[s1 l1] [pub|e|c]]; try reflexivity.
    destruct (bc_rx S 8 s1 l1) as [[s2 l2] [nb|e|c]]; try reflexivity.
    rewrite bc_seq_keys. change (seq_fuel 48 (le_val nb) l2) with (keys_fuel (le_val nb) l2).
    destruct (bc_keys S (keys_fuel (le_val nb) l2) (le_val nb) s2 l2) as [[s3 l3] [ks|e|c]]; reflexivity.
  Qed.

  (* the generated reader of ArchivePersistentConfig is the model's, limit threading included *)
  Theorem deser_config_src s lim :
    Src3h.deser_ArchivePersistentConfig S s lim = bc_config S s lim.
  Proof.
    unfold Src3h.deser_ArchivePersistentConfig, bc_config, bc_u8, bc_option, bm_bind, mbind.
    rewrite bc_prim_rx.
    destruct (bc_rx S 1 s lim) as [[s1 l1] [l|e|c]]; try reflexivity.
    cbn [bm_ret].
    destruct (bc_rx S 1 s1 l1) as [[s2 l2] [o|e|c]]; try reflexivity.
    destruct (le_val o =? 0); [reflexivity|].
    destruct (le_val o =? 1); [|reflexivity].
    rewrite deser_enc_src.
    destruct (bc_enc_header S s2 l2) as [[s3 l3] [eh|e|c]]; reflexivity.
  Qed.

  (* ArchiveHeader::from, translated = the model's sequence of reads: same value, same state of the
     source, same error, for EVERY stream and state *)
  Theorem header_from_src (s : st S) :
    Src3h.ArchiveHeader_from S s = read_header_s S Src3h.BINCODE_MAX_DESERIALIZE s.
  Proof.
    unfold Src3h.ArchiveHeader_from, read_header_s.
    change (Blocks.rexact S) with (rx S). change (len Src3h.MLA_MAGIC) with 3.
    destruct (rx S s 3) as [s1 [m|e|c]]; try reflexivity.
    rewrite magic_src.
    destruct (negb (bytes_eqb m MAGIC)); [reflexivity|].
    destruct (rx S s1 4) as [s2 [v|e|c]]; try reflexivity.
    cbv zeta. rewrite version_src.
    destruct (negb (le_val v =? VERSION)); [reflexivity|].
    rewrite deser_config_src.
    destruct (bc_config S s2 Src3h.BINCODE_MAX_DESERIALIZE) as [[s3 l3] [h|e|c]]; reflexivity.
  Qed.

  (* ---------- property theorems carried onto the translated function ---------- *)
  Theorem C08_header_total_src (b : bytes) (R : st S -> N -> Prop) (s0 : st S) :
    Refines S b R -> R s0 0 ->
    let LIMIT := Src3h.BINCODE_MAX_DESERIALIZE in
    exists s' r p', Src3h.ArchiveHeader_from S s0 = (s', r) /\ R s' p' /\ p' <= len b /\ p' <= 7 + LIMIT /\
      match r with
      | Ok h => p' = 7 + config_size h /\ config_size h <= LIMIT /\
                (forall eh, h_enc h = Some eh -> 48 * len (eh_keys eh) <= LIMIT) /\
                read_header LIMIT b = Ok (h, dropN p' b)
      | Err e => (e = EUnexpectedEof \/ e = EMagic \/ e = EVersion \/ e = EDeser) /\ read_header LIMIT b = Err e
      | Crash _ => False
      end.
  Proof. intros HR H0 LIMIT. rewrite header_from_src. exact (header_total LIMIT S b R s0 HR H0). Qed.

  Theorem C13_header_any_source_src (b : bytes) (R : st S -> N -> Prop) :
    Refines S b R -> forall s0 : st S, R s0 0 ->
    let LIMIT := Src3h.BINCODE_MAX_DESERIALIZE in
    exists s',
      match read_header LIMIT b with
      | Ok (h, rest) =>
          Src3h.ArchiveHeader_from S s0 = (s', Ok h) /\ R s' (len b - len rest) /\
          rest = dropN (7 + config_size h) b /\ 7 + config_size h <= len b /\ config_size h <= LIMIT
      | Err e => Src3h.ArchiveHeader_from S s0 = (s', Err e) /\ exists p', R s' p' /\ p' <= 7 + LIMIT
      | Crash _ => False
      end.
  Proof. intros HR s0 H0 LIMIT. rewrite header_from_src. exact (read_header_s_refines S b R HR LIMIT s0 H0). Qed.
End Tie.

(* ---------- dump ---------- *)
Lemma nsum_keys (l : list (bytes * bytes)) : nsum (map Src3h.sz_KeyAndTag l) = 48 * len l.
Proof.
  induction l as [|x l IH]; [reflexivity|].
  cbn [map nsum]. rewrite IH. unfold Src3h.sz_KeyAndTag, len. cbn [length]. lia.
Qed.

Lemma sz_config_src h : Src3h.sz_ArchivePersistentConfig h = config_size h.
Proof.
  destruct h as [l [[pub ks nonce]|]]; unfold Src3h.sz_ArchivePersistentConfig, config_size, sz_option;
    cbn [h_enc]; [|reflexivity].
  unfold Src3h.sz_EncryptionPersistentConfig, Src3h.sz_MultiRecipientPersistent, sz_vec.
  cbn [eh_public eh_keys eh_nonce fst snd]. rewrite nsum_keys. lia.
Qed.

Lemma ser_config_src h :
  Src3h.MLA_MAGIC ++ le_bytes 4 Src3h.MLA_FORMAT_VERSION ++ Src3h.ser_ArchivePersistentConfig h = ser_header h.
Proof.
  unfold ser_header. rewrite magic_src, version_src. f_equal. f_equal.
  destruct h as [l [[pub ks nonce]|]]; unfold Src3h.ser_ArchivePersistentConfig, bs_u8, bs_option; cbn [h_layers h_enc];
    [|reflexivity].
  cbn [app]. f_equal. f_equal.
  unfold Src3h.ser_EncryptionPersistentConfig, Src3h.ser_MultiRecipientPersistent, ser_enc_header, bs_array, bs_vec.
  cbn [eh_public eh_keys eh_nonce fst snd]. rewrite <- !app_assoc. reflexivity.
Qed.

(* ArchiveHeader::dump onto what `dest` holds already: when the config is over the limit, the magic and the
   version HAVE been written (ArchiveWriter::from_config then fails and the destination is dropped) *)
Theorem header_dump_src_gen (h : header) (dest : bytes) :
  Src3h.ArchiveHeader_dump Src3h.MLA_FORMAT_VERSION h dest =
  if Src3h.BINCODE_MAX_DESERIALIZE <? config_size h
  then (dest ++ MAGIC ++ le32 VERSION, Err EDeser)
  else (dest ++ ser_header h, Ok tt).
Proof.
  unfold Src3h.ArchiveHeader_dump. rewrite sz_config_src.
  destruct (Src3h.BINCODE_MAX_DESERIALIZE <? config_size h).
  - rewrite <- app_assoc. reflexivity.
  - rewrite <- ser_config_src, <- !app_assoc. reflexivity.
Qed.

Definition dump_result (r : bytes * res unit) : res bytes :=
  match r with (d, Ok _) => Ok d | (_, Err e) => Err e | (_, Crash c) => Crash c end.

Theorem header_dump_src (h : header) :
  dump_result (Src3h.ArchiveHeader_dump Src3h.MLA_FORMAT_VERSION h []) =
  dump_header Src3h.BINCODE_MAX_DESERIALIZE h.
Proof.
  rewrite header_dump_src_gen. unfold dump_header.
  destruct (Src3h.BINCODE_MAX_DESERIALIZE <? config_size h); reflexivity.
Qed.

(* ---------- non-vacuity, through the generated code ---------- *)
(* encrypted header with two wrapped keys, read 3 bytes at a time; cut at 60 bytes; bad Option tag *)
Definition ex_eh : enc_header := mkEH (repeat 7 32) [(repeat 1 32, repeat 2 16); (repeat 3 32, repeat 4 16)] (repeat 9 8).
Definition ex_h : header := mkH 3 (Some ex_eh).
Example header_src_examples :
  dump_result (Src3h.ArchiveHeader_dump 1 ex_h []) = Ok (ser_header ex_h) /\
  len (ser_header ex_h) = 153 /\
  Src3h.ArchiveHeader_from (Throttled (ser_header ex_h ++ [42])) (0, [3]) = ((153, [3]), Ok ex_h) /\
  Src3h.ArchiveHeader_from (Throttled (takeN 60 (ser_header ex_h))) (0, [3; 1]) = ((60, [1]), Err EDeser) /\
  Src3h.ArchiveHeader_from (Cursor [77; 76; 65; 1; 0; 0; 0; 3; 2; 0]) 0 = (9, Err EDeser) /\
  Src3h.ArchiveHeader_from (Cursor [77; 76; 66; 1; 0; 0; 0; 0; 0]) 0 = (3, Err EMagic) /\
  Src3h.ArchiveHeader_from (Cursor [77; 76; 65; 2; 0; 0; 0; 0; 0]) 0 = (7, Err EVersion) /\
  Src3h.ArchiveHeader_from (Cursor [77; 76]) 0 = (2, Err EUnexpectedEof).
Proof. vm_compute. repeat split; reflexivity. Qed.

Print Assumptions header_from_src.
Print Assumptions header_dump_src.
Print Assumptions C08_header_total_src.
Print Assumptions C13_header_any_source_src.
