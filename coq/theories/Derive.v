(* Derive.v — `mlar keygen --seed` and `mlar keyderive` (C19).

   Two models side by side:

   * what the CODE does (mlar/src/main.rs:797-897 + curve25519-parser lib.rs:308-336):
     [keygen_seed_files], [keyderive_files] at the level of the files read and written
     (private file = DER, public file = PEM, through the Keys.v parser/exporter), and the
     same thing at the level of the 32 stored octets: [derive_step_code], [derive_code];

   * what the README says, read literally (README.md "How to deterministically generate a
     key-pair?" and "How to setup a hierarchical key infrastructure?"): [keygen_doc],
     [derive_step_doc], [derive_doc].

   The two differ in ONE place (finding D18): the README takes as HKDF input key material
   "the clamped private key"; the code passes `StaticSecret::to_bytes()`, which in
   x25519-dalek 2.0.1 is the 32 STORED octets, and neither `mlar keygen`, `mlar keyderive`
   nor the Ed25519 conversion store clamped octets.

   The primitives (SHA-512, HKDF-SHA512, the ChaCha20 generator, X25519) are Section
   variables; the concrete instances are at the end of the file. *)
From MLA Require Import Base Keys.
From MLA.Concrete Require Import HexS Sha512 Hmac Hkdf ChaCha20 X25519.
Open Scope N_scope.

(* main.rs:836  const DERIVE_PATH_SALT: &[u8; 15] = b"PATH DERIVATION"; *)
Definition DERIVE_PATH_SALT : bytes := [80; 65; 84; 72; 32; 68; 69; 82; 73; 86; 65; 84; 73; 79; 78].
(* main.rs:815-816  hseed = [0u8; 32]; digest[0..32] *)
Definition PRNG_SEED_LEN : N := 32.
(* main.rs:843  seed = [0u8; 32] (HKDF output length) *)
Definition DERIVE_SEED_LEN : N := 32.
(* lib.rs:313  private = [0u8; 32] *)
Definition PRIVATE_LEN : N := 32.

(* panic sites of main.rs (offset 20000 keeps them apart from the lib.rs sites of Keys.v) *)
Definition SITE_MAIN_816 : N := 20816.   (* digest[0..32] *)
Definition SITE_MAIN_867 : N := 20867.   (* .expect("[ERROR] Unable to read the private key") *)
Definition SITE_MAIN_873 : N := 20873.   (* .expect("[ERROR] At least one path must be provided") *)
Definition SITE_MAIN_880 : N := 20880.   (* parse_openssl_25519_privkey(private_der).unwrap() *)
Definition SITE_MAIN_884 : N := 20884.   (* key_pair.unwrap() *)

(* "clamped as specified by the Curve-25519 reference": X25519.clamp on 32 octets *)
Definition clamped (k : bytes) : Prop := clamp k = k.
Definition clampedb (k : bytes) : bool := bytes_eqb (clamp k) k.

Section Gen.
  Variable sha512 : bytes -> bytes.
  (* Hkdf::<Sha512>::new(salt, ikm) then expand(info, L bytes) *)
  Variable hkdf512 : option bytes -> bytes -> bytes -> N -> bytes.
  (* ChaChaRng::from_seed(seed) then ONE fill_bytes of n bytes *)
  Variable rng_fill : bytes -> N -> bytes.
  (* PublicKey::from(&StaticSecret): base point multiplication by the clamped scalar *)
  Variable x25519_base : bytes -> bytes.

  (* ---------------- the code ---------------- *)

  (* lib.rs:308-336 on a generator seeded with [rng_seed]: (private_der, public_der).
     The private DER holds the generator octets AS DRAWN (not clamped). *)
  Definition generate_keypair (rng_seed : bytes) : bytes * bytes :=
    generate_keypair_from_seed x25519_base (rng_fill rng_seed PRIVATE_LEN).

  (* main.rs:823-832 / 886-895: what is written to <output> and <output>.pub *)
  Definition key_files (kp : bytes * bytes) : bytes * bytes := (fst kp, public_as_pem kp).

  (* main.rs:815-817 *)
  Definition keygen_prng_seed (seed : bytes) : res bytes :=
    slice SITE_MAIN_816 (sha512 seed) 0 PRNG_SEED_LEN.

  (* main.rs:797-834 with --seed: (private file, public file) *)
  Definition keygen_seed_files (seed : bytes) : res (bytes * bytes) :=
    do hseed <- keygen_prng_seed seed;
    Ok (key_files (generate_keypair hseed)).

  (* main.rs:841-848: src.to_bytes() is the stored octets *)
  Definition apply_derive (path secret : bytes) : bytes :=
    hkdf512 (Some DERIVE_PATH_SALT) secret path DERIVE_SEED_LEN.

  (* one derivation on the stored octets: the generator octets of the child *)
  Definition derive_step_code (secret path : bytes) : bytes :=
    rng_fill (apply_derive path secret) PRIVATE_LEN.

  (* main.rs:871-881.  State: the current secret and the generator octets of the last key
     pair.  (The public keys of intermediate pairs are computed and dropped by the code; the
     model computes only the last one, in [keyderive_files].)  Every new private DER is
     parsed again with the PEM-first parser and unwrapped. *)
  Fixpoint derive_loop (secret : bytes) (last : option bytes) (paths : list bytes)
    : res (option bytes) :=
    match paths with
    | [] => Ok last
    | p :: r =>
      let priv := derive_step_code secret p in
      match parse_openssl_25519_privkey sha512 (export_priv_der priv) with
      | Ok s => derive_loop s (Some priv) r
      | Err _ => Crash SITE_MAIN_880
      | Crash s => Crash s
      end
    end.

  (* main.rs:851-897: content of the input file, the --path values in order ->
     (private file, public file) *)
  Definition keyderive_files (input : bytes) (paths : list bytes) : res (bytes * bytes) :=
    match parse_openssl_25519_privkey sha512 input with
    | Ok secret =>
      match paths with
      | [] => Crash SITE_MAIN_873
      | _ =>
        do last <- derive_loop secret None paths;
        match last with
        | None => Crash SITE_MAIN_884
        | Some priv => Ok (key_files (generate_keypair_from_seed x25519_base priv))
        end
      end
    | Err _ => Crash SITE_MAIN_867
    | Crash s => Crash s
    end.

  (* the same on stored octets, total: fold over the path list *)
  Definition derive_code (secret : bytes) (paths : list bytes) : bytes :=
    fold_left derive_step_code paths secret.

  (* the files of a key whose generator octets are [priv] *)
  Definition files_of_private (priv : bytes) : bytes * bytes :=
    key_files (generate_keypair_from_seed x25519_base priv).

  (* ---------------- the README, literally ---------------- *)

  (* keygen: 1. bytes = UTF-8 of the seed  2. prng_seed = SHA512(bytes)[0..32]
     3. secret = ChaCha-20rounds(prng_seed)  4. secret, after being clamped, is the private key *)
  Definition keygen_doc (seed : bytes) : bytes :=
    clamp (rng_fill (takeN 32 (sha512 seed)) 32).

  (* keyderive: 1. secret = "the clamped private key"
     2.1 HKDF-SHA512(salt="PATH DERIVATION", ikm=secret of the parent, info=path)
     2.2 "use the first 32-bytes as a seed" (the README does not fix the HKDF output
         length: [okm_len] is any length >= 32)
     2.3 "the first 32-bytes output of ChaCha, after being clamped, is the new private key" *)
  Variable okm_len : N.
  Definition secret_doc (stored : bytes) : bytes := clamp stored.
  Definition derive_step_doc (key path : bytes) : bytes :=
    clamp (rng_fill (takeN 32 (hkdf512 (Some DERIVE_PATH_SALT) key path okm_len)) 32).
  (* 3. "use the last computed private key as the resulting key" *)
  Definition derive_doc (stored : bytes) (paths : list bytes) : bytes :=
    fold_left derive_step_doc paths (secret_doc stored).

  (* every parent met while the CODE derives along [paths] holds clamped octets *)
  Fixpoint parents_clamped (secret : bytes) (paths : list bytes) : Prop :=
    match paths with
    | [] => True
    | p :: r => clamped secret /\ parents_clamped (derive_step_code secret p) r
    end.

  (* no private DER written on the way frames as a PEM block (K18-der-frames-as-pem) *)
  Fixpoint reparse_ok (secret : bytes) (paths : list bytes) : Prop :=
    match paths with
    | [] => True
    | p :: r =>
      is_ok (pem_parse (export_priv_der (derive_step_code secret p))) = false /\
      reparse_ok (derive_step_code secret p) r
    end.
End Gen.

(* ---------------- concrete instances ---------------- *)

(* rand_chacha 0.9 ChaCha20Rng (= ChaChaRng) *)
Definition rng_fill_c : bytes -> N -> bytes := chacha20_rng_bytes.
Definition x25519_base_c : bytes -> bytes := X25519.x25519_base.

Definition keygen_seed_files_c : bytes -> res (bytes * bytes) :=
  keygen_seed_files sha512 rng_fill_c x25519_base_c.
Definition keyderive_files_c : bytes -> list bytes -> res (bytes * bytes) :=
  keyderive_files sha512 hkdf_sha512 rng_fill_c x25519_base_c.
Definition derive_step_code_c : bytes -> bytes -> bytes := derive_step_code hkdf_sha512 rng_fill_c.
Definition derive_code_c : bytes -> list bytes -> bytes := derive_code hkdf_sha512 rng_fill_c.
Definition keygen_doc_c : bytes -> bytes := keygen_doc sha512 rng_fill_c.
Definition derive_step_doc_c (okm_len : N) : bytes -> bytes -> bytes :=
  derive_step_doc hkdf_sha512 rng_fill_c okm_len.
Definition derive_doc_c (okm_len : N) : bytes -> list bytes -> bytes :=
  derive_doc hkdf_sha512 rng_fill_c okm_len.

(* the 32 stored octets `mlar keygen --seed` writes *)
Definition keygen_private_c (seed : bytes) : bytes :=
  rng_fill_c (takeN 32 (sha512 seed)) 32.
