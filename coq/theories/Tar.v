(* Tar.v — the bytes `mlar to-tar` emits through the `tar` crate 0.4.44 (Cargo.lock), and an
   INDEPENDENT tar reader written from the POSIX ustar / GNU tar description.

   Writer side = what mlar/src/main.rs:add_file_to_tar + tar-0.4.44/src/{builder.rs,header.rs} do,
   literally:
     Header::new_gnu()            512 zero bytes, magic "ustar " at 257, version " \0" at 263,
                                  mtime = octal 0 (header.rs:155-165)
     set_size / set_mtime         num_field_wrapper_into (header.rs:1485): 11 octal digits + NUL, or
                                  for values >= 8^11 the binary extension 0x80 00 00 00 ++ BE64
     set_mode(0o444)              octal_into, 7 digits + NUL (header.rs:1475)
     set_cksum                    sum of the 512 bytes with the checksum field read as 8 spaces,
                                  7 octal digits + NUL (header.rs:734-750)
     uid / gid / typeflag         never set in the member header: NUL bytes (typeflag NUL = old-style
                                  regular file)
     append_data                  prepare_header_path, set_cksum, then header ++ io::copy(data) ++
                                  zero padding of the COPIED length to 512 (builder.rs:176-186, 586-600)
     prepare_header_path          set_path; on failure with a path of >= 100 bytes a GNU long-name
                                  member "././@LongLink" (type 'L', mode 644, uid/gid octal 0, size
                                  len+1, data = path ++ NUL) is written FIRST, then the first 100 bytes
                                  (cut back to a UTF-8 boundary) go through the relaxed set_path
                                  (builder.rs:731-780).  A failure of that second step leaves the
                                  long-name member in the output without its member header.
     copy_path_into_inner         walks Path::components(): RootDir / ParentDir are refused, "."
                                  components dropped, components joined by "/", a trailing "/" kept;
                                  every copy writes the bytes and a NUL behind them (when there is
                                  room) into what is left of the 100-byte field and fails when the
                                  bytes do not fit or contain a NUL (header.rs:1545-1622).  The field
                                  is NOT reset between the failed first and the second attempt.
     Drop for Builder             finish(): 1024 zero bytes (builder.rs:479-485, 1109-1113)

   Definitions only; proofs in TarProofs.v. *)
From MLA Require Import Base Blocks Path.
Open Scope N_scope.

Definition zeros (n : N) : bytes := repeat 0 (N.to_nat n).
Definition TBLOCK : N := 512.
Definition NAMEF : N := 100.

(* ---------- numeric fields ---------- *)
(* octal_into on a field of w bytes: last byte NUL, before it the octal digits, lowest digit
   last, '0'-filled on the left (digits that do not fit are cut off at the top) *)
Definition octal_field (w : nat) (v : N) : bytes :=
  rev (0 :: map (fun j => 48 + (v / 8 ^ N.of_nat j) mod 8) (seq 0 (w - 1))).

(* num_field_wrapper_into on a 12-byte field (size, mtime) *)
Definition num_field12 (v : N) : bytes :=
  if 8589934592 <=? v then [128; 0; 0; 0] ++ be_bytes 8 v else octal_field 12 v.

(* ---------- the name field ---------- *)
(* copy_into + the slot bookkeeping of the inner `copy`: None = error, nothing written *)
Definition put (field : bytes) (pos : N) (b : bytes) : option (bytes * N) :=
  if NAMEF - pos <? len b then None
  else if existsb (N.eqb 0) b then None
  else Some (takeN NAMEF (takeN pos field ++ b ++ [0] ++ dropN (pos + len b + 1) field), pos + len b).

Definition comp_bytes (c : component) : bytes :=
  match c with RootDir => [SEP] | CurDir => [DOT] | ParentDir => [DOT; DOT] | Normal b => b end.

(* the loop of copy_path_into_inner (is_link_name = false); single = (components().count() == 1);
   result: the field as left behind, the write position, and whether the loop ended without
   error *)
Fixpoint cpi_loop (gnu_long single : bool) (cs : list component) (field : bytes) (pos : N)
         (needs_slash emitted : bool) : bytes * N * bool * option bool :=
  match cs with
  | [] => (field, pos, needs_slash, Some emitted)
  | c :: rest =>
    let emit :=
      match (if needs_slash then put field pos [SEP] else Some (field, pos)) with
      | None => (field, pos, needs_slash, None)
      | Some (f1, p1) =>
        match put f1 p1 (comp_bytes c) with
        | None => (f1, p1, needs_slash, None)
        | Some (f2, p2) => cpi_loop gnu_long single rest f2 p2 true true
        end
      end in
    match c with
    | RootDir => (field, pos, needs_slash, None)          (* "paths in archives must be relative" *)
    | ParentDir =>
      if negb gnu_long || match rest with [] => false | _ => true end
      then (field, pos, needs_slash, None)                 (* "must not have `..`" *)
      else emit
    | CurDir => if single then emit else cpi_loop gnu_long single rest field pos needs_slash emitted
    | Normal _ => emit
    end
  end.

Definition ends_with_slash (p : bytes) : bool :=
  match rev p with c :: _ => c =? SEP | [] => false end.

(* set_path_inner: (field afterwards, success) *)
Definition set_path (gnu_long : bool) (field : bytes) (p : bytes) : bytes * bool :=
  let cs := components p in
  match cpi_loop gnu_long (match cs with [_] => true | _ => false end) cs field 0 false false with
  | (f, pos, _, Some true) =>
    if ends_with_slash p then
      match put f pos [SEP] with Some (f', _) => (f', true) | None => (f, false) end
    else (f, true)
  | (f, _, _, _) => (f, false)
  end.

(* str::from_utf8(&data[..max]) or the valid prefix: the path is a Rust String (valid UTF-8), so
   at most the 3 bytes of an incomplete last character are dropped *)
Definition utf8_cut (b : bytes) : bytes :=
  if utf8_valid b then b
  else if utf8_valid (removelast b) then removelast b
  else if utf8_valid (removelast (removelast b)) then removelast (removelast b)
  else if utf8_valid (removelast (removelast (removelast b))) then removelast (removelast (removelast b))
  else [].

(* ---------- headers ---------- *)
Definition MAGIC_GNU : bytes := [117; 115; 116; 97; 114; 32; 32; 0].   (* "ustar " " \0" *)
Definition SPACES8 : bytes := repeat 32 8%nat.

Definition sum_bytes (b : bytes) : N := fold_left N.add b 0.

(* the 512 bytes with the given checksum field *)
Definition header_with (name mode uid gid size mtime ck : bytes) (typeflag : N) : bytes :=
  name ++ mode ++ uid ++ gid ++ size ++ mtime ++ ck ++ [typeflag] ++ zeros 100 ++ MAGIC_GNU ++ zeros 247.

Definition header (name mode uid gid size mtime : bytes) (typeflag : N) : bytes :=
  let ck := sum_bytes (header_with name mode uid gid size mtime SPACES8 typeflag) in
  header_with name mode uid gid size mtime (octal_field 8 ck) typeflag.

(* pad_zeroes: nothing when the length is a multiple of 512 *)
Definition pad512 (n : N) : bytes := zeros ((TBLOCK - n mod TBLOCK) mod TBLOCK).

Definition LONGLINK : bytes := [46; 47; 46; 47; 64; 76; 111; 110; 103; 76; 105; 110; 107].  (* ././@LongLink *)

(* prepare_header(size, b'L') followed by append of path ++ NUL *)
Definition longname_member (p : bytes) : bytes :=
  header (LONGLINK ++ zeros (NAMEF - len LONGLINK)) (octal_field 8 420 (* 0o644 *))
         (octal_field 8 0) (octal_field 8 0) (num_field12 (len p + 1)) (num_field12 0) 76 (* 'L' *)
  ++ p ++ [0] ++ pad512 (len p + 1).

(* prepare_header_path: bytes written before the member header, and the name field or failure *)
Definition prepare_path (p : bytes) : bytes * option bytes :=
  match set_path false (zeros NAMEF) p with
  | (f1, true) => ([], Some f1)
  | (f1, false) =>
    if len p <? NAMEF then ([], None)
    else
      match set_path true f1 (utf8_cut (takeN NAMEF p)) with
      | (f2, true) => (longname_member p, Some f2)
      | (_, false) => (longname_member p, None)
      end
  end.

(* add_file_to_tar's name: absolute names get "./" in front (Path::is_absolute on Unix) *)
Definition tar_path (name : bytes) : bytes :=
  match name with c :: _ => if c =? SEP then [DOT; SEP] ++ name else name | [] => name end.

(* the dry run add_file_to_tar makes first (repair 6302e72):
     Builder::new(io::sink()).append_data(&mut header.clone(), &filename, io::empty())?
   on a scratch builder: prepare_header_path, set_cksum, header + nothing into a sink — it fails
   exactly when prepare_header_path refuses the path, and leaves the real header and the real
   destination alone *)
Definition path_accepted (name : bytes) : bool :=
  match snd (prepare_path (tar_path name)) with Some _ => true | None => false end.

(* one member as add_file_to_tar + append_data write it: size = the size of the index (header
   field), data = the bytes io::copy delivered, complete = io::copy ended without error (false:
   the read failed, no padding is written).  Result: bytes written, and whether add_file_to_tar
   returned Ok.  A path the tar crate refuses leaves NOTHING (the dry run fails first) *)
Definition tar_member (name : bytes) (size : N) (data : bytes) (complete : bool) : bytes * bool :=
  match prepare_path (tar_path name) with
  | (pre, None) => ([], false)
  | (pre, Some field) =>
    let h := header field (octal_field 8 292 (* 0o444 *)) (zeros 8) (zeros 8) (num_field12 size) (num_field12 0) 0 in
    if complete then (pre ++ h ++ data ++ pad512 (len data), true) else (pre ++ h ++ data, false)
  end.

(* BEFORE the repair: no dry run — when the path is refused after the GNU long-name member was
   written, that member stays in the output without its header *)
Definition tar_member_old (name : bytes) (size : N) (data : bytes) (complete : bool) : bytes * bool :=
  match prepare_path (tar_path name) with
  | (pre, None) => (pre, false)
  | (pre, Some field) =>
    let h := header field (octal_field 8 292) (zeros 8) (zeros 8) (num_field12 size) (num_field12 0) 0 in
    if complete then (pre ++ h ++ data ++ pad512 (len data), true) else (pre ++ h ++ data, false)
  end.

Definition TAR_END : bytes := zeros 1024.

(* the whole tar for members whose copies all completed: what to_tar leaves in the file *)
Definition tar_of (ms : list (bytes * bytes)) : bytes :=
  concat (map (fun m => fst (tar_member (fst m) (len (snd m)) (snd m) true)) ms) ++ TAR_END.
Definition tar_of_old (ms : list (bytes * bytes)) : bytes :=
  concat (map (fun m => fst (tar_member_old (fst m) (len (snd m)) (snd m) true)) ms) ++ TAR_END.

(* ================================================================================== *)
(* An independent reader: POSIX.1-1988 ustar layout, GNU long-name members ('L'), GNU base-256
   sizes.  Checks the header checksum.  None = not a tar this reader accepts. *)

Definition splitN (n : N) (b : bytes) : bytes * bytes := (takeN n b, dropN n b).

Fixpoint upto_nul (b : bytes) : bytes :=
  match b with [] => [] | c :: r => if c =? 0 then [] else c :: upto_nul r end.

(* octal number: leading spaces skipped, digits up to NUL / space / end of field *)
Fixpoint oct_digits (b : bytes) (acc : N) : option N :=
  match b with
  | [] => Some acc
  | c :: r =>
    if (c =? 0) || (c =? 32) then Some acc
    else if (48 <=? c) && (c <=? 55) then oct_digits r (acc * 8 + (c - 48))
    else None
  end.
Fixpoint skip_spaces (b : bytes) : bytes :=
  match b with c :: r => if c =? 32 then skip_spaces r else b | [] => [] end.
Definition parse_octal (b : bytes) : option N := oct_digits (skip_spaces b) 0.

(* size: base-256 when the top bit of the first byte is set (GNU), else octal *)
Definition parse_size (b : bytes) : option N :=
  match b with
  | c :: _ => if 128 <=? c then Some (be_val (dropN 4 b)) else parse_octal b
  | [] => None
  end.

Definition all_zero (b : bytes) : bool := forallb (N.eqb 0) b.

Definition round512 (n : N) : N := n + (TBLOCK - n mod TBLOCK) mod TBLOCK.

Fixpoint tar_read (fuel : nat) (b : bytes) (longname : option bytes) : option (list (bytes * bytes)) :=
  match fuel with
  | O => None
  | Datatypes.S fuel' =>
    if len b <? TBLOCK then (if len b =? 0 then Some [] else None) else
    let '(h, rest) := splitN TBLOCK b in
    if all_zero h then Some [] else
    let '(name, r1) := splitN 100 h in
    let '(_mode, r2) := splitN 8 r1 in
    let '(_uid, r3) := splitN 8 r2 in
    let '(_gid, r4) := splitN 8 r3 in
    let '(size, r5) := splitN 12 r4 in
    let '(_mtime, r6) := splitN 12 r5 in
    let '(ck, r7) := splitN 8 r6 in
    let '(tf, r8) := splitN 1 r7 in
    match parse_octal ck, parse_size size with
    | Some ckv, Some sz =>
      if negb (ckv =? sum_bytes (name ++ _mode ++ _uid ++ _gid ++ size ++ _mtime ++ SPACES8 ++ r7)) then None else
      if len rest <? round512 sz then None else
      let data := takeN sz rest in
      let rest' := dropN (round512 sz) rest in
      match tf with
      | [t] =>
        if t =? 76 then tar_read fuel' rest' (Some (upto_nul data))
        else if (t =? 0) || (t =? 48) then
          match tar_read fuel' rest' None with
          | Some l => Some ((match longname with Some n => n | None => upto_nul name end, data) :: l)
          | None => None
          end
        else None
      | _ => None
      end
    | _, _ => None
    end
  end.

(* ================================================================================== *)
(* vocabulary of the round-trip statements (TarProofs.v, props/C17.v) *)

(* a member to_tar can write: the path is accepted (directly or through a long-name member), the
   sizes fit their u64 fields, the name's bytes are bytes *)
Definition member_ok (m : bytes * bytes) : Prop :=
  (exists pre field, prepare_path (tar_path (fst m)) = (pre, Some field)) /\
  len (snd m) < 2 ^ 64 /\ wf_bytes (fst m) /\ len (fst m) + 3 < 2 ^ 64.

Definition tar_name (name : bytes) : bytes :=
  match prepare_path (tar_path name) with
  | ([], Some f) => upto_nul f
  | (_, Some _) => upto_nul (tar_path name)
  | (_, None) => []
  end.

(* a path component that set_path copies unchanged *)
Definition benign_comp (c : bytes) : Prop :=
  c <> [] /\ c <> [DOT] /\ c <> [DOT; DOT] /\ ~ In SEP c /\ ~ In 0 c.

(* what the types guarantee of any member: u64 sizes, bytes *)
Definition sizes_ok (m : bytes * bytes) : Prop :=
  len (snd m) < 2 ^ 64 /\ wf_bytes (fst m) /\ len (fst m) + 3 < 2 ^ 64.
