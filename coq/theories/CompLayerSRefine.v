(* CompLayerSRefine.v — REFINEMENT: over an inner stream that behaves as a cursor over the wire
   form [compressed blocks][SizesInfo][len] (every inner read succeeds), the compression
   reader with the STREAMING decompressor (CompLayerS.v) behaves as a cursor over the
   plaintext — the very statement CompLayerProofs.comp_reader_refines_gen makes of the
   whole-block model — so every client theorem stated for "any stream refining a cursor"
   (C01, C10, C11, C12 ...) holds of it, and the two models agree on everything a client can
   observe through read-until-n and seeks (comp_stream_agrees_whole_block).

   Premises on brotli: the DecoderLaws of CompFailSafeProofs.v; every compressed block of the
   wire is a complete stream (fin) that decodes (D) to its BLOCK-slice of the plaintext; and
   one more law, needed for reads with an EMPTY buffer only: the decoder does not ask for more
   input once a complete stream has been offered (NoNmiAtEnd; observed on the real decoder
   by job c08-stack, true of the toy decoder). *)
From MLA Require Import Limit.
From MLA Require Import Base Stream CompLayer CompLayerProofs CompFailSafe CompFailSafeProofs
  CompFailSafeStep CompLayerS CompLayerSProofs.
From Coq Require Import ZifyBool ZifyNat ZifyN.
Open Scope N_scope.

Definition NoNmiAtEnd {dstate : Type} (dinit : dstate)
    (dstep : dstate -> bytes -> N -> dresult * N * bytes * dstate) (fin : bytes -> bool) : Prop :=
  forall ds cin cout inp room k out ds' c,
    dreach dinit dstep ds cin cout -> dstep ds inp room = (DNeedsMoreInput, k, out, ds') ->
    fin c = true -> prefix c (cin ++ inp) -> False.

Lemma sliceN_mid {A} (pre cb post : list A) x k : x + k <= len cb ->
  sliceN (len pre + x) k (pre ++ cb ++ post) = sliceN x k cb.
Proof.
  intros H. unfold sliceN. rewrite <- dropN_dropN, dropN_len_app.
  rewrite dropN_app_le by lia. apply takeN_app_le. rewrite len_dropN. lia.
Qed.

(* out continues cout inside b *)
Lemma continue_slice (b cout out : bytes) r : cout = takeN r b -> r <= len b -> prefix (cout ++ out) b ->
  out = sliceN r (len out) b /\ r + len out <= len b /\ cout ++ out = takeN (r + len out) b.
Proof.
  intros Hc Hr Hp.
  assert (Hlc : len cout = r) by (rewrite Hc, len_takeN; lia).
  pose proof (prefix_len _ _ Hp) as Hl. rewrite len_app in Hl.
  pose proof (prefix_is_takeN _ _ Hp) as Ht. rewrite len_app, Hlc in Ht.
  split; [|split; [lia | exact Ht]].
  rewrite takeN_add in Ht. rewrite <- Hc in Ht. apply app_inv_head in Ht. exact Ht.
Qed.

Section Refine.
  Variables BLOCK LIMIT : N.
  Local Hint Extern 0 Limit => exact LIMIT : typeclass_instances.
  Hypothesis HB : 0 < BLOCK.
  Hypothesis HB32 : BLOCK < 2 ^ 32.
  Variable dstate : Type.
  Variable dinit : dstate.
  Variable dstep : dstate -> bytes -> N -> dresult * N * bytes * dstate.
  Variable D : bytes -> bytes.
  Variable fin : bytes -> bool.
  Hypothesis L : DecoderLaws dinit dstep D fin.
  Hypothesis Hend : NoNmiAtEnd dinit dstep fin.
  Variable S : Stream.
  Variable plain : bytes.
  Variable cbs : list (list N).

  Notation Lp := (len plain).
  Notation nb := (len cbs).
  Notation lastsz := (len plain - (len cbs - 1) * BLOCK).
  Notation block_at := (block_at BLOCK).

  Hypothesis Hnb : (nb - 1) * BLOCK <= Lp /\ Lp <= nb * BLOCK.
  (* the block table is the decoder's *)
  Hypothesis Hblk : forall j cb, nthN cbs j = Some cb -> fin cb = true /\ D cb = block_at plain j.
  Hypothesis Hcs : Forall (fun cb : list N => len cb < 2 ^ 32) cbs.
  Hypothesis Hlim : 12 + 4 * nb <= LIMIT /\ 12 + 4 * nb < 2 ^ 32.
  Hypothesis HL : Lp < 2 ^ 63.

  Notation wire := (comp_wire cbs lastsz).
  Notation si0 := (mkSI (map (@len N) cbs) lastsz).
  Variable Rin : st S -> N -> Prop.
  Hypothesis Hin : Refines S wire Rin.

  Notation sdecomp := (sdecomp dstate S).
  Notation sreader := (sreader dstate S).
  Notation sd_read := (sd_read dstate dstep S).
  Notation sd_skip := (sd_skip dstate dstep S).
  Notation sread := (sread BLOCK dstate dinit dstep S).
  Notation sread_aux := (sread_aux BLOCK dstate dinit dstep S).
  Notation sseek := (sseek BLOCK dstate dinit dstep S).
  Notation sseek_start := (sseek_start BLOCK dstate dinit dstep S).
  Notation sseek_start_go := (sseek_start_go BLOCK dstate dinit dstep S).
  Notation new_sdecomp := (new_sdecomp BLOCK dstate dinit S).
  Notation sync_inner := (sync_inner BLOCK S).
  Notation ubs_at := (ubs_at BLOCK).
  Notation CompReaderS := (CompReaderS BLOCK dstate dinit dstep S).
  Notation live := (live dstate dinit dstep fin S).
  Notation pending := (pending dstate S).

  (* the facts of CompLayerProofs that do not mention the decompressor (re-proved: there they
     sit in a section that also fixes `dec`) *)
  Lemma Hsimax : si_max BLOCK si0 = Lp.
  Proof.
    unfold si_max. cbn [si_sizes si_last]. rewrite len_map. destruct Hnb as [H1 _]. revert H1.
    generalize ((nb - 1) * BLOCK). intros x H1. lia.
  Qed.
  Lemma Hlenblock j : len (block_at plain j) = N.min BLOCK (Lp - j * BLOCK).
  Proof. apply len_block. Qed.
  Lemma Hubs0 j : j < nb -> si_ubs BLOCK si0 j = len (block_at plain j).
  Proof.
    intros Hj. unfold si_ubs. cbn [si_sizes si_last]. rewrite len_map, Hlenblock.
    destruct Hnb as [H1 H2]. destruct (N.ltb_spec (j + 1) nb) as [H|H]; nia.
  Qed.

  Definition usable (i : st S) : Prop := exists pin, Rin i pin.
  Definition start_of (j : N) : N := len (concat (takeN j cbs)).

  Lemma wire_split j cb : nthN cbs j = Some cb ->
    exists post, wire = concat (takeN j cbs) ++ cb ++ post.
  Proof.
    intros Hcb. pose proof (nthN_split cbs j cb Hcb) as Hsplit.
    eexists. unfold comp_wire. rewrite Hsplit at 1. rewrite concat_app. cbn [concat].
    rewrite <- !app_assoc. reflexivity.
  Qed.

  (* an open decompressor on block j that has delivered r bytes and is not exhausted *)
  Definition dlive (j : N) (cb : bytes) (d : sdecomp) (r : N) : Prop :=
    exists cin cout, live d cb cin cout /\ cout = takeN r (block_at plain j) /\
      r <= len (block_at plain j) /\
      Rin (sd_in d) (start_of j + len (cin ++ pending d)) /\
      sd_lim d + len (cin ++ pending d) = len cb.

  (* ---------- Decompressor::read inside block j ---------- *)
  Lemma sd_read_spec j cb : nthN cbs j = Some cb -> forall fuel d r n,
    dlive j cb d r -> r < len (block_at plain j) -> (N.to_nat (sd_lim d) < fuel)%nat ->
    exists d' k, sd_read fuel d n = (d', Ok (sliceN r k (block_at plain j))) /\
      k <= n /\ (k = 0 -> n = 0) /\ r + k <= len (block_at plain j) /\ usable (sd_in d') /\
      (r + k < len (block_at plain j) -> dlive j cb d' (r + k)).
  Proof.
    intros Hcb. destruct (Hblk j cb Hcb) as [Hfin HD].
    destruct (wire_split j cb Hcb) as [post Hwire].
    set (b := block_at plain j) in *.
    induction fuel as [|fuel IH]; intros d r n (cin & cout & HLv & Hco & Hrb & HRi & Hlm) Hr Hf; [lia|].
    pose proof HLv as (Hreach & (Hb1 & Hb2 & Hb3) & Hpre & _).
    assert (HDX : prefix (D (cin ++ pending d)) b).
    { rewrite <- HD. apply (D_mono_prefix _ dinit dstep D fin L). exact Hpre. }
    destruct (dstep (sd_ds d) (pending d) n) as [[[res k] out] ds'] eqn:Hs.
    destruct (dl_bounds _ _ _ _ _ L _ _ _ _ _ _ _ _ _ Hreach Hs) as [Hk Hout].
    assert (Hsound : res <> DFailure -> prefix (cout ++ out) b).
    { intros Hnf. eapply prefix_trans; [exact (dl_sound _ _ _ _ _ L _ _ _ _ _ _ _ _ _ Hreach Hs Hnf)|].
      eapply prefix_trans; [|exact HDX].
      apply (D_mono_prefix _ dinit dstep D fin L), prefix_app_app, prefix_takeN. }
    destruct res.
    - (* Success *)
      destruct (dl_success _ _ _ _ _ L _ _ _ _ _ _ _ _ Hreach Hs) as [Hfx Hall].
      assert (Hx : cin ++ takeN k (pending d) = cb).
      { apply (fin_prefix_eq dstate dinit dstep D fin L); [exact Hfin | exact Hfx|].
        eapply prefix_trans; [apply prefix_app_app, prefix_takeN | exact Hpre]. }
      rewrite Hx, HD in Hall.
      destruct (continue_slice b cout out r Hco Hrb ltac:(rewrite Hall; apply prefix_refl)) as (Ho & Hle & Ht).
      assert (Hlo : r + len out = len b).
      { apply (f_equal (@len N)) in Ht. rewrite Hall, len_takeN in Ht. lia. }
      cbn [CompLayerS.sd_read].
      destruct (N.ltb_spec (len (sd_buf d)) (sd_off d)) as [?|_]; [lia|].
      fold (pending d). rewrite Hs.
      destruct (N.eqb_spec (len out) 0) as [?|_]; [lia|].
      eexists _, (len out). rewrite <- Ho. split; [reflexivity|]. cbn [sd_in].
      split; [exact Hout|]. split; [lia|]. split; [lia|]. split; [eexists; exact HRi | lia].
    - (* NeedsMoreInput *)
      destruct (dl_nmi _ _ _ _ _ L _ _ _ _ _ _ _ _ Hreach Hs) as [Hkk _].
      destruct (continue_slice b cout out r Hco Hrb (Hsound ltac:(discriminate))) as (Ho & Hle & Ht).
      destruct (N.eq_dec (len out) 0) as [Hz|Hnz].
      + (* no output: one inner read, then again *)
        apply len_0_nil in Hz. subst out.
        assert (Hlt : len (cin ++ pending d) < len cb).
        { pose proof (prefix_len _ _ Hpre) as Hle'.
          destruct (N.eq_dec (len (cin ++ pending d)) (len cb)) as [He|?]; [|lia].
          exfalso. apply (Hend _ _ _ _ _ _ _ _ cb Hreach Hs Hfin).
          rewrite (prefix_len_eq _ _ Hpre ltac:(lia)). apply prefix_refl. }
        destruct (sd_read_nmi dstate dinit dstep D fin L S fuel d cb cin cout n k ds' HLv Hs)
          as (d2 & (Hb21 & Hb22 & Hb23) & Hi2 & Hl2 & Hz2 & He2 & Hdn2 & Hp2 & Hw2 & Hr2 & ->).
        destruct (refill_want_pos dstate S d (conj Hb1 (conj Hb2 Hb3))) as [Hw0 Hw1].
        unfold take_read. destruct (N.eqb_spec (sd_lim d) 0) as [?|_]; [lia|].
        set (m := N.min (refill_want dstate S d) (sd_lim d)).
        set (X := cin ++ pending d) in *.
        destruct (ref_rd _ _ _ Hin (sd_in d) (start_of j + len X) m HRi)
          as (i' & k' & Hrd & Hk'm & Hk'w & Hk'0 & HRi').
        assert (Hwl : len wire = start_of j + len cb + len post).
        { rewrite Hwire at 1. rewrite !len_app. unfold start_of. lia. }
        assert (Hk'pos : 0 < k').
        { destruct (N.eq_dec k' 0) as [E|?]; [|lia]. destruct (Hk'0 E); lia. }
        assert (Hdata : sliceN (start_of j + len X) k' wire = sliceN (len X) k' cb).
        { rewrite Hwire at 1. apply sliceN_mid. lia. }
        rewrite Hrd, Hdata.
        assert (Hld : len (sliceN (len X) k' cb) = k') by (rewrite len_sliceN; lia).
        rewrite Hld.
        destruct (N.ltb_spec m k') as [?|_]; [lia|].
        destruct (N.eqb_spec k' 0) as [?|_]; [lia|].
        set (data := sliceN (len X) k' cb) in *.
        set (d3 := mkSD i' (sd_lim d - k') (sd_bsz d2) (sd_buf d2 ++ data) (sd_off d2) (sd_ds d2) (sd_done d2) (sd_eiid d2)).
        assert (Hpd3 : pending d3 = data).
        { unfold CompLayerSProofs.pending in *. unfold d3. cbn [sd_off sd_buf].
          rewrite dropN_app_le by lia. rewrite Hp2. reflexivity. }
        assert (HXd : prefix (X ++ data) cb).
        { rewrite (prefix_is_takeN _ _ Hpre). unfold data, sliceN. rewrite <- takeN_add. apply prefix_takeN. }
        assert (HL3 : dlive j cb d3 r).
        { exists X, cout. split.
          - split; [unfold d3; cbn [sd_ds]; exact Hr2|].
            split; [unfold CompLayerSProofs.buf_ok, d3; cbn [sd_off sd_buf sd_bsz]; rewrite len_app, Hld; lia|].
            split; [rewrite Hpd3; exact HXd | exact Hfin].
          - split; [exact Hco|]. split; [exact Hrb|]. rewrite Hpd3, len_app, Hld.
            split; [unfold d3; cbn [sd_in]; rewrite N.add_assoc; exact HRi' | unfold d3; cbn [sd_lim]; lia]. }
        replace (len data =? 0) with false by (symmetry; apply N.eqb_neq; lia).
        apply (IH d3 r n HL3 Hr). unfold d3. cbn [sd_lim]. lia.
      + (* output: returned without asking the inner reader *)
        cbn [CompLayerS.sd_read].
        destruct (N.ltb_spec (len (sd_buf d)) (sd_off d)) as [?|_]; [lia|].
        fold (pending d). rewrite Hs.
        destruct (live_step dstate dinit dstep D fin L S d cb cin cout n _ k out ds' HLv Hs (or_introl eq_refl))
          as (HL1 & Hcat & _).
        set (d1 := mkSD (sd_in d) (sd_lim d) (sd_bsz d) (sd_buf d) (sd_off d + k) ds' (sd_done d) (sd_eiid d)) in *.
        destruct (copy_to_front_spec dstate S d1 (proj1 (proj2 HL1)))
          as (d2 & -> & Hbk2 & Hp2 & Hi2 & Hl2 & Hz2 & Hds2 & _ & _).
        destruct (N.eqb_spec (len out) 0) as [?|_]; [lia|]. cbn [negb].
        exists d2, (len out). rewrite <- Ho. split; [reflexivity|].
        split; [exact Hout|]. split; [lia|]. split; [exact Hle|].
        split; [rewrite Hi2; eexists; exact HRi|].
        intros _. exists (cin ++ takeN k (pending d)), (cout ++ out).
        destruct HL1 as (Hr1 & _ & Hp1 & _).
        split; [split; [rewrite Hds2; exact Hr1|]; split; [exact Hbk2|]; split; [rewrite Hp2; exact Hp1 | exact Hfin]|].
        split; [exact Ht|]. split; [exact Hle|]. rewrite Hp2, Hcat, Hi2, Hl2. split; assumption.
    - (* NeedsMoreOutput *)
      destruct (dl_nmo _ _ _ _ _ L _ _ _ _ _ _ _ _ Hreach Hs) as [Hroom _].
      destruct (continue_slice b cout out r Hco Hrb (Hsound ltac:(discriminate))) as (Ho & Hle & Ht).
      cbn [CompLayerS.sd_read].
      destruct (N.ltb_spec (len (sd_buf d)) (sd_off d)) as [?|_]; [lia|].
      fold (pending d). rewrite Hs.
      destruct (live_step dstate dinit dstep D fin L S d cb cin cout n _ k out ds' HLv Hs (or_intror eq_refl))
        as (HL1 & Hcat & _).
      eexists _, (len out). rewrite <- Ho. split; [reflexivity|]. cbn [sd_in].
      split; [lia|]. split; [lia|]. split; [exact Hle|]. split; [eexists; exact HRi|].
      intros _. exists (cin ++ takeN k (pending d)), (cout ++ out).
      split; [exact HL1|]. split; [exact Ht|]. split; [exact Hle|]. rewrite Hcat. cbn [sd_in sd_lim].
      split; assumption.
    - exfalso. apply (dl_nofail _ _ _ _ _ L _ _ _ _ _ _ _ _ Hreach Hs). exists cb. auto.
  Qed.

  (* io::copy(take(inside)) inside block j *)
  Lemma sd_skip_spec j cb : nthN cbs j = Some cb -> forall fuel d r m,
    dlive j cb d r -> r + m <= len (block_at plain j) -> (N.to_nat m < fuel)%nat ->
    exists d', sd_skip fuel d m = (d', Ok tt) /\ usable (sd_in d') /\
      (r + m < len (block_at plain j) -> dlive j cb d' (r + m)).
  Proof.
    intros Hcb. induction fuel as [|fuel IH]; intros d r m HLv Hrm Hf; [lia|].
    cbn [CompLayerS.sd_skip].
    destruct (N.eqb_spec m 0) as [->|Hm].
    - exists d. split; [reflexivity|]. rewrite N.add_0_r.
      split; [destruct HLv as (? & ? & _ & _ & _ & HR & _); eexists; exact HR | auto].
    - destruct (sd_read_spec j cb Hcb (sd_fuel dstate S d) d r (N.min IO_COPY_BUF m) HLv ltac:(lia)
                  ltac:(unfold sd_fuel; lia)) as (d' & k & -> & Hk & Hk0 & Hrk & Hus & Hlive).
      assert (Hlen : len (sliceN r k (block_at plain j)) = k) by (rewrite len_sliceN; lia).
      rewrite Hlen.
      assert (Hkpos : 0 < k).
      { destruct (N.eq_dec k 0) as [E|?]; [|lia]. specialize (Hk0 E). unfold IO_COPY_BUF in Hk0. lia. }
      destruct (N.eqb_spec k 0) as [?|_]; [lia|].
      destruct (N.ltb_spec m k) as [?|_]; [lia|].
      destruct (N.eq_dec (m - k) 0) as [Hz|Hnz].
      + rewrite Hz. destruct fuel as [|fuel']; [lia|]. cbn [CompLayerS.sd_skip N.eqb].
        change (0 =? 0) with true. exists d'. split; [reflexivity|]. split; [exact Hus|].
        replace (r + m) with (r + k) by lia. exact Hlive.
      + destruct (IH d' (r + k) (m - k) (Hlive ltac:(lia)) ltac:(lia) ltac:(lia)) as (d'' & -> & Hus' & Hl').
        exists d''. split; [reflexivity|]. split; [exact Hus'|].
        replace (r + m) with (r + k + (m - k)) by lia. exact Hl'.
  Qed.

  (* ---------- the reader ---------- *)
  Definition RcompS (c : sreader) (p : N) : Prop :=
    s_si c = Some si0 /\ s_pos c = p /\ p <= Lp /\
    match s_state c with
    | SReady i => usable i /\ (p mod BLOCK = 0 \/ p = Lp)
    | SInData r u d =>
      exists j cb, j < nb /\ nthN cbs j = Some cb /\ p = j * BLOCK + r /\ r <= u /\
                   u = len (block_at plain j) /\ usable (sd_in d) /\ (r < u -> dlive j cb d r)
    | SEmpty => False
    end.

  (* going to the start of block j: sync, new decompressor (nothing is read), block size *)
  Lemma enter_block_s i j : usable i -> j * BLOCK < Lp ->
    exists i1 d cb, sync_inner (Some si0) i (j * BLOCK) = (i1, Ok tt) /\
      new_sdecomp (Some si0) i1 (j * BLOCK) = Ok d /\
      ubs_at (Some si0) (j * BLOCK) = Ok (len (block_at plain j)) /\ j < nb /\
      nthN cbs j = Some cb /\ dlive j cb d 0 /\ usable (sd_in d).
  Proof.
    intros [pin HR] Hj.
    assert (Hjn : j < nb) by nia.
    destruct (divmod_mul BLOCK j 0 HB HB) as [Hdiv Hmod]. rewrite N.add_0_r in Hdiv, Hmod.
    assert (Hchk : block_start_check BLOCK (Some si0) (j * BLOCK) = Ok tt).
    { unfold block_start_check, pos_in_stream. rewrite Hmod, Hsimax. cbn [N.eqb negb].
      change (0 =? 0) with true. cbn [negb].
      destruct (N.ltb_spec (j * BLOCK) Lp); [reflexivity | lia]. }
    destruct (nthN_lt_Some cbs j Hjn) as [cb Hcb].
    destruct (wire_split j cb Hcb) as [post Hwire].
    assert (Hoff : sum_firstN (map (@len N) cbs) j = start_of j) by apply sum_firstN_spec.
    assert (Hle : start_of j + len cb <= len wire).
    { rewrite Hwire at 1. rewrite !len_app. unfold start_of. lia. }
    unfold CompLayer.sync_inner. rewrite Hchk, Hdiv. cbn [si_sizes]. rewrite Hoff.
    destruct (ref_sk _ _ _ Hin i pin (FromStart (start_of j)) (start_of j) HR) as (i1 & Hsk & HR1).
    { apply target_start. lia. }
    rewrite Hsk. exists i1.
    unfold CompLayerS.new_sdecomp, CompLayer.ubs_at. rewrite Hchk. cbn [bind].
    unfold si_cbs. rewrite Hdiv. cbn [si_sizes]. rewrite nthN_map, Hcb. cbn [option_map bind].
    eexists _, cb. split; [reflexivity|]. split; [reflexivity|].
    split; [f_equal; apply Hubs0; exact Hjn|]. split; [exact Hjn|]. split; [reflexivity|].
    destruct (Hblk j cb Hcb) as [Hfin HD].
    split; [|cbn [sd_in]; eexists; exact HR1].
    exists [], []. cbn [sd_in sd_lim]. unfold CompLayerSProofs.pending. cbn [sd_off sd_buf].
    rewrite dropN_0. cbn [app]. change (len (@nil N)) with 0. rewrite N.add_0_r.
    split.
    - split; [cbn [sd_ds]; constructor|].
      split; [|split; [exists cb; reflexivity | exact Hfin]].
      unfold CompLayerSProofs.buf_ok. cbn [sd_off sd_buf sd_bsz]. change (len (@nil N)) with 0.
      destruct (N.eqb_spec (N.min (len cb) BLOCK) 0); unfold DEC_DEFAULT_BUF; lia.
    - split; [reflexivity|]. split; [lia|]. split; [exact HR1 | lia].
  Qed.

  (* a read inside a block *)
  Lemma sread_indata fuel r u d p n j cb :
    j < nb -> nthN cbs j = Some cb -> p = j * BLOCK + r -> r < u -> u = len (block_at plain j) ->
    dlive j cb d r ->
    exists c' k, sread_aux (Datatypes.S fuel) (mkS (SInData r u d) (Some si0) p) n
                 = (c', Ok (sliceN p k plain)) /\
       k <= n /\ p + k <= Lp /\ (k = 0 -> n = 0 \/ p = Lp) /\ RcompS c' (p + k).
  Proof.
    intros Hj Hcb Hp Hru Hu HLv.
    pose proof (Hlenblock j) as Hlb.
    assert (HpL : p < Lp) by lia.
    cbn [CompLayerS.sread_aux s_si s_pos s_state pos_in_stream]. rewrite Hsimax.
    destruct (N.ltb_spec p Lp) as [_|?]; [|lia]. cbn [negb].
    destruct (N.ltb_spec u r) as [?|_]; [lia|].
    destruct (N.eqb_spec r u) as [?|_]; [lia|].
    set (m := N.min (u - r) n).
    destruct (sd_read_spec j cb Hcb (sd_fuel dstate S d) d r m HLv ltac:(lia) ltac:(unfold sd_fuel; lia))
      as (d' & k & -> & Hk & Hk0 & Hrk & Hus & Hlive).
    assert (Hdata : sliceN r k (block_at plain j) = sliceN p k plain).
    { unfold CompLayer.block_at. rewrite sliceN_sliceN by lia. rewrite <- Hp. f_equal. lia. }
    rewrite Hdata.
    assert (Hlen : len (sliceN p k plain) = k) by (rewrite len_sliceN; lia).
    rewrite Hlen.
    destruct (N.leb_spec (2 ^ 32) k) as [?|_]; [lia|].
    eexists _, k. split; [reflexivity|].
    split; [lia|]. split; [lia|]. split; [intros E; specialize (Hk0 E); lia|].
    unfold RcompS. cbn [s_si s_pos s_state]. repeat split; try lia.
    exists j, cb. repeat split; try assumption; try lia.
    intros Hlt. apply Hlive. lia.
  Qed.

  Lemma sread_ready fuel i p n j :
    usable i -> p = j * BLOCK -> p < Lp ->
    exists c' k, sread_aux (Datatypes.S (Datatypes.S fuel)) (mkS (SReady i) (Some si0) p) n
                 = (c', Ok (sliceN p k plain)) /\
       k <= n /\ p + k <= Lp /\ (k = 0 -> n = 0 \/ p = Lp) /\ RcompS c' (p + k).
  Proof.
    intros Hus Hp HpL. subst p.
    destruct (enter_block_s i j Hus HpL) as (i1 & d & cb & Hsync & Hnew & Hubs & Hj & Hcb & HLv & _).
    cbn [CompLayerS.sread_aux s_si s_pos s_state pos_in_stream]. rewrite Hsimax.
    destruct (N.ltb_spec (j * BLOCK) Lp) as [_|?]; [|lia]. cbn [negb].
    rewrite Hsync, Hnew, Hubs. unfold s_set. cbn [s_si s_pos].
    pose proof (Hlenblock j) as Hlb.
    apply (sread_indata fuel 0 _ d (j * BLOCK) n j cb); try assumption; lia.
  Qed.

  Lemma sread_spec c p n : RcompS c p ->
    exists c' k, sread c n = (c', Ok (sliceN p k plain)) /\ k <= n /\ p + k <= Lp /\
                 (k = 0 -> n = 0 \/ p = Lp) /\ RcompS c' (p + k).
  Proof.
    intros HR. pose proof HR as (Hsi & Hpos & HpL & Hst).
    destruct c as [cs csi cpos]. cbn [s_si s_pos s_state] in *. subst csi cpos.
    change (sread (mkS cs (Some si0) p) n) with (sread_aux 4 (mkS cs (Some si0) p) n).
    destruct (N.eq_dec p Lp) as [HeqL|Hne].
    - exists (mkS cs (Some si0) p), 0.
      cbn [CompLayerS.sread_aux s_si s_pos pos_in_stream]. rewrite Hsimax.
      destruct (N.ltb_spec p Lp) as [?|_]; [lia|]. cbn [negb]. rewrite sliceN_0, N.add_0_r.
      split; [reflexivity|]. split; [lia|]. split; [lia|]. split; [auto|]. exact HR.
    - assert (HpL' : p < Lp) by lia.
      destruct cs as [i|r u d|].
      + destruct Hst as [Hus [Hmod|?]]; [|lia].
        apply (sread_ready _ i p n (p / BLOCK)); try assumption.
        pose proof (N.div_mod p BLOCK). lia.
      + destruct Hst as (j & cb & Hj & Hcb & Hp & Hru & Hu & Hus & HLv).
        destruct (N.eq_dec r u) as [Heq|Hlt].
        * pose proof (Hlenblock j) as Hlb.
          assert (HuB : u = BLOCK) by lia.
          remember 3%nat as f3 eqn:Hf3.
          cbn [CompLayerS.sread_aux s_si s_pos s_state pos_in_stream]. rewrite Hsimax.
          destruct (N.ltb_spec p Lp) as [_|?]; [|lia]. cbn [negb].
          destruct (N.ltb_spec u r) as [?|_]; [lia|].
          destruct (N.eqb_spec r u) as [_|?]; [|lia].
          unfold s_set. cbn [s_si s_pos]. subst f3.
          apply (sread_ready _ (sd_in d) p n (j + 1)); try assumption. lia.
        * apply (sread_indata _ r u d p n j cb); try assumption; try lia. apply HLv. lia.
      + destruct Hst.
  Qed.

  Lemma RcompS_inner c p : RcompS c p ->
    exists i, s_into_inner dstate S (s_state c) = Ok i /\ usable i /\ s_state c <> SEmpty.
  Proof.
    intros (_ & _ & _ & Hst). destruct (s_state c) as [i|r u d|].
    - exists i. destruct Hst as [Hus _]. repeat split; [assumption | discriminate].
    - destruct Hst as (j & cb & _ & _ & _ & _ & _ & Hus & _). exists (sd_in d).
      repeat split; [assumption | discriminate].
    - destruct Hst.
  Qed.

  Lemma sseek_go_spec c i q : s_si c = Some si0 -> s_into_inner dstate S (s_state c) = Ok i -> usable i ->
    q <= Lp -> exists c', sseek_start_go c si0 q = (c', Ok q) /\ RcompS c' q.
  Proof.
    intros Hsi Hinto Hus Hq. unfold CompLayerS.sseek_start_go.
    rewrite Hsi, Hinto. unfold pos_in_stream. rewrite Hsimax.
    pose proof (N.div_mod q BLOCK ltac:(lia)) as Hdm.
    pose proof (N.mod_lt q BLOCK ltac:(lia)) as Hml.
    set (j := q / BLOCK) in *. set (ins := q mod BLOCK) in *.
    assert (Hrounded : q - ins = j * BLOCK) by lia. rewrite Hrounded.
    destruct (N.ltb_spec (j * BLOCK) Lp) as [Hlt|Hge]; cbn [negb].
    - destruct (enter_block_s i j Hus Hlt) as (i1 & d & cb & Hsync & Hnew & Hubs & Hj & Hcb & HLv & Hus1).
      rewrite Hsync, Hnew, Hubs.
      pose proof (Hlenblock j) as Hlb.
      destruct (sd_skip_spec j cb Hcb (skip_fuel ins) d 0 ins HLv ltac:(lia) ltac:(unfold skip_fuel; lia))
        as (d' & -> & Hus' & Hl').
      destruct (N.leb_spec (2 ^ 32) ins) as [?|_]; [lia|].
      eexists. split; [reflexivity|].
      unfold RcompS. cbn [s_si s_pos s_state]. repeat split; try assumption.
      exists j, cb. repeat split; try assumption; try lia.
    - assert (HqL : q = Lp) by lia.
      destruct (N.eqb_spec q Lp) as [_|?]; [|lia]. cbn [negb].
      eexists. split; [reflexivity|].
      unfold RcompS. cbn [s_si s_pos s_state]. repeat split; try assumption. right. exact HqL.
  Qed.

  Lemma sseek_start_spec c p q : RcompS c p -> q <= Lp ->
    exists c', sseek_start c q = (c', Ok q) /\ RcompS c' q.
  Proof.
    intros HR Hq. destruct (RcompS_inner c p HR) as (i & Hinto & Hus & Hne).
    pose proof HR as (Hsi & _).
    unfold CompLayerS.sseek_start. rewrite Hsi.
    destruct (s_state c) eqn:Hstc; try congruence;
      apply (sseek_go_spec c i q Hsi); try assumption; rewrite Hstc; exact Hinto.
  Qed.

  Lemma sseek_spec c p w q : RcompS c p -> target Lp p w = Some q ->
    exists c', sseek c w = (c', Ok q) /\ RcompS c' q.
  Proof.
    intros HR Ht. pose proof HR as (Hsi & Hpos & HpL & _).
    unfold target in Ht. unfold CompLayerS.sseek. rewrite Hsi.
    destruct w as [q0|d|d].
    - destruct ((0 <=? Z.of_N q0) && (Z.of_N q0 <=? Z.of_N Lp))%Z eqn:E; [|discriminate].
      injection Ht as <-. rewrite N2Z.id. apply (sseek_start_spec c p); [exact HR | lia].
    - destruct ((0 <=? Z.of_N p + d) && (Z.of_N p + d <=? Z.of_N Lp))%Z eqn:E; [|discriminate].
      injection Ht as <-. rewrite Hpos.
      destruct (Z.eqb_spec d 0) as [->|Hd].
      + exists c. rewrite Z.add_0_r, N2Z.id. split; [reflexivity | exact HR].
      + destruct (N.ltb_spec p (2 ^ 63)) as [_|?]; [|lia].
        destruct (Z.leb_spec (2 ^ 63) (d + Z.of_N p)) as [?|_]; [lia|].
        destruct (Z.leb_spec 0 (d + Z.of_N p)) as [_|?]; [|lia].
        replace (d + Z.of_N p)%Z with (Z.of_N p + d)%Z by lia.
        apply (sseek_start_spec c p); [exact HR | lia].
    - destruct ((0 <=? Z.of_N Lp + d) && (Z.of_N Lp + d <=? Z.of_N Lp))%Z eqn:E; [|discriminate].
      injection Ht as <-. rewrite Hsimax.
      destruct (Z.ltb_spec 0 d) as [?|_]; [lia|].
      destruct (Z.eqb_spec d (- 2 ^ 63)) as [?|_]; [lia|].
      unfold end_target. destruct (N.leb_spec (Z.to_N (- d)) Lp) as [_|?]; [|lia].
      replace (Lp - Z.to_N (- d)) with (Z.to_N (Z.of_N Lp + d)) by lia.
      apply (sseek_start_spec c p); [exact HR | lia].
  Qed.

  (* THE REFINEMENT: the streaming compression reader behaves as a cursor over the plaintext *)
  Theorem comp_stream_reader_refines_gen : Refines CompReaderS plain RcompS.
  Proof.
    constructor.
    - intros s p (_ & _ & Hp & _). exact Hp.
    - intros s p n HRs. cbn [CompLayerS.CompReaderS rd st].
      destruct (sread_spec s p n HRs) as (s' & kk & H1 & H2 & H3 & H4 & H5).
      exists s', kk. auto.
    - intros s p w q HRs Ht. cbn [CompLayerS.CompReaderS sk st]. apply (sseek_spec s p w q HRs Ht).
  Qed.

  (* the invariant after new + initialize (a Ready reader at position p0, as CompLayerProofs.
     comp_open_spec_gen establishes for the whole-block reader) *)
  Lemma RcompS_ready i p0 : usable i -> p0 <= Lp -> (p0 mod BLOCK = 0 \/ p0 = Lp) ->
    RcompS (mkS (SReady i) (Some si0) p0) p0.
  Proof. intros Hus Hp Hm. unfold RcompS. cbn [s_si s_pos s_state]. auto. Qed.

  (* ---------- agreement with the whole-block model ---------- *)
  Variable dec : bytes -> bytes.
  Hypothesis Hdec : forall j cb, nthN cbs j = Some cb -> dec cb = block_at plain j.
  Notation CompReader := (CompReader BLOCK dec S).
  Notation Rcomp := (Rcomp BLOCK S plain cbs Rin).

  (* In states standing at the same position, "read until n bytes or the end" returns the same
     bytes from both readers and every in-range seek returns the same position; the states
     reached stand again at a common position. *)
  Theorem comp_stream_agrees_whole_block s c p :
    RcompS s p -> Rcomp c p ->
    (forall n fuel, (N.to_nat (N.min n (Lp - p)) < fuel)%nat ->
       exists s' c', read_full CompReaderS fuel s n = (s', Ok (sliceN p n plain)) /\
                     read_full CompReader fuel c n = (c', Ok (sliceN p n plain)) /\
                     RcompS s' (p + N.min n (Lp - p)) /\ Rcomp c' (p + N.min n (Lp - p))) /\
    (forall w q, target Lp p w = Some q ->
       exists s' c', sk CompReaderS s w = (s', Ok q) /\ sk CompReader c w = (c', Ok q) /\
                     RcompS s' q /\ Rcomp c' q).
  Proof.
    intros Hs Hc.
    pose proof comp_stream_reader_refines_gen as RS.
    pose proof (comp_reader_refines_gen BLOCK LIMIT HB HB32 dec S plain cbs Hnb Hdec Hlim HL Rin Hin) as RC.
    split.
    - intros n fuel Hf.
      destruct (read_full_spec CompReaderS plain RcompS RS fuel s p n Hs Hf) as (s' & H1 & H2).
      destruct (read_full_spec CompReader plain Rcomp RC fuel c p n Hc Hf) as (c' & H3 & H4).
      exists s', c'. auto.
    - intros w q Ht.
      destruct (ref_sk _ _ _ RS s p w q Hs Ht) as (s' & H1 & H2).
      destruct (ref_sk _ _ _ RC c p w q Hc Ht) as (c' & H3 & H4).
      exists s', c'. auto.
  Qed.
End Refine.
